(** Deadlock freedom of the remote read/write lock with the "always clear" repair of F5:
    a second invariant (who holds / waits for what), preserved by every step, and the case analysis
    that finds an enabled internal action in every state with a pending request and no user guard. *)
From Remoc Require Import Lib.Base Robj.RwLock Robj.RwLockProofs.

Definition rd_pc (p : cpc) : bool := match p with RHasR | RHold => true | _ => false end.
Definition wr_pc (p : cpc) : bool :=
  match p with RHasW | RSending | RWaitVal | RGot _ _ _ => true | _ => false end.

Definition pcli_ok (fx : fixmode) (s : state) (c : nat) (cl : client) : Prop :=
  match c_pc cl with
  | RQueuedR => In (false, HC c) (k_q (kc s cl))
  | RQueuedW => In (true, HC c) (k_q (kc s cl))
  | RSending => fx = FixClear -> k_entry (kc s cl) = None
  | RWaitVal => In c (o_rq s) /\ (fx = FixClear -> k_entry (kc s cl) = None)
  | WWait => In c (o_wq s) \/ o_pc s = OWaitDrop c
  | _ => True
  end.

Definition wr_holder_ok (s : state) (k : nat) (ka : cache) (h : holder) : Prop :=
  match h with
  | HC c => exists cl, nth_error (clients s) c = Some cl /\ c_cache cl = k /\ wr_pc (c_pc cl) = true
  | HM m => exists mo, nth_error (k_mons ka) m = Some mo /\ m_pc mo = MHold
  end.

Definition pcache_ok (s : state) (k : nat) (ka : cache) : Prop :=
  (forall h, In h (k_rd ka) ->
     exists c cl, h = HC c /\ nth_error (clients s) c = Some cl /\ c_cache cl = k /\ rd_pc (c_pc cl) = true) /\
  (forall h, k_wr ka = Some h -> wr_holder_ok s k ka h) /\
  (forall m mo, nth_error (k_mons ka) m = Some mo -> m_pc mo = MQueued -> In (true, HM m) (k_q ka)) /\
  (forall e, k_entry ka = Some e ->
     exists mo, nth_error (k_mons ka) (e_mon e) = Some mo /\ m_gen mo = e_gen e /\ m_pc mo <> MDone) /\
  (forall m mo, nth_error (k_mons ka) m = Some mo -> m_pc mo <> MWatch -> m_seen mo = true).

Record PInv (fx : fixmode) (s : state) : Prop := mkPInv {
  p_cli : forall c cl, nth_error (clients s) c = Some cl -> pcli_ok fx s c cl;
  p_cache : forall k ka, nth_error (caches s) k = Some ka -> pcache_ok s k ka;
  p_glob : forall w, o_pc s = OWaitDrop w -> o_inv s = true;
}.

Lemma kc_ext s s' kk k0 k1 :
  nth_error (caches s) kk = Some k0 ->
  (forall k, nth_error (caches s') k = if Nat.eqb kk k then Some k1 else nth_error (caches s) k) ->
  forall cl0, kc s' cl0 = if Nat.eqb kk (c_cache cl0) then k1 else kc s cl0.
Proof.
  intros Ek0 Hca cl0. unfold kc. destruct (Nat.eqb_spec kk (c_cache cl0)) as [<-|Hne].
  - apply nth_error_nth'. rewrite Hca, Nat.eqb_refl. reflexivity.
  - destruct (nth_error (caches s) (c_cache cl0)) as [ka|] eqn:E.
    + rewrite (nth_error_nth' _ _ _ _ E). apply nth_error_nth'. rewrite Hca.
      destruct (Nat.eqb_spec kk (c_cache cl0)); [contradiction|exact E].
    + assert (E' : nth_error (caches s') (c_cache cl0) = None).
      { rewrite Hca. destruct (Nat.eqb_spec kk (c_cache cl0)); [contradiction|exact E]. }
      apply nth_error_None in E, E'. rewrite !nth_overflow by assumption. reflexivity.
Qed.

Lemma pinv_local fx s s' kk k0 k1 (oc : option (nat * client * client)) :
  Inv s -> PInv fx s -> same_owner s s' -> o_inv s' = o_inv s ->
  nth_error (caches s) kk = Some k0 ->
  (forall k, nth_error (caches s') k = if Nat.eqb kk k then Some k1 else nth_error (caches s) k) ->
  match oc with
  | Some (c, cl, cl') =>
      nth_error (clients s) c = Some cl /\ c_cache cl = kk /\ c_cache cl' = kk /\
      (forall c', nth_error (clients s') c' = if Nat.eqb c c' then Some cl' else nth_error (clients s) c') /\
      pcli_ok fx s' c cl'
  | None => clients s' = clients s
  end ->
  let other c' := match oc with Some (c, _, _) => c' <> c | None => True end in
  (forall h, In h (k_rd k1) ->
     (In h (k_rd k0) /\ match h with HC c' => other c' | HM _ => True end) \/
     match oc with Some (c, _, cl') => h = HC c /\ rd_pc (c_pc cl') = true | None => False end) ->
  (forall h, k_wr k1 = Some h ->
     match h with
     | HC c' => (other c' /\ k_wr k0 = Some h) \/
                match oc with Some (c, _, cl') => c' = c /\ wr_pc (c_pc cl') = true | None => False end
     | HM m => exists mo, nth_error (k_mons k1) m = Some mo /\ m_pc mo = MHold
     end) ->
  (forall m mo, nth_error (k_mons k1) m = Some mo -> m_pc mo = MQueued -> In (true, HM m) (k_q k1)) ->
  (forall e, k_entry k1 = Some e ->
     exists mo, nth_error (k_mons k1) (e_mon e) = Some mo /\ m_gen mo = e_gen e /\ m_pc mo <> MDone) ->
  (forall m mo, nth_error (k_mons k1) m = Some mo -> m_pc mo <> MWatch -> m_seen mo = true) ->
  (forall w c', other c' -> In (w, HC c') (k_q k0) -> In (w, HC c') (k_q k1)) ->
  (fx = FixClear -> forall c', other c' -> k_wr k0 = Some (HC c') -> k_entry k0 = None -> k_entry k1 = None) ->
  PInv fx s'.
Proof.
  intros HI [Pc Pk Pg] Hso Hinv Ek0 Hca Hoc other KR KW KM KE KS OQ OE.
  pose proof (kc_ext s s' kk k0 k1 Ek0 Hca) as Hkc.
  destruct Hso as ((S1 & S2 & S3 & S4 & S5) & S6 & S7 & S8 & S9).
  assert (Hcl_other : forall c' cl0, nth_error (clients s) c' = Some cl0 -> other c' ->
                        nth_error (clients s') c' = Some cl0).
  { intros c' cl0 Hn Ho. destruct oc as [[[c cl] cl']|]; [|now rewrite Hoc].
    destruct Hoc as (_ & _ & _ & Hcl & _). rewrite Hcl.
    destruct (Nat.eqb_spec c c'); [cbn in Ho; congruence|exact Hn]. }
  assert (Hother : forall c' cl0, nth_error (clients s) c' = Some cl0 -> other c' -> pcli_ok fx s' c' cl0).
  { intros c' cl0 Hn Ho. specialize (Pc _ _ Hn). destruct (inv_cli _ HI _ _ Hn) as [_ Ic].
    unfold pcli_ok in *. rewrite S3, S8, S9, Hkc.
    destruct (Nat.eqb_spec kk (c_cache cl0)) as [E|_]; [|exact Pc].
    assert (Ekc : kc s cl0 = k0). { unfold kc. rewrite <- E. now apply nth_error_nth'. }
    rewrite Ekc in Pc, Ic. destruct (c_pc cl0); auto.
    - intros Hf. eapply OE; eauto.
    - destruct Pc as [P1 P2]. split; [exact P1|]. intros Hf. eapply OE; eauto. }
  split.
  - intros c' cl0 Hn. destruct oc as [[[c cl] cl']|].
    + destruct Hoc as (Ecl & _ & _ & Hcl & Hok). rewrite Hcl in Hn.
      destruct (Nat.eqb_spec c c') as [<-|Hne].
      * inversion Hn; subst. exact Hok.
      * apply Hother; [exact Hn|]. cbn. congruence.
    + rewrite Hoc in Hn. apply Hother; [exact Hn|exact I].
  - intros k ka Hn. rewrite Hca in Hn. destruct (Nat.eqb_spec kk k) as [<-|Hne].
    + inversion Hn; subst ka; clear Hn. destruct (Pk _ _ Ek0) as (R0 & W0 & _ & _ & _).
      split; [|split; [|split; [exact KM|split; [exact KE|exact KS]]]].
      * intros h Hin. destruct (KR _ Hin) as [[Hin0 Ho]|K].
        -- destruct (R0 _ Hin0) as (c' & cl0 & -> & A & B & C). exists c', cl0.
           split; [reflexivity|]. split; [now apply Hcl_other|tauto].
        -- destruct oc as [[[c cl] cl']|]; [|contradiction]. destruct K as [-> K].
           destruct Hoc as (_ & _ & Hc2 & Hcl & _). exists c, cl'. rewrite Hcl, Nat.eqb_refl. tauto.
      * intros h Hw. specialize (KW _ Hw). destruct h as [c'|m]; cbn [wr_holder_ok]; [|exact KW].
        destruct KW as [[Ho Hw0]|K].
        -- specialize (W0 _ Hw0). cbn [wr_holder_ok] in W0. destruct W0 as (cl0 & A & B & C).
           exists cl0. split; [now apply Hcl_other|tauto].
        -- destruct oc as [[[c cl] cl']|]; [|contradiction]. destruct K as [-> K].
           destruct Hoc as (_ & _ & Hc2 & Hcl & _). exists cl'. rewrite Hcl, Nat.eqb_refl. tauto.
    + destruct (Pk _ _ Hn) as (R0 & W0 & M0 & E0 & S0).
      assert (Hnc : forall c' cl0, nth_error (clients s) c' = Some cl0 -> c_cache cl0 = k -> other c').
      { intros c' cl0 A B. destruct oc as [[[c cl] cl']|]; [|exact I]. cbn.
        destruct Hoc as (Ecl & Hc1 & _). intros ->. congruence. }
      split; [|split; [|split; [exact M0|split; [exact E0|exact S0]]]].
      * intros h Hin. destruct (R0 _ Hin) as (c' & cl0 & -> & A & B & C). exists c', cl0.
        split; [reflexivity|]. split; [apply Hcl_other; eauto|tauto].
      * intros h Hw. specialize (W0 _ Hw). destruct h as [c'|m]; cbn [wr_holder_ok] in *; [|exact W0].
        destruct W0 as (cl0 & A & B & C). exists cl0. split; [apply Hcl_other; eauto|tauto].
  - intros w Hw. rewrite Hinv. apply (Pg w). congruence.
Qed.

Lemma pcli_ok_same fx s s' c cl :
  o_rq s' = o_rq s -> o_wq s' = o_wq s -> o_pc s' = o_pc s -> caches s' = caches s ->
  pcli_ok fx s c cl -> pcli_ok fx s' c cl.
Proof. intros E1 E2 E3 E4. unfold pcli_ok, kc. rewrite E1, E2, E3, E4. auto. Qed.

Lemma pinv_global fx s s' (oc : option (nat * client * client)) :
  PInv fx s -> caches s' = caches s ->
  match oc with
  | Some (c, cl, cl') =>
      nth_error (clients s) c = Some cl /\ c_cache cl' = c_cache cl /\
      (rd_pc (c_pc cl) = true -> rd_pc (c_pc cl') = true) /\
      (wr_pc (c_pc cl) = true -> wr_pc (c_pc cl') = true) /\
      (forall c', nth_error (clients s') c' = if Nat.eqb c c' then Some cl' else nth_error (clients s) c') /\
      pcli_ok fx s' c cl'
  | None => clients s' = clients s
  end ->
  (forall c' cl0, match oc with Some (c, _, _) => c' <> c | None => True end ->
     nth_error (clients s) c' = Some cl0 -> pcli_ok fx s c' cl0 -> pcli_ok fx s' c' cl0) ->
  (forall w, o_pc s' = OWaitDrop w -> o_inv s' = true) ->
  PInv fx s'.
Proof.
  intros [Pc Pk Pg] Eca Hoc Hoth Hg.
  assert (Hex : forall c' cl0, nth_error (clients s) c' = Some cl0 ->
            exists cl1, nth_error (clients s') c' = Some cl1 /\ c_cache cl1 = c_cache cl0 /\
                        (rd_pc (c_pc cl0) = true -> rd_pc (c_pc cl1) = true) /\
                        (wr_pc (c_pc cl0) = true -> wr_pc (c_pc cl1) = true)).
  { intros c' cl0 Hn. destruct oc as [[[c cl] cl']|].
    - destruct Hoc as (Ecl & Hc & Hr & Hw & Hcl & _). rewrite Hcl.
      destruct (Nat.eqb_spec c c') as [<-|]; [|exists cl0; auto].
      rewrite Ecl in Hn. inversion Hn; subst. exists cl'. auto.
    - rewrite Hoc. exists cl0. auto. }
  split; [| |exact Hg].
  - intros c' cl0 Hn. destruct oc as [[[c cl] cl']|].
    + destruct Hoc as (Ecl & _ & _ & _ & Hcl & Hok). rewrite Hcl in Hn.
      destruct (Nat.eqb_spec c c') as [<-|Hne].
      * inversion Hn; subst. exact Hok.
      * apply Hoth; auto.
    + rewrite Hoc in Hn. apply Hoth; auto.
  - intros k ka Hn. rewrite Eca in Hn. destruct (Pk _ _ Hn) as (R0 & W0 & M0 & E0 & S0).
    split; [|split; [|split; [exact M0|split; [exact E0|exact S0]]]].
    + intros h Hin. destruct (R0 _ Hin) as (c' & cl0 & -> & A & B & C).
      destruct (Hex _ _ A) as (cl1 & A1 & A2 & A3 & _). exists c', cl1.
      split; [reflexivity|]. split; [exact A1|]. split; [congruence|auto].
    + intros h Hw. specialize (W0 _ Hw). destruct h as [c'|m]; cbn [wr_holder_ok] in *; [|exact W0].
      destruct W0 as (cl0 & A & B & C). destruct (Hex _ _ A) as (cl1 & A1 & A2 & _ & A4).
      exists cl1. split; [exact A1|]. split; [congruence|auto].
Qed.

Lemma rd_self fx s k k0 c cl :
  PInv fx s -> nth_error (caches s) k = Some k0 -> In (HC c) (k_rd k0) ->
  nth_error (clients s) c = Some cl -> rd_pc (c_pc cl) = true.
Proof.
  intros [_ Pk _] Ek Hin Ecl. destruct (Pk _ _ Ek) as (R0 & _).
  destruct (R0 _ Hin) as (c' & cl0 & E & A & _ & C). inversion E; subst. congruence.
Qed.

Lemma wr_self fx s k k0 c cl :
  PInv fx s -> nth_error (caches s) k = Some k0 -> k_wr k0 = Some (HC c) ->
  nth_error (clients s) c = Some cl -> wr_pc (c_pc cl) = true.
Proof.
  intros [_ Pk _] Ek Hw Ecl. destruct (Pk _ _ Ek) as (_ & W0 & _).
  specialize (W0 _ Hw). cbn [wr_holder_ok] in W0. destruct W0 as (cl0 & A & _ & C). congruence.
Qed.

(** ** every step preserves the second invariant *)

Ltac hother Hself Epc :=
  cbn; intros ->; let X := fresh in pose proof Hself as X; rewrite Epc in X; discriminate X.

Lemma pstep_invread fx s s' c : Inv s -> PInv fx s -> step_user (AInvRead c) s = Some s' -> PInv fx s'.
Proof.
  intros HI HP H. cbn [step_user] in H.
  destruct (nth_error (clients s) c) as [cl|] eqn:Ecl; [|discriminate].
  destruct (c_pc cl) eqn:Epc; try discriminate.
  destruct (nth_error (caches s) (c_cache cl)) as [k0|] eqn:Ek0; [|discriminate].
  inversion H; subst s'; clear H.
  destruct (p_cache _ _ HP _ _ Ek0) as (R0 & W0 & M0 & E0 & S0).
  apply (pinv_local fx s _ (c_cache cl) k0 (k_enq false (HC c) k0)
           (Some (c, cl, mkCl (c_cache cl) RQueuedR (idx s))));
    [exact HI|exact HP|sc|reflexivity|exact Ek0|updf Ek0| | | | | | | |].
  - split; [exact Ecl|]. split; [reflexivity|]. split; [reflexivity|]. split; [updf Ecl|].
    unfold pcli_ok. cbn [c_pc]. erewrite kc_local; [|exact Ek0|reflexivity|reflexivity].
    sprjg. apply in_or_app. right. now left.
  - sprjg. intros h Hin. left. split; [exact Hin|]. destruct h as [c'|]; [|exact I].
    cbn; intros ->; pose proof (rd_self _ _ _ _ _ _ HP Ek0 Hin Ecl) as X; rewrite Epc in X; discriminate X.
  - sprjg. intros h Hw. destruct h as [c'|m]; [|exact (W0 _ Hw)].
    left. split; [|exact Hw]. cbn; intros ->; pose proof (wr_self _ _ _ _ _ _ HP Ek0 Hw Ecl) as X; rewrite Epc in X; discriminate X.
  - sprjg. intros m mo Hm Hp. apply in_or_app. left. eauto.
  - sprjg. exact E0.
  - sprjg. exact S0.
  - sprjg. intros w c' _ Hin. apply in_or_app. now left.
  - sprjg. auto.
Qed.

(** user/owner-side steps where only one client's pc changes and nothing about locks *)
Lemma pstep_simple fx s c cl p s' :
  PInv fx s -> nth_error (clients s) c = Some cl ->
  rd_pc (c_pc cl) = false -> wr_pc (c_pc cl) = false ->
  caches s' = caches s -> o_rq s' = o_rq s -> o_wq s' = o_wq s -> o_pc s' = o_pc s -> o_inv s' = o_inv s ->
  (forall c', nth_error (clients s') c' = if Nat.eqb c c' then Some (mkCl (c_cache cl) p (c_start (cl_pc p cl))) else nth_error (clients s) c') \/
  (exists st, forall c', nth_error (clients s') c' = if Nat.eqb c c' then Some (mkCl (c_cache cl) p st) else nth_error (clients s) c') ->
  pcli_ok fx s' c (mkCl (c_cache cl) p 0) ->
  PInv fx s'.
Proof.
  intros HP Ecl Hr Hw Eca E1 E2 E3 E4 Hcl Hok.
  assert (Hcl' : exists st, forall c', nth_error (clients s') c' = if Nat.eqb c c' then Some (mkCl (c_cache cl) p st) else nth_error (clients s) c').
  { destruct Hcl as [Hcl|Hcl]; [eexists; exact Hcl|exact Hcl]. }
  destruct Hcl' as [st Hcl'].
  apply (pinv_global fx s s' (Some (c, cl, mkCl (c_cache cl) p st))); [exact HP|exact Eca| | |].
  - split; [exact Ecl|]. split; [reflexivity|]. split; [congruence|]. split; [congruence|].
    split; [exact Hcl'|exact Hok].
  - intros c' cl0 _ _. now apply pcli_ok_same.
  - intros w Hw'. rewrite E4. apply (p_glob _ _ HP w). congruence.
Qed.

Lemma pstep_invwrite fx s s' c : PInv fx s -> step_user (AInvWrite c) s = Some s' -> PInv fx s'.
Proof.
  intros HP H. cbn [step_user] in H.
  destruct (nth_error (clients s) c) as [cl|] eqn:Ecl; [|discriminate].
  destruct (c_pc cl) eqn:Epc; try discriminate. inversion H; subst s'; clear H.
  apply (pstep_simple fx s c cl WSending _ HP Ecl);
    [now rewrite Epc|now rewrite Epc|reflexivity|reflexivity|reflexivity|reflexivity|reflexivity| |exact I].
  right. exists (idx s). updf Ecl.
Qed.

Lemma pstep_commit fx s s' c v : PInv fx s -> step_user (ACommit c v) s = Some s' -> PInv fx s'.
Proof.
  intros HP H. cbn [step_user] in H.
  destruct (nth_error (clients s) c) as [cl|] eqn:Ecl; [|discriminate].
  destruct (c_pc cl) eqn:Epc; try discriminate. inversion H; subst s'; clear H.
  apply (pstep_simple fx s c cl (WCommitWait v) _ HP Ecl);
    [now rewrite Epc|now rewrite Epc|reflexivity|reflexivity|reflexivity|reflexivity|reflexivity| |exact I].
  left. updf Ecl.
Qed.

Lemma pstep_dropw fx s s' c : PInv fx s -> step_user (ADropW c) s = Some s' -> PInv fx s'.
Proof.
  intros HP H. cbn [step_user] in H.
  destruct (nth_error (clients s) c) as [cl|] eqn:Ecl; [|discriminate].
  destruct (c_pc cl) eqn:Epc; try discriminate. inversion H; subst s'; clear H.
  apply (pstep_simple fx s c cl CIdle _ HP Ecl);
    [now rewrite Epc|now rewrite Epc|reflexivity|reflexivity|reflexivity|reflexivity|reflexivity| |exact I].
  left. updf Ecl.
Qed.

Lemma pstep_release fx s s' c : Inv s -> PInv fx s -> step_user (ARelease c) s = Some s' -> PInv fx s'.
Proof.
  intros HI HP H. cbn [step_user] in H.
  destruct (nth_error (clients s) c) as [cl|] eqn:Ecl; [|discriminate].
  destruct (c_pc cl) eqn:Epc; try discriminate. inversion H; subst s'; clear H.
  destruct (inv_cli _ HI _ _ Ecl) as [_ Hcl]. rewrite Epc in Hcl. destruct Hcl as [Hin _].
  destruct (kc_in_range s cl) as [k0 Ek0]. { right. intros E. rewrite E in Hin. destruct Hin. }
  destruct (p_cache _ _ HP _ _ Ek0) as (R0 & W0 & M0 & E0 & S0).
  apply (pinv_local fx s _ (c_cache cl) k0 (k_unread (HC c) k0) (Some (c, cl, cl_pc CIdle cl)));
    [exact HI|exact HP|sc|reflexivity|exact Ek0|updf Ek0| | | | | | | |].
  - split; [exact Ecl|]. split; [reflexivity|]. split; [reflexivity|]. split; [updf Ecl|exact I].
  - sprjg. intros h Hh. apply in_unread in Hh. destruct Hh as [Hh Hne]. left. split; [exact Hh|].
    destruct h; [|exact I]. cbn. congruence.
  - sprjg. intros h Hw. destruct h as [c'|m]; [|exact (W0 _ Hw)].
    left. split; [|exact Hw]. cbn; intros ->; pose proof (wr_self _ _ _ _ _ _ HP Ek0 Hw Ecl) as X; rewrite Epc in X; discriminate X.
  - sprjg. exact M0.
  - sprjg. exact E0.
  - sprjg. exact S0.
  - sprjg. auto.
  - sprjg. auto.
Qed.

Lemma pstep_grant fx s s' kk : Inv s -> PInv fx s -> step_grant kk s = Some s' -> PInv fx s'.
Proof.
  intros HI HP H. unfold step_grant in H.
  destruct (nth_error (caches s) kk) as [k0|] eqn:Ek0; [|discriminate].
  destruct (grant k0) as [[[k' w] h]|] eqn:Eg; [|discriminate].
  destruct (inv_cache _ HI _ _ Ek0) as (Q1 & Q2 & Q3 & Q4 & Q5).
  destruct (p_cache _ _ HP _ _ Ek0) as (R0 & W0 & M0 & E0 & S0).
  unfold grant in Eg. destruct (k_q k0) as [|[w0 h0] q'] eqn:Eq; [discriminate|].
  assert (Hfront := Q5 w0 h0 (or_introl eq_refl)). cbn [queued_ok] in Hfront.
  destruct w0.
  - destruct (k_wr k0) eqn:Ewr; [discriminate|]. destruct (k_rd k0) eqn:Erd; [|discriminate].
    inversion Eg; subst k' w h; clear Eg. destruct h0 as [c|m].
    + destruct Hfront as (cl & Ecl & Ecache & Epc). cbv iota beta in H; inversion H; subst s'; clear H.
      apply (pinv_local fx s _ kk k0 (k_set_wr (Some (HC c)) (k_set_q q' k0)) (Some (c, cl, cl_pc RHasW cl)));
        [exact HI|exact HP|sc|reflexivity|exact Ek0|updf Ek0| | | | | | | |].
      * split; [exact Ecl|]. split; [exact Ecache|]. split; [exact Ecache|]. split; [updf Ecl|exact I].
      * sprjg. rewrite Erd. intros h [].
      * sprjg. intros h Hw. inversion Hw; subst h. right. split; reflexivity.
      * sprjg. intros m mo Hm Hp. specialize (M0 _ _ Hm Hp). try rewrite Eq in M0.
        destruct M0 as [M0|M0]; [discriminate|exact M0].
      * sprjg. exact E0.
      * sprjg. exact S0.
      * sprjg. intros w c' Hne Hin. rewrite Eq in Hin. destruct Hin as [Hin|Hin]; [|exact Hin].
        inversion Hin; subst. cbn in Hne. congruence.
      * sprjg. intros _ c' _ Hw. rewrite Hw in Ewr. discriminate.
    + destruct Hfront as (_ & mo & Emo & Empc). cbv iota beta in H; inversion H; subst s'; clear H.
      apply (pinv_local fx s _ kk k0 (k_set_mons (upd m (m_set_pc MHold) (k_mons k0)) (k_set_wr (Some (HM m)) (k_set_q q' k0))) None);
        [exact HI|exact HP|sc|reflexivity|exact Ek0|updf Ek0|reflexivity| | | | | | |].
      * sprjg. rewrite Erd. intros h [].
      * sprjg. intros h Hw. inversion Hw; subst h. exists (m_set_pc MHold mo).
        rewrite nth_error_upd, Nat.eqb_refl, Emo. split; reflexivity.
      * sprjg. intros m' mo' Hm Hp. rewrite nth_error_upd in Hm. destruct (Nat.eqb_spec m m') as [<-|Hne].
        -- rewrite Emo in Hm. inversion Hm; subst mo'. discriminate.
        -- specialize (M0 _ _ Hm Hp). try rewrite Eq in M0. destruct M0 as [M0|M0]; [|exact M0].
           inversion M0. congruence.
      * sprjg. intros e He. destruct (E0 _ He) as (mo' & A & B & C). rewrite nth_error_upd.
        destruct (Nat.eqb_spec m (e_mon e)) as [Em|]; [|eauto].
        rewrite A. exists (m_set_pc MHold mo'). split; [reflexivity|]. split; [exact B|discriminate].
      * sprjg. intros m' mo' Hm Hp. rewrite nth_error_upd in Hm. destruct (Nat.eqb_spec m m') as [<-|Hne]; [|eauto].
        rewrite Emo in Hm. inversion Hm; subst mo'. cbn. apply (S0 _ _ Emo). congruence.
      * sprjg. intros w c' _ Hin. rewrite Eq in Hin. destruct Hin as [Hin|Hin]; [discriminate|exact Hin].
      * sprjg. intros _ c' _ Hw. rewrite Hw in Ewr. discriminate.
  - destruct (k_wr k0) eqn:Ewr; [discriminate|].
    inversion Eg; subst k' w h; clear Eg. destruct h0 as [c|m].
    + destruct Hfront as (cl & Ecl & Ecache & Epc). cbv iota beta in H; inversion H; subst s'; clear H.
      apply (pinv_local fx s _ kk k0 (k_set_rd (k_rd k0 ++ [HC c]) (k_set_q q' k0)) (Some (c, cl, cl_pc RHasR cl)));
        [exact HI|exact HP|sc|reflexivity|exact Ek0|updf Ek0| | | | | | | |].
      * split; [exact Ecl|]. split; [exact Ecache|]. split; [exact Ecache|]. split; [updf Ecl|exact I].
      * sprjg. intros h Hin. apply in_app_or in Hin. destruct Hin as [Hin|[<-|[]]].
        -- left. split; [exact Hin|]. destruct h as [c'|]; [|exact I].
           cbn; intros ->; pose proof (rd_self _ _ _ _ _ _ HP Ek0 Hin Ecl) as X; rewrite Epc in X; discriminate X.
        -- right. split; reflexivity.
      * sprjg. intros h Hw. rewrite Ewr in Hw. discriminate.
      * sprjg. intros m mo Hm Hp. specialize (M0 _ _ Hm Hp). try rewrite Eq in M0.
        destruct M0 as [M0|M0]; [discriminate|exact M0].
      * sprjg. exact E0.
      * sprjg. exact S0.
      * sprjg. intros w c' Hne Hin. rewrite Eq in Hin. destruct Hin as [Hin|Hin]; [|exact Hin].
        inversion Hin; subst. cbn in Hne. congruence.
      * sprjg. intros _ c' _ Hw. rewrite Hw in Ewr. discriminate.
    + destruct Hfront as (Hf & _). discriminate.
Qed.

Lemma fix_entry_clear k : fix_entry FixClear k = None.
Proof. reflexivity. Qed.

Lemma pstep_cli fx s s' c : Inv s -> PInv fx s -> step_cli fx c s = Some s' -> PInv fx s'.
Proof.
  intros HI HP H. unfold step_cli in H.
  destruct (nth_error (clients s) c) as [cl|] eqn:Ecl; [|discriminate].
  destruct (inv_cli _ HI _ _ Ecl) as [_ Hcl]. pose proof (p_cli _ _ HP _ _ Ecl) as Pcl. unfold pcli_ok in Pcl.
  destruct (c_pc cl) eqn:Epc; try discriminate.
  - (* RHasR *)
    destruct (nth_error (caches s) (c_cache cl)) as [k0|] eqn:Ek0; [|discriminate].
    destruct (p_cache _ _ HP _ _ Ek0) as (R0 & W0 & M0 & E0 & S0).
    assert (Hslow : PInv fx (set_pc c RQueuedW (set_cache (c_cache cl) (fun k => k_enq true (HC c) (k_unread (HC c) k)) s))).
    { apply (pinv_local fx s _ (c_cache cl) k0 (k_enq true (HC c) (k_unread (HC c) k0)) (Some (c, cl, cl_pc RQueuedW cl)));
        [exact HI|exact HP|sc|reflexivity|exact Ek0|updf Ek0| | | | | | | |].
      - split; [exact Ecl|]. split; [reflexivity|]. split; [reflexivity|]. split; [updf Ecl|].
        unfold pcli_ok. cbn [c_pc cl_pc]. erewrite kc_local; [|exact Ek0|reflexivity|reflexivity].
        sprjg. apply in_or_app. right. now left.
      - sprjg. intros h Hh. apply in_unread in Hh. destruct Hh as [Hh Hne]. left. split; [exact Hh|].
        destruct h; [|exact I]. cbn. congruence.
      - sprjg. intros h Hw. destruct h as [c'|m]; [|exact (W0 _ Hw)].
        left. split; [|exact Hw]. cbn; intros ->; pose proof (wr_self _ _ _ _ _ _ HP Ek0 Hw Ecl) as X; rewrite Epc in X; discriminate X.
      - sprjg. intros m mo Hm Hp. apply in_or_app. left. eauto.
      - sprjg. exact E0.
      - sprjg. exact S0.
      - sprjg. intros w c' _ Hin. apply in_or_app. now left.
      - sprjg. auto. }
    destruct (k_entry k0) as [e|] eqn:Ee; [|inversion H; subst s'; exact Hslow].
    destruct (ent_valid k0 e); [|inversion H; subst s'; exact Hslow].
    inversion H; subst s'; clear H.
    apply (pinv_global fx s _ (Some (c, cl, cl_pc RHold cl))); [exact HP|reflexivity| | |].
    + split; [exact Ecl|]. split; [reflexivity|]. split; [reflexivity|]. split; [now rewrite Epc|].
      split; [updf Ecl|exact I].
    + intros c' cl0 _ _. now apply pcli_ok_same.
    + exact (p_glob _ _ HP).
  - (* RHasW *)
    destruct (nth_error (caches s) (c_cache cl)) as [k0|] eqn:Ek0; [|discriminate].
    rewrite (kc_at _ _ _ _ Ek0 eq_refl) in Hcl.
    destruct (p_cache _ _ HP _ _ Ek0) as (R0 & W0 & M0 & E0 & S0).
    inversion H; subst s'; clear H.
    apply (pinv_local fx s _ (c_cache cl) k0 (k_set_entry (fix_entry fx k0) k0) (Some (c, cl, cl_pc RSending cl)));
      [exact HI|exact HP|sc|reflexivity|exact Ek0|updf Ek0| | | | | | | |].
    + split; [exact Ecl|]. split; [reflexivity|]. split; [reflexivity|]. split; [updf Ecl|].
      unfold pcli_ok. cbn [c_pc cl_pc]. erewrite kc_local; [|exact Ek0|reflexivity|reflexivity].
      sprjg. intros ->. reflexivity.
    + sprjg. intros h Hin. left. split; [exact Hin|]. destruct h as [c'|]; [|exact I].
      cbn; intros ->; pose proof (rd_self _ _ _ _ _ _ HP Ek0 Hin Ecl) as X; rewrite Epc in X; discriminate X.
    + sprjg. intros h Hw. rewrite Hcl in Hw. inversion Hw; subst h. right. split; reflexivity.
    + sprjg. exact M0.
    + sprjg. intros e He. destruct (fix_entry_cases fx k0) as [E|E]; rewrite E in He; [auto|discriminate].
    + sprjg. exact S0.
    + sprjg. auto.
    + sprjg. intros _ c' Hne Hw. rewrite Hcl in Hw. inversion Hw. cbn in Hne. congruence.
  - (* RSending *)
    inversion H; subst s'; clear H.
    apply (pinv_global fx s _ (Some (c, cl, cl_pc RWaitVal cl))); [exact HP|reflexivity| | |].
    + split; [exact Ecl|]. split; [reflexivity|]. split; [now rewrite Epc|]. split; [reflexivity|].
      split; [updf Ecl|]. unfold pcli_ok. cbn [c_pc cl_pc]. split; [sprjg; apply in_or_app; right; now left|exact Pcl].
    + intros c' cl0 _ _. unfold pcli_ok, kc. sprjg. destruct (c_pc cl0); auto.
      intros [A B]. split; [apply in_or_app; now left|exact B].
    + exact (p_glob _ _ HP).
  - (* RGot *)
    destruct (nth_error (caches s) (c_cache cl)) as [k0|] eqn:Ek0; [|discriminate].
    rewrite (kc_at _ _ _ _ Ek0 eq_refl) in Hcl. destruct Hcl as [Hcp Hwr].
    destruct (inv_cache _ HI _ _ Ek0) as (Q1 & _).
    destruct (p_cache _ _ HP _ _ Ek0) as (R0 & W0 & M0 & E0 & S0).
    inversion H; subst s'; clear H.
    match goal with |- PInv fx (set_pc c RHold (set_cache _ (fun _ => ?K) s)) =>
      apply (pinv_local fx s _ (c_cache cl) k0 K (Some (c, cl, cl_pc RHold cl)));
        [exact HI|exact HP|sc|reflexivity|exact Ek0|updf Ek0| | | | | | | |] end.
    + split; [exact Ecl|]. split; [reflexivity|]. split; [reflexivity|]. split; [updf Ecl|exact I].
    + sprjg. rewrite Q1 by congruence. intros h [<-|[]]. right. split; reflexivity.
    + sprjg. intros h Hw. discriminate.
    + sprjg. intros m mo Hm Hp. apply nth_error_snoc_inv in Hm. destruct Hm as [Hm|[_ ->]]; [eauto|discriminate].
    + sprjg. intros e He. inversion He; subst e. sprjg. exists (mkM g false MWatch).
      rewrite nth_error_app_last. split; [reflexivity|]. split; [reflexivity|discriminate].
    + sprjg. intros m mo Hm Hp. apply nth_error_snoc_inv in Hm. destruct Hm as [Hm|[_ ->]]; [eauto|].
      exfalso. apply Hp. reflexivity.
    + sprjg. auto.
    + sprjg. intros _ c' Hne Hw. rewrite Hwr in Hw. inversion Hw. cbn in Hne. congruence.
  - (* WSending *)
    inversion H; subst s'; clear H.
    apply (pinv_global fx s _ (Some (c, cl, cl_pc WWait cl))); [exact HP|reflexivity| | |].
    + split; [exact Ecl|]. split; [reflexivity|]. split; [now rewrite Epc|]. split; [now rewrite Epc|].
      split; [updf Ecl|]. unfold pcli_ok. cbn [c_pc cl_pc]. left. sprjg. apply in_or_app. right. now left.
    + intros c' cl0 _ _. unfold pcli_ok, kc. sprjg. destruct (c_pc cl0); auto.
      intros [A|A]; [left; apply in_or_app; now left|now right].
    + exact (p_glob _ _ HP).
  - (* WGot *)
    inversion H; subst s'; clear H.
    apply (pinv_global fx s _ (Some (c, cl, cl_pc (WHold v i) cl))); [exact HP|reflexivity| | |].
    + split; [exact Ecl|]. split; [reflexivity|]. split; [now rewrite Epc|]. split; [now rewrite Epc|].
      split; [updf Ecl|exact I].
    + intros c' cl0 _ _. now apply pcli_ok_same.
    + exact (p_glob _ _ HP).
  - (* WConfirmed *)
    inversion H; subst s'; clear H.
    apply (pinv_global fx s _ (Some (c, cl, cl_pc CIdle cl))); [exact HP|reflexivity| | |].
    + split; [exact Ecl|]. split; [reflexivity|]. split; [now rewrite Epc|]. split; [now rewrite Epc|].
      split; [updf Ecl|exact I].
    + intros c' cl0 _ _. now apply pcli_ok_same.
    + exact (p_glob _ _ HP).
Qed.

Lemma pstep_mon fx s s' kk m : Inv s -> PInv fx s -> step_mon kk m s = Some s' -> PInv fx s'.
Proof.
  intros HI HP H. unfold step_mon in H.
  destruct (nth_error (caches s) kk) as [k0|] eqn:Ek0; [|discriminate].
  destruct (nth_error (k_mons k0) m) as [mo|] eqn:Emo; [|discriminate].
  destruct (inv_cache _ HI _ _ Ek0) as (Q1 & Q2 & Q3 & Q4 & Q5).
  destruct (p_cache _ _ HP _ _ Ek0) as (R0 & W0 & M0 & E0 & S0).
  destruct (m_pc mo) eqn:Epc; try discriminate.
  - destruct (m_seen mo) eqn:Es; [|discriminate]. inversion H; subst s'; clear H.
    apply (pinv_local fx s _ kk k0 (k_enq true (HM m) (k_set_mons (upd m (m_set_pc MQueued) (k_mons k0)) k0)) None);
      [exact HI|exact HP|sc|reflexivity|exact Ek0|updf Ek0|reflexivity| | | | | | |].
    + sprjg. intros h Hin. left. split; [exact Hin|]. destruct h; exact I.
    + sprjg. intros h Hw. destruct h as [c'|m']; [left; split; [exact I|exact Hw]|].
      specialize (W0 _ Hw). cbn [wr_holder_ok] in W0. destruct W0 as (mo' & A & B).
      exists mo'. split; [|exact B]. rewrite nth_error_upd. destruct (Nat.eqb_spec m m') as [<-|]; [congruence|exact A].
    + sprjg. intros m' mo' Hm Hp. apply in_or_app. rewrite nth_error_upd in Hm.
      destruct (Nat.eqb_spec m m') as [<-|]; [right; now left|left; eauto].
    + sprjg. intros e He. destruct (E0 _ He) as (mo' & A & B & C). rewrite nth_error_upd.
      destruct (Nat.eqb_spec m (e_mon e)) as [Em|]; [|eauto].
      rewrite A. exists (m_set_pc MQueued mo'). split; [reflexivity|]. split; [exact B|discriminate].
    + sprjg. intros m' mo' Hm Hp. rewrite nth_error_upd in Hm. destruct (Nat.eqb_spec m m') as [<-|]; [|eauto].
      rewrite Emo in Hm. inversion Hm; subst mo'. exact Es.
    + sprjg. intros w c' _ Hin. apply in_or_app. now left.
    + sprjg. auto.
  - inversion H; subst s'; clear H. assert (Hwr := Q3 _ _ Emo Epc).
    assert (Hseen : m_seen mo = true). { apply (S0 _ _ Emo). congruence. }
    match goal with |- PInv fx (set_cache kk (fun _ => k_set_wr None (k_set_entry ?E _)) s) =>
      apply (pinv_local fx s _ kk k0 (k_set_wr None (k_set_entry E (k_set_mons (upd m (m_set_pc MDone) (k_mons k0)) k0))) None);
        [exact HI|exact HP|sc|reflexivity|exact Ek0|updf Ek0|reflexivity| | | | | | |] end.
    + sprjg. intros h Hin. left. split; [exact Hin|]. destruct h; exact I.
    + sprjg. intros h Hw. discriminate.
    + sprjg. intros m' mo' Hm Hp. rewrite nth_error_upd in Hm. destruct (Nat.eqb_spec m m') as [<-|]; [|eauto].
      rewrite Emo in Hm. inversion Hm; subst mo'. discriminate.
    + sprjg. intros e He. destruct (k_entry k0) as [e0|] eqn:Ee; [|discriminate].
      destruct (ent_valid k0 e0) eqn:Ev; [|discriminate]. inversion He; subst e0.
      destruct (E0 _ eq_refl) as (mo' & A & B & C). rewrite nth_error_upd.
      destruct (Nat.eqb_spec m (e_mon e)) as [Em|]; [|eauto].
      exfalso. unfold ent_valid in Ev. rewrite <- Em, Emo, Hseen in Ev. discriminate.
    + sprjg. intros m' mo' Hm Hp. rewrite nth_error_upd in Hm. destruct (Nat.eqb_spec m m') as [<-|]; [|eauto].
      rewrite Emo in Hm. inversion Hm; subst mo'. exact Hseen.
    + sprjg. auto.
    + sprjg. intros _ c' _ Hw. congruence.
Qed.

Lemma pstep_see fx s s' kk m : Inv s -> PInv fx s -> step_see kk m s = Some s' -> PInv fx s'.
Proof.
  intros HI HP H. unfold step_see in H.
  destruct (nth_error (caches s) kk) as [k0|] eqn:Ek0; [|discriminate].
  destruct (nth_error (k_mons k0) m) as [mo|] eqn:Emo; [|discriminate].
  destruct (p_cache _ _ HP _ _ Ek0) as (R0 & W0 & M0 & E0 & S0).
  destruct (negb (m_seen mo) && invalidated s (m_gen mo)); [|discriminate].
  inversion H; subst s'; clear H.
  assert (Hm : forall m' mo', nth_error (upd m m_set_seen (k_mons k0)) m' = Some mo' ->
                exists mo0, nth_error (k_mons k0) m' = Some mo0 /\ m_pc mo' = m_pc mo0 /\ m_gen mo' = m_gen mo0 /\
                            (m_seen mo0 = true -> m_seen mo' = true)).
  { intros m' mo' Hn. rewrite nth_error_upd in Hn. destruct (Nat.eqb_spec m m') as [<-|]; [|eauto 6].
    rewrite Emo in Hn. inversion Hn; subst. eauto 6. }
  assert (Hm2 : forall m' mo0, nth_error (k_mons k0) m' = Some mo0 ->
                exists mo', nth_error (upd m m_set_seen (k_mons k0)) m' = Some mo' /\ m_pc mo' = m_pc mo0 /\ m_gen mo' = m_gen mo0).
  { intros m' mo0 Hn. rewrite nth_error_upd. destruct (Nat.eqb_spec m m') as [<-|]; [|eauto].
    rewrite Hn. exists (m_set_seen mo0). auto. }
  apply (pinv_local fx s _ kk k0 (k_set_mons (upd m m_set_seen (k_mons k0)) k0) None);
    [exact HI|exact HP|sc|reflexivity|exact Ek0|updf Ek0|reflexivity| | | | | | |].
  - sprjg. intros h Hin. left. split; [exact Hin|]. destruct h; exact I.
  - sprjg. intros h Hw. destruct h as [c'|m']; [left; split; [exact I|exact Hw]|].
    specialize (W0 _ Hw). cbn [wr_holder_ok] in W0. destruct W0 as (mo' & A & B).
    destruct (Hm2 _ _ A) as (mo1 & A1 & A2 & _). exists mo1. split; [exact A1|congruence].
  - sprjg. intros m' mo' Hn Hp. destruct (Hm _ _ Hn) as (mo0 & A & B & _). apply (M0 _ _ A). congruence.
  - sprjg. intros e He. destruct (E0 _ He) as (mo' & A & B & C).
    destruct (Hm2 _ _ A) as (mo1 & A1 & A2 & A3). exists mo1. split; [exact A1|]. split; congruence.
  - sprjg. intros m' mo' Hn Hp. destruct (Hm _ _ Hn) as (mo0 & A & B & _ & D). apply D. apply (S0 _ _ A). congruence.
  - sprjg. auto.
  - sprjg. auto.
Qed.

Lemma pstep_own fx s s' : Inv s -> PInv fx s -> step_own s = Some s' -> PInv fx s'.
Proof.
  intros HI HP H. unfold step_own in H.
  destruct (inv_glob _ HI) as (_ & _ & _ & G4 & G5 & G6 & G7 & G8).
  destruct (o_pc s) as [|w|w] eqn:Eop.
  - destruct (o_wq s) as [|w wq'] eqn:Ewq.
    + destruct (o_rq s) as [|c rq'] eqn:Erq; [discriminate|]. inversion H; subst s'; clear H.
      destruct (G5 c (or_introl eq_refl)) as (cl & Ecl & Epc).
      inversion G4 as [|x l Hnin _]; subst x l.
      apply (pinv_global fx s _ (Some (c, cl, cl_pc (RGot (o_gen s) (o_val s) (idx s)) cl))); [exact HP|reflexivity| | |].
      * split; [exact Ecl|]. split; [reflexivity|]. split; [now rewrite Epc|]. split; [reflexivity|].
        split; [updf Ecl|exact I].
      * intros c' cl0 Hne _. unfold pcli_ok, kc. sprjg. rewrite Eop, Ewq, Erq. destruct (c_pc cl0); auto.
        intros [[A|A] B]; [congruence|]. split; assumption.
      * sprjg. rewrite Eop. discriminate.
    + inversion H; subst s'; clear H.
      apply (pinv_global fx s _ None); [exact HP|reflexivity|reflexivity| |].
      * intros c' cl0 _ _. unfold pcli_ok, kc. sprjg. rewrite Eop, Ewq. destruct (c_pc cl0); auto.
        intros [[A|A]|A]; [right; congruence|now left|discriminate].
      * sprjg. reflexivity.
  - destruct (no_copies s); [|discriminate]. inversion H; subst s'; clear H.
    destruct G8 as [(cl & Ecl & Epc) Hnw].
    apply (pinv_global fx s _ (Some (w, cl, cl_pc (WGot (o_val s) (idx s)) cl))); [exact HP|reflexivity| | |].
    + split; [exact Ecl|]. split; [reflexivity|]. split; [now rewrite Epc|]. split; [now rewrite Epc|].
      split; [updf Ecl|exact I].
    + intros c' cl0 Hne _. unfold pcli_ok, kc. sprjg. rewrite Eop. destruct (c_pc cl0); auto.
      intros [A|A]; [now left|]. inversion A. congruence.
    + sprjg. discriminate.
  - destruct (o_sig s) as [|v|] eqn:Esig; [discriminate| |].
    + inversion H; subst s'; clear H. destruct G8 as (cl & Ecl & Epc).
      apply (pinv_global fx s _ (Some (w, cl, cl_pc WConfirmed cl))); [exact HP|reflexivity| | |].
      * split; [exact Ecl|]. split; [reflexivity|]. split; [now rewrite Epc|]. split; [now rewrite Epc|].
        split; [updf Ecl|exact I].
      * intros c' cl0 Hne _. unfold pcli_ok, kc. sprjg. rewrite Eop. destruct (c_pc cl0); auto.
        intros [A|A]; [now left|discriminate].
      * sprjg. discriminate.
    + inversion H; subst s'; clear H.
      apply (pinv_global fx s _ None); [exact HP|reflexivity|reflexivity| |].
      * intros c' cl0 _ _. unfold pcli_ok, kc. sprjg. rewrite Eop. destruct (c_pc cl0); auto.
        intros [A|A]; [now left|discriminate].
      * sprjg. discriminate.
Qed.

Theorem pstep fx s a s' : Inv s -> PInv fx s -> step fx s a = Some s' -> PInv fx s'.
Proof.
  intros HI HP H. destruct a; cbn [step] in H.
  - eapply pstep_invread; eauto.
  - eapply pstep_invwrite; eauto.
  - eapply pstep_release; eauto.
  - eapply pstep_commit; eauto.
  - eapply pstep_dropw; eauto.
  - eapply pstep_grant; eauto.
  - eapply pstep_cli; eauto.
  - eapply pstep_mon; eauto.
  - eapply pstep_see; eauto.
  - eapply pstep_own; eauto.
Qed.

Lemma init_pinv fx v0 nk cof : PInv fx (init v0 nk cof).
Proof.
  split.
  - intros c cl Hn. unfold init in Hn. cbn [clients] in Hn. rewrite nth_error_map in Hn.
    destruct (nth_error cof c); [|discriminate]. inversion Hn; subst cl. exact I.
  - intros k ka Hn. unfold init in Hn. cbn [caches] in Hn. apply nth_error_In, repeat_spec in Hn. subst ka.
    split; [intros h []|]. split; [intros h Hw; discriminate|]. split.
    { intros m mo Hm. destruct m; discriminate. }
    split; [intros e He; discriminate|]. intros m mo Hm. destruct m; discriminate.
  - intros w Hw. discriminate.
Qed.

Lemma run_pinv fx acts : forall s, Inv s -> PInv fx s -> Inv (run fx acts s) /\ PInv fx (run fx acts s).
Proof.
  induction acts as [|a acts IH]; intros s HI HP; cbn [run fold_left]; [split; assumption|].
  apply IH; unfold step'; destruct (step fx s a) as [s'|] eqn:E; auto.
  - eapply step_inv; eauto.
  - eapply pstep; eauto.
Qed.


(** ** deadlock freedom with the repair *)
Definition Enabled (fx : fixmode) (s : state) : Prop :=
  exists a, internal a = true /\ step fx s a <> None.
Definition UserGuard (s : state) : Prop :=
  exists c cl, nth_error (clients s) c = Some cl /\ user_guard cl = true.

Lemma cli_enabled fx s c cl :
  Inv s -> nth_error (clients s) c = Some cl ->
  match c_pc cl with RHasR | RHasW | RSending | RGot _ _ _ | WSending | WGot _ _ | WConfirmed => True | _ => False end ->
  Enabled fx s.
Proof.
  intros HI Ecl Hp. exists (ACli c). split; [reflexivity|]. cbn [step]. unfold step_cli. rewrite Ecl.
  destruct (inv_cli _ HI _ _ Ecl) as [_ Hc].
  destruct (c_pc cl) eqn:Epc; try contradiction; try discriminate.
  - destruct (kc_in_range s cl) as [k0 Ek0]. { right. intros E. rewrite E in Hc. destruct Hc. }
    rewrite Ek0. destruct (k_entry k0) as [e|]; [destruct (ent_valid k0 e)|]; discriminate.
  - destruct (kc_in_range s cl) as [k0 Ek0]. { left. congruence. } rewrite Ek0. discriminate.
  - destruct (kc_in_range s cl) as [k0 Ek0]. { left. destruct Hc. congruence. } rewrite Ek0. discriminate.
Qed.

(** a holder of a cache lock can move, or is a user's read guard, or is a fetch waiting for the owner *)
Lemma holder_progress fx s k k0 h :
  Inv s -> PInv fx s -> nth_error (caches s) k = Some k0 ->
  (In h (k_rd k0) \/ k_wr k0 = Some h) ->
  Enabled fx s \/ UserGuard s \/
  (exists c cl, k_wr k0 = Some (HC c) /\ nth_error (clients s) c = Some cl /\ c_cache cl = k /\ c_pc cl = RWaitVal).
Proof.
  intros HI HP Ek0 Hh. destruct (p_cache _ _ HP _ _ Ek0) as (R0 & W0 & _).
  destruct Hh as [Hr|Hw].
  - destruct (R0 _ Hr) as (c & cl & -> & Ecl & Ec & Hp). destruct (c_pc cl) eqn:Epc; try discriminate.
    + left. apply (cli_enabled fx s c cl HI Ecl). now rewrite Epc.
    + right. left. exists c, cl. split; [exact Ecl|]. unfold user_guard. now rewrite Epc.
  - specialize (W0 _ Hw). destruct h as [c|m]; cbn [wr_holder_ok] in W0.
    + destruct W0 as (cl & Ecl & Ec & Hp). destruct (c_pc cl) eqn:Epc; try discriminate.
      * left. apply (cli_enabled fx s c cl HI Ecl). now rewrite Epc.
      * left. apply (cli_enabled fx s c cl HI Ecl). now rewrite Epc.
      * right. right. exists c, cl. auto.
      * left. apply (cli_enabled fx s c cl HI Ecl). now rewrite Epc.
    + destruct W0 as (mo & Emo & Empc). left. exists (AMon k m). split; [reflexivity|].
      cbn [step]. unfold step_mon. rewrite Ek0, Emo, Empc. discriminate.
Qed.

Lemma queue_progress fx s k k0 :
  Inv s -> PInv fx s -> nth_error (caches s) k = Some k0 -> k_q k0 <> [] ->
  Enabled fx s \/ UserGuard s \/
  (exists c cl, k_wr k0 = Some (HC c) /\ nth_error (clients s) c = Some cl /\ c_cache cl = k /\ c_pc cl = RWaitVal).
Proof.
  intros HI HP Ek0 Hq. destruct (k_q k0) as [|[w h] q'] eqn:Eq; [congruence|].
  destruct (grant k0) as [[[k' w'] h']|] eqn:Eg.
  - left. exists (AGrant k). split; [reflexivity|]. cbn [step]. unfold step_grant. rewrite Ek0, Eg.
    destruct h'; discriminate.
  - unfold grant in Eg. rewrite Eq in Eg. destruct w.
    + destruct (k_wr k0) as [hw|] eqn:Ewr.
      * rewrite <- Ewr. apply (holder_progress fx s k k0 hw HI HP Ek0). now right.
      * destruct (k_rd k0) as [|hr rd'] eqn:Erd; [discriminate|].
        rewrite <- Ewr. apply (holder_progress fx s k k0 hr HI HP Ek0). left. rewrite Erd. now left.
    + destruct (k_wr k0) as [hw|] eqn:Ewr; [|discriminate].
      rewrite <- Ewr. apply (holder_progress fx s k k0 hw HI HP Ek0). now right.
Qed.

Lemma no_copies_false s :
  no_copies s = false ->
  (exists c cl g v i, nth_error (clients s) c = Some cl /\ c_pc cl = RGot g v i) \/
  (exists k k0 e, nth_error (caches s) k = Some k0 /\ k_entry k0 = Some e /\ e_gen e = o_gen s).
Proof.
  unfold no_copies. intros H. apply andb_false_iff in H. destruct H as [H|H].
  - left. induction (clients s) as [|cl l IH] using rev_ind; [discriminate|].
    rewrite forallb_app in H. apply andb_false_iff in H. destruct H as [H|H].
    + destruct (IH H) as (c & cl0 & g & v & i & A & B). exists c, cl0, g, v, i.
      split; [|exact B]. now apply nth_error_app_old.
    + cbn in H. unfold cl_no_copy in H. destruct (c_pc cl) eqn:E; try discriminate.
      exists (length l), cl, g, v, i. split; [apply nth_error_app_last|exact E].
  - right. induction (caches s) as [|k0 l IH] using rev_ind; [discriminate|].
    rewrite forallb_app in H. apply andb_false_iff in H. destruct H as [H|H].
    + destruct (IH H) as (k & k1 & e & A & B & C). exists k, k1, e. split; [now apply nth_error_app_old|tauto].
    + cbn in H. unfold k_no_copy in H. destruct (k_entry k0) as [e|] eqn:E; [|discriminate].
      rewrite andb_true_r in H. apply negb_false_iff, N.eqb_eq in H.
      exists (length l), k0, e. split; [apply nth_error_app_last|tauto].
Qed.

(** the owner has work (a queued request, or a write cycle in progress) *)
Lemma owner_progress s :
  Inv s -> PInv FixClear s ->
  (o_rq s <> [] \/ o_wq s <> [] \/ o_pc s <> OIdle) ->
  Enabled FixClear s \/ UserGuard s.
Proof.
  intros HI HP Hw. destruct (inv_glob _ HI) as (_ & _ & _ & _ & _ & _ & _ & G8).
  assert (Hown : step_own s <> None -> Enabled FixClear s).
  { intros H. exists AOwn. split; [reflexivity|exact H]. }
  destruct (o_pc s) as [|w|w] eqn:Eop.
  - left. apply Hown. unfold step_own. rewrite Eop.
    destruct (o_wq s) as [|w wq']; [|discriminate]. destruct (o_rq s) as [|c rq']; [|discriminate].
    destruct Hw as [Hw|[Hw|Hw]]; congruence.
  - destruct (no_copies s) eqn:Enc.
    + left. apply Hown. unfold step_own. rewrite Eop, Enc. discriminate.
    + apply no_copies_false in Enc. destruct Enc as [(c & cl & g & v & i & Ecl & Epc)|(k & k0 & e & Ek0 & Ee & Eg)].
      * left. apply (cli_enabled FixClear s c cl HI Ecl). now rewrite Epc.
      * destruct (p_cache _ _ HP _ _ Ek0) as (_ & _ & M0 & E0 & S0).
        destruct (E0 _ Ee) as (mo & Emo & Egen & Hnd).
        destruct (m_seen mo) eqn:Es.
        -- destruct (m_pc mo) eqn:Epc; [| | |congruence].
           ++ left. exists (AMon k (e_mon e)). split; [reflexivity|]. cbn [step]. unfold step_mon.
              rewrite Ek0, Emo, Epc, Es. discriminate.
           ++ assert (Hq : k_q k0 <> []). { intros E. specialize (M0 _ _ Emo Epc). rewrite E in M0. destruct M0. }
              destruct (queue_progress FixClear s k k0 HI HP Ek0 Hq) as [H|[H|H]]; [now left|now right|].
              exfalso. destruct H as (c & cl & Hwr & Ecl & Ec & Epc').
              pose proof (p_cli _ _ HP _ _ Ecl) as Pc. unfold pcli_ok in Pc. rewrite Epc' in Pc.
              destruct Pc as [_ Pc]. rewrite (kc_at _ _ _ _ Ek0 Ec) in Pc. rewrite Pc in Ee by reflexivity. discriminate.
           ++ left. exists (AMon k (e_mon e)). split; [reflexivity|]. cbn [step]. unfold step_mon.
              rewrite Ek0, Emo, Epc. discriminate.
        -- left. exists (ASee k (e_mon e)). split; [reflexivity|]. cbn [step]. unfold step_see.
           rewrite Ek0, Emo, Es. unfold invalidated. rewrite Egen, Eg, N.eqb_refl, (p_glob _ _ HP w Eop).
           rewrite orb_true_r. discriminate.
  - destruct (o_sig s) eqn:Es.
    + destruct G8 as (cl & Ecl & Hg). unfold write_guard in Hg. destruct (c_pc cl) eqn:Epc; try discriminate.
      * left. apply (cli_enabled FixClear s w cl HI Ecl). now rewrite Epc.
      * right. exists w, cl. split; [exact Ecl|]. unfold user_guard. now rewrite Epc.
    + left. apply Hown. unfold step_own. rewrite Eop, Es. discriminate.
    + left. apply Hown. unfold step_own. rewrite Eop, Es. discriminate.
Qed.

Theorem progress_fixed s c cl :
  Inv s -> PInv FixClear s ->
  nth_error (clients s) c = Some cl -> pending cl = true ->
  Enabled FixClear s \/ UserGuard s.
Proof.
  intros HI HP Ecl Hp. pose proof (p_cli _ _ HP _ _ Ecl) as Pc. unfold pcli_ok in Pc.
  destruct (inv_cli _ HI _ _ Ecl) as [_ Ic].
  assert (Hq : forall w, In (w, HC c) (k_q (kc s cl)) -> Enabled FixClear s \/ UserGuard s).
  { intros w Hin. destruct (nth_error (caches s) (c_cache cl)) as [k0|] eqn:Ek0.
    - rewrite (kc_at _ _ _ _ Ek0 eq_refl) in Hin.
      assert (Hne : k_q k0 <> []). { intros E. rewrite E in Hin. destruct Hin. }
      destruct (queue_progress FixClear s _ k0 HI HP Ek0 Hne) as [H|[H|H]]; [now left|now right|].
      destruct H as (c' & cl' & _ & Ecl' & _ & Epc').
      pose proof (p_cli _ _ HP _ _ Ecl') as Pc'. unfold pcli_ok in Pc'. rewrite Epc' in Pc'.
      apply (owner_progress s HI HP). left. intros E. destruct Pc' as [Pc' _]. rewrite E in Pc'. destruct Pc'.
    - unfold kc in Hin. apply nth_error_None in Ek0. rewrite nth_overflow in Hin by exact Ek0. destruct Hin. }
  unfold pending in Hp. destruct (c_pc cl) eqn:Epc; try discriminate;
    try (left; apply (cli_enabled FixClear s c cl HI Ecl); now rewrite Epc).
  - exact (Hq _ Pc).
  - exact (Hq _ Pc).
  - apply (owner_progress s HI HP). left. intros E. destruct Pc as [Pc _]. rewrite E in Pc. destruct Pc.
  - apply (owner_progress s HI HP). destruct Pc as [Pc|Pc].
    + right. left. intros E. rewrite E in Pc. destruct Pc.
    + right. right. congruence.
  - apply (owner_progress s HI HP). right. right. destruct Ic as [Ic _]. congruence.
Qed.

(** In every reachable state of the repaired model in which some request is pending and no user
    holds a guard, an internal action is enabled. *)
Theorem progress_fixed_reach v0 nk cof acts :
  let s := run FixClear acts (init v0 nk cof) in
  (forall c cl, nth_error (clients s) c = Some cl -> user_guard cl = false) ->
  (exists c cl, nth_error (clients s) c = Some cl /\ pending cl = true) ->
  exists a, internal a = true /\ step FixClear s a <> None.
Proof.
  intros s Hng (c & cl & Ecl & Hp).
  destruct (run_pinv FixClear acts (init v0 nk cof) (init_inv _ _ _) (init_pinv _ _ _ _)) as [HI HP].
  destruct (progress_fixed s c cl HI HP Ecl Hp) as [H|(c' & cl' & A & B)]; [exact H|].
  rewrite (Hng _ _ A) in B. discriminate.
Qed.

(** ** termination: a run of internal actions, each enabled when taken, has at most [mu s] steps *)
Fixpoint run_strict (fx : fixmode) (acts : list action) (s : state) : option state :=
  match acts with
  | [] => Some s
  | a :: rest => match step fx s a with Some s' => run_strict fx rest s' | None => None end
  end.

Theorem internal_run_bounded fx acts : forall s s',
  Inv s -> forallb internal acts = true -> run_strict fx acts s = Some s' ->
  len acts + mu s' <= mu s.
Proof.
  induction acts as [|a acts IH]; intros s s' HI Hint H; cbn [run_strict] in H.
  - inversion H; subst. rewrite len_nil. lia.
  - cbn [forallb] in Hint. apply andb_prop in Hint. destruct Hint as [Ha Hint].
    destruct (step fx s a) as [s1|] eqn:E; [|discriminate].
    pose proof (mu_decreases fx s a s1 HI Ha E) as Hmu.
    specialize (IH s1 s' (step_inv _ _ _ _ HI E) Hint H). rewrite len_cons. lia.
Qed.

(** ** the statements of Props/C17.v over reachable states *)
Lemma exclusion_reach fx v0 nk cache_of acts c1 cl1 c2 cl2 :
  let s := run fx acts (init v0 nk cache_of) in
  nth_error (clients s) c1 = Some cl1 -> nth_error (clients s) c2 = Some cl2 ->
  write_guard cl1 = true ->
  read_guard cl2 = false /\ (write_guard cl2 = true -> c1 = c2).
Proof. intros. eapply exclusion_inv; eauto. apply reach_inv. Qed.

Lemma fresh_reach fx v0 nk cache_of acts c cl :
  let s := run fx acts (init v0 nk cache_of) in
  nth_error (clients s) c = Some cl -> read_guard cl = true ->
  exists v i, guard_value s cl = Some (v, i) /\ c_start cl <= i /\ i = idx s /\ v = o_val s /\
              commit_at s i = Some v.
Proof. intros. eapply fresh_inv; eauto. apply reach_inv. Qed.

Lemma write_fresh_reach fx v0 nk cache_of acts c cl v i :
  let s := run fx acts (init v0 nk cache_of) in
  nth_error (clients s) c = Some cl -> (c_pc cl = WGot v i \/ c_pc cl = WHold v i) ->
  v = o_val s /\ i = idx s /\ commit_at s i = Some v.
Proof. intros. eapply write_guard_inv; eauto. apply reach_inv. Qed.

Lemma durable_reach fx v0 nk cache_of acts :
  let s := run fx acts (init v0 nk cache_of) in
  o_val s = hd (o_init s) (o_log s) /\ g_commits s = len (o_log s) + in_flight s.
Proof. intros. apply durable_inv, reach_inv. Qed.

Lemma measure_reach fx v0 nk cache_of acts a s' :
  let s := run fx acts (init v0 nk cache_of) in
  internal a = true -> step fx s a = Some s' -> mu s' < mu s.
Proof. intros. eapply mu_decreases; eauto. apply reach_inv. Qed.

Lemma terminates_reach fx v0 nk cache_of acts iacts s' :
  let s := run fx acts (init v0 nk cache_of) in
  forallb internal iacts = true -> run_strict fx iacts s = Some s' -> len iacts + mu s' <= mu s.
Proof. intros. eapply internal_run_bounded; eauto. apply reach_inv. Qed.

Definition nonvac_acts : list action :=
  expand FixNone [AInvRead 0; AInvRead 1; AInvWrite 2; ARelease 0; ARelease 1; ACommit 2 9; AInvRead 0]%nat
         (init 5 2 [0; 1; 0]%nat).
Lemma nonvacuous_run :
  let s := run FixNone nonvac_acts (init 5 2 [0; 1; 0]%nat) in
  map c_pc (clients s) = [RHold; CIdle; CIdle] /\
  option_map (guard_value s) (nth_error (clients s) 0) = Some (Some (9, 1)) /\
  o_log s = [9] /\ deadlocked FixNone s = false.
Proof. vm_compute. repeat split; reflexivity. Qed.
