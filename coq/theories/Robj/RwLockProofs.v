(** Proofs about the remote read/write lock model: the safety invariant over all action lists
    (exclusion, freshness, durability), the termination measure of the internal actions, the
    refutation of deadlock freedom for the code as it is and for the "clear if stale" repair
    (finding F5), and deadlock freedom for the "always clear" repair. *)
From Remoc Require Import Lib.Base Robj.RwLock.

(** ** lists with point updates *)
Lemma nth_error_upd {A} (f : A -> A) : forall l n m,
  nth_error (upd n f l) m = if Nat.eqb n m then option_map f (nth_error l m) else nth_error l m.
Proof.
  induction l as [|x l IH]; intros [|n] [|m]; cbn [upd nth_error Nat.eqb option_map]; auto;
    try (destruct (Nat.eqb _ _); reflexivity).
Qed.

Lemma upd_length {A} (f : A -> A) : forall l n, length (upd n f l) = length l.
Proof. induction l as [|x l IH]; intros [|n]; cbn [upd length]; auto. Qed.

Lemma nth_upd {A} (f : A -> A) (d : A) : forall l n m x,
  nth_error l n = Some x ->
  nth m (upd n f l) d = if Nat.eqb n m then f x else nth m l d.
Proof.
  induction l as [|y l IH]; intros [|n] [|m] x H; cbn [upd nth nth_error Nat.eqb] in *;
    try discriminate; auto; try (now inversion H); try (now apply IH).
Qed.

Lemma nth_error_nth' {A} (l : list A) n x d : nth_error l n = Some x -> nth n l d = x.
Proof. apply nth_error_nth. Qed.

Lemma nth_error_app_last {A} (l : list A) x : nth_error (l ++ [x]) (length l) = Some x.
Proof. rewrite nth_error_app2 by lia. now rewrite Nat.sub_diag. Qed.

Lemma nth_error_app_old {A} (l : list A) x n y :
  nth_error l n = Some y -> nth_error (l ++ [x]) n = Some y.
Proof. intros H. rewrite nth_error_app1; [exact H|]. apply nth_error_Some. congruence. Qed.

Lemma nth_error_snoc_inv {A} (l : list A) x n y :
  nth_error (l ++ [x]) n = Some y -> nth_error l n = Some y \/ (n = length l /\ y = x).
Proof.
  intros H. destruct (Nat.lt_ge_cases n (length l)) as [Hl|Hl].
  - rewrite nth_error_app1 in H by exact Hl. now left.
  - rewrite nth_error_app2 in H by exact Hl. right.
    destruct (n - length l)%nat as [|k] eqn:E; cbn [nth_error] in H.
    + inversion H. split; [lia|reflexivity].
    + destruct k; discriminate.
Qed.

Lemma holder_eqb_eq a b : holder_eqb a b = true <-> a = b.
Proof.
  destruct a, b; cbn [holder_eqb]; rewrite ?Nat.eqb_eq; split; intros H;
    try discriminate; try (inversion H; reflexivity); congruence.
Qed.

Lemma in_unread h h' l :
  In h (filter (fun x => negb (holder_eqb x h')) l) <-> In h l /\ h <> h'.
Proof.
  rewrite filter_In. split; intros [H1 H2]; split; auto.
  - intros ->. rewrite (proj2 (holder_eqb_eq h' h')) in H2 by reflexivity. discriminate.
  - destruct (holder_eqb h h') eqn:E; [|reflexivity]. apply holder_eqb_eq in E. contradiction.
Qed.

(** ** the cache a client uses *)
Definition kc (s : state) (cl : client) : cache := nth (c_cache cl) (caches s) empty_cache.

(** ** the safety invariant *)
Definition copy_ok (s : state) (g v i : N) : Prop :=
  g = o_gen s /\ v = o_val s /\ i = idx s /\ (forall w, o_pc s <> OWaitNew w).

Definition cli_ok (s : state) (c : nat) (cl : client) : Prop :=
  c_start cl <= idx s /\
  match c_pc cl with
  | RGot g v i => copy_ok s g v i /\ k_wr (kc s cl) = Some (HC c)
  | RHasW | RSending | RWaitVal => k_wr (kc s cl) = Some (HC c)
  | RHasR => In (HC c) (k_rd (kc s cl))
  | RHold => In (HC c) (k_rd (kc s cl)) /\ k_entry (kc s cl) <> None
  | WGot v i | WHold v i => o_pc s = OWaitNew c /\ o_sig s = SNone /\ v = o_val s /\ i = idx s
  | WCommitWait v => o_pc s = OWaitNew c /\ o_sig s = SCommit v
  | _ => True
  end.

Definition queued_ok (s : state) (k : nat) (ka : cache) (w : bool) (h : holder) : Prop :=
  match h with
  | HC c => exists cl, nth_error (clients s) c = Some cl /\ c_cache cl = k /\
                       c_pc cl = (if w then RQueuedW else RQueuedR)
  | HM m => w = true /\ exists mo, nth_error (k_mons ka) m = Some mo /\ m_pc mo = MQueued
  end.

Definition cache_ok (s : state) (k : nat) (ka : cache) : Prop :=
  (k_wr ka <> None -> k_rd ka = []) /\
  (forall e, k_entry ka = Some e -> copy_ok s (e_gen e) (e_val e) (e_idx e)) /\
  (forall m mo, nth_error (k_mons ka) m = Some mo -> m_pc mo = MHold -> k_wr ka = Some (HM m)) /\
  NoDup (k_q ka) /\
  (forall w h, In (w, h) (k_q ka) -> queued_ok s k ka w h).

Definition has_pc (s : state) (c : nat) (p : cpc) : Prop :=
  exists cl, nth_error (clients s) c = Some cl /\ c_pc cl = p.

Definition glob_ok (s : state) : Prop :=
  o_val s = hd (o_init s) (o_log s) /\
  g_commits s = len (o_log s) + (match o_sig s with SCommit _ => 1 | _ => 0 end) /\
  ((forall w, o_pc s <> OWaitNew w) -> o_sig s = SNone) /\
  NoDup (o_rq s) /\ (forall c, In c (o_rq s) -> has_pc s c RWaitVal) /\
  NoDup (o_wq s) /\ (forall c, In c (o_wq s) -> has_pc s c WWait) /\
  match o_pc s with
  | OIdle => True
  | OWaitDrop w => has_pc s w WWait /\ ~ In w (o_wq s)
  | OWaitNew w =>
      match o_sig s with
      | SNone => exists cl, nth_error (clients s) w = Some cl /\ write_guard cl = true
      | SCommit v => has_pc s w (WCommitWait v)
      | SDrop => True
      end
  end.

Record Inv (s : state) : Prop := mkInv {
  inv_cli : forall c cl, nth_error (clients s) c = Some cl -> cli_ok s c cl;
  inv_cache : forall k ka, nth_error (caches s) k = Some ka -> cache_ok s k ka;
  inv_glob : glob_ok s;
}.

Ltac sprj := cbn [o_val o_gen o_inv o_pc o_sig o_wq o_rq clients caches o_init o_log g_commits
   set_clients set_caches set_opc set_sig set_wq set_rq set_inv next_gen store count_commit set_pc set_cache
   c_cache c_pc c_start cl_pc k_entry k_rd k_wr k_q k_mons k_set_entry k_set_rd k_set_wr k_set_q k_set_mons
   k_enq k_unread m_gen m_seen m_pc m_set_pc m_set_seen e_gen e_val e_idx e_mon] in *.

(** owner-side fields agree: [same_core] = what [cli_ok] and [copy_ok] read *)
Definition same_core (s s' : state) : Prop :=
  o_val s' = o_val s /\ o_gen s' = o_gen s /\ o_pc s' = o_pc s /\ o_sig s' = o_sig s /\
  o_log s' = o_log s.
Definition same_owner (s s' : state) : Prop :=
  same_core s s' /\ o_init s' = o_init s /\ g_commits s' = g_commits s /\
  o_rq s' = o_rq s /\ o_wq s' = o_wq s.

Lemma copy_ok_same s s' g v i : same_core s s' -> copy_ok s g v i -> copy_ok s' g v i.
Proof.
  intros (H1 & H2 & H3 & H4 & H5) H. unfold copy_ok, idx in *. rewrite H1, H2, H3, H5. exact H.
Qed.

(** program counters the owner-side invariant refers to *)
Definition glob_pc (p : cpc) : bool :=
  match p with RWaitVal | WWait | WCommitWait _ | WGot _ _ | WHold _ _ => true | _ => false end.

Lemma glob_ok_frame s s' :
  glob_ok s -> same_owner s s' ->
  (forall c cl, nth_error (clients s) c = Some cl -> glob_pc (c_pc cl) = true ->
                nth_error (clients s') c = Some cl) ->
  glob_ok s'.
Proof.
  intros (G1 & G2 & G3 & G4 & G5 & G6 & G7 & G8) ((S1 & S2 & S3 & S4 & S5) & S6 & S7 & S8 & S9) Hcl.
  assert (Hp : forall c p, glob_pc p = true -> has_pc s c p -> has_pc s' c p).
  { intros c p Hp (cl & A & B). exists cl. split; [|exact B]. apply Hcl; [exact A|now rewrite B]. }
  unfold glob_ok. rewrite S1, S3, S4, S5, S6, S7, S8, S9.
  split; [exact G1|]. split; [exact G2|]. split; [exact G3|]. split; [exact G4|].
  split; [intros c Hin; apply Hp; auto|]. split; [exact G6|].
  split; [intros c Hin; apply Hp; auto|].
  destruct (o_pc s) as [|w|w]; [exact I| |].
  - split; [apply Hp; [reflexivity|tauto]|tauto].
  - destruct (o_sig s); [|now apply Hp|exact I].
    destruct G8 as (cl & A & B). exists cl. split; [|exact B]. apply Hcl; [exact A|].
    unfold write_guard in B. destruct (c_pc cl); try discriminate; reflexivity.
Qed.

Definition qpc (w : bool) : cpc := if w then RQueuedW else RQueuedR.

(** A step that changes one cache [kk] (k0 -> k1) and at most one client [c] of that cache
    (cl -> cl'), leaving the owner alone. *)
Lemma inv_local s s' kk k0 k1 (oc : option (nat * client * client)) :
  Inv s -> same_owner s s' ->
  nth_error (caches s) kk = Some k0 ->
  (forall k, nth_error (caches s') k = if Nat.eqb kk k then Some k1 else nth_error (caches s) k) ->
  match oc with
  | Some (c, cl, cl') =>
      nth_error (clients s) c = Some cl /\ c_cache cl = kk /\ c_cache cl' = kk /\ glob_pc (c_pc cl) = false /\
      (forall c', nth_error (clients s') c' = if Nat.eqb c c' then Some cl' else nth_error (clients s) c') /\
      cli_ok s' c cl'
  | None => clients s' = clients s
  end ->
  let other c' := match oc with Some (c, _, _) => c' <> c | None => True end in
  (* the cache itself *)
  (k_wr k1 <> None -> k_rd k1 = []) ->
  (forall e, k_entry k1 = Some e -> copy_ok s (e_gen e) (e_val e) (e_idx e)) ->
  (forall m mo, nth_error (k_mons k1) m = Some mo -> m_pc mo = MHold -> k_wr k1 = Some (HM m)) ->
  NoDup (k_q k1) ->
  (forall w h, In (w, h) (k_q k1) ->
     match h with
     | HC c' => (other c' /\ In (w, h) (k_q k0)) \/
                match oc with Some (c, _, cl') => c' = c /\ c_pc cl' = qpc w | None => False end
     | HM m => w = true /\ exists mo, nth_error (k_mons k1) m = Some mo /\ m_pc mo = MQueued
     end) ->
  (* the other clients of the cache *)
  (forall c', other c' -> k_wr k0 = Some (HC c') -> k_wr k1 = Some (HC c')) ->
  (forall c', other c' -> In (HC c') (k_rd k0) -> In (HC c') (k_rd k1)) ->
  (forall c', other c' -> In (HC c') (k_rd k0) -> k_entry k0 <> None -> k_entry k1 <> None) ->
  Inv s'.
Proof.
  intros [Hc Hk Hg] Hso Ek0 Hca Hoc other K1 K2 K3 K4 K5 OW OR OE.
  assert (Hkc : forall cl0, kc s' cl0 = if Nat.eqb kk (c_cache cl0) then k1 else kc s cl0).
  { intros cl0. unfold kc. destruct (Nat.eqb_spec kk (c_cache cl0)) as [<-|Hne].
    - apply nth_error_nth'. rewrite Hca, Nat.eqb_refl. reflexivity.
    - destruct (nth_error (caches s) (c_cache cl0)) as [ka|] eqn:E.
      + rewrite (nth_error_nth' _ _ _ _ E). apply nth_error_nth'. rewrite Hca.
        destruct (Nat.eqb_spec kk (c_cache cl0)); [contradiction|exact E].
      + assert (E' : nth_error (caches s') (c_cache cl0) = None).
        { rewrite Hca. destruct (Nat.eqb_spec kk (c_cache cl0)); [contradiction|exact E]. }
        apply nth_error_None in E, E'. rewrite !nth_overflow by assumption. reflexivity. }
  assert (Hother : forall c' cl0, nth_error (clients s) c' = Some cl0 -> other c' -> cli_ok s' c' cl0).
  { intros c' cl0 Hn Ho. specialize (Hc _ _ Hn). destruct Hso as ((S1 & S2 & S3 & S4 & S5) & _).
    unfold cli_ok, copy_ok, idx in *. rewrite S1, S2, S3, S4, S5, Hkc.
    destruct Hc as [Hs Hc]. split; [exact Hs|].
    destruct (Nat.eqb_spec kk (c_cache cl0)) as [E|_]; [|exact Hc].
    assert (Ekc : kc s cl0 = k0). { unfold kc. rewrite <- E. now apply nth_error_nth'. }
    rewrite Ekc in Hc. destruct (c_pc cl0); auto.
    - split; [tauto|]. apply OW; tauto.
    - split; [apply OR; tauto|]. apply (OE c'); tauto. }
  split.
  - intros c' cl0 Hn. destruct oc as [[[c cl] cl']|].
    + destruct Hoc as (Ecl & _ & _ & _ & Hcl & Hok). rewrite Hcl in Hn.
      destruct (Nat.eqb_spec c c') as [<-|Hne].
      * inversion Hn; subst. exact Hok.
      * apply Hother; [exact Hn|]. cbn. congruence.
    + rewrite Hoc in Hn. apply Hother; [exact Hn|exact I].
  - intros k ka Hn. rewrite Hca in Hn. destruct (Nat.eqb_spec kk k) as [<-|Hne].
    + inversion Hn; subst ka; clear Hn. destruct (Hk _ _ Ek0) as (_ & _ & _ & _ & Q0).
      split; [exact K1|]. split; [|split; [exact K3|split; [exact K4|]]].
      * intros e He. eapply copy_ok_same; [exact (proj1 Hso)|eauto].
      * intros w h Hin. specialize (K5 _ _ Hin). destruct h as [c'|m]; cbn [queued_ok]; [|exact K5].
        destruct K5 as [[Ho Hin0]|K5].
        -- specialize (Q0 _ _ Hin0). cbn [queued_ok] in Q0. destruct Q0 as (cl0 & Q1 & Q2 & Q3).
           exists cl0. split; [|tauto]. destruct oc as [[[c cl] cl']|].
           ++ destruct Hoc as (_ & _ & _ & _ & Hcl & _). rewrite Hcl.
              destruct (Nat.eqb_spec c c'); [cbn in Ho; congruence|exact Q1].
           ++ rewrite Hoc. exact Q1.
        -- destruct oc as [[[c cl] cl']|]; [|contradiction]. destruct K5 as [-> K5].
           destruct Hoc as (_ & _ & Hc2 & _ & Hcl & _). exists cl'. rewrite Hcl, Nat.eqb_refl.
           unfold qpc in K5. tauto.
    + destruct (Hk _ _ Hn) as (Q1 & Q2 & Q3 & Q4 & Q5).
      split; [exact Q1|]. split; [|split; [exact Q3|split; [exact Q4|]]].
      * intros e He. eapply copy_ok_same; [exact (proj1 Hso)|eauto].
      * intros w h Hin. specialize (Q5 _ _ Hin). destruct h as [c'|m]; cbn [queued_ok] in *; [|exact Q5].
        destruct Q5 as (cl0 & A1 & A2 & A3). exists cl0. split; [|tauto].
        destruct oc as [[[c cl] cl']|].
        -- destruct Hoc as (Ecl & Hc1 & _ & _ & Hcl & _). rewrite Hcl.
           destruct (Nat.eqb_spec c c') as [<-|]; [|exact A1]. congruence.
        -- rewrite Hoc. exact A1.
  - apply (glob_ok_frame s); [exact Hg|exact Hso|].
    intros c0 cl0 Hn Hp. destruct oc as [[[c cl] cl']|]; [|now rewrite Hoc].
    destruct Hoc as (Ecl & _ & _ & Hgp & Hcl & _). rewrite Hcl.
    destruct (Nat.eqb_spec c c0) as [<-|]; [|exact Hn]. congruence.
Qed.

Lemma queued_client s k ka w c cl :
  Inv s -> nth_error (caches s) k = Some ka -> In (w, HC c) (k_q ka) ->
  nth_error (clients s) c = Some cl -> c_pc cl = qpc w /\ c_cache cl = k.
Proof.
  intros [_ Hk _] Ek Hin Ecl. destruct (Hk _ _ Ek) as (_ & _ & _ & _ & Q).
  specialize (Q _ _ Hin). cbn [queued_ok] in Q. destruct Q as (cl0 & A1 & A2 & A3).
  rewrite Ecl in A1. inversion A1; subst. unfold qpc. tauto.
Qed.

Lemma queued_mon s k ka w m :
  Inv s -> nth_error (caches s) k = Some ka -> In (w, HM m) (k_q ka) ->
  w = true /\ exists mo, nth_error (k_mons ka) m = Some mo /\ m_pc mo = MQueued.
Proof.
  intros [_ Hk _] Ek Hin. destruct (Hk _ _ Ek) as (_ & _ & _ & _ & Q). exact (Q _ _ Hin).
Qed.

Ltac so := repeat split; reflexivity.
Ltac updf E := intros; sprj; rewrite nth_error_upd;
  match goal with |- context [Nat.eqb ?a ?b] => destruct (Nat.eqb_spec a b) end;
  subst; rewrite ?E; try reflexivity; try congruence.


Lemma NoDup_snoc {A} (l : list A) x : NoDup l -> ~ In x l -> NoDup (l ++ [x]).
Proof.
  induction l as [|y l IH]; intros H1 H2; cbn [app].
  - constructor; [intros []|constructor].
  - inversion H1; subst. constructor.
    + rewrite in_app_iff. intros [H|[H|[]]]; [contradiction|]. subst. apply H2. now left.
    + apply IH; [assumption|]. intros H. apply H2. now right.
Qed.

(** A step that leaves the caches alone: owner fields and at most one client (not queued on a
    cache lock) change. *)
Lemma inv_global s s' (oc : option (nat * client * client)) :
  Inv s -> caches s' = caches s ->
  match oc with
  | Some (c, cl, cl') =>
      nth_error (clients s) c = Some cl /\ c_cache cl' = c_cache cl /\
      (c_pc cl <> RQueuedR /\ c_pc cl <> RQueuedW) /\
      (forall c', nth_error (clients s') c' = if Nat.eqb c c' then Some cl' else nth_error (clients s) c') /\
      cli_ok s' c cl'
  | None => clients s' = clients s
  end ->
  (forall c' cl0, match oc with Some (c, _, _) => c' <> c | None => True end ->
     nth_error (clients s) c' = Some cl0 -> cli_ok s c' cl0 -> cli_ok s' c' cl0) ->
  (forall g v i, copy_ok s g v i ->
     (exists k ka e, nth_error (caches s) k = Some ka /\ k_entry ka = Some e /\
                     g = e_gen e /\ v = e_val e /\ i = e_idx e) -> copy_ok s' g v i) ->
  glob_ok s' -> Inv s'.
Proof.
  intros [Hc Hk Hg] Eca Hoc Hoth Hcopy Hg'. split; [| |exact Hg'].
  - intros c' cl0 Hn. destruct oc as [[[c cl] cl']|].
    + destruct Hoc as (Ecl & _ & _ & Hcl & Hok). rewrite Hcl in Hn.
      destruct (Nat.eqb_spec c c') as [<-|Hne].
      * inversion Hn; subst. exact Hok.
      * apply Hoth; auto.
    + rewrite Hoc in Hn. apply Hoth; auto.
  - intros k ka Hn. rewrite Eca in Hn. destruct (Hk _ _ Hn) as (Q1 & Q2 & Q3 & Q4 & Q5).
    split; [exact Q1|]. split; [|split; [exact Q3|split; [exact Q4|]]].
    + intros e He. apply Hcopy; [now apply Q2|]. exists k, ka, e. tauto.
    + intros w h Hin. specialize (Q5 _ _ Hin). destruct h as [c'|m]; cbn [queued_ok] in *; [|exact Q5].
      destruct Q5 as (cl0 & A1 & A2 & A3). exists cl0. split; [|tauto].
      destruct oc as [[[c cl] cl']|].
      * destruct Hoc as (Ecl & _ & (N1 & N2) & Hcl & _). rewrite Hcl.
        destruct (Nat.eqb_spec c c') as [<-|]; [|exact A1]. rewrite Ecl in A1. inversion A1; subst.
        destruct w; congruence.
      * rewrite Hoc. exact A1.
Qed.

Lemma cli_ok_same s s' c cl :
  same_core s s' -> caches s' = caches s -> cli_ok s c cl -> cli_ok s' c cl.
Proof.
  intros (S1 & S2 & S3 & S4 & S5) Eca. unfold cli_ok, copy_ok, idx, kc.
  rewrite S1, S2, S3, S4, S5, Eca. auto.
Qed.


Ltac sc := repeat split; reflexivity.
Ltac sprjg := cbn [o_val o_gen o_inv o_pc o_sig o_wq o_rq clients caches o_init o_log g_commits
   set_clients set_caches set_opc set_sig set_wq set_rq set_inv next_gen store count_commit set_pc set_cache
   c_cache c_pc c_start cl_pc k_entry k_rd k_wr k_q k_mons k_set_entry k_set_rd k_set_wr k_set_q k_set_mons
   k_enq k_unread m_gen m_seen m_pc m_set_pc m_set_seen e_gen e_val e_idx e_mon].


(** ** every step preserves the invariant *)
Lemma step_invread s s' c : Inv s -> step_user (AInvRead c) s = Some s' -> Inv s'.
Proof.
  intros HI H. cbn [step_user] in H.
  destruct (nth_error (clients s) c) as [cl|] eqn:Ecl; [|discriminate].
  destruct (c_pc cl) eqn:Epc; try discriminate.
  destruct (nth_error (caches s) (c_cache cl)) as [k0|] eqn:Ek0; [|discriminate].
  inversion H; subst s'; clear H.
  destruct (inv_cache _ HI _ _ Ek0) as (Q1 & Q2 & Q3 & Q4 & Q5).
  assert (Hnq : forall w, ~ In (w, HC c) (k_q k0)).
  { intros w Hin. destruct (queued_client _ _ _ _ _ _ HI Ek0 Hin Ecl) as [E _].
    rewrite Epc in E. destruct w; discriminate. }
  apply (inv_local s _ (c_cache cl) k0 (k_enq false (HC c) k0)
           (Some (c, cl, mkCl (c_cache cl) RQueuedR (idx s)))); auto.
  - so.
  - updf Ek0.
  - split; [exact Ecl|]. split; [reflexivity|]. split; [reflexivity|]. split; [now rewrite Epc|]. split; [updf Ecl|].
    split; cbn; [unfold idx; cbn; lia|exact I].
  - sprj. apply NoDup_snoc; auto.
  - sprj. intros w h Hin. apply in_app_or in Hin. destruct Hin as [Hin|[Hin|[]]].
    + destruct h as [c'|m].
      * left. split; [|exact Hin]. cbn. intros ->. exact (Hnq _ Hin).
      * exact (queued_mon _ _ _ _ _ HI Ek0 Hin).
    + inversion Hin; subst. right. split; reflexivity.
Qed.

Lemma has_pc_upd_other s s' c c0 cl' p :
  (forall c', nth_error (clients s') c' = if Nat.eqb c c' then Some cl' else nth_error (clients s) c') ->
  c0 <> c -> has_pc s c0 p -> has_pc s' c0 p.
Proof.
  intros H Hne (cl & A & B). exists cl. rewrite H. destruct (Nat.eqb_spec c c0); [congruence|tauto].
Qed.

Lemma has_pc_at s c cl p : nth_error (clients s) c = Some cl -> has_pc s c p -> c_pc cl = p.
Proof. intros E (cl0 & A & B). congruence. Qed.

Lemma step_invwrite s s' c : Inv s -> step_user (AInvWrite c) s = Some s' -> Inv s'.
Proof.
  intros HI H. cbn [step_user] in H.
  destruct (nth_error (clients s) c) as [cl|] eqn:Ecl; [|discriminate].
  destruct (c_pc cl) eqn:Epc; try discriminate.
  inversion H; subst s'; clear H.
  assert (Hcl : forall c', nth_error (clients (set_clients (upd c (fun cl0 => mkCl (c_cache cl0) WSending (idx s))) s)) c'
              = if Nat.eqb c c' then Some (mkCl (c_cache cl) WSending (idx s)) else nth_error (clients s) c').
  { updf Ecl. }
  apply (inv_global s _ (Some (c, cl, mkCl (c_cache cl) WSending (idx s)))); [exact HI|reflexivity| | | |].
  - split; [exact Ecl|]. split; [reflexivity|]. split; [rewrite Epc; split; discriminate|].
    split; [exact Hcl|]. split; cbn; [unfold idx; cbn; lia|exact I].
  - intros c' cl0 _ _. apply cli_ok_same; [sc|reflexivity].
  - intros g v i Hcp _. revert Hcp. apply copy_ok_same. sc.
  - apply (glob_ok_frame s); [apply HI|sc|]. intros c0 cl0 Hn Hp. rewrite Hcl.
    destruct (Nat.eqb_spec c c0) as [<-|]; [|exact Hn]. rewrite Ecl in Hn. inversion Hn; subst.
    rewrite Epc in Hp. discriminate.
Qed.

Lemma step_release s s' c : Inv s -> step_user (ARelease c) s = Some s' -> Inv s'.
Proof.
  intros HI H. cbn [step_user] in H.
  destruct (nth_error (clients s) c) as [cl|] eqn:Ecl; [|discriminate].
  destruct (c_pc cl) eqn:Epc; try discriminate.
  inversion H; subst s'; clear H.
  destruct (inv_cli _ HI _ _ Ecl) as [Hst Hcl]. rewrite Epc in Hcl. destruct Hcl as [Hin Hent].
  destruct (nth_error (caches s) (c_cache cl)) as [k0|] eqn:Ek0.
  2:{ unfold kc in Hin. apply nth_error_None in Ek0. rewrite nth_overflow in Hin by exact Ek0.
      destruct Hin. }
  destruct (inv_cache _ HI _ _ Ek0) as (Q1 & Q2 & Q3 & Q4 & Q5).
  apply (inv_local s _ (c_cache cl) k0 (k_unread (HC c) k0) (Some (c, cl, cl_pc CIdle cl))); auto.
  - sc.
  - updf Ek0.
  - split; [exact Ecl|]. split; [reflexivity|]. split; [reflexivity|]. split; [now rewrite Epc|].
    split; [updf Ecl|]. split; cbn; [exact Hst|exact I].
  - sprj. intros Hw. rewrite (Q1 Hw). reflexivity.
  - sprj. intros w h Hin'. destruct h as [c'|m].
    + left. split; [|exact Hin']. cbn. intros ->.
      destruct (queued_client _ _ _ _ _ _ HI Ek0 Hin' Ecl) as [E _]. rewrite Epc in E.
      destruct w; discriminate.
    + exact (queued_mon _ _ _ _ _ HI Ek0 Hin').
  - sprj. intros c' Hne Hin'. apply in_unread. split; [exact Hin'|]. cbn in Hne. congruence.
Qed.

Lemma cli_ok_sig s s' c c0 cl0 :
  o_pc s = OWaitNew c -> c0 <> c ->
  o_val s' = o_val s -> o_gen s' = o_gen s -> o_pc s' = o_pc s -> o_log s' = o_log s -> caches s' = caches s ->
  cli_ok s c0 cl0 -> cli_ok s' c0 cl0.
Proof.
  intros Hp Hne S1 S2 S3 S5 Eca. unfold cli_ok, copy_ok, idx, kc. rewrite S1, S2, S3, S5, Eca, Hp.
  intros [H1 H2]. split; [exact H1|]. destruct (c_pc cl0); auto; destruct H2 as [H2 _]; congruence.
Qed.

Lemma step_commit s s' c v : Inv s -> step_user (ACommit c v) s = Some s' -> Inv s'.
Proof.
  intros HI H. cbn [step_user] in H.
  destruct (nth_error (clients s) c) as [cl|] eqn:Ecl; [|discriminate].
  destruct (c_pc cl) eqn:Epc; try discriminate.
  inversion H; subst s'; clear H.
  destruct (inv_cli _ HI _ _ Ecl) as [Hst Hcl]. rewrite Epc in Hcl. destruct Hcl as (Hop & Hsig & _).
  assert (Hcl : forall c', nth_error (clients (set_pc c (WCommitWait v) (set_sig (SCommit v) (count_commit s)))) c'
              = if Nat.eqb c c' then Some (cl_pc (WCommitWait v) cl) else nth_error (clients s) c').
  { updf Ecl. }
  destruct (inv_glob _ HI) as (G1 & G2 & G3 & G4 & G5 & G6 & G7 & G8).
  apply (inv_global s _ (Some (c, cl, cl_pc (WCommitWait v) cl))); [exact HI|reflexivity| | | |].
  - split; [exact Ecl|]. split; [reflexivity|]. split; [rewrite Epc; split; discriminate|].
    split; [exact Hcl|]. split; cbn; [exact Hst|tauto].
  - intros c' cl0 Hne _. apply (cli_ok_sig s _ c); auto.
  - intros g0 v1 i1 (A1 & A2 & A3 & A4) _. exfalso. exact (A4 _ Hop).
  - unfold glob_ok. sprjg. rewrite Hop. rewrite Hsig in G2.
    split; [exact G1|]. split; [lia|]. split; [intros Hw; exfalso; exact (Hw _ eq_refl)|].
    split; [exact G4|]. split.
    { intros c0 Hin. destruct (Nat.eq_dec c0 c) as [->|Hne].
      - specialize (G5 _ Hin). apply (has_pc_at _ _ _ _ Ecl) in G5. congruence.
      - apply (has_pc_upd_other s _ c c0 _ _ Hcl Hne). auto. }
    split; [exact G6|]. split.
    { intros c0 Hin. destruct (Nat.eq_dec c0 c) as [->|Hne].
      - specialize (G7 _ Hin). apply (has_pc_at _ _ _ _ Ecl) in G7. congruence.
      - apply (has_pc_upd_other s _ c c0 _ _ Hcl Hne). auto. }
    exists (cl_pc (WCommitWait v) cl). rewrite Hcl, Nat.eqb_refl. split; reflexivity.
Qed.

Lemma step_dropw s s' c : Inv s -> step_user (ADropW c) s = Some s' -> Inv s'.
Proof.
  intros HI H. cbn [step_user] in H.
  destruct (nth_error (clients s) c) as [cl|] eqn:Ecl; [|discriminate].
  destruct (c_pc cl) eqn:Epc; try discriminate.
  inversion H; subst s'; clear H.
  destruct (inv_cli _ HI _ _ Ecl) as [Hst Hcl]. rewrite Epc in Hcl. destruct Hcl as (Hop & Hsig & _).
  assert (Hcl : forall c', nth_error (clients (set_pc c CIdle (set_sig SDrop s))) c'
              = if Nat.eqb c c' then Some (cl_pc CIdle cl) else nth_error (clients s) c').
  { updf Ecl. }
  destruct (inv_glob _ HI) as (G1 & G2 & G3 & G4 & G5 & G6 & G7 & G8).
  apply (inv_global s _ (Some (c, cl, cl_pc CIdle cl))); [exact HI|reflexivity| | | |].
  - split; [exact Ecl|]. split; [reflexivity|]. split; [rewrite Epc; split; discriminate|].
    split; [exact Hcl|]. split; cbn; [exact Hst|tauto].
  - intros c' cl0 Hne _. apply (cli_ok_sig s _ c); auto.
  - intros g0 v1 i1 (A1 & A2 & A3 & A4) _. exfalso. exact (A4 _ Hop).
  - unfold glob_ok. sprjg. rewrite Hop. rewrite Hsig in G2.
    split; [exact G1|]. split; [lia|]. split; [intros Hw; exfalso; exact (Hw _ eq_refl)|].
    split; [exact G4|]. split.
    { intros c0 Hin. destruct (Nat.eq_dec c0 c) as [->|Hne].
      - specialize (G5 _ Hin). apply (has_pc_at _ _ _ _ Ecl) in G5. congruence.
      - apply (has_pc_upd_other s _ c c0 _ _ Hcl Hne). auto. }
    split; [exact G6|]. split; [|exact I].
    intros c0 Hin. destruct (Nat.eq_dec c0 c) as [->|Hne].
    + specialize (G7 _ Hin). apply (has_pc_at _ _ _ _ Ecl) in G7. congruence.
    + apply (has_pc_upd_other s _ c c0 _ _ Hcl Hne). auto.
Qed.

Lemma kc_local s s' kk k0 f cl' :
  nth_error (caches s) kk = Some k0 -> c_cache cl' = kk -> caches s' = upd kk f (caches s) ->
  kc s' cl' = f k0.
Proof.
  intros E Hc Hs. unfold kc. rewrite Hs, Hc, (nth_upd f empty_cache _ _ _ _ E), Nat.eqb_refl. reflexivity.
Qed.

Lemma kc_at s kk k0 cl : nth_error (caches s) kk = Some k0 -> c_cache cl = kk -> kc s cl = k0.
Proof. intros E <-. unfold kc. now apply nth_error_nth'. Qed.

Lemma step_grant_inv s s' kk : Inv s -> step_grant kk s = Some s' -> Inv s'.
Proof.
  intros HI H. unfold step_grant in H.
  destruct (nth_error (caches s) kk) as [k0|] eqn:Ek0; [|discriminate].
  destruct (grant k0) as [[[k' w] h]|] eqn:Eg; [|discriminate].
  destruct (inv_cache _ HI _ _ Ek0) as (Q1 & Q2 & Q3 & Q4 & Q5).
  unfold grant in Eg. destruct (k_q k0) as [|[w0 h0] q'] eqn:Eq; [discriminate|].
  inversion Q4 as [|x l Hnin Hnd]; subst x l.
  assert (Hfront := Q5 w0 h0 (or_introl eq_refl)).
  assert (Hqm : forall w1 m, In (w1, HM m) q' -> w1 = true /\ exists mo, nth_error (k_mons k0) m = Some mo /\ m_pc mo = MQueued).
  { intros w1 m Hin. exact (Q5 _ _ (or_intror Hin)). }
  assert (Hqc : forall w1 c cl, In (w1, HC c) q' -> nth_error (clients s) c = Some cl -> c_pc cl = qpc w1).
  { intros w1 c cl Hin Ecl. destruct (Q5 _ _ (or_intror Hin)) as (cl0 & A & _ & B).
    rewrite Ecl in A. inversion A; subst. exact B. }
  cbn [queued_ok] in Hfront. destruct w0.
  - destruct (k_wr k0) eqn:Ewr; [discriminate|]. destruct (k_rd k0) eqn:Erd; [|discriminate].
    inversion Eg; subst k' w h; clear Eg. destruct h0 as [c|m].
    + destruct Hfront as (cl & Ecl & Ecache & Epc). cbv iota beta in H; inversion H; subst s'; clear H.
      apply (inv_local s _ kk k0 (k_set_wr (Some (HC c)) (k_set_q q' k0)) (Some (c, cl, cl_pc RHasW cl)));
        [exact HI|sc|exact Ek0|updf Ek0| | | | | | | | |].
      * split; [exact Ecl|]. split; [exact Ecache|]. split; [exact Ecache|]. split; [now rewrite Epc|].
        split; [updf Ecl|]. destruct (inv_cli _ HI _ _ Ecl) as [Hst _]. split; [exact Hst|].
        cbn [c_pc cl_pc]. erewrite kc_local; [|exact Ek0|exact Ecache|reflexivity]. reflexivity.
      * sprj. intros _. exact Erd.
      * sprj. exact Q2.
      * sprj. intros m mo Hm Hp. discriminate (Q3 _ _ Hm Hp).
      * sprj. exact Hnd.
      * sprj. intros w h Hin. destruct h as [c'|m]; [|exact (Hqm _ _ Hin)].
        left. split; [|rewrite Eq; now right]. cbn. intros ->. specialize (Hqc _ _ _ Hin Ecl).
        rewrite Epc in Hqc. destruct w; [|discriminate]. contradiction.
      * sprj. intros c' _ Hw. rewrite Hw in Ewr. discriminate.
      * sprj. intros c' _ Hin. rewrite Erd in Hin. destruct Hin.
      * sprj. auto.
    + destruct Hfront as (_ & mo & Emo & Empc). cbv iota beta in H; inversion H; subst s'; clear H.
      apply (inv_local s _ kk k0 (k_set_mons (upd m (m_set_pc MHold) (k_mons k0)) (k_set_wr (Some (HM m)) (k_set_q q' k0))) None);
        [exact HI|sc|exact Ek0|updf Ek0|reflexivity| | | | | | | |].
      * sprj. intros _. exact Erd.
      * sprj. exact Q2.
      * sprj. intros m' mo' Hm Hp. rewrite nth_error_upd in Hm.
        destruct (Nat.eqb_spec m m') as [<-|]; [reflexivity|]. discriminate (Q3 _ _ Hm Hp).
      * sprj. exact Hnd.
      * sprj. intros w h Hin. destruct h as [c'|m']; [left; split; [exact I|rewrite Eq; now right]|].
        destruct (Hqm _ _ Hin) as (-> & mo' & A & B). split; [reflexivity|]. exists mo'. split; [|exact B].
        rewrite nth_error_upd. destruct (Nat.eqb_spec m m') as [<-|]; [|exact A]. contradiction.
      * sprj. intros c' _ Hw. rewrite Hw in Ewr. discriminate.
      * sprj. intros c' _ Hin. rewrite Erd in Hin. destruct Hin.
      * sprj. auto.
  - destruct (k_wr k0) eqn:Ewr; [discriminate|].
    inversion Eg; subst k' w h; clear Eg. destruct h0 as [c|m].
    + destruct Hfront as (cl & Ecl & Ecache & Epc). cbv iota beta in H; inversion H; subst s'; clear H.
      apply (inv_local s _ kk k0 (k_set_rd (k_rd k0 ++ [HC c]) (k_set_q q' k0)) (Some (c, cl, cl_pc RHasR cl)));
        [exact HI|sc|exact Ek0|updf Ek0| | | | | | | | |].
      * split; [exact Ecl|]. split; [exact Ecache|]. split; [exact Ecache|]. split; [now rewrite Epc|].
        split; [updf Ecl|]. destruct (inv_cli _ HI _ _ Ecl) as [Hst _]. split; [exact Hst|].
        cbn [c_pc cl_pc]. erewrite kc_local; [|exact Ek0|exact Ecache|reflexivity]. sprj.
        apply in_or_app. right. now left.
      * sprj. intros Hw. rewrite Ewr in Hw. contradiction.
      * sprj. exact Q2.
      * sprj. intros m mo Hm Hp. discriminate (Q3 _ _ Hm Hp).
      * sprj. exact Hnd.
      * sprj. intros w h Hin. destruct h as [c'|m]; [|exact (Hqm _ _ Hin)].
        left. split; [|rewrite Eq; now right]. cbn. intros ->. specialize (Hqc _ _ _ Hin Ecl).
        rewrite Epc in Hqc. destruct w; [discriminate|]. contradiction.
      * sprj. auto.
      * sprj. intros c' _ Hin. apply in_or_app. now left.
      * sprj. auto.
    + destruct Hfront as (Hf & _). discriminate.
Qed.

Lemma kc_in_range s cl : k_wr (kc s cl) <> None \/ k_rd (kc s cl) <> [] ->
  exists k0, nth_error (caches s) (c_cache cl) = Some k0.
Proof.
  intros H. destruct (nth_error (caches s) (c_cache cl)) as [k0|] eqn:E; [now exists k0|].
  unfold kc in H. apply nth_error_None in E. rewrite nth_overflow in H by exact E. cbn in H.
  destruct H; congruence.
Qed.

Lemma fix_entry_cases fx k : fix_entry fx k = k_entry k \/ fix_entry fx k = None.
Proof.
  destruct fx; cbn [fix_entry]; auto. destruct (k_entry k) as [e|]; auto. destruct (ent_valid k e); auto.
Qed.

(** the client step that only changes the client's pc (no cache / owner-invariant interaction) *)
Lemma inv_pc_only s c cl p :
  Inv s -> nth_error (clients s) c = Some cl ->
  (c_pc cl <> RQueuedR /\ c_pc cl <> RQueuedW) -> glob_pc (c_pc cl) = false \/ True ->
  cli_ok (set_pc c p s) c (cl_pc p cl) ->
  glob_ok (set_pc c p s) ->
  Inv (set_pc c p s).
Proof.
  intros HI Ecl Hq _ Hok Hg.
  apply (inv_global s _ (Some (c, cl, cl_pc p cl))); [exact HI|reflexivity| | | |exact Hg].
  - split; [exact Ecl|]. split; [reflexivity|]. split; [exact Hq|]. split; [updf Ecl|exact Hok].
  - intros c' cl0 _ _. apply cli_ok_same; [sc|reflexivity].
  - intros g v i Hcp _. revert Hcp. apply copy_ok_same. sc.
Qed.

Lemma glob_ok_set_pc s c cl p :
  glob_ok s -> nth_error (clients s) c = Some cl -> glob_pc (c_pc cl) = false -> glob_ok (set_pc c p s).
Proof.
  intros Hg Ecl Hp. apply (glob_ok_frame s); [exact Hg|sc|]. intros c0 cl0 Hn Hp0.
  sprjg. rewrite nth_error_upd. destruct (Nat.eqb_spec c c0) as [<-|]; [|exact Hn]. congruence.
Qed.

Lemma step_cli_inv fx s s' c : Inv s -> step_cli fx c s = Some s' -> Inv s'.
Proof.
  intros HI H. unfold step_cli in H.
  destruct (nth_error (clients s) c) as [cl|] eqn:Ecl; [|discriminate].
  destruct (inv_cli _ HI _ _ Ecl) as [Hst Hcl].
  destruct (inv_glob _ HI) as (G1 & G2 & G3 & G4 & G5 & G6 & G7 & G8).
  destruct (c_pc cl) eqn:Epc; try discriminate.
  - (* RHasR *)
    destruct (nth_error (caches s) (c_cache cl)) as [k0|] eqn:Ek0; [|discriminate].
    rewrite (kc_at _ _ _ _ Ek0 eq_refl) in Hcl.
    destruct (inv_cache _ HI _ _ Ek0) as (Q1 & Q2 & Q3 & Q4 & Q5).
    assert (Hslow : Inv (set_pc c RQueuedW (set_cache (c_cache cl) (fun k => k_enq true (HC c) (k_unread (HC c) k)) s))).
    { assert (Hnq : forall w, ~ In (w, HC c) (k_q k0)).
      { intros w Hin. destruct (queued_client _ _ _ _ _ _ HI Ek0 Hin Ecl) as [E _].
        rewrite Epc in E. destruct w; discriminate. }
      apply (inv_local s _ (c_cache cl) k0 (k_enq true (HC c) (k_unread (HC c) k0)) (Some (c, cl, cl_pc RQueuedW cl)));
        [exact HI|sc|exact Ek0|updf Ek0| | | | | | | | |].
      - split; [exact Ecl|]. split; [reflexivity|]. split; [reflexivity|]. split; [now rewrite Epc|].
        split; [updf Ecl|]. split; [exact Hst|exact I].
      - sprj. intros Hw. rewrite (Q1 Hw). reflexivity.
      - sprj. exact Q2.
      - sprj. exact Q3.
      - sprj. apply NoDup_snoc; auto.
      - sprj. intros w h Hin. apply in_app_or in Hin. destruct Hin as [Hin|[Hin|[]]].
        + destruct h as [c'|m].
          * left. split; [|exact Hin]. cbn. intros ->. exact (Hnq _ Hin).
          * exact (queued_mon _ _ _ _ _ HI Ek0 Hin).
        + inversion Hin; subst. right. split; reflexivity.
      - sprj. auto.
      - sprj. intros c' Hne Hin. apply in_unread. split; [exact Hin|]. cbn in Hne. congruence.
      - sprj. auto. }
    destruct (k_entry k0) as [e|] eqn:Ee; [|inversion H; subst s'; exact Hslow].
    destruct (ent_valid k0 e); [|inversion H; subst s'; exact Hslow].
    inversion H; subst s'; clear H.
    apply (inv_pc_only s c cl RHold HI Ecl); [rewrite Epc; split; discriminate|now right| |].
    + split; [exact Hst|]. cbn [c_pc cl_pc]. change (kc (set_pc c RHold s) (cl_pc RHold cl)) with (kc s cl).
      rewrite (kc_at _ _ _ _ Ek0 eq_refl), Ee. split; [exact Hcl|discriminate].
    + apply (glob_ok_set_pc _ _ cl); [apply HI|exact Ecl|now rewrite Epc].
  - (* RHasW *)
    destruct (nth_error (caches s) (c_cache cl)) as [k0|] eqn:Ek0; [|discriminate].
    rewrite (kc_at _ _ _ _ Ek0 eq_refl) in Hcl.
    destruct (inv_cache _ HI _ _ Ek0) as (Q1 & Q2 & Q3 & Q4 & Q5).
    inversion H; subst s'; clear H.
    apply (inv_local s _ (c_cache cl) k0 (k_set_entry (fix_entry fx k0) k0) (Some (c, cl, cl_pc RSending cl)));
      [exact HI|sc|exact Ek0|updf Ek0| | | | | | | | |].
    + split; [exact Ecl|]. split; [reflexivity|]. split; [reflexivity|]. split; [now rewrite Epc|].
      split; [updf Ecl|]. split; [exact Hst|]. cbn [c_pc cl_pc].
      erewrite kc_local; [|exact Ek0|reflexivity|reflexivity]. exact Hcl.
    + sprj. exact Q1.
    + sprj. intros e He. destruct (fix_entry_cases fx k0) as [E|E]; rewrite E in He; [auto|discriminate].
    + sprj. exact Q3.
    + sprj. exact Q4.
    + sprj. intros w h Hin. destruct h as [c'|m].
      * left. split; [|exact Hin]. cbn. intros ->.
        destruct (queued_client _ _ _ _ _ _ HI Ek0 Hin Ecl) as [E _]. rewrite Epc in E. destruct w; discriminate.
      * exact (queued_mon _ _ _ _ _ HI Ek0 Hin).
    + sprj. auto.
    + sprj. auto.
    + sprj. intros c' _ Hin. rewrite Q1 in Hin by congruence. destruct Hin.
  - (* RSending *)
    inversion H; subst s'; clear H.
    assert (Hcl' : forall c', nth_error (clients (set_pc c RWaitVal (set_rq (o_rq s ++ [c]) s))) c'
              = if Nat.eqb c c' then Some (cl_pc RWaitVal cl) else nth_error (clients s) c').
    { updf Ecl. }
    apply (inv_global s _ (Some (c, cl, cl_pc RWaitVal cl))); [exact HI|reflexivity| | | |].
    + split; [exact Ecl|]. split; [reflexivity|]. split; [rewrite Epc; split; discriminate|].
      split; [exact Hcl'|]. split; [exact Hst|exact Hcl].
    + intros c' cl0 _ _. apply cli_ok_same; [sc|reflexivity].
    + intros g v i Hcp _. revert Hcp. apply copy_ok_same. sc.
    + assert (Hnin : ~ In c (o_rq s)).
      { intros Hin. specialize (G5 _ Hin). apply (has_pc_at _ _ _ _ Ecl) in G5. congruence. }
      assert (Hoth : forall c0 p, c0 <> c -> has_pc s c0 p -> has_pc (set_pc c RWaitVal (set_rq (o_rq s ++ [c]) s)) c0 p).
      { intros c0 p Hne. apply (has_pc_upd_other s _ c c0 _ _ Hcl' Hne). }
      assert (Hne_of : forall c0 p, p <> c_pc cl -> has_pc s c0 p -> c0 <> c).
      { intros c0 p Hp Hh ->. apply (has_pc_at _ _ _ _ Ecl) in Hh. congruence. }
      unfold glob_ok. sprjg. split; [exact G1|]. split; [exact G2|]. split; [exact G3|].
      split; [apply NoDup_snoc; assumption|]. split.
      { intros c0 Hin. apply in_app_or in Hin. destruct Hin as [Hin|[<-|[]]].
        - apply Hoth; [|auto]. intros ->. contradiction.
        - exists (cl_pc RWaitVal cl). rewrite Hcl', Nat.eqb_refl. split; reflexivity. }
      split; [exact G6|]. split.
      { intros c0 Hin. apply Hoth; [|auto]. apply (Hne_of _ WWait); [rewrite Epc; discriminate|auto]. }
      destruct (o_pc s) as [|w|w]; [exact I| |].
      * destruct G8 as [A B]. split; [|exact B]. apply Hoth; [|exact A].
        apply (Hne_of _ WWait); [rewrite Epc; discriminate|exact A].
      * destruct (o_sig s); [| |exact I].
        -- destruct G8 as (cl0 & A & B). exists cl0. split; [|exact B]. rewrite Hcl'.
           destruct (Nat.eqb_spec c w) as [<-|]; [|exact A]. rewrite Ecl in A. inversion A; subst.
           unfold write_guard in B. rewrite Epc in B. discriminate.
        -- apply Hoth; [|exact G8]. apply (Hne_of _ (WCommitWait v)); [rewrite Epc; discriminate|exact G8].
  - (* RGot *)
    destruct (nth_error (caches s) (c_cache cl)) as [k0|] eqn:Ek0; [|discriminate].
    rewrite (kc_at _ _ _ _ Ek0 eq_refl) in Hcl. destruct Hcl as [Hcp Hwr].
    destruct (inv_cache _ HI _ _ Ek0) as (Q1 & Q2 & Q3 & Q4 & Q5).
    inversion H; subst s'; clear H.
    match goal with |- Inv (set_pc c RHold (set_cache _ (fun _ => ?K) s)) =>
      apply (inv_local s _ (c_cache cl) k0 K (Some (c, cl, cl_pc RHold cl)));
        [exact HI|sc|exact Ek0|updf Ek0| | | | | | | | |] end.
    + split; [exact Ecl|]. split; [reflexivity|]. split; [reflexivity|]. split; [now rewrite Epc|].
      split; [updf Ecl|]. split; [exact Hst|]. cbn [c_pc cl_pc].
      erewrite kc_local; [|exact Ek0|reflexivity|reflexivity]. sprj.
      split; [apply in_or_app; right; now left|discriminate].
    + sprj. intros Hw. contradiction.
    + sprj. intros e He. inversion He; subst e. sprj. exact Hcp.
    + sprj. intros m mo Hm Hp. apply nth_error_snoc_inv in Hm. destruct Hm as [Hm|[_ ->]].
      * rewrite (Q3 _ _ Hm Hp) in Hwr. discriminate.
      * discriminate.
    + sprj. exact Q4.
    + sprj. intros w h Hin. destruct h as [c'|m].
      * left. split; [|exact Hin]. cbn. intros ->.
        destruct (queued_client _ _ _ _ _ _ HI Ek0 Hin Ecl) as [E _]. rewrite Epc in E. destruct w; discriminate.
      * destruct (queued_mon _ _ _ _ _ HI Ek0 Hin) as (-> & mo & A & B). split; [reflexivity|].
        exists mo. split; [|exact B]. now apply nth_error_app_old.
    + sprj. intros c' Hne Hw. rewrite Hwr in Hw. inversion Hw. cbn in Hne. congruence.
    + sprj. intros c' _ Hin. apply in_or_app. now left.
    + sprj. intros. discriminate.
  - (* WSending *)
    inversion H; subst s'; clear H.
    assert (Hcl' : forall c', nth_error (clients (set_pc c WWait (set_wq (o_wq s ++ [c]) s))) c'
              = if Nat.eqb c c' then Some (cl_pc WWait cl) else nth_error (clients s) c').
    { updf Ecl. }
    apply (inv_global s _ (Some (c, cl, cl_pc WWait cl))); [exact HI|reflexivity| | | |].
    + split; [exact Ecl|]. split; [reflexivity|]. split; [rewrite Epc; split; discriminate|].
      split; [exact Hcl'|]. split; [exact Hst|exact I].
    + intros c' cl0 _ _. apply cli_ok_same; [sc|reflexivity].
    + intros g v i Hcp _. revert Hcp. apply copy_ok_same. sc.
    + assert (Hnin : ~ In c (o_wq s)).
      { intros Hin. specialize (G7 _ Hin). apply (has_pc_at _ _ _ _ Ecl) in G7. congruence. }
      assert (Hoth : forall c0 p, c0 <> c -> has_pc s c0 p -> has_pc (set_pc c WWait (set_wq (o_wq s ++ [c]) s)) c0 p).
      { intros c0 p Hne. apply (has_pc_upd_other s _ c c0 _ _ Hcl' Hne). }
      assert (Hne_of : forall c0 p, p <> c_pc cl -> has_pc s c0 p -> c0 <> c).
      { intros c0 p Hp Hh ->. apply (has_pc_at _ _ _ _ Ecl) in Hh. congruence. }
      unfold glob_ok. sprjg. split; [exact G1|]. split; [exact G2|]. split; [exact G3|].
      split; [exact G4|]. split.
      { intros c0 Hin. apply Hoth; [|auto]. apply (Hne_of _ RWaitVal); [rewrite Epc; discriminate|auto]. }
      split; [apply NoDup_snoc; assumption|]. split.
      { intros c0 Hin. apply in_app_or in Hin. destruct Hin as [Hin|[<-|[]]].
        - apply Hoth; [|auto]. intros ->. contradiction.
        - exists (cl_pc WWait cl). rewrite Hcl', Nat.eqb_refl. split; reflexivity. }
      destruct (o_pc s) as [|w|w]; [exact I| |].
      * destruct G8 as [A B]. assert (w <> c) by (apply (Hne_of _ WWait); [rewrite Epc; discriminate|exact A]).
        split; [apply Hoth; assumption|]. intros Hin. apply in_app_or in Hin.
        destruct Hin as [Hin|[Hin|[]]]; [contradiction|congruence].
      * destruct (o_sig s); [| |exact I].
        -- destruct G8 as (cl0 & A & B). exists cl0. split; [|exact B]. rewrite Hcl'.
           destruct (Nat.eqb_spec c w) as [<-|]; [|exact A]. rewrite Ecl in A. inversion A; subst.
           unfold write_guard in B. rewrite Epc in B. discriminate.
        -- apply Hoth; [|exact G8]. apply (Hne_of _ (WCommitWait v)); [rewrite Epc; discriminate|exact G8].
  - (* WGot *)
    inversion H; subst s'; clear H.
    assert (Hcl' : forall c', nth_error (clients (set_pc c (WHold v i) s)) c'
              = if Nat.eqb c c' then Some (cl_pc (WHold v i) cl) else nth_error (clients s) c').
    { updf Ecl. }
    apply (inv_pc_only s c cl _ HI Ecl); [rewrite Epc; split; discriminate|now right| |].
    + split; [exact Hst|exact Hcl].
    + destruct Hcl as (Hop & Hsig & _).
      assert (Hoth : forall c0 p, c0 <> c -> has_pc s c0 p -> has_pc (set_pc c (WHold v i) s) c0 p).
      { intros c0 p Hne. apply (has_pc_upd_other s _ c c0 _ _ Hcl' Hne). }
      assert (Hne_of : forall c0 p, p <> c_pc cl -> has_pc s c0 p -> c0 <> c).
      { intros c0 p Hp Hh ->. apply (has_pc_at _ _ _ _ Ecl) in Hh. congruence. }
      unfold glob_ok. sprjg. rewrite Hop, Hsig in *.
      split; [exact G1|]. split; [exact G2|]. split; [exact G3|]. split; [exact G4|]. split.
      { intros c0 Hin. apply Hoth; [|auto]. apply (Hne_of _ RWaitVal); [rewrite Epc; discriminate|auto]. }
      split; [exact G6|]. split.
      { intros c0 Hin. apply Hoth; [|auto]. apply (Hne_of _ WWait); [rewrite Epc; discriminate|auto]. }
      exists (cl_pc (WHold v i) cl). rewrite Hcl', Nat.eqb_refl. split; reflexivity.
  - (* WConfirmed *)
    inversion H; subst s'; clear H.
    apply (inv_pc_only s c cl _ HI Ecl); [rewrite Epc; split; discriminate|now right| |].
    + split; [exact Hst|exact I].
    + apply (glob_ok_set_pc _ _ cl); [apply HI|exact Ecl|now rewrite Epc].
Qed.

Lemma step_mon_inv s s' kk m : Inv s -> step_mon kk m s = Some s' -> Inv s'.
Proof.
  intros HI H. unfold step_mon in H.
  destruct (nth_error (caches s) kk) as [k0|] eqn:Ek0; [|discriminate].
  destruct (nth_error (k_mons k0) m) as [mo|] eqn:Emo; [|discriminate].
  destruct (inv_cache _ HI _ _ Ek0) as (Q1 & Q2 & Q3 & Q4 & Q5).
  destruct (m_pc mo) eqn:Epc; try discriminate.
  - destruct (m_seen mo); [|discriminate]. inversion H; subst s'; clear H.
    apply (inv_local s _ kk k0 (k_enq true (HM m) (k_set_mons (upd m (m_set_pc MQueued) (k_mons k0)) k0)) None);
      [exact HI|sc|exact Ek0|updf Ek0|reflexivity| | | | | | | |].
    + sprj. exact Q1.
    + sprj. exact Q2.
    + sprj. intros m' mo' Hm Hp. rewrite nth_error_upd in Hm. destruct (Nat.eqb_spec m m') as [<-|].
      * rewrite Emo in Hm. inversion Hm; subst mo'. discriminate.
      * eauto.
    + sprj. apply NoDup_snoc; [exact Q4|]. intros Hin.
      destruct (queued_mon _ _ _ _ _ HI Ek0 Hin) as (_ & mo' & A & B). congruence.
    + sprj. intros w h Hin. apply in_app_or in Hin. destruct Hin as [Hin|[Hin|[]]].
      * destruct h as [c'|m']; [left; split; [exact I|exact Hin]|].
        destruct (queued_mon _ _ _ _ _ HI Ek0 Hin) as (-> & mo' & A & B). split; [reflexivity|].
        exists mo'. split; [|exact B]. rewrite nth_error_upd.
        destruct (Nat.eqb_spec m m') as [<-|]; [congruence|exact A].
      * inversion Hin; subst. split; [reflexivity|]. exists (m_set_pc MQueued mo).
        rewrite nth_error_upd, Nat.eqb_refl, Emo. split; reflexivity.
    + sprj. auto.
    + sprj. auto.
    + sprj. auto.
  - inversion H; subst s'; clear H. assert (Hwr := Q3 _ _ Emo Epc).
    match goal with |- Inv (set_cache kk (fun _ => k_set_wr None (k_set_entry ?E _)) s) =>
      apply (inv_local s _ kk k0 (k_set_wr None (k_set_entry E (k_set_mons (upd m (m_set_pc MDone) (k_mons k0)) k0))) None);
        [exact HI|sc|exact Ek0|updf Ek0|reflexivity| | | | | | | |] end.
    + sprj. intros Hw. contradiction.
    + sprj. intros e He. destruct (k_entry k0) as [e0|]; [|discriminate].
      destruct (ent_valid k0 e0); [|discriminate]. inversion He; subst. auto.
    + sprj. intros m' mo' Hm Hp. rewrite nth_error_upd in Hm. destruct (Nat.eqb_spec m m') as [<-|].
      * rewrite Emo in Hm. inversion Hm; subst mo'. discriminate.
      * specialize (Q3 _ _ Hm Hp). congruence.
    + sprj. exact Q4.
    + sprj. intros w h Hin. destruct h as [c'|m']; [left; split; [exact I|exact Hin]|].
      destruct (queued_mon _ _ _ _ _ HI Ek0 Hin) as (-> & mo' & A & B). split; [reflexivity|].
      exists mo'. split; [|exact B]. rewrite nth_error_upd.
      destruct (Nat.eqb_spec m m') as [<-|]; [congruence|exact A].
    + sprj. intros c' _ Hw. congruence.
    + sprj. auto.
    + sprj. intros c' _ Hin. rewrite Q1 in Hin by congruence. destruct Hin.
Qed.

Lemma step_see_inv s s' kk m : Inv s -> step_see kk m s = Some s' -> Inv s'.
Proof.
  intros HI H. unfold step_see in H.
  destruct (nth_error (caches s) kk) as [k0|] eqn:Ek0; [|discriminate].
  destruct (nth_error (k_mons k0) m) as [mo|] eqn:Emo; [|discriminate].
  destruct (inv_cache _ HI _ _ Ek0) as (Q1 & Q2 & Q3 & Q4 & Q5).
  destruct (negb (m_seen mo) && invalidated s (m_gen mo)); [|discriminate].
  inversion H; subst s'; clear H.
  assert (Hm : forall m' mo', nth_error (upd m m_set_seen (k_mons k0)) m' = Some mo' ->
                exists mo0, nth_error (k_mons k0) m' = Some mo0 /\ m_pc mo' = m_pc mo0).
  { intros m' mo' Hn. rewrite nth_error_upd in Hn. destruct (Nat.eqb_spec m m') as [<-|]; [|eauto].
    rewrite Emo in Hn. inversion Hn; subst. eauto. }
  apply (inv_local s _ kk k0 (k_set_mons (upd m m_set_seen (k_mons k0)) k0) None);
    [exact HI|sc|exact Ek0|updf Ek0|reflexivity| | | | | | | |].
  - sprj. exact Q1.
  - sprj. exact Q2.
  - sprj. intros m' mo' Hn Hp. destruct (Hm _ _ Hn) as (mo0 & A & B). rewrite B in Hp. eauto.
  - sprj. exact Q4.
  - sprj. intros w h Hin. destruct h as [c'|m']; [left; split; [exact I|exact Hin]|].
    destruct (queued_mon _ _ _ _ _ HI Ek0 Hin) as (-> & mo' & A & B). split; [reflexivity|].
    rewrite nth_error_upd. destruct (Nat.eqb_spec m m') as [<-|]; [|eauto].
    rewrite A. exists (m_set_seen mo'). split; [reflexivity|exact B].
  - sprj. auto.
  - sprj. auto.
  - sprj. auto.
Qed.

Lemma len_cons' {A} (x : A) l : len (x :: l) = len l + 1.
Proof. rewrite len_cons. lia. Qed.

Lemma step_own_inv s s' : Inv s -> step_own s = Some s' -> Inv s'.
Proof.
  intros HI H. unfold step_own in H.
  destruct (inv_glob _ HI) as (G1 & G2 & G3 & G4 & G5 & G6 & G7 & G8).
  destruct (o_pc s) as [|w|w] eqn:Eop.
  - destruct (o_wq s) as [|w wq'] eqn:Ewq.
    + destruct (o_rq s) as [|c rq'] eqn:Erq; [discriminate|]. inversion H; subst s'; clear H.
      destruct (G5 c (or_introl eq_refl)) as (cl & Ecl & Epc).
      destruct (inv_cli _ HI _ _ Ecl) as [Hst Hcl]. rewrite Epc in Hcl.
      assert (Hcl' : forall c', nth_error (clients (set_pc c (RGot (o_gen s) (o_val s) (idx s)) (set_rq rq' s))) c'
                = if Nat.eqb c c' then Some (cl_pc (RGot (o_gen s) (o_val s) (idx s)) cl) else nth_error (clients s) c').
      { updf Ecl. }
      apply (inv_global s _ (Some (c, cl, cl_pc (RGot (o_gen s) (o_val s) (idx s)) cl)));
        [exact HI|reflexivity| | | |].
      * split; [exact Ecl|]. split; [reflexivity|]. split; [rewrite Epc; split; discriminate|].
        split; [exact Hcl'|]. split; [exact Hst|]. split; [|exact Hcl].
        unfold copy_ok. sprjg. rewrite Eop. repeat split; discriminate.
      * intros c' cl0 _ _. apply cli_ok_same; [sc|reflexivity].
      * intros g v i Hcp _. revert Hcp. apply copy_ok_same. sc.
      * inversion G4 as [|x l Hnin Hnd]; subst x l.
        unfold glob_ok. sprjg. rewrite Eop, Ewq.
        split; [exact G1|]. split; [exact G2|]. split; [exact G3|]. split; [exact Hnd|].
        split; [|split; [constructor|split; [intros c0 []|exact I]]].
        intros c0 Hin. apply (has_pc_upd_other s _ c c0 _ _ Hcl'); [|apply G5; now right].
        intros ->. contradiction.
    + inversion H; subst s'; clear H.
      apply (inv_global s _ None); [exact HI|reflexivity|reflexivity| | |].
      * intros c' cl0 _ _. unfold cli_ok, copy_ok, idx, kc. sprjg. rewrite Eop. intros [A B].
        split; [exact A|]. destruct (c_pc cl0); auto; try (destruct B as [B _]; discriminate).
        destruct B as [(B1 & B2 & B3 & B4) B5]. repeat split; auto; discriminate.
      * intros g v i (A1 & A2 & A3 & A4) _. unfold copy_ok, idx. sprjg. repeat split; auto; discriminate.
      * inversion G6 as [|x l Hnin Hnd]; subst x l.
        unfold glob_ok. sprjg.
        split; [exact G1|]. split; [exact G2|]. split; [intros _; apply G3; intros w0; discriminate|].
        split; [exact G4|]. split; [exact G5|]. split; [exact Hnd|].
        split; [intros c0 Hin; apply G7; now right|]. split; [apply G7; now left|exact Hnin].
  - destruct (no_copies s) eqn:Enc; [|discriminate]. inversion H; subst s'; clear H.
    destruct G8 as [(cl & Ecl & Epc) Hnw].
    destruct (inv_cli _ HI _ _ Ecl) as [Hst _].
    assert (Hsig : o_sig s = SNone). { apply G3. intros w0. discriminate. }
    unfold no_copies in Enc. apply andb_prop in Enc. destruct Enc as [Enc1 Enc2].
    rewrite forallb_forall in Enc1, Enc2.
    assert (Hcl' : forall c', nth_error (clients (set_opc (OWaitNew w) (set_pc w (WGot (o_val s) (idx s)) (next_gen s)))) c'
              = if Nat.eqb w c' then Some (cl_pc (WGot (o_val s) (idx s)) cl) else nth_error (clients s) c').
    { updf Ecl. }
    apply (inv_global s _ (Some (w, cl, cl_pc (WGot (o_val s) (idx s)) cl))); [exact HI|reflexivity| | | |].
    + split; [exact Ecl|]. split; [reflexivity|]. split; [rewrite Epc; split; discriminate|].
      split; [exact Hcl'|]. split; [exact Hst|]. cbn [c_pc cl_pc]. sprjg. auto.
    + intros c' cl0 Hne Hn. unfold cli_ok, copy_ok, idx, kc. sprjg. intros [A B]. split; [exact A|].
      destruct (c_pc cl0) eqn:Epc0; auto; try (destruct B as [B _]; congruence).
      exfalso. destruct B as [(B1 & _) _]. specialize (Enc1 _ (nth_error_In _ _ Hn)).
      unfold cl_no_copy in Enc1. rewrite Epc0, B1, N.eqb_refl in Enc1. discriminate.
    + intros g v i (A1 & _) (k & ka & e & B1 & B2 & B3 & _). exfalso.
      specialize (Enc2 _ (nth_error_In _ _ B1)). unfold k_no_copy in Enc2.
      rewrite B2, <- B3, A1, N.eqb_refl in Enc2. discriminate.
    + assert (Hoth : forall c0 p, c0 <> w -> has_pc s c0 p -> has_pc (set_opc (OWaitNew w) (set_pc w (WGot (o_val s) (idx s)) (next_gen s))) c0 p).
      { intros c0 p Hne. apply (has_pc_upd_other s _ w c0 _ _ Hcl' Hne). }
      unfold glob_ok. sprjg. rewrite Hsig in *.
      split; [exact G1|]. split; [exact G2|]. split; [reflexivity|]. split; [exact G4|]. split.
      { intros c0 Hin. apply Hoth; [|auto]. intros ->. specialize (G5 _ Hin).
        apply (has_pc_at _ _ _ _ Ecl) in G5. congruence. }
      split; [exact G6|]. split.
      { intros c0 Hin. apply Hoth; [|auto]. intros ->. contradiction. }
      exists (cl_pc (WGot (o_val s) (idx s)) cl). rewrite Hcl', Nat.eqb_refl. split; reflexivity.
  - destruct (o_sig s) as [|v|] eqn:Esig; [discriminate| |].
    + inversion H; subst s'; clear H. destruct G8 as (cl & Ecl & Epc).
      destruct (inv_cli _ HI _ _ Ecl) as [Hst _].
      assert (Hcl' : forall c', nth_error (clients (set_opc OIdle (set_pc w WConfirmed (set_sig SNone (store v s))))) c'
                = if Nat.eqb w c' then Some (cl_pc WConfirmed cl) else nth_error (clients s) c').
      { updf Ecl. }
      apply (inv_global s _ (Some (w, cl, cl_pc WConfirmed cl))); [exact HI|reflexivity| | | |].
      * split; [exact Ecl|]. split; [reflexivity|]. split; [rewrite Epc; split; discriminate|].
        split; [exact Hcl'|]. split; [|exact I]. unfold idx in *. sprjg. rewrite len_cons'. cbn [c_start cl_pc]. lia.
      * intros c' cl0 Hne Hn. unfold cli_ok, copy_ok, idx, kc. sprjg. rewrite Eop, len_cons'. intros [A B].
        split; [lia|]. destruct (c_pc cl0); auto; try (destruct B as [B _]; congruence).
        exfalso. destruct B as [(_ & _ & _ & B4) _]. exact (B4 _ eq_refl).
      * intros g v0 i (_ & _ & _ & A4) _. exfalso. exact (A4 _ Eop).
      * assert (Hoth : forall c0 p, c0 <> w -> has_pc s c0 p -> has_pc (set_opc OIdle (set_pc w WConfirmed (set_sig SNone (store v s)))) c0 p).
        { intros c0 p Hne. apply (has_pc_upd_other s _ w c0 _ _ Hcl' Hne). }
        unfold glob_ok. sprjg. rewrite len_cons'.
        split; [reflexivity|]. split; [lia|]. split; [reflexivity|]. split; [exact G4|]. split.
        { intros c0 Hin. apply Hoth; [|auto]. intros ->. specialize (G5 _ Hin).
          apply (has_pc_at _ _ _ _ Ecl) in G5. congruence. }
        split; [exact G6|]. split; [|exact I].
        intros c0 Hin. apply Hoth; [|auto]. intros ->. specialize (G7 _ Hin).
        apply (has_pc_at _ _ _ _ Ecl) in G7. congruence.
    + inversion H; subst s'; clear H.
      apply (inv_global s _ None); [exact HI|reflexivity|reflexivity| | |].
      * intros c' cl0 _ _. unfold cli_ok, copy_ok, idx, kc. sprjg. rewrite Eop, Esig. intros [A B].
        split; [exact A|]. destruct (c_pc cl0); auto; try (destruct B as (_ & B & _); discriminate);
          try (destruct B as (_ & B); discriminate).
        exfalso. destruct B as [(_ & _ & _ & B4) _]. exact (B4 _ eq_refl).
      * intros g v i (_ & _ & _ & A4) _. exfalso. exact (A4 _ Eop).
      * unfold glob_ok. sprjg.
        split; [exact G1|]. split; [exact G2|]. split; [reflexivity|]. tauto.
Qed.

Theorem step_inv fx s a s' : Inv s -> step fx s a = Some s' -> Inv s'.
Proof.
  intros HI H. destruct a; cbn [step] in H.
  - eapply step_invread; eauto.
  - eapply step_invwrite; eauto.
  - eapply step_release; eauto.
  - eapply step_commit; eauto.
  - eapply step_dropw; eauto.
  - eapply step_grant_inv; eauto.
  - eapply step_cli_inv; eauto.
  - eapply step_mon_inv; eauto.
  - eapply step_see_inv; eauto.
  - eapply step_own_inv; eauto.
Qed.

Lemma init_inv v0 nk cof : Inv (init v0 nk cof).
Proof.
  split.
  - intros c cl Hn. unfold init in Hn. cbn [clients] in Hn. rewrite nth_error_map in Hn.
    destruct (nth_error cof c); [|discriminate]. inversion Hn; subst cl.
    split; cbn; [unfold idx; cbn; lia|exact I].
  - intros k ka Hn. unfold init in Hn. cbn [caches] in Hn. apply nth_error_In, repeat_spec in Hn. subst ka.
    split; [reflexivity|]. split; [intros e He; discriminate|]. split.
    { intros m mo Hm. destruct m; discriminate. }
    split; [constructor|]. intros w h [].
  - unfold glob_ok, init. cbn. split; [reflexivity|]. split; [reflexivity|]. split; [reflexivity|].
    split; [constructor|]. split; [intros c []|]. split; [constructor|]. split; [intros c []|exact I].
Qed.

Lemma step'_inv fx s a : Inv s -> Inv (step' fx s a).
Proof.
  intros HI. unfold step'. destruct (step fx s a) as [s'|] eqn:E; [|exact HI]. eapply step_inv; eauto.
Qed.

Lemma run_inv fx acts : forall s, Inv s -> Inv (run fx acts s).
Proof.
  induction acts as [|a acts IH]; intros s HI; cbn [run fold_left]; [exact HI|].
  apply IH. now apply step'_inv.
Qed.

Theorem reach_inv fx v0 nk cof acts : Inv (run fx acts (init v0 nk cof)).
Proof. apply run_inv, init_inv. Qed.


(** ** the properties, for every state satisfying the invariant *)
Lemma held_entry s c cl :
  Inv s -> nth_error (clients s) c = Some cl -> read_guard cl = true ->
  exists k0 e, nth_error (caches s) (c_cache cl) = Some k0 /\ k_entry k0 = Some e /\
               copy_ok s (e_gen e) (e_val e) (e_idx e).
Proof.
  intros HI Ecl Hr. destruct (inv_cli _ HI _ _ Ecl) as [_ Hc]. unfold read_guard in Hr.
  destruct (c_pc cl); try discriminate. destruct Hc as [Hin Hent].
  destruct (kc_in_range s cl) as [k0 Ek0]. { right. intros E. rewrite E in Hin. destruct Hin. }
  rewrite (kc_at _ _ _ _ Ek0 eq_refl) in Hent. destruct (k_entry k0) as [e|] eqn:Ee; [|congruence].
  exists k0, e. split; [exact Ek0|]. split; [exact Ee|].
  destruct (inv_cache _ HI _ _ Ek0) as (_ & Q2 & _). auto.
Qed.

Lemma exclusion_inv s c1 cl1 c2 cl2 :
  Inv s -> nth_error (clients s) c1 = Some cl1 -> nth_error (clients s) c2 = Some cl2 ->
  write_guard cl1 = true ->
  read_guard cl2 = false /\ (write_guard cl2 = true -> c1 = c2).
Proof.
  intros HI E1 E2 Hw.
  assert (Hop : o_pc s = OWaitNew c1).
  { destruct (inv_cli _ HI _ _ E1) as [_ Hc]. unfold write_guard in Hw.
    destruct (c_pc cl1); try discriminate; tauto. }
  split.
  - destruct (read_guard cl2) eqn:Hr; [|reflexivity]. exfalso.
    destruct (held_entry _ _ _ HI E2 Hr) as (k0 & e & _ & _ & (_ & _ & _ & Hn)). exact (Hn _ Hop).
  - intros Hw2. destruct (inv_cli _ HI _ _ E2) as [_ Hc]. unfold write_guard in Hw2.
    destruct (c_pc cl2); try discriminate; destruct Hc as [Hc _]; congruence.
Qed.

Lemma commit_at_idx s : o_val s = hd (o_init s) (o_log s) -> commit_at s (idx s) = Some (o_val s).
Proof.
  intros H. unfold commit_at, idx. destruct (o_log s) as [|v l] eqn:El.
  - cbn. now rewrite H.
  - cbn [hd] in H. rewrite len_cons'. destruct (N.eqb_spec (len l + 1) 0) as [E|_]; [lia|].
    cbn [rev]. replace (N.to_nat (len l + 1 - 1)) with (length (rev l)).
    + rewrite nth_error_app_last. now rewrite H.
    + rewrite rev_length. unfold len. lia.
Qed.

Lemma fresh_inv s c cl :
  Inv s -> nth_error (clients s) c = Some cl -> read_guard cl = true ->
  exists v i, guard_value s cl = Some (v, i) /\ c_start cl <= i /\ i = idx s /\ v = o_val s /\
              commit_at s i = Some v.
Proof.
  intros HI Ecl Hr. destruct (held_entry _ _ _ HI Ecl Hr) as (k0 & e & Ek0 & Ee & (C1 & C2 & C3 & C4)).
  exists (e_val e), (e_idx e). unfold guard_value. rewrite Ek0, Ee.
  destruct (inv_cli _ HI _ _ Ecl) as [Hst _]. destruct (inv_glob _ HI) as (G1 & _).
  split; [reflexivity|]. split; [lia|]. split; [exact C3|]. split; [exact C2|].
  rewrite C2, C3. now apply commit_at_idx.
Qed.

Lemma write_guard_inv s c cl v i :
  Inv s -> nth_error (clients s) c = Some cl -> (c_pc cl = WGot v i \/ c_pc cl = WHold v i) ->
  v = o_val s /\ i = idx s /\ commit_at s i = Some v.
Proof.
  intros HI Ecl Hp. destruct (inv_cli _ HI _ _ Ecl) as [_ Hc]. destruct (inv_glob _ HI) as (G1 & _).
  assert (H : v = o_val s /\ i = idx s) by (destruct Hp as [Hp|Hp]; rewrite Hp in Hc; tauto).
  destruct H as [-> ->]. split; [reflexivity|]. split; [reflexivity|]. now apply commit_at_idx.
Qed.

(** every [commit] call is either stored (a log entry) or still in flight; nothing else stores *)
Definition in_flight (s : state) : N := match o_sig s with SCommit _ => 1 | _ => 0 end.

Lemma durable_inv s :
  Inv s -> o_val s = hd (o_init s) (o_log s) /\ g_commits s = len (o_log s) + in_flight s.
Proof. intros HI. destruct (inv_glob _ HI) as (G1 & G2 & _). split; assumption. Qed.

(** the stored value and the log change only when the owner stores a committed value *)
Lemma log_step fx s a s' :
  step fx s a = Some s' ->
  (o_log s' = o_log s /\ o_val s' = o_val s) \/
  (exists v w, a = AOwn /\ o_pc s = OWaitNew w /\ o_sig s = SCommit v /\
               o_log s' = v :: o_log s /\ o_val s' = v).
Proof.
  intros H. destruct a; cbn [step step_user] in H.
  1-5: destruct (nth_error (clients s) c) as [cl|]; [|discriminate]; destruct (c_pc cl); try discriminate;
       try (destruct (nth_error (caches s) (c_cache cl)); [|discriminate]); inversion H; subst; left; split; reflexivity.
  - unfold step_grant in H. destruct (nth_error (caches s) k); [|discriminate].
    destruct (grant c) as [[[k' w] [c0|m]]|]; inversion H; subst; left; split; reflexivity.
  - unfold step_cli in H. destruct (nth_error (clients s) c) as [cl|]; [|discriminate].
    destruct (c_pc cl); try discriminate;
      try (destruct (nth_error (caches s) (c_cache cl)) as [k0|]; [|discriminate]);
      try (destruct (k_entry k0) as [e|]; [destruct (ent_valid k0 e)|]);
      inversion H; subst; left; split; reflexivity.
  - unfold step_mon in H. destruct (nth_error (caches s) k) as [k0|]; [|discriminate].
    destruct (nth_error (k_mons k0) m) as [mo|]; [|discriminate].
    destruct (m_pc mo); try discriminate; try (destruct (m_seen mo); [|discriminate]);
      inversion H; subst; left; split; reflexivity.
  - unfold step_see in H. destruct (nth_error (caches s) k) as [k0|]; [|discriminate].
    destruct (nth_error (k_mons k0) m) as [mo|]; [|discriminate].
    destruct (negb (m_seen mo) && invalidated s (m_gen mo)); inversion H; subst; left; split; reflexivity.
  - unfold step_own in H. destruct (o_pc s) as [|w|w] eqn:Eop.
    + destruct (o_wq s); [destruct (o_rq s); [discriminate|]|]; inversion H; subst; left; split; reflexivity.
    + destruct (no_copies s); inversion H; subst; left; split; reflexivity.
    + destruct (o_sig s) as [|v|] eqn:Es; [discriminate| |].
      * inversion H; subst. right. exists v, w. repeat split; reflexivity.
      * inversion H; subst. left. split; reflexivity.
Qed.


Lemma sum_map_upd {A} (f : A -> N) (g : A -> A) : forall l n x,
  nth_error l n = Some x -> sum (map f (upd n g l)) + f x = sum (map f l) + f (g x).
Proof.
  induction l as [|y l IH]; intros [|n] x H; cbn [nth_error upd map sum] in *; try discriminate.
  - inversion H; subst. lia.
  - specialize (IH _ _ H). lia.
Qed.

Lemma sum_map_upd_none {A} (f : A -> N) (g : A -> A) : forall l n,
  nth_error l n = None -> upd n g l = l.
Proof.
  induction l as [|y l IH]; intros [|n] H; cbn [nth_error upd] in *; try discriminate; auto.
  now rewrite IH.
Qed.

Lemma sum_map_snoc {A} (f : A -> N) l x : sum (map f (l ++ [x])) = sum (map f l) + f x.
Proof. rewrite map_app, sum_app. cbn [map sum]. lia. Qed.

Definition cs (l : list client) : N := sum (map (fun cl => crank (c_pc cl)) l).
Definition ks (l : list cache) : N := sum (map krank l).

Lemma mu_eq s : mu s = 3 * len (o_wq s) + len (o_rq s) + orank (o_pc s) + cs (clients s) + ks (caches s).
Proof. reflexivity. Qed.

Lemma cs_upd l c cl p : nth_error l c = Some cl -> cs (upd c (cl_pc p) l) + crank (c_pc cl) = cs l + crank p.
Proof. intros H. unfold cs. exact (sum_map_upd (fun cl => crank (c_pc cl)) (cl_pc p) _ _ _ H). Qed.

Lemma cs_upd_le l c p : cs (upd c (cl_pc p) l) <= cs l + crank p.
Proof.
  destruct (nth_error l c) as [cl|] eqn:E.
  - pose proof (cs_upd l c cl p E). lia.
  - rewrite (sum_map_upd_none (fun cl => crank (c_pc cl))) by exact E. lia.
Qed.

Lemma ks_upd l k k0 f : nth_error l k = Some k0 -> ks (upd k f l) + krank k0 = ks l + krank (f k0).
Proof. intros H. unfold ks. exact (sum_map_upd krank f _ _ _ H). Qed.

Lemma ks_upd_same l k k0 f : nth_error l k = Some k0 -> krank (f k0) = krank k0 -> ks (upd k f l) = ks l.
Proof. intros H E. pose proof (ks_upd l k k0 f H). lia. Qed.

Lemma mr_upd l m mo f : nth_error l m = Some mo ->
  sum (map mrank (upd m f l)) + mrank mo = sum (map mrank l) + mrank (f mo).
Proof. apply sum_map_upd. Qed.

Ltac munf := rewrite !mu_eq; sprjg.

Theorem mu_decreases fx s a s' :
  Inv s -> internal a = true -> step fx s a = Some s' -> mu s' < mu s.
Proof.
  intros HI Hint H. destruct a; try discriminate; cbn [step] in H.
  - (* grant *)
    unfold step_grant in H.
    destruct (nth_error (caches s) k) as [k0|] eqn:Ek0; [|discriminate].
    destruct (grant k0) as [[[k' w] h]|] eqn:Eg; [|discriminate].
    destruct (inv_cache _ HI _ _ Ek0) as (_ & _ & _ & _ & Q5).
    unfold grant in Eg. destruct (k_q k0) as [|[w0 h0] q'] eqn:Eq; [discriminate|].
    assert (Hf := Q5 w0 h0 (or_introl eq_refl)). cbn [queued_ok] in Hf.
    assert (Ek' : krank k' = krank k0 /\ w = w0 /\ h = h0).
    { destruct w0; destruct (k_wr k0); try discriminate; [destruct (k_rd k0); [|discriminate]|];
        inversion Eg; subst; repeat split; reflexivity. }
    destruct Ek' as (Ekr & -> & ->). destruct h0 as [c|m].
    + destruct Hf as (cl & Ecl & _ & Epc). inversion H; subst s'; clear H. munf.
      pose proof (cs_upd (clients s) c cl (if w0 then RHasW else RHasR) Ecl) as E1.
      rewrite (ks_upd_same _ _ _ _ Ek0) by exact Ekr.
      rewrite Epc in E1. destruct w0; cbn [crank] in E1; lia.
    + destruct Hf as (_ & mo & Emo & Empc). inversion H; subst s'; clear H. munf.
      pose proof (ks_upd (caches s) k k0 (fun _ => k_set_mons (upd m (m_set_pc MHold) (k_mons k')) k') Ek0) as E2.
      cbv beta in E2. unfold krank in E2 at 2. sprj.
      assert (Em' : nth_error (k_mons k') m = Some mo /\ krank k' = sum (map mrank (k_mons k'))).
      { destruct w0; destruct (k_wr k0); try discriminate; [destruct (k_rd k0); [|discriminate]|];
          inversion Eg; subst; split; auto. }
      destruct Em' as [Em' Ekk]. pose proof (mr_upd _ _ _ (m_set_pc MHold) Em') as E3.
      unfold mrank in E3 at 2 4. sprj. rewrite Empc in E3. lia.
  - (* client *)
    unfold step_cli in H. destruct (nth_error (clients s) c) as [cl|] eqn:Ecl; [|discriminate].
    destruct (c_pc cl) eqn:Epc; try discriminate.
    + destruct (nth_error (caches s) (c_cache cl)) as [k0|] eqn:Ek0; [|discriminate].
      assert (Hs : mu (set_pc c RQueuedW (set_cache (c_cache cl) (fun k => k_enq true (HC c) (k_unread (HC c) k)) s)) < mu s).
      { munf. pose proof (cs_upd (clients s) c cl RQueuedW Ecl) as E1.
        rewrite (ks_upd_same _ _ _ _ Ek0) by reflexivity.
        rewrite Epc in E1. cbn [crank] in E1. lia. }
      destruct (k_entry k0) as [e|]; [|inversion H; subst; exact Hs].
      destruct (ent_valid k0 e); [|inversion H; subst; exact Hs].
      inversion H; subst s'. munf. pose proof (cs_upd (clients s) c cl RHold Ecl) as E1.
      rewrite Epc in E1. cbn [crank] in E1. lia.
    + destruct (nth_error (caches s) (c_cache cl)) as [k0|] eqn:Ek0; [|discriminate].
      inversion H; subst s'. munf. pose proof (cs_upd (clients s) c cl RSending Ecl) as E1.
      rewrite (ks_upd_same _ _ _ _ Ek0) by reflexivity.
      rewrite Epc in E1. cbn [crank] in E1. lia.
    + inversion H; subst s'. munf. pose proof (cs_upd (clients s) c cl RWaitVal Ecl) as E1.
      rewrite Epc in E1. cbn [crank] in E1. rewrite len_app. change (len [c]) with 1. lia.
    + destruct (nth_error (caches s) (c_cache cl)) as [k0|] eqn:Ek0; [|discriminate].
      inversion H; subst s'. munf. pose proof (cs_upd (clients s) c cl RHold Ecl) as E1.
      match goal with |- context [upd (c_cache cl) (fun _ => ?K)] =>
        pose proof (ks_upd (caches s) (c_cache cl) k0 (fun _ => K) Ek0) as E2 end.
      cbv beta in E2. unfold krank in E2 at 2. sprj. rewrite sum_map_snoc in E2.
      change (mrank (mkM g false MWatch)) with 4 in E2. fold (krank k0) in E2.
      rewrite Epc in E1. cbn [crank] in E1. lia.
    + inversion H; subst s'. munf. pose proof (cs_upd (clients s) c cl WWait Ecl) as E1.
      rewrite Epc in E1. cbn [crank] in E1. rewrite len_app. change (len [c]) with 1. lia.
    + inversion H; subst s'. munf. pose proof (cs_upd (clients s) c cl (WHold v i) Ecl) as E1.
      rewrite Epc in E1. cbn [crank] in E1. lia.
    + inversion H; subst s'. munf. pose proof (cs_upd (clients s) c cl CIdle Ecl) as E1.
      rewrite Epc in E1. cbn [crank] in E1. lia.
  - (* monitor *)
    unfold step_mon in H. destruct (nth_error (caches s) k) as [k0|] eqn:Ek0; [|discriminate].
    destruct (nth_error (k_mons k0) m) as [mo|] eqn:Emo; [|discriminate].
    destruct (m_pc mo) eqn:Epc; try discriminate.
    + destruct (m_seen mo) eqn:Es; [|discriminate]. inversion H; subst s'. munf.
      pose proof (ks_upd (caches s) k k0 (fun k => k_enq true (HM m) (k_set_mons (upd m (m_set_pc MQueued) (k_mons k)) k)) Ek0) as E2.
      cbv beta in E2. unfold krank in E2. sprj.
      pose proof (mr_upd _ _ _ (m_set_pc MQueued) Emo) as E3. unfold mrank in E3 at 2 4. sprj.
      rewrite Epc, Es in E3. lia.
    + inversion H; subst s'. munf.
      match goal with |- context [upd k ?F] => pose proof (ks_upd (caches s) k k0 F Ek0) as E2 end.
      cbv beta in E2. unfold krank in E2. sprj.
      pose proof (mr_upd _ _ _ (m_set_pc MDone) Emo) as E3. unfold mrank in E3 at 2 4. sprj.
      rewrite Epc in E3. lia.
  - (* see *)
    unfold step_see in H. destruct (nth_error (caches s) k) as [k0|] eqn:Ek0; [|discriminate].
    destruct (nth_error (k_mons k0) m) as [mo|] eqn:Emo; [|discriminate].
    destruct (m_seen mo) eqn:Es; [discriminate|]. cbn [negb andb] in H.
    destruct (invalidated s (m_gen mo)); [|discriminate]. inversion H; subst s'. munf.
    match goal with |- context [upd k ?F] => pose proof (ks_upd (caches s) k k0 F Ek0) as E2 end.
    cbv beta in E2. unfold krank in E2. sprj.
    pose proof (mr_upd _ _ _ m_set_seen Emo) as E3. unfold mrank in E3 at 2 4. sprj.
    rewrite Es in E3. lia.
  - (* owner *)
    unfold step_own in H. destruct (inv_glob _ HI) as (_ & _ & _ & _ & G5 & _ & G7 & G8).
    destruct (o_pc s) as [|w|w] eqn:Eop.
    + destruct (o_wq s) as [|w wq'] eqn:Ewq.
      * destruct (o_rq s) as [|c rq'] eqn:Erq; [discriminate|]. inversion H; subst s'. munf.
        destruct (G5 c (or_introl eq_refl)) as (cl & Ecl & Epc).
        pose proof (cs_upd (clients s) c cl (RGot (o_gen s) (o_val s) (idx s)) Ecl) as E1.
        rewrite Epc in E1. cbn [crank] in E1. rewrite ?Eop, ?Ewq, ?Erq, ?len_cons. cbn [orank]. lia.
      * inversion H; subst s'. munf. rewrite ?Eop, ?Ewq, ?len_cons. cbn [orank]. lia.
    + destruct (no_copies s); [|discriminate]. inversion H; subst s'. munf.
      destruct G8 as [(cl & Ecl & Epc) _].
      pose proof (cs_upd (clients s) w cl (WGot (o_val s) (idx s)) Ecl) as E1.
      rewrite Epc in E1. cbn [crank] in E1. rewrite Eop. cbn [orank]. lia.
    + destruct (o_sig s) as [|v|] eqn:Es; [discriminate| |].
      * inversion H; subst s'. munf. destruct G8 as (cl & Ecl & Epc).
        pose proof (cs_upd (clients s) w cl WConfirmed Ecl) as E1.
        rewrite Epc in E1. cbn [crank] in E1. rewrite Eop. cbn [orank]. lia.
      * inversion H; subst s'. munf. rewrite Eop. cbn [orank]. lia.
Qed.

(** ** F5: deadlock witnesses for the code as it is and for the "clear if stale" repair *)

(** run internal actions (first enabled candidate first) until none is enabled; the actions taken *)
Fixpoint quiesce_acts (fx : fixmode) (fuel : nat) (s : state) : list action :=
  match fuel with
  | O => []
  | S f => match find (enabled fx s) (internal_actions s) with
           | Some a => a :: quiesce_acts fx f (step' fx s a)
           | None => []
           end
  end.

(** every user action of a script followed by a run to quiescence, as one action list *)
Fixpoint expand (fx : fixmode) (script : list action) (s : state) : list action :=
  match script with
  | [] => []
  | a :: rest =>
      let s1 := step' fx s a in
      let q := quiesce_acts fx 200 s1 in
      a :: q ++ expand fx rest (run fx q s1)
  end.

Definition no_user_guards (s : state) : bool := forallb (fun cl => negb (user_guard cl)) (clients s).
Definition some_pending (s : state) : bool := existsb pending (clients s).

(** the state is a deadlock: requests pending, no guard held by any user, no internal action enabled *)
Definition deadlocked (fx : fixmode) (s : state) : bool :=
  no_user_guards s && some_pending s && stuck fx s.

(** four clients sharing one cache: C = 0, W = 1, A = 2, B = 3.  C reads (cold) and holds; W requests
    write (the owner invalidates, C's monitor queues for the cache write lock); A and B request read
    and queue behind the monitor; C releases: the monitor clears the cache, W gets the write guard,
    A and B both find the cache empty and queue for the write lock, A first; W commits 7; A fetches
    and holds 7, B still waits for the cache write lock; W requests write again (invalidation, A's
    monitor queues BEHIND B); A releases: B takes the write lock with the invalidated copy still
    cached and asks the owner, which waits for that copy. *)
Definition f5_script : list action :=
  [AInvRead 0; AInvWrite 1; AInvRead 2; AInvRead 3; ARelease 0; ACommit 1 7; AInvWrite 1; ARelease 2]%nat.
Definition f5_init : state := init 5 1 [0; 0; 0; 0]%nat.
Definition f5_acts : list action := Eval vm_compute in expand FixNone f5_script f5_init.

(** same prefix; then A releases and W's second write request overtakes B's read request: B took
    the write lock while the cached copy was still valid (so "clear if stale" keeps it), the owner
    serves the write request first (biased select), invalidates and waits for B's cache. *)
Definition f5s_prefix : list action :=
  [AInvRead 0; AInvWrite 1; AInvRead 2; AInvRead 3; ARelease 0; ACommit 1 7]%nat.
Definition f5s_race : list action :=
  [ARelease 2; AGrant 0; ACli 3; AInvWrite 1; ACli 1; AOwn; ACli 3]%nat.
Definition f5s_acts : list action :=
  Eval vm_compute in
    (let a1 := expand FixStale f5s_prefix f5_init ++ f5s_race in
     a1 ++ quiesce_acts FixStale 200 (run FixStale a1 f5_init)).

Lemma f5_deadlock : deadlocked FixNone (run FixNone f5_acts f5_init) = true.
Proof. vm_compute. reflexivity. Qed.

Lemma f5_stale_deadlock : deadlocked FixStale (run FixStale f5s_acts f5_init) = true.
Proof. vm_compute. reflexivity. Qed.

(** both scripts complete under the "always clear" repair *)
Lemma f5_fixed_ok :
  some_pending (run FixClear (expand FixClear (f5_script ++ [ACommit 1 8]%nat) f5_init) f5_init) = false /\
  deadlocked FixClear (run FixClear f5s_acts f5_init) = false.
Proof. vm_compute. split; reflexivity. Qed.


(** [internal_actions] lists every internal action that can be enabled *)
Lemma internal_complete fx s a s' :
  internal a = true -> step fx s a = Some s' -> In a (internal_actions s).
Proof.
  intros Hi H. unfold internal_actions. destruct a; try discriminate; cbn [step] in H.
  - right. apply in_or_app. left. apply in_map, in_seq. split; [lia|]. cbn.
    unfold step_grant in H. destruct (nth_error (caches s) k) eqn:E; [|discriminate].
    apply nth_error_Some. congruence.
  - right. apply in_or_app. right. apply in_or_app. left. apply in_map, in_seq. split; [lia|]. cbn.
    unfold step_cli in H. destruct (nth_error (clients s) c) eqn:E; [|discriminate].
    apply nth_error_Some. congruence.
  - right. apply in_or_app. right. apply in_or_app. right. apply in_concat.
    unfold step_mon in H. destruct (nth_error (caches s) k) as [k0|] eqn:E; [|discriminate].
    destruct (nth_error (k_mons k0) m) eqn:Em; [|discriminate].
    exists (mon_actions k k0). split.
    + apply in_map_iff. exists k. rewrite E. split; [reflexivity|]. apply in_seq. split; [lia|]. cbn.
      apply nth_error_Some. congruence.
    + unfold mon_actions. apply in_flat_map. exists m. split; [|now left].
      apply in_seq. split; [lia|]. cbn. apply nth_error_Some. congruence.
  - right. apply in_or_app. right. apply in_or_app. right. apply in_concat.
    unfold step_see in H. destruct (nth_error (caches s) k) as [k0|] eqn:E; [|discriminate].
    destruct (nth_error (k_mons k0) m) eqn:Em; [|discriminate].
    exists (mon_actions k k0). split.
    + apply in_map_iff. exists k. rewrite E. split; [reflexivity|]. apply in_seq. split; [lia|]. cbn.
      apply nth_error_Some. congruence.
    + unfold mon_actions. apply in_flat_map. exists m. split; [|right; now left].
      apply in_seq. split; [lia|]. cbn. apply nth_error_Some. congruence.
  - now left.
Qed.

Lemma stuck_sound fx s : stuck fx s = true -> forall a, internal a = true -> step fx s a = None.
Proof.
  intros Hs a Hi. destruct (step fx s a) as [s'|] eqn:E; [|reflexivity]. exfalso.
  unfold stuck in Hs. apply negb_true_iff in Hs.
  assert (existsb (enabled fx s) (internal_actions s) = true); [|congruence].
  apply existsb_exists. exists a. split; [eapply internal_complete; eauto|].
  unfold enabled. now rewrite E.
Qed.

(** a deadlock, as a statement about the small-step system *)
Definition Deadlock (fx : fixmode) (s : state) : Prop :=
  (forall c cl, nth_error (clients s) c = Some cl -> user_guard cl = false) /\
  (exists c cl, nth_error (clients s) c = Some cl /\ pending cl = true) /\
  (forall a, internal a = true -> step fx s a = None).

Lemma deadlocked_sound fx s : deadlocked fx s = true -> Deadlock fx s.
Proof.
  unfold deadlocked. intros H. apply andb_prop in H. destruct H as [H H3].
  apply andb_prop in H. destruct H as [H1 H2]. split; [|split].
  - intros c cl Hn. unfold no_user_guards in H1. rewrite forallb_forall in H1.
    specialize (H1 _ (nth_error_In _ _ Hn)). now apply negb_true_iff in H1.
  - unfold some_pending in H2. apply existsb_exists in H2. destruct H2 as (cl & Hin & Hp).
    apply In_nth_error in Hin. destruct Hin as [c Hc]. eauto.
  - now apply stuck_sound.
Qed.

Theorem progress_refuted_asis :
  exists v0 nk cof acts, Deadlock FixNone (run FixNone acts (init v0 nk cof)).
Proof. exists 5, 1%nat, [0; 0; 0; 0]%nat, f5_acts. apply deadlocked_sound. exact f5_deadlock. Qed.

Theorem progress_refuted_clear_if_stale :
  exists v0 nk cof acts, Deadlock FixStale (run FixStale acts (init v0 nk cof)).
Proof. exists 5, 1%nat, [0; 0; 0; 0]%nat, f5s_acts. apply deadlocked_sound. exact f5_stale_deadlock. Qed.
