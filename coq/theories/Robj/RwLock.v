(** Model of [remoc::robj::rw_lock] (owner.rs, rw_lock.rs, msg.rs).

    Transcribed structure
    ---------------------
    Owner task ([Owner::owner_task]): a loop around a BIASED [select!]: a write request is taken
    before a read request.
      read request : answer with a [Value] = clone of the stored value + a clone of [dropped_tx] of
                     the current generation + a clone of [invalid_rx] of the current generation.
      write request: [invalid_tx.send(true)]; drop the owner's [dropped_tx]; wait until
                     [dropped_rx.recv()] yields [None], i.e. until EVERY clone of [dropped_tx] of the
                     generation -- one per [Value] handed out -- has been dropped ([OWaitDrop]);
                     make fresh channels (a new generation); send the stored value to the writer;
                     wait for the new value ([OWaitNew]): on arrival store it and confirm, if the
                     writer dropped its guard instead ([new_value_tx] dropped) store nothing.
    [ReadLock] = request sender + [cache : Arc<tokio::sync::RwLock<Option<Value>>>].  Clones of a
    lock share the cache; a lock received from another endpoint starts with its own empty cache.
      [fetch]: (1) [cache.read().await]; a cached value that [is_valid()] is returned as the guard
                   (the Tokio read guard is the [ReadGuard]);
               (2) otherwise release, [cache.write().await], send a [ReadRequest], await the value
                   -- holding the cache write lock all the time --, spawn the monitor task, store
                   the value (the previous entry is dropped), downgrade to a read guard.
      monitor task (one per fetched value): wait until its [invalid_rx] (a clone of the value's, same
                   underlying watch) shows [true]; [cache.write().await]; clear the entry iff the
                   entry [!is_valid()]; release.
    [RwLock::write]: send a [WriteRequest], await the value: that is the [WriteGuard];
    [commit]: send the new value, await the confirmation; dropping the guard drops [new_value_tx].

    The Tokio [RwLock] is FIFO-fair: a request is queued; the front of the queue is granted when
    compatible with the holders (a queued writer therefore blocks later readers).  Permits are
    assigned when the previous holder releases; the woken task runs later -- hence [AGrant] and the
    task's own next step ([ACli]/[AMon]) are separate actions.

    A cached/in-flight [Value] is valid ([is_valid]) iff its [invalid_rx] has not shown [true] yet.
    Locally that happens at the owner's [send(true)]; at a remote endpoint when the forwarded watch
    update arrives.  [ASee k m] is that arrival for the value fetched together with monitor [m]
    (each fetched value has exactly one monitor, they share the watch): enabled any time after the
    owner has invalidated the generation.

    All nondeterminism is the [action] argument: user actions (invoke read / write, release a read
    guard, commit v, drop a write guard) and internal actions (lock grant, next step of a client
    future incl. arrival of its request at the owner, monitor steps, watch arrival, owner step).

    Repair parameter [fixmode] (finding F5): what [fetch] does right after acquiring the cache
    write lock: [FixNone] = the code as it is; [FixStale] = clear the entry if it is invalid (the
    candidate of DESIGN.md section 6 -- still deadlocks, see [RwLockProofs]); [FixClear] = always
    drop the cached entry before asking the owner. *)
From Remoc Require Import Lib.Base.

Inductive fixmode := FixNone | FixStale | FixClear.

(** who holds / waits for a cache lock: a client future or a monitor task of that cache *)
Inductive holder := HC (c : nat) | HM (m : nat).

Definition holder_eqb (a b : holder) : bool :=
  match a, b with
  | HC x, HC y => Nat.eqb x y
  | HM x, HM y => Nat.eqb x y
  | _, _ => false
  end.

(** program counter of a client (one outstanding request or guard per client) *)
Inductive cpc :=
| CIdle
| RQueuedR                 (* [read()] called: queued for the cache read lock *)
| RHasR                    (* read lock granted, validity check not yet run *)
| RQueuedW                 (* slow path: queued for the cache write lock *)
| RHasW                    (* write lock granted, future not yet resumed *)
| RSending                 (* [ReadRequest] on its way to the owner (holds the write lock) *)
| RWaitVal                 (* request in the owner's queue *)
| RGot (g v i : N)         (* the owner's answer (a copy of generation g) is in flight *)
| RHold                    (* read guard held by the user *)
| WSending                 (* [WriteRequest] on its way *)
| WWait                    (* in the owner's queue, or being served ([OWaitDrop]) *)
| WGot (v i : N)           (* value for writing in flight *)
| WHold (v i : N)          (* write guard held by the user *)
| WCommitWait (v : N)      (* [commit]: new value sent, not yet stored *)
| WConfirmed.              (* stored; confirmation in flight *)

Record client := mkCl {
  c_cache : nat;           (* which cache its lock clone uses *)
  c_pc : cpc;
  c_start : N;             (* ghost: number of commits stored when the current request was invoked *)
}.

Inductive mpc := MWatch | MQueued | MHold | MDone.

Record mon := mkM {
  m_gen : N;               (* generation of the value it was spawned for *)
  m_seen : bool;           (* its watch (shared with that value) shows [true] *)
  m_pc : mpc;
}.

Record ent := mkE { e_gen : N; e_val : N; e_idx : N; e_mon : nat }.

Record cache := mkK {
  k_entry : option ent;
  k_rd : list holder;              (* holders of the Tokio read lock, in grant order *)
  k_wr : option holder;            (* holder of the Tokio write lock *)
  k_q : list (bool * holder);      (* FIFO of waiters; [true] = write *)
  k_mons : list mon;               (* every monitor ever spawned for this cache *)
}.

Inductive opc := OIdle | OWaitDrop (w : nat) | OWaitNew (w : nat).
Inductive wsig := SNone | SCommit (v : N) | SDrop.

Record state := mkS {
  o_val : N;                       (* the stored value *)
  o_gen : N;                       (* current generation of [dropped]/[invalid] channels *)
  o_inv : bool;                    (* [invalid_tx.send(true)] done for the current generation *)
  o_pc : opc;
  o_sig : wsig;                    (* what the served writer has sent on [new_value] *)
  o_wq : list nat;                 (* write requests, FIFO *)
  o_rq : list nat;                 (* read requests, FIFO *)
  clients : list client;
  caches : list cache;
  (* ghost *)
  o_init : N;                      (* initial value *)
  o_log : list N;                  (* values stored by commits, newest first *)
  g_commits : N;                   (* number of [commit] calls made by users *)
}.

(** number of commits stored so far = index of the stored value *)
Definition idx (s : state) : N := len (o_log s).

(** the value with commit index [i] *)
Definition commit_at (s : state) (i : N) : option N :=
  if i =? 0 then Some (o_init s) else nth_error (rev (o_log s)) (N.to_nat (i - 1)).

Definition empty_cache : cache := mkK None [] None [] [].

Definition init (v0 : N) (nk : nat) (cache_of : list nat) : state :=
  mkS v0 0 false OIdle SNone [] [] (map (fun k => mkCl k CIdle 0) cache_of) (repeat empty_cache nk)
      v0 [] 0.

Inductive action :=
(* user *)
| AInvRead (c : nat)
| AInvWrite (c : nat)
| ARelease (c : nat)
| ACommit (c : nat) (v : N)
| ADropW (c : nat)
(* internal *)
| AGrant (k : nat)
| ACli (c : nat)
| AMon (k m : nat)
| ASee (k m : nat)
| AOwn.

Definition internal (a : action) : bool :=
  match a with
  | AGrant _ | ACli _ | AMon _ _ | ASee _ _ | AOwn => true
  | _ => false
  end.

(** ** setters *)
Fixpoint upd {A} (n : nat) (f : A -> A) (l : list A) : list A :=
  match l, n with
  | [], _ => []
  | x :: r, O => f x :: r
  | x :: r, S n' => x :: upd n' f r
  end.

Definition set_clients (f : list client -> list client) (s : state) : state :=
  mkS (o_val s) (o_gen s) (o_inv s) (o_pc s) (o_sig s) (o_wq s) (o_rq s) (f (clients s)) (caches s)
      (o_init s) (o_log s) (g_commits s).
Definition set_caches (f : list cache -> list cache) (s : state) : state :=
  mkS (o_val s) (o_gen s) (o_inv s) (o_pc s) (o_sig s) (o_wq s) (o_rq s) (clients s) (f (caches s))
      (o_init s) (o_log s) (g_commits s).
Definition set_opc (p : opc) (s : state) : state :=
  mkS (o_val s) (o_gen s) (o_inv s) p (o_sig s) (o_wq s) (o_rq s) (clients s) (caches s)
      (o_init s) (o_log s) (g_commits s).
Definition set_sig (g : wsig) (s : state) : state :=
  mkS (o_val s) (o_gen s) (o_inv s) (o_pc s) g (o_wq s) (o_rq s) (clients s) (caches s)
      (o_init s) (o_log s) (g_commits s).
Definition set_wq (q : list nat) (s : state) : state :=
  mkS (o_val s) (o_gen s) (o_inv s) (o_pc s) (o_sig s) q (o_rq s) (clients s) (caches s)
      (o_init s) (o_log s) (g_commits s).
Definition set_rq (q : list nat) (s : state) : state :=
  mkS (o_val s) (o_gen s) (o_inv s) (o_pc s) (o_sig s) (o_wq s) q (clients s) (caches s)
      (o_init s) (o_log s) (g_commits s).
Definition set_inv (b : bool) (s : state) : state :=
  mkS (o_val s) (o_gen s) b (o_pc s) (o_sig s) (o_wq s) (o_rq s) (clients s) (caches s)
      (o_init s) (o_log s) (g_commits s).
Definition next_gen (s : state) : state :=
  mkS (o_val s) (o_gen s + 1) false (o_pc s) (o_sig s) (o_wq s) (o_rq s) (clients s) (caches s)
      (o_init s) (o_log s) (g_commits s).
Definition store (v : N) (s : state) : state :=
  mkS v (o_gen s) (o_inv s) (o_pc s) (o_sig s) (o_wq s) (o_rq s) (clients s) (caches s)
      (o_init s) (v :: o_log s) (g_commits s).
Definition count_commit (s : state) : state :=
  mkS (o_val s) (o_gen s) (o_inv s) (o_pc s) (o_sig s) (o_wq s) (o_rq s) (clients s) (caches s)
      (o_init s) (o_log s) (g_commits s + 1).

Definition cl_pc (p : cpc) (cl : client) : client := mkCl (c_cache cl) p (c_start cl).
Definition set_pc (c : nat) (p : cpc) (s : state) : state := set_clients (upd c (cl_pc p)) s.
Definition set_cache (k : nat) (f : cache -> cache) (s : state) : state := set_caches (upd k f) s.

Definition k_set_entry (e : option ent) (k : cache) : cache := mkK e (k_rd k) (k_wr k) (k_q k) (k_mons k).
Definition k_set_rd (r : list holder) (k : cache) : cache := mkK (k_entry k) r (k_wr k) (k_q k) (k_mons k).
Definition k_set_wr (w : option holder) (k : cache) : cache := mkK (k_entry k) (k_rd k) w (k_q k) (k_mons k).
Definition k_set_q (q : list (bool * holder)) (k : cache) : cache := mkK (k_entry k) (k_rd k) (k_wr k) q (k_mons k).
Definition k_set_mons (ms : list mon) (k : cache) : cache := mkK (k_entry k) (k_rd k) (k_wr k) (k_q k) ms.
Definition k_enq (w : bool) (h : holder) (k : cache) : cache := k_set_q (k_q k ++ [(w, h)]) k.
Definition k_unread (h : holder) (k : cache) : cache :=
  k_set_rd (filter (fun x => negb (holder_eqb x h)) (k_rd k)) k.

Definition m_set_pc (p : mpc) (m : mon) : mon := mkM (m_gen m) (m_seen m) p.
Definition m_set_seen (m : mon) : mon := mkM (m_gen m) true (m_pc m).

(** ** validity of the cached value: [Value::is_valid] through the watch it shares with its monitor *)
Definition ent_valid (k : cache) (e : ent) : bool :=
  match nth_error (k_mons k) (e_mon e) with
  | Some m => negb (m_seen m)
  | None => false
  end.

(** has the owner invalidated generation [g]?  (older generations: their [invalid_tx] sent [true]
    before it was replaced) *)
Definition invalidated (s : state) (g : N) : bool :=
  (g <? o_gen s) || ((g =? o_gen s) && o_inv s).

(** the owner's wait in a write request: every clone of the current generation's [dropped_tx] gone *)
Definition cl_no_copy (g : N) (cl : client) : bool :=
  match c_pc cl with RGot g' _ _ => negb (g' =? g) | _ => true end.
Definition k_no_copy (g : N) (k : cache) : bool :=
  match k_entry k with Some e => negb (e_gen e =? g) | None => true end.
Definition no_copies (s : state) : bool :=
  forallb (cl_no_copy (o_gen s)) (clients s) && forallb (k_no_copy (o_gen s)) (caches s).

(** ** steps *)

(** Tokio RwLock: grant the front waiter if compatible *)
Definition grant (k : cache) : option (cache * bool * holder) :=
  match k_q k with
  | (true, h) :: q' =>
      match k_wr k, k_rd k with
      | None, [] => Some (k_set_wr (Some h) (k_set_q q' k), true, h)
      | _, _ => None
      end
  | (false, h) :: q' =>
      match k_wr k with
      | None => Some (k_set_rd (k_rd k ++ [h]) (k_set_q q' k), false, h)
      | Some _ => None
      end
  | [] => None
  end.

Definition step_grant (kk : nat) (s : state) : option state :=
  match nth_error (caches s) kk with
  | None => None
  | Some k =>
      match grant k with
      | None => None
      | Some (k', w, HC c) =>
          Some (set_pc c (if w then RHasW else RHasR) (set_cache kk (fun _ => k') s))
      | Some (k', w, HM m) =>
          Some (set_cache kk (fun _ => k_set_mons (upd m (m_set_pc MHold) (k_mons k')) k') s)
      end
  end.

(** what [fetch] does to the entry right after acquiring the write lock *)
Definition fix_entry (fx : fixmode) (k : cache) : option ent :=
  match fx with
  | FixNone => k_entry k
  | FixStale => match k_entry k with
                | Some e => if ent_valid k e then Some e else None
                | None => None
                end
  | FixClear => None
  end.

Definition step_cli (fx : fixmode) (c : nat) (s : state) : option state :=
  match nth_error (clients s) c with
  | None => None
  | Some cl =>
      let kk := c_cache cl in
      match c_pc cl with
      | RHasR =>
          match nth_error (caches s) kk with
          | None => None
          | Some k =>
              match k_entry k with
              | Some e =>
                  if ent_valid k e then Some (set_pc c RHold s)
                  else Some (set_pc c RQueuedW (set_cache kk (fun k => k_enq true (HC c) (k_unread (HC c) k)) s))
              | None => Some (set_pc c RQueuedW (set_cache kk (fun k => k_enq true (HC c) (k_unread (HC c) k)) s))
              end
          end
      | RHasW =>
          match nth_error (caches s) kk with
          | None => None
          | Some k => Some (set_pc c RSending (set_cache kk (k_set_entry (fix_entry fx k)) s))
          end
      | RSending => Some (set_pc c RWaitVal (set_rq (o_rq s ++ [c]) s))
      | RGot g v i =>
          match nth_error (caches s) kk with
          | None => None
          | Some k =>
              let k' := k_set_rd (k_rd k ++ [HC c]) (k_set_wr None
                          (k_set_entry (Some (mkE g v i (length (k_mons k))))
                             (k_set_mons (k_mons k ++ [mkM g false MWatch]) k))) in
              Some (set_pc c RHold (set_cache kk (fun _ => k') s))
          end
      | WSending => Some (set_pc c WWait (set_wq (o_wq s ++ [c]) s))
      | WGot v i => Some (set_pc c (WHold v i) s)
      | WConfirmed => Some (set_pc c CIdle s)
      | _ => None
      end
  end.

Definition step_mon (kk m : nat) (s : state) : option state :=
  match nth_error (caches s) kk with
  | None => None
  | Some k =>
      match nth_error (k_mons k) m with
      | None => None
      | Some mo =>
          match m_pc mo with
          | MWatch =>
              if m_seen mo
              then Some (set_cache kk (fun k => k_enq true (HM m) (k_set_mons (upd m (m_set_pc MQueued) (k_mons k)) k)) s)
              else None
          | MHold =>
              let e' := match k_entry k with
                        | Some e => if ent_valid k e then Some e else None
                        | None => None
                        end in
              Some (set_cache kk (fun k => k_set_wr None (k_set_entry e'
                                   (k_set_mons (upd m (m_set_pc MDone) (k_mons k)) k))) s)
          | _ => None
          end
      end
  end.

Definition step_see (kk m : nat) (s : state) : option state :=
  match nth_error (caches s) kk with
  | None => None
  | Some k =>
      match nth_error (k_mons k) m with
      | None => None
      | Some mo =>
          if negb (m_seen mo) && invalidated s (m_gen mo)
          then Some (set_cache kk (fun k => k_set_mons (upd m m_set_seen (k_mons k)) k) s)
          else None
      end
  end.

Definition step_own (s : state) : option state :=
  match o_pc s with
  | OIdle =>
      match o_wq s with
      | w :: wq' => Some (set_opc (OWaitDrop w) (set_inv true (set_wq wq' s)))
      | [] =>
          match o_rq s with
          | c :: rq' => Some (set_pc c (RGot (o_gen s) (o_val s) (idx s)) (set_rq rq' s))
          | [] => None
          end
      end
  | OWaitDrop w =>
      if no_copies s
      then Some (set_opc (OWaitNew w) (set_pc w (WGot (o_val s) (idx s)) (next_gen s)))
      else None
  | OWaitNew w =>
      match o_sig s with
      | SCommit v => Some (set_opc OIdle (set_pc w WConfirmed (set_sig SNone (store v s))))
      | SDrop => Some (set_opc OIdle (set_sig SNone s))
      | SNone => None
      end
  end.

Definition step_user (a : action) (s : state) : option state :=
  match a with
  | AInvRead c =>
      match nth_error (clients s) c with
      | Some cl =>
          match c_pc cl, nth_error (caches s) (c_cache cl) with
          | CIdle, Some _ =>
              Some (set_clients (upd c (fun cl => mkCl (c_cache cl) RQueuedR (idx s)))
                     (set_cache (c_cache cl) (k_enq false (HC c)) s))
          | _, _ => None
          end
      | None => None
      end
  | AInvWrite c =>
      match nth_error (clients s) c with
      | Some cl =>
          match c_pc cl with
          | CIdle => Some (set_clients (upd c (fun cl => mkCl (c_cache cl) WSending (idx s))) s)
          | _ => None
          end
      | None => None
      end
  | ARelease c =>
      match nth_error (clients s) c with
      | Some cl =>
          match c_pc cl with
          | RHold => Some (set_pc c CIdle (set_cache (c_cache cl) (k_unread (HC c)) s))
          | _ => None
          end
      | None => None
      end
  | ACommit c v =>
      match nth_error (clients s) c with
      | Some cl =>
          match c_pc cl with
          | WHold _ _ => Some (set_pc c (WCommitWait v) (set_sig (SCommit v) (count_commit s)))
          | _ => None
          end
      | None => None
      end
  | ADropW c =>
      match nth_error (clients s) c with
      | Some cl =>
          match c_pc cl with
          | WHold _ _ => Some (set_pc c CIdle (set_sig SDrop s))
          | _ => None
          end
      | None => None
      end
  | _ => None
  end.

Definition step (fx : fixmode) (s : state) (a : action) : option state :=
  match a with
  | AGrant k => step_grant k s
  | ACli c => step_cli fx c s
  | AMon k m => step_mon k m s
  | ASee k m => step_see k m s
  | AOwn => step_own s
  | _ => step_user a s
  end.

(** an action that is not enabled leaves the state alone, so that [forall acts] ranges over every
    interleaving *)
Definition step' (fx : fixmode) (s : state) (a : action) : state :=
  match step fx s a with Some s' => s' | None => s end.

Definition run (fx : fixmode) (acts : list action) (s : state) : state := fold_left (step' fx) acts s.

(** ** observations *)
Definition read_guard (cl : client) : bool := match c_pc cl with RHold => true | _ => false end.
(** a write guard exists from the moment the owner hands the value out until commit / drop *)
Definition write_guard (cl : client) : bool :=
  match c_pc cl with WGot _ _ | WHold _ _ => true | _ => false end.
Definition user_guard (cl : client) : bool :=
  match c_pc cl with RHold | WHold _ _ => true | _ => false end.
Definition pending (cl : client) : bool :=
  match c_pc cl with CIdle | RHold | WHold _ _ => false | _ => true end.

(** the value a read guard dereferences to *)
Definition guard_value (s : state) (cl : client) : option (N * N) :=
  match nth_error (caches s) (c_cache cl) with
  | Some k => match k_entry k with Some e => Some (e_val e, e_idx e) | None => None end
  | None => None
  end.

(** ** all candidate internal actions of a state (for progress statements and the explorer) *)
Definition mon_actions (kk : nat) (k : cache) : list action :=
  flat_map (fun m => [AMon kk m; ASee kk m]) (seq 0 (length (k_mons k))).
Definition internal_actions (s : state) : list action :=
  AOwn :: map AGrant (seq 0 (length (caches s))) ++ map ACli (seq 0 (length (clients s)))
       ++ concat (map (fun kk => match nth_error (caches s) kk with
                                 | Some k => mon_actions kk k | None => [] end)
                      (seq 0 (length (caches s)))).

Definition enabled (fx : fixmode) (s : state) (a : action) : bool :=
  match step fx s a with Some _ => true | None => false end.

Definition stuck (fx : fixmode) (s : state) : bool :=
  negb (existsb (enabled fx s) (internal_actions s)).

(** ** termination measure of the internal actions *)
Definition crank (p : cpc) : N :=
  match p with
  | CIdle | RHold | WHold _ _ => 0
  | RQueuedR => 11 | RHasR => 10 | RQueuedW => 9 | RHasW => 8 | RSending => 7 | RWaitVal => 5
  | RGot _ _ _ => 5
  | WSending => 6 | WWait => 2 | WGot _ _ => 1 | WCommitWait _ => 2 | WConfirmed => 1
  end.
Definition mrank (m : mon) : N :=
  (match m_pc m with MWatch => 3 | MQueued => 2 | MHold => 1 | MDone => 0 end)
  + (if m_seen m then 0 else 1).
Definition orank (p : opc) : N := match p with OIdle => 0 | OWaitDrop _ => 2 | OWaitNew _ => 1 end.
Definition krank (k : cache) : N := sum (map mrank (k_mons k)).
Definition mu (s : state) : N :=
  3 * len (o_wq s) + len (o_rq s) + orank (o_pc s)
  + sum (map (fun cl => crank (c_pc cl)) (clients s)) + sum (map krank (caches s)).
