(** Fidelity of lazily transferred values: whatever the number of forwarders, their limits and
    chunk sizes, and wherever connections are cut, a fetch yields exactly the provided bytes or no
    value at all.  The "never truncated" part is the parser theorem of C01
    ([RecvProofs.recv_refines_parse]: a consumer following the receive protocol obtains exactly
    the complete messages of a frame sequence) applied to every forwarder and to the fetcher. *)
From Remoc Require Import Lib.Base Chmux.Parse Chmux.Recv Chmux.RecvProofs Robj.Lazy.

Ltac prj := cbn [rcving finished restarted max_data max_ports set_rcving set_finished set_restarted
                 fw_alive fw_m fw_r f_ck f_md f_mp fst snd] in *.

(** * Frames of a send parse to the message, whatever the chunk boundaries *)
Lemma chunks_concat fuel ck : forall data, (length data <= fuel)%nat -> concat (chunks fuel ck data) = data.
Proof.
  induction fuel as [|fuel IH]; intros data Hl.
  - destruct data; [reflexivity|cbn in Hl; lia].
  - destruct data as [|x d]; [reflexivity|]. cbn [chunks concat].
    set (k := N.to_nat (N.min (len (x :: d)) (N.max 1 ck))).
    assert (Hk : (1 <= k <= length (x :: d))%nat) by (subst k; unfold len; cbn [length]; lia).
    rewrite IH; [apply firstn_skipn|]. rewrite skipn_length. cbn [length] in *. lia.
Qed.

Lemma chunks_nonempty (fuel : nat) (ck x : N) (d : list N) : chunks (S fuel) ck (x :: d) <> [].
Proof. cbn [chunks]. discriminate. Qed.

Lemma parse_step_data (st : pst) (first last : bool) (b acc : list N) :
  st <> PFin -> (if first then PData [] else st) = PData acc ->
  parse_step st (FData first last b) = if last then (PNone, [MData (acc ++ b)]) else (PData (acc ++ b), []).
Proof. intros Hs E. destruct st; try contradiction; cbn [parse_step]; rewrite E; reflexivity. Qed.

(** any chunking [cs] of the data, flagged as the senders flag it *)
Lemma flag_frames_parse (fin : bool) : forall (cs : list (list N)) (first : bool) (st : pst) (acc : list N),
  cs <> [] -> st <> PFin -> (if first then PData [] else st) = PData acc ->
  parse_from st (flag_frames first fin cs) =
  if fin then (PNone, [MData (acc ++ concat cs)]) else (PData (acc ++ concat cs), []).
Proof.
  induction cs as [|c r IH]; intros first st acc Hne Hs E; [contradiction|].
  destruct r as [|c' r].
  - cbn [flag_frames parse_from concat]. rewrite (parse_step_data st first fin c acc Hs E), app_nil_r.
    destruct fin; reflexivity.
  - change (flag_frames first fin (c :: c' :: r)) with (FData first false c :: flag_frames false fin (c' :: r)).
    cbn [parse_from]. rewrite (parse_step_data st first false c acc Hs E).
    rewrite (IH false (PData (acc ++ c)) (acc ++ c)); [|discriminate|discriminate|reflexivity].
    cbn [concat]. rewrite <- app_assoc. destruct fin; reflexivity.
Qed.

Lemma send_int_parse (ck : N) (first fin : bool) (data : list N) (st : pst) (acc : list N) :
  st <> PFin -> (if first then PData [] else st) = PData acc ->
  parse_from st (send_int ck first fin data) =
  if fin then (PNone, [MData (acc ++ data)]) else (PData (acc ++ data), []).
Proof.
  intros Hs E. destruct data as [|x d].
  - cbn [send_int parse_from]. rewrite (parse_step_data st first fin [] acc Hs E). destruct fin; reflexivity.
  - unfold send_int. rewrite (flag_frames_parse fin _ first st acc); auto.
    + rewrite chunks_concat; [reflexivity|lia].
    + apply chunks_nonempty.
Qed.

Lemma stream_frames_cont ck : forall q acc,
  parse_from (PData acc) (stream_frames ck false q) = (PData (acc ++ concat q), []).
Proof.
  induction q as [|c r IH]; intros acc; cbn [stream_frames concat parse_from].
  - now rewrite app_nil_r.
  - rewrite parse_from_app. rewrite (send_int_parse ck false false c (PData acc) acc); [|discriminate|reflexivity].
    rewrite IH. now rewrite app_assoc.
Qed.

Lemma stream_frames_first ck q st :
  q <> [] -> st <> PFin -> parse_from st (stream_frames ck true q) = (PData (concat q), []).
Proof.
  intros Hq Hs. destruct q as [|c r]; [contradiction|]. cbn [stream_frames concat].
  rewrite parse_from_app. rewrite (send_int_parse ck true false c st []); [|exact Hs|reflexivity].
  rewrite stream_frames_cont. reflexivity.
Qed.

Lemma parse_from_fin st : snd (parse_from st [FFin]) = [].
Proof. destruct st; reflexivity. Qed.

(** * One forwarder: what it sends parses to what it received *)
Definition down_ok (m : cmode) (sd : pst) : Prop :=
  match m with CAny => sd <> PFin | CStream acc => sd = PData acc end.

Lemma data_of_ports ps : data_of [MPorts ps] = [].
Proof. reflexivity. Qed.

Ltac simp_out :=
  prj; cbn [app concat delivered_msgs flat_map dmsg_msg data_of filter is_data nilb andb];
  rewrite ?app_nil_r, ?drain_q_concat; cbn [app concat]; rewrite ?app_nil_r.

(** sending a whole message anew *)
Lemma whole_out ck sd x : sd <> PFin ->
  parse_from sd (send_int ck true true x) = (PNone, [MData x]).
Proof. intros H. now rewrite (send_int_parse ck true true x sd []). Qed.

(** entering the chunk loop with the queued chunks [q] *)
Lemma drain_out ck sd (r : rstate) q cpl :
  sd <> PFin -> q <> [] -> rcving r = RChunks q cpl ->
  let '(m', r', o) := drain [] r in
  let '(sd', po) := parse_from sd (fdrain ck true r) in
  data_of po = data_of (delivered_msgs o) /\ down_ok m' sd'.
Proof.
  intros Hs Hq Er. unfold drain, fdrain. rewrite Er. destruct cpl.
  - rewrite parse_from_app, (stream_frames_first ck q sd Hq Hs).
    destruct q as [|c q']; [contradiction|]. simp_out. cbn [parse_from parse_step]. simp_out.
    split; [reflexivity|discriminate].
  - rewrite (stream_frames_first ck q sd Hq Hs). simp_out. split; reflexivity.
Qed.

Lemma snoc_nonempty {A} (l : list A) x : l ++ [x] <> [].
Proof. destruct l; discriminate. Qed.

Lemma out_any c r f sd :
  finished r = false -> (forall q cpl, rcving r <> RChunks q cpl) -> sd <> PFin ->
  let '(m', r', o) := feed_any r f in
  let '(outs, dies) := fwd_any c r f in
  let '(sd', po) := parse_from sd outs in
  data_of po = data_of (delivered_msgs o) /\
  (dies = false -> finished r' = false -> down_ok m' sd').
Proof.
  intros Hf Hnc Hs. unfold feed_any, fwd_any, handle_any.
  destruct f as [first last b|first last ps|].
  - assert (Hgen : forall bufs rem,
              let '(m', r', o) :=
                (let '(r0, x) :=
                   if rem + len b <=? max_data r
                   then if last then (set_rcving r RNothing, Some (OData (concat (bufs ++ [b]))))
                        else (set_rcving r (RData (bufs ++ [b]) (rem + len b)), None)
                   else (set_rcving r (RChunks (bufs ++ [b]) last), Some OChunks) in
                 match x with
                 | Some (OData b0) => (CAny, r0, [DData b0])
                 | Some OChunks => drain [] r0
                 | Some (OReq ps) => (CAny, r0, [DPorts ps])
                 | Some OErrPorts => (CAny, r0, [DErrPorts])
                 | _ => (CAny, r0, [])
                 end) in
              let '(outs, dies) :=
                (let '(r0, x) :=
                   if rem + len b <=? max_data r
                   then if last then (set_rcving r RNothing, Some (OData (concat (bufs ++ [b]))))
                        else (set_rcving r (RData (bufs ++ [b]) (rem + len b)), None)
                   else (set_rcving r (RChunks (bufs ++ [b]) last), Some OChunks) in
                 match x with
                 | Some (OData b0) => (send_int (f_ck c) true true b0, false)
                 | Some OChunks => (fdrain (f_ck c) true r0, false)
                 | Some (OReq ps) => ([FPorts true true ps], false)
                 | Some OEnd => ([FFin], false)
                 | Some OErrPorts => ([FFin], true)
                 | _ => ([], false)
                 end) in
              let '(sd', po) := parse_from sd outs in
              data_of po = data_of (delivered_msgs o) /\
              (dies = false -> finished r' = false -> down_ok m' sd')).
    { intros bufs rem. destruct (rem + len b <=? max_data r); [destruct last|].
      - rewrite (whole_out (f_ck c) sd _ Hs). simp_out. split; [reflexivity|]. intros _ _. discriminate.
      - cbn [parse_from]. simp_out. split; [reflexivity|]. intros _ _. exact Hs.
      - pose proof (drain_out (f_ck c) sd (set_rcving r (RChunks (bufs ++ [b]) last)) (bufs ++ [b]) last Hs
                      (snoc_nonempty bufs b) eq_refl) as H.
        destruct (drain [] (set_rcving r (RChunks (bufs ++ [b]) last))) as [[m' r'] o].
        destruct (parse_from sd (fdrain (f_ck c) true (set_rcving r (RChunks (bufs ++ [b]) last)))) as [sd' po].
        destruct H as [H1 H2]. split; auto. }
    destruct first; [apply (Hgen [] 0)|].
    destruct (rcving r) as [|bufs rem|q cpl|acc] eqn:Er.
    + cbn [parse_from]. simp_out. split; [reflexivity|]. intros _ _. exact Hs.
    + apply Hgen.
    + exfalso. eapply Hnc; eauto.
    + cbn [parse_from]. simp_out. split; [reflexivity|]. intros _ _. exact Hs.
  - assert (Hgen : forall acc,
              let '(m', r', o) :=
                (let '(r0, x) :=
                   if max_ports r <? len (acc ++ ps) then (set_rcving r RNothing, Some OErrPorts)
                   else if last then (set_rcving r RNothing, Some (OReq (acc ++ ps)))
                        else (set_rcving r (RReq (acc ++ ps)), None) in
                 match x with
                 | Some (OData b0) => (CAny, r0, [DData b0])
                 | Some OChunks => drain [] r0
                 | Some (OReq ps) => (CAny, r0, [DPorts ps])
                 | Some OErrPorts => (CAny, r0, [DErrPorts])
                 | _ => (CAny, r0, [])
                 end) in
              let '(outs, dies) :=
                (let '(r0, x) :=
                   if max_ports r <? len (acc ++ ps) then (set_rcving r RNothing, Some OErrPorts)
                   else if last then (set_rcving r RNothing, Some (OReq (acc ++ ps)))
                        else (set_rcving r (RReq (acc ++ ps)), None) in
                 match x with
                 | Some (OData b0) => (send_int (f_ck c) true true b0, false)
                 | Some OChunks => (fdrain (f_ck c) true r0, false)
                 | Some (OReq ps) => ([FPorts true true ps], false)
                 | Some OEnd => ([FFin], false)
                 | Some OErrPorts => ([FFin], true)
                 | _ => ([], false)
                 end) in
              let '(sd', po) := parse_from sd outs in
              data_of po = data_of (delivered_msgs o) /\
              (dies = false -> finished r' = false -> down_ok m' sd')).
    { intros acc. destruct (max_ports r <? len (acc ++ ps)); [|destruct last].
      - destruct sd; try contradiction; cbn [parse_from parse_step]; simp_out; (split; [reflexivity|discriminate]).
      - destruct sd; try contradiction; cbn [parse_from parse_step]; simp_out;
          (split; [reflexivity|intros _ _; discriminate]).
      - cbn [parse_from]. simp_out. split; [reflexivity|]. intros _ _. exact Hs. }
    destruct first; [apply (Hgen [])|].
    destruct (rcving r) as [|bufs rem|q cpl|acc] eqn:Er.
    + cbn [parse_from]. simp_out. split; [reflexivity|]. intros _ _. exact Hs.
    + cbn [parse_from]. simp_out. split; [reflexivity|]. intros _ _. exact Hs.
    + exfalso. eapply Hnc; eauto.
    + apply Hgen.
  - destruct sd; try contradiction; cbn [parse_from parse_step]; simp_out; (split; [reflexivity|discriminate]).
Qed.

Lemma out_stream c r f acc :
  finished r = false -> rcving r = RChunks [] false -> restarted r = None ->
  let '(m', r', o) := feed (CStream acc) r f in
  let '(outs, dies) := fwd_stream c r f in
  let '(sd', po) := parse_from (PData acc) outs in
  data_of po = data_of (delivered_msgs o) /\
  (dies = false -> finished r' = false -> down_ok m' sd').
Proof.
  intros Hf Er Hre. unfold feed, fwd_stream. rewrite Hf. unfold handle_chunk. rewrite Er.
  destruct f as [first last b|first last ps|].
  - destruct first.
    + prj. apply out_any; prj; auto; discriminate.
    + unfold drain, fdrain. prj. rewrite parse_from_app.
      rewrite (send_int_parse (f_ck c) false false b (PData acc) acc); [|discriminate|reflexivity].
      destruct last; cbn [stream_frames app parse_from parse_step]; simp_out.
      * split; [reflexivity|]. intros _ _. discriminate.
      * split; reflexivity.
  - prj. rewrite Hre, Hf. cbn [parse_from]. simp_out. split; [reflexivity|]. intros _ _. discriminate.
  - prj. rewrite Hre. cbn [parse_from parse_step]. simp_out. split; [reflexivity|]. intros _ H. discriminate.
Qed.

(** what the invariant of a running forwarder is: it follows the receive protocol ([sim], from the
    proof of C01) and the parser state of what it has sent mirrors its position *)
Definition FInv (st : fstate) (sd : pst) : Prop :=
  fw_alive st = true /\ finished (fw_r st) = false /\
  (exists su, sim (fw_m st) (fw_r st) su) /\ down_ok (fw_m st) sd.

Lemma sim_facts m r su : sim m r su -> finished r = false ->
  restarted r = None /\
  match m with
  | CAny => forall q cpl, rcving r <> RChunks q cpl
  | CStream _ => rcving r = RChunks [] false
  end.
Proof.
  intros (Hre & _ & Hst) Hf. specialize (Hst Hf). split; [exact Hre|]. destruct m.
  - intros q cpl E. rewrite E in Hst. exact Hst.
  - apply Hst.
Qed.

Lemma fwd_step_ok c st sd f :
  FInv st sd ->
  let '(st', outs) := fwd_step c st f in
  let '(m', r', o) := feed (fw_m st) (fw_r st) f in
  let '(sd', po) := parse_from sd outs in
  fw_m st' = m' /\ fw_r st' = r' /\ data_of po = data_of (delivered_msgs o) /\
  (FInv st' sd' \/ fw_alive st' = false \/ finished (fw_r st') = true).
Proof.
  intros (Ha & Hf & (su & Hsim) & Hd). unfold fwd_step. rewrite Ha, Hf. cbn [negb orb].
  destruct (sim_facts _ _ _ Hsim Hf) as [Hre Hm].
  pose proof (feed_sim (fw_m st) (fw_r st) su f Hsim) as Hnext.
  destruct (fw_m st) as [|acc] eqn:Em.
  - pose proof (out_any c (fw_r st) f sd Hf Hm Hd) as H.
    assert (Efeed : feed CAny (fw_r st) f = feed_any (fw_r st) f) by (unfold feed; now rewrite Hf).
    rewrite Efeed in *. destruct (feed_any (fw_r st) f) as [[m' r'] o].
    destruct (fwd_any c (fw_r st) f) as [outs dies]. destruct (parse_from sd outs) as [sd' po].
    destruct H as [H1 H2]. prj. repeat split; auto.
    destruct dies; [right; left; reflexivity|]. destruct (finished r') eqn:Ef'; [right; right; reflexivity|].
    left. repeat split; prj; auto. destruct (parse_step su f) as [su' pou]. exists su'. apply Hnext.
  - cbn [down_ok] in Hd. subst sd.
    pose proof (out_stream c (fw_r st) f acc Hf Hm Hre) as H.
    destruct (feed (CStream acc) (fw_r st) f) as [[m' r'] o].
    destruct (fwd_stream c (fw_r st) f) as [outs dies]. destruct (parse_from (PData acc) outs) as [sd' po].
    destruct H as [H1 H2]. prj. repeat split; auto.
    destruct dies; [right; left; reflexivity|]. destruct (finished r') eqn:Ef'; [right; right; reflexivity|].
    left. repeat split; prj; auto. destruct (parse_step su f) as [su' pou]. exists su'. apply Hnext.
Qed.

Lemma fwd_all_stopped c st fs : fw_alive st = false \/ finished (fw_r st) = true -> fwd_all c st fs = (st, []).
Proof.
  intros H. induction fs as [|f fs IH]; [reflexivity|]. cbn [fwd_all]. unfold fwd_step.
  replace (negb (fw_alive st) || finished (fw_r st)) with true by (destruct H as [-> | ->]; [reflexivity|now rewrite orb_true_r]).
  now rewrite IH.
Qed.

Lemma prefix_app_both {A} (a b c : list A) : prefix b c -> prefix (a ++ b) (a ++ c).
Proof. intros [r ->]. exists r. now rewrite app_assoc. Qed.

Lemma delivered_app a b : delivered_msgs (a ++ b) = delivered_msgs a ++ delivered_msgs b.
Proof. unfold delivered_msgs. apply flat_map_app. Qed.

Lemma fwd_all_ok c fs : forall st sd,
  FInv st sd ->
  let '(_, outs) := fwd_all c st fs in
  let '(_, _, o) := feed_all (fw_m st) (fw_r st) fs in
  prefix (data_of (snd (parse_from sd outs))) (data_of (delivered_msgs o)).
Proof.
  induction fs as [|f fs IH]; intros st sd HI; cbn [fwd_all feed_all].
  - cbn. apply prefix_nil.
  - pose proof (fwd_step_ok c st sd f HI) as H.
    destruct (fwd_step c st f) as [st1 o1]. destruct (feed (fw_m st) (fw_r st) f) as [[m1 r1] d1].
    destruct (parse_from sd o1) as [sd1 po1] eqn:Ep1. destruct H as (Em & Er & Hd & Hnext).
    destruct Hnext as [HI1|Hstop].
    + specialize (IH st1 sd1 HI1). rewrite Em, Er in IH. destruct (fwd_all c st1 fs) as [st2 o2].
      destruct (feed_all m1 r1 fs) as [[m2 r2] d2]. rewrite parse_from_app, Ep1.
      destruct (parse_from sd1 o2) as [sd2 po2]. cbn [snd] in *.
      rewrite data_of_app, delivered_app, data_of_app, Hd. now apply prefix_app_both.
    + rewrite (fwd_all_stopped c st1 fs Hstop). destruct (feed_all m1 r1 fs) as [[m2 r2] d2].
      rewrite app_nil_r, Ep1. cbn [snd]. rewrite delivered_app, data_of_app, Hd. apply prefix_app_r, prefix_refl.
Qed.

Lemma FInv_init c : FInv (finit c) PNone.
Proof.
  unfold FInv, finit. prj. repeat split; auto; [|discriminate]. exists PNone. apply sim_init.
Qed.

Lemma parse_snoc_fin fs : data_of (parse (fs ++ [FFin])) = data_of (parse fs).
Proof.
  unfold parse. rewrite parse_from_app. destruct (parse_from PNone fs) as [s o].
  pose proof (parse_from_fin s) as H. destruct (parse_from s [FFin]) as [s' o']. cbn [snd] in *. subst o'.
  now rewrite app_nil_r.
Qed.

(** A forwarder never sends a data message it has not completely received, in order, byte for
    byte -- whatever reaches it and however its input ends. *)
Theorem node_prefix c arrived failed :
  prefix (data_of (parse (node_out c arrived failed))) (data_of (parse arrived)).
Proof.
  unfold node_out. pose proof (fwd_all_ok c arrived (finit c) PNone (FInv_init c)) as H.
  pose proof (recv_refines_parse (f_md c) (f_mp c) arrived) as Hp.
  destruct (fwd_all c (finit c) arrived) as [st outs]. unfold finit in H. prj.
  destruct (feed_all CAny (rinit (f_md c) (f_mp c)) arrived) as [[m r] o]. rewrite <- Hp.
  destruct (failed && fw_alive st && negb (finished (fw_r st))); [rewrite parse_snoc_fin|rewrite app_nil_r]; exact H.
Qed.

(** * The fetcher: [recv] returns the first complete data message or no value *)
Lemma handle_any_finished r f r1 x : handle_any r f = (r1, x) -> x <> Some OEnd -> finished r1 = finished r.
Proof.
  unfold handle_any. intros H Hx.
  destruct f as [first last b|first last ps|]; [| |injection H as <- <-; congruence];
    repeat match type of H with
           | context [if ?c then _ else _] => destruct c
           | context [match ?e with _ => _ end] => destruct e
           end; injection H as <- <-; reflexivity.
Qed.

Lemma recv_loop_first : forall q r r' q' b,
  finished r = false -> recv_loop r q = (r', q', OData b) ->
  exists pre o, q = pre ++ q' /\ feed_all CAny r pre = (CAny, r', o) /\ data_of (delivered_msgs o) = [MData b].
Proof.
  induction q as [|f q IH]; intros r r' q' b Hf H; cbn [recv_loop] in H; [discriminate|].
  destruct (handle_any r f) as [r1 x] eqn:Eh.
  assert (Efeed : forall o1, (match x with
                              | Some (OData b0) => o1 = [DData b0]
                              | Some (OReq ps) => o1 = [DPorts ps]
                              | None => o1 = []
                              | _ => False
                              end) -> feed CAny r f = (CAny, r1, o1)).
  { intros o1 Ho. unfold feed, feed_any. rewrite Hf, Eh. destruct x as [[]|]; try contradiction; now subst. }
  destruct x as [o|].
  - destruct o; try discriminate.
    + injection H as <- <- <-. exists [f], [DData b0]. repeat split.
      cbn [feed_all]. rewrite (Efeed [DData b0] eq_refl). reflexivity.
    + assert (Hf1 : finished r1 = false) by (rewrite (handle_any_finished r f r1 _ Eh); [exact Hf|discriminate]).
      destruct (IH r1 r' q' b Hf1 H) as (pre & o & -> & Hfa & Hd).
      exists (f :: pre), ([DPorts ps] ++ o). repeat split.
      * cbn [feed_all]. rewrite (Efeed [DPorts ps] eq_refl), Hfa. reflexivity.
      * rewrite delivered_app, data_of_app, Hd. reflexivity.
  - assert (Hf1 : finished r1 = false) by (rewrite (handle_any_finished r f r1 _ Eh); [exact Hf|discriminate]).
    destruct (IH r1 r' q' b Hf1 H) as (pre & o & -> & Hfa & Hd).
    exists (f :: pre), o. repeat split; auto.
    cbn [feed_all]. rewrite (Efeed [] eq_refl), Hfa. reflexivity.
Qed.

Theorem recv_first md mp q r' q' b :
  recv (rinit md mp) q = (r', q', OData b) -> exists pre, prefix pre q /\ data_of (parse pre) = [MData b].
Proof.
  unfold recv. cbn [rinit finished restarted]. intros H.
  destruct (recv_loop_first q (rinit md mp) r' q' b eq_refl H) as (pre & o & -> & Hfa & Hd).
  exists pre. split; [now exists q'|]. pose proof (recv_refines_parse md mp pre) as Hp.
  rewrite Hfa in Hp. congruence.
Qed.

(** * The pipeline *)
Definition good (bytes : list N) (fs : list frame) : Prop := prefix (data_of (parse fs)) [MData bytes].

Lemma filter_prefix' {A} (p : A -> bool) l1 l2 : prefix l1 l2 -> prefix (filter p l1) (filter p l2).
Proof. intros [r ->]. rewrite filter_app. now exists (filter p r). Qed.

Lemma parse_mono pre fs : prefix pre fs -> prefix (data_of (parse pre)) (data_of (parse fs)).
Proof. intros [r ->]. apply filter_prefix', parse_prefix. Qed.

Lemma good_prefix bytes pre fs : prefix pre fs -> good bytes fs -> good bytes pre.
Proof. intros Hp Hg. eapply prefix_trans; [apply parse_mono; eauto|exact Hg]. Qed.

Lemma deliver_prefix cut fs : prefix (fst (deliver cut fs)) fs.
Proof. destruct cut as [d|]; cbn; [exists (skipn d fs); now rewrite firstn_skipn|apply prefix_refl]. Qed.

Lemma stage_prefix x fs : prefix (data_of (parse (stage x fs))) (data_of (parse fs)).
Proof.
  unfold stage. pose proof (deliver_prefix (fst x) fs) as Hp. destruct (deliver (fst x) fs) as [arr failed]. cbn [fst] in Hp.
  eapply prefix_trans; [apply node_prefix|now apply parse_mono].
Qed.

Lemma relay_prefix hops : forall fs, prefix (data_of (parse (relay hops fs))) (data_of (parse fs)).
Proof.
  induction hops as [|x rest IH]; intros fs; cbn [relay]; [apply prefix_refl|].
  eapply prefix_trans; [apply IH|apply stage_prefix].
Qed.

Lemma provider_parse ck bytes : data_of (parse (send_int ck true true bytes ++ [FFin])) = [MData bytes].
Proof.
  rewrite parse_snoc_fin. unfold parse. rewrite (whole_out ck PNone bytes); [reflexivity|discriminate].
Qed.

Lemma good_provider answers ck bytes : good bytes (provider_frames answers ck bytes).
Proof.
  unfold good, provider_frames. destruct answers; [rewrite provider_parse; apply prefix_refl|apply prefix_nil].
Qed.

(** A completed fetch returns exactly the provided bytes: for every number of forwarders, every
    configuration of each, and every cut position on every connection. *)
Theorem fidelity answers ck0 bytes hops mp lastcut b :
  lazy_fetch answers ck0 bytes hops mp lastcut = FOk b -> b = bytes.
Proof.
  unfold lazy_fetch, fetch. set (fs := relay hops (provider_frames answers ck0 bytes)).
  assert (Hg : good bytes fs).
  { unfold good. eapply prefix_trans; [apply relay_prefix|apply good_provider]. }
  pose proof (deliver_prefix lastcut fs) as Hp. destruct (deliver lastcut fs) as [arr failed]. cbn [fst] in Hp.
  destruct (recv (rinit (len bytes) mp) arr) as [[r' q'] o] eqn:Er.
  destruct o; try discriminate; [|destruct failed; discriminate]. intros [= <-].
  destruct (recv_first _ _ _ _ _ _ Er) as (pre & Hpre & Hd).
  assert (Hgp : good bytes pre) by (eapply good_prefix; [eapply prefix_trans; eauto|exact Hg]).
  unfold good in Hgp. rewrite Hd in Hgp. destruct Hgp as [r E]. cbn [app] in E. congruence.
Qed.

(** * A transfer that is cut short ends in an error *)
Ltac crush_matches :=
  repeat match goal with
         | |- context [if ?c then _ else _] => destruct c
         | |- context [match rcving ?r with _ => _ end] => destruct (rcving r) eqn:?
         | |- context [match restarted ?r with _ => _ end] => destruct (restarted r) as [[? ?]|] eqn:?
         end.

Lemma any_fin c r f :
  finished r = false ->
  let '(m', r', o) := feed_any r f in
  let '(outs, dies) := fwd_any c r f in
  ((dies = true \/ finished r' = true) -> In FFin outs) /\ (f = FFin -> finished r' = true).
Proof.
  intros Hf. unfold feed_any, fwd_any, handle_any, drain, fdrain.
  destruct f as [first last b|first last ps|]; crush_matches; prj; crush_matches; prj;
    (split; [intros [H|H]; try discriminate; try congruence; cbn; auto|intros H; try discriminate; auto]).
Qed.

Lemma stream_fin c r f acc :
  finished r = false -> rcving r = RChunks [] false -> restarted r = None ->
  let '(m', r', o) := feed (CStream acc) r f in
  let '(outs, dies) := fwd_stream c r f in
  ((dies = true \/ finished r' = true) -> In FFin outs) /\ (f = FFin -> finished r' = true).
Proof.
  intros Hf Er Hre. unfold feed, fwd_stream. rewrite Hf. unfold handle_chunk. rewrite Er.
  destruct f as [first last b|first last ps|].
  - destruct first.
    + prj. apply any_fin. prj. exact Hf.
    + unfold drain, fdrain. prj. destruct last; prj; (split; [intros [H|H]; congruence|discriminate]).
  - prj. rewrite Hre, Hf. prj. split; [intros [H|H]; prj; congruence|discriminate].
  - prj. rewrite Hre. prj. split; [intros _; now left|reflexivity].
Qed.

Lemma fwd_step_fin c st sd f :
  FInv st sd ->
  let '(st', outs) := fwd_step c st f in
  ((fw_alive st' = false \/ finished (fw_r st') = true) -> In FFin outs) /\
  (f = FFin -> finished (fw_r st') = true).
Proof.
  intros (Ha & Hf & (su & Hsim) & Hd). unfold fwd_step. rewrite Ha, Hf. cbn [negb orb].
  destruct (sim_facts _ _ _ Hsim Hf) as [Hre Hm].
  destruct (fw_m st) as [|acc] eqn:Em.
  - pose proof (any_fin c (fw_r st) f Hf) as H.
    assert (Efeed : feed CAny (fw_r st) f = feed_any (fw_r st) f) by (unfold feed; now rewrite Hf).
    rewrite Efeed. destruct (feed_any (fw_r st) f) as [[m' r'] o]. destruct (fwd_any c (fw_r st) f) as [outs dies].
    prj. destruct H as [H1 H2]. split; auto. intros [H|H]; apply H1; [left; now destruct dies|now right].
  - pose proof (stream_fin c (fw_r st) f acc Hf Hm Hre) as H.
    destruct (feed (CStream acc) (fw_r st) f) as [[m' r'] o]. destruct (fwd_stream c (fw_r st) f) as [outs dies].
    prj. destruct H as [H1 H2]. split; auto. intros [H|H]; apply H1; [left; now destruct dies|now right].
Qed.

Lemma fwd_all_ends c fs : forall st sd,
  FInv st sd ->
  let '(st', outs) := fwd_all c st fs in
  In FFin outs \/ (fw_alive st' = true /\ finished (fw_r st') = false /\ ~ In FFin fs).
Proof.
  induction fs as [|f fs IH]; intros st sd HI; cbn [fwd_all].
  - right. destruct HI as (Ha & Hf & _). repeat split; auto.
  - pose proof (fwd_step_ok c st sd f HI) as Hok. pose proof (fwd_step_fin c st sd f HI) as Hfin.
    destruct (fwd_step c st f) as [st1 o1]. destruct (feed (fw_m st) (fw_r st) f) as [[m1 r1] d1].
    destruct (parse_from sd o1) as [sd1 po1]. destruct Hok as (_ & _ & _ & Hnext). destruct Hfin as [Hf1 Hf2].
    destruct Hnext as [HI1|Hstop].
    + specialize (IH st1 sd1 HI1). destruct (fwd_all c st1 fs) as [st2 o2].
      destruct IH as [Hin|(Ha & Hf & Hn)]; [left; apply in_or_app; now right|].
      right. repeat split; auto. intros [->|Hin]; [|contradiction].
      destruct HI1 as (_ & Hc & _). rewrite (Hf2 eq_refl) in Hc. discriminate.
    + rewrite (fwd_all_stopped c st1 fs Hstop). left. rewrite app_nil_r. auto.
Qed.

Lemma node_ends c arrived failed : failed = true \/ In FFin arrived -> In FFin (node_out c arrived failed).
Proof.
  intros H. unfold node_out. pose proof (fwd_all_ends c arrived (finit c) PNone (FInv_init c)) as He.
  destruct (fwd_all c (finit c) arrived) as [st outs]. apply in_or_app.
  destruct He as [Hin|(Ha & Hf & Hn)]; [now left|]. right. rewrite Ha, Hf.
  destruct H as [->|Hin]; [now left|contradiction].
Qed.

Lemma stage_ends x fs : In FFin fs -> In FFin (stage x fs).
Proof.
  intros Hin. unfold stage. destruct x as [[d|] c]; cbn [fst snd deliver]; apply node_ends; auto.
Qed.

Lemma relay_ends hops : forall fs, In FFin fs -> In FFin (relay hops fs).
Proof. induction hops as [|x rest IH]; intros fs H; cbn [relay]; auto using stage_ends. Qed.

Lemma provider_ends answers ck bytes : In FFin (provider_frames answers ck bytes).
Proof. unfold provider_frames. destruct answers; [apply in_or_app; right|]; now left. Qed.

Lemma recv_loop_ends : forall q r, In FFin q -> finished r = false -> snd (recv_loop r q) <> OBlock.
Proof.
  induction q as [|f q IH]; intros r Hin Hf; [contradiction|]. cbn [recv_loop].
  destruct (handle_any r f) as [r1 x] eqn:Eh.
  destruct Hin as [->|Hin].
  - cbn [handle_any] in Eh. injection Eh as <- <-. cbn. discriminate.
  - assert (Hx : x <> Some OEnd -> finished r1 = false).
    { intros Hne. rewrite (handle_any_finished r f r1 x Eh Hne). exact Hf. }
    assert (Hnb : x <> Some OBlock).
    { unfold handle_any in Eh. destruct f as [first last b|first last ps|]; [| |injection Eh as <- <-; discriminate];
        repeat match type of Eh with
               | context [if ?c then _ else _] => destruct c
               | context [match ?e with _ => _ end] => destruct e
               end; injection Eh as <- <-; discriminate. }
    destruct x as [o|]; [|apply IH; auto; apply Hx; discriminate].
    destruct o; cbn [snd]; try discriminate; try (apply IH; auto; apply Hx; discriminate). congruence.
Qed.

Lemma prefix_nil_inv {A} (l : list A) : prefix l [] -> l = [].
Proof. intros [r E]. destruct l; [reflexivity|discriminate]. Qed.

(** no complete message reaches the fetcher, but the stream it reads ends: an error *)
Lemma fetch_nodata length_ mp cut fs :
  data_of (parse (fst (deliver cut fs))) = [] -> In FFin fs -> fetch length_ mp cut fs = FErr.
Proof.
  intros Hd Hin. unfold fetch. destruct (deliver cut fs) as [arr failed] eqn:Ed. cbn [fst] in Hd.
  destruct (recv (rinit length_ mp) arr) as [[r' q'] o] eqn:Er.
  destruct o; try reflexivity.
  - exfalso. destruct (recv_first _ _ _ _ _ _ Er) as (pre & Hpre & Hp).
    pose proof (parse_mono pre arr Hpre) as Hm. rewrite Hd, Hp in Hm. apply prefix_nil_inv in Hm. discriminate.
  - destruct failed; [reflexivity|]. exfalso. destruct cut as [d|]; cbn [deliver] in Ed; [congruence|].
    injection Ed as <-. unfold recv in Er. cbn [rinit finished restarted] in Er.
    apply (recv_loop_ends fs (rinit length_ mp) Hin eq_refl). rewrite Er. reflexivity.
Qed.

Lemma relay_app h1 h2 fs : relay (h1 ++ h2) fs = relay h2 (relay h1 fs).
Proof. revert fs. induction h1 as [|x r IH]; intros fs; cbn [relay app]; auto. Qed.

(** If what the connection into the last forwarder-or-fetcher delivers contains no complete message
    -- it was cut before the last frame of the transfer, or the provider never answered -- the fetch
    ends with an error: not with a value, and not pending. *)
Theorem interrupted_last answers ck0 bytes hops mp lastcut :
  data_of (parse (fst (deliver lastcut (relay hops (provider_frames answers ck0 bytes))))) = [] ->
  lazy_fetch answers ck0 bytes hops mp lastcut = FErr.
Proof.
  intros H. unfold lazy_fetch. apply fetch_nodata; [exact H|]. apply relay_ends, provider_ends.
Qed.

Theorem interrupted_inner answers ck0 bytes hops1 x hops2 mp lastcut :
  data_of (parse (fst (deliver (fst x) (relay hops1 (provider_frames answers ck0 bytes))))) = [] ->
  lazy_fetch answers ck0 bytes (hops1 ++ x :: hops2) mp lastcut = FErr.
Proof.
  intros H. unfold lazy_fetch. rewrite relay_app. cbn [relay].
  set (fs := relay hops1 (provider_frames answers ck0 bytes)) in *.
  assert (Hs : data_of (parse (stage x fs)) = []).
  { apply prefix_nil_inv. rewrite <- H. unfold stage. destruct (deliver (fst x) fs) as [arr failed]. apply node_prefix. }
  apply fetch_nodata.
  - apply prefix_nil_inv. eapply prefix_trans; [apply parse_mono, deliver_prefix|]. rewrite <- Hs. apply relay_prefix.
  - apply relay_ends, stage_ends, relay_ends, provider_ends.
Qed.
