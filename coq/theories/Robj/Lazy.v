(** Lazily transferred values and blobs ([remoc/src/robj/lazy.rs], [lazy_blob/mod.rs],
    [lazy_blob/fw_bin.rs]) as a pipeline over chmux port frames.

    The provider answers a fetch request by sending the stored bytes as ONE chmux message
    ([Sender::send]) and dropping the sender (end-of-port frame).  A value that was forwarded over
    [h] connections is fetched through [h - 1] forwarders: each runs [chmux::forward]
    ([remoc/src/chmux/forward.rs]) from the port towards the provider to the port towards the
    fetcher -- [recv_any]; a message that fits [max_data_size] is re-sent whole, a larger one chunk
    by chunk through a [ChunkSender] that is finished only when the incoming message is complete;
    when its input ends or fails the forwarder drops its sender.  The fetcher sets
    [max_data_size] to the advertised length and calls [Receiver::recv] once.
    (For [Lazy<T>] the same happens at item level: every hop receives the whole item and sends it
    again; that is a forwarder whose limit is never exceeded.)

    The receiving side of a forwarder is the transcription of [recv_any]/[recv_chunk] in
    [Chmux/Recv.v] ([handle_any], [handle_chunk], driven as in [feed]); the fetcher's receive is
    [Recv.recv].  Every connection on the path may be cut after any number of frames ([deliver]).

    Abstracted: flow control (chunks are [chunk_size] bytes; credits never split a chunk -- the
    parse-level lemmas hold for ANY chunk boundaries, see [flag_frames_parse]); the request path
    (an undeliverable request is a provider that never answers); port requests are forwarded as one
    frame. *)
From Remoc Require Import Lib.Base Chmux.Parse Chmux.Recv.

(** * Sending: [Sender::send] and [ChunkSender::send_int] *)
Fixpoint chunks (fuel : nat) (ck : N) (data : list N) : list (list N) :=
  match fuel with
  | O => []
  | S fuel' =>
      match data with
      | [] => []
      | _ => let k := N.to_nat (N.min (len data) (N.max 1 ck)) in
             firstn k data :: chunks fuel' ck (skipn k data)
      end
  end.

Fixpoint flag_frames (first fin : bool) (cs : list (list N)) : list frame :=
  match cs with
  | [] => []
  | [c] => [FData first fin c]
  | c :: r => FData first false c :: flag_frames false fin r
  end.

(** [send_int data fin] of a chunk sender whose [first] flag is [first]; [Sender::send] is
    [send_int ck true true] *)
Definition send_int (ck : N) (first fin : bool) (data : list N) : list frame :=
  match data with
  | [] => [FData first fin []]
  | _ => flag_frames first fin (chunks (length data) ck data)
  end.

(** successive [ChunkSender::send] calls *)
Fixpoint stream_frames (ck : N) (first : bool) (q : list (list N)) : list frame :=
  match q with
  | [] => []
  | c :: r => send_int ck first false c ++ stream_frames ck false r
  end.

(** * A forwarder *)
Record fcfg := mk_fcfg {
  f_ck : N;        (** chunk size of its sender (advertised by the next endpoint) *)
  f_md : N;        (** [max_data_size] of its receiver *)
  f_mp : N         (** [max_received_ports] of its receiver *)
}.

Record fstate := mk_fstate {
  fw_alive : bool;      (** [forward] has not returned with an error *)
  fw_m : cmode;         (** [CAny]: in [recv_any]; [CStream acc]: inside the chunk loop, [acc] forwarded so far *)
  fw_r : rstate
}.

Definition finit (c : fcfg) : fstate := mk_fstate true CAny (rinit (f_md c) (f_mp c)).

Definition nilb {A} (l : list A) : bool := match l with [] => true | _ => false end.

(** the ready chunks [recv_chunk] hands out without touching the queue, and [finish] once the
    message is complete *)
Definition fdrain (ck : N) (first : bool) (r : rstate) : list frame :=
  match rcving r with
  | RChunks q true => stream_frames ck first q ++ [FData (first && nilb q) true []]
  | RChunks q false => stream_frames ck first q
  | _ => []
  end.

(** one [recv_any] result: frames sent, and whether [forward] returns with an error *)
Definition fwd_any (c : fcfg) (r : rstate) (f : frame) : list frame * bool :=
  match handle_any r f with
  | (_, Some (OData b)) => (send_int (f_ck c) true true b, false)
  | (r', Some OChunks) => (fdrain (f_ck c) true r', false)
  | (_, Some (OReq ps)) => ([FPorts true true ps], false)
  | (_, Some OEnd) => ([FFin], false)             (* loop ends, sender dropped *)
  | (_, Some OErrPorts) => ([FFin], true)         (* [res?] returns the error, sender dropped *)
  | _ => ([], false)
  end.

(** one [recv_chunk] result inside the chunk loop *)
Definition fwd_stream (c : fcfg) (r : rstate) (f : frame) : list frame * bool :=
  match handle_chunk r f with
  | (r', Some (OChunk b)) => (send_int (f_ck c) false false b ++ fdrain (f_ck c) false r', false)
  | (r', Some OCancelled) =>
      (* chunk sender dropped unfinished; back to [recv_any], which first sees a restarted message *)
      match restarted r' with
      | Some (b, last) => fwd_any c (set_restarted r' None) (FData true last b)
      | None => if finished r' then ([FFin], false) else ([], false)
      end
  | _ => ([], false)
  end.

Definition fwd_step (c : fcfg) (st : fstate) (f : frame) : fstate * list frame :=
  if negb (fw_alive st) || finished (fw_r st) then (st, [])
  else
    let '(m', r', _) := feed (fw_m st) (fw_r st) f in
    let '(outs, dies) := match fw_m st with
                         | CAny => fwd_any c (fw_r st) f
                         | CStream _ => fwd_stream c (fw_r st) f
                         end in
    (mk_fstate (negb dies) m' r', outs).

Fixpoint fwd_all (c : fcfg) (st : fstate) (fs : list frame) : fstate * list frame :=
  match fs with
  | [] => (st, [])
  | f :: r => let '(st1, o1) := fwd_step c st f in let '(st2, o2) := fwd_all c st1 r in (st2, o1 ++ o2)
  end.

(** what a connection delivers: everything, or the first [d] frames and then a failure *)
Definition deliver (cut : option nat) (fs : list frame) : list frame * bool :=
  match cut with None => (fs, false) | Some d => (firstn d fs, true) end.

(** everything a forwarder sends given what reaches it; a failing input makes [forward] return and
    drop its sender *)
Definition node_out (c : fcfg) (arrived : list frame) (failed : bool) : list frame :=
  let '(st, outs) := fwd_all c (finit c) arrived in
  outs ++ (if failed && fw_alive st && negb (finished (fw_r st)) then [FFin] else []).

Definition stage (x : option nat * fcfg) (fs : list frame) : list frame :=
  let '(arr, failed) := deliver (fst x) fs in node_out (snd x) arr failed.

(** the frames that leave the last forwarder; [hops] lists, from the provider's side, the cut of
    the incoming connection and the configuration of each forwarder *)
Fixpoint relay (hops : list (option nat * fcfg)) (fs : list frame) : list frame :=
  match hops with
  | [] => fs
  | x :: rest => relay rest (stage x fs)
  end.

(** the provider task: one message, then its sender is dropped; a dropped provider (or a request
    that never arrives) only drops the sender *)
Definition provider_frames (answers : bool) (ck : N) (bytes : list N) : list frame :=
  if answers then send_int ck true true bytes ++ [FFin] else [FFin].

Inductive fres := FOk (b : list N) | FErr | FPending.

(** the fetcher: [set_max_data_size(len); recv()] on what the last connection delivers *)
Definition fetch (length_ : N) (mp : N) (cut : option nat) (fs : list frame) : fres :=
  let '(arr, failed) := deliver cut fs in
  match recv (rinit length_ mp) arr with
  | (_, _, OData b) => FOk b
  | (_, _, OBlock) => if failed then FErr else FPending
  | _ => FErr
  end.

Definition lazy_fetch (answers : bool) (ck0 : N) (bytes : list N) (hops : list (option nat * fcfg))
    (mp : N) (lastcut : option nat) : fres :=
  fetch (len bytes) mp lastcut (relay hops (provider_frames answers ck0 bytes)).

(** A [LazyBlob] fetched on the endpoint that provided it, without ever having been sent: the request
    ([fw_bin::Sender]) is not serialized, the provider finds no sender in it ([into_inner] is [None])
    and drops it; the fetcher's [fw_rx.into_inner()] yields [None]: [FetchError::Dropped]. *)
Definition local_blob_fetch : fres := FErr.

Definition count_data (fs : list frame) : nat :=
  length (filter (fun f => match f with FData _ _ _ => true | _ => false end) fs).
