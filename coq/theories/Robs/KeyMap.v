(** Finite maps with keys in [N] as association lists kept strictly sorted by key (canonical form:
    two well-formed maps with the same lookups are equal as lists, see [KeyMapProofs.wf_ext_eq]).
    Models the *contents* of a Rust [HashMap<K, V>] / [HashSet<K>] (value type [unit]) with
    [K = u64]; iteration order, capacity and hashing are not modelled. *)
From Remoc Require Import Lib.Base.

Section KeyMap.
  Context {V : Type}.

  Definition kmap := list (N * V).

  (** [HashMap::get] *)
  Fixpoint lookup (k : N) (m : kmap) : option V :=
    match m with
    | [] => None
    | (k', v) :: r => if k' =? k then Some v else lookup k r
    end.

  (** [HashMap::insert] (insert or overwrite), also an in-place write through [&mut V] *)
  Fixpoint ins (k : N) (v : V) (m : kmap) : kmap :=
    match m with
    | [] => [(k, v)]
    | (k', v') :: r =>
        if k <? k' then (k, v) :: m
        else if k =? k' then (k, v) :: r
        else (k', v') :: ins k v r
    end.

  (** [HashMap::remove] *)
  Fixpoint del (k : N) (m : kmap) : kmap :=
    match m with
    | [] => []
    | (k', v') :: r => if k' =? k then r else (k', v') :: del k r
    end.

  Definition keys (m : kmap) : list N := map fst m.

  (** [HashMap::from] of arbitrary (key, value) pairs, later pairs overwrite earlier ones *)
  Definition of_list (l : list (N * V)) : kmap := fold_left (fun m e => ins (fst e) (snd e) m) l [].

  (** canonical form: keys strictly increasing *)
  Definition all_gt (k : N) (m : kmap) : Prop := Forall (fun e => k < fst e) m.
  Fixpoint wf (m : kmap) : Prop :=
    match m with
    | [] => True
    | (k, _) :: r => all_gt k r /\ wf r
    end.
End KeyMap.

Arguments kmap : clear implicits.
