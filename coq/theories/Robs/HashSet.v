(** Model of [remoc::robs::hash_set]: [ObservableHashSet<u64>], its event stream, the subscription
    and the mirror task.  Same structure as [HashMap.v]; a set is a [KeyMap] with [unit] values
    (Rust: [HashSet<T> = HashMap<T, ()>]).  Elements are compared with Leibniz equality, so
    [replace] (which swaps in an [Eq]-equal element) behaves like [insert]. *)
From Coq Require Import String.
From Remoc Require Import Lib.Base Robs.KeyMap.

Definition hset := kmap unit.
Definition elems (s : hset) : list N := keys s.
Definition mem (k : N) (s : hset) : bool := match lookup k s with Some _ => true | None => false end.

(** [HashSetEvent<T>] *)
Inductive event :=
  | ESet (k : N)
  | ERemove (k : N)
  | EClear
  | EShrinkToFit
  | EDone
  | EInitialComplete.

(** The public mutating API of [ObservableHashSet]. *)
Inductive op :=
  | SetErrorHandler
  | Insert (k : N)
  | Replace (k : N)
  | Remove (k : N)
  | Take (k : N)
  | Clear
  | Retain (dflt : bool) (ds : list (N * bool))   (* closure [FnMut(&T) -> bool] as a table by element *)
  | ShrinkToFit
  | MarkDone.

Record obs := { o_hs : hset; o_done : bool }.

Definition decide (dflt : bool) (ds : list (N * bool)) (k : N) : bool :=
  match lookup k ds with Some d => d | None => dflt end.

(** [retain]: [self.hs.retain(|v| if f(v) { true } else { send Remove(v); false })] *)
Fixpoint retain_go (f : N -> bool) (es : hset) : hset * list event :=
  match es with
  | [] => ([], [])
  | (k, u) :: r =>
      let (s', evs) := retain_go f r in
      if f k then ((k, u) :: s', evs) else (s', ERemove k :: evs)
  end.

(** Body of each mutator after [assert_not_done]. *)
Definition mutate (s : hset) (o : op) : hset * list event :=
  match o with
  | SetErrorHandler => (s, [])
  | Insert k | Replace k => (ins k tt s, [ESet k])          (* always [Set], also when present *)
  | Remove k | Take k => match lookup k s with Some _ => (del k s, [ERemove k]) | None => (s, []) end
  | Clear => match s with [] => (s, []) | _ => ([], [EClear]) end
  | Retain dflt ds => retain_go (decide dflt ds) s
  | ShrinkToFit => (s, [EShrinkToFit])
  | MarkDone => (s, [])
  end.

(** One API call; [None] = panic in [assert_not_done] (nothing changed, nothing emitted). *)
Definition apply_op (s : obs) (o : op) : option (obs * list event) :=
  match o with
  | SetErrorHandler => Some (s, [])
  | MarkDone => if o_done s then Some (s, []) else Some ({| o_hs := o_hs s; o_done := true |}, [EDone])
  | _ => if o_done s then None
         else let (m', evs) := mutate (o_hs s) o in Some ({| o_hs := m'; o_done := false |}, evs)
  end.

Definition step (s : obs) (o : op) : obs * list event :=
  match apply_op s o with Some r => r | None => (s, []) end.

Fixpoint run_trace (s : obs) (ops : list op) : list (list event) * obs :=
  match ops with
  | [] => ([], s)
  | o :: r => let (s1, e) := step s o in let (tr, s2) := run_trace s1 r in (e :: tr, s2)
  end.
Definition run_ops (s : obs) (ops : list op) : obs * list event :=
  let (tr, s') := run_trace s ops in (s', concat tr).

Definition obs_of (init : list N) : obs :=
  {| o_hs := of_list (map (fun k => (k, tt)) init); o_done := false |}.

(** ** Subscription (see [HashMap.v]) *)
Inductive mode := Snapshot | Incremental.

Definition initial_set (md : mode) (s : obs) : hset :=
  match md with Snapshot => o_hs s | Incremental => [] end.

Definition sub_stream (md : mode) (s : obs) (bevs : list event) : list event :=
  match md with
  | Snapshot => []
  | Incremental => map (fun e => ESet (fst e)) (o_hs s) ++ [EInitialComplete]
  end ++ (if o_done s then [EDone] else bevs).

(** ** Mirror *)
Inductive rerr := MaxSizeExceeded (n : N).
Record mirror := { m_hs : hset; m_complete : bool; m_done : bool; m_max : N }.

(** [MirroredHashSetInner::handle_event] *)
Definition handle_event (mi : mirror) (e : event) : mirror * option rerr :=
  match e with
  | EInitialComplete => ({| m_hs := m_hs mi; m_complete := true; m_done := m_done mi; m_max := m_max mi |}, None)
  | ESet k =>
      let hs' := ins k tt (m_hs mi) in
      ({| m_hs := hs'; m_complete := m_complete mi; m_done := m_done mi; m_max := m_max mi |},
       if m_max mi <? len hs' then Some (MaxSizeExceeded (m_max mi)) else None)
  | ERemove k => ({| m_hs := del k (m_hs mi); m_complete := m_complete mi; m_done := m_done mi; m_max := m_max mi |}, None)
  | EClear => ({| m_hs := []; m_complete := m_complete mi; m_done := m_done mi; m_max := m_max mi |}, None)
  | EShrinkToFit => (mi, None)
  | EDone => ({| m_hs := m_hs mi; m_complete := m_complete mi; m_done := true; m_max := m_max mi |}, None)
  end.

Definition mirror_init (md : mode) (s : obs) (max : N) : mirror :=
  {| m_hs := initial_set md s;
     m_complete := match md with Snapshot => true | Incremental => false end;
     m_done := match md with Snapshot => o_done s | Incremental => false end;
     m_max := max |}.

(** [loop { event = recv(); handle_event(event)?; if inner.done { break } }] *)
Fixpoint mirror_task (mi : mirror) (evs : list event) : mirror * option rerr :=
  match evs with
  | [] => (mi, None)
  | e :: r =>
      let (mi', res) := handle_event mi e in
      match res with
      | Some err => (mi', Some err)
      | None => if m_done mi' then (mi', None) else mirror_task mi' r
      end
  end.

(** ** Consuming the subscription by hand *)
Definition apply_event (s : hset) (e : event) : hset :=
  match e with
  | ESet k => ins k tt s
  | ERemove k => del k s
  | EClear => []
  | EShrinkToFit | EDone | EInitialComplete => s
  end.
Definition replay (s : hset) (evs : list event) : hset := fold_left apply_event evs s.

Definition is_done_ev (e : event) : bool := match e with EDone => true | _ => false end.
Definition is_complete_ev (e : event) : bool := match e with EInitialComplete => true | _ => false end.

(** the former F11 class (repaired by commit 290b96a in /repo): incremental subscription of a
    non-empty set made after [done()]; kept to state that it is now mirrored correctly *)
Definition late_incremental (md : mode) (s : obs) : bool :=
  match md with
  | Incremental => o_done s && negb (match o_hs s with [] => true | _ => false end)
  | Snapshot => false
  end.

Fixpoint fits (max : N) (s : obs) (ops : list op) : bool :=
  (len (o_hs s) <=? max) &&
  match ops with [] => true | o :: r => fits max (fst (step s o)) r end.

(** ** Names *)
Open Scope string_scope.
Definition op_name (o : op) : string :=
  match o with
  | SetErrorHandler => "set_error_handler" | Insert _ => "insert" | Replace _ => "replace" | Remove _ => "remove"
  | Take _ => "take" | Clear => "clear" | Retain _ _ => "retain" | ShrinkToFit => "shrink_to_fit" | MarkDone => "done"
  end.
Definition all_ops : list op :=
  [SetErrorHandler; Insert 0; Replace 0; Remove 0; Take 0; Clear; Retain true []; ShrinkToFit; MarkDone].
Definition consuming_ops : list string := ["into_inner!"].
Definition event_name (e : event) : string :=
  match e with
  | ESet _ => "Set" | ERemove _ => "Remove" | EClear => "Clear" | EShrinkToFit => "ShrinkToFit"
  | EDone => "Done" | EInitialComplete => "InitialComplete"
  end.
Definition all_events : list event := [ESet 0; ERemove 0; EClear; EShrinkToFit; EDone; EInitialComplete].
Close Scope string_scope.

(** ** The property (C13) for one input (see [HashMap.v]) *)
Definition state_at (init : list N) (ops : list op) (k : nat) : obs :=
  fst (run_ops (obs_of init) (firstn k ops)).
Definition final_state (init : list N) (ops : list op) : obs := fst (run_ops (obs_of init) ops).
Definition stream_at (init : list N) (ops : list op) (k : nat) (md : mode) : list event :=
  let sk := state_at init ops k in sub_stream md sk (snd (run_ops sk (skipn k ops))).

Definition mirror_ok (init : list N) (ops : list op) (k : nat) (md : mode) (max : N) : Prop :=
  let sk := state_at init ops k in
  let sn := final_state init ops in
  let r := mirror_task (mirror_init md sk max) (stream_at init ops k md) in
  snd r = None /\
  (forall x, mem x (m_hs (fst r)) = mem x (o_hs sn)) /\
  m_hs (fst r) = o_hs sn /\
  m_done (fst r) = o_done sn /\
  m_complete (fst r) = true.

Definition hand_ok (init : list N) (ops : list op) (k : nat) (md : mode) : Prop :=
  let sk := state_at init ops k in
  let sn := final_state init ops in
  let st := stream_at init ops k md in
  let hs := replay (initial_set md sk) st in
  (forall x, mem x hs = mem x (o_hs sn)) /\
  hs = o_hs sn /\
  existsb is_done_ev st = o_done sn /\
  match md with Snapshot => True | Incremental => existsb is_complete_ev st = true end.

Definition late_incremental_at (init : list N) (ops : list op) (k : nat) (md : mode) : bool :=
  late_incremental md (state_at init ops k).
Definition fits_from (max : N) (init : list N) (ops : list op) (k : nat) : bool :=
  fits max (state_at init ops k) (skipn k ops).
