(** Model of [remoc::robs::vec]: [ObservableVec] mutators with the events they send, the subscription
    stream ([VecSubscription::recv]), [MirroredVecInner::handle_event] and the mirror task of
    [VecSubscription::mirror].  Transcribes /repo/remoc/src/robs/vec.rs; element type [N]. *)
From Remoc Require Import Lib.Base Robs.SeqCommon.

(** ** The observed vector: contents and the [done] flag *)
Record coll : Type := { items : list N; cdone : bool }.

(** The full mutating API (inherent [&mut self] methods listed in [Gen.Api.vec_ObservableVec_mutators],
    minus [set_error_handler]; plus the [Extend] trait impl).
    [GetMut i w]: [get_mut(i)]; [w = Some v]: the returned [RefMut] is dereferenced mutably and [v]
    is assigned, [None]: it is only read (or [get_mut] returned [None]).
    [IterMut rev ws]: [iter_mut()] (reversed when [rev]), the j-th visited [RefMut] is assigned [ws[j]].
    [Retain ks]: [retain(f)] where the j-th call of [f] returns [ks[j]] (missing = [true]). *)
Inductive op : Type :=
| Push (v : N)
| Pop
| GetMut (i : N) (w : option N)
| IterMut (rev : bool) (ws : list (option N))
| Insert (i v : N)
| Remove (i : N)
| SwapRemove (i : N)
| Fill (v : N)
| Resize (n v : N)
| Truncate (n : N)
| Clear
| Retain (ks : list bool)
| ShrinkToFit
| MarkDone
| Extend (vs : list N).

(** [VecEvent<T>]; the [HashSet<usize>] of [Retain]/[RetainNot] is a list of distinct indices. *)
Inductive event : Type :=
| EPush (v : N)
| EPop
| EInsert (i v : N)
| ESet (i v : N)
| ERemove (i : N)
| ESwapRemove (i : N)
| EFill (v : N)
| EResize (n v : N)
| ETruncate (n : N)
| ERetain (s : list N)
| ERetainNot (s : list N)
| EClear
| EShrinkToFit
| EDone
| EInitialComplete.

Definition upd (c : coll) (l : list N) : coll := {| items := l; cdone := cdone c |}.

Definition set_events (ws : list (nat * N)) : list event :=
  map (fun w => ESet (N.of_nat (fst w)) (snd w)) ws.

(** One mutator call: new state and the events passed to [send_event], in order.
    [Panic]: the method panics before changing anything ([assert_not_done], [Vec::insert],
    [Vec::remove], [Vec::swap_remove] index checks). *)
Definition apply_op (c : coll) (o : op) : outcome (coll * list event) :=
  let l := items c in
  match o with
  | MarkDone =>
      (* done(): if !self.done { send Done; self.done = true }  -- never panics *)
      if cdone c then Ok (c, []) else Ok ({| items := l; cdone := true |}, [EDone])
  | Extend [] => Ok (c, [])   (* the loop over the iterator never calls push: no assert_not_done, no event *)
  | _ =>
    if cdone c then Panic (* assert_not_done *) else
    match o with
    | Push v => Ok (upd c (l ++ [v]), [EPush v])
    | Pop =>
        match l with
        | [] => Ok (c, [])                       (* None => None: no event *)
        | _ => Ok (upd c (removelast l), [EPop])
        end
    | GetMut i w =>
        if i <? len l then
          match w with
          | Some v => Ok (upd c (set_at (N.to_nat i) v l), [ESet i v])   (* RefMut::drop, changed *)
          | None => Ok (c, [])                                            (* RefMut::drop, !changed *)
          end
        else Ok (c, [])                                                   (* get_mut returns None *)
    | IterMut rev ws =>
        let writes := iter_writes rev (length l) ws in
        Ok (upd c (apply_writes l writes), set_events writes)
    | Insert i v =>
        if i <=? len l then Ok (upd c (insert_at (N.to_nat i) v l), [EInsert i v]) else Panic
    | Remove i =>
        if i <? len l then Ok (upd c (remove_at (N.to_nat i) l), [ERemove i]) else Panic
    | SwapRemove i =>
        if i <? len l then Ok (upd c (swap_remove_back_at (N.to_nat i) l), [ESwapRemove i]) else Panic
    | Fill v => Ok (upd c (fill_with v l), [EFill v])                     (* also on an empty vector *)
    | Resize n v =>
        if n =? len l then Ok (c, []) else Ok (upd c (resize_to (N.to_nat n) v l), [EResize n v])
    | Truncate n =>
        if n <? len l then Ok (upd c (firstn (N.to_nat n) l), [ETruncate n]) else Ok (c, [])
    | Clear =>
        match l with
        | [] => Ok (c, [])
        | _ => Ok (upd c [], [EClear])
        end
    | Retain ks =>
        let keep := kept_idx ks l 0 in
        let remove := dropped_idx ks l 0 in
        match remove with
        | [] => Ok (upd c (retain_by ks l), [])
        | _ => Ok (upd c (retain_by ks l),
                   [if len keep <? len remove then ERetain keep else ERetainNot remove])
        end
    | ShrinkToFit => Ok (c, [EShrinkToFit])                               (* always *)
    | Extend vs => Ok (upd c (l ++ vs), map EPush vs)                     (* push per item *)
    | MarkDone => Ok (c, [])  (* not reached *)
    end
  end.

(** A sequence of calls; the events of all calls concatenated. *)
Fixpoint run_ops (c : coll) (ops : list op) : outcome (coll * list event) :=
  match ops with
  | [] => Ok (c, [])
  | o :: r =>
      match apply_op c o with
      | Panic => Panic
      | Ok (c1, e1) =>
          match run_ops c1 r with
          | Panic => Panic
          | Ok (c2, e2) => Ok (c2, e1 ++ e2)
          end
      end
  end.

(** ** The mirror *)
Record mirror : Type := { mv : list N; mcomplete : bool; mdone : bool; mmax : N }.

(** Result of [handle_event]: [HErr m e] keeps the state the Rust code leaves behind when it returns
    [Err] (the element of an over-size [Push] has already been appended). *)
Inductive hres : Type :=
| HOk (m : mirror)
| HErr (m : mirror) (e : rerr).

Definition mset (m : mirror) (l : list N) : mirror :=
  {| mv := l; mcomplete := mcomplete m; mdone := mdone m; mmax := mmax m |}.

(** [MirroredVecInner::handle_event].  Only [Push] checks [max_size]; [Insert]/[Resize] do not. *)
Definition handle_event (m : mirror) (e : event) : hres :=
  let l := mv m in
  match e with
  | EInitialComplete => HOk {| mv := l; mcomplete := true; mdone := mdone m; mmax := mmax m |}
  | EPush v =>
      let l' := l ++ [v] in
      if mmax m <? len l' then HErr (mset m l') (MaxSizeExceeded (mmax m)) else HOk (mset m l')
  | EPop => HOk (mset m (removelast l))
  | EInsert i v => if len l <? i then HErr m (InvalidIndex i) else HOk (mset m (insert_at (N.to_nat i) v l))
  | ESet i v => if len l <=? i then HErr m (InvalidIndex i) else HOk (mset m (set_at (N.to_nat i) v l))
  | ERemove i => if len l <=? i then HErr m (InvalidIndex i) else HOk (mset m (remove_at (N.to_nat i) l))
  | ESwapRemove i =>
      if len l <=? i then HErr m (InvalidIndex i) else HOk (mset m (swap_remove_back_at (N.to_nat i) l))
  | EFill v => HOk (mset m (fill_with v l))
  | EResize n v => HOk (mset m (resize_to (N.to_nat n) v l))
  | ETruncate n => HOk (mset m (firstn (N.to_nat n) l))
  | ERetain s => HOk (mset m (retain_set false s 0 l))
  | ERetainNot s => HOk (mset m (retain_set true s 0 l))
  | EClear => HOk (mset m [])
  | EShrinkToFit => HOk m
  | EDone => HOk {| mv := l; mcomplete := mcomplete m; mdone := true; mmax := mmax m |}
  end.

(** Event loop.  [brk = true] is the task spawned by [VecSubscription::mirror]: after each handled
    event it leaves the loop when [inner.done] is set; an error ends it.  [brk = false] is a consumer
    that applies every event of the stream by hand. *)
Fixpoint task_gen (brk : bool) (m : mirror) (evs : list event) : hres :=
  match evs with
  | [] => HOk m
  | e :: r =>
      match handle_event m e with
      | HOk m' => if brk && mdone m' then HOk m' else task_gen brk m' r
      | HErr m' err => HErr m' err
      end
  end.
Definition mirror_task := task_gen true.
Definition fold_events := task_gen false.

(** ** Subscriptions
    [subscribe]/[subscribe_incremental] on a collection in state [c]; [later] = events sent after the
    subscription.  The event receiver is [None] when [done] was called before ([if self.done { None }]),
    then [recv] yields a synthesized [Done].  Incremental: [recv] first yields [Push] for every element
    of the copy taken at subscription time, then [InitialComplete]. *)
Definition sub_stream (md : smode) (c : coll) (later : list event) : list event :=
  (match md with
   | Snapshot => []
   | Incremental => map EPush (items c) ++ [EInitialComplete]
   end) ++ (if cdone c then [EDone] else later).

(** initial [MirroredVecInner] built by [mirror(max_size)]:
    [v: take_initial().unwrap_or_default(), complete: is_complete(), done: is_done() && is_complete()]
    (fields evaluated in this order, so [is_complete()] is already [true] for a snapshot subscription)
    where [is_done() = events.is_none() || done]: a snapshot mirror of a finished collection is done at
    once, an incremental one only when the synthesized [Done] event arrives after the initial values. *)
Definition sub_mirror (md : smode) (c : coll) (mx : N) : mirror :=
  match md with
  | Snapshot => {| mv := items c; mcomplete := true; mdone := cdone c; mmax := mx |}
  | Incremental => {| mv := []; mcomplete := false; mdone := cdone c && false; mmax := mx |}
  end.

(** a consumer by hand starts from [take_initial()] (snapshot) or from nothing (incremental) *)
Definition hand_start (md : smode) (c : coll) (mx : N) : mirror :=
  match md with
  | Snapshot => {| mv := items c; mcomplete := true; mdone := false; mmax := mx |}
  | Incremental => {| mv := []; mcomplete := false; mdone := false; mmax := mx |}
  end.

(** the state a faithful mirror must reach *)
Definition mirror_of (c : coll) (cp : bool) (mx : N) : mirror :=
  {| mv := items c; mcomplete := cp; mdone := cdone c; mmax := mx |}.

(** [max_size] is never exceeded along the run (that case belongs to C14) *)
Fixpoint run_bounded (mx : N) (c : coll) (ops : list op) : Prop :=
  len (items c) <= mx /\
  match ops with
  | [] => True
  | o :: r => match apply_op c o with Ok (c1, _) => run_bounded mx c1 r | Panic => True end
  end.

(** ** Names, for the tie to the generated API / variant lists *)
Module Names.
  Import Coq.Strings.String.
  Local Open Scope string_scope.
  Definition op_name (o : op) : string :=
    match o with
    | Push _ => "push" | Pop => "pop" | GetMut _ _ => "get_mut" | IterMut _ _ => "iter_mut"
    | Insert _ _ => "insert" | Remove _ => "remove" | SwapRemove _ => "swap_remove" | Fill _ => "fill"
    | Resize _ _ => "resize" | Truncate _ => "truncate" | Clear => "clear" | Retain _ => "retain"
    | ShrinkToFit => "shrink_to_fit" | MarkDone => "done" | Extend _ => "extend(trait)"
    end.
  Definition event_name (e : event) : string :=
    match e with
    | EPush _ => "Push" | EPop => "Pop" | EInsert _ _ => "Insert" | ESet _ _ => "Set" | ERemove _ => "Remove"
    | ESwapRemove _ => "SwapRemove" | EFill _ => "Fill" | EResize _ _ => "Resize" | ETruncate _ => "Truncate"
    | ERetain _ => "Retain" | ERetainNot _ => "RetainNot" | EClear => "Clear" | EShrinkToFit => "ShrinkToFit"
    | EDone => "Done" | EInitialComplete => "InitialComplete"
    end.
  (** methods that take [&mut self]/[self] but do not change contents or events *)
  Definition non_mutating : list string := ["set_error_handler"; "into_inner!"].
  Definition minus (l ex : list string) : list string :=
    filter (fun s => negb (existsb (String.eqb s) ex)) l.
End Names.

(** one representative per constructor, in source order of the methods / variants *)
Definition modelled_ops : list op :=
  [Push 0; Pop; GetMut 0 None; IterMut false []; Insert 0 0; Remove 0; SwapRemove 0; Fill 0; Resize 0 0;
   Truncate 0; Clear; Retain []; ShrinkToFit; MarkDone].
Definition trait_ops : list op := [Extend []].
Definition modelled_events : list event :=
  [EPush 0; EPop; EInsert 0 0; ESet 0 0; ERemove 0; ESwapRemove 0; EFill 0; EResize 0 0; ETruncate 0;
   ERetain []; ERetainNot []; EClear; EShrinkToFit; EDone; EInitialComplete].
