(** C14 -- one observable collection, its broadcast channel and any number of subscribers (mirror
    tasks and consumers by hand, local or across a connection) as a small-step system.

    Generic in the collection kind: the section is parametrised by the interface the C13 models
    provide ([apply_op], [handle_event], initial value of a subscription, the [Done] event) and is
    instantiated for vector, deque, hash map and hash set in [MirrorInst.v].

    Transcribed structure (robs/{vec,vec_deque,hash_map,hash_set}.rs, identical in all four)
    ---------------------------------------------------------------------------------------
    * every mutator passes its events one by one to [send_event] = [broadcast::Sender::send] (never
      blocks; [Rch/Broadcast.v] is the model of that channel and is used here unchanged: a subscriber
      whose buffer is full is parked, misses what is sent meanwhile and later finds one [Lagged]
      marker at the gap).  Between two events of one call ([iter_mut], [retain], entry API) other
      tasks may run on a multi-threaded runtime: the events of a call are emitted by separate
      [AEmit] actions.
    * [subscribe(buffer)]/[subscribe_incremental(buffer)] copy the contents and, unless [done] was
      called, add a broadcast receiver ([events = Some rx]).
    * [Subscription::recv]: first the initial-value events (incremental: one per element over an mpsc
      channel fed by a spawned task, then a locally synthesized [InitialComplete]); then
      [rx.recv().await?]: a value [Done] closes the receiver and is handed on as [Done]; [Lagged]
      and [Closed] (all senders gone, queue drained) and a failed connection are returned as errors;
      with [events = None] one synthesized [Done], then [None].
    * [mirror(max_size)]: task [loop { ev = recv(); match ev { Ok(Some e) => { handle_event(e)?
      (error stored, return); if inner.done break }, Ok(None) => break, Err(e) => { inner.error =
      Some(e); return } } }]; nothing else ever writes [inner.error] or [inner.v], [borrow] returns
      the stored error, [detach] the contents.
    * dropping the collection (or [into_inner]) drops the broadcast sender: what is queued stays
      readable, a parked subscriber still gets its marker from the re-admission task, then [Closed].
    * a remote subscriber: a forwarding task empties the queue into the connection ([AForward]); when
      the connection is cut ([AFault]) what had already arrived can still be read, then the receive
      error is returned.

    All nondeterminism is in the [action] list. *)
From Remoc Require Import Lib.Base Rch.Broadcast.

(** classes of [robs::RecvError] *)
Inductive cls := CLagged | CClosed | CMaxSize | CInvalid | CRemote.

Fixpoint upd_nth {A} (l : list A) (i : nat) (f : A -> option A) : option (list A) :=
  match l, i with
  | [], _ => None
  | x :: r, O => match f x with Some y => Some (y :: r) | None => None end
  | x :: r, S j => match upd_nth r j f with Some r' => Some (x :: r') | None => None end
  end.

(** the interface a collection model provides (C13) *)
Record iface := mk_iface {
  iC : Type;                                   (* observed collection incl. its done flag *)
  iOp : Type;                                  (* mutating API calls *)
  iE : Type;                                   (* change events *)
  iM : Type;                                   (* inner state of a mirror: contents, complete, done, max_size *)
  iR : Type;                                   (* errors of [handle_event] *)
  i_apply : iC -> iOp -> option (iC * list iE);  (* [None]: the call panics, nothing changes *)
  i_cdone : iC -> bool;
  i_handle : iM -> iE -> iM * option iR;       (* state left behind, error returned *)
  i_cls : iR -> cls;
  i_mdone : iM -> bool;
  i_edone : iE;
  i_isdone : iE -> bool;
  i_submirror : bool -> iC -> N -> iM;         (* incremental?, collection, max_size *)
  i_initev : bool -> iC -> list iE;            (* initial-value events of a subscription *)
}.

Section Mirror.
  Variable I : iface.
  Local Notation C := (iC I).
  Local Notation Op := (iOp I).
  Local Notation E := (iE I).
  Local Notation M := (iM I).
  Local Notation apply := (i_apply I).
  Local Notation c_done := (i_cdone I).
  Local Notation handle := (i_handle I).
  Local Notation r_cls := (i_cls I).
  Local Notation m_done := (i_mdone I).
  Local Notation e_done := (i_edone I).
  Local Notation is_done_ev := (i_isdone I).
  Local Notation sub_mirror := (i_submirror I).
  Local Notation initial_events := (i_initev I).

  (** what one call of [recv] returned ([Ok(None)] is not recorded) *)
  Inductive rres := REv (e : E) | RErr (c : cls).

  Record rsub := mk_rsub {
    r_mirror : bool;             (* mirror task (applies [handle_event]) or consumer by hand *)
    r_remote : bool;             (* the subscription was sent over a connection *)
    r_bidx : option nat;         (* its broadcast receiver; [None]: subscribed after [done] *)
    r_start : nat;               (* ghost: number of events sent before the subscription *)
    r_m0 : M;                    (* ghost: initial inner state of the mirror *)
    r_einit : list E;            (* ghost: initial-value events of the subscription *)
    r_init : list E;             (* initial-value events not yet returned *)
    r_events : bool;             (* [self.events.is_some()] *)
    r_sdone : bool;              (* [self.done]: the final [Done] has been returned *)
    r_taken : nat;               (* values of the broadcast receiver returned so far *)
    r_fault : option (nat * nat);(* connection cut: initial items / channel items that had arrived *)
    r_log : list rres;           (* ghost: results of [recv] in order *)
    r_m : M;                     (* [inner] (contents, complete, done) *)
    r_err : option cls;          (* [inner.error]; for a consumer by hand: the error it was given *)
    r_stopped : bool;            (* task returned / consumer stopped calling [recv] / dropped *)
  }.

  Record mstate := mk_mstate {
    bc : Broadcast.state;
    coll : option C;             (* [None]: dropped *)
    to_emit : list E;            (* events of the running call not yet passed to [send_event] *)
    hist : list E;               (* ghost: every event sent so far *)
    rsubs : list rsub;
  }.

  Inductive action :=
  | AOp (o : Op)
  | AEmit
  | ADropColl
  | ASubscribe (mirror remote incr : bool) (cap mx : N)
  | ARecv (i : nat)
  | AForward (i : nat)
  | AFault (i ni nw : nat)
  | AReadmit1 (j : N)
  | AReadmit2 (j : N)
  | ARelease (j : N)
  | ADropSub (i : nat).

  Definition init_state (c : C) : mstate :=
    mk_mstate Broadcast.init (Some c) [] [] [].

  (** the subscription part / the consumer part of a subscriber are updated separately *)
  Definition set_sub (r : rsub) (ini : list E) (ev sd : bool) (tk : nat) (f : option (nat * nat)) : rsub :=
    mk_rsub (r_mirror r) (r_remote r) (r_bidx r) (r_start r) (r_m0 r) (r_einit r) ini ev sd tk f
            (r_log r) (r_m r) (r_err r) (r_stopped r).
  Definition set_cons (r : rsub) (lg : list rres) (m : M) (e : option cls) (st : bool) : rsub :=
    mk_rsub (r_mirror r) (r_remote r) (r_bidx r) (r_start r) (r_m0 r) (r_einit r) (r_init r) (r_events r)
            (r_sdone r) (r_taken r) (r_fault r) lg m e st.

  (** the consumer is handed the result [x] of its [recv] call *)
  Definition deliver (r : rsub) (x : rres) : rsub :=
    match x with
    | REv e =>
        if r_mirror r then
          let (m', oe) := handle (r_m r) e in
          match oe with
          | Some err => set_cons r (r_log r ++ [x]) m' (Some (r_cls err)) true
          | None => set_cons r (r_log r ++ [x]) m' None (m_done m')
          end
        else set_cons r (r_log r ++ [x]) (r_m r) None false
    | RErr c => set_cons r (r_log r ++ [x]) (r_m r) (Some c) true
    end.

  Definition parked (b : sub) : bool := match status_of b with Parked _ => true | _ => false end.
  Definition is_nil {A} (l : list A) : bool := match l with [] => true | _ => false end.

  (** an item of the broadcast receiver is handed to [recv] *)
  Definition take_item (h : list E) (r : rsub) (f : option (nat * nat)) (x : item) : option rsub :=
    match x with
    | Value i =>
        match nth_error h (N.to_nat i) with
        | Some e =>
            let d := is_done_ev e in
            Some (deliver (set_sub r (r_init r) (negb d) d (S (r_taken r)) f) (REv (if d then e_done else e)))
        | None => None
        end
    | Lagged => Some (deliver (set_sub r (r_init r) (r_events r) (r_sdone r) (r_taken r) f) (RErr CLagged))
    end.

  (** one call of [recv] that does not stay pending: first what it finds ... *)
  Inductive rout :=
  | OInit (e : E) (rest : list E) (f : option (nat * nat))   (* next initial-value event *)
  | OErr (c : cls)                                            (* [Closed] or a receive error *)
  | OTake (b1 : Broadcast.state) (f : option (nat * nat)) (x : item)   (* an item of the broadcast receiver *)
  | OSynthDone.                                               (* [events = None]: the final [Done] *)

  Definition recv_out (b0 : Broadcast.state) (dropped : bool) (r : rsub) : option rout :=
    match r_init r with
    | e :: rest =>
        match rest, r_fault r with
        | _ :: _, Some (O, nw) => Some (OErr CRemote)           (* channel of the initial value failed *)
        | _ :: _, Some (S ni, nw) => Some (OInit e rest (Some (ni, nw)))
        | _, _ => Some (OInit e rest (r_fault r))               (* [InitialComplete] is made locally *)
        end
    | [] =>
        if r_events r then
          match r_bidx r with
          | None => None
          | Some j =>
              match nth_error (subs b0) j with
              | None => None
              | Some b =>
                  let closed := dropped && negb (parked b) && is_nil (queue b) in
                  if r_remote r then
                    match r_fault r with
                    | Some (ni, O) => Some (OErr CRemote)
                    | Some (ni, S nw) =>
                        match nth_error (consumed b) (r_taken r) with
                        | Some x => Some (OTake b0 (Some (ni, nw)) x)
                        | None => Some (OErr CRemote)
                        end
                    | None =>
                        match nth_error (consumed b) (r_taken r) with
                        | Some x => Some (OTake b0 None x)
                        | None => if closed then Some (OErr CClosed) else None
                        end
                    end
                  else
                    match queue b with
                    | x :: _ =>
                        match upd_state b0 (N.of_nat j) sub_consume with
                        | Some b1 => Some (OTake b1 (r_fault r) x)
                        | None => None
                        end
                    | [] => if closed then Some (OErr CClosed) else None
                    end
              end
          end
        else if r_sdone r then None
        else Some OSynthDone
    end.

  (** ... then what it returns and how the subscription and the consumer change *)
  Definition apply_out (h : list E) (b0 : Broadcast.state) (r : rsub) (o : rout) : option (Broadcast.state * rsub) :=
    match o with
    | OInit e rest f => Some (b0, deliver (set_sub r rest (r_events r) (r_sdone r) (r_taken r) f) (REv e))
    | OErr c => Some (b0, deliver r (RErr c))
    | OTake b1 f x => match take_item h r f x with Some r' => Some (b1, r') | None => None end
    | OSynthDone => Some (b0, deliver (set_sub r [] false true (r_taken r) (r_fault r)) (REv e_done))
    end.

  Definition recv_sub (b0 : Broadcast.state) (h : list E) (dropped : bool) (r : rsub)
    : option (Broadcast.state * rsub) :=
    if r_stopped r then None else
    match recv_out b0 dropped r with
    | Some o => apply_out h b0 r o
    | None => None
    end.

  Definition new_rsub (mi rm incr : bool) (c : C) (mx : N) (bidx : option nat) (start : nat) : rsub :=
    let m0 := sub_mirror incr c mx in
    let ei := initial_events incr c in
    mk_rsub mi rm bidx start m0 ei ei (match bidx with Some _ => true | None => false end) false 0 None [] m0 None false.

  Definition step (s : mstate) (a : action) : option mstate :=
    match a with
    | AOp o =>
        match coll s, to_emit s with
        | Some c, [] =>
            match apply c o with
            | Some (c', evs) => Some (mk_mstate (bc s) (Some c') evs (hist s) (rsubs s))
            | None => None
            end
        | _, _ => None
        end
    | AEmit =>
        match coll s, to_emit s with
        | Some c, e :: rest => Some (mk_mstate (send_state (bc s)) (Some c) rest (hist s ++ [e]) (rsubs s))
        | _, _ => None
        end
    | ADropColl =>
        match coll s, to_emit s with
        | Some _, [] => Some (mk_mstate (bc s) None [] (hist s) (rsubs s))
        | _, _ => None
        end
    | ASubscribe mi rm incr cap mx =>
        match coll s, to_emit s with
        | Some c, [] =>
            if c_done c then
              Some (mk_mstate (bc s) (Some c) [] (hist s)
                              (rsubs s ++ [new_rsub mi rm incr c mx None (length (hist s))]))
            else
              match Broadcast.step (bc s) (Subscribe cap) with
              | Some b1 =>
                  Some (mk_mstate b1 (Some c) [] (hist s)
                                  (rsubs s ++ [new_rsub mi rm incr c mx (Some (length (subs (bc s)))) (length (hist s))]))
              | None => None
              end
        | _, _ => None
        end
    | ARecv i =>
        match nth_error (rsubs s) i with
        | Some r =>
            match recv_sub (bc s) (hist s) (match coll s with None => true | Some _ => false end) r with
            | Some (b1, r') =>
                match upd_nth (rsubs s) i (fun _ => Some r') with
                | Some l => Some (mk_mstate b1 (coll s) (to_emit s) (hist s) l)
                | None => None
                end
            | None => None
            end
        | None => None
        end
    | AForward i =>
        match nth_error (rsubs s) i with
        | Some r =>
            match r_remote r, r_fault r, r_bidx r with
            | true, None, Some j =>
                match upd_state (bc s) (N.of_nat j) sub_consume with
                | Some b1 => Some (mk_mstate b1 (coll s) (to_emit s) (hist s) (rsubs s))
                | None => None
                end
            | _, _, _ => None
            end
        | None => None
        end
    | AFault i ni nw =>
        match upd_nth (rsubs s) i
                (fun r => if r_remote r && negb (r_stopped r) && match r_fault r with None => true | Some _ => false end
                          then Some (set_sub r (r_init r) (r_events r) (r_sdone r) (r_taken r) (Some (ni, nw)))
                          else None) with
        | Some l => Some (mk_mstate (bc s) (coll s) (to_emit s) (hist s) l)
        | None => None
        end
    | AReadmit1 j =>
        match Broadcast.step (bc s) (Readmit1 j) with
        | Some b1 => Some (mk_mstate b1 (coll s) (to_emit s) (hist s) (rsubs s)) | None => None end
    | AReadmit2 j =>
        match Broadcast.step (bc s) (Readmit2 j) with
        | Some b1 => Some (mk_mstate b1 (coll s) (to_emit s) (hist s) (rsubs s)) | None => None end
    | ARelease j =>
        match Broadcast.step (bc s) (Release j) with
        | Some b1 => Some (mk_mstate b1 (coll s) (to_emit s) (hist s) (rsubs s)) | None => None end
    | ADropSub i =>
        match nth_error (rsubs s) i with
        | Some r =>
            if r_stopped r then None else
            match upd_nth (rsubs s) i (fun r => Some (set_cons r (r_log r) (r_m r) (r_err r) true)) with
            | Some l =>
                match r_bidx r with
                | Some j =>
                    match upd_state (bc s) (N.of_nat j) sub_drop with
                    | Some b1 => Some (mk_mstate b1 (coll s) (to_emit s) (hist s) l)
                    | None => None
                    end
                | None => Some (mk_mstate (bc s) (coll s) (to_emit s) (hist s) l)
                end
            | None => None
            end
        | None => None
        end
    end.

  Fixpoint run (acts : list action) (s : mstate) : option mstate :=
    match acts with
    | [] => Some s
    | a :: r => match step s a with Some s' => run r s' | None => None end
    end.

  (** ** What the property talks about *)
  Definition evs_of (l : list rres) : list E :=
    flat_map (fun x => match x with REv e => [e] | RErr _ => [] end) l.

  (** the events a subscription is entitled to, given the history so far: its initial value, then
      everything sent since it was made (or the single [Done] when it was made after [done]) *)
  Definition expected (h : list E) (r : rsub) : list E :=
    r_einit r ++ match r_bidx r with None => [e_done] | Some _ => skipn (r_start r) h end.

  (** applying events with [handle_event]; [None] as soon as one does not apply *)
  Fixpoint hfold (m : M) (l : list E) : option M :=
    match l with
    | [] => Some m
    | e :: r => match handle m e with (m', None) => hfold m' r | (_, Some _) => None end
    end.

  (** the inner state a consumer has after the events [l]: a mirror has applied them, a consumer
      by hand has no inner state *)
  Definition applied (r : rsub) (l : list E) (m : M) : Prop :=
    if r_mirror r then hfold (r_m0 r) l = Some m else m = r_m0 r.
End Mirror.

Arguments REv {I} e.
Arguments RErr {I} c.
Arguments r_mirror {I} r. Arguments r_remote {I} r. Arguments r_bidx {I} r. Arguments r_start {I} r.
Arguments r_m0 {I} r. Arguments r_einit {I} r. Arguments r_init {I} r. Arguments r_events {I} r.
Arguments r_sdone {I} r. Arguments r_taken {I} r. Arguments r_fault {I} r. Arguments r_log {I} r.
Arguments r_m {I} r. Arguments r_err {I} r. Arguments r_stopped {I} r.
Arguments bc {I} m. Arguments coll {I} m. Arguments to_emit {I} m. Arguments hist {I} m. Arguments rsubs {I} m.
