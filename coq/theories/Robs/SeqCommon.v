(** Shared definitions of the sequence-like observable collections (vector, deque, append-only list):
    outcome of a mutator, the list functions that stand for the [std] operations which BOTH the observed
    collection and its mirror call (so that one Gallina function transcribes e.g. [Vec::swap_remove] on
    either side), the index sets carried by [Retain]/[RetainNot], and the receive errors a mirror reports. *)
From Remoc Require Import Lib.Base.

(** A Rust mutator either returns or panics (index out of range, mutation after [done]). *)
Inductive outcome (A : Type) : Type :=
| Ok (a : A)
| Panic.
Arguments Ok {A} a.
Arguments Panic {A}.

(** [RecvError] classes a mirror can produce from events alone. *)
Inductive rerr : Type :=
| MaxSizeExceeded (max : N)
| InvalidIndex (i : N).

Inductive smode : Type := Snapshot | Incremental.

(** ** std operations on sequences (indices are [nat] here; callers convert with [N.to_nat]) *)
Definition insert_at {A} (i : nat) (v : A) (l : list A) : list A := firstn i l ++ v :: skipn i l.
Definition remove_at {A} (i : nat) (l : list A) : list A := firstn i l ++ skipn (S i) l.
Definition set_at {A} (i : nat) (v : A) (l : list A) : list A := firstn i l ++ v :: skipn (S i) l.

(** [Vec::swap_remove], [VecDeque::swap_remove_back]: the last element takes the place of element [i]. *)
Definition swap_remove_back_at (i : nat) (l : list N) : list N :=
  let l' := removelast l in
  if Nat.eqb i (length l') then l' else set_at i (last l 0) l'.

(** [VecDeque::swap_remove_front]: the first element takes the place of element [i]. *)
Definition swap_remove_front_at (i : nat) (l : list N) : list N :=
  match l with
  | [] => []
  | h :: t => match i with O => t | S i' => set_at i' h t end
  end.

(** [resize]: truncate, or extend at the back with copies of [v]. *)
Definition resize_to {A} (n : nat) (v : A) (l : list A) : list A :=
  if Nat.leb n (length l) then firstn n l else l ++ repeat v (n - length l).

Definition fill_with {A} (v : A) (l : list A) : list A := repeat v (length l).

(** [retain] with the closure's decisions given as a list (missing decisions = keep). *)
Fixpoint retain_by {A} (ks : list bool) (l : list A) : list A :=
  match l with
  | [] => []
  | x :: r =>
      match ks with
      | [] => x :: r
      | k :: ks' => if k then x :: retain_by ks' r else retain_by ks' r
      end
  end.

(** positions (counted from [pos]) the closure kept / rejected, in visiting order *)
Fixpoint kept_idx {A} (ks : list bool) (l : list A) (pos : N) : list N :=
  match l with
  | [] => []
  | _ :: r =>
      match ks with
      | [] => pos :: kept_idx [] r (pos + 1)
      | k :: ks' => if k then pos :: kept_idx ks' r (pos + 1) else kept_idx ks' r (pos + 1)
      end
  end.
Fixpoint dropped_idx {A} (ks : list bool) (l : list A) (pos : N) : list N :=
  match l with
  | [] => []
  | _ :: r =>
      match ks with
      | [] => []
      | k :: ks' => if k then dropped_idx ks' r (pos + 1) else pos :: dropped_idx ks' r (pos + 1)
      end
  end.

Definition mem (x : N) (s : list N) : bool := existsb (N.eqb x) s.

(** the mirror's [retain(|_| { let keep = [!]set.contains(&pos); pos += 1; keep })] *)
Fixpoint retain_set {A} (neg : bool) (s : list N) (pos : N) (l : list A) : list A :=
  match l with
  | [] => []
  | x :: r =>
      if xorb neg (mem pos s) then x :: retain_set neg s (pos + 1) r else retain_set neg s (pos + 1) r
  end.

(** iterator writes: the [j]-th visited element receives [ws[j]] when that is [Some v] (the [RefMut] is
    dereferenced mutably and assigned [v]); forward iteration visits 0,1,2,…, reverse iteration
    ([DoubleEndedIterator::next_back]) visits n-1,n-2,….  Result: (index, value) in visiting order. *)
Fixpoint fwd_writes (j n : nat) (ws : list (option N)) : list (nat * N) :=
  match n, ws with
  | S n', w :: r => (match w with Some v => [(j, v)] | None => [] end) ++ fwd_writes (S j) n' r
  | _, _ => []
  end.
Definition iter_writes (rev : bool) (n : nat) (ws : list (option N)) : list (nat * N) :=
  if rev then map (fun w => ((n - 1 - fst w)%nat, snd w)) (fwd_writes 0 n ws) else fwd_writes 0 n ws.
Definition apply_writes (l : list N) (ws : list (nat * N)) : list N :=
  fold_left (fun acc w => set_at (fst w) (snd w) acc) ws l.

(** ** decoding helpers for the executable interfaces *)
Definition bn (n : N) : bool := negb (n =? 0).
Definition nb (b : bool) : N := if b then 1 else 0.

(** take [n] numbers *)
Definition take (n : N) (l : list N) : option (list N * list N) :=
  if Nat.leb (N.to_nat n) (length l) then Some (firstn (N.to_nat n) l, skipn (N.to_nat n) l) else None.

(** [n] pairs (has, v) -> list (option N) *)
Fixpoint pairs_opt (l : list N) : list (option N) :=
  match l with
  | h :: v :: r => (if bn h then Some v else None) :: pairs_opt r
  | _ => []
  end.
