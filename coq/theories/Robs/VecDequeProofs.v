(** Proofs for the [ObservableVecDeque] model: the mirror (and a consumer by hand) fed with the
    subscription stream reaches exactly the observed contents and flags. *)
From Remoc Require Import Lib.Base Robs.SeqCommon Robs.SeqCommonProofs Robs.VecDeque.

Ltac prj := unfold upd, mset, mirror_of in *; cbn [items cdone mv mcomplete mdone mmax] in *.

(** ** event loop over simple streams *)
Lemma task_pushes brk vs acc cp mx tl :
  len (acc ++ vs) <= mx ->
  task_gen brk {| mv := acc; mcomplete := cp; mdone := false; mmax := mx |} (map EPushBack vs ++ tl) =
  task_gen brk {| mv := acc ++ vs; mcomplete := cp; mdone := false; mmax := mx |} tl.
Proof.
  revert acc. induction vs as [|v vs IH]; intros acc H.
  - now rewrite app_nil_r.
  - cbn [map app task_gen handle_event]. prj.
    assert (Hle : len (acc ++ [v]) <= mx) by (rewrite !len_app, ?len_cons, ?len_nil in *; lia).
    destruct (N.ltb_spec mx (len (acc ++ [v]))) as [Hlt|_]; [lia|].
    prj. rewrite andb_false_r.
    rewrite IH by (now rewrite <- app_assoc).
    now rewrite <- app_assoc.
Qed.

Lemma task_writes brk ws l cp mx tl :
  Forall (fun w => (fst w < length l)%nat) ws ->
  task_gen brk {| mv := l; mcomplete := cp; mdone := false; mmax := mx |} (set_events ws ++ tl) =
  task_gen brk {| mv := apply_writes l ws; mcomplete := cp; mdone := false; mmax := mx |} tl.
Proof.
  revert l. induction ws as [|w ws IH]; intros l H; [reflexivity|].
  inversion H as [|? ? Hw Hr]; subst.
  unfold set_events in *. cbn [map app task_gen handle_event]. prj.
  destruct (N.leb_spec (len l) (N.of_nat (fst w))) as [Hle|_]; [unfold len in Hle; lia|].
  prj. rewrite andb_false_r. rewrite Nat2N.id.
  rewrite IH by (rewrite set_at_length by assumption; exact Hr).
  reflexivity.
Qed.

(** ** one mutator call *)
Lemma apply_done_state c o c1 e1 :
  cdone c = true -> apply_op c o = Ok (c1, e1) -> c1 = c /\ e1 = [].
Proof.
  intros Hd H. unfold apply_op in H. rewrite Hd in H.
  destruct o; try discriminate; try (now inversion H).
  destruct vs; [now inversion H|discriminate].
Qed.

Lemma step brk c o c1 e1 cp mx tl :
  apply_op c o = Ok (c1, e1) ->
  brk = false \/ cdone c = false ->
  len (items c1) <= mx ->
  task_gen brk (mirror_of c cp mx) (e1 ++ tl) =
  if brk && cdone c1 then HOk (mirror_of c1 cp mx) else task_gen brk (mirror_of c1 cp mx) tl.
Proof.
  intros H Hb Hmx.
  destruct (cdone c) eqn:Hd.
  { destruct Hb as [->|Hb]; [|discriminate].
    destruct (apply_done_state _ _ _ _ Hd H) as [-> ->]. reflexivity. }
  clear Hb. destruct c as [l d]. prj. subst d.
  unfold apply_op in H. prj.
  destruct o.
  - (* push_back *)
    inversion H; subst; clear H. prj.
    cbn [app task_gen handle_event]. prj.
    destruct (N.ltb_spec mx (len (l ++ [v]))) as [Hlt|_]; [lia|].
    prj. now rewrite !andb_false_r.
  - (* push_front *)
    inversion H; subst; clear H. prj.
    cbn [app task_gen handle_event]. prj.
    destruct (N.ltb_spec mx (len (v :: l))) as [Hlt|_]; [lia|].
    prj. now rewrite !andb_false_r.
  - (* pop_back *)
    destruct l as [|x l'].
    + inversion H; subst. prj. now rewrite andb_false_r.
    + inversion H; subst; clear H. prj. cbn [app task_gen handle_event]. prj. now rewrite !andb_false_r.
  - (* pop_front *)
    destruct l as [|x l'].
    + inversion H; subst. prj. now rewrite andb_false_r.
    + inversion H; subst; clear H. prj. cbn [app task_gen handle_event List.tl]. prj. now rewrite !andb_false_r.
  - (* get_mut *)
    destruct (N.ltb_spec i (len l)) as [Hi|Hi].
    + destruct w as [v|].
      * inversion H; subst; clear H. prj. cbn [app task_gen handle_event]. prj.
        destruct (N.leb_spec (len l) i) as [Hle|_]; [lia|]. prj. now rewrite !andb_false_r.
      * inversion H; subst. prj. now rewrite andb_false_r.
    + inversion H; subst. prj. now rewrite andb_false_r.
  - (* iter_mut *)
    inversion H; subst; clear H. prj. rewrite andb_false_r.
    apply task_writes. apply iter_writes_range.
  - (* insert *)
    destruct (N.leb_spec i (len l)) as [Hi|Hi]; [|discriminate].
    inversion H; subst; clear H. prj. cbn [app task_gen handle_event]. prj.
    destruct (N.ltb_spec (len l) i) as [Hlt|_]; [lia|]. prj. now rewrite !andb_false_r.
  - (* remove *)
    destruct (N.ltb_spec i (len l)) as [Hi|Hi].
    + inversion H; subst; clear H. prj. cbn [app task_gen handle_event]. prj.
      destruct (N.leb_spec (len l) i) as [Hle|_]; [lia|]. prj. now rewrite !andb_false_r.
    + inversion H; subst. prj. now rewrite andb_false_r.
  - (* swap_remove_back *)
    destruct (N.ltb_spec i (len l)) as [Hi|Hi].
    + inversion H; subst; clear H. prj. cbn [app task_gen handle_event]. prj.
      destruct (N.leb_spec (len l) i) as [Hle|_]; [lia|]. prj. now rewrite !andb_false_r.
    + inversion H; subst. prj. now rewrite andb_false_r.
  - (* swap_remove_front *)
    destruct (N.ltb_spec i (len l)) as [Hi|Hi].
    + inversion H; subst; clear H. prj. cbn [app task_gen handle_event]. prj.
      destruct (N.leb_spec (len l) i) as [Hle|_]; [lia|]. prj. now rewrite !andb_false_r.
    + inversion H; subst. prj. now rewrite andb_false_r.
  - (* resize *)
    destruct (N.eqb_spec n (len l)) as [Hn|Hn].
    + inversion H; subst. prj. now rewrite andb_false_r.
    + inversion H; subst; clear H. prj. cbn [app task_gen handle_event]. prj. now rewrite !andb_false_r.
  - (* truncate *)
    destruct (N.ltb_spec n (len l)) as [Hn|Hn].
    + inversion H; subst; clear H. prj. cbn [app task_gen handle_event]. prj. now rewrite !andb_false_r.
    + inversion H; subst. prj. now rewrite andb_false_r.
  - (* clear *)
    destruct l as [|x l'].
    + inversion H; subst. prj. now rewrite andb_false_r.
    + inversion H; subst; clear H. prj. cbn [app task_gen handle_event]. prj. now rewrite !andb_false_r.
  - (* retain *)
    destruct (dropped_idx ks l 0) as [|r0 rs] eqn:Hr.
    + inversion H; subst; clear H. prj. rewrite andb_false_r.
      rewrite (retain_by_nil_dropped _ _ _ Hr). reflexivity.
    + inversion H; subst; clear H. prj. rewrite <- Hr.
      destruct (len (kept_idx ks l 0) <? len (dropped_idx ks l 0));
        cbn [app task_gen handle_event]; prj; rewrite !andb_false_r.
      * now rewrite retain_set_kept.
      * now rewrite retain_set_dropped.
  - (* shrink_to_fit *)
    inversion H; subst; clear H. prj. cbn [app task_gen handle_event]. prj. now rewrite !andb_false_r.
  - (* done *)
    inversion H; subst; clear H. prj. cbn [app task_gen handle_event]. prj.
    rewrite !andb_true_r. destruct brk; reflexivity.
  - (* extend *)
    destruct vs as [|v0 vs].
    + inversion H; subst. prj. now rewrite andb_false_r.
    + inversion H; subst; clear H. prj. rewrite andb_false_r.
      exact (task_pushes brk (v0 :: vs) l cp mx tl Hmx).
Qed.

(** ** runs *)
Lemma run_done_state c ops c1 e1 :
  cdone c = true -> run_ops c ops = Ok (c1, e1) -> c1 = c /\ e1 = [].
Proof.
  revert c c1 e1. induction ops as [|o r IH]; intros c c1 e1 Hd H; cbn [run_ops] in H.
  - now inversion H.
  - destruct (apply_op c o) as [[c2 e2]|] eqn:Ha; [|discriminate].
    destruct (apply_done_state _ _ _ _ Hd Ha) as [-> ->].
    destruct (run_ops c r) as [[c3 e3]|] eqn:Hr; [|discriminate].
    destruct (IH _ _ _ Hd Hr) as [-> ->]. now inversion H.
Qed.

Lemma run_task brk ops : forall c c1 e1 cp mx tl,
  run_ops c ops = Ok (c1, e1) ->
  brk = false \/ cdone c = false ->
  run_bounded mx c ops ->
  task_gen brk (mirror_of c cp mx) (e1 ++ tl) =
  if brk && cdone c1 then HOk (mirror_of c1 cp mx) else task_gen brk (mirror_of c1 cp mx) tl.
Proof.
  induction ops as [|o r IH]; intros c c1 e1 cp mx tl H Hb Hbd; cbn [run_ops] in H.
  - inversion H; subst. cbn [app].
    destruct Hb as [->|Hd]; [reflexivity|]. rewrite Hd, andb_false_r. reflexivity.
  - destruct (apply_op c o) as [[c2 e2]|] eqn:Ha; [|discriminate].
    destruct (run_ops c2 r) as [[c3 e3]|] eqn:Hr; [|discriminate].
    inversion H; subst; clear H.
    cbn [run_bounded] in Hbd. rewrite Ha in Hbd. destruct Hbd as [_ Hbd].
    assert (Hc2 : len (items c2) <= mx) by (destruct r; cbn [run_bounded] in Hbd; tauto).
    rewrite <- app_assoc. rewrite (step _ _ _ _ _ cp mx _ Ha Hb Hc2).
    destruct brk.
    + destruct (cdone c2) eqn:Hd2; cbn [andb].
      * destruct (run_done_state _ _ _ _ Hd2 Hr) as [-> ->]. now rewrite Hd2.
      * apply (IH _ _ _ cp mx tl Hr); [now right|exact Hbd].
    + cbn [andb]. apply (IH _ _ _ cp mx tl Hr); [now left|exact Hbd].
Qed.

Lemma run_bounded_head mx c ops : run_bounded mx c ops -> len (items c) <= mx.
Proof. destruct ops; cbn [run_bounded]; tauto. Qed.

Lemma run_bounded_final mx ops : forall c c1 e1,
  run_ops c ops = Ok (c1, e1) -> run_bounded mx c ops -> len (items c1) <= mx.
Proof.
  induction ops as [|o r IH]; intros c c1 e1 H Hb; cbn [run_ops] in H.
  - inversion H; subst. now apply run_bounded_head in Hb.
  - destruct (apply_op c o) as [[c2 e2]|] eqn:Ha; [|discriminate].
    destruct (run_ops c2 r) as [[c3 e3]|] eqn:Hr; [|discriminate].
    inversion H; subst. cbn [run_bounded] in Hb. rewrite Ha in Hb. eapply IH; [exact Hr|tauto].
Qed.

(** splitting a run at a subscription point *)
Lemma run_ops_app a : forall b c c2 e,
  run_ops c (a ++ b) = Ok (c2, e) ->
  exists c1 e1 e2, run_ops c a = Ok (c1, e1) /\ run_ops c1 b = Ok (c2, e2) /\ e = e1 ++ e2.
Proof.
  induction a as [|o a IH]; intros b c c2 e H.
  - exists c, [], e. cbn [app run_ops] in *. auto.
  - cbn [app run_ops] in *.
    destruct (apply_op c o) as [[c3 e3]|] eqn:Ha; [|discriminate].
    destruct (run_ops c3 (a ++ b)) as [[c4 e4]|] eqn:Hr; [|discriminate].
    inversion H; subst; clear H.
    destruct (IH _ _ _ _ Hr) as (c1 & e1 & e2 & H1 & H2 & ->).
    exists c1, (e3 ++ e1), e2. rewrite H1. now rewrite app_assoc.
Qed.

Lemma run_split init_c ops k cf e :
  run_ops init_c ops = Ok (cf, e) ->
  exists ck e1 e2, run_ops init_c (firstn k ops) = Ok (ck, e1) /\
                   run_ops ck (skipn k ops) = Ok (cf, e2) /\ e = e1 ++ e2.
Proof. intros H. rewrite <- (firstn_skipn k ops) in H. now apply run_ops_app. Qed.

(** ** the mirror task on a subscription *)
Lemma mirror_correct md ck ops mx cf e2 :
  run_ops ck ops = Ok (cf, e2) ->
  run_bounded mx ck ops ->
  mirror_task (sub_mirror md ck mx) (sub_stream md ck e2) = HOk (mirror_of cf true mx).
Proof.
  intros Hr Hb. unfold mirror_task, sub_stream, sub_mirror. rewrite andb_false_r.
  destruct (cdone ck) eqn:Hd.
  - (* subscribed after done *)
    destruct (run_done_state _ _ _ _ Hd Hr) as [-> ->].
    destruct md.
    + cbn [app task_gen handle_event]. prj. unfold mirror_of. now rewrite Hd.
    + rewrite <- app_assoc.
      rewrite (task_pushes true (items ck) [] false mx) by (cbn [app]; now apply run_bounded_head in Hb).
      cbn [app task_gen handle_event]. prj. cbn [andb]. unfold mirror_of. now rewrite Hd.
  - destruct md.
    + cbn [app].
      pose proof (run_task true ops ck cf e2 true mx [] Hr (or_intror Hd) Hb) as HT.
      rewrite app_nil_r in HT. unfold mirror_of in HT at 1. rewrite Hd in HT. rewrite HT.
      cbn [task_gen]. now destruct (true && cdone cf).
    + rewrite <- app_assoc.
      rewrite (task_pushes true (items ck) [] false mx) by (cbn [app]; now apply run_bounded_head in Hb).
      cbn [app task_gen handle_event]. prj. cbn [andb].
      pose proof (run_task true ops ck cf e2 true mx [] Hr (or_intror Hd) Hb) as HT.
      rewrite app_nil_r in HT. unfold mirror_of in HT at 1. rewrite Hd in HT. rewrite HT.
      cbn [task_gen]. now destruct (true && cdone cf).
Qed.

(** consuming the stream by hand, from [take_initial()] resp. nothing: same contents, every case *)
Lemma hand_correct md ck ops mx cf e2 :
  run_ops ck ops = Ok (cf, e2) ->
  run_bounded mx ck ops ->
  fold_events (hand_start md ck mx) (sub_stream md ck e2) = HOk (mirror_of cf true mx).
Proof.
  intros Hr Hb. unfold fold_events, sub_stream, hand_start.
  destruct (cdone ck) eqn:Hd.
  - destruct (run_done_state _ _ _ _ Hd Hr) as [-> ->].
    destruct md.
    + cbn [app task_gen handle_event]. prj. unfold mirror_of. now rewrite Hd.
    + rewrite <- app_assoc.
      rewrite (task_pushes false (items ck) [] false mx) by (cbn [app]; now apply run_bounded_head in Hb).
      cbn [app task_gen handle_event]. prj. cbn [andb]. unfold mirror_of. now rewrite Hd.
  - destruct md.
    + cbn [app].
      pose proof (run_task false ops ck cf e2 true mx [] Hr (or_introl eq_refl) Hb) as HT.
      rewrite app_nil_r in HT. unfold mirror_of in HT at 1. rewrite Hd in HT. rewrite HT.
      reflexivity.
    + rewrite <- app_assoc.
      rewrite (task_pushes false (items ck) [] false mx) by (cbn [app]; now apply run_bounded_head in Hb).
      cbn [app task_gen handle_event]. prj. cbn [andb].
      pose proof (run_task false ops ck cf e2 true mx [] Hr (or_introl eq_refl) Hb) as HT.
      rewrite app_nil_r in HT. unfold mirror_of in HT at 1. rewrite Hd in HT. rewrite HT.
      reflexivity.
Qed.

(** full statement over an op list and a split point *)
Definition start (init : list N) : coll := {| items := init; cdone := false |}.

Lemma mirror_equals_collection init ops k cf e :
  run_ops (start init) ops = Ok (cf, e) ->
  exists ck e1 e2,
    run_ops (start init) (firstn k ops) = Ok (ck, e1) /\
    run_ops ck (skipn k ops) = Ok (cf, e2) /\ e = e1 ++ e2 /\
    forall md mx,
      run_bounded mx ck (skipn k ops) ->
      mirror_task (sub_mirror md ck mx) (sub_stream md ck e2) = HOk (mirror_of cf true mx) /\
      fold_events (hand_start md ck mx) (sub_stream md ck e2) = HOk (mirror_of cf true mx).
Proof.
  intros H. destruct (run_split _ _ k _ _ H) as (ck & e1 & e2 & H1 & H2 & He).
  exists ck, e1, e2. repeat split; try assumption.
  - now apply (mirror_correct md ck (skipn k ops)).
  - now apply (hand_correct md ck (skipn k ops)).
Qed.

(** the done flag is set iff [done] was called *)
Lemma apply_done_iff c o c1 e1 :
  apply_op c o = Ok (c1, e1) -> cdone c1 = true <-> (cdone c = true \/ o = MarkDone).
Proof.
  intros H. unfold apply_op in H. destruct (cdone c) eqn:Hd.
  - destruct o; try discriminate; [inversion H; subst; tauto|].
    destruct vs; [|discriminate]. inversion H; subst. split; [tauto|]. intros [?|?]; [assumption|discriminate].
  - destruct c as [l d]. prj. subst d.
    destruct o; prj;
      repeat match type of H with
             | context [match ?x with _ => _ end] => destruct x eqn:?
             end;
      inversion H; subst; prj; split; intros; try tauto; try discriminate;
      match goal with Hx : _ \/ _ |- _ => destruct Hx; discriminate end.
Qed.

Lemma done_iff ops : forall c cf e,
  run_ops c ops = Ok (cf, e) -> cdone cf = true <-> (cdone c = true \/ In MarkDone ops).
Proof.
  induction ops as [|o r IH]; intros c cf e H; cbn [run_ops] in H.
  - inversion H; subst. cbn [In]. tauto.
  - destruct (apply_op c o) as [[c2 e2]|] eqn:Ha; [|discriminate].
    destruct (run_ops c2 r) as [[c3 e3]|] eqn:Hr; [|discriminate].
    inversion H; subst; clear H.
    rewrite (IH _ _ _ Hr). rewrite (apply_done_iff _ _ _ _ Ha). cbn [In].
    intuition congruence.
Qed.

Lemma done_iff_called init ops cf e :
  run_ops (start init) ops = Ok (cf, e) -> (cdone cf = true <-> In MarkDone ops).
Proof.
  intros H. rewrite (done_iff ops _ _ _ H). cbn. intuition discriminate.
Qed.

(** ** tie to the generated facts *)
From Remoc Require Gen.Api Gen.Variants.
Import VecDeque.Names.

Lemma api_covered :
  map op_name modelled_ops = minus Gen.Api.vec_deque_ObservableVecDeque_mutators non_mutating /\
  Gen.Api.vec_deque_RefMut_mutators = [] /\ Gen.Api.vec_deque_IterMut_mutators = [].
Proof. repeat split; reflexivity. Qed.

Lemma ops_all_listed o : In (op_name o) (map op_name (modelled_ops ++ trait_ops)).
Proof. destruct o; vm_compute; tauto. Qed.

Lemma events_covered : map event_name modelled_events = Gen.Variants.VecDequeEvent_variants.
Proof. reflexivity. Qed.

Lemma events_all_listed e : In (event_name e) (map event_name modelled_events).
Proof. destruct e; vm_compute; tauto. Qed.
