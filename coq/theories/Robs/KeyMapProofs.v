(** Lemmas about [KeyMap]: lookups, canonical form, sizes. *)
From Remoc Require Import Lib.Base Robs.KeyMap.

Section KeyMapProofs.
  Context {V : Type}.
  Implicit Types (m p r : kmap V) (k : N) (v : V).

  Lemma all_gt_nil k : all_gt k (@nil (N * V)).
  Proof. constructor. Qed.

  Lemma all_gt_cons k k' v m : all_gt k ((k', v) :: m) <-> k < k' /\ all_gt k m.
  Proof.
    unfold all_gt. split.
    - intros H. inversion H; subst. auto.
    - intros [H1 H2]. constructor; auto.
  Qed.

  Lemma all_gt_weaken k k' m : k' <= k -> all_gt k m -> all_gt k' m.
  Proof.
    unfold all_gt. intros Hle H. induction H as [|e l He Hl IH]; constructor; auto. lia.
  Qed.

  Lemma all_gt_app k m1 m2 : all_gt k (m1 ++ m2) <-> all_gt k m1 /\ all_gt k m2.
  Proof. unfold all_gt. apply Forall_app. Qed.

  Lemma wf_cons k v m : wf ((k, v) :: m) <-> all_gt k m /\ wf m.
  Proof. reflexivity. Qed.

  (** ** lookup *)
  Lemma lookup_all_gt k k' m : all_gt k' m -> k <= k' -> lookup k m = None.
  Proof.
    induction m as [|[k0 v0] m IH]; intros Hgt Hle; cbn [lookup]; [reflexivity|].
    apply all_gt_cons in Hgt. destruct Hgt as [Hlt Hgt].
    destruct (k0 =? k) eqn:E; [lia|]. auto.
  Qed.

  Lemma lookup_ins_same k v m : lookup k (ins k v m) = Some v.
  Proof.
    induction m as [|[k0 v0] m IH]; cbn [ins lookup].
    - rewrite N.eqb_refl. reflexivity.
    - destruct (k <? k0) eqn:E1; cbn [lookup].
      + rewrite N.eqb_refl. reflexivity.
      + destruct (k =? k0) eqn:E2; cbn [lookup].
        * rewrite N.eqb_refl. reflexivity.
        * destruct (k0 =? k) eqn:E3; [lia|]. exact IH.
  Qed.

  Lemma lookup_ins_other k k' v m : k' <> k -> lookup k' (ins k v m) = lookup k' m.
  Proof.
    intros Hne. induction m as [|[k0 v0] m IH]; cbn [ins lookup].
    - destruct (k =? k') eqn:E; [lia|]. reflexivity.
    - destruct (k <? k0) eqn:E1; cbn [lookup].
      + destruct (k =? k') eqn:E; [lia|]. reflexivity.
      + destruct (k =? k0) eqn:E2; cbn [lookup].
        * destruct (k =? k') eqn:E3; [lia|]. destruct (k0 =? k') eqn:E4; [lia|]. reflexivity.
        * destruct (k0 =? k') eqn:E4; [reflexivity|]. exact IH.
  Qed.

  (** ** ins *)
  Lemma all_gt_ins k0 k v m : k0 < k -> all_gt k0 m -> all_gt k0 (ins k v m).
  Proof.
    intros Hlt. induction m as [|[k1 v1] m IH]; intros Hgt; cbn [ins].
    - apply all_gt_cons. split; [exact Hlt|apply all_gt_nil].
    - apply all_gt_cons in Hgt. destruct Hgt as [H1 H2].
      destruct (k <? k1) eqn:E1.
      + apply all_gt_cons. split; [exact Hlt|]. apply all_gt_cons. auto.
      + destruct (k =? k1) eqn:E2.
        * apply all_gt_cons. auto.
        * apply all_gt_cons. auto.
  Qed.

  Lemma wf_ins k v m : wf m -> wf (ins k v m).
  Proof.
    induction m as [|[k1 v1] m IH]; intros Hwf; cbn [ins].
    - cbn [wf]. split; [apply all_gt_nil|exact I].
    - destruct Hwf as [Hgt Hwf].
      destruct (k <? k1) eqn:E1.
      + apply wf_cons. split.
        * apply all_gt_cons. split; [lia|]. eapply all_gt_weaken; [|exact Hgt]. lia.
        * apply wf_cons. auto.
      + destruct (k =? k1) eqn:E2.
        * apply wf_cons. split; [|exact Hwf]. eapply all_gt_weaken; [|exact Hgt]. lia.
        * apply wf_cons. split; [|auto]. apply all_gt_ins; [lia|exact Hgt].
  Qed.

  Lemma length_ins_present k v m :
    wf m -> lookup k m <> None -> length (ins k v m) = length m.
  Proof.
    induction m as [|[k1 v1] m IH]; intros Hwf Hl; cbn [ins lookup] in *.
    - congruence.
    - destruct Hwf as [Hgt Hwf].
      destruct (k <? k1) eqn:E1.
      + exfalso. destruct (k1 =? k) eqn:E; [lia|]. apply Hl. apply lookup_all_gt with (k' := k1); [exact Hgt|lia].
      + destruct (k =? k1) eqn:E2; cbn [length]; [reflexivity|].
        destruct (k1 =? k) eqn:E3; [lia|]. f_equal. auto.
  Qed.

  Lemma length_ins_le k v m : (length m <= length (ins k v m) <= S (length m))%nat.
  Proof.
    induction m as [|[k1 v1] m IH]; cbn [ins length]; [lia|].
    destruct (k <? k1); cbn [length]; [lia|]. destruct (k =? k1); cbn [length]; lia.
  Qed.

  (** inserting a key above all present keys appends *)
  Lemma ins_append k v p : Forall (fun e => fst e < k) p -> ins k v p = p ++ [(k, v)].
  Proof.
    induction p as [|[k1 v1] p IH]; intros H; cbn [ins app]; [reflexivity|].
    inversion H as [|? ? Hlt Hr]; subst. cbn [fst] in Hlt.
    destruct (k <? k1) eqn:E1; [lia|]. destruct (k =? k1) eqn:E2; [lia|]. f_equal. auto.
  Qed.

  (** writing back the value that is already there changes nothing *)
  Lemma ins_lookup_id k v m : wf m -> lookup k m = Some v -> ins k v m = m.
  Proof.
    induction m as [|[k1 v1] m IH]; intros Hwf Hl; cbn [ins lookup] in *; [discriminate|].
    destruct Hwf as [Hgt Hwf].
    destruct (k <? k1) eqn:E1.
    - destruct (k1 =? k) eqn:E; [lia|].
      rewrite (lookup_all_gt k k1 m Hgt) in Hl; [discriminate|lia].
    - destruct (k =? k1) eqn:E2.
      + destruct (k1 =? k) eqn:E3; [|lia]. assert (k = k1) by lia. subst k1. congruence.
      + destruct (k1 =? k) eqn:E3; [lia|]. f_equal. auto.
  Qed.

  (** ** del *)
  Lemma all_gt_del k0 k m : all_gt k0 m -> all_gt k0 (del k m).
  Proof.
    induction m as [|[k1 v1] m IH]; intros Hgt; cbn [del]; [exact Hgt|].
    apply all_gt_cons in Hgt. destruct Hgt as [H1 H2].
    destruct (k1 =? k); [exact H2|]. apply all_gt_cons. auto.
  Qed.

  Lemma wf_del k m : wf m -> wf (del k m).
  Proof.
    induction m as [|[k1 v1] m IH]; intros Hwf; cbn [del]; [exact I|].
    destruct Hwf as [Hgt Hwf]. destruct (k1 =? k); [exact Hwf|].
    apply wf_cons. split; [apply all_gt_del; exact Hgt|auto].
  Qed.

  Lemma length_del_le k m : (length (del k m) <= length m)%nat.
  Proof.
    induction m as [|[k1 v1] m IH]; cbn [del length]; [lia|].
    destruct (k1 =? k); cbn [length]; lia.
  Qed.

  Lemma lookup_del_same k m : wf m -> lookup k (del k m) = None.
  Proof.
    induction m as [|[k1 v1] m IH]; intros Hwf; cbn [del lookup]; [reflexivity|].
    destruct Hwf as [Hgt Hwf]. destruct (k1 =? k) eqn:E.
    - apply lookup_all_gt with (k' := k1); [exact Hgt|lia].
    - cbn [lookup]. rewrite E. auto.
  Qed.

  Lemma lookup_del_other k k' m : k' <> k -> lookup k' (del k m) = lookup k' m.
  Proof.
    intros Hne. induction m as [|[k1 v1] m IH]; cbn [del lookup]; [reflexivity|].
    destruct (k1 =? k) eqn:E.
    - destruct (k1 =? k') eqn:E2; [lia|]. reflexivity.
    - cbn [lookup]. destruct (k1 =? k'); [reflexivity|]. exact IH.
  Qed.

  (** deleting the entry in the middle of [p ++ (k, v) :: r] when [p] does not have the key *)
  Lemma del_app_mid k v p r : Forall (fun e => fst e <> k) p -> del k (p ++ (k, v) :: r) = p ++ r.
  Proof.
    induction p as [|[k1 v1] p IH]; intros H; cbn [app del].
    - rewrite N.eqb_refl. reflexivity.
    - inversion H as [|? ? Hne Hr]; subst. cbn [fst] in Hne.
      destruct (k1 =? k) eqn:E; [lia|]. f_equal. auto.
  Qed.

  (** ** well-formedness of pieces *)
  Lemma wf_app_l p r : wf (p ++ r) -> wf p.
  Proof.
    induction p as [|[k1 v1] p IH]; intros H; [exact I|].
    cbn [app] in H. destruct H as [Hgt Hwf]. apply wf_cons. split; [|auto].
    apply all_gt_app in Hgt. tauto.
  Qed.

  Lemma wf_app_r p r : wf (p ++ r) -> wf r.
  Proof.
    induction p as [|[k1 v1] p IH]; intros H; [exact H|].
    cbn [app] in H. destruct H as [_ Hwf]. auto.
  Qed.

  Lemma wf_app_lt p k v r : wf (p ++ (k, v) :: r) -> Forall (fun e => fst e < k) p.
  Proof.
    induction p as [|[k1 v1] p IH]; intros H; [constructor|].
    cbn [app] in H. destruct H as [Hgt Hwf]. constructor; [|auto].
    apply all_gt_app in Hgt. destruct Hgt as [_ Hgt]. apply all_gt_cons in Hgt. cbn [fst]. tauto.
  Qed.

  Lemma wf_app_remove_mid p e r : wf (p ++ e :: r) -> wf (p ++ r).
  Proof.
    induction p as [|[k1 v1] p IH]; intros H; cbn [app] in *.
    - destruct e as [k v]. destruct H as [_ H]. exact H.
    - destruct H as [Hgt Hwf]. split; [|auto].
      apply all_gt_app in Hgt. destruct Hgt as [H1 H2]. apply all_gt_app. split; [exact H1|].
      destruct e as [k v]. apply all_gt_cons in H2. tauto.
  Qed.

  Lemma wf_app_set_mid p k v v' r : wf (p ++ (k, v) :: r) -> wf (p ++ (k, v') :: r).
  Proof.
    induction p as [|[k1 v1] p IH]; intros H; cbn [app] in *.
    - exact H.
    - destruct H as [Hgt Hwf]. split; [|auto].
      apply all_gt_app in Hgt. destruct Hgt as [H1 H2]. apply all_gt_app. split; [exact H1|].
      apply all_gt_cons in H2. apply all_gt_cons. exact H2.
  Qed.

  Lemma lt_neq_prefix p k : Forall (fun e : N * V => fst e < k) p -> Forall (fun e => fst e <> k) p.
  Proof. intros H. eapply Forall_impl; [|exact H]. cbn. intros; lia. Qed.

  (** ** of_list *)
  Lemma wf_of_list (l : list (N * V)) : wf (of_list l).
  Proof.
    unfold of_list. assert (H : wf (@nil (N * V))) by exact I. revert H. generalize (@nil (N * V)).
    induction l as [|e l IH]; intros m Hm; cbn [fold_left]; [exact Hm|].
    apply IH. apply wf_ins. exact Hm.
  Qed.

  (** ** canonical form: extensionally equal well-formed maps are equal *)
  Lemma wf_ext_eq m1 m2 : wf m1 -> wf m2 -> (forall k, lookup k m1 = lookup k m2) -> m1 = m2.
  Proof.
    revert m2. induction m1 as [|[k1 v1] m1 IH]; intros m2 H1 H2 Hext.
    - destruct m2 as [|[k2 v2] m2]; [reflexivity|].
      specialize (Hext k2). cbn [lookup] in Hext. rewrite N.eqb_refl in Hext. discriminate.
    - destruct m2 as [|[k2 v2] m2].
      + specialize (Hext k1). cbn [lookup] in Hext. rewrite N.eqb_refl in Hext. discriminate.
      + destruct H1 as [Hg1 Hw1]. destruct H2 as [Hg2 Hw2].
        assert (Hk : k1 = k2).
        { destruct (N.lt_trichotomy k1 k2) as [Hlt|[Heq|Hgt]]; [|exact Heq|].
          - pose proof (Hext k1) as E. cbn [lookup] in E. rewrite N.eqb_refl in E.
            destruct (k2 =? k1) eqn:E2; [lia|].
            rewrite (lookup_all_gt k1 k2 m2 Hg2) in E; [discriminate|lia].
          - pose proof (Hext k2) as E. cbn [lookup] in E. rewrite N.eqb_refl in E.
            destruct (k1 =? k2) eqn:E2; [lia|].
            rewrite (lookup_all_gt k2 k1 m1 Hg1) in E; [discriminate|lia]. }
        subst k2.
        assert (Hv : v1 = v2).
        { pose proof (Hext k1) as E. cbn [lookup] in E. rewrite N.eqb_refl in E. congruence. }
        subst v2. f_equal. apply IH; [exact Hw1|exact Hw2|].
        intros k. pose proof (Hext k) as E. cbn [lookup] in E.
        destruct (k1 =? k) eqn:E2; [|exact E].
        assert (k = k1) by lia. subst k.
        rewrite (lookup_all_gt k1 k1 m1 Hg1), (lookup_all_gt k1 k1 m2 Hg2); [reflexivity|lia|lia].
  Qed.
End KeyMapProofs.
