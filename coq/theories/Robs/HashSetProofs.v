(** Proofs about the observable-hash-set model (same structure as [HashMapProofs.v]): replaying the
    events an operation emits on a copy of the set reproduces the set; the mirror task and a
    hand-written consumer therefore end with the observed contents. *)
From Remoc Require Import Lib.Base Robs.KeyMap Robs.KeyMapProofs Robs.HashSet.

(** events that carry contents (everything but [Done] / [InitialComplete]) *)
Definition data_ev (e : event) : bool := negb (is_done_ev e || is_complete_ev e).
Definition data (evs : list event) : Prop := forallb data_ev evs = true.

(** largest size a copy of the map goes through while the events are applied to it *)
Fixpoint peak (m : hset) (evs : list event) : N :=
  match evs with
  | [] => len m
  | e :: r => N.max (len m) (peak (apply_event m e) r)
  end.

Lemma replay_app m a b : replay m (a ++ b) = replay (replay m a) b.
Proof. unfold replay. apply fold_left_app. Qed.

Lemma peak_ge m evs : len m <= peak m evs.
Proof. destruct evs; cbn [peak]; lia. Qed.

Lemma peak_app a : forall m b, peak m (a ++ b) = N.max (peak m a) (peak (replay m a) b).
Proof.
  induction a as [|e a IH]; intros m b; cbn [app peak].
  - change (replay m []) with m. pose proof (peak_ge m b). lia.
  - rewrite IH. change (replay m (e :: a)) with (replay (apply_event m e) a). lia.
Qed.

Lemma data_app a b : data (a ++ b) <-> data a /\ data b.
Proof. unfold data. rewrite forallb_app, andb_true_iff. reflexivity. Qed.

Lemma data_nil : data []. Proof. reflexivity. Qed.

(** ** Trace shapes: replay reproduces the result; sizes stay / grow / shrink monotonically *)
Definition tr (m : hset) (evs : list event) (m' : hset) : Prop :=
  wf m' /\ replay m evs = m' /\ data evs.
Definition flat m evs m' := tr m evs m' /\ len m' = len m /\ peak m evs <= len m.
Definition up m evs m' := tr m evs m' /\ len m <= len m' /\ peak m evs <= len m'.
Definition down m evs m' := tr m evs m' /\ len m' <= len m /\ peak m evs <= len m.
Definition good m evs m' := tr m evs m' /\ peak m evs <= N.max (len m) (len m').

Lemma tr_app m e1 m1 e2 m2 : tr m e1 m1 -> tr m1 e2 m2 -> tr m (e1 ++ e2) m2.
Proof.
  intros (_ & R1 & D1) (W2 & R2 & D2). split; [exact W2|]. split.
  - rewrite replay_app, R1. exact R2.
  - apply data_app. auto.
Qed.

Lemma flat_nil m : wf m -> flat m [] m.
Proof. intros W. repeat split; auto. cbn [peak]. lia. Qed.

Ltac comp_tac :=
  match goal with
  | [ H1 : tr ?m ?e1 ?m1, H2 : tr ?m1 ?e2 ?m2 |- _ ] =>
      split; [exact (tr_app _ _ _ _ _ H1 H2)|];
      destruct H1 as (_ & R1 & _); rewrite ?peak_app, ?R1; lia
  end.

Lemma flat_flat m e1 m1 e2 m2 : flat m e1 m1 -> flat m1 e2 m2 -> flat m (e1 ++ e2) m2.
Proof. intros (T1 & L1 & P1) (T2 & L2 & P2). unfold flat. comp_tac. Qed.
Lemma flat_down m e1 m1 e2 m2 : flat m e1 m1 -> down m1 e2 m2 -> down m (e1 ++ e2) m2.
Proof. intros (T1 & L1 & P1) (T2 & L2 & P2). unfold down. comp_tac. Qed.
Lemma flat_up m e1 m1 e2 m2 : flat m e1 m1 -> up m1 e2 m2 -> up m (e1 ++ e2) m2.
Proof. intros (T1 & L1 & P1) (T2 & L2 & P2). unfold up. comp_tac. Qed.
Lemma up_flat m e1 m1 e2 m2 : up m e1 m1 -> flat m1 e2 m2 -> up m (e1 ++ e2) m2.
Proof. intros (T1 & L1 & P1) (T2 & L2 & P2). unfold up. comp_tac. Qed.
Lemma flat_good m e1 m1 e2 m2 : flat m e1 m1 -> good m1 e2 m2 -> good m (e1 ++ e2) m2.
Proof. intros (T1 & L1 & P1) (T2 & P2). unfold good. comp_tac. Qed.

Lemma flat_to_up m e m' : flat m e m' -> up m e m'.
Proof. intros (T & L & P). unfold up. split; [exact T|]. lia. Qed.
Lemma flat_to_down m e m' : flat m e m' -> down m e m'.
Proof. intros (T & L & P). unfold down. split; [exact T|]. lia. Qed.
Lemma up_good m e m' : up m e m' -> good m e m'.
Proof. intros (T & L & P). unfold good. split; [exact T|]. lia. Qed.
Lemma down_good m e m' : down m e m' -> good m e m'.
Proof. intros (T & L & P). unfold good. split; [exact T|]. lia. Qed.
Lemma flat_to_good m e m' : flat m e m' -> good m e m'.
Proof. intros H. apply up_good, flat_to_up, H. Qed.


(** ** single events *)
Lemma set_up k m : wf m -> up m [ESet k] (ins k tt m).
Proof.
  intros W. pose proof (length_ins_le k tt m) as HL.
  repeat split; [apply wf_ins; exact W|unfold len; lia|].
  cbn [peak apply_event]. unfold len. lia.
Qed.

Lemma remove_down k m : wf m -> down m [ERemove k] (del k m).
Proof.
  intros W. pose proof (length_del_le k m) as HL.
  repeat split; [apply wf_del; exact W|unfold len; lia|].
  cbn [peak apply_event]. unfold len. lia.
Qed.

(** ** retain: only removes, and the [Remove] events replay it *)
Lemma retain_go_down f es : forall p, wf (p ++ es) ->
  down (p ++ es) (snd (retain_go f es)) (p ++ fst (retain_go f es)).
Proof.
  induction es as [|[k u] r IH]; intros p W; cbn [retain_go].
  - cbn [fst snd]. apply flat_to_down, flat_nil, W.
  - destruct (retain_go f r) as [m' evs] eqn:ER. cbn [fst snd] in *.
    destruct (f k) eqn:EK; cbn [fst snd].
    + replace (p ++ (k, u) :: r) with ((p ++ [(k, u)]) ++ r) by (rewrite <- app_assoc; reflexivity).
      replace (p ++ (k, u) :: m') with ((p ++ [(k, u)]) ++ m') by (rewrite <- app_assoc; reflexivity).
      apply (IH (p ++ [(k, u)])). rewrite <- app_assoc. exact W.
    + pose proof (wf_app_remove_mid p (k, u) r W) as W'.
      destruct (IH p W') as ((W2 & R2 & D2) & L2 & P2).
      assert (Hdel : del k (p ++ (k, u) :: r) = p ++ r).
      { apply del_app_mid. apply lt_neq_prefix. eapply wf_app_lt. exact W. }
      assert (Hlen : len (p ++ r) <= len (p ++ (k, u) :: r)).
      { unfold len. rewrite !app_length. cbn [length]. lia. }
      repeat split.
      * exact W2.
      * change (replay (p ++ (k, u) :: r) (ERemove k :: evs)) with (replay (del k (p ++ (k, u) :: r)) evs).
        rewrite Hdel. exact R2.
      * unfold data in *. cbn [forallb]. rewrite D2. reflexivity.
      * lia.
      * cbn [peak apply_event]. rewrite Hdel. lia.
Qed.

(** ** every mutator *)
Theorem mutate_good m o : wf m -> good m (snd (mutate m o)) (fst (mutate m o)).
Proof.
  intros W. destruct o as [|k|k|k|k| |dflt ds| |]; cbn [mutate].
  - apply flat_to_good, flat_nil, W.
  - apply up_good, set_up, W.
  - apply up_good, set_up, W.
  - destruct (lookup k m); cbn [fst snd].
    + apply down_good, remove_down, W.
    + apply flat_to_good, flat_nil, W.
  - destruct (lookup k m); cbn [fst snd].
    + apply down_good, remove_down, W.
    + apply flat_to_good, flat_nil, W.
  - destruct m as [|e m]; cbn [fst snd].
    + apply flat_to_good, flat_nil, W.
    + apply down_good. repeat split; try exact I.
      * unfold len. cbn [length]. lia.
      * cbn [peak apply_event]. unfold len. cbn [length]. lia.
  - apply down_good. exact (retain_go_down (decide dflt ds) m [] W).
  - cbn [fst snd]. apply flat_to_good. repeat split; try assumption.
    cbn [peak apply_event]. lia.
  - apply flat_to_good, flat_nil, W.
Qed.

Lemma mutate_wf m o : wf m -> wf (fst (mutate m o)).
Proof. intros W. apply (mutate_good m o W). Qed.

(** ** Runs of operations *)
Definition is_done_op (o : op) : bool := match o with MarkDone => true | _ => false end.

Lemma step_done s o : o_done s = true -> step s o = (s, []).
Proof. intros D. unfold step, apply_op. rewrite D. destruct o; reflexivity. Qed.

Lemma step_live s o : o_done s = false -> is_done_op o = false ->
  step s o = ({| o_hs := fst (mutate (o_hs s) o); o_done := false |}, snd (mutate (o_hs s) o)).
Proof.
  intros D N0. destruct s as [hs d]. cbn [o_done o_hs] in *. subst d.
  unfold step, apply_op. cbn [o_done o_hs].
  destruct o; try discriminate; try reflexivity; cbn [mutate]; cbn [fst snd];
    match goal with |- context [let (_, _) := ?t in _] => destruct t; reflexivity end.
Qed.

Lemma step_mark_done s : o_done s = false ->
  step s MarkDone = ({| o_hs := o_hs s; o_done := true |}, [EDone]).
Proof. intros D. unfold step, apply_op. rewrite D. reflexivity. Qed.

Lemma run_ops_nil s : run_ops s [] = (s, []).
Proof. reflexivity. Qed.

Lemma run_ops_cons s o r :
  run_ops s (o :: r) =
  (fst (run_ops (fst (step s o)) r), snd (step s o) ++ snd (run_ops (fst (step s o)) r)).
Proof.
  unfold run_ops. cbn [run_trace]. destruct (step s o) as [s1 e]. cbn [fst snd].
  destruct (run_trace s1 r) as [t s2]. reflexivity.
Qed.

Lemma run_ops_done ops : forall s, o_done s = true -> run_ops s ops = (s, []).
Proof.
  induction ops as [|o r IH]; intros s D; [reflexivity|].
  rewrite run_ops_cons, (step_done s o D). cbn [fst snd]. rewrite (IH s D). reflexivity.
Qed.

Lemma run_ops_app a : forall s b,
  run_ops s (a ++ b) =
  (fst (run_ops (fst (run_ops s a)) b), snd (run_ops s a) ++ snd (run_ops (fst (run_ops s a)) b)).
Proof.
  induction a as [|o r IH]; intros s b.
  - rewrite run_ops_nil. cbn [app fst snd]. destruct (run_ops s b). reflexivity.
  - cbn [app]. rewrite !run_ops_cons, IH. cbn [fst snd]. rewrite app_assoc. reflexivity.
Qed.

Lemma step_wf s o : wf (o_hs s) -> wf (o_hs (fst (step s o))).
Proof.
  intros W. destruct (o_done s) eqn:D.
  - rewrite (step_done s o D). exact W.
  - destruct (is_done_op o) eqn:E.
    + destruct o; try discriminate. rewrite (step_mark_done s D). exact W.
    + rewrite (step_live s o D E). cbn [fst o_hs]. apply mutate_wf, W.
Qed.

Lemma run_ops_wf ops : forall s, wf (o_hs s) -> wf (o_hs (fst (run_ops s ops))).
Proof.
  induction ops as [|o r IH]; intros s W; [exact W|].
  rewrite run_ops_cons. cbn [fst]. apply IH, step_wf, W.
Qed.

Lemma fits_head max s ops : fits max s ops = true -> len (o_hs s) <= max.
Proof. destruct ops; cbn [fits]; intros H; apply andb_true_iff in H; lia. Qed.

Lemma run_ops_live ops : forall s, o_done s = false -> wf (o_hs s) ->
  exists pre,
    snd (run_ops s ops) = pre ++ (if o_done (fst (run_ops s ops)) then [EDone] else []) /\
    data pre /\
    replay (o_hs s) pre = o_hs (fst (run_ops s ops)) /\
    (forall max, fits max s ops = true -> peak (o_hs s) pre <= max).
Proof.
  induction ops as [|o r IH]; intros s D W.
  - exists []. rewrite run_ops_nil. cbn [fst snd]. rewrite D. repeat split.
    intros max F. cbn [peak]. apply (fits_head max s [] F).
  - rewrite run_ops_cons.
    destruct (is_done_op o) eqn:E.
    + destruct o; try discriminate. rewrite (step_mark_done s D). cbn [fst snd].
      rewrite run_ops_done by reflexivity. cbn [fst snd o_done].
      exists []. repeat split.
      intros max F. cbn [peak]. apply (fits_head max s _ F).
    + rewrite (step_live s o D E) in *. cbn [fst snd] in *.
      pose proof (mutate_good (o_hs s) o W) as ((W1 & R1 & D1) & P1).
      set (s1 := {| o_hs := fst (mutate (o_hs s) o); o_done := false |}) in *.
      destruct (IH s1 eq_refl W1) as (pre & Hs & Hd & Hr & Hp).
      exists (snd (mutate (o_hs s) o) ++ pre). repeat split.
      * rewrite Hs. rewrite app_assoc. reflexivity.
      * apply data_app. auto.
      * rewrite replay_app, R1. exact Hr.
      * intros max F. cbn [fits] in F. apply andb_true_iff in F. destruct F as [F1 F2].
        rewrite (step_live s o D E) in F2. cbn [fst] in F2. fold s1 in F2.
        pose proof (Hp max F2) as Hp2. pose proof (fits_head max s1 r F2) as Hh.
        cbn [s1 o_hs] in Hh, Hp2. rewrite peak_app, R1. lia.
Qed.

(** ** The incremental initial value *)
Lemma up_up m e1 m1 e2 m2 : up m e1 m1 -> up m1 e2 m2 -> up m (e1 ++ e2) m2.
Proof. intros (T1 & L1 & P1) (T2 & L2 & P2). unfold up. comp_tac. Qed.

Lemma initial_sets_up es : forall p, wf (p ++ es) ->
  up p (map (fun e => ESet (fst e)) es) (p ++ es).
Proof.
  induction es as [|[k u] r IH]; intros p W.
  - rewrite app_nil_r in *. apply flat_to_up, flat_nil, W.
  - cbn [map fst]. destruct u.
    change (ESet k :: map (fun e : N * unit => ESet (fst e)) r)
      with ([ESet k] ++ map (fun e : N * unit => ESet (fst e)) r).
    assert (Hins : ins k tt p = p ++ [(k, tt)]).
    { apply ins_append. eapply wf_app_lt. exact W. }
    replace (p ++ (k, tt) :: r) with ((p ++ [(k, tt)]) ++ r) in * by (rewrite <- app_assoc; reflexivity).
    apply up_up with (m1 := p ++ [(k, tt)]).
    + rewrite <- Hins. apply set_up. apply (wf_app_l p ([(k, tt)] ++ r)). rewrite app_assoc. exact W.
    + apply IH. exact W.
Qed.

Lemma data_no_ctrl evs : data evs -> existsb is_done_ev evs = false /\ existsb is_complete_ev evs = false.
Proof.
  unfold data. induction evs as [|e r IH]; intros H; [split; reflexivity|].
  cbn [forallb existsb] in *. apply andb_true_iff in H. destruct H as [H1 H2].
  destruct (IH H2) as [I1 I2]. rewrite I1, I2.
  unfold data_ev in H1. apply negb_true_iff, orb_false_iff in H1. destruct H1 as [-> ->]. split; reflexivity.
Qed.

(** ** The mirror task *)
Lemma mirror_task_data evs : forall rest hs c mx, data evs -> peak hs evs <= mx ->
  mirror_task {| m_hs := hs; m_complete := c; m_done := false; m_max := mx |} (evs ++ rest)
  = mirror_task {| m_hs := replay hs evs; m_complete := c; m_done := false; m_max := mx |} rest.
Proof.
  induction evs as [|e r IH]; intros rest hs c mx Hd Hp; [reflexivity|].
  unfold data in Hd. cbn [forallb] in Hd. apply andb_true_iff in Hd. destruct Hd as [He Hd].
  cbn [peak] in Hp. pose proof (peak_ge (apply_event hs e) r) as Hge.
  change (replay hs (e :: r)) with (replay (apply_event hs e) r).
  cbn [app mirror_task].
  destruct e as [k|k| | | |]; cbn [handle_event m_hs m_complete m_done m_max apply_event] in *; try discriminate.
  - destruct (mx <? len (ins k tt hs)) eqn:E; [lia|]. apply IH; [exact Hd|lia].
  - apply IH; [exact Hd|lia].
  - apply IH; [exact Hd|lia].
  - apply IH; [exact Hd|lia].
Qed.

Theorem mirror_correct sk ops md max :
  wf (o_hs sk) -> fits max sk ops = true ->
  let r := mirror_task (mirror_init md sk max) (sub_stream md sk (snd (run_ops sk ops))) in
  snd r = None /\
  m_hs (fst r) = o_hs (fst (run_ops sk ops)) /\
  m_done (fst r) = o_done (fst (run_ops sk ops)) /\
  m_complete (fst r) = true.
Proof.
  intros W F. cbv zeta. destruct (o_done sk) eqn:D.
  - rewrite (run_ops_done ops sk D). cbn [fst snd]. unfold mirror_init, sub_stream, initial_set. rewrite D.
    destruct md.
    + cbn. rewrite ?D. repeat split; reflexivity.
    + (* the mirror starts not done, applies the whole initial value, then [Done] *)
      pose proof (fits_head max sk ops F) as Hh.
      pose proof (initial_sets_up (o_hs sk) [] W) as ((_ & R0 & D0) & L0 & P0). cbn [app] in R0, L0, P0.
      rewrite <- app_assoc.
      rewrite (mirror_task_data _ _ [] false max D0) by lia. rewrite R0.
      cbn. rewrite ?D. repeat split; reflexivity.
  - destruct (run_ops_live ops sk D W) as (pre & Hs & Hd & Hr & Hp).
    specialize (Hp max F). pose proof (fits_head max sk ops F) as Hh.
    unfold mirror_init, sub_stream, initial_set. rewrite D, Hs.
    destruct md.
    + cbn [app]. rewrite (mirror_task_data pre _ (o_hs sk) true max Hd Hp). rewrite Hr.
      destruct (o_done (fst (run_ops sk ops))); cbn; repeat split; reflexivity.
    + pose proof (initial_sets_up (o_hs sk) [] W) as ((_ & R0 & D0) & L0 & P0). cbn [app] in R0, L0, P0.
      rewrite <- app_assoc.
      rewrite (mirror_task_data _ _ [] false max D0) by lia. rewrite R0.
      cbn [app mirror_task handle_event m_hs m_complete m_done m_max].
      rewrite (mirror_task_data pre _ (o_hs sk) true max Hd Hp). rewrite Hr.
      destruct (o_done (fst (run_ops sk ops))); cbn; repeat split; reflexivity.
Qed.

(** ** Consuming the events by hand *)
Theorem hand_correct sk ops md :
  wf (o_hs sk) ->
  let st := sub_stream md sk (snd (run_ops sk ops)) in
  replay (initial_set md sk) st = o_hs (fst (run_ops sk ops)) /\
  existsb is_done_ev st = o_done (fst (run_ops sk ops)) /\
  match md with Snapshot => True | Incremental => existsb is_complete_ev st = true end.
Proof.
  intros W. cbv zeta.
  pose proof (initial_sets_up (o_hs sk) [] W) as ((_ & R0 & D0) & _ & _). cbn [app] in R0.
  destruct (data_no_ctrl _ D0) as [N1 N2].
  destruct (o_done sk) eqn:D.
  - rewrite (run_ops_done ops sk D). cbn [fst snd]. unfold sub_stream, initial_set. rewrite D.
    destruct md.
    + cbn. rewrite ?D. repeat split; reflexivity.
    + rewrite !replay_app, R0. rewrite !existsb_app, N1, N2. cbn. rewrite ?D. repeat split; reflexivity.
  - destruct (run_ops_live ops sk D W) as (pre & Hs & Hd & Hr & _).
    destruct (data_no_ctrl _ Hd) as [M1 M2].
    unfold sub_stream, initial_set. rewrite D, Hs.
    destruct md.
    + cbn [app]. rewrite replay_app, Hr, existsb_app, M1.
      destruct (o_done (fst (run_ops sk ops))); cbn; repeat split; reflexivity.
    + rewrite !replay_app, R0. change (replay (o_hs sk) [EInitialComplete]) with (o_hs sk).
      rewrite Hr. rewrite !existsb_app, N1, N2, M1, M2.
      destruct (o_done (fst (run_ops sk ops))); cbn; repeat split; reflexivity.
Qed.

(** ** The statements of [Props/C13_HashSet.v] *)
Lemma final_state_split init ops k :
  final_state init ops = fst (run_ops (state_at init ops k) (skipn k ops)).
Proof.
  unfold final_state, state_at. rewrite <- (firstn_skipn k ops) at 1. rewrite run_ops_app. reflexivity.
Qed.

Lemma state_at_wf init ops k : wf (o_hs (state_at init ops k)).
Proof. unfold state_at. apply run_ops_wf. cbn [obs_of o_hs]. apply wf_of_list. Qed.

Theorem mirror_ok_always init ops k md max :
  fits_from max init ops k = true ->
  mirror_ok init ops k md max.
Proof.
  unfold fits_from, mirror_ok, stream_at. intros F.
  rewrite (final_state_split init ops k).
  destruct (mirror_correct _ _ md max (state_at_wf init ops k) F) as (H1 & H2 & H3 & H4).
  repeat split; try assumption. intros x. rewrite H2. reflexivity.
Qed.

Theorem hand_ok_always init ops k md : hand_ok init ops k md.
Proof.
  unfold hand_ok, stream_at.
  rewrite (final_state_split init ops k).
  destruct (hand_correct _ (skipn k ops) md (state_at_wf init ops k)) as (H1 & H2 & H3).
  repeat split; try assumption. intros x. rewrite H1. reflexivity.
Qed.

(** ** Tie to the generated facts *)
From Remoc Require Gen.Api Gen.Variants.

Lemma api_covered :
  Gen.Api.hash_set_ObservableHashSet_mutators = map op_name all_ops ++ consuming_ops.
Proof. reflexivity. Qed.
Lemma op_names_complete o : In (op_name o) (map op_name all_ops).
Proof. destruct o; cbn; tauto. Qed.
Lemma events_covered :
  Gen.Variants.HashSetEvent_variants = map event_name all_events /\
  forall e, In (event_name e) (map event_name all_events).
Proof. split; [reflexivity|]. destruct e; cbn; tauto. Qed.

(** The former F11 class (repaired in /repo by commit 290b96a) is now mirrored correctly. *)
Definition f11_ops : list op := [MarkDone].
Lemma late_incremental_now_ok :
  late_incremental_at [1; 2] f11_ops 1 Incremental = true /\
  mirror_task (mirror_init Incremental (state_at [1; 2] f11_ops 1) 100) (stream_at [1; 2] f11_ops 1 Incremental)
  = ({| m_hs := [(1, tt); (2, tt)]; m_complete := true; m_done := true; m_max := 100 |}, None).
Proof. split; vm_compute; reflexivity. Qed.
