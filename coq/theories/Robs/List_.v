(** Model of [remoc::robs::list]: the append-only [ObservableList], the per-subscriber stream produced by
    its distribution task and [ListSubscription::recv], [MirroredListInner::handle_event] and the mirror
    task of [ListSubscription::mirror].  Transcribes /repo/remoc/src/robs/list.rs; element type [N].
    (File name [List_] avoids a clash with Coq's [List].) *)
From Remoc Require Import Lib.Base Robs.SeqCommon.

Record coll : Type := { items : list N; cdone : bool }.

(** The full mutating API ([Gen.Api.list_ObservableList_mutators] minus [set_error_handler]; plus the
    [Extend] trait impl). *)
Inductive op : Type :=
| Push (v : N)
| MarkDone
| Extend (vs : list N).

(** [ListEvent<T>] *)
Inductive event : Type :=
| EPush (v : N)
| EDone
| EInitialComplete.

(** One call: new state and what the distribution task will send to every subscriber that has
    already received everything before ([Req::Push] appends to the shared buffer, [Req::Done] sets
    [done]; each subscriber is sent [buffer[pos..]] and then [Done]).
    [Panic]: [push] after [done] ([assert_not_done]); [done] twice is a no-op. *)
Definition apply_op (c : coll) (o : op) : outcome (coll * list event) :=
  match o with
  | MarkDone => if cdone c then Ok (c, []) else Ok ({| items := items c; cdone := true |}, [EDone])
  | Push v => if cdone c then Panic else Ok ({| items := items c ++ [v]; cdone := false |}, [EPush v])
  | Extend [] => Ok (c, [])   (* the loop over the iterator never calls push *)
  | Extend vs => if cdone c then Panic else Ok ({| items := items c ++ vs; cdone := false |}, map EPush vs)
  end.

Fixpoint run_ops (c : coll) (ops : list op) : outcome (coll * list event) :=
  match ops with
  | [] => Ok (c, [])
  | o :: r =>
      match apply_op c o with
      | Panic => Panic
      | Ok (c1, e1) =>
          match run_ops c1 r with
          | Panic => Panic
          | Ok (c2, e2) => Ok (c2, e1 ++ e2)
          end
      end
  end.

(** ** The mirror *)
Record mirror : Type := { mv : list N; mcomplete : bool; mdone : bool; mmax : N }.
Inductive hres : Type :=
| HOk (m : mirror)
| HErr (m : mirror) (e : rerr).

(** [MirroredListInner::handle_event] *)
Definition handle_event (m : mirror) (e : event) : hres :=
  match e with
  | EInitialComplete => HOk {| mv := mv m; mcomplete := true; mdone := mdone m; mmax := mmax m |}
  | EPush v =>
      let m' := {| mv := mv m ++ [v]; mcomplete := mcomplete m; mdone := mdone m; mmax := mmax m |} in
      if mmax m <? len (mv m ++ [v]) then HErr m' (MaxSizeExceeded (mmax m)) else HOk m'
  | EDone => HOk {| mv := mv m; mcomplete := mcomplete m; mdone := true; mmax := mmax m |}
  end.

(** event loop: [brk = true] the task of [ListSubscription::mirror] (leaves the loop when
    [inner.done]), [brk = false] a consumer applying every event by hand *)
Fixpoint task_gen (brk : bool) (m : mirror) (evs : list event) : hres :=
  match evs with
  | [] => HOk m
  | e :: r =>
      match handle_event m e with
      | HOk m' => if brk && mdone m' then HOk m' else task_gen brk m' r
      | HErr m' err => HErr m' err
      end
  end.
Definition mirror_task := task_gen true.
Definition fold_events := task_gen false.

(** ** Subscription (always incremental).  A subscriber added when the list is in state [c] starts at
    position 0 of the shared buffer: it is sent every element, and [recv] inserts [InitialComplete]
    once as many elements have arrived as the list had when [subscribe] was called ([initial_len]);
    [Done] follows the last element when [done] has been (or is later) called. *)
Definition sub_stream (c : coll) (later : list event) : list event :=
  map EPush (items c) ++ [EInitialComplete] ++ (if cdone c then [EDone] else later).

(** [mirror(max_size)] starts empty with [complete: false, done: false] -- unlike the vector mirror it
    does not copy [is_done()] into the initial state. *)
Definition sub_mirror (mx : N) : mirror := {| mv := []; mcomplete := false; mdone := false; mmax := mx |}.

Definition mirror_of (c : coll) (cp : bool) (mx : N) : mirror :=
  {| mv := items c; mcomplete := cp; mdone := cdone c; mmax := mx |}.

Fixpoint run_bounded (mx : N) (c : coll) (ops : list op) : Prop :=
  len (items c) <= mx /\
  match ops with
  | [] => True
  | o :: r => match apply_op c o with Ok (c1, _) => run_bounded mx c1 r | Panic => True end
  end.

Module Names.
  Import Coq.Strings.String.
  Local Open Scope string_scope.
  Definition op_name (o : op) : string :=
    match o with Push _ => "push" | MarkDone => "done" | Extend _ => "extend(trait)" end.
  Definition event_name (e : event) : string :=
    match e with EPush _ => "Push" | EDone => "Done" | EInitialComplete => "InitialComplete" end.
  Definition non_mutating : list string := ["set_error_handler"; "into_inner!"].
  Definition minus (l ex : list string) : list string :=
    filter (fun s => negb (existsb (String.eqb s) ex)) l.
End Names.

Definition modelled_ops : list op := [Push 0; MarkDone].
Definition trait_ops : list op := [Extend []].
Definition modelled_events : list event := [EPush 0; EDone; EInitialComplete].
