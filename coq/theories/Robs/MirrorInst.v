(** Instances of the generic subscription/mirror system ([Mirror.v]) for the four broadcast-based
    observable collections, from their C13 models, and the link back to C13: the inner state a
    mirror has after the events of whole calls is the collection's state after those calls. *)
From Remoc Require Import Lib.Base Robs.SeqCommon Robs.Mirror.
From Remoc Require Robs.Vec Robs.VecProofs Robs.VecDeque Robs.VecDequeProofs Robs.HashMap Robs.HashSet.

Definition seq_cls (e : rerr) : cls :=
  match e with MaxSizeExceeded _ => CMaxSize | InvalidIndex _ => CInvalid end.
Definition smode_of (incr : bool) : smode := if incr then Incremental else Snapshot.

(** ** vector *)
Module VecI.
  Import Robs.Vec.
  Definition apply (c : coll) (o : op) : option (coll * list event) :=
    match apply_op c o with Ok r => Some r | Panic => None end.
  Definition handle (m : mirror) (e : event) : mirror * option rerr :=
    match handle_event m e with HOk m' => (m', None) | HErr m' err => (m', Some err) end.
  Definition is_done (e : event) : bool := match e with EDone => true | _ => false end.
  Definition init_events (incr : bool) (c : coll) : list event :=
    if incr then map EPush (items c) ++ [EInitialComplete] else [].
  Definition iface : Mirror.iface :=
    mk_iface coll op event mirror rerr apply cdone handle seq_cls mdone EDone is_done
             (fun incr c mx => sub_mirror (smode_of incr) c mx) init_events.
  Lemma done_ev e : is_done e = true -> e = EDone.
  Proof. destruct e; try discriminate; reflexivity. Qed.
End VecI.

(** ** deque *)
Module DequeI.
  Import Robs.VecDeque.
  Definition apply (c : coll) (o : op) : option (coll * list event) :=
    match apply_op c o with Ok r => Some r | Panic => None end.
  Definition handle (m : mirror) (e : event) : mirror * option rerr :=
    match handle_event m e with HOk m' => (m', None) | HErr m' err => (m', Some err) end.
  Definition is_done (e : event) : bool := match e with EDone => true | _ => false end.
  Definition init_events (incr : bool) (c : coll) : list event :=
    if incr then map EPushBack (items c) ++ [EInitialComplete] else [].
  Definition iface : Mirror.iface :=
    mk_iface coll op event mirror rerr apply cdone handle seq_cls mdone EDone is_done
             (fun incr c mx => sub_mirror (smode_of incr) c mx) init_events.
  Lemma done_ev e : is_done e = true -> e = EDone.
  Proof. destruct e; try discriminate; reflexivity. Qed.
End DequeI.

(** ** hash map *)
Module MapI.
  Import Robs.HashMap.
  Definition md_of (incr : bool) : mode := if incr then Incremental else Snapshot.
  Definition init_events (incr : bool) (s : obs) : list event :=
    if incr then map (fun e => ESet (fst e) (snd e)) (o_hm s) ++ [EInitialComplete] else [].
  Definition iface : Mirror.iface :=
    mk_iface obs op event mirror rerr apply_op o_done handle_event (fun _ => CMaxSize) m_done EDone is_done_ev
             (fun incr s mx => mirror_init (md_of incr) s mx) init_events.
  Lemma done_ev e : is_done_ev e = true -> e = EDone.
  Proof. destruct e; try discriminate; reflexivity. Qed.
End MapI.

(** ** hash set *)
Module SetI.
  Import Robs.HashSet.
  Definition md_of (incr : bool) : mode := if incr then Incremental else Snapshot.
  Definition init_events (incr : bool) (s : obs) : list event :=
    if incr then map ESet (elems (o_hs s)) ++ [EInitialComplete] else [].
  Definition iface : Mirror.iface :=
    mk_iface obs op event mirror rerr apply_op o_done handle_event (fun _ => CMaxSize) m_done EDone is_done_ev
             (fun incr s mx => mirror_init (md_of incr) s mx) init_events.
  Lemma done_ev e : is_done_ev e = true -> e = EDone.
  Proof. destruct e; try discriminate; reflexivity. Qed.
End SetI.

(** ** link to C13 (vector, deque): applying, without error, the whole stream of a subscription made
    in state [ck] and followed by the calls [ops] gives the collection after [ops] *)
Section VecLink.
  Import Robs.Vec Robs.VecProofs.
  Lemma vec_hfold_fold l : forall m m', fold_events m l = HOk m' -> hfold VecI.iface m l = Some m'.
  Proof.
    unfold fold_events. induction l as [|e l IH]; intros m m' H; cbn [task_gen hfold] in *.
    - now injection H as ->.
    - cbn [i_handle VecI.iface]. unfold VecI.handle. destruct (handle_event m e) as [m1|m1 err]; [|discriminate].
      cbn [andb] in H. now apply IH.
  Qed.

  Lemma vec_consistent incr ck ops mx cf e2 :
    run_ops ck ops = Ok (cf, e2) -> run_bounded mx ck ops ->
    hfold VecI.iface (i_submirror VecI.iface incr ck mx) (sub_stream (smode_of incr) ck e2) = Some (mirror_of cf true mx).
  Proof.
    intros Hr Hb. cbn [i_submirror VecI.iface].
    pose proof (hand_correct (smode_of incr) ck ops mx cf e2 Hr Hb) as Hh.
    destruct incr; cbn [smode_of] in *.
    - unfold sub_mirror. rewrite andb_false_r. apply vec_hfold_fold. exact Hh.
    - destruct (cdone ck) eqn:Hd.
      + destruct (run_done_state _ _ _ _ Hd Hr) as [-> ->].
        unfold sub_mirror, sub_stream, mirror_of. rewrite Hd. reflexivity.
      + apply vec_hfold_fold. unfold sub_mirror, hand_start in *. now rewrite Hd.
  Qed.
End VecLink.

Section DequeLink.
  Import Robs.VecDeque Robs.VecDequeProofs.
  Lemma deque_hfold_fold l : forall m m', fold_events m l = HOk m' -> hfold DequeI.iface m l = Some m'.
  Proof.
    unfold fold_events. induction l as [|e l IH]; intros m m' H; cbn [task_gen hfold] in *.
    - now injection H as ->.
    - cbn [i_handle DequeI.iface]. unfold DequeI.handle. destruct (handle_event m e) as [m1|m1 err]; [|discriminate].
      cbn [andb] in H. now apply IH.
  Qed.

  Lemma deque_consistent incr ck ops mx cf e2 :
    run_ops ck ops = Ok (cf, e2) -> run_bounded mx ck ops ->
    hfold DequeI.iface (i_submirror DequeI.iface incr ck mx) (sub_stream (smode_of incr) ck e2) = Some (mirror_of cf true mx).
  Proof.
    intros Hr Hb. cbn [i_submirror DequeI.iface].
    pose proof (hand_correct (smode_of incr) ck ops mx cf e2 Hr Hb) as Hh.
    destruct incr; cbn [smode_of] in *.
    - unfold sub_mirror. rewrite andb_false_r. apply deque_hfold_fold. exact Hh.
    - destruct (cdone ck) eqn:Hd.
      + destruct (run_done_state _ _ _ _ Hd Hr) as [-> ->].
        unfold sub_mirror, sub_stream, mirror_of. rewrite Hd. reflexivity.
      + apply deque_hfold_fold. unfold sub_mirror, hand_start in *. now rewrite Hd.
  Qed.
End DequeLink.
