(** C14 (append-only list) -- the distribution task of [ObservableList] and its subscribers as a
    small-step system.  Transcribes /repo/remoc/src/robs/list.rs: [ObservableList::{push,done,subscribe}]
    (requests over an unbounded channel, the atomic [len]), [ObservableList::task] (shared [buffer],
    per-subscriber [pos]/[done], one permit per subscriber channel of capacity 1, retirement of
    subscribers once the list object is gone), [ListSubscription::recv] ([InitialComplete] after
    [initial_len] elements, [Closed] when the task dropped the channel before [Done]).

    There is no broadcast here: every subscriber is sent [buffer[pos]] for its own [pos], so a slow
    subscriber delays only itself and nothing is ever skipped. *)
From Remoc Require Import Lib.Base Robs.Mirror Robs.List_.

Inductive req := RPush (v : N) | RDone.
Inductive lres := LEv (e : event) | LErr (c : cls).

Record lsub := mk_lsub {
  l_reg : bool;            (* the task has taken the [DistReq::Subscribe] *)
  l_pos : nat;             (* [SubState::pos] *)
  l_sent_done : bool;      (* [SubState::done] *)
  l_removed : bool;        (* dropped from [subs] by the task: its sender is gone *)
  l_chan : list event;     (* [rch::mpsc::channel(1)] *)
  l_ilen : nat;            (* [initial_len] = [len] at the time of [subscribe] *)
  l_len : nat;             (* elements received *)
  l_complete : bool;
  l_ended : bool;          (* [events = None] ([Done] received) or [Closed] returned *)
  l_alive : bool;          (* subscription not dropped *)
  l_log : list lres;       (* ghost: what [recv] returned, in order *)
}.

Record lstate := mk_lstate {
  buffer : list N;         (* the task's buffer *)
  tdone : bool;            (* the task's [done] *)
  reqs : list req;         (* requests not yet taken by the task *)
  alen : nat;              (* the atomic [len] *)
  pdone : bool;            (* [ObservableList::done] flag *)
  palive : bool;           (* the [ObservableList] has not been dropped *)
  lsubs : list lsub;
}.

Inductive laction :=
| LPush (v : N)
| LDone
| LSubscribe
| LDropList
| TReq                   (* the task takes one request *)
| TReg (i : nat)         (* the task takes the subscribe request of subscriber i *)
| TSend (i : nat)        (* a send permit of subscriber i is ready *)
| TRetire (i : nat)      (* [subs.retain] after the request channel closed *)
| SRecv (i : nat)
| SDrop (i : nat).

Definition linit (init : list N) : lstate := mk_lstate init false [] (length init) false true [].

Definition set_task (u : lsub) (reg : bool) (pos : nat) (sd rm : bool) (ch : list event) : lsub :=
  mk_lsub reg pos sd rm ch (l_ilen u) (l_len u) (l_complete u) (l_ended u) (l_alive u) (l_log u).
Definition set_user (u : lsub) (ch : list event) (ln : nat) (cp en al : bool) (lg : list lres) : lsub :=
  mk_lsub (l_reg u) (l_pos u) (l_sent_done u) (l_removed u) ch (l_ilen u) ln cp en al lg.

Definition task_send (buf : list N) (td : bool) (u : lsub) : option lsub :=
  if l_reg u && negb (l_removed u) && is_nil (l_chan u) then
    if l_alive u then
      match nth_error buf (l_pos u) with
      | Some v => Some (set_task u true (S (l_pos u)) (l_sent_done u) false [EPush v])
      | None => if td && negb (l_sent_done u) then Some (set_task u true (l_pos u) true false [EDone]) else None
      end
    else Some (set_task u true (l_pos u) (l_sent_done u) true [])   (* reserve fails: swap_remove *)
  else None.

(** only evaluated when the request channel is closed ([rx_opt = None]) *)
Definition task_retire (buf : list N) (td : bool) (u : lsub) : option lsub :=
  if l_reg u && negb (l_removed u) then
    if (if td then l_sent_done u else Nat.leb (length buf) (l_pos u))
    then Some (set_task u true (l_pos u) (l_sent_done u) true (l_chan u)) else None
  else None.

Definition sub_recv (u : lsub) : option lsub :=
  if l_alive u && negb (l_ended u) then
    if Nat.eqb (l_len u) (l_ilen u) && negb (l_complete u) then
      Some (set_user u (l_chan u) (l_len u) true false true (l_log u ++ [LEv EInitialComplete]))
    else
      match l_chan u with
      | EPush v :: _ => Some (set_user u [] (S (l_len u)) (l_complete u) false true (l_log u ++ [LEv (EPush v)]))
      | EDone :: _ => Some (set_user u [] (l_len u) (l_complete u) true true (l_log u ++ [LEv EDone]))
      | EInitialComplete :: _ => None          (* unreachable!() *)
      | [] => if l_removed u then Some (set_user u [] (l_len u) (l_complete u) true true (l_log u ++ [LErr CClosed]))
              else None
      end
  else None.

Definition upd_l (s : lstate) (i : nat) (f : lsub -> option lsub) : option lstate :=
  match upd_nth (lsubs s) i f with
  | Some l => Some (mk_lstate (buffer s) (tdone s) (reqs s) (alen s) (pdone s) (palive s) l)
  | None => None
  end.

Definition lstep (s : lstate) (a : laction) : option lstate :=
  match a with
  | LPush v =>
      if palive s && negb (pdone s)
      then Some (mk_lstate (buffer s) (tdone s) (reqs s ++ [RPush v]) (S (alen s)) false true (lsubs s))
      else None
  | LDone =>
      if palive s then
        if pdone s then Some s
        else Some (mk_lstate (buffer s) (tdone s) (reqs s ++ [RDone]) (alen s) true true (lsubs s))
      else None
  | LSubscribe =>   (* also possible through a distributor after the list object is gone *)
      Some (mk_lstate (buffer s) (tdone s) (reqs s) (alen s) (pdone s) (palive s)
                      (lsubs s ++ [mk_lsub false 0 false false [] (alen s) 0 false false true []]))
  | LDropList =>
      if palive s then Some (mk_lstate (buffer s) (tdone s) (reqs s) (alen s) (pdone s) false (lsubs s)) else None
  | TReq =>
      match reqs s with
      | RPush v :: r => Some (mk_lstate (buffer s ++ [v]) (tdone s) r (alen s) (pdone s) (palive s) (lsubs s))
      | RDone :: r => Some (mk_lstate (buffer s) true r (alen s) (pdone s) (palive s) (lsubs s))
      | [] => None
      end
  | TReg i => upd_l s i (fun u => if l_reg u then None else Some (set_task u true 0 false false []))
  | TSend i => upd_l s i (task_send (buffer s) (tdone s))
  | TRetire i =>
      if negb (palive s) && is_nil (reqs s) then upd_l s i (task_retire (buffer s) (tdone s)) else None
  | SRecv i => upd_l s i sub_recv
  | SDrop i => upd_l s i (fun u => if l_alive u then Some (set_user u (l_chan u) (l_len u) (l_complete u) (l_ended u) false (l_log u)) else None)
  end.

Fixpoint lrun (acts : list laction) (s : lstate) : option lstate :=
  match acts with
  | [] => Some s
  | a :: r => match lstep s a with Some s' => lrun r s' | None => None end
  end.

(** the elements among events / results *)
Definition ev_vals (l : list event) : list N :=
  flat_map (fun e => match e with EPush v => [v] | _ => [] end) l.
Definition log_vals (l : list lres) : list N :=
  flat_map (fun x => match x with LEv (EPush v) => [v] | _ => [] end) l.
Definition log_has_done (l : list lres) : bool :=
  existsb (fun x => match x with LEv EDone => true | _ => false end) l.
