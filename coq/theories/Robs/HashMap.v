(** Model of [remoc::robs::hash_map]: [ObservableHashMap<u64, u64>], its event stream, the
    subscription ([HashMapSubscription::{take_initial, recv}]) and the mirror task
    ([HashMapSubscription::mirror], [MirroredHashMapInner::handle_event]).

    Transcribes what the Rust code does, including exactly when an event is (not) emitted.
    Keys and values are [N]; contents are a canonical association list ([KeyMap]).
    Iteration order of the real hash map is arbitrary; wherever the code iterates ([retain], the
    incremental initial value) the model visits keys in increasing order and the correspondence
    check compares those event groups after sorting by key (events on distinct keys commute). *)
From Coq Require Import String.
From Remoc Require Import Lib.Base Robs.KeyMap.

Definition hmap := kmap N.

(** [HashMapEvent<K, V>] *)
Inductive event :=
  | ESet (k v : N)
  | ERemove (k : N)
  | EClear
  | EShrinkToFit
  | EDone
  | EInitialComplete.

(** What the caller does with a [RefMut] before dropping it.  [RefMut::deref_mut] sets
    [changed = true]; [Drop] emits [Set(key, value.clone())] iff [changed]. *)
Inductive access :=
  | ARead                 (* only [Deref] (or nothing): no event *)
  | ATouch                (* [DerefMut] taken, value left as it is: [Set] with the current value *)
  | AWrite (v : N).       (* [*r = v] *)

(** What a [retain] closure [FnMut(&K, &mut V) -> bool] does with one entry: the keep decision and
    what it did through the [&mut V] it was handed. *)
Record decision := { d_keep : bool; d_acc : access }.

(** [OccupiedEntry]: methods taking [&mut self] may be called any number of times, then one
    consuming method (or drop). *)
Inductive occ_step := OGetMut (a : access) | OInsert (v : N).
Inductive occ_final := ODrop | ORemoveEntry | ORemove | OIntoMut (a : access).
(** [VacantEntry] *)
Inductive vac_use := VDrop | VIntoKey | VInsert (v : N) (a : access).
(** [Entry]: consuming methods ([and_modify] returns the entry again and is modelled by the list
    [mods] of [Entry] below). *)
Inductive entry_final :=
  | EUnused
  | EOrInsert (v : N) (a : access)
  | EOrInsertWith (v : N) (a : access)        (* [v] = result of the closure *)
  | EOrInsertWithKey (v : N) (a : access)
  | EOrDefault (a : access)
  | EMatch (steps : list occ_step) (fin : occ_final) (vac : vac_use).

(** The public mutating API of [ObservableHashMap] (every [pub fn] taking [&mut self]). *)
Inductive op :=
  | SetErrorHandler
  | Insert (k v : N)
  | Remove (k : N)
  | Clear
  | Retain (dflt : decision) (ds : list (N * decision))  (* closure as a decision table by key *)
  | Entry (k : N) (mods : list (option N)) (u : entry_final)
          (* [entry(k).and_modify(m1)...and_modify(mn).<u>]; [Some v]: the closure writes [v] *)
  | GetMut (k : N) (a : access)
  | IterMut (uses : list (N * access))  (* the [RefMut]s obtained, in the order they are dropped *)
  | ShrinkToFit
  | MarkDone.

(** ** The observable map *)
Record obs := { o_hm : hmap; o_done : bool }.

Definition andthen (r : hmap * list event) (f : hmap -> hmap * list event) : hmap * list event :=
  let (m1, e1) := r in let (m2, e2) := f m1 in (m2, e1 ++ e2).

(** A [RefMut] for key [k] is used as [a] and dropped.  Also [get_mut]: [None] for a missing key. *)
Definition ref_access (k : N) (a : access) (m : hmap) : hmap * list event :=
  match lookup k m with
  | None => (m, [])
  | Some c =>
      match a with
      | ARead => (m, [])
      | ATouch => (m, [ESet k c])
      | AWrite v => (ins k v m, [ESet k v])
      end
  end.

(** [Entry::and_modify]: on an occupied entry [get_mut()] + [f(&mut *value)] -- [deref_mut] is
    always taken, so [Set] is always emitted; nothing on a vacant entry. *)
Fixpoint and_modify (k : N) (mods : list (option N)) (m : hmap) : hmap * list event :=
  match mods with
  | [] => (m, [])
  | w :: r => andthen (ref_access k (match w with Some v => AWrite v | None => ATouch end) m) (and_modify k r)
  end.

(** [VacantEntry::insert]: [Set(k, v)], then hands out a [RefMut] with [changed = false]. *)
Definition vac_insert (k v : N) (a : access) (m : hmap) : hmap * list event :=
  andthen (ins k v m, [ESet k v]) (ref_access k a).

(** [Entry::or_insert*]: occupied => [into_mut()] (no event by itself); vacant => [insert]. *)
Definition or_insert (k v : N) (a : access) (m : hmap) : hmap * list event :=
  match lookup k m with
  | Some _ => ref_access k a m
  | None => vac_insert k v a m
  end.

Definition occ_step_run (k : N) (s : occ_step) (m : hmap) : hmap * list event :=
  match s with
  | OGetMut a => ref_access k a m
  | OInsert v => (ins k v m, [ESet k v])       (* [OccupiedEntry::insert]: always [Set] *)
  end.
Fixpoint occ_steps (k : N) (sts : list occ_step) (m : hmap) : hmap * list event :=
  match sts with
  | [] => (m, [])
  | s :: r => andthen (occ_step_run k s m) (occ_steps k r)
  end.
Definition occ_final_run (k : N) (f : occ_final) (m : hmap) : hmap * list event :=
  match f with
  | ODrop => (m, [])
  | ORemoveEntry | ORemove => (del k m, [ERemove k])
  | OIntoMut a => ref_access k a m
  end.
Definition vac_run (k : N) (u : vac_use) (m : hmap) : hmap * list event :=
  match u with
  | VDrop | VIntoKey => (m, [])
  | VInsert v a => vac_insert k v a m
  end.
Definition entry_final_run (k : N) (u : entry_final) (m : hmap) : hmap * list event :=
  match u with
  | EUnused => (m, [])
  | EOrInsert v a | EOrInsertWith v a | EOrInsertWithKey v a => or_insert k v a m
  | EOrDefault a => or_insert k 0 a m          (* [u64::default()] *)
  | EMatch sts f vac =>
      match lookup k m with
      | Some _ => andthen (occ_steps k sts m) (occ_final_run k f)
      | None => vac_run k vac m
      end
  end.

Definition decide (dflt : decision) (ds : list (N * decision)) (k : N) : decision :=
  match lookup k ds with Some d => d | None => dflt end.

(** [retain]: [self.hm.retain(|k, v| if f(k, v) { true } else { send Remove(k); false })].
    The closure gets [&mut V]; whatever it writes stays in a kept entry and *no event is emitted
    for it* (finding F4). *)
Fixpoint retain_go (f : N -> decision) (es : hmap) : hmap * list event :=
  match es with
  | [] => ([], [])
  | (k, v) :: r =>
      let d := f k in
      let v' := match d_acc d with AWrite w => w | _ => v end in
      let (m', evs) := retain_go f r in
      if d_keep d then ((k, v') :: m', evs) else (m', ERemove k :: evs)
  end.

(** [iter_mut]: every key is yielded once; [uses] lists the [RefMut]s in drop order (first
    occurrence of a key counts, keys not in the map are never yielded). *)
Fixpoint iter_mut_go (seen : list N) (uses : list (N * access)) (m : hmap) : hmap * list event :=
  match uses with
  | [] => (m, [])
  | (k, a) :: r =>
      if existsb (N.eqb k) seen then iter_mut_go seen r m
      else andthen (ref_access k a m) (iter_mut_go (k :: seen) r)
  end.

(** Body of each mutator after [assert_not_done]. *)
Definition mutate (m : hmap) (o : op) : hmap * list event :=
  match o with
  | SetErrorHandler => (m, [])
  | Insert k v => (ins k v m, [ESet k v])                 (* always [Set], also when overwriting *)
  | Remove k => match lookup k m with Some _ => (del k m, [ERemove k]) | None => (m, []) end
  | Clear => match m with [] => (m, []) | _ => ([], [EClear]) end   (* nothing if already empty *)
  | Retain dflt ds => retain_go (decide dflt ds) m
  | Entry k mods u => andthen (and_modify k mods m) (entry_final_run k u)
  | GetMut k a => ref_access k a m
  | IterMut uses => iter_mut_go [] uses m
  | ShrinkToFit => (m, [EShrinkToFit])                    (* always *)
  | MarkDone => (m, [])
  end.

(** One API call.  [None] = the call panics ([assert_not_done] is the first statement of every
    mutator except [set_error_handler] and [done]; nothing has been changed or emitted then). *)
Definition apply_op (s : obs) (o : op) : option (obs * list event) :=
  match o with
  | SetErrorHandler => Some (s, [])
  | MarkDone => if o_done s then Some (s, []) else Some ({| o_hm := o_hm s; o_done := true |}, [EDone])
  | _ => if o_done s then None
         else let (m', evs) := mutate (o_hm s) o in Some ({| o_hm := m'; o_done := false |}, evs)
  end.

(** A caller that survives the panic (the harness catches it) sees an unchanged map. *)
Definition step (s : obs) (o : op) : obs * list event :=
  match apply_op s o with Some r => r | None => (s, []) end.

(** events per operation, final state *)
Fixpoint run_trace (s : obs) (ops : list op) : list (list event) * obs :=
  match ops with
  | [] => ([], s)
  | o :: r => let (s1, e) := step s o in let (tr, s2) := run_trace s1 r in (e :: tr, s2)
  end.
Definition run_ops (s : obs) (ops : list op) : obs * list event :=
  let (tr, s') := run_trace s ops in (s', concat tr).

Definition obs_of (init : list (N * N)) : obs := {| o_hm := of_list init; o_done := false |}.

(** ** Subscription *)
Inductive mode := Snapshot | Incremental.

(** What [take_initial] returns (the map the hand-written consumer starts from). *)
Definition initial_map (md : mode) (s : obs) : hmap :=
  match md with Snapshot => o_hm s | Incremental => [] end.

(** The sequence of [Some(event)] that successive [recv()] calls return for a subscription made in
    state [s], when [bevs] is what the observable broadcasts afterwards: first the incremental
    initial value ([len] times [Set], then [InitialComplete]); then the broadcast events, where a
    broadcast [Done] closes the receiver and is handed on as [Done]; a subscription made after
    [done()] has no receiver ([events = None]) and yields [Done] at once. *)
Definition sub_stream (md : mode) (s : obs) (bevs : list event) : list event :=
  match md with
  | Snapshot => []
  | Incremental => map (fun e => ESet (fst e) (snd e)) (o_hm s) ++ [EInitialComplete]
  end ++ (if o_done s then [EDone] else bevs).

(** ** Mirror *)
Inductive rerr := MaxSizeExceeded (n : N).

(** [MirroredHashMapInner] without the [error] field (kept by the task, below) *)
Record mirror := { m_hm : hmap; m_complete : bool; m_done : bool; m_max : N }.

(** [MirroredHashMapInner::handle_event]: [&mut self] is updated also when [Err] is returned. *)
Definition handle_event (mi : mirror) (e : event) : mirror * option rerr :=
  match e with
  | EInitialComplete => ({| m_hm := m_hm mi; m_complete := true; m_done := m_done mi; m_max := m_max mi |}, None)
  | ESet k v =>
      let hm' := ins k v (m_hm mi) in
      ({| m_hm := hm'; m_complete := m_complete mi; m_done := m_done mi; m_max := m_max mi |},
       if m_max mi <? len hm' then Some (MaxSizeExceeded (m_max mi)) else None)
  | ERemove k => ({| m_hm := del k (m_hm mi); m_complete := m_complete mi; m_done := m_done mi; m_max := m_max mi |}, None)
  | EClear => ({| m_hm := []; m_complete := m_complete mi; m_done := m_done mi; m_max := m_max mi |}, None)
  | EShrinkToFit => (mi, None)
  | EDone => ({| m_hm := m_hm mi; m_complete := m_complete mi; m_done := true; m_max := m_max mi |}, None)
  end.

(** [mirror()]: initial state from [take_initial().unwrap_or_default()], [is_complete()],
    [is_done() && is_complete()]: [is_done()] = [events.is_none()] (subscribed after [done()]),
    [is_complete()] = the snapshot was taken; an incremental mirror therefore starts not done and
    becomes done when it handles the [Done] event (repair of F11, commit 290b96a). *)
Definition mirror_init (md : mode) (s : obs) (max : N) : mirror :=
  {| m_hm := initial_map md s;
     m_complete := match md with Snapshot => true | Incremental => false end;
     m_done := match md with Snapshot => o_done s | Incremental => false end;
     m_max := max |}.

(** The spawned task: [loop { event = recv(); handle_event(event)?; if inner.done { break } }].
    Returns the inner state and the [error] field. *)
Fixpoint mirror_task (mi : mirror) (evs : list event) : mirror * option rerr :=
  match evs with
  | [] => (mi, None)
  | e :: r =>
      let (mi', res) := handle_event mi e in
      match res with
      | Some err => (mi', Some err)
      | None => if m_done mi' then (mi', None) else mirror_task mi' r
      end
  end.

(** ** Consuming the subscription by hand: apply every event to a map. *)
Definition apply_event (m : hmap) (e : event) : hmap :=
  match e with
  | ESet k v => ins k v m
  | ERemove k => del k m
  | EClear => []
  | EShrinkToFit | EDone | EInitialComplete => m
  end.
Definition replay (m : hmap) (evs : list event) : hmap := fold_left apply_event evs m.

Definition is_done_ev (e : event) : bool := match e with EDone => true | _ => false end.
Definition is_complete_ev (e : event) : bool := match e with EInitialComplete => true | _ => false end.

(** ** Classes of inputs on which the current code is known to break the mirror property *)

(** F4: a [retain] closure keeps an entry but changes its value (to a different one). *)
Definition retain_silent (f : N -> decision) (es : hmap) : bool :=
  existsb (fun e => let d := f (fst e) in
                    d_keep d && match d_acc d with AWrite w => negb (w =? snd e) | _ => false end) es.
Definition op_silent (m : hmap) (o : op) : bool :=
  match o with Retain dflt ds => retain_silent (decide dflt ds) m | _ => false end.
Fixpoint silent_free (s : obs) (ops : list op) : bool :=
  match ops with
  | [] => true
  | o :: r => negb (negb (o_done s) && op_silent (o_hm s) o) && silent_free (fst (step s o)) r
  end.
(** syntactic over-approximation: no [retain] decision at all keeps and writes *)
Definition decision_writes (d : decision) : bool :=
  d_keep d && match d_acc d with AWrite _ => true | _ => false end.
Definition no_retain_mutation (ops : list op) : bool :=
  forallb (fun o => match o with
                    | Retain dflt ds => negb (decision_writes dflt) && forallb (fun kd => negb (decision_writes (snd kd))) ds
                    | _ => true end) ops.

(** the former F11 class (repaired by commit 290b96a in /repo): incremental subscription of a
    non-empty map made after [done()]; kept to state that it is now mirrored correctly *)
Definition late_incremental (md : mode) (s : obs) : bool :=
  match md with
  | Incremental => o_done s && negb (match o_hm s with [] => true | _ => false end)
  | Snapshot => false
  end.

(** max_size is not exceeded: the observed map never has more than [max] entries from the
    subscription on *)
Fixpoint fits (max : N) (s : obs) (ops : list op) : bool :=
  (len (o_hm s) <=? max) &&
  match ops with [] => true | o :: r => fits max (fst (step s o)) r end.

(** ** Names, for the tie to the generated API lists *)
Open Scope string_scope.
Definition op_name (o : op) : string :=
  match o with
  | SetErrorHandler => "set_error_handler" | Insert _ _ => "insert" | Remove _ => "remove" | Clear => "clear"
  | Retain _ _ => "retain" | Entry _ _ _ => "entry" | GetMut _ _ => "get_mut" | IterMut _ => "iter_mut"
  | ShrinkToFit => "shrink_to_fit" | MarkDone => "done"
  end.
Definition all_ops : list op :=
  [SetErrorHandler; Insert 0 0; Remove 0; Clear; Retain {| d_keep := true; d_acc := ARead |} [];
   Entry 0 [] EUnused; GetMut 0 ARead; IterMut []; ShrinkToFit; MarkDone].
(** consuming methods of the observable itself: end of the object's life, not part of a sequence *)
Definition consuming_ops : list string := ["into_inner!"].

(** [Entry] methods: [and_modify] is the [mods] list of [Entry]; [EUnused] is no call *)
Definition entry_final_name (u : entry_final) : option string :=
  match u with
  | EUnused => None | EOrInsert _ _ => Some "or_insert!" | EOrInsertWith _ _ => Some "or_insert_with!"
  | EOrInsertWithKey _ _ => Some "or_insert_with_key!" | EOrDefault _ => Some "or_default!"
  | EMatch _ _ _ => None
  end.
Definition entry_methods : list string :=
  ["or_insert!"; "or_insert_with!"; "or_insert_with_key!"; "and_modify!"; "or_default!"].
Definition occ_step_name (s : occ_step) : string :=
  match s with OGetMut _ => "get_mut" | OInsert _ => "insert" end.
Definition occ_final_name (f : occ_final) : option string :=
  match f with ODrop => None | ORemoveEntry => Some "remove_entry!" | ORemove => Some "remove!" | OIntoMut _ => Some "into_mut!" end.
Definition occupied_methods : list string :=
  [ "remove_entry!"; "get_mut"; "into_mut!"; "insert"; "remove!" ].
Definition vac_name (u : vac_use) : option string :=
  match u with VDrop => None | VIntoKey => Some "into_key!" | VInsert _ _ => Some "insert!" end.
Definition vacant_methods : list string := ["into_key!"; "insert!"].

Definition event_name (e : event) : string :=
  match e with
  | ESet _ _ => "Set" | ERemove _ => "Remove" | EClear => "Clear" | EShrinkToFit => "ShrinkToFit"
  | EDone => "Done" | EInitialComplete => "InitialComplete"
  end.
Definition all_events : list event := [ESet 0 0; ERemove 0; EClear; EShrinkToFit; EDone; EInitialComplete].
Close Scope string_scope.

(** ** The property (C13) for one input, as predicates the theorems in [Props/C13_HashMap.v] use.
    [init]: initial content; [ops]: all operations; [k]: the subscription is made after the first
    [k] operations; [md]: subscription mode; [max]: the mirror's [max_size]. *)
Definition state_at (init : list (N * N)) (ops : list op) (k : nat) : obs :=
  fst (run_ops (obs_of init) (firstn k ops)).
Definition final_state (init : list (N * N)) (ops : list op) : obs := fst (run_ops (obs_of init) ops).
(** what the subscription made at [k] delivers once all of [ops] have run *)
Definition stream_at (init : list (N * N)) (ops : list op) (k : nat) (md : mode) : list event :=
  let sk := state_at init ops k in sub_stream md sk (snd (run_ops sk (skipn k ops))).

(** the real mirror task, after it has processed everything emitted so far *)
Definition mirror_ok (init : list (N * N)) (ops : list op) (k : nat) (md : mode) (max : N) : Prop :=
  let sk := state_at init ops k in
  let sn := final_state init ops in
  let r := mirror_task (mirror_init md sk max) (stream_at init ops k md) in
  snd r = None /\
  (forall key, lookup key (m_hm (fst r)) = lookup key (o_hm sn)) /\
  m_hm (fst r) = o_hm sn /\
  m_done (fst r) = o_done sn /\
  m_complete (fst r) = true.

(** consuming [take_initial()] and the [recv()] stream by hand *)
Definition hand_ok (init : list (N * N)) (ops : list op) (k : nat) (md : mode) : Prop :=
  let sk := state_at init ops k in
  let sn := final_state init ops in
  let st := stream_at init ops k md in
  let hm := replay (initial_map md sk) st in
  (forall key, lookup key hm = lookup key (o_hm sn)) /\
  hm = o_hm sn /\
  existsb is_done_ev st = o_done sn /\
  match md with Snapshot => True | Incremental => existsb is_complete_ev st = true end.

(** hypotheses: known class F4 and max_size *)
Definition silent_free_from (init : list (N * N)) (ops : list op) (k : nat) : bool :=
  silent_free (state_at init ops k) (skipn k ops).
Definition late_incremental_at (init : list (N * N)) (ops : list op) (k : nat) (md : mode) : bool :=
  late_incremental md (state_at init ops k).
Definition fits_from (max : N) (init : list (N * N)) (ops : list op) (k : nat) : bool :=
  fits max (state_at init ops k) (skipn k ops).
