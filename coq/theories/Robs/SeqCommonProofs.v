(** Lemmas about the shared sequence operations of [SeqCommon]. *)
From Remoc Require Import Lib.Base Robs.SeqCommon.

Lemma len_length {A} (l : list A) : len l = N.of_nat (length l).
Proof. reflexivity. Qed.

Lemma set_at_length {A} (i : nat) (v : A) l : (i < length l)%nat -> length (set_at i v l) = length l.
Proof.
  intros H. unfold set_at. rewrite app_length. cbn [length]. rewrite firstn_length, skipn_length. lia.
Qed.

(** ** retain: the index sets sent in the event select the same elements on the mirror *)
Lemma mem_false x s : (forall y, In y s -> y <> x) -> mem x s = false.
Proof.
  unfold mem. induction s as [|y s IH]; intros H; cbn [existsb]; [reflexivity|].
  rewrite IH by (intros z Hz; apply H; now right).
  assert (y <> x) by (apply H; now left).
  destruct (N.eqb_spec x y); [congruence|reflexivity].
Qed.

Lemma mem_head x s : mem x (x :: s) = true.
Proof. unfold mem. cbn [existsb]. now rewrite N.eqb_refl. Qed.

Lemma kept_idx_ge {A} ks (l : list A) pos x : In x (kept_idx ks l pos) -> pos <= x.
Proof.
  revert ks pos. induction l as [|a l IH]; intros ks pos H; [destruct ks; contradiction|].
  destruct ks as [|k ks]; cbn [kept_idx] in H.
  - destruct H as [<-|H]; [lia|]. apply IH in H. lia.
  - destruct k.
    + destruct H as [<-|H]; [lia|]. apply IH in H. lia.
    + apply IH in H. lia.
Qed.

Lemma dropped_idx_ge {A} ks (l : list A) pos x : In x (dropped_idx ks l pos) -> pos <= x.
Proof.
  revert ks pos. induction l as [|a l IH]; intros ks pos H; [destruct ks; contradiction|].
  destruct ks as [|k ks]; cbn [dropped_idx] in H; [contradiction|].
  destruct k.
  - apply IH in H. lia.
  - destruct H as [<-|H]; [lia|]. apply IH in H. lia.
Qed.

Lemma retain_set_cons_lt {A} neg p s pos (l : list A) :
  p < pos -> retain_set neg (p :: s) pos l = retain_set neg s pos l.
Proof.
  revert pos. induction l as [|a l IH]; intros pos H; cbn [retain_set]; [reflexivity|].
  rewrite IH by lia.
  assert (E : mem pos (p :: s) = mem pos s).
  { unfold mem. cbn [existsb]. destruct (N.eqb_spec pos p); [lia|reflexivity]. }
  now rewrite E.
Qed.

Lemma retain_set_kept {A} ks (l : list A) pos :
  retain_set false (kept_idx ks l pos) pos l = retain_by ks l.
Proof.
  revert ks pos. induction l as [|a l IH]; intros ks pos; [destruct ks; reflexivity|].
  destruct ks as [|k ks].
  - cbn [kept_idx retain_set retain_by]. rewrite mem_head. cbn [xorb].
    rewrite retain_set_cons_lt by lia. rewrite IH. destruct l; reflexivity.
  - destruct k; cbn [kept_idx retain_set retain_by].
    + rewrite mem_head. cbn [xorb]. rewrite retain_set_cons_lt by lia. now rewrite IH.
    + rewrite mem_false; [cbn [xorb]; apply IH|].
      intros y Hy. apply kept_idx_ge in Hy. lia.
Qed.

Lemma retain_set_dropped {A} ks (l : list A) pos :
  retain_set true (dropped_idx ks l pos) pos l = retain_by ks l.
Proof.
  revert ks pos. induction l as [|a l IH]; intros ks pos; [destruct ks; reflexivity|].
  destruct ks as [|k ks].
  - cbn [dropped_idx retain_set retain_by]. cbn [mem existsb xorb]. f_equal.
    specialize (IH [] (pos + 1)). destruct l; [reflexivity|]. exact IH.
  - destruct k; cbn [dropped_idx retain_set retain_by].
    + rewrite mem_false; [cbn [xorb]; now rewrite IH|].
      intros y Hy. apply dropped_idx_ge in Hy. lia.
    + rewrite mem_head. cbn [xorb]. rewrite retain_set_cons_lt by lia. apply IH.
Qed.

Lemma retain_by_nil_dropped {A} ks (l : list A) pos : dropped_idx ks l pos = [] -> retain_by ks l = l.
Proof.
  revert ks pos. induction l as [|a l IH]; intros ks pos H; [destruct ks; reflexivity|].
  destruct ks as [|k ks]; [reflexivity|].
  cbn [dropped_idx retain_by] in *. destruct k; [|discriminate].
  f_equal. eapply IH; eassumption.
Qed.

(** ** iterator writes stay inside the collection *)
Lemma fwd_writes_range j n ws : Forall (fun w => (j <= fst w < j + n)%nat) (fwd_writes j n ws).
Proof.
  revert j ws. induction n as [|n IH]; intros j ws; cbn [fwd_writes]; [constructor|].
  destruct ws as [|w r]; [constructor|].
  apply Forall_app. split.
  - destruct w; [|constructor]. constructor; [cbn [fst]; lia|constructor].
  - eapply Forall_impl; [|apply IH]. cbn beta. intros a Ha. lia.
Qed.

Lemma iter_writes_range rev n ws : Forall (fun w => (fst w < n)%nat) (iter_writes rev n ws).
Proof.
  unfold iter_writes. pose proof (fwd_writes_range 0 n ws) as H.
  destruct rev.
  - apply Forall_map. eapply Forall_impl; [|exact H]. cbn beta. intros a Ha. cbn [fst]. lia.
  - eapply Forall_impl; [|exact H]. cbn beta. intros a Ha. lia.
Qed.

Lemma apply_writes_length l ws :
  Forall (fun w => (fst w < length l)%nat) ws -> length (apply_writes l ws) = length l.
Proof.
  unfold apply_writes. revert l. induction ws as [|w ws IH]; intros l H; cbn [fold_left]; [reflexivity|].
  inversion H as [|? ? Hw Hr]; subst.
  rewrite IH.
  - now apply set_at_length.
  - rewrite set_at_length by assumption. exact Hr.
Qed.
