(** Proofs about [Robs/ListDist.v]: for every interleaving, every list subscriber has received a
    prefix of the buffer, in order, nothing twice, nothing skipped; [Done] only after everything. *)
From Remoc Require Import Lib.Base Robs.Mirror Robs.MirrorProofs Robs.List_ Robs.ListDist.

(** requests: no push is queued behind a [done] / after the task has seen [done] *)
Fixpoint ok_reqs (seen_done : bool) (l : list req) : Prop :=
  match l with
  | [] => True
  | RPush _ :: r => seen_done = false /\ ok_reqs false r
  | RDone :: r => ok_reqs true r
  end.
Definition has_done (l : list req) : bool := existsb (fun r => match r with RDone => true | _ => false end) l.

Lemma ok_reqs_push b l v : ok_reqs b l -> has_done l = false -> b = false -> ok_reqs false (l ++ [RPush v]).
Proof.
  revert b. induction l as [|[w|] l IH]; intros b H Hd Hb; cbn [app ok_reqs has_done existsb] in *.
  - auto.
  - destruct H as [_ H]. split; [reflexivity|]. now apply (IH false).
  - discriminate.
Qed.
Lemma ok_reqs_done b l : ok_reqs b l -> ok_reqs b (l ++ [RDone]).
Proof.
  revert b. induction l as [|[w|] l IH]; intros b H; cbn [app ok_reqs] in *; auto.
  destruct H as [Hb H]. split; auto.
Qed.
Lemma has_done_app l1 l2 : has_done (l1 ++ l2) = has_done l1 || has_done l2.
Proof. unfold has_done. apply existsb_app. Qed.

Definition sinv_l (buf : list N) (td : bool) (u : lsub) : Prop :=
  log_vals (l_log u) ++ ev_vals (l_chan u) = firstn (l_pos u) buf /\
  (l_pos u <= length buf)%nat /\
  l_len u = length (log_vals (l_log u)) /\
  (l_sent_done u = true -> l_pos u = length buf /\ td = true /\ (l_chan u = [EDone] \/ log_has_done (l_log u) = true)) /\
  (log_has_done (l_log u) = true ->
     l_sent_done u = true /\ l_chan u = [] /\ l_ended u = true /\
     exists l, l_log u = l ++ [LEv EDone] /\ log_has_done l = false) /\
  (l_chan u = [] \/ (exists v, l_chan u = [EPush v]) \/ (l_chan u = [EDone] /\ l_sent_done u = true)) /\
  (forall c, In (LErr c) (l_log u) -> c = CClosed /\ l_ended u = true /\ l_removed u = true) /\
  (l_complete u = true ->
     exists l1 l2, l_log u = l1 ++ LEv EInitialComplete :: l2 /\ length (log_vals l1) = l_ilen u) /\
  (l_reg u = false -> l_pos u = 0%nat /\ l_chan u = [] /\ l_sent_done u = false /\ l_removed u = false).

Definition linv_g (s : lstate) : Prop :=
  ok_reqs (tdone s) (reqs s) /\
  (tdone s || has_done (reqs s) = true -> pdone s = true) /\
  (forall k u, nth_error (lsubs s) k = Some u -> sinv_l (buffer s) (tdone s) u).

Lemma log_vals_app l1 l2 : log_vals (l1 ++ l2) = log_vals l1 ++ log_vals l2.
Proof. unfold log_vals. now rewrite flat_map_app. Qed.
Lemma log_has_done_app l1 l2 : log_has_done (l1 ++ l2) = log_has_done l1 || log_has_done l2.
Proof. unfold log_has_done. apply existsb_app. Qed.

Ltac prjl := cbn [l_reg l_pos l_sent_done l_removed l_chan l_ilen l_len l_complete l_ended l_alive l_log] in *.

Lemma sinv_l_grow buf td v u : td = false -> sinv_l buf td u -> sinv_l (buf ++ [v]) td u.
Proof.
  intros Htd (H1 & H2 & H3 & H4 & H5 & H6 & H7 & H8 & H9). unfold sinv_l.
  split; [rewrite H1; symmetry; now apply firstn_snoc_le|].
  split; [rewrite app_length; lia|].
  split; [exact H3|].
  split; [intros Hs; destruct (H4 Hs) as (_ & Hx & _); congruence|].
  split; [exact H5|]. split; [exact H6|]. split; [exact H7|]. split; [exact H8|exact H9].
Qed.

Lemma sinv_l_done buf u : sinv_l buf false u -> sinv_l buf true u.
Proof.
  intros (H1 & H2 & H3 & H4 & H5 & H6 & H7 & H8 & H9). unfold sinv_l.
  split; [exact H1|]. split; [exact H2|]. split; [exact H3|].
  split; [intros Hs; destruct (H4 Hs) as (_ & Hx & _); discriminate|].
  split; [exact H5|]. split; [exact H6|]. split; [exact H7|]. split; [exact H8|exact H9].
Qed.

Lemma sinv_reg buf td u u' :
  sinv_l buf td u -> (if l_reg u then None else Some (set_task u true 0 false false [])) = Some u' -> sinv_l buf td u'.
Proof.
  intros (H1 & H2 & H3 & H4 & H5 & H6 & H7 & H8 & H9) H. destruct (l_reg u) eqn:Hr; [discriminate|]. injection H as <-.
  destruct (H9 eq_refl) as (Hp & Hc & Hs & Hrm). unfold sinv_l, set_task. prjl.
  rewrite Hp, Hc in H1. rewrite Hs in H4, H5.
  split; [exact H1|]. split; [lia|]. split; [exact H3|].
  split; [discriminate|]. split; [intros Hd; destruct (H5 Hd) as (Hx & _); discriminate|].
  split; [now left|]. split; [intros c Hc'; destruct (H7 c Hc') as (? & ? & ?); congruence|].
  split; [exact H8|discriminate].
Qed.

Lemma sinv_send buf td u u' : sinv_l buf td u -> task_send buf td u = Some u' -> sinv_l buf td u'.
Proof.
  intros (H1 & H2 & H3 & H4 & H5 & H6 & H7 & H8 & H9) H. unfold task_send in H.
  destruct (l_reg u) eqn:Hr; [|discriminate]. destruct (l_removed u) eqn:Hrm; [discriminate|].
  destruct (l_chan u) as [|e0 ch] eqn:Hch; [|discriminate]. cbn [andb negb is_nil] in H.
  cbn [ev_vals flat_map] in H1. rewrite app_nil_r in H1.
  destruct (l_alive u).
  - destruct (nth_error buf (l_pos u)) as [v|] eqn:Hn.
    + injection H as <-. unfold sinv_l, set_task. prjl.
      assert (Hlt : (l_pos u < length buf)%nat) by (apply nth_error_Some; congruence).
      split; [cbn [ev_vals flat_map app]; rewrite H1; symmetry; now apply firstn_S_nth|].
      split; [lia|]. split; [exact H3|].
      split; [intros Hs; destruct (H4 Hs) as (Hx & _); lia|].
      split; [intros Hd; destruct (H5 Hd) as (Hs & _); destruct (H4 Hs) as (Hx & _); lia|].
      split; [right; left; now exists v|]. split; [intros c Hc; destruct (H7 c Hc) as (? & ? & ?); congruence|].
      split; [exact H8|discriminate].
    + destruct td; [|discriminate]. destruct (l_sent_done u) eqn:Hsd; [discriminate|]. injection H as <-.
      unfold sinv_l, set_task. prjl.
      assert (Hge : (length buf <= l_pos u)%nat) by now apply nth_error_None.
      split; [cbn [ev_vals flat_map app]; now rewrite app_nil_r|].
      split; [exact H2|]. split; [exact H3|].
      split; [intros _; split; [lia|]; split; [reflexivity|now left]|].
      split; [intros Hd; destruct (H5 Hd) as (Hs & _); discriminate|].
      split; [right; right; now split|]. split; [intros c Hc; destruct (H7 c Hc) as (? & ? & ?); congruence|].
      split; [exact H8|discriminate].
  - injection H as <-. unfold sinv_l, set_task. prjl.
    split; [cbn [ev_vals flat_map]; now rewrite app_nil_r|]. split; [exact H2|]. split; [exact H3|].
    split; [exact H4|]. split; [exact H5|]. split; [now left|].
    split; [intros c Hc; destruct (H7 c Hc) as (? & ? & ?); auto|]. split; [exact H8|discriminate].
Qed.

Lemma sinv_retire buf td u u' : sinv_l buf td u -> task_retire buf td u = Some u' -> sinv_l buf td u'.
Proof.
  intros (H1 & H2 & H3 & H4 & H5 & H6 & H7 & H8 & H9) H. unfold task_retire in H.
  destruct (l_reg u) eqn:Hr; [|discriminate]. destruct (l_removed u); [discriminate|]. cbn [andb negb] in H.
  destruct (if td then l_sent_done u else Nat.leb (length buf) (l_pos u)); [|discriminate]. injection H as <-.
  unfold sinv_l, set_task. prjl.
  split; [exact H1|]. split; [exact H2|]. split; [exact H3|]. split; [exact H4|]. split; [exact H5|]. split; [exact H6|].
  split; [intros c Hc; destruct (H7 c Hc) as (? & ? & ?); auto|]. split; [exact H8|discriminate].
Qed.

Lemma sinv_recv buf td u u' : sinv_l buf td u -> sub_recv u = Some u' -> sinv_l buf td u'.
Proof.
  intros (H1 & H2 & H3 & H4 & H5 & H6 & H7 & H8 & H9) H. unfold sub_recv in H.
  destruct (l_alive u); [|discriminate]. destruct (l_ended u) eqn:Hen; [discriminate|]. cbn [andb negb] in H.
  assert (Hnd : log_has_done (l_log u) = false).
  { destruct (log_has_done (l_log u)) eqn:Hd; [|reflexivity]. destruct (H5 eq_refl) as (_ & _ & Hx & _). congruence. }
  assert (Hne : forall c, ~ In (LErr c) (l_log u)).
  { intros c Hc. destruct (H7 c Hc) as (_ & Hx & _). congruence. }
  destruct (Nat.eqb (l_len u) (l_ilen u) && negb (l_complete u)) eqn:Hic.
  - (* InitialComplete *)
    injection H as <-. apply andb_prop in Hic. destruct Hic as [Hl Hcp]. apply Nat.eqb_eq in Hl.
    unfold sinv_l, set_user. prjl. rewrite log_vals_app, log_has_done_app. cbn [log_vals log_has_done flat_map existsb]. rewrite !app_nil_r, orb_false_r.
    split; [exact H1|]. split; [exact H2|]. split; [exact H3|]. split; [exact H4|].
    split; [intros Hd; congruence|]. split; [exact H6|].
    split; [intros c Hc; apply in_app_or in Hc; destruct Hc as [Hc|[Hc|[]]]; [now apply Hne in Hc|discriminate]|].
    split; [intros _; exists (l_log u), []; split; [reflexivity|congruence]|exact H9].
  - destruct (l_chan u) as [|[v| |] ch] eqn:Hch; try discriminate.
    + (* channel closed *)
      destruct (l_removed u) eqn:Hrm; [|discriminate]. injection H as <-.
      cbn [ev_vals flat_map] in H1. rewrite app_nil_r in H1.
      unfold sinv_l, set_user. prjl. rewrite log_vals_app, log_has_done_app. cbn [log_vals log_has_done flat_map existsb]. rewrite !app_nil_r, orb_false_r.
      split; [exact H1|]. split; [exact H2|]. split; [exact H3|].
      split; [intros Hs; destruct (H4 Hs) as (Ha & Hb & [Hc|Hc]); [discriminate|congruence]|].
      split; [intros Hd; congruence|]. split; [now left|].
      split; [intros c Hc; apply in_app_or in Hc; destruct Hc as [Hc|[Hc|[]]]; [now apply Hne in Hc|injection Hc as <-; auto]|].
      split; [intros Hcp; destruct (H8 Hcp) as (l1 & l2 & -> & Hl); exists l1, (l2 ++ [LErr CClosed]); split; [now rewrite <- app_assoc|exact Hl]|].
      intros Hr. destruct (H9 Hr) as (_ & _ & _ & Hx). congruence.
    + (* an element *)
      injection H as <-.
      assert (ch = []) as -> by (destruct H6 as [H6|[[w H6]|[H6 _]]]; congruence).
      unfold sinv_l, set_user. prjl. rewrite log_vals_app, log_has_done_app. cbn [log_vals log_has_done flat_map existsb ev_vals app] in *. rewrite orb_false_r, app_nil_r.
      split; [exact H1|]. split; [exact H2|]. split; [rewrite app_length; cbn [length]; lia|].
      split; [intros Hs; destruct (H4 Hs) as (Ha & Hb & [Hc|Hc]); [discriminate|congruence]|].
      split; [intros Hd; congruence|]. split; [now left|].
      split; [intros c Hc; apply in_app_or in Hc; destruct Hc as [Hc|[Hc|[]]]; [now apply Hne in Hc|discriminate]|].
      split; [intros Hcp; destruct (H8 Hcp) as (l1 & l2 & -> & Hl); exists l1, (l2 ++ [LEv (EPush v)]); split; [now rewrite <- app_assoc|exact Hl]|].
      intros Hr. destruct (H9 Hr) as (_ & Hx & _). discriminate.
    + (* Done *)
      injection H as <-.
      assert (ch = [] /\ l_sent_done u = true) as [-> Hsd] by (destruct H6 as [H6|[[w H6]|[H6 Hs]]]; [discriminate|discriminate|split; congruence]).
      unfold sinv_l, set_user. prjl. rewrite log_vals_app, log_has_done_app. cbn [log_vals log_has_done flat_map existsb ev_vals app] in *. rewrite orb_true_r, !app_nil_r in *.
      split; [exact H1|]. split; [exact H2|]. split; [exact H3|].
      split; [intros Hs; destruct (H4 Hs) as (Ha & Hb & _); auto|].
      split; [intros _; split; [exact Hsd|]; split; [reflexivity|]; split; [reflexivity|]; now exists (l_log u)|].
      split; [now left|].
      split; [intros c Hc; apply in_app_or in Hc; destruct Hc as [Hc|[Hc|[]]]; [now apply Hne in Hc|discriminate]|].
      split; [intros Hcp; destruct (H8 Hcp) as (l1 & l2 & -> & Hl); exists l1, (l2 ++ [LEv EDone]); split; [now rewrite <- app_assoc|exact Hl]|].
      intros Hr. destruct (H9 Hr) as (_ & Hx & _). discriminate.
Qed.

Lemma sinv_drop buf td u u' :
  sinv_l buf td u ->
  (if l_alive u then Some (set_user u (l_chan u) (l_len u) (l_complete u) (l_ended u) false (l_log u)) else None) = Some u' ->
  sinv_l buf td u'.
Proof. intros H Hd. destruct (l_alive u); [|discriminate]. injection Hd as <-. unfold sinv_l, set_user in *. prjl. exact H. Qed.

Lemma linv_g_init init : linv_g (linit init).
Proof.
  unfold linv_g, linit. cbn. split; [exact I|]. split; [discriminate|]. intros k u H. destruct k; discriminate.
Qed.

Lemma upd_l_inv s i f s' :
  linv_g s -> upd_l s i f = Some s' ->
  (forall u u', sinv_l (buffer s) (tdone s) u -> f u = Some u' -> sinv_l (buffer s) (tdone s) u') -> linv_g s'.
Proof.
  intros (G1 & G2 & G3) Hu Hf. unfold upd_l in Hu. destruct (upd_nth (lsubs s) i f) as [l|] eqn:Hup; [|discriminate].
  injection Hu as <-. unfold linv_g. cbn [buffer tdone reqs pdone lsubs]. split; [exact G1|]. split; [exact G2|].
  intros k u Hk. rewrite (nth_error_upd_nth _ _ _ _ k Hup) in Hk. destruct (Nat.eqb k i); [|eauto].
  destruct (nth_error (lsubs s) i) as [u0|] eqn:Hi; [|discriminate]. eauto.
Qed.

Lemma linv_g_step s a s' : linv_g s -> lstep s a = Some s' -> linv_g s'.
Proof.
  intros G Hs. pose proof G as (G1 & G2 & G3). destruct a as [v| | | | |i|i|i|i|i]; cbn [lstep] in Hs.
  - destruct (palive s); [|discriminate]. destruct (pdone s) eqn:Hp; [discriminate|]. cbn [andb negb] in Hs. injection Hs as <-.
    assert (Hnd : tdone s = false /\ has_done (reqs s) = false).
    { destruct (tdone s); [now specialize (G2 eq_refl)|]. destruct (has_done (reqs s)); [now specialize (G2 eq_refl)|auto]. }
    destruct Hnd as [Htd Hhd]. unfold linv_g. cbn [buffer tdone reqs pdone lsubs].
    split; [rewrite Htd; eapply ok_reqs_push; eauto; now rewrite <- Htd|].
    split; [rewrite has_done_app, Htd, Hhd; discriminate|exact G3].
  - destruct (palive s); [|discriminate]. destruct (pdone s) eqn:Hp; [now injection Hs as <-|]. injection Hs as <-.
    unfold linv_g. cbn [buffer tdone reqs pdone lsubs]. split; [now apply ok_reqs_done|]. split; [reflexivity|exact G3].
  - injection Hs as <-. unfold linv_g. cbn [buffer tdone reqs pdone lsubs]. split; [exact G1|]. split; [exact G2|].
    intros k u Hk. destruct (Nat.lt_ge_cases k (length (lsubs s))) as [Hlt|Hge].
    + rewrite nth_error_app1 in Hk by exact Hlt. eauto.
    + rewrite nth_error_app2 in Hk by exact Hge. destruct (k - length (lsubs s))%nat as [|[|]]; cbn in Hk; try discriminate.
      injection Hk as <-. unfold sinv_l. prjl. cbn. repeat split; try discriminate; auto; try lia.
  - destruct (palive s); [|discriminate]. injection Hs as <-. exact G.
  - destruct (reqs s) as [|[v|] r] eqn:Hr; [discriminate| |]; injection Hs as <-; unfold linv_g; cbn [buffer tdone reqs pdone lsubs].
    + cbn [ok_reqs] in G1. destruct G1 as [Htd G1]. rewrite Htd in *.
      split; [exact G1|]. split; [intros H; apply G2; cbn [has_done existsb] in *; exact H|].
      intros k u Hk. apply sinv_l_grow; [reflexivity|]. eauto.
    + cbn [ok_reqs] in G1. split; [exact G1|]. split; [intros _; apply G2; cbn [has_done existsb]; now rewrite orb_true_r|].
      intros k u Hk. specialize (G3 _ _ Hk). destruct (tdone s); [exact G3|now apply sinv_l_done].
  - eapply upd_l_inv; eauto. intros u u'. apply sinv_reg.
  - eapply upd_l_inv; eauto. intros u u'. apply sinv_send.
  - destruct (negb (palive s) && is_nil (reqs s)); [|discriminate]. eapply upd_l_inv; eauto. intros u u'. apply sinv_retire.
  - eapply upd_l_inv; eauto. intros u u'. apply sinv_recv.
  - eapply upd_l_inv; eauto. intros u u'. apply sinv_drop.
Qed.

Lemma linv_g_run acts : forall s s', linv_g s -> lrun acts s = Some s' -> linv_g s'.
Proof.
  induction acts as [|a r IH]; intros s s' H Hr; cbn [lrun] in Hr.
  - now injection Hr as <-.
  - destruct (lstep s a) as [s1|] eqn:Hs; [|discriminate]. eapply IH; [|exact Hr]. eapply linv_g_step; eauto.
Qed.

(** the buffer only grows, and not at all once the task has seen [done] *)
Lemma buffer_mono s a s' : linv_g s -> lstep s a = Some s' ->
  exists x, buffer s' = buffer s ++ x /\ (tdone s = true -> x = [] /\ tdone s' = true).
Proof.
  intros (G1 & _ & _) Hs. destruct a as [v| | | | |i|i|i|i|i]; cbn [lstep] in Hs;
    try (unfold upd_l in Hs; match type of Hs with context [upd_nth ?l ?i ?f] => destruct (upd_nth l i f) end; [|discriminate];
         injection Hs as <-; exists []; cbn; rewrite app_nil_r; auto).
  - destruct (palive s && negb (pdone s)); [|discriminate]. injection Hs as <-. exists []. cbn. rewrite app_nil_r. auto.
  - destruct (palive s); [|discriminate]. destruct (pdone s); injection Hs as <-; exists []; cbn; rewrite app_nil_r; auto.
  - injection Hs as <-. exists []. cbn. rewrite app_nil_r. auto.
  - destruct (palive s); [|discriminate]. injection Hs as <-. exists []. cbn. rewrite app_nil_r. auto.
  - destruct (reqs s) as [|[v|] r]; [discriminate| |]; injection Hs as <-; cbn.
    + exists [v]. split; [reflexivity|]. intros Htd. rewrite Htd in G1. cbn in G1. destruct G1; discriminate.
    + exists []. rewrite app_nil_r. auto.
  - destruct (negb (palive s) && is_nil (reqs s)); [|discriminate].
    unfold upd_l in Hs. destruct (upd_nth (lsubs s) i _); [|discriminate]. injection Hs as <-. exists []. cbn. rewrite app_nil_r. auto.
Qed.

(** C14 (list): every subscriber, at every point of every interleaving of pushes, subscribes, task
    steps and (slow) consumers, has received exactly the first [l_len] elements of the buffer, in
    order -- each once, none skipped; the only error it can be given is [Closed]; and [Done] is
    the last thing it receives, after every element of the finished list. *)
Lemma list_subscriber init acts s i u :
  lrun acts (linit init) = Some s -> nth_error (lsubs s) i = Some u ->
  log_vals (l_log u) = firstn (l_len u) (buffer s) /\
  (forall c, In (LErr c) (l_log u) -> c = CClosed) /\
  (log_has_done (l_log u) = true ->
     log_vals (l_log u) = buffer s /\ tdone s = true /\
     exists l, l_log u = l ++ [LEv EDone] /\ log_has_done l = false) /\
  (l_complete u = true ->
     exists l1 l2, l_log u = l1 ++ LEv EInitialComplete :: l2 /\ length (log_vals l1) = l_ilen u).
Proof.
  intros Hr Hn. pose proof (linv_g_run _ _ _ (linv_g_init init) Hr) as (_ & _ & G3).
  destruct (G3 _ _ Hn) as (H1 & H2 & H3 & H4 & H5 & H6 & H7 & H8 & H9).
  assert (Hpre : log_vals (l_log u) = firstn (l_len u) (buffer s)).
  { rewrite H3. assert (Hx : firstn (length (log_vals (l_log u))) (log_vals (l_log u) ++ ev_vals (l_chan u)) = log_vals (l_log u)).
    { rewrite <- (Nat.add_0_r (length (log_vals (l_log u)))), firstn_app_len. cbn [firstn]. now rewrite app_nil_r. }
    rewrite H1 in Hx. rewrite firstn_firstn in Hx. rewrite <- Hx at 1. f_equal.
    assert (length (log_vals (l_log u)) <= l_pos u)%nat; [|lia].
    assert (Hl : length (log_vals (l_log u) ++ ev_vals (l_chan u)) = length (firstn (l_pos u) (buffer s))) by now rewrite H1.
    rewrite app_length, firstn_length in Hl. lia. }
  split; [exact Hpre|]. split; [intros c Hc; now destruct (H7 c Hc)|]. split; [|exact H8].
  intros Hd. destruct (H5 Hd) as (Hs & Hch & _ & Hl). destruct (H4 Hs) as (Hp & Htd & _).
  rewrite Hch in H1. cbn [ev_vals flat_map] in H1. rewrite app_nil_r, Hp, firstn_all in H1. auto.
Qed.
