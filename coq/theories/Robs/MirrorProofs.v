(** Proofs about [Robs/Mirror.v]: an invariant over all action lists from which C14 follows. *)
From Remoc Require Import Lib.Base Rch.Broadcast Rch.BroadcastProofs Robs.Mirror.

(** ** lists *)
Lemma nth_error_upd_nth {A} (f : A -> option A) : forall (l : list A) i l' k,
  upd_nth l i f = Some l' ->
  nth_error l' k = if Nat.eqb k i then match nth_error l i with Some x => f x | None => None end else nth_error l k.
Proof.
  induction l as [|x r IH]; intros i l' k H; [destruct i; discriminate|].
  destruct i as [|j]; cbn [upd_nth] in H.
  - destruct (f x) as [y|] eqn:Hy; [|discriminate]. injection H as <-.
    destruct k; cbn [Nat.eqb nth_error]; congruence.
  - destruct (upd_nth r j f) as [r'|] eqn:Hr; [|discriminate]. injection H as <-.
    destruct k as [|k]; cbn [Nat.eqb nth_error]; [reflexivity|]. now apply IH.
Qed.

Lemma upd_nth_length {A} (f : A -> option A) : forall (l : list A) i l',
  upd_nth l i f = Some l' -> length l' = length l.
Proof.
  induction l as [|x r IH]; intros i l' H; [destruct i; discriminate|].
  destruct i as [|j]; cbn [upd_nth] in H.
  - destruct (f x); [|discriminate]. injection H as <-. reflexivity.
  - destruct (upd_nth r j f) eqn:Hr; [|discriminate]. injection H as <-. cbn [length]. f_equal. eauto.
Qed.

Lemma nth_error_upd (f : sub -> option sub) : forall (l : list sub) i l' k,
  upd l i f = Some l' ->
  nth_error l' k = if Nat.eqb k i then match nth_error l i with Some x => f x | None => None end else nth_error l k.
Proof.
  induction l as [|x r IH]; intros i l' k H; [destruct i; discriminate|].
  destruct i as [|j]; cbn [upd] in H.
  - destruct (f x) as [y|] eqn:Hy; [|discriminate]. injection H as <-.
    destruct k; cbn [Nat.eqb nth_error]; congruence.
  - destruct (upd r j f) as [r'|] eqn:Hr; [|discriminate]. injection H as <-.
    destruct k as [|k]; cbn [Nat.eqb nth_error]; [reflexivity|]. now apply IH.
Qed.

Lemma firstn_skipn_snoc {A} (h : list A) s t e :
  nth_error h (s + t) = Some e -> firstn (S t) (skipn s h) = firstn t (skipn s h) ++ [e].
Proof.
  revert h t. induction s as [|s IH]; intros h t H.
  - cbn [skipn plus] in *. revert h H. induction t as [|t IHt]; intros h H.
    + destruct h; cbn in *; congruence.
    + destruct h as [|x h]; [discriminate|]. cbn [nth_error] in H.
      change (firstn (S (S t)) (x :: h)) with (x :: firstn (S t) h). rewrite (IHt _ H). reflexivity.
  - destruct h as [|x h]; [destruct t; discriminate|]. cbn [plus nth_error skipn] in *. now apply IH.
Qed.

Lemma firstn_skipn_app_stable {A} (h x : list A) s t :
  (s + t <= length h)%nat -> firstn t (skipn s (h ++ x)) = firstn t (skipn s h).
Proof.
  intros H. rewrite skipn_app. rewrite firstn_app.
  replace (t - length (skipn s h))%nat with O by (rewrite skipn_length; lia).
  cbn [firstn]. now rewrite app_nil_r.
Qed.

Lemma firstn_snoc_le {A} (l x : list A) t : (t <= length l)%nat -> firstn t (l ++ x) = firstn t l.
Proof.
  intros H. rewrite firstn_app. replace (t - length l)%nat with O by lia. cbn [firstn]. now rewrite app_nil_r.
Qed.

(** ** broadcast streams *)
Lemma vals_from_length a k : length (vals_from a k) = k.
Proof. revert a. induction k as [|k IH]; intros a; cbn [vals_from length]; auto. Qed.

Lemma end_state_vals e k : end_state e false (vals_from e k) = (e + N.of_nat k, false).
Proof.
  revert e. induction k as [|k IH]; intros e; cbn [vals_from end_state].
  - f_equal. lia.
  - rewrite IH. f_equal. lia.
Qed.

Lemma wf_after_vals e k l :
  wf_stream e false (vals_from e k ++ l) -> wf_stream (e + N.of_nat k) false l.
Proof. intros H. apply wf_app in H. destruct H as [_ H]. now rewrite end_state_vals in H. Qed.

Lemma wf_head e x l : wf_stream e false (x :: l) -> x = Value e \/ x = Lagged.
Proof. intros H. inversion H; subst; auto. Qed.

Lemma end_state_mono e b l : wf_stream e b l -> e <= fst (end_state e b l).
Proof.
  induction 1 as [e b|e l H IH|e j l Hj H IH|e b l H IH]; cbn [end_state fst] in *; lia.
Qed.

Lemma end_state_val_lt e b l i : wf_stream e b l -> In (Value i) l -> i < fst (end_state e b l).
Proof.
  induction 1 as [e b|e l H IH|e j l Hj H IH|e b l H IH]; intros Hin; cbn [end_state] in *.
  - contradiction.
  - destruct Hin as [Hin|Hin]; [injection Hin as <-; apply end_state_mono in H; lia|auto].
  - destruct Hin as [Hin|Hin]; [injection Hin as <-; apply end_state_mono in H; lia|auto].
  - destruct Hin as [Hin|Hin]; [discriminate|auto].
Qed.

Lemma pending_bound n s : pending_ok n s -> fst (end_state (start s) false (stream s)) <= n.
Proof.
  unfold pending_ok. destruct (end_state (start s) false (stream s)) as [e b]. cbn [fst].
  destruct (status_of s) as [|[|]|]; [destruct b| | |]; intros H; try lia; tauto.
Qed.

(** the next item after [k] consecutive values: the next value, in range, or the marker *)
Lemma next_item n (b : sub) k x rest :
  sinv n b -> alive b = true ->
  stream b = vals_from (start b) k ++ x :: rest ->
  x = Lagged \/ (x = Value (start b + N.of_nat k) /\ start b + N.of_nat k < n).
Proof.
  intros (Hwf & Hp & _) Ha Hs. specialize (Hp Ha). apply pending_bound in Hp.
  assert (Hw := Hwf). rewrite Hs in Hw. apply wf_after_vals in Hw.
  destruct (wf_head _ _ _ Hw) as [->| ->]; [right|now left]. split; [reflexivity|].
  eapply N.lt_le_trans; [|exact Hp]. eapply end_state_val_lt; [exact Hwf|].
  rewrite Hs. apply in_or_app. right. now left.
Qed.

(** effect of the broadcast sub-level functions on what a subscriber-side view depends on *)
Definition same_view (b b' : sub) : Prop :=
  start b' = start b /\ consumed b' = consumed b /\ alive b' = alive b.

Lemma view_send n b : same_view b (sub_send n b).
Proof.
  unfold same_view, sub_send, set_status, push, park. destruct (status_of b); [|now auto|now auto].
  destruct (negb (alive b)); [now auto|]. destruct (room b); now auto.
Qed.
Lemma view_readmit1 b b' : sub_readmit1 b = Some b' -> same_view b b'.
Proof.
  unfold same_view, sub_readmit1, set_status, push. destruct (status_of b) as [|[|]|]; try discriminate.
  destruct (negb (alive b)); [intros H; injection H as <-; now auto|].
  destruct (room b); [|discriminate]. intros H; injection H as <-; now auto.
Qed.
Lemma view_readmit2 b b' : sub_readmit2 b = Some b' -> same_view b b'.
Proof.
  unfold same_view, sub_readmit2, set_status, set_held. destruct (status_of b) as [|[|]|]; try discriminate.
  destruct (negb (alive b)); [intros H; injection H as <-; now auto|].
  destruct (room b); [|discriminate]. intros H; injection H as <-; now auto.
Qed.
Lemma view_release b b' : sub_release b = Some b' -> same_view b b'.
Proof.
  unfold same_view, sub_release, set_held. destruct (0 <? held b); [|discriminate].
  intros H; injection H as <-; now auto.
Qed.

Lemma consume_view b b' :
  sub_consume b = Some b' ->
  exists x q, queue b = x :: q /\ queue b' = q /\ consumed b' = consumed b ++ [x] /\
              start b' = start b /\ alive b' = true /\ alive b = true /\ status_of b' = status_of b.
Proof.
  unfold sub_consume. destruct (alive b) eqn:Ha; [|discriminate]. destruct (queue b) as [|x q] eqn:Hq; [discriminate|].
  intros H; injection H as <-. exists x, q. cbn. repeat split; reflexivity.
Qed.

Lemma drop_view b b' : sub_drop b = Some b' -> start b' = start b /\ consumed b' = consumed b.
Proof. unfold sub_drop. destruct (alive b); [|discriminate]. intros H; injection H as <-. cbn. auto. Qed.

(** ** the invariant *)
Section Proofs.
  Variable I : iface.
  (** the [Done] event is recognisable (true of all four event types) *)
  Hypothesis done_ev : forall e, i_isdone I e = true -> e = i_edone I.

  Local Notation rsub := (rsub I).
  Local Notation mstate := (mstate I).
  Local Notation E := (iE I).

  (** the subscriber's position in its broadcast receiver *)
  Definition binv (h : list E) (b0 : Broadcast.state) (r : rsub) : Prop :=
    match r_bidx r with
    | None => r_taken r = 0%nat /\ r_events r = false
    | Some j =>
        exists b, nth_error (subs b0) j = Some b /\ start b = N.of_nat (r_start r) /\
          firstn (r_taken r) (consumed b) = vals_from (start b) (r_taken r) /\
          (r_start r + r_taken r <= length h)%nat /\
          (r_events r = false -> r_sdone r = true) /\
          (r_stopped r = false -> alive b = true /\ (r_remote r = false -> r_taken r = length (consumed b)))
    end.

  (** the events returned so far: the consumed part of the initial value, then a gap-free run of
      the history from the subscription point *)
  Definition linv (h : list E) (r : rsub) : Prop :=
    exists A0, r_einit r = A0 ++ r_init r /\
      evs_of I (r_log r) =
        A0 ++ match r_bidx r with
              | None => if r_sdone r then [i_edone I] else []
              | Some _ => firstn (r_taken r) (skipn (r_start r) h)
              end /\
      (r_init r <> [] -> r_taken r = 0%nat /\ r_sdone r = false).

  (** the consumer: no error and every returned event applied, or stopped at the first error with
      the state it had then *)
  Definition cinv (r : rsub) : Prop :=
    let L := evs_of I (r_log r) in
    match r_err r with
    | None => r_log r = map REv L /\ applied I r L (r_m r)
    | Some c =>
        r_stopped r = true /\
        ((r_log r = map REv L ++ [RErr c] /\ applied I r L (r_m r)) \/
         (r_mirror r = true /\ r_log r = map REv L /\
          exists L' e m' err, L = L' ++ [e] /\ hfold I (r_m0 r) L' = Some m' /\
                              i_handle I m' e = (r_m r, Some err) /\ i_cls I err = c))
    end.

  Definition uniq (l : list rsub) : Prop :=
    forall i1 i2 r1 r2 j, nth_error l i1 = Some r1 -> nth_error l i2 = Some r2 ->
                          r_bidx r1 = Some j -> r_bidx r2 = Some j -> i1 = i2.

  Definition ginv (s : mstate) : Prop :=
    Inv (bc s) /\ N.of_nat (length (hist s)) = next (bc s) /\ uniq (rsubs s) /\
    (forall k r, nth_error (rsubs s) k = Some r -> binv (hist s) (bc s) r /\ linv (hist s) r /\ cinv r).

  (** *** list facts about logs *)
  Lemma evs_of_app l1 l2 : evs_of I (l1 ++ l2) = evs_of I l1 ++ evs_of I l2.
  Proof. unfold evs_of. now rewrite flat_map_app. Qed.
  Lemma evs_of_map l : evs_of I (map REv l) = l.
  Proof. induction l as [|x l IH]; cbn; [reflexivity|]. f_equal. exact IH. Qed.

  Lemma hfold_snoc m l e m1 m2 :
    hfold I m l = Some m1 -> i_handle I m1 e = (m2, None) -> hfold I m (l ++ [e]) = Some m2.
  Proof.
    revert m. induction l as [|x l IH]; intros m H1 H2; cbn [hfold app] in *.
    - injection H1 as ->. now rewrite H2.
    - destruct (i_handle I m x) as [m' [err|]]; [discriminate|]. now apply IH.
  Qed.

  (** *** the consumer part *)
  Ltac prj := cbn [r_mirror r_remote r_bidx r_start r_m0 r_einit r_init r_events r_sdone r_taken r_fault
                   r_log r_m r_err r_stopped] in *.

  Lemma cinv_none r : cinv r -> r_stopped r = false -> r_err r = None.
  Proof. unfold cinv. destruct (r_err r); [|reflexivity]. intros [H _] H2. congruence. Qed.

  (** [deliver] does not touch the subscription part *)
  Lemma deliver_sub r x :
    let r' := deliver I r x in
    r_mirror r' = r_mirror r /\ r_remote r' = r_remote r /\ r_bidx r' = r_bidx r /\ r_start r' = r_start r /\
    r_m0 r' = r_m0 r /\ r_einit r' = r_einit r /\ r_init r' = r_init r /\ r_events r' = r_events r /\
    r_sdone r' = r_sdone r /\ r_taken r' = r_taken r /\ r_fault r' = r_fault r /\
    r_log r' = r_log r ++ [x].
  Proof.
    unfold deliver, set_cons. destruct x as [e|c].
    - destruct (r_mirror r) eqn:Hm.
      + destruct (i_handle I (r_m r) e) as [m' [err|]]; prj; rewrite ?Hm; repeat split; reflexivity.
      + prj. rewrite ?Hm. repeat split; reflexivity.
    - prj. repeat split; reflexivity.
  Qed.

  Lemma cinv_deliver_ev r e :
    cinv r -> r_err r = None -> cinv (deliver I r (REv e)).
  Proof.
    unfold cinv. intros H He. rewrite He in H. destruct H as [Hl Ha].
    unfold deliver, set_cons, applied in *. destruct (r_mirror r) eqn:Hm.
    - destruct (i_handle I (r_m r) e) as [m' [err|]] eqn:Hh; prj; rewrite ?Hm.
      + split; [reflexivity|]. right. split; [reflexivity|].
        rewrite evs_of_app. cbn [evs_of flat_map app]. rewrite map_app. cbn [map]. split; [now rewrite <- Hl|].
        exists (evs_of I (r_log r)), e, (r_m r), err. auto.
      + rewrite evs_of_app. cbn [evs_of flat_map app]. rewrite map_app. cbn [map]. split; [now rewrite <- Hl|].
        eapply hfold_snoc; eauto.
    - prj. rewrite ?Hm. rewrite evs_of_app. cbn [evs_of flat_map app]. rewrite map_app. cbn [map].
      split; [now rewrite <- Hl|exact Ha].
  Qed.

  Lemma cinv_deliver_err r c :
    cinv r -> r_err r = None -> cinv (deliver I r (RErr c)).
  Proof.
    unfold cinv. intros H He. rewrite He in H. destruct H as [Hl Ha].
    unfold deliver, set_cons, applied in *. prj. split; [reflexivity|]. left.
    rewrite evs_of_app. cbn [evs_of flat_map app]. rewrite app_nil_r. split; [now rewrite <- Hl|exact Ha].
  Qed.

  (** [cinv] only reads the consumer part *)
  Lemma cinv_set_sub r ini ev sd tk f : cinv (set_sub I r ini ev sd tk f) <-> cinv r.
  Proof. unfold cinv, applied, set_sub. prj. tauto. Qed.

  Arguments deliver : simpl never.
  Arguments set_sub : simpl never.
  Arguments take_item : simpl never.

  (** *** one [recv] *)
  Lemma upd_state_nth st i f st' k :
    upd_state st i f = Some st' ->
    next st' = next st /\
    nth_error (subs st') k =
      if Nat.eqb k (N.to_nat i) then match nth_error (subs st) (N.to_nat i) with Some x => f x | None => None end
      else nth_error (subs st) k.
  Proof.
    unfold upd_state. destruct (upd (subs st) (N.to_nat i) f) as [l|] eqn:Hu; [|discriminate].
    intros H; injection H as <-. cbn [next subs]. split; [reflexivity|]. now apply nth_error_upd.
  Qed.

  Lemma sinv_at b0 j b : Inv b0 -> nth_error (subs b0) j = Some b -> sinv (next b0) b.
  Proof. unfold Inv. rewrite Forall_forall. intros H Hn. apply H. eapply nth_error_In; eauto. Qed.

  Lemma firstn_S_nth {A} (l : list A) k x : nth_error l k = Some x -> firstn (S k) l = firstn k l ++ [x].
  Proof.
    revert k. induction l as [|y l IH]; intros k H; [destruct k; discriminate|].
    destruct k as [|k]; cbn [nth_error] in H.
    - injection H as ->. reflexivity.
    - change (firstn (S (S k)) (y :: l)) with (y :: firstn (S k) l). rewrite (IH _ H). reflexivity.
  Qed.

  Lemma binv_fields h b0 r r' :
    r_bidx r' = r_bidx r -> r_start r' = r_start r -> r_taken r' = r_taken r -> r_events r' = r_events r ->
    r_sdone r' = r_sdone r -> r_remote r' = r_remote r -> r_stopped r = false ->
    binv h b0 r -> binv h b0 r'.
  Proof.
    unfold binv. intros -> -> -> -> -> -> Hs H. destruct (r_bidx r) as [j|]; [|exact H].
    destruct H as (b & H1 & H2 & H3 & H4 & H5 & H6). exists b. split; [exact H1|]. split; [exact H2|]. split; [exact H3|]. split; [exact H4|]. split; [exact H5|].
    intros _. now apply H6.
  Qed.

  Ltac crack Ho :=
    unfold recv_out in Ho; cbv zeta in Ho;
    repeat match type of Ho with
           | context [match ?x with _ => _ end] => destruct x eqn:?
           end; try discriminate.

  Lemma recv_out_init b0 d r e rest f :
    recv_out I b0 d r = Some (OInit I e rest f) -> r_init r = e :: rest.
  Proof. intros Ho. crack Ho; inversion Ho; subst; reflexivity. Qed.

  Lemma recv_out_take b0 d r b1 f x :
    recv_out I b0 d r = Some (OTake I b1 f x) ->
    r_init r = [] /\ r_events r = true /\ exists j b, r_bidx r = Some j /\ nth_error (subs b0) j = Some b /\
      ((r_remote r = true /\ b1 = b0 /\ nth_error (consumed b) (r_taken r) = Some x) \/
       (r_remote r = false /\ upd_state b0 (N.of_nat j) sub_consume = Some b1 /\ exists q, queue b = x :: q)).
  Proof.
    intros Ho. crack Ho; inversion Ho; subst; (split; [reflexivity|]); (split; [reflexivity|]);
      do 2 eexists; (split; [reflexivity|]); (split; [eassumption|]); eauto 8.
  Qed.

  Lemma recv_out_done b0 d r :
    recv_out I b0 d r = Some (OSynthDone I) -> r_init r = [] /\ r_events r = false /\ r_sdone r = false.
  Proof. intros Ho. crack Ho; auto. Qed.

  Definition bstep (b0 b1 : Broadcast.state) (r : rsub) : Prop :=
    b1 = b0 \/ exists j, r_bidx r = Some j /\ upd_state b0 (N.of_nat j) sub_consume = Some b1.

  Lemma recv_inv h b0 dropped r b1 r' :
    Inv b0 -> N.of_nat (length h) = next b0 ->
    binv h b0 r -> linv h r -> cinv r ->
    recv_sub I b0 h dropped r = Some (b1, r') ->
    binv h b1 r' /\ linv h r' /\ cinv r' /\ r_bidx r' = r_bidx r /\ bstep b0 b1 r.
  Proof.
    intros HI Hlen Hb Hl Hc. unfold recv_sub. destruct (r_stopped r) eqn:Hst; [discriminate|].
    pose proof (cinv_none _ Hc Hst) as Herr.
    destruct (recv_out I b0 dropped r) as [o|] eqn:Ho; [|discriminate].
    destruct o as [e rest f|c|b1' f x|]; unfold apply_out.
    - (* initial-value event *)
      intros H; injection H as <- <-.
      pose proof (recv_out_init _ _ _ _ _ _ Ho) as Hinit.
      set (r1 := set_sub I r rest (r_events r) (r_sdone r) (r_taken r) f).
      pose proof (deliver_sub r1 (REv e)) as D. cbn zeta in D.
      remember (deliver I r1 (REv e)) as r2 eqn:Hr2.
      destruct D as (D1 & D2 & D3 & D4 & D5 & D6 & D7 & D8 & D9 & D10 & D11 & D12).
      repeat split.
      + eapply (binv_fields h b0 r); try (rewrite ?D1, ?D2, ?D3, ?D4, ?D8, ?D9, ?D10; reflexivity); assumption.
      + destruct Hl as (A0 & Ha & Hev & Hne). rewrite Hinit in *.
        destruct (Hne ltac:(discriminate)) as [Ht Hsd].
        exists (A0 ++ [e]). unfold r1, set_sub in D3, D4, D6, D7, D9, D10, D12. prj.
        rewrite D3, D4, D6, D7, D9, D10, D12. rewrite evs_of_app, Hev. cbn [evs_of flat_map app].
        rewrite Ht, Hsd. cbn [firstn]. repeat split.
        * rewrite Ha. now rewrite <- app_assoc.
        * destruct (r_bidx r); now rewrite !app_nil_r.
      + subst r2; apply cinv_deliver_ev; [now apply cinv_set_sub|exact Herr].
      + rewrite D3. reflexivity.
      + now left.
    - (* error *)
      intros H; injection H as <- <-.
      pose proof (deliver_sub r (@RErr I c)) as D. cbn zeta in D.
      remember (deliver I r (@RErr I c)) as r2 eqn:Hr2.
      destruct D as (D1 & D2 & D3 & D4 & D5 & D6 & D7 & D8 & D9 & D10 & D11 & D12).
      repeat split.
      + eapply (binv_fields h b0 r); try (rewrite ?D1, ?D2, ?D3, ?D4, ?D8, ?D9, ?D10; reflexivity); assumption.
      + destruct Hl as (A0 & Ha & Hev & Hne). exists A0.
        rewrite D3, D4, D6, D7, D9, D10, D12. rewrite evs_of_app. cbn [evs_of flat_map]. rewrite app_nil_r.
        repeat split; auto; now apply Hne.
      + subst r2. now apply cinv_deliver_err.
      + exact D3.
      + now left.
    - (* an item of the broadcast receiver *)
      pose proof (recv_out_take _ _ _ _ _ _ Ho) as Hspec.
      destruct Hspec as (Hinit & Hev & j & b & Hj & Hn & Hcase).
      unfold binv in Hb. rewrite Hj in Hb. destruct Hb as (b_ & Hn_ & Hstart & Hfirst & Hbound & Hsd & Hal).
      rewrite Hn in Hn_. injection Hn_ as <-. destruct (Hal Hst) as [Halive Hlocal].
      pose proof (sinv_at _ _ _ HI Hn) as Hsinv.
      (* the item is the next value or the marker; [b'] is the receiver afterwards *)
      assert (Hx : (x = Lagged \/ (x = Value (start b + N.of_nat (r_taken r)) /\ start b + N.of_nat (r_taken r) < next b0)) /\
                   exists b', nth_error (subs b1') j = Some b' /\ start b' = start b /\ alive b' = true /\
                     nth_error (consumed b') (r_taken r) = Some x /\
                     firstn (r_taken r) (consumed b') = firstn (r_taken r) (consumed b) /\
                     (r_remote r = false -> S (r_taken r) = length (consumed b')) /\
                     bstep b0 b1' r).
      { destruct Hcase as [(Hrm & -> & Hnx)|(Hrm & Hu & q & Hq)].
        - split.
          + destruct (nth_error_split _ _ Hnx) as (l1 & l2 & Hc12 & Hl1).
            eapply (next_item _ b (r_taken r) x (l2 ++ queue b)); eauto.
            unfold stream. rewrite Hc12, <- app_assoc. cbn [app]. f_equal.
            rewrite <- Hfirst, Hc12, <- Hl1. rewrite firstn_app, firstn_all, Nat.sub_diag. cbn [firstn]. now rewrite app_nil_r.
          + exists b. repeat split; auto; [congruence|now left].
        - destruct (upd_state_nth _ _ _ _ j Hu) as [_ Hnj].
          rewrite Nat2N.id, Nat.eqb_refl, Hn in Hnj.
          destruct (sub_consume b) as [b'|] eqn:Hcons; [|unfold sub_consume in Hcons; rewrite Halive, Hq in Hcons; discriminate].
          destruct (consume_view _ _ Hcons) as (x' & q' & Hq' & _ & Hc' & Hs' & Ha' & _ & _).
          rewrite Hq in Hq'. injection Hq' as <- <-.
          specialize (Hlocal Hrm).
          split.
          + eapply (next_item _ b (r_taken r) x q); eauto.
            unfold stream. rewrite Hq. f_equal. rewrite <- Hfirst, Hlocal. now rewrite firstn_all.
          + exists b'. repeat split; auto.
            * rewrite Hc', Hlocal. rewrite nth_error_app2 by lia. now rewrite Nat.sub_diag.
            * rewrite Hc'. apply firstn_snoc_le. lia.
            * intros _. rewrite Hc', app_length. cbn [length]. lia.
            * right. exists j. auto. }
      destruct Hx as (Hx & b' & Hnb' & Hsb' & Hab' & Hnx' & Hf' & Hloc' & Hbs).
      destruct Hx as [->|[-> Hlt]]; unfold take_item.
      + (* the marker *)
        intros H; injection H as <- <-.
        set (r1 := set_sub I r (r_init r) (r_events r) (r_sdone r) (r_taken r) f).
        pose proof (deliver_sub r1 (@RErr I CLagged)) as D. cbn zeta in D.
      remember (deliver I r1 (@RErr I CLagged)) as r2 eqn:Hr2.
        destruct D as (D1 & D2 & D3 & D4 & D5 & D6 & D7 & D8 & D9 & D10 & D11 & D12).
        unfold r1, set_sub in D1, D2, D3, D4, D5, D6, D7, D8, D9, D10, D11, D12. prj.
        repeat split.
        * unfold binv. rewrite D3, Hj. exists b'. rewrite D4, D8, D9, D10, Hsb'. repeat split; auto.
          -- now rewrite Hf'.
          -- match goal with H : r_stopped r2 = false |- _ => subst r2; unfold deliver, set_cons in H; prj; discriminate end.
        * destruct Hl as (A0 & Ha & Hev' & Hne). exists A0.
          rewrite D3, D4, D6, D7, D9, D10, D12. rewrite evs_of_app. cbn [evs_of flat_map]. rewrite app_nil_r.
          repeat split; auto; now apply Hne.
        * subst r2; apply cinv_deliver_err; [now apply cinv_set_sub|exact Herr].
        * exact D3.
        * exact Hbs.
      + (* the next value *)
        rewrite Hstart in *. rewrite <- Hlen in Hlt.
        replace (N.to_nat (N.of_nat (r_start r) + N.of_nat (r_taken r))) with (r_start r + r_taken r)%nat by lia.
        destruct (nth_error h (r_start r + r_taken r)) as [e|] eqn:Hnth; [|discriminate].
        intros H; injection H as <- <-.
        assert (Hee : (if i_isdone I e then i_edone I else e) = e).
        { destruct (i_isdone I e) eqn:Hd; [symmetry; now apply done_ev|reflexivity]. }
        rewrite Hee.
        set (r1 := set_sub I r (r_init r) (negb (i_isdone I e)) (i_isdone I e) (S (r_taken r)) f).
        pose proof (deliver_sub r1 (REv e)) as D. cbn zeta in D.
      remember (deliver I r1 (REv e)) as r2 eqn:Hr2.
        destruct D as (D1 & D2 & D3 & D4 & D5 & D6 & D7 & D8 & D9 & D10 & D11 & D12).
        unfold r1, set_sub in D1, D2, D3, D4, D5, D6, D7, D8, D9, D10, D11, D12. prj.
        repeat split.
        * unfold binv. rewrite D3, Hj. exists b'. rewrite D2, D4, D8, D9, D10, Hsb'. repeat split; auto.
          -- rewrite (firstn_S_nth _ _ _ Hnx'), Hf', Hfirst. now rewrite vals_from_snoc.
          -- assert (nth_error h (r_start r + r_taken r) <> None) as Hx2 by congruence. apply nth_error_Some in Hx2. lia.
          -- destruct (i_isdone I e); [reflexivity|discriminate].
        * destruct Hl as (A0 & Ha & Hev' & Hne). exists A0.
          rewrite D3, D4, D6, D7, D9, D10, D12, Hj. rewrite evs_of_app, Hev', Hj. cbn [evs_of flat_map].
          repeat split; auto.
          -- rewrite app_nil_r, <- app_assoc. f_equal. symmetry. now apply firstn_skipn_snoc.
          -- exfalso; congruence.
          -- exfalso; congruence.
        * subst r2; apply cinv_deliver_ev; [now apply cinv_set_sub|exact Herr].
        * exact D3.
        * exact Hbs.
    - (* the synthesized final Done *)
      intros H; injection H as <- <-.
      pose proof (recv_out_done _ _ _ Ho) as Hspec.
      destruct Hspec as (Hinit & Hev & Hsd).
      assert (Hbi : r_bidx r = None).
      { unfold binv in Hb. destruct (r_bidx r) as [j|]; [|reflexivity].
        destruct Hb as (b & _ & _ & _ & _ & Hs & _). specialize (Hs Hev). congruence. }
      set (r1 := set_sub I r [] false true (r_taken r) (r_fault r)).
      pose proof (deliver_sub r1 (REv (i_edone I))) as D. cbn zeta in D.
      remember (deliver I r1 (REv (i_edone I))) as r2 eqn:Hr2.
      destruct D as (D1 & D2 & D3 & D4 & D5 & D6 & D7 & D8 & D9 & D10 & D11 & D12).
      unfold r1, set_sub in D1, D2, D3, D4, D5, D6, D7, D8, D9, D10, D11, D12. prj.
      repeat split.
      + unfold binv in *. rewrite D3, Hbi in *. rewrite D8, D10. tauto.
      + destruct Hl as (A0 & Ha & Hev' & Hne). exists A0.
        rewrite D3, D4, D6, D7, D9, D10, D12, Hbi. rewrite evs_of_app, Hev', Hbi, Hsd. cbn [evs_of flat_map].
        rewrite Hinit in Ha. repeat split; auto.
        * now rewrite !app_nil_r.
        * exfalso; congruence.
        * exfalso; congruence.
      + subst r2; apply cinv_deliver_ev; [now apply cinv_set_sub|exact Herr].
      + exact D3.
      + now left.
  Qed.

  (** *** frame lemmas: what other actions do to a subscriber's invariant *)
  Lemma binv_frame h h' b0 b1 r :
    (length h <= length h')%nat ->
    (forall j b, r_bidx r = Some j -> nth_error (subs b0) j = Some b ->
       exists b', nth_error (subs b1) j = Some b' /\ start b' = start b /\
         ((consumed b' = consumed b /\ alive b' = alive b) \/
          (r_stopped r = true /\ exists ext, consumed b' = consumed b ++ ext) \/
          (r_remote r = true /\ alive b' = alive b /\ exists ext, consumed b' = consumed b ++ ext))) ->
    binv h b0 r -> binv h' b1 r.
  Proof.
    unfold binv. intros Hlen Hf H. destruct (r_bidx r) as [j|]; [|exact H].
    destruct H as (b & H1 & H2 & H3 & H4 & H5 & H6).
    destruct (Hf j b eq_refl H1) as (b' & Hn & Hs & Hc). exists b'. rewrite Hs.
    assert (Htk : (r_taken r <= length (consumed b))%nat).
    { assert (Hx : length (firstn (r_taken r) (consumed b)) = r_taken r) by (rewrite H3; apply vals_from_length).
      rewrite firstn_length in Hx. lia. }
    split; [exact Hn|]. split; [exact H2|].
    destruct Hc as [[Hc Ha]|[[Hst (ext & Hc)]|(Hrm & Ha & ext & Hc)]].
    - rewrite Hc, Ha. split; [exact H3|]. split; [lia|]. split; [exact H5|exact H6].
    - rewrite Hc. split; [now rewrite firstn_snoc_le|]. split; [lia|]. split; [exact H5|]. intros; congruence.
    - rewrite Hc, Ha. split; [now rewrite firstn_snoc_le|]. split; [lia|]. split; [exact H5|].
      intros Hs'. destruct (H6 Hs') as [Hal _]. split; [exact Hal|]. intros; congruence.
  Qed.

  Lemma binv_same_bc h b0 r : binv h b0 r -> forall h', (length h <= length h')%nat -> binv h' b0 r.
  Proof.
    intros H h' Hl. eapply binv_frame; [exact Hl| |exact H]. intros j b _ Hn. exists b. auto.
  Qed.

  Lemma binv_upd h b0 b1 i f r :
    upd_state b0 i f = Some b1 -> (forall b b', f b = Some b' -> same_view b b') ->
    binv h b0 r -> binv h b1 r.
  Proof.
    intros Hu Hv. apply binv_frame; [lia|]. intros j b _ Hn.
    destruct (upd_state_nth _ _ _ _ j Hu) as [_ Hj]. destruct (Nat.eqb_spec j (N.to_nat i)) as [->|Hne].
    - rewrite Hn in Hj. destruct (f b) as [b'|] eqn:Hfb.
      + exists b'. destruct (Hv _ _ Hfb) as (Hs & Hc & Ha). auto.
      + exfalso. unfold upd_state in Hu. destruct (upd (subs b0) (N.to_nat i) f) as [l|] eqn:Hup; [|discriminate].
        pose proof (nth_error_upd _ _ _ _ (N.to_nat i) Hup) as Hx. rewrite Nat.eqb_refl, Hn, Hfb in Hx.
        assert (length l = length (subs b0)) as Hll.
        { clear -Hup. revert Hup. generalize (N.to_nat i) as k. revert l. induction (subs b0) as [|x r IH]; intros l k H; [destruct k; discriminate|].
          destruct k; cbn [upd] in H.
          - destruct (f x); [|discriminate]. injection H as <-. reflexivity.
          - destruct (upd r k f) eqn:Hr; [|discriminate]. injection H as <-. cbn [length]. f_equal. eauto. }
        assert (nth_error (subs b0) (N.to_nat i) <> None) as Hsome by congruence.
        apply nth_error_Some in Hsome. rewrite <- Hll in Hsome. apply nth_error_Some in Hsome. congruence.
    - exists b. rewrite Hj. auto.
  Qed.

  Lemma binv_other h b0 b1 i f r :
    upd_state b0 i f = Some b1 -> r_bidx r <> Some (N.to_nat i) -> binv h b0 r -> binv h b1 r.
  Proof.
    intros Hu Hne. apply binv_frame; [lia|]. intros j b Hj Hn.
    destruct (upd_state_nth _ _ _ _ j Hu) as [_ Hjj]. destruct (Nat.eqb_spec j (N.to_nat i)) as [->|Hne'].
    - congruence.
    - exists b. rewrite Hjj. auto.
  Qed.

  Lemma linv_grow h x r :
    (match r_bidx r with Some _ => (r_start r + r_taken r <= length h)%nat | None => True end) ->
    linv h r -> linv (h ++ x) r.
  Proof.
    unfold linv. intros Hb (A0 & H1 & H2 & H3). exists A0. split; [exact H1|]. split; [|exact H3].
    rewrite H2. destruct (r_bidx r); [|reflexivity]. now rewrite firstn_skipn_app_stable.
  Qed.

  Lemma binv_bound h b0 r :
    binv h b0 r -> match r_bidx r with Some _ => (r_start r + r_taken r <= length h)%nat | None => True end.
  Proof. unfold binv. destruct (r_bidx r); [|auto]. intros (b & _ & _ & _ & H & _). exact H. Qed.

  Lemma binv_lt h b0 r j : binv h b0 r -> r_bidx r = Some j -> (j < length (subs b0))%nat.
  Proof.
    unfold binv. intros H Hj. rewrite Hj in H. destruct H as (b & Hn & _). apply nth_error_Some. congruence.
  Qed.

  (** *** the invariant holds initially and is preserved by every action *)
  Lemma ginv_init c : ginv (init_state I c).
  Proof.
    unfold ginv, init_state. cbn [bc hist rsubs]. split; [apply Inv_init|]. split; [reflexivity|].
    split; [intros i1 i2 r1 r2 j H; destruct i1; discriminate|]. intros k r H. destruct k; discriminate.
  Qed.

  Lemma new_rsub_inv mi rm incr c mx bidx h b0 :
    (match bidx with
     | None => True
     | Some j => exists b, nth_error (subs b0) j = Some b /\ start b = N.of_nat (length h) /\ consumed b = [] /\ alive b = true
     end) ->
    let r := new_rsub I mi rm incr c mx bidx (length h) in
    binv h b0 r /\ linv h r /\ cinv r.
  Proof.
    intros Hb r. unfold r, new_rsub. repeat split.
    - unfold binv. prj. destruct bidx as [j|]; [|auto].
      destruct Hb as (b & Hn & Hs & Hc & Ha). exists b. rewrite Hc. repeat split; auto; try lia; try discriminate.
    - unfold linv. prj. exists []. cbn [app firstn]. split; [reflexivity|]. split; [destruct bidx; reflexivity|auto].
    - unfold applied. prj. cbn [evs_of flat_map]. destruct mi; reflexivity.
  Qed.

  Lemma set_sub_fault_inv h b0 r f :
    binv h b0 r /\ linv h r /\ cinv r ->
    let r' := set_sub I r (r_init r) (r_events r) (r_sdone r) (r_taken r) f in
    binv h b0 r' /\ linv h r' /\ cinv r'.
  Proof. intros H r'. unfold r', binv, linv, cinv, applied, set_sub in *. prj. exact H. Qed.

  Lemma ginv_step s a s' : ginv s -> step I s a = Some s' -> ginv s'.
  Proof.
    intros (HI & Hlen & Hu & Hr) Hs. destruct a as [o| | |mi rm incr cap mx|i|i|i ni nw|j|j|j|i]; cbn [step] in Hs.
    - (* a call *)
      destruct (coll s) as [c|]; [|discriminate]. destruct (to_emit s); [|discriminate].
      destruct (i_apply I c o) as [[c' evs]|]; [|discriminate]. injection Hs as <-. unfold ginv; cbn [bc hist rsubs]. split; [exact HI|split; [exact Hlen|split; [exact Hu|exact Hr]]].
    - (* one event is sent *)
      destruct (coll s) as [c|]; [|discriminate]. destruct (to_emit s) as [|e rest]; [discriminate|].
      injection Hs as <-. unfold ginv. cbn [bc hist rsubs].
      split; [apply (Inv_step (bc s) Send); [exact HI|reflexivity]|].
      split; [unfold send_state; cbn [next]; rewrite app_length; cbn [length]; lia|].
      split; [exact Hu|]. intros k r Hk. destruct (Hr k r Hk) as (Hb & Hl & Hc). split; [|split; [|exact Hc]].
      + eapply binv_frame; [| |exact Hb]; [rewrite app_length; lia|].
        intros j b _ Hn. exists (sub_send (next (bc s)) b). unfold send_state. cbn [subs].
        rewrite nth_error_map, Hn. split; [reflexivity|]. destruct (view_send (next (bc s)) b) as (H1 & H2 & H3). auto.
      + apply linv_grow; [now apply (binv_bound _ _ _ Hb)|exact Hl].
    - (* the collection is dropped *)
      destruct (coll s) as [c|]; [|discriminate]. destruct (to_emit s); [|discriminate]. injection Hs as <-. unfold ginv; cbn [bc hist rsubs]. split; [exact HI|split; [exact Hlen|split; [exact Hu|exact Hr]]].
    - (* subscribe *)
      destruct (coll s) as [c|]; [|discriminate]. destruct (to_emit s); [|discriminate].
      destruct (i_cdone I c).
      + injection Hs as <-. unfold ginv. cbn [bc hist rsubs]. split; [exact HI|]. split; [exact Hlen|]. split.
        * intros i1 i2 r1 r2 j H1 H2 Hj1 Hj2.
          assert (Hold : forall i r, nth_error (rsubs s ++ [new_rsub I mi rm incr c mx None (length (hist s))]) i = Some r ->
                                     r_bidx r = Some j -> nth_error (rsubs s) i = Some r).
          { intros i r Hn Hj. destruct (Nat.lt_ge_cases i (length (rsubs s))) as [Hlt|Hge]; [now rewrite nth_error_app1 in Hn|].
            rewrite nth_error_app2 in Hn by exact Hge. destruct (i - length (rsubs s))%nat as [|[|]]; cbn in Hn; try discriminate.
            injection Hn as <-. discriminate. }
          eapply Hu; eauto.
        * intros k r Hk. destruct (Nat.lt_ge_cases k (length (rsubs s))) as [Hlt|Hge].
          -- rewrite nth_error_app1 in Hk by exact Hlt. eauto.
          -- rewrite nth_error_app2 in Hk by exact Hge. destruct (k - length (rsubs s))%nat as [|[|]]; cbn in Hk; try discriminate.
             injection Hk as <-. now apply new_rsub_inv.
      + destruct (Broadcast.step (bc s) (Subscribe cap)) as [b1|] eqn:Hsub; [|discriminate]. injection Hs as <-.
        pose proof (Inv_step _ _ _ HI Hsub) as HI1.
        cbn [Broadcast.step] in Hsub. destruct (cap =? 0); [discriminate|]. injection Hsub as <-.
        unfold ginv. cbn [bc hist rsubs next subs]. split; [exact HI1|]. split; [exact Hlen|]. split.
        * intros i1 i2 r1 r2 j H1 H2 Hj1 Hj2.
          assert (Hcase : forall i r, nth_error (rsubs s ++ [new_rsub I mi rm incr c mx (Some (length (subs (bc s)))) (length (hist s))]) i = Some r ->
                   r_bidx r = Some j ->
                   (nth_error (rsubs s) i = Some r /\ (j < length (subs (bc s)))%nat) \/ (i = length (rsubs s) /\ j = length (subs (bc s)))).
          { intros i r Hn Hj. destruct (Nat.lt_ge_cases i (length (rsubs s))) as [Hlt|Hge].
            - rewrite nth_error_app1 in Hn by exact Hlt. left. split; [exact Hn|].
              destruct (Hr _ _ Hn) as (Hb & _). eapply binv_lt; eauto.
            - rewrite nth_error_app2 in Hn by exact Hge. destruct (i - length (rsubs s))%nat as [|[|]] eqn:Hd; cbn in Hn; try discriminate.
              injection Hn as <-. unfold new_rsub in Hj. prj. injection Hj as <-. right. split; lia. }
          destruct (Hcase _ _ H1 Hj1) as [[Ha1 Hl1]|[Ha1 Hl1]]; destruct (Hcase _ _ H2 Hj2) as [[Ha2 Hl2]|[Ha2 Hl2]]; try lia.
          eapply Hu; eauto.
        * intros k r Hk. destruct (Nat.lt_ge_cases k (length (rsubs s))) as [Hlt|Hge].
          -- rewrite nth_error_app1 in Hk by exact Hlt. destruct (Hr _ _ Hk) as (Hb & Hl & Hc). split; [|now split].
             eapply binv_frame; [| |exact Hb]; [lia|]. intros j b _ Hn. exists b.
             cbn [subs]. rewrite nth_error_app1 by (apply nth_error_Some; congruence). auto.
          -- rewrite nth_error_app2 in Hk by exact Hge. destruct (k - length (rsubs s))%nat as [|[|]]; cbn in Hk; try discriminate.
             injection Hk as <-. apply new_rsub_inv. exists (new_sub cap (next (bc s))).
             cbn [subs]. rewrite nth_error_app2 by lia. rewrite Nat.sub_diag. cbn. rewrite Hlen. auto.
    - (* recv *)
      destruct (nth_error (rsubs s) i) as [r|] eqn:Hi; [|discriminate].
      destruct (recv_sub I (bc s) (hist s) match coll s with Some _ => false | None => true end r) as [[b1 r']|] eqn:Hrecv; [|discriminate].
      destruct (upd_nth (rsubs s) i (fun _ => Some r')) as [l|] eqn:Hup; [|discriminate]. injection Hs as <-.
      destruct (Hr _ _ Hi) as (Hb & Hl & Hc).
      destruct (recv_inv _ _ _ _ _ _ HI Hlen Hb Hl Hc Hrecv) as (Hb' & Hl' & Hc' & Hbi & Hbs).
      assert (HI1 : Inv b1 /\ next b1 = next (bc s)).
      { destruct Hbs as [->|(j & Hj & Hupd)]; [now split|]. split.
        - apply (Inv_step (bc s) (Consume (N.of_nat j))); [exact HI|exact Hupd].
        - now destruct (upd_state_nth _ _ _ _ 0%nat Hupd). }
      unfold ginv. cbn [bc hist rsubs]. split; [apply HI1|]. split; [now rewrite (proj2 HI1)|]. split.
      + intros i1 i2 r1 r2 j H1 H2 Hj1 Hj2.
        rewrite (nth_error_upd_nth _ _ _ _ i1 Hup) in H1. rewrite (nth_error_upd_nth _ _ _ _ i2 Hup) in H2. rewrite Hi in H1, H2.
        destruct (Nat.eqb_spec i1 i) as [->|N1]; destruct (Nat.eqb_spec i2 i) as [->|N2]; try reflexivity.
        * injection H1 as <-. rewrite Hbi in Hj1. eapply Hu; eauto.
        * injection H2 as <-. rewrite Hbi in Hj2. eapply Hu; eauto.
        * eapply Hu; eauto.
      + intros k rk Hk. rewrite (nth_error_upd_nth _ _ _ _ k Hup), Hi in Hk.
        destruct (Nat.eqb_spec k i) as [->|Nk]; [injection Hk as <-; auto|].
        destruct (Hr _ _ Hk) as (Hbk & Hlk & Hck). split; [|now split].
        destruct Hbs as [->|(j & Hj & Hupd)]; [exact Hbk|].
        eapply binv_other; [exact Hupd| |exact Hbk]. rewrite Nat2N.id. intros Hkj. apply Nk. eapply Hu; eauto.
    - (* the forwarding task of a remote subscriber takes an item *)
      destruct (nth_error (rsubs s) i) as [r|] eqn:Hi; [|discriminate].
      destruct (r_remote r) eqn:Hrm; [|discriminate]. destruct (r_fault r); [discriminate|].
      destruct (r_bidx r) as [j|] eqn:Hj; [|discriminate].
      destruct (upd_state (bc s) (N.of_nat j) sub_consume) as [b1|] eqn:Hupd; [|discriminate]. injection Hs as <-.
      unfold ginv. cbn [bc hist rsubs].
      split; [apply (Inv_step (bc s) (Consume (N.of_nat j))); [exact HI|exact Hupd]|].
      split; [now destruct (upd_state_nth _ _ _ _ 0%nat Hupd) as [-> _]|]. split; [exact Hu|].
      intros k rk Hk. destruct (Hr _ _ Hk) as (Hbk & Hlk & Hck). split; [|now split].
      destruct (Nat.eq_dec k i) as [->|Nk].
      + rewrite Hi in Hk. injection Hk as <-.
        eapply binv_frame; [| |exact Hbk]; [lia|]. intros j' b Hj' Hn. rewrite Hj in Hj'. injection Hj' as <-.
        destruct (upd_state_nth _ _ _ _ j Hupd) as [_ Hnj]. rewrite Nat2N.id, Nat.eqb_refl, Hn in Hnj.
        destruct (sub_consume b) as [b'|] eqn:Hcons.
        * destruct (consume_view _ _ Hcons) as (x & q & _ & _ & Hc' & Hs' & Ha' & Ha & _).
          exists b'. split; [exact Hnj|]. split; [exact Hs'|]. right. right. split; [exact Hrm|]. split; [congruence|]. now exists [x].
        * exfalso. unfold upd_state in Hupd. destruct (upd (subs (bc s)) (N.to_nat (N.of_nat j)) sub_consume) as [l|] eqn:Hup; [|discriminate].
          injection Hupd as <-. cbn [subs] in Hnj.
          pose proof (nth_error_upd _ _ _ _ j Hup) as Hx. rewrite Nat2N.id, Nat.eqb_refl, Hn, Hcons in Hx.
          assert (nth_error (subs (bc s)) j <> None) as Hsome by congruence. apply nth_error_Some in Hsome.
          assert (length l = length (subs (bc s))) as Hll.
          { clear -Hup. revert Hup. generalize (N.to_nat (N.of_nat j)) as k. revert l. induction (subs (bc s)) as [|x r IH]; intros l k H; [destruct k; discriminate|].
            destruct k; cbn [upd] in H.
            - destruct (sub_consume x); [|discriminate]. injection H as <-. reflexivity.
            - destruct (upd r k sub_consume) eqn:Hr; [|discriminate]. injection H as <-. cbn [length]. f_equal. eauto. }
          rewrite <- Hll in Hsome. apply nth_error_Some in Hsome. congruence.
      + eapply binv_other; [exact Hupd| |exact Hbk]. rewrite Nat2N.id. intros Hkj. apply Nk. eapply Hu; eauto.
    - (* the connection of a remote subscriber is cut *)
      destruct (upd_nth (rsubs s) i _) as [l|] eqn:Hup; [|discriminate]. injection Hs as <-.
      unfold ginv. cbn [bc hist rsubs]. split; [exact HI|]. split; [exact Hlen|]. split.
      + intros i1 i2 r1 r2 j H1 H2 Hj1 Hj2.
        rewrite (nth_error_upd_nth _ _ _ _ i1 Hup) in H1. rewrite (nth_error_upd_nth _ _ _ _ i2 Hup) in H2.
        assert (Hx : forall k rk, (if Nat.eqb k i then match nth_error (rsubs s) i with
                      | Some r => if r_remote r && negb (r_stopped r) && match r_fault r with None => true | Some _ => false end
                                  then Some (set_sub I r (r_init r) (r_events r) (r_sdone r) (r_taken r) (Some (ni, nw))) else None
                      | None => None end else nth_error (rsubs s) k) = Some rk -> r_bidx rk = Some j ->
                    exists rk0, nth_error (rsubs s) k = Some rk0 /\ r_bidx rk0 = Some j).
        { intros k rk Hk Hjk. destruct (Nat.eqb_spec k i) as [->|Nk]; [|eauto].
          destruct (nth_error (rsubs s) i) as [r|]; [|discriminate].
          destruct (r_remote r && negb (r_stopped r) && match r_fault r with None => true | Some _ => false end); [|discriminate].
          injection Hk as <-. exists r. split; [reflexivity|exact Hjk]. }
        destruct (Hx _ _ H1 Hj1) as (q1 & Hq1 & Hq1j). destruct (Hx _ _ H2 Hj2) as (q2 & Hq2 & Hq2j). eapply Hu; eauto.
      + intros k rk Hk. rewrite (nth_error_upd_nth _ _ _ _ k Hup) in Hk.
        destruct (Nat.eqb_spec k i) as [->|Nk]; [|eauto].
        destruct (nth_error (rsubs s) i) as [r|] eqn:Hi; [|discriminate].
        destruct (r_remote r && negb (r_stopped r) && match r_fault r with None => true | Some _ => false end); [|discriminate].
        injection Hk as <-. apply set_sub_fault_inv. eauto.
    - (* re-admission task: marker *)
      destruct (Broadcast.step (bc s) (Readmit1 j)) as [b1|] eqn:Hb1; [|discriminate]. injection Hs as <-.
      unfold ginv. cbn [bc hist rsubs]. split; [eapply Inv_step; eauto|]. cbn [Broadcast.step] in Hb1.
      split; [now destruct (upd_state_nth _ _ _ _ 0%nat Hb1) as [-> _]|]. split; [exact Hu|].
      intros k rk Hk. destruct (Hr _ _ Hk) as (Hbk & Hlk & Hck). split; [|now split].
      eapply binv_upd; [exact Hb1|apply view_readmit1|exact Hbk].
    - (* re-admission task: permit and hand-back *)
      destruct (Broadcast.step (bc s) (Readmit2 j)) as [b1|] eqn:Hb1; [|discriminate]. injection Hs as <-.
      unfold ginv. cbn [bc hist rsubs]. split; [eapply Inv_step; eauto|]. cbn [Broadcast.step] in Hb1.
      split; [now destruct (upd_state_nth _ _ _ _ 0%nat Hb1) as [-> _]|]. split; [exact Hu|].
      intros k rk Hk. destruct (Hr _ _ Hk) as (Hbk & Hlk & Hck). split; [|now split].
      eapply binv_upd; [exact Hb1|apply view_readmit2|exact Hbk].
    - (* re-admission task: permit released *)
      destruct (Broadcast.step (bc s) (Release j)) as [b1|] eqn:Hb1; [|discriminate]. injection Hs as <-.
      unfold ginv. cbn [bc hist rsubs]. split; [eapply Inv_step; eauto|]. cbn [Broadcast.step] in Hb1.
      split; [now destruct (upd_state_nth _ _ _ _ 0%nat Hb1) as [-> _]|]. split; [exact Hu|].
      intros k rk Hk. destruct (Hr _ _ Hk) as (Hbk & Hlk & Hck). split; [|now split].
      eapply binv_upd; [exact Hb1|apply view_release|exact Hbk].
    - (* a subscriber is dropped *)
      destruct (nth_error (rsubs s) i) as [r|] eqn:Hi; [|discriminate]. destruct (r_stopped r) eqn:Hst; [discriminate|].
      destruct (upd_nth (rsubs s) i _) as [l|] eqn:Hup; [|discriminate].
      set (r' := set_cons I r (r_log r) (r_m r) (r_err r) true).
      destruct (Hr _ _ Hi) as (Hb & Hl & Hc).
      assert (Hr' : forall h b0, binv h b0 r -> binv h b0 r' /\ linv (hist s) r' /\ cinv r').
      { intros h b0 Hb0. repeat split.
        - unfold binv, r', set_cons in *. prj. destruct (r_bidx r); [|exact Hb0].
          destruct Hb0 as (b & H1 & H2 & H3 & H4 & H5 & H6). exists b. repeat split; auto; discriminate.
        - unfold linv, r', set_cons in *. prj. exact Hl.
        - pose proof (cinv_none _ Hc Hst) as He. unfold cinv, applied, r', set_cons in *. prj. rewrite He in *. exact Hc. }
      assert (Huniq : uniq l).
      { intros i1 i2 r1 r2 j H1 H2 Hj1 Hj2.
        rewrite (nth_error_upd_nth _ _ _ _ i1 Hup) in H1. rewrite (nth_error_upd_nth _ _ _ _ i2 Hup) in H2. rewrite Hi in H1, H2.
        destruct (Nat.eqb_spec i1 i) as [->|N1]; destruct (Nat.eqb_spec i2 i) as [->|N2]; try reflexivity.
        - injection H1 as <-. eapply Hu; eauto.
        - injection H2 as <-. eapply Hu; eauto.
        - eapply Hu; eauto. }
      destruct (r_bidx r) as [j|] eqn:Hj.
      + destruct (upd_state (bc s) (N.of_nat j) sub_drop) as [b1|] eqn:Hupd; [|discriminate]. injection Hs as <-.
        unfold ginv. cbn [bc hist rsubs].
        split; [apply (Inv_step (bc s) (Drop (N.of_nat j))); [exact HI|exact Hupd]|].
        split; [now destruct (upd_state_nth _ _ _ _ 0%nat Hupd) as [-> _]|]. split; [exact Huniq|].
        intros k rk Hk. rewrite (nth_error_upd_nth _ _ _ _ k Hup), Hi in Hk.
        destruct (Nat.eqb_spec k i) as [->|Nk].
        * injection Hk as <-. destruct (Hr' _ _ Hb) as (Hb' & Hl' & Hc'). split; [|now split].
          eapply binv_frame; [| |exact Hb']; [lia|]. intros j' b Hj' Hn.
          assert (j' = j) as -> by (unfold set_cons in Hj'; prj; congruence).
          destruct (upd_state_nth _ _ _ _ j Hupd) as [_ Hnj]. rewrite Nat2N.id, Nat.eqb_refl, Hn in Hnj.
          destruct (sub_drop b) as [b'|] eqn:Hd.
          -- destruct (drop_view _ _ Hd) as [Hs' Hc'']. exists b'. split; [exact Hnj|]. split; [exact Hs'|].
             right. left. split; [reflexivity|]. exists []. now rewrite app_nil_r.
          -- exfalso. unfold binv in Hb. rewrite Hj in Hb. destruct Hb as (b_ & Hn_ & _ & _ & _ & _ & Hal).
             rewrite Hn in Hn_. injection Hn_ as <-. destruct (Hal Hst) as [Ha _]. unfold sub_drop in Hd. rewrite Ha in Hd. discriminate.
        * destruct (Hr _ _ Hk) as (Hbk & Hlk & Hck). split; [|now split].
          eapply binv_other; [exact Hupd| |exact Hbk]. rewrite Nat2N.id. intros Hkj. apply Nk. eapply Hu; eauto.
      + injection Hs as <-. unfold ginv. cbn [bc hist rsubs]. split; [exact HI|]. split; [exact Hlen|]. split; [exact Huniq|].
        intros k rk Hk. rewrite (nth_error_upd_nth _ _ _ _ k Hup), Hi in Hk.
        destruct (Nat.eqb_spec k i) as [->|Nk]; [injection Hk as <-; now apply Hr'|eauto].
  Qed.

  Lemma ginv_run acts : forall s s', ginv s -> run I acts s = Some s' -> ginv s'.
  Proof.
    induction acts as [|a r IH]; intros s s' H Hr; cbn [run] in Hr.
    - now injection Hr as <-.
    - destruct (step I s a) as [s1|] eqn:Hs; [|discriminate]. eapply IH; [|exact Hr]. eapply ginv_step; eauto.
  Qed.

  (** *** consequences *)
  Lemma firstn_app_len {A} (l1 l2 : list A) n : firstn (length l1 + n) (l1 ++ l2) = l1 ++ firstn n l2.
  Proof. rewrite firstn_app. replace (length l1 + n - length l1)%nat with n by lia. rewrite firstn_all2 by lia. reflexivity. Qed.

  Lemma log_prefix h b0 r :
    binv h b0 r -> linv h r ->
    evs_of I (r_log r) = firstn (length (evs_of I (r_log r))) (expected I h r).
  Proof.
    intros Hb (A0 & Ha & Hev & Hne). unfold expected. rewrite Hev, Ha.
    destruct (r_init r) as [|e0 rest] eqn:Hi.
    - rewrite app_nil_r. rewrite app_length, firstn_app_len. f_equal.
      destruct (r_bidx r).
      + rewrite firstn_length. destruct (Nat.min_spec (r_taken r) (length (skipn (r_start r) h))) as [[_ ->]|[Hle ->]]; [reflexivity|].
        now rewrite !firstn_all2 by lia.
      + destruct (r_sdone r); reflexivity.
    - destruct (Hne ltac:(discriminate)) as [Ht Hs]. rewrite Ht, Hs.
      replace (match r_bidx r with Some _ => firstn 0 (skipn (r_start r) h) | None => [] end) with (@nil E) by (destruct (r_bidx r); reflexivity).
      rewrite app_nil_r. rewrite <- app_assoc. rewrite <- (Nat.add_0_r (length A0)), firstn_app_len. cbn [firstn]. now rewrite app_nil_r.
  Qed.

  (** C14, safety: in every reachable state every subscriber has been given a gap-free prefix of the
      events it is entitled to, and its consumer has either applied exactly those (no error), or
      stopped at the first error holding the state it had then. *)
  Lemma flagged c0 acts s i r :
    run I acts (init_state I c0) = Some s -> nth_error (rsubs s) i = Some r ->
    let L := evs_of I (r_log r) in
    L = firstn (length L) (expected I (hist s) r) /\
    match r_err r with
    | None => r_log r = map REv L /\ applied I r L (r_m r)
    | Some c =>
        r_stopped r = true /\
        ((r_log r = map REv L ++ [RErr c] /\ applied I r L (r_m r)) \/
         (r_mirror r = true /\ r_log r = map REv L /\
          exists L' e m' err, L = L' ++ [e] /\ hfold I (r_m0 r) L' = Some m' /\
                              i_handle I m' e = (r_m r, Some err) /\ i_cls I err = c))
    end.
  Proof.
    intros Hrun Hn. pose proof (ginv_run _ _ _ (ginv_init c0) Hrun) as (_ & _ & _ & Hr).
    destruct (Hr _ _ Hn) as (Hb & Hl & Hc). split; [eapply log_prefix; eauto|exact Hc].
  Qed.

  (** a subscriber that has stopped (error, [Done] reached, or dropped) is never touched again *)
  Lemma stopped_frozen s a s' i r :
    step I s a = Some s' -> nth_error (rsubs s) i = Some r -> r_stopped r = true ->
    nth_error (rsubs s') i = Some r.
  Proof.
    intros Hs Hn Hst. destruct a as [o| | |mi rm incr cap mx|k|k|k ni nw|j|j|j|k]; cbn [step] in Hs.
    - destruct (coll s); [|discriminate]. destruct (to_emit s); [|discriminate].
      destruct (i_apply I i0 o) as [[c' evs]|]; [|discriminate]. now injection Hs as <-.
    - destruct (coll s); [|discriminate]. destruct (to_emit s); [discriminate|]. now injection Hs as <-.
    - destruct (coll s); [|discriminate]. destruct (to_emit s); [|discriminate]. now injection Hs as <-.
    - destruct (coll s); [|discriminate]. destruct (to_emit s); [|discriminate].
      assert (Hlt : (i < length (rsubs s))%nat) by (apply nth_error_Some; congruence).
      destruct (i_cdone I i0).
      + injection Hs as <-. cbn [rsubs]. now rewrite nth_error_app1.
      + destruct (Broadcast.step (bc s) (Subscribe cap)); [|discriminate]. injection Hs as <-. cbn [rsubs]. now rewrite nth_error_app1.
    - destruct (nth_error (rsubs s) k) as [rk|] eqn:Hk; [|discriminate].
      destruct (recv_sub I (bc s) (hist s) _ rk) as [[b1 r']|] eqn:Hrecv; [|discriminate].
      destruct (upd_nth (rsubs s) k (fun _ => Some r')) as [l|] eqn:Hup; [|discriminate]. injection Hs as <-. cbn [rsubs].
      rewrite (nth_error_upd_nth _ _ _ _ i Hup). destruct (Nat.eqb_spec i k) as [->|Nk]; [|exact Hn].
      rewrite Hn in Hk. injection Hk as <-. unfold recv_sub in Hrecv. rewrite Hst in Hrecv. discriminate.
    - destruct (nth_error (rsubs s) k) as [rk|]; [|discriminate].
      destruct (r_remote rk); [|discriminate]. destruct (r_fault rk); [discriminate|]. destruct (r_bidx rk); [|discriminate].
      destruct (upd_state (bc s) (N.of_nat n) sub_consume); [|discriminate]. now injection Hs as <-.
    - destruct (upd_nth (rsubs s) k _) as [l|] eqn:Hup; [|discriminate]. injection Hs as <-. cbn [rsubs].
      rewrite (nth_error_upd_nth _ _ _ _ i Hup). destruct (Nat.eqb_spec i k) as [->|Nk]; [|exact Hn].
      exfalso. pose proof (nth_error_upd_nth _ _ _ _ k Hup) as Hx. rewrite Nat.eqb_refl, Hn, Hst in Hx.
      rewrite andb_false_r in Hx. cbn [andb] in Hx.
      assert (nth_error l k <> None) as Hsome.
      { apply nth_error_Some. rewrite (upd_nth_length _ _ _ _ Hup). apply nth_error_Some. congruence. }
      congruence.
    - destruct (Broadcast.step (bc s) (Readmit1 j)); [|discriminate]. now injection Hs as <-.
    - destruct (Broadcast.step (bc s) (Readmit2 j)); [|discriminate]. now injection Hs as <-.
    - destruct (Broadcast.step (bc s) (Release j)); [|discriminate]. now injection Hs as <-.
    - destruct (nth_error (rsubs s) k) as [rk|] eqn:Hk; [|discriminate]. destruct (r_stopped rk) eqn:Hsk; [discriminate|].
      destruct (upd_nth (rsubs s) k _) as [l|] eqn:Hup; [|discriminate].
      assert (Hne : i <> k) by (intros ->; congruence).
      assert (Hl : nth_error l i = Some r).
      { rewrite (nth_error_upd_nth _ _ _ _ i Hup). destruct (Nat.eqb_spec i k); [contradiction|exact Hn]. }
      destruct (r_bidx rk); [destruct (upd_state (bc s) (N.of_nat n) sub_drop); [|discriminate]|]; now injection Hs as <-.
  Qed.

  Lemma sticky acts : forall s s' i r,
    run I acts s = Some s' -> nth_error (rsubs s) i = Some r -> r_stopped r = true ->
    nth_error (rsubs s') i = Some r.
  Proof.
    induction acts as [|a rest IH]; intros s s' i r Hr Hn Hst; cbn [run] in Hr.
    - now injection Hr as <-.
    - destruct (step I s a) as [s1|] eqn:Hs; [|discriminate].
      eapply IH; [exact Hr| |exact Hst]. eapply stopped_frozen; eauto.
  Qed.

  (** an error, once stored, is reported from then on with the same contents *)
  Lemma error_sticky c0 acts1 acts2 s1 s2 i r c :
    run I acts1 (init_state I c0) = Some s1 -> nth_error (rsubs s1) i = Some r -> r_err r = Some c ->
    run I acts2 s1 = Some s2 -> nth_error (rsubs s2) i = Some r.
  Proof.
    intros H1 Hn He H2. destruct (flagged _ _ _ _ _ H1 Hn) as [_ Hc]. rewrite He in Hc.
    eapply sticky; eauto. tauto.
  Qed.

  (** a consumer by hand: what [recv] returned is a gap-free prefix of the expected events, followed
      by the error if there was one (and then nothing) *)
  Lemma hand_log c0 acts s i r :
    run I acts (init_state I c0) = Some s -> nth_error (rsubs s) i = Some r -> r_mirror r = false ->
    exists n, r_log r = map REv (firstn n (expected I (hist s) r)) ++
                        match r_err r with None => [] | Some c => [RErr c] end.
  Proof.
    intros Hrun Hn Hm. destruct (flagged _ _ _ _ _ Hrun Hn) as [Hp Hc]. cbv zeta in *.
    exists (length (evs_of I (r_log r))). rewrite <- Hp.
    destruct (r_err r) as [c|].
    - destruct Hc as (_ & [[Hl _]|(Hm' & _)]); [exact Hl|congruence].
    - destruct Hc as [Hl _]. now rewrite app_nil_r.
  Qed.
End Proofs.
