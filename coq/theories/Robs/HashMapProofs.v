(** Proofs about the observable-hash-map model: replaying the events an operation emits on a copy
    of the map reproduces the map (unless a [retain] closure silently changed a kept value, F4);
    the mirror task and a hand-written consumer therefore end with the observed contents. *)
From Remoc Require Import Lib.Base Robs.KeyMap Robs.KeyMapProofs Robs.HashMap.

(** events that carry contents (everything but [Done] / [InitialComplete]) *)
Definition data_ev (e : event) : bool := negb (is_done_ev e || is_complete_ev e).
Definition data (evs : list event) : Prop := forallb data_ev evs = true.

(** largest size a copy of the map goes through while the events are applied to it *)
Fixpoint peak (m : hmap) (evs : list event) : N :=
  match evs with
  | [] => len m
  | e :: r => N.max (len m) (peak (apply_event m e) r)
  end.

Lemma replay_app m a b : replay m (a ++ b) = replay (replay m a) b.
Proof. unfold replay. apply fold_left_app. Qed.

Lemma peak_ge m evs : len m <= peak m evs.
Proof. destruct evs; cbn [peak]; lia. Qed.

Lemma peak_app a : forall m b, peak m (a ++ b) = N.max (peak m a) (peak (replay m a) b).
Proof.
  induction a as [|e a IH]; intros m b; cbn [app peak].
  - change (replay m []) with m. pose proof (peak_ge m b). lia.
  - rewrite IH. change (replay m (e :: a)) with (replay (apply_event m e) a). lia.
Qed.

Lemma data_app a b : data (a ++ b) <-> data a /\ data b.
Proof. unfold data. rewrite forallb_app, andb_true_iff. reflexivity. Qed.

Lemma data_nil : data []. Proof. reflexivity. Qed.

(** ** Trace shapes: replay reproduces the result; sizes stay / grow / shrink monotonically *)
Definition tr (m : hmap) (evs : list event) (m' : hmap) : Prop :=
  wf m' /\ replay m evs = m' /\ data evs.
Definition flat m evs m' := tr m evs m' /\ len m' = len m /\ peak m evs <= len m.
Definition up m evs m' := tr m evs m' /\ len m <= len m' /\ peak m evs <= len m'.
Definition down m evs m' := tr m evs m' /\ len m' <= len m /\ peak m evs <= len m.
Definition good m evs m' := tr m evs m' /\ peak m evs <= N.max (len m) (len m').

Lemma tr_app m e1 m1 e2 m2 : tr m e1 m1 -> tr m1 e2 m2 -> tr m (e1 ++ e2) m2.
Proof.
  intros (_ & R1 & D1) (W2 & R2 & D2). split; [exact W2|]. split.
  - rewrite replay_app, R1. exact R2.
  - apply data_app. auto.
Qed.

Lemma flat_nil m : wf m -> flat m [] m.
Proof. intros W. repeat split; auto. cbn [peak]. lia. Qed.

Ltac comp_tac :=
  match goal with
  | [ H1 : tr ?m ?e1 ?m1, H2 : tr ?m1 ?e2 ?m2 |- _ ] =>
      split; [exact (tr_app _ _ _ _ _ H1 H2)|];
      destruct H1 as (_ & R1 & _); rewrite ?peak_app, ?R1; lia
  end.

Lemma flat_flat m e1 m1 e2 m2 : flat m e1 m1 -> flat m1 e2 m2 -> flat m (e1 ++ e2) m2.
Proof. intros (T1 & L1 & P1) (T2 & L2 & P2). unfold flat. comp_tac. Qed.
Lemma flat_down m e1 m1 e2 m2 : flat m e1 m1 -> down m1 e2 m2 -> down m (e1 ++ e2) m2.
Proof. intros (T1 & L1 & P1) (T2 & L2 & P2). unfold down. comp_tac. Qed.
Lemma flat_up m e1 m1 e2 m2 : flat m e1 m1 -> up m1 e2 m2 -> up m (e1 ++ e2) m2.
Proof. intros (T1 & L1 & P1) (T2 & L2 & P2). unfold up. comp_tac. Qed.
Lemma up_flat m e1 m1 e2 m2 : up m e1 m1 -> flat m1 e2 m2 -> up m (e1 ++ e2) m2.
Proof. intros (T1 & L1 & P1) (T2 & L2 & P2). unfold up. comp_tac. Qed.
Lemma flat_good m e1 m1 e2 m2 : flat m e1 m1 -> good m1 e2 m2 -> good m (e1 ++ e2) m2.
Proof. intros (T1 & L1 & P1) (T2 & P2). unfold good. comp_tac. Qed.

Lemma flat_to_up m e m' : flat m e m' -> up m e m'.
Proof. intros (T & L & P). unfold up. split; [exact T|]. lia. Qed.
Lemma flat_to_down m e m' : flat m e m' -> down m e m'.
Proof. intros (T & L & P). unfold down. split; [exact T|]. lia. Qed.
Lemma up_good m e m' : up m e m' -> good m e m'.
Proof. intros (T & L & P). unfold good. split; [exact T|]. lia. Qed.
Lemma down_good m e m' : down m e m' -> good m e m'.
Proof. intros (T & L & P). unfold good. split; [exact T|]. lia. Qed.
Lemma flat_to_good m e m' : flat m e m' -> good m e m'.
Proof. intros H. apply up_good, flat_to_up, H. Qed.

Lemma andthen_fst r f : fst (andthen r f) = fst (f (fst r)).
Proof. destruct r as [m1 e1]. cbn [andthen fst]. destruct (f m1). reflexivity. Qed.
Lemma andthen_snd r f : snd (andthen r f) = snd r ++ snd (f (fst r)).
Proof. destruct r as [m1 e1]. cbn [andthen fst snd]. destruct (f m1). reflexivity. Qed.

(** ** single events *)
Lemma set_present_flat k v m : wf m -> lookup k m <> None -> flat m [ESet k v] (ins k v m).
Proof.
  intros W Hp. pose proof (length_ins_present k v m W Hp) as HL.
  repeat split; [apply wf_ins; exact W|unfold len; lia|].
  cbn [peak apply_event]. unfold len. lia.
Qed.

Lemma set_up k v m : wf m -> up m [ESet k v] (ins k v m).
Proof.
  intros W. pose proof (length_ins_le k v m) as HL.
  repeat split; [apply wf_ins; exact W|unfold len; lia|].
  cbn [peak apply_event]. unfold len. lia.
Qed.

Lemma remove_down k m : wf m -> down m [ERemove k] (del k m).
Proof.
  intros W. pose proof (length_del_le k m) as HL.
  repeat split; [apply wf_del; exact W|unfold len; lia|].
  cbn [peak apply_event]. unfold len. lia.
Qed.

(** ** the pieces of the API *)
Lemma ref_access_flat k a m : wf m -> flat m (snd (ref_access k a m)) (fst (ref_access k a m)).
Proof.
  intros W. unfold ref_access. destruct (lookup k m) as [c|] eqn:E; [|apply flat_nil, W].
  destruct a as [| |v]; cbn [fst snd].
  - apply flat_nil, W.
  - rewrite <- (ins_lookup_id k c m W E) at 2. apply set_present_flat; [exact W|congruence].
  - apply set_present_flat; [exact W|congruence].
Qed.

Lemma ref_access_present k a m :
  lookup k m <> None -> lookup k (fst (ref_access k a m)) <> None.
Proof.
  intros Hp. unfold ref_access. destruct (lookup k m) as [c|] eqn:E; [|congruence].
  destruct a as [| |v]; cbn [fst]; try congruence. rewrite lookup_ins_same. discriminate.
Qed.

Lemma and_modify_flat k mods : forall m, wf m ->
  flat m (snd (and_modify k mods m)) (fst (and_modify k mods m)).
Proof.
  induction mods as [|w r IH]; intros m W; cbn [and_modify].
  - apply flat_nil, W.
  - rewrite andthen_fst, andthen_snd.
    pose proof (ref_access_flat k (match w with Some v => AWrite v | None => ATouch end) m W) as H1.
    eapply flat_flat; [exact H1|]. apply IH. apply H1.
Qed.

Lemma vac_insert_up k v a m : wf m ->
  up m (snd (vac_insert k v a m)) (fst (vac_insert k v a m)).
Proof.
  intros W. unfold vac_insert. rewrite andthen_fst, andthen_snd. cbn [fst snd].
  eapply up_flat; [apply set_up, W|]. apply ref_access_flat, wf_ins, W.
Qed.

Lemma or_insert_up k v a m : wf m ->
  up m (snd (or_insert k v a m)) (fst (or_insert k v a m)).
Proof.
  intros W. unfold or_insert. destruct (lookup k m).
  - apply flat_to_up, ref_access_flat, W.
  - apply vac_insert_up, W.
Qed.

Lemma occ_step_flat k s m : wf m -> lookup k m <> None ->
  flat m (snd (occ_step_run k s m)) (fst (occ_step_run k s m)) /\
  lookup k (fst (occ_step_run k s m)) <> None.
Proof.
  intros W Hp. destruct s as [a|v]; cbn [occ_step_run].
  - split; [apply ref_access_flat, W|apply ref_access_present, Hp].
  - cbn [fst snd]. split; [apply set_present_flat; assumption|]. rewrite lookup_ins_same. discriminate.
Qed.

Lemma occ_steps_flat k sts : forall m, wf m -> lookup k m <> None ->
  flat m (snd (occ_steps k sts m)) (fst (occ_steps k sts m)) /\
  lookup k (fst (occ_steps k sts m)) <> None.
Proof.
  induction sts as [|s r IH]; intros m W Hp; cbn [occ_steps].
  - split; [apply flat_nil, W|exact Hp].
  - rewrite andthen_fst, andthen_snd.
    destruct (occ_step_flat k s m W Hp) as [H1 H2].
    destruct (IH (fst (occ_step_run k s m))) as [H3 H4]; [apply H1|exact H2|].
    split; [eapply flat_flat; eassumption|exact H4].
Qed.

Lemma occ_final_down k f m : wf m ->
  down m (snd (occ_final_run k f m)) (fst (occ_final_run k f m)).
Proof.
  intros W. destruct f as [| | |a]; cbn [occ_final_run fst snd].
  - apply flat_to_down, flat_nil, W.
  - apply remove_down, W.
  - apply remove_down, W.
  - apply flat_to_down, ref_access_flat, W.
Qed.

Lemma vac_run_up k u m : wf m -> up m (snd (vac_run k u m)) (fst (vac_run k u m)).
Proof.
  intros W. destruct u as [| |v a]; cbn [vac_run fst snd].
  - apply flat_to_up, flat_nil, W.
  - apply flat_to_up, flat_nil, W.
  - apply vac_insert_up, W.
Qed.

Lemma entry_final_good k u m : wf m ->
  good m (snd (entry_final_run k u m)) (fst (entry_final_run k u m)).
Proof.
  intros W. destruct u as [|v a|v a|v a|a|sts f vac]; cbn [entry_final_run].
  - apply flat_to_good, flat_nil, W.
  - apply up_good, or_insert_up, W.
  - apply up_good, or_insert_up, W.
  - apply up_good, or_insert_up, W.
  - apply up_good, or_insert_up, W.
  - destruct (lookup k m) eqn:E.
    + rewrite andthen_fst, andthen_snd.
      destruct (occ_steps_flat k sts m W) as [H1 _]; [congruence|].
      apply down_good. eapply flat_down; [exact H1|]. apply occ_final_down. apply H1.
    + apply up_good, vac_run_up, W.
Qed.

Lemma iter_mut_flat uses : forall seen m, wf m ->
  flat m (snd (iter_mut_go seen uses m)) (fst (iter_mut_go seen uses m)).
Proof.
  induction uses as [|[k a] r IH]; intros seen m W; cbn [iter_mut_go].
  - apply flat_nil, W.
  - destruct (existsb (N.eqb k) seen).
    + apply IH, W.
    + rewrite andthen_fst, andthen_snd.
      pose proof (ref_access_flat k a m W) as H1.
      eapply flat_flat; [exact H1|]. apply IH. apply H1.
Qed.

(** ** retain *)
Lemma retain_go_all_gt f k0 es : all_gt k0 es -> all_gt k0 (fst (retain_go f es)).
Proof.
  induction es as [|[k v] r IH]; intros H; cbn [retain_go]; [exact H|].
  apply all_gt_cons in H. destruct H as [H1 H2]. specialize (IH H2).
  destruct (retain_go f r) as [m' evs]. cbn [fst] in *.
  destruct (d_keep (f k)); cbn [fst]; [|exact IH]. apply all_gt_cons. auto.
Qed.

Lemma retain_go_wf f es : wf es -> wf (fst (retain_go f es)).
Proof.
  induction es as [|[k v] r IH]; intros H; cbn [retain_go]; [exact I|].
  destruct H as [H1 H2]. specialize (IH H2).
  pose proof (retain_go_all_gt f k r H1) as HG.
  destruct (retain_go f r) as [m' evs]. cbn [fst] in *.
  destruct (d_keep (f k)); cbn [fst]; [|exact IH]. apply wf_cons. auto.
Qed.

(** without a silent write, [retain] only removes, and the [Remove] events replay it *)
Lemma retain_go_down f es : forall p, wf (p ++ es) -> retain_silent f es = false ->
  down (p ++ es) (snd (retain_go f es)) (p ++ fst (retain_go f es)).
Proof.
  induction es as [|[k v] r IH]; intros p W S; cbn [retain_go].
  - cbn [fst snd]. apply flat_to_down, flat_nil, W.
  - unfold retain_silent in S. cbn [existsb fst snd] in S. apply orb_false_iff in S. destruct S as [S1 S2].
    fold (retain_silent f r) in S2.
    destruct (retain_go f r) as [m' evs] eqn:ER. cbn [fst snd] in *.
    destruct (d_keep (f k)) eqn:EK; cbn [fst snd].
    + (* kept: the value is unchanged *)
      assert (Hv : match d_acc (f k) with AWrite w => w | _ => v end = v).
      { cbn [andb] in S1. destruct (d_acc (f k)) as [| |w]; try reflexivity.
        apply negb_false_iff in S1. lia. }
      rewrite Hv.
      replace (p ++ (k, v) :: r) with ((p ++ [(k, v)]) ++ r) by (rewrite <- app_assoc; reflexivity).
      replace (p ++ (k, v) :: m') with ((p ++ [(k, v)]) ++ m') by (rewrite <- app_assoc; reflexivity).
      specialize (IH (p ++ [(k, v)])). cbn [fst snd] in IH. apply IH; [|exact S2].
      rewrite <- app_assoc. exact W.
    + (* removed: [Remove k], whatever the closure wrote *)
      pose proof (wf_app_remove_mid p (k, v) r W) as W'.
      specialize (IH p W' S2). cbn [fst snd] in IH.
      destruct IH as ((W2 & R2 & D2) & L2 & P2).
      assert (Hdel : del k (p ++ (k, v) :: r) = p ++ r).
      { apply del_app_mid. apply lt_neq_prefix. eapply wf_app_lt. exact W. }
      assert (Hlen : len (p ++ r) <= len (p ++ (k, v) :: r)).
      { unfold len. rewrite !app_length. cbn [length]. lia. }
      repeat split.
      * exact W2.
      * change (replay (p ++ (k, v) :: r) (ERemove k :: evs)) with (replay (del k (p ++ (k, v) :: r)) evs).
        rewrite Hdel. exact R2.
      * unfold data in *. cbn [forallb]. rewrite D2. reflexivity.
      * lia.
      * cbn [peak apply_event]. rewrite Hdel. lia.
Qed.

Lemma retain_down dflt ds m : wf m -> retain_silent (decide dflt ds) m = false ->
  down m (snd (retain_go (decide dflt ds) m)) (fst (retain_go (decide dflt ds) m)).
Proof. intros W S. exact (retain_go_down (decide dflt ds) m [] W S). Qed.

(** ** every mutator *)
Theorem mutate_good m o : wf m -> op_silent m o = false ->
  good m (snd (mutate m o)) (fst (mutate m o)).
Proof.
  intros W S. destruct o as [|k v|k| |dflt ds|k mods u|k a|uses| |]; cbn [mutate].
  - apply flat_to_good, flat_nil, W.
  - apply up_good, set_up, W.
  - destruct (lookup k m); cbn [fst snd].
    + apply down_good, remove_down, W.
    + apply flat_to_good, flat_nil, W.
  - destruct m as [|e m]; cbn [fst snd].
    + apply flat_to_good, flat_nil, W.
    + apply down_good. repeat split; try exact I.
      * unfold len. cbn [length]. lia.
      * cbn [peak apply_event]. unfold len. cbn [length]. lia.
  - apply down_good, retain_down; assumption.
  - rewrite andthen_fst, andthen_snd.
    pose proof (and_modify_flat k mods m W) as H1.
    eapply flat_good; [exact H1|]. apply entry_final_good. apply H1.
  - apply flat_to_good, ref_access_flat, W.
  - apply flat_to_good, iter_mut_flat, W.
  - cbn [fst snd]. apply flat_to_good. repeat split; try assumption.
    cbn [peak apply_event]. lia.
  - apply flat_to_good, flat_nil, W.
Qed.

Lemma mutate_wf m o : wf m -> wf (fst (mutate m o)).
Proof.
  intros W. destruct (op_silent m o) eqn:S.
  - destruct o; cbn [op_silent] in S; try discriminate. cbn [mutate]. apply retain_go_wf, W.
  - apply (mutate_good m o W S).
Qed.

(** ** Runs of operations *)
Definition is_done_op (o : op) : bool := match o with MarkDone => true | _ => false end.

Lemma step_done s o : o_done s = true -> step s o = (s, []).
Proof. intros D. unfold step, apply_op. rewrite D. destruct o; reflexivity. Qed.

Lemma step_live s o : o_done s = false -> is_done_op o = false ->
  step s o = ({| o_hm := fst (mutate (o_hm s) o); o_done := false |}, snd (mutate (o_hm s) o)).
Proof.
  intros D N0. destruct s as [hm d]. cbn [o_done o_hm] in *. subst d.
  unfold step, apply_op. cbn [o_done o_hm].
  destruct o; try discriminate; try reflexivity; cbn [mutate]; cbn [fst snd];
    match goal with |- context [let (_, _) := ?t in _] => destruct t; reflexivity end.
Qed.

Lemma step_mark_done s : o_done s = false ->
  step s MarkDone = ({| o_hm := o_hm s; o_done := true |}, [EDone]).
Proof. intros D. unfold step, apply_op. rewrite D. reflexivity. Qed.

Lemma run_ops_nil s : run_ops s [] = (s, []).
Proof. reflexivity. Qed.

Lemma run_ops_cons s o r :
  run_ops s (o :: r) =
  (fst (run_ops (fst (step s o)) r), snd (step s o) ++ snd (run_ops (fst (step s o)) r)).
Proof.
  unfold run_ops. cbn [run_trace]. destruct (step s o) as [s1 e]. cbn [fst snd].
  destruct (run_trace s1 r) as [t s2]. reflexivity.
Qed.

Lemma run_ops_done ops : forall s, o_done s = true -> run_ops s ops = (s, []).
Proof.
  induction ops as [|o r IH]; intros s D; [reflexivity|].
  rewrite run_ops_cons, (step_done s o D). cbn [fst snd]. rewrite (IH s D). reflexivity.
Qed.

Lemma run_ops_app a : forall s b,
  run_ops s (a ++ b) =
  (fst (run_ops (fst (run_ops s a)) b), snd (run_ops s a) ++ snd (run_ops (fst (run_ops s a)) b)).
Proof.
  induction a as [|o r IH]; intros s b.
  - rewrite run_ops_nil. cbn [app fst snd]. destruct (run_ops s b). reflexivity.
  - cbn [app]. rewrite !run_ops_cons, IH. cbn [fst snd]. rewrite app_assoc. reflexivity.
Qed.

Lemma step_wf s o : wf (o_hm s) -> wf (o_hm (fst (step s o))).
Proof.
  intros W. destruct (o_done s) eqn:D.
  - rewrite (step_done s o D). exact W.
  - destruct (is_done_op o) eqn:E.
    + destruct o; try discriminate. rewrite (step_mark_done s D). exact W.
    + rewrite (step_live s o D E). cbn [fst o_hm]. apply mutate_wf, W.
Qed.

Lemma run_ops_wf ops : forall s, wf (o_hm s) -> wf (o_hm (fst (run_ops s ops))).
Proof.
  induction ops as [|o r IH]; intros s W; [exact W|].
  rewrite run_ops_cons. cbn [fst]. apply IH, step_wf, W.
Qed.

Lemma fits_head max s ops : fits max s ops = true -> len (o_hm s) <= max.
Proof. destruct ops; cbn [fits]; intros H; apply andb_true_iff in H; lia. Qed.

(** What a live map broadcasts: content events that replay to the final contents, then [Done]
    iff [done()] was called; sizes along the way are bounded by the sizes between operations. *)
Lemma run_ops_live ops : forall s, o_done s = false -> wf (o_hm s) -> silent_free s ops = true ->
  exists pre,
    snd (run_ops s ops) = pre ++ (if o_done (fst (run_ops s ops)) then [EDone] else []) /\
    data pre /\
    replay (o_hm s) pre = o_hm (fst (run_ops s ops)) /\
    (forall max, fits max s ops = true -> peak (o_hm s) pre <= max).
Proof.
  induction ops as [|o r IH]; intros s D W S.
  - exists []. rewrite run_ops_nil. cbn [fst snd]. rewrite D. repeat split.
    intros max F. cbn [peak]. apply (fits_head max s [] F).
  - cbn [silent_free] in S. rewrite D in S. cbn [negb andb] in S.
    apply andb_true_iff in S. destruct S as [S1 S2]. apply negb_true_iff in S1.
    rewrite run_ops_cons.
    destruct (is_done_op o) eqn:E.
    + destruct o; try discriminate. rewrite (step_mark_done s D). cbn [fst snd].
      rewrite run_ops_done by reflexivity. cbn [fst snd o_done].
      exists []. repeat split.
      intros max F. cbn [peak]. apply (fits_head max s _ F).
    + rewrite (step_live s o D E) in *. cbn [fst snd] in *.
      pose proof (mutate_good (o_hm s) o W S1) as ((W1 & R1 & D1) & P1).
      set (s1 := {| o_hm := fst (mutate (o_hm s) o); o_done := false |}) in *.
      destruct (IH s1 eq_refl W1 S2) as (pre & Hs & Hd & Hr & Hp).
      exists (snd (mutate (o_hm s) o) ++ pre). repeat split.
      * rewrite Hs. rewrite app_assoc. reflexivity.
      * apply data_app. auto.
      * rewrite replay_app, R1. exact Hr.
      * intros max F. cbn [fits] in F. apply andb_true_iff in F. destruct F as [F1 F2].
        rewrite (step_live s o D E) in F2. cbn [fst] in F2. fold s1 in F2.
        pose proof (Hp max F2) as Hp2. pose proof (fits_head max s1 r F2) as Hh.
        cbn [s1 o_hm] in Hh, Hp2. rewrite peak_app, R1. lia.
Qed.

(** ** The incremental initial value *)
Lemma up_up m e1 m1 e2 m2 : up m e1 m1 -> up m1 e2 m2 -> up m (e1 ++ e2) m2.
Proof. intros (T1 & L1 & P1) (T2 & L2 & P2). unfold up. comp_tac. Qed.

Lemma initial_sets_up es : forall p, wf (p ++ es) ->
  up p (map (fun e => ESet (fst e) (snd e)) es) (p ++ es).
Proof.
  induction es as [|[k v] r IH]; intros p W.
  - rewrite app_nil_r in *. apply flat_to_up, flat_nil, W.
  - cbn [map fst snd].
    change (ESet k v :: map (fun e => ESet (fst e) (snd e)) r)
      with ([ESet k v] ++ map (fun e => ESet (fst e) (snd e)) r).
    assert (Hins : ins k v p = p ++ [(k, v)]).
    { apply ins_append. eapply wf_app_lt. exact W. }
    replace (p ++ (k, v) :: r) with ((p ++ [(k, v)]) ++ r) in * by (rewrite <- app_assoc; reflexivity).
    apply up_up with (m1 := p ++ [(k, v)]).
    + rewrite <- Hins. apply set_up. apply (wf_app_l p ([(k, v)] ++ r)). rewrite app_assoc. exact W.
    + apply IH. exact W.
Qed.

Lemma data_no_ctrl evs : data evs -> existsb is_done_ev evs = false /\ existsb is_complete_ev evs = false.
Proof.
  unfold data. induction evs as [|e r IH]; intros H; [split; reflexivity|].
  cbn [forallb existsb] in *. apply andb_true_iff in H. destruct H as [H1 H2].
  destruct (IH H2) as [I1 I2]. rewrite I1, I2.
  unfold data_ev in H1. apply negb_true_iff, orb_false_iff in H1. destruct H1 as [-> ->]. split; reflexivity.
Qed.

(** ** The mirror task *)
Lemma mirror_task_data evs : forall rest hm c mx, data evs -> peak hm evs <= mx ->
  mirror_task {| m_hm := hm; m_complete := c; m_done := false; m_max := mx |} (evs ++ rest)
  = mirror_task {| m_hm := replay hm evs; m_complete := c; m_done := false; m_max := mx |} rest.
Proof.
  induction evs as [|e r IH]; intros rest hm c mx Hd Hp; [reflexivity|].
  unfold data in Hd. cbn [forallb] in Hd. apply andb_true_iff in Hd. destruct Hd as [He Hd].
  cbn [peak] in Hp. pose proof (peak_ge (apply_event hm e) r) as Hge.
  change (replay hm (e :: r)) with (replay (apply_event hm e) r).
  cbn [app mirror_task].
  destruct e as [k v|k| | | |]; cbn [handle_event m_hm m_complete m_done m_max apply_event] in *; try discriminate.
  - destruct (mx <? len (ins k v hm)) eqn:E; [lia|]. apply IH; [exact Hd|lia].
  - apply IH; [exact Hd|lia].
  - apply IH; [exact Hd|lia].
  - apply IH; [exact Hd|lia].
Qed.

Theorem mirror_correct sk ops md max :
  wf (o_hm sk) -> silent_free sk ops = true -> fits max sk ops = true ->
  let r := mirror_task (mirror_init md sk max) (sub_stream md sk (snd (run_ops sk ops))) in
  snd r = None /\
  m_hm (fst r) = o_hm (fst (run_ops sk ops)) /\
  m_done (fst r) = o_done (fst (run_ops sk ops)) /\
  m_complete (fst r) = true.
Proof.
  intros W S F. cbv zeta. destruct (o_done sk) eqn:D.
  - (* subscribed after done(): nothing is broadcast any more *)
    rewrite (run_ops_done ops sk D). cbn [fst snd]. unfold mirror_init, sub_stream, initial_map. rewrite D.
    destruct md.
    + cbn. rewrite ?D. repeat split; reflexivity.
    + (* the mirror starts not done, applies the whole initial value, then [Done] *)
      pose proof (fits_head max sk ops F) as Hh.
      pose proof (initial_sets_up (o_hm sk) [] W) as ((_ & R0 & D0) & L0 & P0). cbn [app] in R0, L0, P0.
      rewrite <- app_assoc.
      rewrite (mirror_task_data _ _ [] false max D0) by lia. rewrite R0.
      cbn. rewrite ?D. repeat split; reflexivity.
  - destruct (run_ops_live ops sk D W S) as (pre & Hs & Hd & Hr & Hp).
    specialize (Hp max F). pose proof (fits_head max sk ops F) as Hh.
    unfold mirror_init, sub_stream, initial_map. rewrite D, Hs.
    destruct md.
    + cbn [app]. rewrite (mirror_task_data pre _ (o_hm sk) true max Hd Hp). rewrite Hr.
      destruct (o_done (fst (run_ops sk ops))); cbn; repeat split; reflexivity.
    + pose proof (initial_sets_up (o_hm sk) [] W) as ((_ & R0 & D0) & L0 & P0). cbn [app] in R0, L0, P0.
      rewrite <- app_assoc.
      rewrite (mirror_task_data _ _ [] false max D0) by lia. rewrite R0.
      cbn [app mirror_task handle_event m_hm m_complete m_done m_max].
      rewrite (mirror_task_data pre _ (o_hm sk) true max Hd Hp). rewrite Hr.
      destruct (o_done (fst (run_ops sk ops))); cbn; repeat split; reflexivity.
Qed.

(** ** Consuming the events by hand *)
Theorem hand_correct sk ops md :
  wf (o_hm sk) -> silent_free sk ops = true ->
  let st := sub_stream md sk (snd (run_ops sk ops)) in
  replay (initial_map md sk) st = o_hm (fst (run_ops sk ops)) /\
  existsb is_done_ev st = o_done (fst (run_ops sk ops)) /\
  match md with Snapshot => True | Incremental => existsb is_complete_ev st = true end.
Proof.
  intros W S. cbv zeta.
  pose proof (initial_sets_up (o_hm sk) [] W) as ((_ & R0 & D0) & _ & _). cbn [app] in R0.
  destruct (data_no_ctrl _ D0) as [N1 N2].
  destruct (o_done sk) eqn:D.
  - rewrite (run_ops_done ops sk D). cbn [fst snd]. unfold sub_stream, initial_map. rewrite D.
    destruct md.
    + cbn. rewrite ?D. repeat split; reflexivity.
    + rewrite !replay_app, R0. rewrite !existsb_app, N1, N2. cbn. rewrite ?D. repeat split; reflexivity.
  - destruct (run_ops_live ops sk D W S) as (pre & Hs & Hd & Hr & _).
    destruct (data_no_ctrl _ Hd) as [M1 M2].
    unfold sub_stream, initial_map. rewrite D, Hs.
    destruct md.
    + cbn [app]. rewrite replay_app, Hr, existsb_app, M1.
      destruct (o_done (fst (run_ops sk ops))); cbn; repeat split; reflexivity.
    + rewrite !replay_app, R0. change (replay (o_hm sk) [EInitialComplete]) with (o_hm sk).
      rewrite Hr. rewrite !existsb_app, N1, N2, M1, M2.
      destruct (o_done (fst (run_ops sk ops))); cbn; repeat split; reflexivity.
Qed.

(** ** The statements of [Props/C13_HashMap.v] *)
Lemma final_state_split init ops k :
  final_state init ops = fst (run_ops (state_at init ops k) (skipn k ops)).
Proof.
  unfold final_state, state_at. rewrite <- (firstn_skipn k ops) at 1. rewrite run_ops_app. reflexivity.
Qed.

Lemma state_at_wf init ops k : wf (o_hm (state_at init ops k)).
Proof. unfold state_at. apply run_ops_wf. cbn [obs_of o_hm]. apply wf_of_list. Qed.

Theorem mirror_ok_outside_known_class init ops k md max :
  silent_free_from init ops k = true ->
  fits_from max init ops k = true ->
  mirror_ok init ops k md max.
Proof.
  unfold silent_free_from, fits_from, mirror_ok, stream_at. intros S F.
  rewrite (final_state_split init ops k).
  destruct (mirror_correct _ _ md max (state_at_wf init ops k) S F) as (H1 & H2 & H3 & H4).
  repeat split; try assumption. intros key. rewrite H2. reflexivity.
Qed.

Theorem hand_ok_outside_known_class init ops k md :
  silent_free_from init ops k = true -> hand_ok init ops k md.
Proof.
  unfold silent_free_from, hand_ok, stream_at. intros S.
  rewrite (final_state_split init ops k).
  destruct (hand_correct _ _ md (state_at_wf init ops k) S) as (H1 & H2 & H3).
  repeat split; try assumption. intros key. rewrite H1. reflexivity.
Qed.

(** the syntactic class: no [retain] decision keeps and writes *)
Lemma lookup_in {A} k (ds : list (N * A)) d : lookup k ds = Some d -> In (k, d) ds.
Proof.
  induction ds as [|[k1 d1] r IH]; cbn [lookup]; [discriminate|].
  destruct (k1 =? k) eqn:E; intros H.
  - injection H as <-. left. f_equal. lia.
  - right. auto.
Qed.

Lemma no_write_not_silent dflt ds m :
  decision_writes dflt = false -> forallb (fun kd => negb (decision_writes (snd kd))) ds = true ->
  retain_silent (decide dflt ds) m = false.
Proof.
  intros H0 Hds. unfold retain_silent.
  assert (Hall : forall k, decision_writes (decide dflt ds k) = false).
  { intros k. unfold decide. destruct (lookup k ds) as [d|] eqn:E; [|exact H0].
    apply lookup_in in E. rewrite forallb_forall in Hds. specialize (Hds _ E). cbn [snd] in Hds.
    apply negb_true_iff in Hds. exact Hds. }
  induction m as [|e r IH]; [reflexivity|]. cbn [existsb]. rewrite IH, orb_false_r.
  specialize (Hall (fst e)). unfold decision_writes in Hall.
  destruct (d_keep (decide dflt ds (fst e))); [|reflexivity]. cbn [andb] in *.
  destruct (d_acc (decide dflt ds (fst e))); [reflexivity|reflexivity|discriminate].
Qed.

Lemma no_retain_mutation_silent_free ops : forall s,
  no_retain_mutation ops = true -> silent_free s ops = true.
Proof.
  induction ops as [|o r IH]; intros s H; [reflexivity|].
  unfold no_retain_mutation in H. cbn [forallb] in H. apply andb_true_iff in H. destruct H as [H1 H2].
  cbn [silent_free]. rewrite (IH _ H2), andb_true_r. apply negb_true_iff.
  destruct (o_done s); [reflexivity|]. cbn [negb andb].
  destruct o; try reflexivity. cbn [op_silent].
  apply andb_true_iff in H1. destruct H1 as [Ha Hb]. apply negb_true_iff in Ha.
  apply no_write_not_silent; assumption.
Qed.

Lemma no_retain_mutation_skipn k : forall ops,
  no_retain_mutation ops = true -> no_retain_mutation (skipn k ops) = true.
Proof.
  induction k as [|k IH]; intros ops H; [exact H|]. destruct ops as [|o r]; [exact H|].
  cbn [skipn]. apply IH. unfold no_retain_mutation in *. cbn [forallb] in H.
  apply andb_true_iff in H. tauto.
Qed.

Theorem no_retain_mutation_sound init ops k :
  no_retain_mutation ops = true -> silent_free_from init ops k = true.
Proof.
  intros H. unfold silent_free_from. apply no_retain_mutation_silent_free, no_retain_mutation_skipn, H.
Qed.

Theorem no_retain_mutation_ok init ops k md max :
  no_retain_mutation ops = true ->
  fits_from max init ops k = true ->
  mirror_ok init ops k md max /\ hand_ok init ops k md.
Proof.
  intros H F. pose proof (no_retain_mutation_sound init ops k H) as S. split.
  - apply mirror_ok_outside_known_class; assumption.
  - apply hand_ok_outside_known_class; assumption.
Qed.

(** ** Tie to the generated facts *)
From Remoc Require Gen.Api Gen.Variants.

Lemma api_covered :
  Gen.Api.hash_map_ObservableHashMap_mutators = map op_name all_ops ++ consuming_ops /\
  Gen.Api.hash_map_Entry_mutators = entry_methods /\
  Gen.Api.hash_map_OccupiedEntry_mutators = occupied_methods /\
  Gen.Api.hash_map_VacantEntry_mutators = vacant_methods /\
  Gen.Api.hash_map_RefMut_mutators = [] /\ Gen.Api.hash_map_IterMut_mutators = [] /\
  Gen.Api.hash_map_ValuesMut_mutators = [].
Proof. repeat split; reflexivity. Qed.

(** every constructor of the model's API types is one of the named methods (or "no call") *)
Lemma op_names_complete o : In (op_name o) (map op_name all_ops).
Proof. destruct o; cbn; tauto. Qed.
Lemma entry_names_complete u : match entry_final_name u with Some n => In n entry_methods | None => True end.
Proof. destruct u; cbn; tauto. Qed.
Lemma occupied_names_complete s f :
  In (occ_step_name s) occupied_methods /\
  match occ_final_name f with Some n => In n occupied_methods | None => True end.
Proof. destruct s, f; cbn; tauto. Qed.
Lemma vacant_names_complete u : match vac_name u with Some n => In n vacant_methods | None => True end.
Proof. destruct u; cbn; tauto. Qed.

Lemma events_covered :
  Gen.Variants.HashMapEvent_variants = map event_name all_events /\
  forall e, In (event_name e) (map event_name all_events).
Proof. split; [reflexivity|]. destruct e; cbn; tauto. Qed.

(** ** Witnesses: the statement fails inside the known classes *)
Definition f4_ops : list op := [Retain {| d_keep := true; d_acc := AWrite 11 |} []].
Lemma retain_refuted :
  silent_free_from [(1, 10)] f4_ops 0 = false /\ fits_from 100 [(1, 10)] f4_ops 0 = true /\
  ~ mirror_ok [(1, 10)] f4_ops 0 Snapshot 100 /\ ~ hand_ok [(1, 10)] f4_ops 0 Snapshot.
Proof.
  repeat split; try (vm_compute; reflexivity).
  - intros (_ & _ & H & _). vm_compute in H. discriminate.
  - intros (_ & H & _). vm_compute in H. discriminate.
Qed.

(** The former F11 class (repaired in /repo by commit 290b96a): an incremental subscription of a
    non-empty map made after [done()] is now mirrored correctly. *)
Definition f11_ops : list op := [MarkDone].
Lemma late_incremental_now_ok :
  late_incremental_at [(1, 10); (2, 20)] f11_ops 1 Incremental = true /\
  mirror_task (mirror_init Incremental (state_at [(1, 10); (2, 20)] f11_ops 1) 100)
              (stream_at [(1, 10); (2, 20)] f11_ops 1 Incremental)
  = ({| m_hm := [(1, 10); (2, 20)]; m_complete := true; m_done := true; m_max := 100 |}, None).
Proof. split; vm_compute; reflexivity. Qed.
