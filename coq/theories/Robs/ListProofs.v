(** Proofs for the [ObservableList] model: the mirror (and a consumer by hand) fed with the
    subscription stream reaches exactly the observed contents and flags. *)
From Remoc Require Import Lib.Base Robs.SeqCommon Robs.List_.

Ltac prj := unfold mirror_of, sub_mirror in *; cbn [items cdone mv mcomplete mdone mmax] in *.

Lemma task_pushes brk vs acc cp mx tl :
  len (acc ++ vs) <= mx ->
  task_gen brk {| mv := acc; mcomplete := cp; mdone := false; mmax := mx |} (map EPush vs ++ tl) =
  task_gen brk {| mv := acc ++ vs; mcomplete := cp; mdone := false; mmax := mx |} tl.
Proof.
  revert acc. induction vs as [|v vs IH]; intros acc H.
  - now rewrite app_nil_r.
  - cbn [map app task_gen handle_event]. prj.
    assert (Hle : len (acc ++ [v]) <= mx) by (rewrite !len_app, ?len_cons, ?len_nil in *; lia).
    destruct (N.ltb_spec mx (len (acc ++ [v]))) as [Hlt|_]; [lia|].
    prj. rewrite andb_false_r.
    rewrite IH by (now rewrite <- app_assoc).
    now rewrite <- app_assoc.
Qed.

Lemma apply_done_state c o c1 e1 :
  cdone c = true -> apply_op c o = Ok (c1, e1) -> c1 = c /\ e1 = [].
Proof.
  intros Hd H. unfold apply_op in H. rewrite Hd in H.
  destruct o; try discriminate; try (now inversion H).
  destruct vs; [now inversion H|discriminate].
Qed.

Lemma step brk c o c1 e1 cp mx tl :
  apply_op c o = Ok (c1, e1) ->
  brk = false \/ cdone c = false ->
  len (items c1) <= mx ->
  task_gen brk (mirror_of c cp mx) (e1 ++ tl) =
  if brk && cdone c1 then HOk (mirror_of c1 cp mx) else task_gen brk (mirror_of c1 cp mx) tl.
Proof.
  intros H Hb Hmx.
  destruct (cdone c) eqn:Hd.
  { destruct Hb as [->|Hb]; [|discriminate].
    destruct (apply_done_state _ _ _ _ Hd H) as [-> ->]. reflexivity. }
  clear Hb. destruct c as [l d]. prj. subst d.
  unfold apply_op in H. prj.
  destruct o.
  - (* push *)
    inversion H; subst; clear H. prj.
    cbn [app task_gen handle_event]. prj.
    destruct (N.ltb_spec mx (len (l ++ [v]))) as [Hlt|_]; [lia|].
    prj. now rewrite !andb_false_r.
  - (* done *)
    inversion H; subst; clear H. prj. cbn [app task_gen handle_event]. prj.
    rewrite !andb_true_r. destruct brk; reflexivity.
  - (* extend *)
    destruct vs as [|v0 vs].
    + inversion H; subst. prj. now rewrite andb_false_r.
    + inversion H; subst; clear H. prj. rewrite andb_false_r.
      exact (task_pushes brk (v0 :: vs) l cp mx tl Hmx).
Qed.

Lemma run_done_state c ops c1 e1 :
  cdone c = true -> run_ops c ops = Ok (c1, e1) -> c1 = c /\ e1 = [].
Proof.
  revert c c1 e1. induction ops as [|o r IH]; intros c c1 e1 Hd H; cbn [run_ops] in H.
  - now inversion H.
  - destruct (apply_op c o) as [[c2 e2]|] eqn:Ha; [|discriminate].
    destruct (apply_done_state _ _ _ _ Hd Ha) as [-> ->].
    destruct (run_ops c r) as [[c3 e3]|] eqn:Hr; [|discriminate].
    destruct (IH _ _ _ Hd Hr) as [-> ->]. now inversion H.
Qed.

Lemma run_task brk ops : forall c c1 e1 cp mx tl,
  run_ops c ops = Ok (c1, e1) ->
  brk = false \/ cdone c = false ->
  run_bounded mx c ops ->
  task_gen brk (mirror_of c cp mx) (e1 ++ tl) =
  if brk && cdone c1 then HOk (mirror_of c1 cp mx) else task_gen brk (mirror_of c1 cp mx) tl.
Proof.
  induction ops as [|o r IH]; intros c c1 e1 cp mx tl H Hb Hbd; cbn [run_ops] in H.
  - inversion H; subst. cbn [app].
    destruct Hb as [->|Hd]; [reflexivity|]. rewrite Hd, andb_false_r. reflexivity.
  - destruct (apply_op c o) as [[c2 e2]|] eqn:Ha; [|discriminate].
    destruct (run_ops c2 r) as [[c3 e3]|] eqn:Hr; [|discriminate].
    inversion H; subst; clear H.
    cbn [run_bounded] in Hbd. rewrite Ha in Hbd. destruct Hbd as [_ Hbd].
    assert (Hc2 : len (items c2) <= mx) by (destruct r; cbn [run_bounded] in Hbd; tauto).
    rewrite <- app_assoc. rewrite (step _ _ _ _ _ cp mx _ Ha Hb Hc2).
    destruct brk.
    + destruct (cdone c2) eqn:Hd2; cbn [andb].
      * destruct (run_done_state _ _ _ _ Hd2 Hr) as [-> ->]. now rewrite Hd2.
      * apply (IH _ _ _ cp mx tl Hr); [now right|exact Hbd].
    + cbn [andb]. apply (IH _ _ _ cp mx tl Hr); [now left|exact Hbd].
Qed.

Lemma run_bounded_head mx c ops : run_bounded mx c ops -> len (items c) <= mx.
Proof. destruct ops; cbn [run_bounded]; tauto. Qed.

Lemma run_ops_app a : forall b c c2 e,
  run_ops c (a ++ b) = Ok (c2, e) ->
  exists c1 e1 e2, run_ops c a = Ok (c1, e1) /\ run_ops c1 b = Ok (c2, e2) /\ e = e1 ++ e2.
Proof.
  induction a as [|o a IH]; intros b c c2 e H.
  - exists c, [], e. cbn [app run_ops] in *. auto.
  - cbn [app run_ops] in *.
    destruct (apply_op c o) as [[c3 e3]|] eqn:Ha; [|discriminate].
    destruct (run_ops c3 (a ++ b)) as [[c4 e4]|] eqn:Hr; [|discriminate].
    inversion H; subst; clear H.
    destruct (IH _ _ _ _ Hr) as (c1 & e1 & e2 & H1 & H2 & ->).
    exists c1, (e3 ++ e1), e2. rewrite H1. now rewrite app_assoc.
Qed.

Lemma run_split init_c ops k cf e :
  run_ops init_c ops = Ok (cf, e) ->
  exists ck e1 e2, run_ops init_c (firstn k ops) = Ok (ck, e1) /\
                   run_ops ck (skipn k ops) = Ok (cf, e2) /\ e = e1 ++ e2.
Proof. intros H. rewrite <- (firstn_skipn k ops) in H. now apply run_ops_app. Qed.

(** the mirror task ([brk = true]) and a consumer by hand ([brk = false]) on a subscription *)
Lemma stream_correct brk ck ops mx cf e2 :
  run_ops ck ops = Ok (cf, e2) ->
  run_bounded mx ck ops ->
  task_gen brk (sub_mirror mx) (sub_stream ck e2) = HOk (mirror_of cf true mx).
Proof.
  intros Hr Hb. unfold sub_stream.
  unfold sub_mirror.
  rewrite (task_pushes brk (items ck) [] false mx) by (cbn [app]; now apply run_bounded_head in Hb).
  cbn [app task_gen handle_event]. prj. rewrite andb_false_r.
  destruct (cdone ck) eqn:Hd.
  - destruct (run_done_state _ _ _ _ Hd Hr) as [-> ->].
    cbn [task_gen handle_event]. prj. rewrite andb_true_r. unfold mirror_of. rewrite Hd.
    destruct brk; reflexivity.
  - assert (Hor : brk = false \/ cdone ck = false) by now right.
    pose proof (run_task brk ops ck cf e2 true mx [] Hr Hor Hb) as HT.
    rewrite app_nil_r in HT. unfold mirror_of in HT at 1. rewrite Hd in HT. rewrite HT.
    cbn [task_gen]. now destruct (brk && cdone cf).
Qed.

Definition start (init : list N) : coll := {| items := init; cdone := false |}.

Lemma mirror_equals_collection init ops k cf e :
  run_ops (start init) ops = Ok (cf, e) ->
  exists ck e1 e2,
    run_ops (start init) (firstn k ops) = Ok (ck, e1) /\
    run_ops ck (skipn k ops) = Ok (cf, e2) /\ e = e1 ++ e2 /\
    forall mx,
      run_bounded mx ck (skipn k ops) ->
      mirror_task (sub_mirror mx) (sub_stream ck e2) = HOk (mirror_of cf true mx) /\
      fold_events (sub_mirror mx) (sub_stream ck e2) = HOk (mirror_of cf true mx).
Proof.
  intros H. destruct (run_split _ _ k _ _ H) as (ck & e1 & e2 & H1 & H2 & He).
  exists ck, e1, e2. repeat split; try assumption.
  - now apply (stream_correct true ck (skipn k ops)).
  - now apply (stream_correct false ck (skipn k ops)).
Qed.

Lemma apply_done_iff c o c1 e1 :
  apply_op c o = Ok (c1, e1) -> cdone c1 = true <-> (cdone c = true \/ o = MarkDone).
Proof.
  intros H. unfold apply_op in H. destruct c as [l d]. cbn [items cdone] in *.
  destruct o as [v| |vs]; [|destruct d|destruct vs as [|v0 vs]]; try destruct d; try discriminate;
    inversion H; subst; cbn [cdone]; split; intros; try tauto; try discriminate;
    match goal with Hx : _ \/ _ |- _ => destruct Hx; discriminate end.
Qed.

Lemma done_iff ops : forall c cf e,
  run_ops c ops = Ok (cf, e) -> cdone cf = true <-> (cdone c = true \/ In MarkDone ops).
Proof.
  induction ops as [|o r IH]; intros c cf e H; cbn [run_ops] in H.
  - inversion H; subst. cbn [In]. tauto.
  - destruct (apply_op c o) as [[c2 e2]|] eqn:Ha; [|discriminate].
    destruct (run_ops c2 r) as [[c3 e3]|] eqn:Hr; [|discriminate].
    inversion H; subst; clear H.
    rewrite (IH _ _ _ Hr). rewrite (apply_done_iff _ _ _ _ Ha). cbn [In].
    intuition congruence.
Qed.

Lemma done_iff_called init ops cf e :
  run_ops (start init) ops = Ok (cf, e) -> (cdone cf = true <-> In MarkDone ops).
Proof.
  intros H. rewrite (done_iff ops _ _ _ H). cbn. intuition discriminate.
Qed.

(** the events are exactly the appended elements: an append-only list only ever grows *)
Lemma run_items ops : forall c cf e,
  run_ops c ops = Ok (cf, e) -> exists added, items cf = items c ++ added.
Proof.
  induction ops as [|o r IH]; intros c cf e H; cbn [run_ops] in H.
  - inversion H; subst. exists []. now rewrite app_nil_r.
  - destruct (apply_op c o) as [[c2 e2]|] eqn:Ha; [|discriminate].
    destruct (run_ops c2 r) as [[c3 e3]|] eqn:Hr; [|discriminate].
    inversion H; subst; clear H.
    destruct (IH _ _ _ Hr) as [a2 Ha2].
    unfold apply_op in Ha.
    destruct o as [v| |vs].
    + destruct (cdone c); [discriminate|]. inversion Ha; subst. cbn [items] in Ha2. rewrite Ha2.
      exists ([v] ++ a2). now rewrite app_assoc.
    + destruct (cdone c); inversion Ha; subst; cbn [items] in Ha2; rewrite Ha2; now exists a2.
    + destruct vs as [|v0 vs].
      * inversion Ha; subst. rewrite Ha2. now exists a2.
      * destruct (cdone c); [discriminate|]. inversion Ha; subst. cbn [items] in Ha2. rewrite Ha2.
        exists ((v0 :: vs) ++ a2). now rewrite app_assoc.
Qed.

From Remoc Require Gen.Api Gen.Variants.
Import List_.Names.

Lemma api_covered : map op_name modelled_ops = minus Gen.Api.list_ObservableList_mutators non_mutating.
Proof. reflexivity. Qed.
Lemma ops_all_listed o : In (op_name o) (map op_name (modelled_ops ++ trait_ops)).
Proof. destruct o; vm_compute; tauto. Qed.
Lemma events_covered : map event_name modelled_events = Gen.Variants.ListEvent_variants.
Proof. reflexivity. Qed.
Lemma events_all_listed e : In (event_name e) (map event_name modelled_events).
Proof. destruct e; vm_compute; tauto. Qed.
