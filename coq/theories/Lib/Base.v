(** Common imports, settings and small list/arith lemmas for the whole development. *)
From Coq Require Export List NArith ZArith Lia Bool Arith.
Export ListNotations.
#[global] Open Scope N_scope.

#[global] Arguments N.add : simpl never.
#[global] Arguments N.sub : simpl never.
#[global] Arguments N.mul : simpl never.
#[global] Arguments N.div : simpl never.
#[global] Arguments N.modulo : simpl never.
#[global] Arguments N.eqb : simpl never.
#[global] Arguments N.ltb : simpl never.
#[global] Arguments N.leb : simpl never.
#[global] Arguments N.min : simpl never.
#[global] Arguments N.max : simpl never.
#[global] Arguments N.pow : simpl never.
#[global] Arguments N.of_nat : simpl never.
#[global] Arguments N.to_nat : simpl never.

(** [lia] with division/modulo support. *)
From Coq Require Export ZifyBool ZifyN ZifyNat.
Ltac Zify.zify_post_hook ::= Z.div_mod_to_equations.

(** length as N *)
Definition len {A} (l : list A) : N := N.of_nat (length l).

Lemma len_nil {A} : len (@nil A) = 0. Proof. reflexivity. Qed.
Lemma len_cons {A} (x : A) l : len (x :: l) = 1 + len l.
Proof. unfold len. cbn [length]. lia. Qed.
Lemma len_app {A} (l1 l2 : list A) : len (l1 ++ l2) = len l1 + len l2.
Proof. unfold len. rewrite app_length. lia. Qed.

(** sum of a list of N *)
Fixpoint sum (l : list N) : N := match l with [] => 0 | x :: r => x + sum r end.
Lemma sum_app l1 l2 : sum (l1 ++ l2) = sum l1 + sum l2.
Proof. induction l1 as [|x l1 IH]; cbn [sum app]; lia. Qed.
Lemma sum_cons x l : sum (x :: l) = x + sum l. Proof. reflexivity. Qed.

(** prefix *)
Definition prefix {A} (l1 l2 : list A) : Prop := exists r, l2 = l1 ++ r.
Lemma prefix_refl {A} (l : list A) : prefix l l.
Proof. exists []. now rewrite app_nil_r. Qed.
Lemma prefix_nil {A} (l : list A) : prefix [] l.
Proof. now exists l. Qed.
Lemma prefix_app_r {A} (l1 l2 l3 : list A) : prefix l1 l2 -> prefix l1 (l2 ++ l3).
Proof. intros [r ->]. exists (r ++ l3). now rewrite app_assoc. Qed.
Lemma prefix_trans {A} (l1 l2 l3 : list A) : prefix l1 l2 -> prefix l2 l3 -> prefix l1 l3.
Proof. intros [r ->] [r' ->]. exists (r ++ r'). now rewrite app_assoc. Qed.

Lemma firstn_skipn_len {A} (k : nat) (l : list A) :
  (k <= length l)%nat -> length (firstn k l) = k.
Proof. intros. rewrite firstn_length. lia. Qed.
