(** C08 -- Robustness of the chmux dispatcher against an arbitrary or hostile peer.
    Only statements, [exact] proofs and assumption printing live here.

    The endpoint model ([Chmux/Mux.v], [Chmux/Endpoint.v]) transcribes [mux.rs] ([handle_event],
    [handle_received_msg], [maybe_free_port], [create_port], [should_terminate]) with every reachable
    [panic!]/[unwrap] as the explicit outcome [Panic].  [reach .. acts] is the state after ANY list of
    actions: local API calls (enabled only while the Rust object they act on exists -- that is the
    only assumption, it is what ownership gives), helper-task steps, dispatcher steps, and [Recv m n],
    which delivers an ARBITRARY message. *)
From Remoc Require Import Lib.Base Gen.Consts Chmux.Wire Chmux.Mux Chmux.Endpoint Chmux.EndpointLemmas Chmux.EndpointInv
  Chmux.EndpointEffects Chmux.EndpointProofs.

(** The handler of received messages has no reachable panic site at all. *)
Theorem C08_handle_received_never_panics : forall m msg n,
  match handle_received m msg n with Panic _ => False | _ => True end.
Proof. exact handle_received_never_panics. Qed.

(** No [panic!]/[unwrap] site of the dispatcher is reached, whatever the peer sends and however the
    local users, helper tasks and the dispatcher interleave. *)
Theorem C08_no_panic : forall ch bu cqs rb ver maxp acts,
  panicked (reach ch bu cqs rb ver maxp acts) = None.
Proof. exact no_panic. Qed.

(** The invariant behind it holds in every reachable state. *)
Theorem C08_invariant : forall ch bu cqs rb ver maxp acts, WF (reach ch bu cqs rb ver maxp acts).
Proof. exact WF_reach. Qed.

(** Every received message either leaves the endpoint in a state satisfying the invariant, or
    terminates the connection with a protocol/reset error; a terminated endpoint takes no further
    step (that all local users then observe errors is C06). *)
Theorem C08_classified : forall ch bu cqs rb ver maxp acts m n e',
  let e := reach ch bu cqs rb ver maxp acts in
  step_opt e (Recv m n) = Some e' ->
  (dead e' = None /\ Inv e') \/ (exists err, dead e' = Some err /\ forall a, step_opt e' a = None).
Proof. intros ch bu cqs rb ver maxp acts m n e' e. exact (classified e m n e' (WF_reach _ _ _ _ _ _ _)). Qed.

(** Bytes queued per port never exceed the advertised receive buffer; the number of queued messages
    is bounded by it as well (every message costs at least [DATA_MIN_COST = 1], a port message
    [PORT_COST = 4] per port and at least one port, only the final [Finished] marker is free); the
    listener queues hold at most [connect_queue + 1] requests. *)
Theorem C08_buffer : forall ch bu cqs rb ver maxp acts,
  let e := reach ch bu cqs rb ver maxp acts in
  (forall p c, lookup p (ports (mx e)) = Some (Connected c) ->
     used c <= cfg_buffer (mx e) /\ len (rxq c) <= used c + 1) /\
  lq_wait (mx e) <= cfg_connect_queue (mx e) + 1 /\ lq_nowait (mx e) <= cfg_connect_queue (mx e) + 1.
Proof. intros ch bu cqs rb ver maxp acts e. exact (buffer_bounds e (WF_reach _ _ _ _ _ _ _)). Qed.

Theorem C08_costs : DATA_MIN_COST = 1 /\ PORT_COST = 4.
Proof. split; reflexivity. Qed.

(** Non-vacuity: the peer opens a port, it is accepted; the peer sends 3 bytes (queued, 3 credits
    used), then a port message without ports: the connection is terminated with a protocol error, no
    panic, and nothing is enabled any more. *)
Example C08_nonvacuous :
  let pre := [Recv (OpenPort 7 true None) 0; UListenerTake 7; UAccept 7 5; DPort; Recv (Data 5 true true) 3] in
  let e1 := reach 100 10 2 16 3 8 pre in
  let e2 := step e1 (Recv (PortData 5 true true false [] None) 0) in
  panicked e2 = None /\ dead e1 = None /\ dead e2 = Some PEmptyPorts /\
  (exists c, lookup 5 (ports (mx e1)) = Some (Connected c) /\ used c = 3 /\ len (rxq c) = 1) /\
  step_opt e2 (Recv Ping 0) = None /\
  dead (step e1 (Recv (Data 5 true true) 8)) = Some POverdraw.
Proof. vm_compute. repeat split; try reflexivity. eexists. repeat split; reflexivity. Qed.

Print Assumptions C08_handle_received_never_panics.
Print Assumptions C08_no_panic.
Print Assumptions C08_invariant.
Print Assumptions C08_classified.
Print Assumptions C08_buffer.
Print Assumptions C08_costs.
