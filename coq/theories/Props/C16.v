(** C16 -- Broadcast: ordered delivery with an explicit lag marker at every gap.
    Only statements, [exact] proofs and assumption printing live here.

    Model: [Rch/Broadcast.v] (transcription of rch/broadcast/{sender,receiver,mod}.rs).  Every
    interleaving of application calls (send, subscribe, consume, drop of a receiver) with the
    stages of every re-admission task is an [action] list; [run acts init = Some st] says that
    [acts] is such an interleaving (each action enabled when taken) and [st] is where it ends.
    All buffer sizes: the [c] of each [Subscribe c]. *)
From Coq Require Import Sorted.
From Remoc Require Import Lib.Base Rch.Broadcast Rch.BroadcastProofs.

(** For every subscriber, at every point of every interleaving, what it has received plus what is
    queued for it is a well-formed stream ([wf_stream], see Broadcast.v: without a marker the next
    value has exactly the next index; every marker stands for at least one skipped value), and
    for a live subscriber what is pending is accounted for ([pending_ok]): with [e] the first index
    not yet covered by a value or marker of its stream and [n] the number of values sent,
      Ready           : e = n, or the stream ends in a marker and e <= n;
      Parked (R1)     : e < n  -- values were skipped and the marker is still owed by the task;
      Parked (R2)     : the stream ends in the marker, e <= n.
    A parked subscriber is not touched by [Send] ([C16_parked_untouched]), so no value reaches it
    before the marker. *)
Theorem C16_stream : forall acts st a s,
  run acts init = Some st -> nth_error (subs st) a = Some s ->
  wf_stream (start s) false (stream s) /\ (alive s = true -> pending_ok (next st) s).
Proof. exact stream_ok. Qed.

Theorem C16_parked_untouched : forall n s g, status_of s = Parked g -> sub_send n s = s.
Proof. exact send_parked. Qed.

(** What [wf_stream] means, spelled out: the received values are strictly increasing (in order, no
    duplicates), none older than the subscription ... *)
Theorem C16_stream_ordered : forall acts st a s,
  run acts init = Some st -> nth_error (subs st) a = Some s ->
  StronglySorted N.lt (values (stream s)) /\ Forall (fun i => start s <= i) (values (stream s)).
Proof. exact stream_ordered. Qed.

(** ... and between two consecutive received values [v_i], [v_j] (only markers in between) there
    is a marker iff [j > i + 1]. *)
Theorem C16_stream_gap_iff : forall acts st a s pre i mid j post,
  run acts init = Some st -> nth_error (subs st) a = Some s ->
  stream s = pre ++ Value i :: mid ++ Value j :: post -> Forall (eq Lagged) mid ->
  i < j /\ (mid = [] <-> j = i + 1).
Proof. exact stream_gap_iff. Qed.

(** A subscriber that never found its queue full at a send ([parked_ever = false]; the flag is set
    only by the [Full] branch of [sub_send]) has been handed every value sent since it subscribed,
    in order and nothing else -- all of them while its receiver lives, a prefix if it was dropped. *)
Theorem C16_keepup : forall acts st a s,
  run acts init = Some st -> nth_error (subs st) a = Some s -> parked_ever s = false ->
  prefix (stream s) (all_since (next st) s) /\ (alive s = true -> stream s = all_since (next st) s).
Proof. exact keepup. Qed.

(** [send] is enabled in every state (no wait), and what it does to subscriber [a] is the function
    [sub_send] of [a]'s own state and the value's index: full, parked or dropped subscribers [b]
    neither block the sender nor change what [a] gets. *)
Theorem C16_nonblocking : forall st,
  exists st', step st Send = Some st' /\ next st' = next st + 1 /\
  forall a, nth_error (subs st') a = option_map (sub_send (next st)) (nth_error (subs st) a).
Proof. exact send_total_frame. Qed.

(** Frame form: two states that agree on subscriber [a] (and on the value index) agree on [a]
    after [Send], whatever the other subscribers look like. *)
Theorem C16_nonblocking_frame : forall st1 st2 st1' st2' a,
  next st1 = next st2 -> nth_error (subs st1) a = nth_error (subs st2) a ->
  step st1 Send = Some st1' -> step st2 Send = Some st2' ->
  nth_error (subs st1') a = nth_error (subs st2') a.
Proof. exact send_frame. Qed.

(** Every state visited by the big-step runner that is compared with the implementation
    ([Run/RunBroadcast.v]) is reachable by small steps, so the theorems above apply to it. *)
Theorem C16_big_steps_sound : forall ops st, exists acts, run acts st = Some (fold_left big ops st).
Proof. exact bigs_sound. Qed.

(** Non-vacuity: subscriber 0 (capacity 1) is parked by the second send, the task pushes the
    marker after the first consume and re-admits after the second; subscriber 1 (capacity 4) keeps
    up.  The second run takes a [Send] between hand-back (R2) and permit release (R3), possible on
    a multi-threaded runtime: the subscriber is parked again although its queue is empty and gets
    a second marker (the stream is still well-formed: each marker stands for a skipped value). *)
Example C16_nonvacuous :
  option_map (fun st => map (fun s => (consumed s, queue s, status_of s, parked_ever s)) (subs st))
    (run [Subscribe 1; Subscribe 4; Send; Send; Consume 0; Readmit1 0; Consume 0; Readmit2 0; Release 0;
          Send; Consume 0; Consume 1] init)
  = Some [([Value 0; Lagged; Value 2], [], Ready, true);
          ([Value 0], [Value 1; Value 2], Ready, false)] /\
  option_map (fun st => map stream (subs st))
    (run [Subscribe 1; Send; Send; Consume 0; Readmit1 0; Consume 0; Readmit2 0; Send; Release 0;
          Readmit1 0; Consume 0; Readmit2 0; Release 0; Send] init)
  = Some [[Value 0; Lagged; Lagged; Value 3]].
Proof. vm_compute. auto. Qed.

Print Assumptions C16_stream.
Print Assumptions C16_parked_untouched.
Print Assumptions C16_stream_ordered.
Print Assumptions C16_stream_gap_iff.
Print Assumptions C16_keepup.
Print Assumptions C16_nonblocking.
Print Assumptions C16_nonblocking_frame.
Print Assumptions C16_big_steps_sound.
