(** C15 -- Watch channels converge to the latest value and never go backwards.
    Only statements, [exact] proofs and assumption printing live here.

    Model: [Rch/Watch.v] (transcription of rch/watch/{mod,sender,receiver}.rs): a tree of Tokio
    watch cells joined by forwarding tasks ([send_impl] -> remote FIFO -> [recv_impl]).  Every
    interleaving of application calls (send, send_modify, drop of the sender, subscribe, clone, drop
    of a receiver, borrow, borrow_and_update, a poll of changed(), transfer of a receiver or of the
    sender to another endpoint -- at any moment, any number of hops) with every step of every
    forwarding task and with connection failures is an [action] list; [run acts (init p) = Some st]
    says that [acts] is such an interleaving (each action enabled when taken) and [st] is where it
    ends.  Values are pairs (send index, payload); [sent st] lists the stored payloads in order;
    [robs] is the log of everything a receiver handle was shown.

    Trusted Tokio rules (definitions of the model, see the header of Watch.v): T1 [changed()]
    reports an unseen version before it reports closure; T2 [send] fails without storing iff there
    is no receiver, [closed()] completes iff there is none; T3 subscribe / clone / borrow_and_update
    version marking.  The remote channel between the two tasks of a link is a FIFO (C01/C04). *)
From Coq Require Import Sorted.
From Remoc Require Import Lib.Base Rch.Watch Rch.WatchProofs.

(** Every value ever shown to a receiver (local, remote, any number of hops, created at any time)
    was stored by the sender under exactly that index -- for all action lists, faults included. *)
Theorem C15_only_sent : forall acts p st r v,
  run acts (init p) = Some st -> (r < nrcv st)%nat -> In v (robs (rcvs st r)) ->
  nth_error (sent st) (N.to_nat (fst v)) = Some (snd v).
Proof. exact only_sent. Qed.

(** The send indices shown to a receiver are non-decreasing (never an older value after a newer
    one), and none is ahead of the receiver's cell -- for all action lists, faults included.
    With [C15_only_sent]: what a receiver sees is, up to repetition, a subsequence of the sent
    sequence in sending order. *)
Theorem C15_monotone : forall acts p st r,
  run acts (init p) = Some st -> (r < nrcv st)%nat ->
  StronglySorted N.le (map fst (robs (rcvs st r))) /\
  Forall (fun v => fst v <= fst (cval (cells st (rcell (rcvs st r))))) (robs (rcvs st r)).
Proof. exact monotone. Qed.

(** In every state reached without connection faults in which no forwarding task can take a step,
    the cell of every live receiver -- at every hop, whenever the receiver was created, cloned or
    transferred -- holds the value stored last (index and payload), not an error. *)
Theorem C15_latest : forall acts p st r,
  run acts (init p) = Some st -> no_fault acts = true -> quiescent st = true ->
  (r < nrcv st)%nat -> rlive (rcvs st r) = true ->
  cval (cells st (rcell (rcvs st r))) = latest st /\ cerr (cells st (rcell (rcvs st r))) = false.
Proof. exact latest_at_quiescence. Qed.

(** The value sent immediately before the sender is dropped is not lost: whatever happens before
    ([acts1]) and after ([acts2], which cannot store anything: the sender is gone), at quiescence
    every live receiver holds [q].  This is where rule T1 is used ([FwdEnd] needs [lseen = cver]). *)
Theorem C15_latest_after_drop : forall acts1 acts2 p q st1 st r,
  run acts1 (init p) = Some st1 -> send_ok st1 = true ->
  run (Send q :: DropSender :: acts2) st1 = Some st ->
  no_fault (acts1 ++ acts2) = true -> quiescent st = true ->
  (r < nrcv st)%nat -> rlive (rcvs st r) = true ->
  snd (cval (cells st (rcell (rcvs st r)))) = q /\ cerr (cells st (rcell (rcvs st r))) = false.
Proof. exact latest_after_drop. Qed.

(** Progress: while the cell of some live receiver is behind, some forwarding task can take a step
    (so "eventually" cannot be blocked; the fair runner of the correspondence check reaches
    quiescence within its fuel on every case). *)
Theorem C15_progress : forall acts p st r,
  run acts (init p) = Some st -> no_fault acts = true ->
  (r < nrcv st)%nat -> rlive (rcvs st r) = true ->
  cval (cells st (rcell (rcvs st r))) <> latest st ->
  exists a st', is_fwd a = true /\ step st a = Some st'.
Proof. exact progress. Qed.

(** No lost wake-up at a receiver: [rsidx] is the index of the value that was current when the
    receiver last marked a version seen (creation, clone, [borrow_and_update], [changed()] = Ok).
    Whenever its cell holds a value with another index, a poll of [changed()] answers Ok -- for all
    action lists, faults included.  With [C15_latest]: at quiescence every live receiver has either
    marked the last value seen or is woken by [changed()] and reads it with [borrow_and_update]. *)
Theorem C15_no_lost_wakeup : forall acts p st r,
  run acts (init p) = Some st -> (r < nrcv st)%nat ->
  rsidx (rcvs st r) <> fst (cval (cells st (rcell (rcvs st r)))) ->
  changed_res st r = ChOk.
Proof. exact no_lost_wakeup. Qed.

(** The quiescence barrier of the big-step runner compared with the implementation
    ([Run/RunWatch.v]) is a fault-free list of small steps. *)
Theorem C15_big_steps_sound : forall fuel st,
  exists acts, run acts st = Some (quiesce fuel st) /\ no_fault acts = true.
Proof. exact quiesce_sound. Qed.

(** Non-vacuity: a burst, a transfer of receiver 0 in the middle of it (the snapshot carries 11, the
    forwarding task has marked it seen), a second hop, a drop right after the last send; the remote
    receivers observe 11, 13 and then -- after the forwarding tasks have run -- 14, the value sent
    immediately before the drop, followed by closure.  In the second run the tasks are driven by
    [quiesce]; the sender has been moved to another endpoint first. *)
Example C15_nonvacuous :
  option_map (fun st => (map (fun r => robs (rcvs st r)) (seq 0 (nrcv st)), sent st, quiescent st,
                         map (fun r => changed_res st r) (seq 0 (nrcv st))))
    (run [Send 10; Send 11; TransferRx 0; Send 12; Observe 1; Send 13; FwdTake 1; TransferRx 1; FwdDeliver 1;
          Observe 1; Observe 2; Send 14; DropSender; FwdTake 1; FwdEnd 1; FwdDeliver 1; FwdTake 2; FwdDeliver 2;
          FwdDeliver 1; FwdEnd 2; FwdDeliver 2; Observe 0; Observe 1; Observe 2] (init 7))
  = Some ([[(5, 14)]; [(2, 11); (4, 13); (5, 14)]; [(2, 11); (5, 14)]], [7; 10; 11; 12; 13; 14], true,
          [ChClosed; ChClosed; ChClosed]) /\
  option_map (fun st => let st := quiesce 40 st in
                        (map (fun d => cval (cells st d)) (seq 0 (ncell st)), quiescent st, latest st))
    (run [TransferRx 0; TransferTx; Send 10; TransferRx 1; Send 11; Send 12; DropSender] (init 7))
  = Some ([(3, 12); (3, 12); (3, 12); (3, 12)], true, (3, 12)).
Proof. vm_compute. auto. Qed.

Print Assumptions C15_only_sent.
Print Assumptions C15_monotone.
Print Assumptions C15_latest.
Print Assumptions C15_latest_after_drop.
Print Assumptions C15_progress.
Print Assumptions C15_no_lost_wakeup.
Print Assumptions C15_big_steps_sound.
