(** C17 -- Remote read/write lock: exclusion, latest-committed reads, no deadlock.
    Only statements, [exact] proofs and assumption printing live here.

    Model: [Robj/RwLock.v] (transcription of robj/rw_lock/{owner,rw_lock,msg}.rs): the owner task,
    per-[ReadLock] caches behind a FIFO-fair Tokio RwLock, the fetch path, the monitor tasks, any
    number of clients on any number of caches (local clones share cache 0, every lock received at
    another endpoint has its own).  [run fx acts (init v0 nk cache_of)] is the state after the
    action list [acts] -- user actions (invoke read / write, release, commit v, drop) interleaved
    with internal ones (lock grant, next step of a client future incl. the arrival of its request
    at the owner, monitor steps, arrival of the invalidation at a cache, owner step); an action
    that is not enabled is a no-op, so [forall acts] is every interleaving, every guard hold time,
    every delivery schedule.  [fx] is the variant of [fetch] (finding F5): [FixNone] = the code as
    it is, [FixStale] = "clear the entry if it is stale" (candidate of DESIGN.md section 6),
    [FixClear] = "always drop the cached entry after taking the cache write lock". *)
From Remoc Require Import Lib.Base Robj.RwLock Robj.RwLockProofs Robj.RwLockProgress Run.RunRwLock Robj.RwLockAccept.

(** Exclusion, for every variant, every configuration, every interleaving: while a write guard
    exists (from the moment the owner hands the value out until commit / drop) no client holds a
    read guard and no other client has a write guard. *)
Theorem C17_exclusion : forall fx v0 nk cache_of acts c1 cl1 c2 cl2,
  let s := run fx acts (init v0 nk cache_of) in
  nth_error (clients s) c1 = Some cl1 -> nth_error (clients s) c2 = Some cl2 ->
  write_guard cl1 = true ->
  read_guard cl2 = false /\ (write_guard cl2 = true -> c1 = c2).
Proof. exact exclusion_reach. Qed.

(** Freshness.  [c_start cl] is the ghost time stamp taken at the invocation of the request: the
    number of commits stored then; [idx s] is that number now; [commit_at s i] is the value with
    commit index [i] (0 = initial value).  Whenever a read guard is held -- in particular at the
    instant it is returned -- it shows the value with index [i] where
    [c_start <= i = idx s]: the most recently committed value as of now, which lies between the
    invocation and the return; and that is the stored value. *)
Theorem C17_fresh : forall fx v0 nk cache_of acts c cl,
  let s := run fx acts (init v0 nk cache_of) in
  nth_error (clients s) c = Some cl -> read_guard cl = true ->
  exists v i, guard_value s cl = Some (v, i) /\ c_start cl <= i /\ i = idx s /\ v = o_val s /\
              commit_at s i = Some v.
Proof. exact fresh_reach. Qed.

(** A write guard shows the latest committed value too. *)
Theorem C17_write_fresh : forall fx v0 nk cache_of acts c cl v i,
  let s := run fx acts (init v0 nk cache_of) in
  nth_error (clients s) c = Some cl -> (c_pc cl = WGot v i \/ c_pc cl = WHold v i) ->
  v = o_val s /\ i = idx s /\ commit_at s i = Some v.
Proof. exact write_fresh_reach. Qed.

(** Durability.  The stored value is the last committed one, and every [commit] call made by a
    user ([g_commits]) is either stored ([o_log]) or still on its way to the owner ([in_flight] is
    0 or 1): none is lost ... *)
Theorem C17_durable : forall fx v0 nk cache_of acts,
  let s := run fx acts (init v0 nk cache_of) in
  o_val s = hd (o_init s) (o_log s) /\ g_commits s = len (o_log s) + in_flight s.
Proof. exact durable_reach. Qed.

(** ... and nothing but the owner storing a committed value changes the stored value: in
    particular dropping a write guard ([ADropW], then the owner's step) leaves it unchanged. *)
Theorem C17_durable_step : forall fx s a s',
  step fx s a = Some s' ->
  (o_log s' = o_log s /\ o_val s' = o_val s) \/
  (exists v w, a = AOwn /\ o_pc s = OWaitNew w /\ o_sig s = SCommit v /\
               o_log s' = v :: o_log s /\ o_val s' = v).
Proof. exact log_step. Qed.

(** Progress -- full statement: in every reachable state in which a request is pending and no user
    holds a guard, some internal action is enabled:

      forall fx ..., (no user guard in s) -> (some client pending in s) ->
                     exists a, internal a = true /\ step fx s a <> None.

    The faithful model of the code as it is REFUTES it (finding F5): a concrete reachable deadlock,
    checked by [vm_compute] ([f5_acts]: reader C cold, writer W, readers A and B queue behind C's
    monitor, both find the cache empty, A fetches, B waits for the cache write lock; second write
    request; A releases; B takes the write lock with the invalidated copy cached and asks the
    owner, which waits for that copy). *)
Theorem C17_progress_refuted :
  exists v0 nk cache_of acts, Deadlock FixNone (run FixNone acts (init v0 nk cache_of)).
Proof. exact progress_refuted_asis. Qed.

(** The candidate repair of DESIGN.md section 6 ("re-check and clear the STALE entry after
    acquiring the write lock") is refuted as well: B can take the write lock while the cached copy
    is still valid, and a write request that reaches the owner before B's read request makes the
    owner wait for exactly that copy. *)
Theorem C17_progress_refuted_clear_if_stale :
  exists v0 nk cache_of acts, Deadlock FixStale (run FixStale acts (init v0 nk cache_of)).
Proof. exact progress_refuted_clear_if_stale. Qed.

(** With the repair "always drop the cached entry after taking the cache write lock" the full
    statement holds, for every configuration and every interleaving. *)
Theorem C17_progress : forall v0 nk cache_of acts,
  let s := run FixClear acts (init v0 nk cache_of) in
  (forall c cl, nth_error (clients s) c = Some cl -> user_guard cl = false) ->
  (exists c cl, nth_error (clients s) c = Some cl /\ pending cl = true) ->
  exists a, internal a = true /\ step FixClear s a <> None.
Proof. exact progress_fixed_reach. Qed.

(** Termination measure (every variant): each enabled internal action strictly decreases [mu], so
    between two user actions at most [mu s] internal steps happen; with [C17_progress]: once the
    users stop issuing requests and release their guards, every request completes. *)
Theorem C17_measure : forall fx v0 nk cache_of acts a s',
  let s := run fx acts (init v0 nk cache_of) in
  internal a = true -> step fx s a = Some s' -> mu s' < mu s.
Proof. exact measure_reach. Qed.

Theorem C17_terminates : forall fx v0 nk cache_of acts iacts s',
  let s := run fx acts (init v0 nk cache_of) in
  forallb internal iacts = true -> run_strict fx iacts s = Some s' -> len iacts + mu s' <= mu s.
Proof. exact terminates_reach. Qed.

(** The tie: the acceptance search of Run/RunRwLock.v (what the recorded implementation histories are
    checked against) only keeps states of this small-step system -- reached from a tracked state by
    the user action and then internal actions, each enabled when taken, up to quiescence, and
    showing exactly the recorded observation. *)
Theorem C17_acceptance_sound : forall fx states a o quiet kept s,
  accept_step fx states a o = Some (quiet, kept) -> In s kept ->
  exists t, In t states /\ reach_int fx (step' fx t a) s /\ successors fx s = [] /\ obs s = o.
Proof. exact accept_step_sound. Qed.

(** Non-vacuity: a run in which a remote reader (own cache) and a local reader hold read guards on
    the initial value, a writer waits, gets the guard after both release, commits 9, and a later
    read shows 9 with commit index 1. *)
Example C17_nonvacuous :
  let s := run FixNone nonvac_acts (init 5 2 [0; 1; 0]%nat) in
  map c_pc (clients s) = [RHold; CIdle; CIdle] /\
  option_map (guard_value s) (nth_error (clients s) 0) = Some (Some (9, 1)) /\
  o_log s = [9] /\ deadlocked FixNone s = false.
Proof. exact nonvacuous_run. Qed.

Print Assumptions C17_exclusion.
Print Assumptions C17_fresh.
Print Assumptions C17_write_fresh.
Print Assumptions C17_durable.
Print Assumptions C17_durable_step.
Print Assumptions C17_progress_refuted.
Print Assumptions C17_progress_refuted_clear_if_stale.
Print Assumptions C17_progress.
Print Assumptions C17_measure.
Print Assumptions C17_terminates.
Print Assumptions C17_acceptance_sound.
