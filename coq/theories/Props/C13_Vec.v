(** C13 (vector) -- a mirror of an [ObservableVec] equals the vector.
    Only statements, [exact] proofs and assumption printing live here.
    Model: [Robs/Vec.v] (transcription of /repo/remoc/src/robs/vec.rs), proofs: [Robs/VecProofs.v]. *)
From Remoc Require Import Lib.Base Robs.SeqCommon Robs.Vec Robs.VecProofs.
From Remoc Require Gen.Api Gen.Variants.

(** For every initial content, every sequence [ops] of mutator calls that does not panic, every
    subscription point [k] and both subscription modes: the events the subscription delivers are the
    initial-value events for the state after [k] calls followed by the events of [ops[k..]];
    provided [max_size] is not exceeded,
    (a) the mirror task fed with them ends without error holding exactly the final contents, with
        [complete] set and [done] equal to the vector's done flag;
    (b) applying the same events by hand, starting from [take_initial()], gives the same, always. *)
Theorem C13_Vec_mirror_equals_collection : forall init ops k cf e,
  run_ops (start init) ops = Ok (cf, e) ->
  exists ck e1 e2,
    run_ops (start init) (firstn k ops) = Ok (ck, e1) /\
    run_ops ck (skipn k ops) = Ok (cf, e2) /\ e = e1 ++ e2 /\
    forall md mx,
      run_bounded mx ck (skipn k ops) ->
      mirror_task (sub_mirror md ck mx) (sub_stream md ck e2) =
        HOk {| mv := items cf; mcomplete := true; mdone := cdone cf; mmax := mx |} /\
      fold_events (hand_start md ck mx) (sub_stream md ck e2) =
        HOk {| mv := items cf; mcomplete := true; mdone := cdone cf; mmax := mx |}.
Proof. exact mirror_equals_collection. Qed.

(** One mutator call: a mirror (or a hand consumer) that equals the vector before the call equals it
    after processing the events of the call; with [brk] (the mirror task) it stops exactly at [Done]. *)
Theorem C13_Vec_step : forall brk c o c1 e1 cp mx tl,
  apply_op c o = Ok (c1, e1) ->
  brk = false \/ cdone c = false ->
  len (items c1) <= mx ->
  task_gen brk (mirror_of c cp mx) (e1 ++ tl) =
  if brk && cdone c1 then HOk (mirror_of c1 cp mx) else task_gen brk (mirror_of c1 cp mx) tl.
Proof. exact step. Qed.

(** The done flag the mirror reports is set exactly when [done] was called. *)
Theorem C13_Vec_done_iff_called : forall init ops cf e,
  run_ops (start init) ops = Ok (cf, e) -> (cdone cf = true <-> In MarkDone ops).
Proof. exact done_iff_called. Qed.

(** Regression example (former finding F11, repaired in /repo): vector [7; 8], [done()], then
    [subscribe_incremental().mirror()] -- the mirror holds [7; 8], complete and done. *)
Example C13_Vec_incremental_after_done :
  let ck := {| items := [7; 8]; cdone := true |} in
  run_ops (start [7; 8]) [MarkDone] = Ok (ck, [EDone]) /\
  mirror_task (sub_mirror Incremental ck 10) (sub_stream Incremental ck []) =
    HOk {| mv := [7; 8]; mcomplete := true; mdone := true; mmax := 10 |}.
Proof. vm_compute. auto. Qed.

(** Tie to the source: the modelled mutators are the public [&mut self] methods of [ObservableVec]
    found in the source on this run (minus [set_error_handler]/[into_inner]); [RefMut]/[IterMut] have no
    inherent mutators (their writes go through [DerefMut]/[Drop], modelled by [GetMut]/[IterMut]);
    every constructor of [op] is listed; the modelled events are the variants of [VecEvent]. *)
Theorem C13_Vec_api_covered :
  map Names.op_name modelled_ops = Names.minus Gen.Api.vec_ObservableVec_mutators Names.non_mutating /\
  Gen.Api.vec_RefMut_mutators = [] /\ Gen.Api.vec_IterMut_mutators = [].
Proof. exact api_covered. Qed.
Theorem C13_Vec_ops_all_listed : forall o, In (Names.op_name o) (map Names.op_name (modelled_ops ++ trait_ops)).
Proof. exact ops_all_listed. Qed.
Theorem C13_Vec_events_covered : map Names.event_name modelled_events = Gen.Variants.VecEvent_variants.
Proof. exact events_covered. Qed.
Theorem C13_Vec_events_all_listed : forall e, In (Names.event_name e) (map Names.event_name modelled_events).
Proof. exact events_all_listed. Qed.

(** Non-vacuity: a run with no-ops, reference writes, retain, swap_remove and done; subscription in
    the middle, incremental; the mirror reaches the final contents. *)
Example C13_Vec_nonvacuous :
  let ops := [Push 4; Pop; Pop; GetMut 1 (Some 9); IterMut true [Some 5; None; Some 6]; Insert 2 1; SwapRemove 0;
              Retain [true; false; true]; Resize 5 2; Truncate 9; Fill 3; Clear; Clear; Extend [1; 2]; MarkDone; MarkDone] in
  exists ck e1 cf e2,
    run_ops (start [1; 2; 3]) (firstn 4 ops) = Ok (ck, e1) /\ run_ops ck (skipn 4 ops) = Ok (cf, e2) /\
    run_bounded 6 ck (skipn 4 ops) /\ items cf = [1; 2] /\ cdone cf = true /\
    mirror_task (sub_mirror Incremental ck 6) (sub_stream Incremental ck e2) =
      HOk {| mv := [1; 2]; mcomplete := true; mdone := true; mmax := 6 |}.
Proof.
  eexists _, _, _, _. split; [vm_compute; reflexivity|]. split; [vm_compute; reflexivity|].
  repeat split; vm_compute; congruence.
Qed.

Print Assumptions C13_Vec_mirror_equals_collection.
Print Assumptions C13_Vec_step.
Print Assumptions C13_Vec_done_iff_called.
Print Assumptions C13_Vec_api_covered.
Print Assumptions C13_Vec_ops_all_listed.
Print Assumptions C13_Vec_events_covered.
Print Assumptions C13_Vec_events_all_listed.
Print Assumptions C13_Vec_incremental_after_done.
