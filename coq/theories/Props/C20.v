(** C20 -- Handles and lazy values: confinement, type safety, fidelity, release.
    Only statements, [exact] proofs and assumption printing live here.

    Handles: the model is [Robj/Handle.v] (transcription of robj/handle.rs over the per-multiplexer
    chmux/any_storage.rs), proofs are in [Robj/HandleProofs.v].  [reach s]: [s] is the state after an
    ARBITRARY list of actions from the empty system -- creating handles ([new]/[provided]) on any
    endpoint at any type, cloning, dropping, casting, sending any handle over any connection to any
    endpoint (so: back and forth, forwarded over any number of connections), receiving or losing the
    messages in any order per connection end, forged messages with arbitrary ids, accesses
    ([as_ref]/[as_mut]/[into_inner]), provider drop/keep, and the removal tasks finishing at any
    moment they can.  UUIDs are fresh names (a collision is outside the model).

    Lazy values and blobs: the model is [Robj/Lazy.v] (provider = one chmux message, forwarders =
    chmux::forward over the receiver transcription of C01, fetcher = [recv] limited to the advertised
    length), proofs are in [Robj/LazyProofs.v]. *)
From Remoc Require Import Lib.Base Chmux.Parse Chmux.Recv Chmux.RecvProofs
  Robj.Handle Robj.HandleProofs Robj.Lazy Robj.LazyProofs.

(** * Confinement and type safety *)

(** An access yields a value only through a live handle that sits on the endpoint owning the value
    cell, whose type is the value's type, while the value has not been taken -- and the value is the
    one the handle was made for ([h_org], carried unchanged by clone, cast, send and receive). *)
Theorem C20_confined : forall s, reach s -> forall a h x,
  is_access a h -> snd (step s a) = RVal x ->
  exists hd cl, live_handle s h = Some hd /\ getN (cells s) x = Some cl /\
    c_owner cl = h_ep hd /\ c_tag cl = h_tag hd /\ c_taken cl = false /\
    (forall v0, h_org hd = Some v0 -> v0 = x).
Proof. exact r_confined. Qed.

(** Every other outcome of an access through an existing handle is [Unknown] or [MismatchedType]. *)
Theorem C20_access_outcomes : forall s a h, is_access a h ->
  match snd (step s a) with
  | RVal _ | RUnknown | RMismatch => live_handle s h <> None
  | RNone => live_handle s h = None
  | _ => False
  end.
Proof. exact access_outcomes. Qed.

(** On any endpoint other than the creating one: [Unknown] (whatever the path the handle took). *)
Theorem C20_foreign_unknown : forall s, reach s -> forall a h hd v0 cl0,
  is_access a h -> live_handle s h = Some hd ->
  h_org hd = Some v0 -> getN (cells s) v0 = Some cl0 -> c_owner cl0 <> h_ep hd ->
  snd (step s a) = RUnknown.
Proof. exact r_foreign_unknown. Qed.

(** After a cast to another type (or a deserialization at another type): an error, never a value. *)
Theorem C20_wrong_type_error : forall s, reach s -> forall a h hd v0 cl0,
  is_access a h -> live_handle s h = Some hd ->
  h_org hd = Some v0 -> getN (cells s) v0 = Some cl0 -> c_tag cl0 <> h_tag hd ->
  snd (step s a) = RUnknown \/ snd (step s a) = RMismatch.
Proof. exact r_wrong_type_error. Qed.

(** Use after take: [into_inner] that reaches the cell empties it (also on a type mismatch), and a
    taken value is never obtained again, by any continuation. *)
Theorem C20_into_inner_takes : forall s h x,
  (snd (step s (AIntoInner h)) = RVal x \/ snd (step s (AIntoInner h)) = RMismatch) ->
  exists hd v cl, live_handle s h = Some hd /\ st_cell (h_st hd) = Some v /\
    getN (cells (fst (step s (AIntoInner h)))) v = Some cl /\ c_taken cl = true /\
    (snd (step s (AIntoInner h)) = RVal x -> v = x).
Proof. exact into_inner_takes. Qed.
Theorem C20_taken_forever : forall s, reach s -> forall acts x cl,
  getN (cells s) x = Some cl -> c_taken cl = true -> ~ In (RVal x) (snd (hrun acts s)).
Proof. exact r_taken_forever. Qed.

(** * Release *)

(** While the storage entry of an id is present although no genuine handle or message with that id
    is left anywhere, or although the provider was dropped, its removal task exists and can finish,
    and finishing removes the entry ... *)
Theorem C20_release_enabled : forall s, reach s -> forall en,
  In en (storage s) ->
  (holders s (s_id en) = 0 \/ prov_of s (s_cell en) = PDropped) ->
  exists s', step s (ARelease (s_id en)) = (s', RUnit) /\ ~ In en (storage s') /\ incl (storage s') (storage s).
Proof. exact r_release_enabled. Qed.
(** ... so in every state where no removal task can run, every entry still stored has a holder and
    a provider that was not dropped. *)
Theorem C20_release : forall s, reach s -> forall en,
  quiescent s -> In en (storage s) ->
  holders s (s_id en) <> 0 /\ prov_of s (s_cell en) <> PDropped.
Proof. exact r_quiescent_released. Qed.
(** The value itself: at quiescence it is gone once no live handle refers to its cell and either the
    provider was dropped or nothing (handle anywhere, message in flight) descends from its handle.
    (After a provider drop only live handles on the creating endpoint itself keep the value.) *)
Theorem C20_value_released : forall s, reach s -> forall v,
  quiescent s ->
  (forall hd, In hd (handles s) -> h_live hd = true -> st_cell (h_st hd) <> Some v) ->
  (prov_of s v = PDropped \/
   (forall hd, In hd (handles s) -> h_live hd = true -> descends v (h_org hd) = false) /\
   (forall m, In m (flight s) -> descends v (m_org m) = false)) ->
  value_alive s v = false.
Proof. exact r_value_released. Qed.
(** The big step compared with the implementation (action, then every removal task that can finish)
    ends in a quiescent reachable state. *)
Theorem C20_big_step_quiescent : forall s, reach s -> forall a,
  quiescent (fst (big_step s a)) /\ reach (fst (big_step s a)).
Proof. exact r_big_step. Qed.

(** * Fidelity of lazy values and blobs *)

(** A completed fetch returns exactly the provided bytes -- for every number of forwarders
    ([hops], induction), every chunk size and [max_data_size] of each (whole or streamed
    forwarding), and every cut position on every connection. *)
Theorem C20_fidelity : forall answers ck0 bytes hops mp lastcut b,
  lazy_fetch answers ck0 bytes hops mp lastcut = FOk b -> b = bytes.
Proof. exact fidelity. Qed.

(** A transfer that is cut short is an error, neither a (truncated) value nor a hanging fetch: if
    what some connection on the path delivers contains no complete message (it was cut before the
    last frame, or the provider never answered), the fetch ends with an error. *)
Theorem C20_interrupted_inner : forall answers ck0 bytes hops1 x hops2 mp lastcut,
  data_of (parse (fst (deliver (fst x) (relay hops1 (provider_frames answers ck0 bytes))))) = [] ->
  lazy_fetch answers ck0 bytes (hops1 ++ x :: hops2) mp lastcut = FErr.
Proof. exact interrupted_inner. Qed.
Theorem C20_interrupted_last : forall answers ck0 bytes hops mp lastcut,
  data_of (parse (fst (deliver lastcut (relay hops (provider_frames answers ck0 bytes))))) = [] ->
  lazy_fetch answers ck0 bytes hops mp lastcut = FErr.
Proof. exact interrupted_last. Qed.

(** The two ingredients, both instances of the parser theorem of C01: a forwarder never sends a data
    message it has not completely received (whatever reaches it, however its input ends); the
    fetcher's [recv] returns the first complete data message of what reached it. *)
Theorem C20_forwarder_never_completes_early : forall c arrived failed,
  prefix (data_of (parse (node_out c arrived failed))) (data_of (parse arrived)).
Proof. exact node_prefix. Qed.
Theorem C20_fetcher_first_complete : forall md mp q r' q' b,
  recv (rinit md mp) q = (r', q', OData b) -> exists pre, prefix pre q /\ data_of (parse pre) = [MData b].
Proof. exact recv_first. Qed.

(** Non-vacuity.  Handles: a value of type 5 created on endpoint 0; a clone travels to endpoint 1
    (Unknown there), comes back over the same connection (the value), a second clone that comes back
    after it is Unknown even at home (the id was removed by the first); a cast gives MismatchedType;
    [into_inner] through the cast handle destroys the value; afterwards Unknown; the value is gone.
    Lazy: 10 bytes through a streaming and a whole forwarder arrive; cut after two frames on the
    second connection: an error. *)
Example C20_nonvacuous :
  snd (hrun [ANew 0 5 true; AClone 0; AClone 0; ASend 1 0 1 77; ARecv 0 1; AAsRef 3; AClone 3;
             ASend 3 0 0 0; ASend 4 0 0 0; ARecv 0 0; ARecv 0 0; AAsRef 5; AAsRef 6;
             ACast 5 6; AAsMut 5; AIntoInner 5; AAsRef 0] init)
  = [RHandle 0; RHandle 1; RHandle 2; RUnit; RHandle 3; RUnknown; RHandle 4;
     RUnit; RUnit; RHandle 5; RHandle 6; RVal 0; RUnknown;
     RUnit; RMismatch; RMismatch; RUnknown] /\
  (let hops c := [(c, mk_fcfg 3 4 8); (None, mk_fcfg 100 100 8)] in
   lazy_fetch true 4 [1;2;3;4;5;6;7;8;9;10] (hops None) 8 None = FOk [1;2;3;4;5;6;7;8;9;10] /\
   lazy_fetch true 4 [1;2;3;4;5;6;7;8;9;10] (hops (Some 2%nat)) 8 None = FErr /\
   lazy_fetch true 4 [1;2;3;4;5;6;7;8;9;10] (hops None) 8 (Some 0%nat) = FErr /\
   lazy_fetch false 4 [1;2;3;4;5;6;7;8;9;10] (hops None) 8 None = FErr).
Proof. vm_compute. auto. Qed.

Print Assumptions C20_confined.
Print Assumptions C20_access_outcomes.
Print Assumptions C20_foreign_unknown.
Print Assumptions C20_wrong_type_error.
Print Assumptions C20_into_inner_takes.
Print Assumptions C20_taken_forever.
Print Assumptions C20_release_enabled.
Print Assumptions C20_release.
Print Assumptions C20_value_released.
Print Assumptions C20_big_step_quiescent.
Print Assumptions C20_fidelity.
Print Assumptions C20_interrupted_inner.
Print Assumptions C20_interrupted_last.
Print Assumptions C20_forwarder_never_completes_early.
Print Assumptions C20_fetcher_first_complete.
