(** C19 -- Abandoned or failing calls are cancelled and never wedge the server.
    Only statements, [exact] proofs and assumption printing live here.  Model [Rtc/Server.v], proofs
    [Rtc/ServerProofs.v]; see [Props/C12.v] for what an action list ranges over.  The per-state
    theorems below hold in EVERY state [s] (reachable or not), for an arbitrary target state machine. *)
From Remoc Require Import Lib.Base Rtc.Lin Rtc.Server Rtc.ServerProofs Run.RunRtc.
From RecordUpdate Require Import RecordUpdate.

(** Cancellation.  When the reply cell of a cancellable method is closed (caller dropped the call
    future, or connection lost), the next step of its handler -- in whatever phase: not started,
    suspended before its effect, suspended after it -- is [Abandon]: nothing of the method runs any
    more, the reply sender is dropped and the guard the handler held is released in that very step. *)
Theorem C19_cancel : forall (St Arg Rep : Type) (apply : St -> call Arg -> St * Rep) (too_big : call Arg -> Rep -> bool)
    (s : sys St Arg Rep) h,
  c_nocancel (q_call (h_req h)) = false -> is_closed s (q_cell (h_req h)) = true ->
  let i := q_cell (h_req h) in
  let e := match h_ph h with PNew => ESkip i | _ => ECancel i end in
  poll_h apply too_big s h = (ev_add e (release (h_lk h) (set_slot i SDead s)), None).
Proof. exact @cancel_abandons. Qed.

(** For the handler the serve loop runs inline: after that step the loop is back at its [select] (or
    behind the loop after a by-value request), the lock is released, queue, tasks, target and logical
    state are untouched, nothing was executed, no other call is affected ... *)
Theorem C19_cancel_inline : forall (St Arg Rep : Type) (apply : St -> call Arg -> St * Rep) (too_big : call Arg -> Rep -> bool)
    (s : sys St Arg Rep) h,
  loop s = LRun h -> c_nocancel (q_call (h_req h)) = false -> is_closed s (q_cell (h_req h)) = true ->
  let s' := loop_step apply too_big s in
  loop s' = after_handler s h /\ released (h_lk h) s s' /\ queue s' = queue s /\ tasks s' = tasks s /\
  target s' = target s /\ lst s' = lst s /\ errq s' = errq s /\
  (forall j, execs j (trace s') = execs j (trace s)) /\
  (forall j, j <> q_cell (h_req h) -> get_call s' j = get_call s j).
Proof. exact @cancel_inline. Qed.

(** ... and the next step of the loop takes the next request: later requests are served. *)
Theorem C19_cancel_next : forall (St Arg Rep : Type) (apply : St -> call Arg -> St * Rep) (too_big : call Arg -> Rep -> bool)
    (s : sys St Arg Rep) q rest,
  loop s = LIdle -> errq s = 0 -> queue s = QReq q :: rest ->
  loop_step apply too_big s = dispatch (s <| queue := rest |>) q.
Proof. exact @idle_serves_next. Qed.

(** For a spawned handler task (shared and shared-mut servers): the task ends, its read guard is
    released, the loop and every other task are untouched. *)
Theorem C19_cancel_task : forall (St Arg Rep : Type) (apply : St -> call Arg -> St * Rep) (too_big : call Arg -> Rep -> bool)
    (s : sys St Arg Rep) k h,
  nth_error (tasks s) k = Some h -> c_nocancel (q_call (h_req h)) = false -> is_closed s (q_cell (h_req h)) = true ->
  let s' := task_step apply too_big s k in
  tasks s' = del k (tasks s) /\ released (h_lk h) s s' /\ loop s' = loop s /\ queue s' = queue s /\
  target s' = target s /\ lst s' = lst s /\
  (forall j, execs j (trace s') = execs j (trace s)) /\
  (forall j, j <> q_cell (h_req h) -> get_call s' j = get_call s j).
Proof. exact @cancel_task. Qed.

(** No guard is ever leaked, along every run of the shared-mut server: the read guards held are exactly
    those of the live handlers and the write guard is held iff a live handler holds it; with no live
    handler the lock is free, so a request waiting for it is served. *)
Theorem C19_no_lock_leak : forall (St Arg Rep : Type) (apply : St -> call Arg -> St * Rep) (too_big : call Arg -> Rep -> bool)
    f sp p re ncl s0 acts,
  let s := run apply too_big acts (init f sp p re ncl s0) in
  flav s = FSharedMut ->
  rd s = N.of_nat (nreads (handlers s)) /\ (wr s = true <-> (0 < nwrites (handlers s))%nat) /\
  (handlers s = [] -> rd s = 0 /\ wr s = false).
Proof. exact @no_lock_leak. Qed.

(** A [#[no_cancel]] method runs to completion whatever happens to its caller: each poll takes it one
    phase further -- start, effect, return (guard released) -- and never abandons it. *)
Theorem C19_no_cancel : forall (St Arg Rep : Type) (apply : St -> call Arg -> St * Rep) (too_big : call Arg -> Rep -> bool)
    (s : sys St Arg Rep) h,
  c_nocancel (q_call (h_req h)) = true ->
  let i := q_cell (h_req h) in
  let c := q_call (h_req h) in
  match h_ph h with
  | PNew => forall t, target s = Some t ->
            snd (poll_h apply too_big s h) = Some (mkH (h_req h) (PRun t) (h_lk h)) /\
            trace (fst (poll_h apply too_big s h)) = EStart i :: trace s
  | PRun t => snd (poll_h apply too_big s h) = Some (mkH (h_req h) (PApplied (snd (apply t c))) (h_lk h)) /\
              trace (fst (poll_h apply too_big s h)) = EExec i c (snd (apply t c)) :: trace s
  | PApplied r => snd (poll_h apply too_big s h) = None /\ trace (fst (poll_h apply too_big s h)) = EFinish i :: trace s /\
                  released (h_lk h) s (fst (poll_h apply too_big s h))
  end.
Proof. exact @no_cancel_runs. Qed.

(** Isolation.  A request that cannot be decoded (this includes a call of a method the server does not
    know) fails only that call: on arrival its own reply sender is dropped (its caller gets a
    [CallError]), a non-final receive error is queued, nothing else changes; *)
Theorem C19_isolated : forall (St Arg Rep : Type) (apply : St -> call Arg -> St * Rep) (too_big : call Arg -> Rep -> bool)
    (s : sys St Arg Rep) k cl q,
  first_of_client (wire s) (N.to_nat k) = true -> nth_error (wire s) (N.to_nat k) = Some (cl, q) ->
  c_bad (q_call q) = true -> is_done (loop s) = false ->
  let s' := step apply too_big s (ADeliverReq k) in
  queue s' = queue s ++ [QBad] /\ loop s' = loop s /\ tasks s' = tasks s /\ target s' = target s /\ lst s' = lst s /\
  trace s' = trace s /\
  (forall j, j <> q_cell q -> get_call s' j = get_call s j) /\
  (forall cr, get_call s (q_cell q) = Some cr -> exists cr', get_call s' (q_cell q) = Some cr' /\ cr_slot cr' = SDead).
Proof. exact @bad_request_arrives. Qed.

(** the loop handles the error per policy: under Ignore and Send its state is otherwise unchanged
    (it stays at its [select] and goes on with the rest of the queue), under Fail [serve()] returns it; *)
Theorem C19_isolated_policy : forall (St Arg Rep : Type) (apply : St -> call Arg -> St * Rep) (too_big : call Arg -> Rep -> bool)
    (s : sys St Arg Rep) rest,
  loop s = LIdle -> errq s = 0 -> queue s = QBad :: rest ->
  loop_step apply too_big s =
  match pol s with
  | PIgnore => ev_add EReqErr (s <| queue := rest |>)
  | PSend => ev_add EReqErr (s <| queue := rest |>) <| uerrs := uerrs s + 1 |>
  | PFail => finish RErrReq (ev_add EReqErr (s <| queue := rest |>))
  end.
Proof. exact @bad_request_handled. Qed.

(** a request of a kind the server flavour does not serve is received and dropped. *)
Theorem C19_isolated_kind : forall (St Arg Rep : Type) (apply : St -> call Arg -> St * Rep) (too_big : call Arg -> Rep -> bool)
    (s : sys St Arg Rep) q rest,
  loop s = LIdle -> errq s = 0 -> queue s = QReq q :: rest -> supports (flav s) (c_kind (q_call q)) = false ->
  loop_step apply too_big s = set_slot (q_cell q) SDead (s <| queue := rest |>).
Proof. exact @unsupported_request_dropped. Qed.

(** Replies that exceed the size limit.  FULL STATEMENT (false on the current code, finding F6):
      forall acts, loop (run apply too_big acts (init f sp p re ncl s0)) <> LDone RErrReply
    -- "a reply exceeding the size limit fails only that call".
    The faithful model refutes it: [send_reply] forwards the transmission error to the serve loop,
    which returns [Err(ReplySend)]; a request of another client queued behind is dropped. *)
Theorem C19_reply_too_big_refuted :
  let big := mk_call false 2 5 16 in      (* add, reply exceeds the limit *)
  let get := mk_call false 0 7 0 in
  exists acts,
    let s := run apply_obj (too_big_obj 2000) acts (init FRefMut false PIgnore true 2 0) in
    loop s = LDone RErrReply /\
    In (EInv 1 1 get) (trace s) /\ In (ERet 1 OErr) (trace s) /\ execs 1 (trace s) = 0%nat.
Proof.
  exists [AInvoke 0 (mk_call false 2 5 16); ASend 0; ADeliverReq 0; ALoop; ALoop; ALoop; ALoop; ASendDone 0;
          AInvoke 1 (mk_call false 0 7 0); ASend 1; ADeliverReq 0; ALoop; AReturn 1].
  vm_compute. repeat split; auto.
Qed.

(** Outside the known class -- no reply exceeds the limit (or the provider does not report reply
    errors, as the [rfn] providers) -- the statement holds for every run. *)
Theorem C19_reply_too_big : forall (St Arg Rep : Type) (apply : St -> call Arg -> St * Rep) (too_big : call Arg -> Rep -> bool)
    f sp p re ncl s0 acts,
  (forall c r, too_big c r = false) \/ re = false ->
  loop (run apply too_big acts (init f sp p re ncl s0)) <> LDone RErrReply.
Proof. exact @reply_ok_never_fails. Qed.

(** Requests that exceed the size limit.  FULL STATEMENT (false on the current code, finding F14):
      forall acts cl, nth_error (clients (run ...)) cl <> Some ClPoisoned
    -- "an oversized request fails only that call".  The model refutes it: the client's request
    sender latches the send error, every later call through this client handle (and its clones
    sharing the port) fails although the server is alive, and the server's end of the port ends. *)
Theorem C19_request_too_big_refuted :
  let big := mk_call false 2 5 32 in      (* add, request exceeds the limit *)
  let get := mk_call false 0 7 0 in
  exists acts,
    let s := run apply_obj (too_big_obj 0) acts (init FRefMut false PIgnore true 1 0) in
    nth_error (clients s) 0 = Some ClPoisoned /\
    In (EInv 1 0 get) (trace s) /\ In (ERet 1 OErr) (trace s) /\ execs 1 (trace s) = 0%nat /\
    loop s = LDone ROk.
Proof.
  exists [AInvoke 0 (mk_call false 2 5 32); ASend 0; AInvoke 0 (mk_call false 0 7 0); ASend 1; ACloseReqs; ALoop; ALoop].
  vm_compute. repeat split; auto.
Qed.

Theorem C19_request_too_big : forall (St Arg Rep : Type) (apply : St -> call Arg -> St * Rep) (too_big : call Arg -> Rep -> bool)
    f sp p re ncl s0 acts,
  no_big_requests acts ->
  forall cl, nth_error (clients (run apply too_big acts (init f sp p re ncl s0))) cl <> Some ClPoisoned.
Proof. exact @request_ok_never_poisons. Qed.

(** Non-vacuity, ref-mut server on the counter object, two clients: client 0's cancellable [add] has
    started (suspended before its effect) when its caller drops the call; the close notification
    arrives; the loop's next step abandons the method (no effect: the state stays 0), and the request of
    client 1 queued behind it is served and answered (7 = 0 + 7).  With [add_nc] (no_cancel) in the same
    schedule the method runs to completion (state 6) before client 1 is served (13 = 6 + 7). *)
Example C19_nonvacuous :
  let get := mk_call false 0 7 0 in
  let sched c := [AInvoke 0 c; AInvoke 1 get; ASend 0; ASend 1; ADeliverReq 0; ADeliverReq 0;
                  ALoop; ALoop; ADropCall 0; ANotifyClose 0; ALoop; ALoop; ALoop; ALoop; ALoop; ALoop; ALoop; ALoop;
                  ADeliverReply 1; AReturn 1] in
  let s := run apply_obj (too_big_obj 0) (sched (mk_call false 2 5 0)) (init FRefMut false PIgnore true 2 0) in
  let s' := run apply_obj (too_big_obj 0) (sched (mk_call false 3 5 0)) (init FRefMut false PIgnore true 2 0) in
  In (ECancel 0) (trace s) /\ execs 0 (trace s) = 0%nat /\ lst s = 0 /\ In (ERet 1 (OVal 7)) (trace s) /\
  ~ In (ECancel 0) (trace s') /\ execs 0 (trace s') = 1%nat /\ lst s' = 6 /\ In (ERet 1 (OVal 13)) (trace s').
Proof. vm_compute. repeat split; auto; intuition discriminate. Qed.

Print Assumptions C19_cancel.
Print Assumptions C19_cancel_inline.
Print Assumptions C19_cancel_next.
Print Assumptions C19_cancel_task.
Print Assumptions C19_no_lock_leak.
Print Assumptions C19_no_cancel.
Print Assumptions C19_isolated.
Print Assumptions C19_isolated_policy.
Print Assumptions C19_isolated_kind.
Print Assumptions C19_reply_too_big_refuted.
Print Assumptions C19_reply_too_big.
Print Assumptions C19_request_too_big_refuted.
Print Assumptions C19_request_too_big.
