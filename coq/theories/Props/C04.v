(** C04 -- Typed channels: per-sender prefix delivery; item failures never create gaps.
    Only statements, [exact] proofs and assumption printing live here.

    Vocabulary ([Rch/Base.v], [Rch/BaseProofs.v], [Rch/Mpsc.v]):
    - [decode]/[ports_of]: the codec, abstract (a value is its encoding; exact round trip);
      [honest]: no proper prefix of an encoding is an encoding (self-delimiting), the ports collected
      while serializing are those the deserializer expects, at most [dflt] = [max_received_ports] of them;
    - [send_all c bd its]: [rch::base::Sender::send] applied to a list of items, each with an arbitrary
      flow-control budget (any cancellation point), a [Serialize] failure after any number of bytes,
      any size relative to [max_data_size] / [chunk_size] / [max_item_size] ([c]), any state [bd] of the
      big-data heuristic; yields per item what was handed to chmux and the result reported to the caller;
    - [Framed atts fs]: [fs] is ANY cutting of the attempts into chmux frames (credit grants decide);
    - [acts]: the receiver's schedule -- frames taken from the port queue, interleaved at will with
      [recv] calls that are dropped while pending and repeated ([RReenter]); a prefix of it is a
      connection or channel that ended early;
    - [brun]: [rch::base::Receiver::recv] run over that schedule ([RReenter]: the feed loop notices that
      the deserializer thread has ended, e.g. when a dropped [recv] is repeated). *)
From Remoc Require Import Lib.Base Chmux.Parse Chmux.Recv Chmux.PortFlow Rch.Base Rch.BaseProofs Rch.BaseLink Rch.Mpsc Rch.MpscProofs Rch.C04Link Run.RunBase.

(** The receiver's results are, send by send and in order, what each send means ([sent_spec]): for
    every codec, all limits on both sides, every item sequence with failing / oversized / cancelled
    items anywhere, every framing and every receiver schedule. *)
Theorem C04_base : forall decode ports_of md rmax dflt c its bd acts,
  Forall (honest decode ports_of dflt) (map fst its) ->
  Framed (flat_map s_atts (send_all c bd its)) (frames_of acts) ->
  snd (brun decode ports_of (binit md dflt rmax) acts) =
  flat_map (sent_spec decode md rmax) (send_all c bd its).
Proof. exact base_end_to_end. Qed.

(** ... whose successful results are exactly the values whose send returned Ok and which the receiver
    can accept -- equal to the originals, in order, each once (nothing duplicated, truncated, merged). *)
Theorem C04_base_values : forall decode ports_of md rmax dflt c its bd,
  Forall (honest decode ports_of dflt) (map fst its) ->
  oks (flat_map (sent_spec decode md rmax) (send_all c bd its)) =
  filter (acceptable decode rmax) (sent_ok (send_all c bd its)).
Proof. exact base_success. Qed.

(** ... and where every send contributes at most one result, at its own position: its value, or nothing,
    or ONE non-final error ([MaxItemSizeExceeded] / [Deserialize]) -- the latter only for a send that
    failed or whose value the receiver cannot accept. *)
Theorem C04_base_attribution : forall decode ports_of md rmax dflt c its bd,
  Forall (honest decode ports_of dflt) (map fst its) ->
  Forall (attributed decode md rmax) (send_all c bd its).
Proof. exact base_attribution. Qed.

(** When only part of the schedule happens (channel or connection ended), the results are a prefix:
    values are lost only as a suffix. *)
Theorem C04_base_prefix : forall decode ports_of s a1 a2,
  prefix (snd (brun decode ports_of s a1)) (snd (brun decode ports_of s (a1 ++ a2))).
Proof. exact brun_prefix. Qed.

(** The framing used by the executable interface (and compared with the implementation) is one of the
    framings quantified over. *)
Theorem C04_canonical_framing : forall ck atts, Forall att_ok atts -> Framed atts (flat_map (att_frames ck) atts).
Proof. exact att_frames_Framed. Qed.

(** Link to the chmux port model (C01-C03): under EVERY schedule of the port whose user is a base sender
    ([send], chunk sender, [connect], cancellation at every await; credit grants, queue slots, deliveries,
    credit returns, closure) the frames handed over ARE such a framing -- of an attempt list whose complete
    members are exactly the operations that returned Ok -- and the receiving side has taken a prefix. *)
Theorem C04_port_emits_framings : forall c md mp acts,
  cfg_ok c -> Forall base_act acts ->
  let s := run acts (init c md mp) in
  exists atts, Framed atts (emitted s) /\ completes atts = completed s /\
               exists rest, emitted s = consumed s ++ rest.
Proof. exact emitted_framed. Qed.

(** The former finding F15 (an unfinished message that carries a complete encoding: [Serialize] failing
    after the last byte, or a send dropped while [finish] waits for credit; the receiver's pending [recv]
    dropped and repeated) on the repaired receiver: nothing is delivered for the failed send, its
    neighbour arrives. *)
Example C04_former_F15_serialize :
  map s_res f15_sent = [SErrSer; SOk] /\
  map s_atts (firstn 1 f15_sent) = [[ADataCut (toy_bytes 7 0 0 12)]] /\ toy_decode (toy_bytes 7 0 0 12) = DOk /\
  snd (brun toy_decode toy_ports (binit 8 128 1000)
         (map RFrame (flat_map (att_frames 4) (flat_map s_atts (firstn 1 f15_sent))) ++ [RReenter; RReenter])) = [] /\
  snd (brun toy_decode toy_ports (binit 8 128 1000) f15_acts) = [ROk (toy_bytes 8 0 0 5)] /\
  sent_ok f15_sent = [toy_bytes 8 0 0 5].
Proof. exact f15_repaired. Qed.

Example C04_former_F15_cancel :
  map s_res f15_sent2 = [SCancelled] /\
  map s_atts f15_sent2 = [[ADataCut (toy_bytes 7 0 0 12)]] /\
  snd (brun toy_decode toy_ports (binit 8 128 1000)
         (map RFrame (flat_map (att_frames 4) (flat_map s_atts f15_sent2)) ++ [RReenter; RReenter])) = [].
Proof. exact f15_repaired2. Qed.

(** [rch::lr]: [lr::Sender::send] and [lr::Receiver::recv] hand over to the base halves of the lr port
    ([lr/sender.rs], [lr/receiver.rs]); the statement is that of the base channel. *)
Theorem C04_lr : forall decode ports_of md rmax dflt c its bd acts,
  Forall (honest decode ports_of dflt) (map fst its) ->
  Framed (flat_map s_atts (send_all c bd its)) (frames_of acts) ->
  oks (snd (brun decode ports_of (binit md dflt rmax) acts)) =
  filter (acceptable decode rmax) (sent_ok (send_all c bd its)).
Proof.
  exact (fun decode ports_of md rmax dflt c its bd acts Hh Hf =>
           eq_trans (f_equal (oks) (base_end_to_end decode ports_of md rmax dflt c its bd acts Hh Hf))
                    (base_success decode ports_of md rmax dflt c its bd Hh)).
Qed.

(** [rch::mpsc], receiving endpoint, every schedule of the forwarding tasks, of port / connection ends
    and of the user's [recv] calls: per sender, received entries ++ queued entries ++ entries still to
    come = what that sender's base receiver yields.  Nothing is dropped, duplicated or reordered; a
    non-final error does not cost a neighbouring value. *)
Theorem C04_mpsc_conservation : forall ss c acts i,
  src_ok ss ->
  let s := mrun acts (minit ss c) in
  proj_o i (outs s) ++ proj_q i (queue s) ++ nth i (srcs s) [] = nth i ss [].
Proof. exact mpsc_conservation. Qed.

(** Composed with the base layer: the values received from sender [i] are a prefix of the values that
    sender sent successfully (and the receiver can accept), whatever the other senders do. *)
Theorem C04_mpsc : forall decode ports_of md rmax dflt xs c macts i,
  Forall (rs_ok decode ports_of dflt) xs ->
  let s := mrun macts (minit (map (rs_src decode ports_of md rmax dflt) xs) c) in
  prefix (vals (proj_o i (outs s)))
         (match nth_error xs i with
          | Some x => filter (acceptable decode rmax) (sent_ok (rs_sent x))
          | None => []
          end).
Proof. exact mpsc_end_to_end. Qed.

(** The end of the channel ([Ok(None)] or the held back final error) is reported only when every
    forwarding task has ended and the queue is empty; nothing but the end is reported afterwards. *)
Theorem C04_mpsc_end : forall ss c acts,
  let s := mrun acts (minit ss c) in
  tail_ended (outs s) /\
  (existsb ended (outs s) = true -> queue s = [] /\ existsb (fun b => b) (alive s) = false).
Proof. exact mpsc_end_is_final. Qed.

(** [rch::oneshot] = mpsc with a local buffer of one and a sender consumed by its only send. *)
Theorem C04_oneshot : forall decode ports_of md rmax dflt x macts,
  rs_ok decode ports_of dflt x -> (length (rs_its x) <= 1)%nat ->
  let s := mrun macts (minit [rs_src decode ports_of md rmax dflt x] 1) in
  prefix (vals (proj_o 0 (outs s))) (filter (acceptable decode rmax) (sent_ok (rs_sent x))) /\
  (length (sent_ok (rs_sent x)) <= 1)%nat.
Proof. exact oneshot_end_to_end. Qed.

(** Non-vacuity: a buffered value, a streamed value whose serialization fails after 10 bytes, a streamed
    value with a channel half; the receiver obtains exactly the first and the third. *)
Example C04_nonvacuous :
  map s_res ex_sent = [SOk; SErrSer; SOk] /\
  snd (brun toy_decode toy_ports (binit 8 128 1000) ex_acts) = [ROk (toy_bytes 1 0 0 6); ROk (toy_bytes 3 1 0 20)] /\
  sent_ok ex_sent = [toy_bytes 1 0 0 6; toy_bytes 3 1 0 20].
Proof. exact ex_run. Qed.

Print Assumptions C04_base.
Print Assumptions C04_base_values.
Print Assumptions C04_base_attribution.
Print Assumptions C04_base_prefix.
Print Assumptions C04_canonical_framing.
Print Assumptions C04_port_emits_framings.
Print Assumptions C04_former_F15_serialize.
Print Assumptions C04_former_F15_cancel.
Print Assumptions C04_lr.
Print Assumptions C04_mpsc_conservation.
Print Assumptions C04_mpsc.
Print Assumptions C04_mpsc_end.
Print Assumptions C04_oneshot.
