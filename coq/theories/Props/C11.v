(** C11 -- Close and drop reach the other half, correctly classified, losing no sent data.
    Port level and dispatcher level; the typed channels built on ports are covered by their own checks. *)
From Remoc Require Import Lib.Base Chmux.Wire Chmux.Mux Chmux.MuxClose
  Chmux.Parse Chmux.Recv Chmux.RecvProofs Chmux.PortFlow Chmux.PortFlowProofs.

(** Dropping all senders: for every schedule, when the receiver observes end-of-stream it has obtained
    every completed send and nothing is left under way -- never end-of-stream with a message missing
    (the [Finished] marker travels the same per-port FIFO as the data). *)
Theorem C11_eos_complete : forall c md mp acts,
  cfg_ok c -> let s := run acts (init c md mp) in
  finished (rcv s) = true ->
  data_of (delivered_msgs (delivered s)) = data_of (completed s) /\ rxq s = [] /\ link s = [] /\ evq s = [].
Proof.
  intros c md mp acts Hc. exact (eos_complete md mp _ (Inv_run c md mp acts Hc) (inv_fin_run c md mp acts Hc)).
Qed.

(** Closing a receiver keeps what was sent: closing the pool removes nothing that was handed over --
    the delivered messages stay a prefix of the completed sends and reach equality at quiescence ([TClose]
    is one of the actions the schedules of C01 range over) -- while a send started afterwards is
    woken and fails without emitting anything. *)
Theorem C11_close_keeps_sent : forall c md mp acts,
  cfg_ok c -> let s := run acts (init c md mp) in
  rxq s = [] -> link s = [] -> evq s = [] -> (op s = SIdle \/ exists f a, op s = SChunkIdle f a) ->
  data_of (delivered_msgs (delivered s)) = data_of (completed s).
Proof. intros c md mp acts Hc. exact (delivery_complete md mp _ (Inv_run c md mp acts Hc)). Qed.

Theorem C11_send_after_close_fails : forall s g data,
  closed s = Some g -> op s = SIdle -> tx_dropped s = false -> data <> [] ->
  let s' := run [USend data; TReq] s in
  op s' = SIdle /\ completed s' = completed s /\ emitted s' = emitted s /\ pool s' = pool s.
Proof. exact send_after_close_fails. Qed.

(** Classification at the sending endpoint: [ReceiveClose] closes the credit pool gracefully,
    [ReceiveFinish] non-gracefully -- also when it follows a graceful close -- or frees the port. *)
Theorem C11_close_is_graceful : forall m p c,
  lookup p (ports m) = Some (Connected c) -> rrx_closed c = false -> rrx_dropped c = false ->
  exists m' effs c',
    handle_received m (ReceiveClose p) 0 = Done m' effs /\
    lookup p (ports m') = Some (Connected c') /\ send_verdict c' = Some true /\ rrx_closed c' = true.
Proof. exact receive_close_classified. Qed.

Theorem C11_drop_is_not_graceful : forall m p c,
  lookup p (ports m) = Some (Connected c) ->
  exists m' effs,
    handle_received m (ReceiveFinish p) 0 = Done m' effs /\
    match lookup p (ports m') with
    | Some (Connected c') => send_verdict c' = Some false /\ rrx_closed c' = true /\ rrx_dropped c' = true
    | Some (Connecting _) => False
    | None => Mux.tx_dropped c = true /\ rx_dropped c = true /\ rx_open c = false
    end.
Proof. exact receive_finish_classified. Qed.

Example C11_nonvacuous :
  let c := {| chunk := 4; limit := 8; cap_s := 2; cap_r := 2 |} in
  let s := run [USend [1;2;3]; TReq; TEmit; UDropTx; TMux; TMux; TLink; TLink; RConsume; RConsume] (init c 100 10) in
  finished (rcv s) = true /\ delivered s = [DData [1;2;3]] /\ completed s = [MData [1;2;3]].
Proof. vm_compute. auto. Qed.

Print Assumptions C11_eos_complete.
Print Assumptions C11_close_keeps_sent.
Print Assumptions C11_send_after_close_fails.
Print Assumptions C11_close_is_graceful.
Print Assumptions C11_drop_is_not_graceful.
