(** C06 -- Fail-stop: transport failure at any point errors every operation, hangs nothing.
    Statements proved on the models; the runtime half (wall-clock, Tokio wake-ups, OS sockets) is
    exercised by the fault harness under a virtual clock. *)
From Remoc Require Import Lib.Base Chmux.Wire Chmux.WireProofs Chmux.Mux Chmux.Endpoint Chmux.EndpointDeath
  Chmux.Parse Chmux.Recv Chmux.RecvProofs Chmux.PortFlow Chmux.PortFlowProofs Chmux.Time Chmux.TimeRun.

(** When a dispatcher ends -- because of what it received (protocol error, reset), or after Goodbye in
    both directions -- it ends for good: no action of the endpoint is enabled any more ... *)
Theorem C06_ended_is_final : forall e a, ended e -> Endpoint.step_opt e a = None.
Proof. exact ended_stuck. Qed.

(** ... and in every history that leads there, no connect request is left waiting: each has been
    given an outcome ([ChMux], or [Rejected] when the remote listener was known to be gone). *)
Theorem C06_no_connect_left_waiting : forall acts e,
  ~ ended e -> ended (Endpoint.run acts e) -> no_waiting (Endpoint.run acts e).
Proof. exact ended_no_waiting. Qed.

(** An operation waiting for flow credits is woken when its pool is closed or gone and ends with an
    error (no orphaned waiter at the port). *)
Theorem C06_credit_waiter_woken : forall s g,
  closed s = Some g -> running (op s) = true -> needs_credit (op s) = true ->
  exists s', PortFlow.step_opt s TReq = Some s' /\ op s' = SIdle.
Proof. exact closed_wakes_waiter. Qed.

(** What receivers obtained before a failure remains a prefix of what was sent: the prefix theorem of
    C01 holds in every reachable state, whatever happens afterwards. *)
Theorem C06_prefix : forall c md mp acts,
  cfg_ok c -> let s := PortFlow.run acts (init c md mp) in
  prefix (data_of (delivered_msgs (delivered s))) (data_of (completed s)).
Proof. intros c md mp acts Hc. exact (delivery_prefix md mp _ (Inv_run c md mp acts Hc)). Qed.

(** A silent transport is noticed: the receive timer is re-armed only by received messages, so it fires
    at most the enforced timeout after the last one. *)
Theorem C06_silence_is_noticed : forall last_rx t now, deadline last_rx t <= now -> enforced t <= now - last_rx.
Proof. exact silent_is_noticed. Qed.

(** An idle but healthy connection is never torn down by the timeout: with the announced timeout the
    peer pings at least every half announced timeout, which is at most half the enforced one; with a delay
    jitter below half the enforced timeout the gap between received messages stays below it --
    for EVERY configured timeout, including those below one millisecond (in continuous virtual time;
    Tokio's timers have a resolution of one millisecond, so the harness exercises timeouts >= 5 ms). *)
Theorem C06_idle_healthy : forall t jitter,
  t <= 18446744073709551615 * MS -> 2 * jitter < enforced t -> max_gap t jitter < enforced t.
Proof. exact idle_never_times_out. Qed.

(** ... for an idle period of ANY length: the two timers run over a whole timeline (the peer sends its next
    message at most one ping interval after the previous one, every message takes a delay within
    [dmin, dmin + jitter]); by induction over the timeline the receive timer never fires. *)
Theorem C06_idle_healthy_forever : forall t jitter dmin gs ds s0 d0,
  t <= 18446744073709551615 * MS -> 2 * jitter < enforced t ->
  gaps_ok (ping_interval t) gs -> delays_ok dmin jitter ds -> dmin <= d0 ->
  recv_run (enforced t) (s0 + d0) (arrivals (sends s0 gs) ds) = None.
Proof. exact idle_run_never_times_out. Qed.

(** ... and silence that begins after ANY such timeline is noticed exactly one enforced timeout after the
    last message that arrived (bounded time; the last re-arm is never later than the latest arrival). *)
Theorem C06_silence_after_any_prefix : forall t jitter dmin gs ds s0 d0 a rest,
  t <= 18446744073709551615 * MS -> 2 * jitter < enforced t ->
  gaps_ok (ping_interval t) gs -> delays_ok dmin jitter ds -> dmin <= d0 ->
  let arr := arrivals (sends s0 gs) ds in
  let last := recv_last (enforced t) (s0 + d0) arr in
  last + enforced t <= a ->
  recv_run (enforced t) (s0 + d0) (arr ++ a :: rest) = Some (last + enforced t) /\
  last <= maxl (s0 + d0) arr.
Proof. exact silence_after_any_prefix. Qed.

Example C06_timeline_nonvacuous :
  (* 0.9 ms timeout: pings every 0.5 ms with up to 0.3 ms jitter keep the link alive; without pings it dies *)
  gaps_ok (ping_interval 900000) [500000; 500000; 500000; 400000] /\
  delays_ok 0 300000 [100; 300000; 0; 299999] /\ 2 * 300000 < enforced 900000 /\
  recv_run (enforced 900000) 0 (arrivals (sends 0 [500000; 500000; 500000; 400000]) [100; 300000; 0; 299999]) = None /\
  recv_run (enforced 900000) 0 [5000000] = Some 1000000.
Proof. unfold gaps_ok, delays_ok. repeat split; try (repeat constructor; vm_compute; congruence); vm_compute; congruence. Qed.

(** A configured timeout is never announced as "none". *)
Theorem C06_timeout_announced : forall c,
  (x_timeout c = None <-> x_timeout (exchanged c) = None) /\
  (forall ns, x_timeout c = Some ns -> exists ms, 1 <= ms /\ x_timeout (exchanged c) = Some (ms * NS_PER_MS)).
Proof. exact timeout_presence_exchanged. Qed.

Example C06_nonvacuous :
  (* a hostile Hello on an established connection ends the dispatcher; the pending connect gets ChMux *)
  let e0 := ep_init (mux_init 64 64 4 64 3) 10 in
  let e := Endpoint.run [Endpoint.UConnect 1 1 true 0; Endpoint.DConn; Endpoint.Recv (Hello 3 {| x_timeout := None; x_chunk := 4; x_buffer := 4; x_queue := 1 |}) 0] e0 in
  Endpoint.dead e = Some PHello /\ lookup 0 (connects e) = Some (CResolved RChMux) /\ ~ ended e0 /\
  max_gap 900000 400000 < enforced 900000.
Proof. vm_compute. repeat split; try discriminate. intros [H|H]; [apply H; reflexivity|discriminate]. Qed.

Print Assumptions C06_ended_is_final.
Print Assumptions C06_no_connect_left_waiting.
Print Assumptions C06_credit_waiter_woken.
Print Assumptions C06_prefix.
Print Assumptions C06_silence_is_noticed.
Print Assumptions C06_idle_healthy.
Print Assumptions C06_idle_healthy_forever.
Print Assumptions C06_silence_after_any_prefix.
Print Assumptions C06_timeout_announced.
