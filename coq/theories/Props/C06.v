(** C06 -- Fail-stop: transport failure at any point errors every operation, hangs nothing.
    Statements proved on the models; the runtime half (wall-clock, Tokio wake-ups, OS sockets) is
    exercised by the fault harness under a virtual clock. *)
From Remoc Require Import Lib.Base Chmux.Wire Chmux.WireProofs Chmux.Mux Chmux.Endpoint Chmux.EndpointDeath
  Chmux.Parse Chmux.Recv Chmux.RecvProofs Chmux.PortFlow Chmux.PortFlowProofs Chmux.Time.

(** When a dispatcher ends -- because of what it received (protocol error, reset), or after Goodbye in
    both directions -- it ends for good: no action of the endpoint is enabled any more ... *)
Theorem C06_ended_is_final : forall e a, ended e -> Endpoint.step_opt e a = None.
Proof. exact ended_stuck. Qed.

(** ... and in every history that leads there, no connect request is left waiting: each has been
    given an outcome ([ChMux], or [Rejected] when the remote listener was known to be gone). *)
Theorem C06_no_connect_left_waiting : forall acts e,
  ~ ended e -> ended (Endpoint.run acts e) -> no_waiting (Endpoint.run acts e).
Proof. exact ended_no_waiting. Qed.

(** An operation waiting for flow credits is woken when its pool is closed or gone and ends with an
    error (no orphaned waiter at the port). *)
Theorem C06_credit_waiter_woken : forall s g,
  closed s = Some g -> running (op s) = true -> needs_credit (op s) = true ->
  exists s', PortFlow.step_opt s TReq = Some s' /\ op s' = SIdle.
Proof. exact closed_wakes_waiter. Qed.

(** What receivers obtained before a failure remains a prefix of what was sent: the prefix theorem of
    C01 holds in every reachable state, whatever happens afterwards. *)
Theorem C06_prefix : forall c md mp acts,
  cfg_ok c -> let s := PortFlow.run acts (init c md mp) in
  prefix (data_of (delivered_msgs (delivered s))) (data_of (completed s)).
Proof. intros c md mp acts Hc. exact (delivery_prefix md mp _ (Inv_run c md mp acts Hc)). Qed.

(** A silent transport is noticed: the receive timer is re-armed only by received messages, so it fires
    at most the enforced timeout after the last one. *)
Theorem C06_silence_is_noticed : forall last_rx t now, deadline last_rx t <= now -> enforced t <= now - last_rx.
Proof. exact silent_is_noticed. Qed.

(** An idle but healthy connection is never torn down by the timeout: with the announced timeout the
    peer pings at least every half announced timeout, which is at most half the enforced one; with a delay
    jitter below half the enforced timeout the gap between received messages stays below it --
    for EVERY configured timeout, including those below one millisecond (in continuous virtual time;
    Tokio's timers have a resolution of one millisecond, so the harness exercises timeouts >= 5 ms). *)
Theorem C06_idle_healthy : forall t jitter,
  t <= 18446744073709551615 * MS -> 2 * jitter < enforced t -> max_gap t jitter < enforced t.
Proof. exact idle_never_times_out. Qed.

(** A configured timeout is never announced as "none". *)
Theorem C06_timeout_announced : forall c,
  (x_timeout c = None <-> x_timeout (exchanged c) = None) /\
  (forall ns, x_timeout c = Some ns -> exists ms, 1 <= ms /\ x_timeout (exchanged c) = Some (ms * NS_PER_MS)).
Proof. exact timeout_presence_exchanged. Qed.

Example C06_nonvacuous :
  (* a hostile Hello on an established connection ends the dispatcher; the pending connect gets ChMux *)
  let e0 := ep_init (mux_init 64 64 4 64 3) 10 in
  let e := Endpoint.run [Endpoint.UConnect 1 1 true 0; Endpoint.DConn; Endpoint.Recv (Hello 3 {| x_timeout := None; x_chunk := 4; x_buffer := 4; x_queue := 1 |}) 0] e0 in
  Endpoint.dead e = Some PHello /\ lookup 0 (connects e) = Some (CResolved RChMux) /\ ~ ended e0 /\
  max_gap 900000 400000 < enforced 900000.
Proof. vm_compute. repeat split; try discriminate. intros [H|H]; [apply H; reflexivity|discriminate]. Qed.

Print Assumptions C06_ended_is_final.
Print Assumptions C06_no_connect_left_waiting.
Print Assumptions C06_credit_waiter_woken.
Print Assumptions C06_prefix.
Print Assumptions C06_silence_is_noticed.
Print Assumptions C06_idle_healthy.
Print Assumptions C06_timeout_announced.
