(** C07 (local part) -- Orderly shutdown and reclamation at one endpoint: port numbers and table
    entries.  Only statements, [exact] proofs and assumption printing live here.
    [reach .. acts] is the state of one endpoint after ANY list of local API actions, helper-task
    steps, dispatcher steps and arbitrary received messages ([Chmux/Endpoint.v]). *)
From Remoc Require Import Lib.Base Gen.Consts Chmux.Wire Chmux.Mux Chmux.Endpoint Chmux.EndpointLemmas Chmux.EndpointInv
  Chmux.EndpointEffects Chmux.EndpointProofs.
From RecordUpdate Require Import RecordUpdate.

(** Allocated numbers are pairwise distinct and at most [max_ports]; while the dispatcher runs, every
    key of the port table is allocated. *)
Theorem C07_numbers : forall ch bu cqs rb ver maxp acts,
  let e := reach ch bu cqs rb ver maxp acts in
  NoDup (alloc e) /\ len (alloc e) <= max_ports e /\
  (dead e = None -> forall p, lookup p (ports (mx e)) <> None -> In p (alloc e)).
Proof. intros ch bu cqs rb ver maxp acts e. exact (numbers e (WF_reach _ _ _ _ _ _ _)). Qed.

(** A connected port [p] across one step that does not terminate the connection: either it stays
    connected -- then it does not have all four flags and its number stays allocated -- or the step
    ran a dispatcher function that rewrote the entry to some [c'] with
    [tx_dropped && rx_dropped && negb rx_open && rrx_dropped] ([all4]) and [maybe_free] removed it,
    releasing the number ([DropNumber p]) in that very step: never earlier, never later. *)
Theorem C07_free_iff : forall ch bu cqs rb ver maxp acts a e' p c,
  let e := reach ch bu cqs rb ver maxp acts in
  step_opt e a = Some e' -> dead e' = None -> lookup p (ports (mx e)) = Some (Connected c) ->
  match lookup p (ports (mx e')) with
  | Some (Connected c') => all4 c' = false /\ In p (alloc e')
  | _ => ~ In p (alloc e') /\
         exists effs, disp_outcome e a = Some (Done (mx e') effs) /\
                      lookup p (ports (mx e')) = None /\ In (DropNumber p) effs /\
                      exists c', all4 c' = true /\ remote c' = remote c /\
                                 maybe_free (mx e <| ports := insert p (Connected c') (ports (mx e)) |>) p
                                 = Some (mx e', [DropNumber p])
  end.
Proof. intros ch bu cqs rb ver maxp acts a e' p c e. exact (free_iff e a e' p c (WF_reach _ _ _ _ _ _ _)). Qed.

Theorem C07_should_terminate_spec : forall m,
  should_terminate m = true <->
  (ports m = [] /\ (all_clients_dropped m = true \/ remote_listener_dropped m = true) /\
   (listen_open m = false \/ remote_client_dropped m = true) /\ outstanding m = [])
  \/ goodbye_sent m = true \/ goodbye_received m = true.
Proof. exact should_terminate_spec. Qed.

(** Non-vacuity: the peer opens a port, it is accepted with local number 5; both local halves are
    dropped, the peer finishes both directions: the entry is freed and the number released exactly
    in the last step; once the client and listener sides are closed too the dispatcher may say Goodbye. *)
Example C07_nonvacuous :
  let acts := [Recv (OpenPort 7 true None) 0; UListenerTake 7; UAccept 7 5; DPort;
               UDropTx 5; NTx 5; DPort; UDropRx 5; NRx 5; DPort; Recv (SendFinish 5) 0] in
  let e1 := reach 100 10 2 16 3 8 acts in
  let e2 := step e1 (Recv (ReceiveFinish 5) 0) in
  let e3 := run [UDropClients; DConn; Recv ClientFinish 0; UDropListener; DListenerDropped] e2 in
  alloc e1 = [5] /\ (exists c, lookup 5 (ports (mx e1)) = Some (Connected c) /\ all4 c = false) /\
  alloc e2 = [] /\ ports (mx e2) = [] /\ outstanding (mx e2) = [] /\
  should_terminate (mx e2) = false /\ should_terminate (mx e3) = true /\
  panicked e3 = None /\ dead e3 = None /\
  map fst (sent e3) = [PortOpened 7 5; SendFinish 7; ReceiveFinish 7; ClientFinish; ListenerFinish].
Proof. vm_compute. repeat split; try reflexivity. eexists. split; reflexivity. Qed.

Print Assumptions C07_numbers.
Print Assumptions C07_free_iff.
Print Assumptions C07_should_terminate_spec.
