(** C13 (hash set) -- a mirror of an [ObservableHashSet] equals the set.
    Only statements, [exact] proofs and assumption printing live here.

    Model: [Robs/HashSet.v].  Elements are compared with Leibniz equality ([replace]/[insert] of an
    [Eq]-equal but distinguishable element is outside the claim).

    Full statement, proved without exception:
      forall init ops k md max, fits_from max init ops k = true ->
        mirror_ok init ops k md max /\ hand_ok init ops k md.
    (F11, incremental subscription of a non-empty set made after [done()], was repaired in /repo by
    commit 290b96a; the model follows the repaired code.) *)
From Remoc Require Import Lib.Base Robs.KeyMap Robs.HashSet Robs.HashSetProofs.
From Remoc Require Gen.Api Gen.Variants.

(** For every initial content, operation sequence (insert, replace, remove, take, clear, retain
    with any predicate, shrink_to_fit, done, set_error_handler; calls after [done()] panic and
    change nothing), subscription point, mode and [max_size] that is not exceeded: the mirror task
    reports no error, holds exactly the observed elements, is done iff [done()] was called, and is
    complete. *)
Theorem C13_HashSet_mirror : forall init ops k md max,
  fits_from max init ops k = true ->
  mirror_ok init ops k md max.
Proof. exact mirror_ok_always. Qed.

(** Consuming [take_initial()] and the [recv()] stream by hand gives the same elements and sees
    [Done] iff [done()] was called -- no exception. *)
Theorem C13_HashSet_hand : forall init ops k md, hand_ok init ops k md.
Proof. exact hand_ok_always. Qed.

(** The former F11 witness -- [{1, 2}], [done()], then [subscribe_incremental().mirror()] -- is now
    mirrored completely. *)
Example C13_HashSet_late_incremental_now_ok :
  late_incremental_at [1; 2] f11_ops 1 Incremental = true /\
  mirror_task (mirror_init Incremental (state_at [1; 2] f11_ops 1) 100) (stream_at [1; 2] f11_ops 1 Incremental)
  = ({| m_hs := [(1, tt); (2, tt)]; m_complete := true; m_done := true; m_max := 100 |}, None).
Proof. exact late_incremental_now_ok. Qed.

(** The modelled operations / events are exactly those found in the Rust source on this run. *)
Theorem C13_HashSet_api_covered :
  Gen.Api.hash_set_ObservableHashSet_mutators = map op_name all_ops ++ consuming_ops.
Proof. exact api_covered. Qed.
Theorem C13_HashSet_api_complete : forall o, In (op_name o) (map op_name all_ops).
Proof. exact op_names_complete. Qed.
Theorem C13_HashSet_events_covered :
  Gen.Variants.HashSetEvent_variants = map event_name all_events /\
  forall e, In (event_name e) (map event_name all_events).
Proof. exact events_covered. Qed.

Example C13_HashSet_nonvacuous :
  let init := [3; 1; 2; 3] in
  let ops := [Insert 4; Insert 1; Retain true [(2, false)]; Take 9; Take 1; Replace 5; Remove 3; Clear; Clear;
              Insert 6; MarkDone; Insert 7] in
  fits_from 4 init ops 2 = true /\
  elems (o_hs (final_state init ops)) = [6] /\
  stream_at init ops 2 Incremental =
    [ESet 1; ESet 2; ESet 3; ESet 4; EInitialComplete; ERemove 2; ERemove 1; ESet 5; ERemove 3; EClear; ESet 6; EDone].
Proof. vm_compute. repeat split; reflexivity. Qed.

Print Assumptions C13_HashSet_mirror.
Print Assumptions C13_HashSet_hand.
Print Assumptions C13_HashSet_late_incremental_now_ok.
Print Assumptions C13_HashSet_api_covered.
Print Assumptions C13_HashSet_api_complete.
Print Assumptions C13_HashSet_events_covered.
