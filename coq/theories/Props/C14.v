(** C14 -- Mirrors and subscriptions never diverge silently.
    Only statements, [exact] proofs and assumption printing live here.

    Models: [Robs/Mirror.v] -- one observable collection (generic in the kind: vector, deque, hash map,
    hash set through the interface of their C13 models, [Robs/MirrorInst.v]), its broadcast channel
    (the proved model [Rch/Broadcast.v] of C16, used unchanged) and any number of subscribers (mirror
    tasks and consumers by hand, local or behind a connection) as a small-step system; and
    [Robs/ListDist.v] -- the distribution task of the append-only list.
    [run I acts (init_state I c0) = Some s] says: [acts] is an interleaving of API calls, single event
    emissions, subscriptions (any mode, buffer size, max_size, at any time), [recv] calls of every
    subscriber (any speed), steps of the broadcast re-admission tasks, forwarding steps and cuts of a
    connection, drop of the collection (before or after [done]) and of subscribers, each enabled
    when taken, and [s] is where it ends.  All theorems are for every such [acts]. *)
From Remoc Require Import Lib.Base Rch.Broadcast Robs.SeqCommon Robs.Mirror Robs.MirrorProofs Robs.MirrorInst.
From Remoc Require Import Robs.List_ Robs.ListDist Robs.ListDistProofs.
From Remoc Require Robs.Vec Robs.VecProofs Robs.VecDeque Robs.VecDequeProofs Robs.HashMap Robs.HashSet.
From Remoc Require Run.RunRobsLag Run.RunRobsLagProofs.

(** The collection kinds covered: in each event type the [Done] event is recognisable. *)
Theorem C14_instances :
  (forall e, i_isdone VecI.iface e = true -> e = i_edone VecI.iface) /\
  (forall e, i_isdone DequeI.iface e = true -> e = i_edone DequeI.iface) /\
  (forall e, i_isdone MapI.iface e = true -> e = i_edone MapI.iface) /\
  (forall e, i_isdone SetI.iface e = true -> e = i_edone SetI.iface).
Proof. exact (conj VecI.done_ev (conj DequeI.done_ev (conj MapI.done_ev SetI.done_ev))). Qed.

(** [C14_flagged].  At every state of every interleaving, for every subscriber [r] (mirror or
    consumer by hand): the events [L] its [recv] has returned are a gap-free prefix of the events it
    is entitled to ([expected]: its initial value, then every event sent since it subscribed) --
    none skipped, none reordered, none invented; and
    - no error stored: [recv] returned nothing but these events and the mirror's inner state is
      exactly [L] applied with [handle_event] to its initial state ([applied]);
    - error [c] stored: the consumer has stopped, and either [c] is what [recv] returned right after
      [L] (Lagged, Closed, a receive error of the connection) and the inner state is [L] applied, or
      [c] is the class of the error [handle_event] returned for the last event of [L]
      (MaxSizeExceeded, InvalidIndex) and the inner state is what that call left behind.
    So contents that differ from the history come with the error of the first cause. *)
Theorem C14_flagged : forall (I : iface), (forall e, i_isdone I e = true -> e = i_edone I) ->
  forall c0 acts s i r,
  run I acts (init_state I c0) = Some s -> nth_error (rsubs s) i = Some r ->
  let L := evs_of I (r_log r) in
  L = firstn (length L) (expected I (hist s) r) /\
  match r_err r with
  | None => r_log r = map REv L /\ applied I r L (r_m r)
  | Some c =>
      r_stopped r = true /\
      ((r_log r = map REv L ++ [RErr c] /\ applied I r L (r_m r)) \/
       (r_mirror r = true /\ r_log r = map REv L /\
        exists L' e m' err, L = L' ++ [e] /\ hfold I (r_m0 r) L' = Some m' /\
                            i_handle I m' e = (r_m r, Some err) /\ i_cls I err = c))
  end.
Proof. exact flagged. Qed.

(** The error is sticky and the last consistent contents stay retrievable: once a subscriber has an
    error stored, no continuation of the run changes anything of it (error, inner state = what
    [detach] returns, log). *)
Theorem C14_error_sticky : forall (I : iface), (forall e, i_isdone I e = true -> e = i_edone I) ->
  forall c0 acts1 acts2 s1 s2 i r c,
  run I acts1 (init_state I c0) = Some s1 -> nth_error (rsubs s1) i = Some r -> r_err r = Some c ->
  run I acts2 s1 = Some s2 -> nth_error (rsubs s2) i = Some r.
Proof. exact error_sticky. Qed.

(** [C14_hand].  A consumer by hand is given a gap-free prefix of the expected events and then, if
    at all, exactly one error, with which it stops. *)
Theorem C14_hand : forall (I : iface), (forall e, i_isdone I e = true -> e = i_edone I) ->
  forall c0 acts s i r,
  run I acts (init_state I c0) = Some s -> nth_error (rsubs s) i = Some r -> r_mirror r = false ->
  exists n, r_log r = map REv (firstn n (expected I (hist s) r)) ++
                      match r_err r with None => [] | Some c => [RErr c] end.
Proof. exact hand_log. Qed.

(** Link to C13 (vector, deque): when the applied events are the whole stream of a subscription made
    in state [ck] followed by the events of the calls [ops], the inner state is the collection after
    [ops] -- so "last consistent contents" are contents the collection really had. *)
Theorem C14_consistent_vec : forall incr ck ops mx cf e2,
  Vec.run_ops ck ops = Ok (cf, e2) -> Vec.run_bounded mx ck ops ->
  hfold VecI.iface (i_submirror VecI.iface incr ck mx) (Vec.sub_stream (smode_of incr) ck e2)
  = Some (Vec.mirror_of cf true mx).
Proof. exact vec_consistent. Qed.
Theorem C14_consistent_deque : forall incr ck ops mx cf e2,
  VecDeque.run_ops ck ops = Ok (cf, e2) -> VecDeque.run_bounded mx ck ops ->
  hfold DequeI.iface (i_submirror DequeI.iface incr ck mx) (VecDeque.sub_stream (smode_of incr) ck e2)
  = Some (VecDeque.mirror_of cf true mx).
Proof. exact deque_consistent. Qed.

(** [C14_list].  Append-only list: for every interleaving of pushes, [done], subscribes (at any
    time, also while requests are in flight), task steps, slow consumers, drop of the list and of
    subscribers: every subscriber has received exactly the first [l_len] elements of the buffer, in
    order (each once, none skipped); the only error it can be given is [Closed] (never [Lagged]);
    [Done] is the last thing it receives and comes after every element of the finished list;
    [InitialComplete] comes after exactly [initial_len] elements. *)
Theorem C14_list : forall init acts s i u,
  lrun acts (linit init) = Some s -> nth_error (lsubs s) i = Some u ->
  log_vals (l_log u) = firstn (l_len u) (buffer s) /\
  (forall c, In (LErr c) (l_log u) -> c = CClosed) /\
  (log_has_done (l_log u) = true ->
     log_vals (l_log u) = buffer s /\ tdone s = true /\
     exists l, l_log u = l ++ [LEv EDone] /\ log_has_done l = false) /\
  (l_complete u = true ->
     exists l1 l2, l_log u = l1 ++ LEv EInitialComplete :: l2 /\ length (log_vals l1) = l_ilen u).
Proof. exact list_subscriber. Qed.

(** Every state the big-step runner of the correspondence check visits ([Run/RunRobsLag.v]: bursts of
    calls, subscriptions, [recv] calls of slow consumers, drops, each followed by "all tasks run until
    idle") is reachable by small steps, so the theorems above apply to what is compared with the code. *)
Theorem C14_big_steps_sound : forall (I : iface) dec_ops bs s s',
  RunRobsLag.bigs I dec_ops bs s = Some s' -> exists acts, run I acts s = Some s'.
Proof. exact RunRobsLagProofs.bigs_sound. Qed.
Theorem C14_list_big_steps_sound : forall bs st st',
  RunRobsLag.lbigs bs st = Some st' -> exists acts, lrun acts (fst st) = Some (fst st').
Proof. exact RunRobsLagProofs.lbigs_sound. Qed.

(** Non-vacuity: a vector [1]; a mirror with buffer 1 and an incremental consumer by hand with
    buffer 2 subscribe; three pushes; the mirror takes one event, its re-admission task queues the
    marker, the mirror reads it: error Lagged, contents [1; 5] (the state after the first push), and
    it stays so; the consumer by hand reads its initial value and two pushes, then the marker. *)
Example C14_nonvacuous :
  option_map (fun (s : mstate VecI.iface) =>
                map (fun (r : rsub VecI.iface) => (evs_of VecI.iface (r_log r), Vec.mv (r_m r : Vec.mirror), r_err r)) (rsubs s))
    (run VecI.iface
       [ASubscribe VecI.iface true false false 1 10; ASubscribe VecI.iface false false true 2 10;
        AOp VecI.iface (Vec.Push 5); AEmit VecI.iface; AOp VecI.iface (Vec.Push 6); AEmit VecI.iface;
        AOp VecI.iface (Vec.Push 7); AEmit VecI.iface;
        ARecv VecI.iface 0; AReadmit1 VecI.iface 0; ARecv VecI.iface 0;
        ARecv VecI.iface 1; ARecv VecI.iface 1; ARecv VecI.iface 1; ARecv VecI.iface 1;
        ADropColl VecI.iface; AReadmit1 VecI.iface 1; ARecv VecI.iface 1]
       (init_state VecI.iface {| Vec.items := [1]; Vec.cdone := false |}))
  = Some [([Vec.EPush 5], [1; 5], Some CLagged);
          ([Vec.EPush 1; Vec.EInitialComplete; Vec.EPush 5; Vec.EPush 6], [], Some CLagged)].
Proof. vm_compute. reflexivity. Qed.

Print Assumptions C14_instances.
Print Assumptions C14_flagged.
Print Assumptions C14_error_sticky.
Print Assumptions C14_hand.
Print Assumptions C14_consistent_vec.
Print Assumptions C14_consistent_deque.
Print Assumptions C14_list.
Print Assumptions C14_big_steps_sound.
Print Assumptions C14_list_big_steps_sound.
