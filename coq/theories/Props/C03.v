(** C03 -- Flow control liveness: no credit leak, lost wake-up, livelock or port blocking. *)
From Remoc Require Import Lib.Base Chmux.Parse Chmux.Recv Chmux.PortFlow Chmux.PortFlowProofs.

(** No leak: after any history of completed, failed ([try_send] on a full queue, closed pool) or
    cancelled operations, every credit of the advertised receive buffer is in the pool, assigned to
    the running operation, attached to a frame under way, or on its way back. *)
Theorem C03_no_leak : forall c md mp acts,
  cfg_ok c -> let s := run acts (init c md mp) in
  pool s + assigned_of (op s) + costs (evq s) + costs (link s) + costs (rxq s) + to_return s
    + pend (ret_pending s) + sum (cred_evq s) + sum (cred_link s) = limit (cfg s).
Proof. intros c md mp acts Hc. exact (conservation md mp _ (Inv_run c md mp acts Hc)). Qed.

(** Once the receiver has consumed what was delivered and nothing is under way, the sender holds at
    least four credits -- for every receive buffer >= 4, multiples of four or not -- which is what
    the next data chunk (1) or port batch (4) needs. *)
Theorem C03_threshold : forall c md mp acts,
  cfg_ok c -> let s := run acts (init c md mp) in quiet s -> 4 <= pool s + assigned_of (op s).
Proof. intros c md mp acts Hc. exact (threshold_lemma md mp _ (Inv_run c md mp acts Hc)). Qed.

(** No deadlock: in every reachable state in which an operation is running and the port is open,
    either a frame or credits are still under way and an internal action (incl. the receiver taking
    the next frame) is enabled, or the operation's own next step is enabled: the credit request
    succeeds with enough credits, or the frame can be handed over. *)
Theorem C03_progress : forall c md mp acts,
  cfg_ok c -> let s := run acts (init c md mp) in
  running (op s) = true -> closed s = None ->
  (exists a s', In a internal /\ step_opt s a = Some s') \/
  (needs_credit (op s) = true /\ exists s', step_opt s TReq = Some s' /\ needs_credit (op s') = false /\ running (op s') = true) \/
  (needs_credit (op s) = false /\ exists s', step_opt s TEmit = Some s').
Proof. intros c md mp acts Hc. exact (progress md mp _ (Inv_run c md mp acts Hc)). Qed.

(** No livelock: every frame handed over and every successful credit request strictly decreases a
    measure of the running operation (bytes or ports left); no operation emits frames forever. *)
Theorem C03_emit_decreases : forall c md mp acts s',
  cfg_ok c -> let s := run acts (init c md mp) in
  step_opt s TEmit = Some s' -> mu (op s') < mu (op s).
Proof. intros c md mp acts s' Hc. exact (emit_decreases md mp _ s' (Inv_run c md mp acts Hc)). Qed.

Theorem C03_request_decreases : forall s s',
  step_opt s TReq = Some s' -> running (op s') = true -> needs_credit (op s') = false -> mu (op s') < mu (op s).
Proof. exact req_decreases. Qed.

(** Non-vacuity: two ports requested with a receive buffer of 6: the first batch takes 4 credits,
    the leftover 2 flow back, and the second port waits for -- and gets -- four credits. *)
Example C03_nonvacuous :
  let c := {| chunk := 8; limit := 6; cap_s := 1; cap_r := 1 |} in
  let s1 := run [UConnect [11; 12]; TReq; TEmit; TMux; TReq] (init c 100 10) in
  let s2 := run [TLink; RConsume; TCredMux; TCredLink; TReq; TEmit] s1 in
  op s1 = SPorts [12] false 0 /\ pool s1 = 2 /\
  emitted s2 = [FPorts true false [11]; FPorts false true [12]] /\ completed s2 = [MPorts [11; 12]].
Proof. vm_compute. auto. Qed.

Print Assumptions C03_no_leak.
Print Assumptions C03_threshold.
Print Assumptions C03_progress.
Print Assumptions C03_emit_decreases.
Print Assumptions C03_request_decreases.
