(** C13 (append-only list) -- a mirror of an [ObservableList] equals the list.
    Only statements, [exact] proofs and assumption printing live here.
    Model: [Robs/List_.v] (transcription of /repo/remoc/src/robs/list.rs), proofs: [Robs/ListProofs.v]. *)
From Remoc Require Import Lib.Base Robs.SeqCommon Robs.List_ Robs.ListProofs.
From Remoc Require Gen.Api Gen.Variants.

(** For every initial content, every sequence [ops] of [push]/[extend]/[done] calls that does not
    panic and every subscription point [k] (a list subscription is always incremental): the subscriber
    is sent every element from position 0, [InitialComplete] after as many elements as the list had
    at subscription time, then the later elements and [Done]; provided [max_size] is not exceeded, the
    mirror task fed with them ends without error holding exactly the final contents, with [complete]
    set and [done] equal to the list's done flag, and so does applying the events by hand.
    (No known class here: the list mirror starts with [done: false].) *)
Theorem C13_List_mirror_equals_collection : forall init ops k cf e,
  run_ops (start init) ops = Ok (cf, e) ->
  exists ck e1 e2,
    run_ops (start init) (firstn k ops) = Ok (ck, e1) /\
    run_ops ck (skipn k ops) = Ok (cf, e2) /\ e = e1 ++ e2 /\
    forall mx,
      run_bounded mx ck (skipn k ops) ->
      mirror_task (sub_mirror mx) (sub_stream ck e2) =
        HOk {| mv := items cf; mcomplete := true; mdone := cdone cf; mmax := mx |} /\
      fold_events (sub_mirror mx) (sub_stream ck e2) =
        HOk {| mv := items cf; mcomplete := true; mdone := cdone cf; mmax := mx |}.
Proof. exact mirror_equals_collection. Qed.

Theorem C13_List_step : forall brk c o c1 e1 cp mx tl,
  apply_op c o = Ok (c1, e1) ->
  brk = false \/ cdone c = false ->
  len (items c1) <= mx ->
  task_gen brk (mirror_of c cp mx) (e1 ++ tl) =
  if brk && cdone c1 then HOk (mirror_of c1 cp mx) else task_gen brk (mirror_of c1 cp mx) tl.
Proof. exact step. Qed.

Theorem C13_List_done_iff_called : forall init ops cf e,
  run_ops (start init) ops = Ok (cf, e) -> (cdone cf = true <-> In MarkDone ops).
Proof. exact done_iff_called. Qed.

(** append-only: the final contents extend the contents at any earlier point *)
Theorem C13_List_append_only : forall ops c cf e,
  run_ops c ops = Ok (cf, e) -> exists added, items cf = items c ++ added.
Proof. exact run_items. Qed.

Theorem C13_List_api_covered :
  map Names.op_name modelled_ops = Names.minus Gen.Api.list_ObservableList_mutators Names.non_mutating.
Proof. exact api_covered. Qed.
Theorem C13_List_ops_all_listed : forall o, In (Names.op_name o) (map Names.op_name (modelled_ops ++ trait_ops)).
Proof. exact ops_all_listed. Qed.
Theorem C13_List_events_covered : map Names.event_name modelled_events = Gen.Variants.ListEvent_variants.
Proof. exact events_covered. Qed.
Theorem C13_List_events_all_listed : forall e, In (Names.event_name e) (map Names.event_name modelled_events).
Proof. exact events_all_listed. Qed.

Example C13_List_nonvacuous :
  let ops := [Push 4; Extend [5; 6]; Extend []; Push 7; MarkDone; MarkDone; Extend []] in
  exists ck e1 cf e2,
    run_ops (start [1; 2]) (firstn 2 ops) = Ok (ck, e1) /\ run_ops ck (skipn 2 ops) = Ok (cf, e2) /\
    run_bounded 6 ck (skipn 2 ops) /\ items cf = [1; 2; 4; 5; 6; 7] /\ cdone cf = true /\
    mirror_task (sub_mirror 6) (sub_stream ck e2) =
      HOk {| mv := [1; 2; 4; 5; 6; 7]; mcomplete := true; mdone := true; mmax := 6 |}.
Proof.
  eexists _, _, _, _. split; [vm_compute; reflexivity|]. split; [vm_compute; reflexivity|].
  repeat split; vm_compute; congruence.
Qed.

Print Assumptions C13_List_mirror_equals_collection.
Print Assumptions C13_List_step.
Print Assumptions C13_List_done_iff_called.
Print Assumptions C13_List_append_only.
Print Assumptions C13_List_api_covered.
Print Assumptions C13_List_ops_all_listed.
Print Assumptions C13_List_events_covered.
Print Assumptions C13_List_events_all_listed.
