(** C05 -- Channel halves embedded in values are wired one-to-one to their counterparts.
    Only statements, [exact] proofs and assumption printing live here.  The model is [Rch/Ports.v]
    (transcription of [PortSerializer] / [PortDeserializer] in rch/base/{sender,receiver}.rs, of
    chmux/forward.rs, of the request life cycle of chmux/{sender,listener}.rs as far as C05 needs it,
    and of rch/interlock.rs as used by rch/{bin,lr}); proofs are in [Rch/PortsProofs.v].

    A value is abstracted to the ordered list [ls] of the halves its serializer visits: nesting in
    vectors, options, tuples, enums and maps only determines this order (and the deserializer visits
    the transported form in the same order: codec round trip, trusted), the kind of remote channel only
    determines what the callback does with the port it gets.  A half carries a label (channel, side);
    [MReal] halves travel normally, [MIgnored] ones are unknown to the deserializing type (their request
    is superfluous), [MFake b] stands for a half whose request (id [b]) never arrives.

    [wire ls ps hops last_sizes qs] sends one value over [1 + length hops] connections: [ps] / [qs] are
    the port numbers the allocators of the origin / the far end can still hand out (their lengths are
    the port limits, their contents the random choices), every element of [hops] gives the same for one
    forwarding node together with the sizes of the batches its incoming port message was split into
    (chunk size and credits), [last_sizes] those of the last connection. *)
From Remoc Require Import Lib.Base Gen.Halves Rch.Ports Rch.PortsProofs.

(** ** Wiring: for all value shapes, hop counts, port choices, port limits and batchings *)

(** Every delivered half is connected to the origin callback registered for the half with the SAME
    label (serialized at the same position) ... *)
Theorem C05_wiring : forall ls ps hops last_sizes qs w,
  NoDup (ps ++ fake_ids ls) -> Forall hop_ok hops ->
  wire ls ps hops last_sizes qs = WOk w ->
  forall a b, In (a, b) (pairing (w_table w) (w_tabs w) (w_acc w)) -> a = b.
Proof. exact pairing_label_preserving. Qed.

(** ... and to no other: the pairing is a partial injective function in both directions ... *)
Theorem C05_wiring_injective : forall ls ps hops last_sizes qs w,
  NoDup (map l_cb ls) -> NoDup (ps ++ fake_ids ls) -> Forall hop_ok hops ->
  wire ls ps hops last_sizes qs = WOk w ->
  NoDup (map fst (pairing (w_table w) (w_tabs w) (w_acc w))) /\
  NoDup (map snd (pairing (w_table w) (w_tabs w) (w_acc w))).
Proof. exact pairing_injective. Qed.

(** ... which is defined on every half that travelled normally. *)
Theorem C05_wiring_complete : forall ls ps hops last_sizes qs w,
  NoDup (ps ++ fake_ids ls) -> Forall hop_ok hops ->
  wire ls ps hops last_sizes qs = WOk w ->
  forall l, In l ls -> l_mode l = MReal -> In (l_cb l, l_cb l) (pairing (w_table w) (w_tabs w) (w_acc w)).
Proof. exact pairing_complete. Qed.

(** The induction over the hops: whatever the forwarders' port choices and the batch boundaries, the
    requests arrive in the same order with the same ids, and following the forwarders' tables back
    from a delivered request's port leads to the origin's port at the same position. *)
Theorem C05_forwarding : forall hops rs fin tabs,
  route rs hops = Some (fin, tabs) -> Forall hop_ok hops ->
  Forall2 (fun f r => r_id f = r_id r /\ trace_back (rev tabs) (r_port f) = Some (r_port r)) fin rs.
Proof. exact route_spec. Qed.

(** ** Errors *)

(** Superfluous requests (halves the far end does not know) are dropped, i.e. rejected; *)
Theorem C05_superfluous_rejected : forall ls ps hops last_sizes qs w,
  NoDup (map l_cb ls) -> NoDup (ps ++ fake_ids ls) -> Forall hop_ok hops ->
  wire ls ps hops last_sizes qs = WOk w ->
  forall l, In l ls -> l_mode l = MIgnored ->
  exists p f, In (p, l_cb l) (w_table w) /\ In f (w_rej w) /\ r_id f = p /\
              trace_back (rev (w_tabs w)) (r_port f) = Some p.
Proof. exact ignored_rejected. Qed.

(** lost requests are reported as [MissingPorts] with exactly their ids; *)
Theorem C05_missing_reported : forall ls ps hops last_sizes qs w,
  NoDup (ps ++ fake_ids ls) -> Forall hop_ok hops ->
  wire ls ps hops last_sizes qs = WOk w ->
  forall b, In b (fake_ids ls) <-> assoc b (w_missing w) <> None.
Proof. exact missing_are_fakes. Qed.

(** port exhaustion at either end makes the whole item fail, and happens exactly when the item
    carries more halves than the allocator has ports left. *)
Theorem C05_exhausted_origin : forall ls ps, serialize ls ps = None <-> (length ps < travelling ls)%nat.
Proof. exact serialize_exhausted. Qed.
Theorem C05_exhausted_far : forall pl m qs, deser m pl qs = None <-> (length qs < length (entries pl))%nat.
Proof. exact deser_exhausted. Qed.

(** The life of the requests of one value along [h] connections, for EVERY schedule [acts] (which
    request moves next, where and when connections are lost) and every decision vector [decide] of the
    far end (in particular the one computed by [match_reqs]: accepted iff matched by id).

    TRUSTED HYPOTHESIS (chmux level, to be discharged by the dispatcher model of C10 and the fail-stop
    model of C06): on a live connection every request in flight is delivered and answered exactly once,
    and on a lost connection every outstanding request fails.  In the model this is the enabledness of
    [AMove] / [ALost] for every unresolved request ([C05_progress]).

    Safety: the origin's connect future succeeds only for a request the far end accepted; a request
    the far end dropped never leaves a port at the far end; a far-end callback fails only when its own
    connection was lost; an origin error despite a far-end port means a connection on the path was lost. *)
Theorem C05_errors_safe : forall h decide acts i r,
  (1 <= h)%nat ->
  nth_error (s_reqs (run acts (init_sys h decide))) i = Some r ->
  let s := run acts (init_sys h decide) in
  let d := nth i decide false in
  (r_phase r = DoneOk -> r_far r = FConn /\ d = true) /\
  (d = false -> r_far r = FNone /\ r_phase r <> DoneOk) /\
  (r_far r = FErr -> d = true /\ In h (s_dead s)) /\
  (r_phase r = DoneErr -> r_far r = FConn -> s_dead s <> []).
Proof. exact resolution_safe. Qed.

(** Progress: an unresolved request always has an enabled step. *)
Theorem C05_progress : forall s i r,
  inv s -> nth_error (s_reqs s) i = Some r -> is_done r = false ->
  enabled s (AMove i) = true \/ enabled s (ALost i) = true.
Proof. exact progress. Qed.

(** Termination: no schedule takes more than [n * (3 h + 2)] request steps. *)
Theorem C05_terminates : forall acts s, inv s -> (moves acts s <= measure s)%nat.
Proof. exact resolution_terminates. Qed.
Theorem C05_measure : forall h decide, measure (init_sys h decide) = (length decide * (3 * h + 2))%nat.
Proof. exact init_measure. Qed.

(** At quiescence nothing is pending: an accepted request is connected at both ends or, if a
    connection was lost, failed at the origin; a dropped request failed at the origin and left nothing
    at the far end.  Never a hang, never a connection for a request the far end did not match. *)
Theorem C05_errors : forall h decide acts,
  (1 <= h)%nat ->
  let s := run acts (init_sys h decide) in
  quiescent s ->
  forall i r, nth_error (s_reqs s) i = Some r ->
    if nth i decide false
    then (r_phase r = DoneOk /\ r_far r = FConn) \/ (r_phase r = DoneErr /\ s_dead s <> [])
    else r_phase r = DoneErr /\ r_far r = FNone.
Proof. exact resolved_at_quiescence. Qed.

(** End to end: a value is wired and its requests resolve, under an arbitrary schedule, with the far
    end's decisions as computed by the matching ([decisions w]).  At quiescence, if no connection was
    lost, the callback of every normally travelling half holds its connected port at both ends, and
    the callback of every half the far end does not know got an error with nothing left at the far end. *)
Theorem C05_end_to_end : forall ls ps hops last_sizes qs w,
  NoDup (map l_cb ls) -> NoDup (ps ++ fake_ids ls) -> Forall hop_ok hops ->
  wire ls ps hops last_sizes qs = WOk w ->
  forall acts,
  let s := run acts (init_sys (S (length hops)) (decisions w)) in
  quiescent s -> s_dead s = [] ->
  forall i p cb r, nth_error (w_table w) i = Some (p, cb) -> nth_error (s_reqs s) i = Some r ->
    ((exists l, In l ls /\ l_cb l = cb /\ l_mode l = MReal) -> r_phase r = DoneOk /\ r_far r = FConn) /\
    ((exists l, In l ls /\ l_cb l = cb /\ l_mode l = MIgnored) -> r_phase r = DoneErr /\ r_far r = FNone).
Proof. exact end_to_end. Qed.

(** The canonical schedule of the executable model is one of the schedules quantified over. *)
Theorem C05_big_step_sound : forall fuel n s, exists acts, drive_all fuel n s = run acts s.
Proof. exact drive_all_run. Qed.

(** ** Interlock of [bin] / [lr] channels *)

(** FULL STATEMENT (C05_interlock): once one half of a bin / lr channel has left on a direct
    connection, serializing the other half never produces a direct connection to the departed local
    half (bin: forwarding path, lr: serialization error); a cancelled transfer reverts to [Local].
    It holds for the repaired transitions ([fixed = true]: the serialization marks the half that is
    being sent), for every sequence of serializations, confirmations and cancellations: *)
Theorem C05_interlock_fixed : forall lr acts, is_bad (il_run true lr acts) = false.
Proof. exact interlock_fixed. Qed.
Theorem C05_interlock_fixed_path : forall lr acts s,
  let st := il_run true lr acts in
  g_direct st s = true -> g_direct st (other s) = false ->
  is_last (il_step true lr st (ISer (other s))) = if lr then SerError else Forwarding.
Proof. exact interlock_fixed_other. Qed.
Theorem C05_interlock_cancel : forall fixed lr st s,
  g_open st s = true -> get_loc (is_il st) (marked fixed s) = Sending CEmpty ->
  let st' := il_step fixed lr st (ICancel s) in
  check_local (get_loc (is_il st') (marked fixed s)) = (Local, true) /\ g_direct st' s = false.
Proof. exact interlock_cancel_reverts. Qed.

(** It is REFUTED for the code as it is ([fixed = false], finding F10): [Sender::serialize] checks and
    marks [interlock.receiver], [Receiver::serialize] checks and marks [interlock.sender]; after the
    sender has left, serializing the receiver takes the direct path again. *)
Theorem C05_interlock_refuted : forall lr,
  exists acts, is_bad (il_run false lr acts) = true /\ is_last (il_run false lr acts) = Direct.
Proof. exact interlock_refuted. Qed.

(** Outside the known class (both halves of one bin / lr channel get serialized) the code as it is
    keeps the property. *)
Theorem C05_interlock_one_side : forall lr s0 acts,
  forallb (only_side s0) acts = true -> is_bad (il_run false lr acts) = false.
Proof. exact interlock_one_side. Qed.

(** ** Facts read off the source on every run (tools/gen_from_source.py, [Gen/Halves.v]) *)

(** The lines the model transcribes are there, exactly once each: ids are port numbers at the origin,
    callbacks are collected and zipped in visiting order, the forwarder keeps the id and relays the
    answer, the deserializer registers under the remote port number, matches by id and reports what is
    left over.  (Which location the bin / lr serializers mark is read off as four booleans that select
    [fixed] in the executable model; they are not asserted here.) *)
Theorem C05_source_shape :
  ser_id_is_port = true /\ ser_callbacks_in_order = true /\ forward_keeps_id = true /\
  forward_relays_answer = true /\ deser_keyed_by_remote_port = true /\ match_by_id = true /\
  missing_ports_reported = true /\ interlock_sites_understood = true /\
  bin_tx_marks_own = bin_rx_marks_own /\ lr_tx_marks_own = lr_rx_marks_own.
Proof. exact source_shape. Qed.

(** ** Non-vacuity *)

(** Three halves (one the far end ignores) plus one lost request over three connections, ports handed
    out in "random" order, batches of one and two requests: the two normal halves are wired to their own
    counterparts, the superfluous request is rejected, the lost id is reported missing; the requests
    then resolve under a schedule that loses the middle connection while the second answer is on its
    way: the first is connected at both ends, the second fails at the origin. *)
Example C05_nonvacuous :
  let ls := [mkLeaf (mkCb 0 STx) MReal; mkLeaf (mkCb 1 SRx) MIgnored; mkLeaf (mkCb 2 SRx) MReal;
             mkLeaf (mkCb 3 STx) (MFake 77)] in
  (exists w, wire ls [41; 7; 19; 3] [([8; 2; 5], [1%nat]); ([6; 9; 4], [2%nat])] [1%nat; 1%nat] [30; 10; 20] = WOk w /\
     pairing (w_table w) (w_tabs w) (w_acc w) = [(mkCb 0 STx, mkCb 0 STx); (mkCb 2 SRx, mkCb 2 SRx)] /\
     map r_id (w_rej w) = [7] /\ map fst (w_missing w) = [77]) /\
  map r_phase (s_reqs (run [AMove 0; AMove 0; AMove 0; AMove 0; AMove 0; AMove 0; AMove 0;
                            AMove 1; AMove 1; AMove 1; AMove 1; AMove 1; ACut 2; ALost 1; AMove 1]
                           (init_sys 3 [true; true]))) = [DoneOk; DoneErr].
Proof. vm_compute. split; [eexists; repeat split|reflexivity]. Qed.

Print Assumptions C05_wiring.
Print Assumptions C05_wiring_injective.
Print Assumptions C05_wiring_complete.
Print Assumptions C05_forwarding.
Print Assumptions C05_superfluous_rejected.
Print Assumptions C05_missing_reported.
Print Assumptions C05_exhausted_origin.
Print Assumptions C05_exhausted_far.
Print Assumptions C05_errors_safe.
Print Assumptions C05_progress.
Print Assumptions C05_terminates.
Print Assumptions C05_measure.
Print Assumptions C05_errors.
Print Assumptions C05_end_to_end.
Print Assumptions C05_big_step_sound.
Print Assumptions C05_interlock_fixed.
Print Assumptions C05_interlock_fixed_path.
Print Assumptions C05_interlock_cancel.
Print Assumptions C05_interlock_refuted.
Print Assumptions C05_interlock_one_side.
Print Assumptions C05_source_shape.
