(** C18 -- I/O channels deliver exactly the written bytes; short streams are errors.
    Only statements, [exact] proofs and assumption printing live here.  The model is
    [Rch/IoChan.v] (transcription of rch/io/{sender,receiver}.rs over rch/bin and chmux ports),
    proofs are in [Rch/IoChanProofs.v].  [run_acts acts (init cs m)] runs an arbitrary list of
    actions -- writes with arbitrary buffers, flushes, shutdowns, dropping the sender, reads with
    arbitrary buffer sizes (0 included), arrival of each event in flight and of the size
    announcement, a cut of the connection, and for every sender poll whether the transport takes the
    buffered chunk now and how it splits it -- on a fresh channel with chunk size [cs] created
    sized ([Known n]) or unsized ([Unknown]). *)
From Remoc Require Import Lib.Base Rch.IoChan Rch.IoChanProofs.

(** The bytes read so far are a prefix of the bytes accepted by writes, and all of them once a read
    has reported end-of-file. *)
Theorem C18_bytes : forall cs m acts y outs,
  run_acts acts (init cs m) = (y, outs) ->
  prefix (bytes_read_of outs) (bytes_accepted_of acts outs) /\
  (In Eof outs -> bytes_read_of outs = bytes_accepted_of acts outs).
Proof. exact bytes_prefix. Qed.

(** End-of-file is reported only if the total read equals the size fixed at creation (sized) or
    the size announced by a successful shutdown (unsized); that size is the number of bytes accepted. *)
Theorem C18_eof : forall cs m acts y outs,
  run_acts acts (init cs m) = (y, outs) -> In Eof outs ->
  match m with
  | Known n => len (bytes_read_of outs) = n
  | Unknown => announced y = Some (len (bytes_read_of outs)) /\ shutdown_ok acts outs
  end /\ len (bytes_accepted_of acts outs) = len (bytes_read_of outs).
Proof. exact eof_only_complete. Qed.

(** Sized channel: the accepted total never exceeds the fixed size and only accepted bytes are ever
    handed to the transport; a live sender that has reached the size refuses a non-empty write with
    [WriteZero] without accepting or sending any of it. *)
Theorem C18_refuse : forall cs n acts y outs,
  run_acts acts (init cs (Known n)) = (y, outs) ->
  len (bytes_accepted_of acts outs) <= n /\
  prefix (bytes_transmitted y) (bytes_accepted_of acts outs) /\
  len (bytes_transmitted y) <= n.
Proof. exact refuse_global. Qed.
Theorem C18_refuse_step : forall y s n b buf e,
  y_tx y = Some s -> s_mode s = Known n -> n <= s_written s -> s_bin s = true -> s_sending s = FNone ->
  let '(y', res) := step y (AWrite (b :: buf) e) in
  res = Fail KWriteZero /\ g_acc y' = g_acc y /\ g_sent y' = g_sent y /\ y_net y' = y_net y.
Proof. exact refuse_step. Qed.

(** Short streams.  Whatever happens (sender dropped with or without flush/shutdown at any point,
    connection cut at any point), a read reports end-of-file only if the stream is complete: for a
    sized channel all [n] bytes were accepted, for an unsized one a shutdown succeeded. *)
Theorem C18_short_never_eof : forall cs m acts y outs,
  run_acts acts (init cs m) = (y, outs) -> In Eof outs ->
  match m with
  | Known n => len (bytes_accepted_of acts outs) = n
  | Unknown => shutdown_ok acts outs
  end.
Proof. exact short_never_eof. Qed.
(** ... and the affected side gets an error: shutdown of a sized sender short of its size; *)
Theorem C18_short_shutdown : forall y s n e,
  y_tx y = Some s -> s_mode s = Known n -> s_written s <> n ->
  (s_sending s = FNone \/ (exists d, s_sending s = FRun d) /\ y_down y = false /\ e_ready e = true) ->
  snd (step y (AShutdown e)) = Fail KUnexpectedEof.
Proof. exact short_shutdown. Qed.
(** the end of the data stream before the fixed size; *)
Theorem C18_short_sized : forall n want sz r q,
  at_end r -> r_size r = Some (Determined n) -> r_read r < n ->
  snd (poll_read want sz r (EEnd :: q)) = Fail KUnexpectedEof.
Proof. exact short_end_sized. Qed.
(** the end of an unsized stream whose sender was dropped without shutdown ([CDropped]) or
    announced another total; *)
Theorem C18_short_unsized : forall want sz r q,
  at_end r -> r_size r = Some Undetermined ->
  snd (poll_read want sz r (EEnd :: q)) =
  match sz with
  | CEmpty => Pending
  | CDropped => Fail KUnexpectedEof
  | CSent e => if r_read r =? e then Eof else Fail KUnexpectedEof
  end.
Proof. exact short_end_unsized. Qed.
(** (dropping an unsized sender before shutdown, or cutting the connection before the size arrived,
    is what makes the size oneshot [CDropped];) *)
Theorem C18_short_drop : forall y s,
  y_tx y = Some s -> s_mode s = Unknown -> y_down y = false ->
  view (fst (step (fst (step y ADropTx)) ADeliverSize)) = CDropped.
Proof. exact drop_unsized_view. Qed.
Theorem C18_short_cut : forall y,
  y_down y = false -> y_arrived y = false -> view (fst (step y ACut)) = CDropped.
Proof. exact cut_view. Qed.
(** a broken event stream (connection cut, port error). *)
Theorem C18_short_err : forall k want sz r q,
  at_end r -> (r_size r = Some Undetermined \/ exists n, r_size r = Some (Determined n) /\ r_read r < n) ->
  snd (poll_read want sz r (EErr k :: q)) = Fail k.
Proof. exact short_err. Qed.
(** After such an error a further poll of a receiver whose future failed is the Rust panic
    "`async fn` resumed after completion" -- explicit in the model, never EOF or data. *)
Theorem C18_poisoned : forall want sz r q,
  r_state r = RRecvDone \/ r_state r = RVerDone -> snd (poll_read want sz r q) = Panic.
Proof. exact poisoned_panics. Qed.

(** The loop fuel of the model's [poll_read] is never exhausted, along runs too. *)
Theorem C18_total : forall want sz r q, snd (poll_read want sz r q) <> OutOfFuel.
Proof. exact poll_read_total. Qed.

(** Non-vacuity: a sized channel of 5 bytes with chunk size 4 -- the write of 7 bytes is clamped to
    4, then to 1, the third is refused, both chunks arrive, reads return them and then EOF; an
    unsized channel whose sender is dropped without shutdown yields [UnexpectedEof], then panics. *)
Example C18_nonvacuous :
  let e := mkE true [] in
  snd (run_acts [AWrite [1;2;3;4;5;6;7] e; AWrite [5;6;7] e; AWrite [6;7] e; AShutdown e;
                 ADeliver; ADeliver; ADeliver; ARead 3; ARead 9; ARead 9; ARead 9] (init 4 (Known 5)))
  = [Done 4 []; Done 1 []; Fail KWriteZero; Done 0 []; Done 0 []; Done 0 []; Done 0 [];
     Done 3 [1;2;3]; Done 1 [4]; Done 1 [5]; Eof] /\
  snd (run_acts [AWrite [1;2;3] e; AFlush e; ADropTx; ADeliver; ADeliver; ADeliverSize;
                 ARead 9; ARead 9; ARead 9] (init 4 Unknown))
  = [Done 3 []; Done 0 []; Done 0 []; Done 0 []; Done 0 []; Done 0 [];
     Done 3 [1;2;3]; Fail KUnexpectedEof; Panic].
Proof. vm_compute. auto. Qed.

Print Assumptions C18_bytes.
Print Assumptions C18_eof.
Print Assumptions C18_refuse.
Print Assumptions C18_refuse_step.
Print Assumptions C18_short_never_eof.
Print Assumptions C18_short_shutdown.
Print Assumptions C18_short_sized.
Print Assumptions C18_short_unsized.
Print Assumptions C18_short_drop.
Print Assumptions C18_short_cut.
Print Assumptions C18_short_err.
Print Assumptions C18_poisoned.
Print Assumptions C18_total.
