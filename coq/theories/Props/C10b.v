(** C10 (composed part) -- Pairing of ports across two honest endpoints.  Only statements, [exact]
    proofs and assumption printing live here.

    [nreach c acts] ([Chmux/Net.v]) is the state of the composition of two endpoint models
    ([Chmux/Endpoint.v]) joined by two FIFO links after ANY list of actions: [Loc s a] = any local API
    action, helper-task step or dispatcher step [a] of endpoint [s] (every [act] except [Recv]);
    [Deliver s] = the oldest frame sent by [s] is handled by the other endpoint.  Both start from
    [ep_init (mux_init ..)] with the configuration the handshake would exchange ([net_init]).
    [healthy n] = neither dispatcher has ended with a protocol error. *)
From Remoc Require Import Lib.Base Gen.Consts Chmux.Wire Chmux.Mux Chmux.Endpoint Chmux.EndpointLemmas Chmux.EndpointInv
  Chmux.Net Chmux.NetInv Chmux.NetRecvStep Chmux.NetProofs.

(** In every reachable state without a protocol error, every connected port [p] of A (entry [cA],
    remote number [q = remote cA]) is in exactly one of three situations ([paired_or]):
    - B's [ports[q]] is [Connected] with remote [p] (the two ports name each other);
    - B's [ports[q]] is still [Connecting] and A's [PortOpened q p] is in flight to B (A accepted B's request);
    - B has released its end: then both local halves of A's port are dropped and announced
      ([tx_dropped], [rx_dropped]), B's [SendFinish p] and [ReceiveFinish p] have each been received by A
      or are in flight to A (exactly once), and no port of B connected under number [q] names [p];
    symmetrically for every connected port of B; and on each endpoint no two connected ports have
    the same remote number. *)
Theorem C10_pairing : forall c acts,
  let n := nreach c acts in
  healthy n ->
  (forall p cA, lookup p (ports (mx (na n))) = Some (Connected cA) ->
     (exists cB, lookup (remote cA) (ports (mx (nb n))) = Some (Connected cB) /\ remote cB = p) \/
     (exists r pl, lookup (remote cA) (ports (mx (nb n))) = Some (Connecting r) /\ In (PortOpened (remote cA) p, pl) (lab n)) \/
     (tx_dropped cA = true /\ rx_dropped cA = true /\
      cnt (m_sf p) (lba n) + b2n (negb (rx_open cA)) = 1 /\ cnt (m_rf p) (lba n) + b2n (rrx_dropped cA) = 1 /\
      forall cB, lookup (remote cA) (ports (mx (nb n))) = Some (Connected cB) -> remote cB <> p)) /\
  (forall q cB, lookup q (ports (mx (nb n))) = Some (Connected cB) ->
     (exists cA, lookup (remote cB) (ports (mx (na n))) = Some (Connected cA) /\ remote cA = q) \/
     (exists r pl, lookup (remote cB) (ports (mx (na n))) = Some (Connecting r) /\ In (PortOpened (remote cB) q, pl) (lba n)) \/
     (tx_dropped cB = true /\ rx_dropped cB = true /\
      cnt (m_sf q) (lab n) + b2n (negb (rx_open cB)) = 1 /\ cnt (m_rf q) (lab n) + b2n (rrx_dropped cB) = 1 /\
      forall cA, lookup (remote cB) (ports (mx (na n))) = Some (Connected cA) -> remote cA <> q)) /\
  (forall p1 p2 c1 c2, lookup p1 (ports (mx (na n))) = Some (Connected c1) -> lookup p2 (ports (mx (na n))) = Some (Connected c2) ->
     remote c1 = remote c2 -> p1 = p2) /\
  (forall q1 q2 c1 c2, lookup q1 (ports (mx (nb n))) = Some (Connected c1) -> lookup q2 (ports (mx (nb n))) = Some (Connected c2) ->
     remote c1 = remote c2 -> q1 = q2).
Proof. exact pairing. Qed.

(** Two ports that name each other are connected to each other and to no other port. *)
Theorem C10_paired_exclusive : forall c acts p q cA cB,
  let n := nreach c acts in
  healthy n ->
  lookup p (ports (mx (na n))) = Some (Connected cA) -> remote cA = q ->
  lookup q (ports (mx (nb n))) = Some (Connected cB) -> remote cB = p ->
  (forall p' c', lookup p' (ports (mx (na n))) = Some (Connected c') -> remote c' = q -> p' = p) /\
  (forall q' c', lookup q' (ports (mx (nb n))) = Some (Connected c') -> remote c' = p -> q' = q).
Proof. exact paired_exclusive. Qed.

(** The whole cross-endpoint invariant ([Chmux/NetInv.v]: per port number, what is in the peer's
    table, among its outstanding requests and in flight; FIFO order of finish frames before a
    number is reintroduced) holds in every reachable state without a protocol error. *)
Theorem C10_composed_invariant : forall c acts, healthy (nreach c acts) -> NetInv (nreach c acts).
Proof. exact NetInv_reach. Qed.

(** Protocol errors between honest endpoints.  If no protocol error has occurred so far, then
    whatever the next action is, an endpoint that ends with a protocol error in it does so with an
    error of the quantity class ([flow_class]: chunk size, receive-buffer overdraw, port-batch size, empty
    port batch, credit overflow, listener-queue overflow): the sending side of this endpoint model
    carries neither the port credits (they are the subject of C02/[PortFlow.v]) nor the
    connect-request credit of [client.rs].  Every error about the STATE of a port or request
    (Reset, Hello, OpenTwice, NotConnecting, DataNotConnected, PortDataNotConnected, PortTwice,
    CreditsNotConnected, SendFinishTwice/NotConnected, RecvCloseTwice/NotConnected,
    RecvFinishNotConnected) is impossible: every frame one endpoint emits finds the other endpoint's
    table in a state that accepts it. *)
Theorem C10_honest_errors_are_quantity_errors : forall c acts a err,
  healthy (nreach c acts) ->
  dead (na (nstep (nreach c acts) a)) = Some err \/ dead (nb (nstep (nreach c acts) a)) = Some err ->
  flow_class err = true.
Proof. exact first_error_flow. Qed.

(** Both endpoints keep their local well-formedness in every reachable state of the composition
    (protocol errors or not): in particular no panic site of either dispatcher is reachable. *)
Theorem C10_composed_wellformed : forall c acts,
  WF (na (nreach c acts)) /\ WF (nb (nreach c acts)).
Proof. exact WF_net. Qed.

(** Non-vacuity.  A connects from port 5, B accepts with port 9: while [PortOpened 5 9] is in flight B's
    port is connected and A's still connecting (second situation, seen from B); after delivery the
    ports name each other; data flows; everything is dropped on both sides and A's frames reach B
    first: B releases 9 while A's entry 5 still waits for B's finish frames (third situation); after
    their delivery both tables are empty, and the numbers can be used again. *)
Definition cfg_ex : ncfg := mk_ncfg 100 1000 4 8 100 1000 4 8.
Definition open_ex : list nact :=
  [Loc SA (UConnect 5 5 true 1); Loc SA DConn; Deliver SA; Loc SB (UListenerTake 5); Loc SB (UAccept 5 9); Loc SB DPort].
Definition close_ex : list nact :=
  [Loc SA (USendData 5 true true 3); Loc SA DPort; Deliver SA;
   Loc SA (UDropTx 5); Loc SA (NTx 5); Loc SA DPort; Loc SA (UDropRx 5); Loc SA (NRx 5); Loc SA DPort;
   Loc SB (UDropTx 9); Loc SB (NTx 9); Loc SB DPort; Loc SB (UDropRx 9); Loc SB (NRx 9); Loc SB DPort;
   Deliver SA; Deliver SA].
Example C10b_nonvacuous :
  let n1 := nreach cfg_ex open_ex in
  let n2 := nreach cfg_ex (open_ex ++ [Deliver SB]) in
  let n3 := nreach cfg_ex (open_ex ++ [Deliver SB] ++ close_ex) in
  let n4 := nreach cfg_ex (open_ex ++ [Deliver SB] ++ close_ex ++ [Deliver SB; Deliver SB]) in
  (healthy n1 /\ lookup 5 (ports (mx (na n1))) = Some (Connecting 1) /\ map fst (lba n1) = [PortOpened 5 9] /\
   exists cB, lookup 9 (ports (mx (nb n1))) = Some (Connected cB) /\ remote cB = 5) /\
  (healthy n2 /\ lookup 1 (connects (na n2)) = Some (CResolved (RAccepted 5 9)) /\
   (exists cA, lookup 5 (ports (mx (na n2))) = Some (Connected cA) /\ remote cA = 9) /\
   (exists cB, lookup 9 (ports (mx (nb n2))) = Some (Connected cB) /\ remote cB = 5)) /\
  (healthy n3 /\ ports (mx (nb n3)) = [] /\ alloc (nb n3) = [] /\ map fst (lba n3) = [SendFinish 5; ReceiveFinish 5] /\
   exists cA, lookup 5 (ports (mx (na n3))) = Some (Connected cA) /\ tx_dropped cA = true /\ rx_dropped cA = true) /\
  (healthy n4 /\ ports (mx (na n4)) = [] /\ ports (mx (nb n4)) = [] /\ alloc (na n4) = [] /\ lab n4 = [] /\ lba n4 = []).
Proof. vm_compute. repeat split; try reflexivity; eexists; repeat split; reflexivity. Qed.

(** The quantity errors do occur in this model (its sending side has no credit accounting): with
    [connect_queue = 1] three unanswered connect requests overflow B's listener queue; a payload
    larger than B's chunk size is refused.  (In the code the first is prevented by the
    [ConnectRequestCrediter] semaphore of [client.rs], the second by the sender's chunking; see
    DESIGN.md section 5, C10/C02.) *)
Example C10b_quantity_errors_reachable_in_model :
  let c := mk_ncfg 100 1000 1 8 100 1000 1 8 in
  let n1 := nreach c [Loc SA (UConnect 1 1 true 1); Loc SA (UConnect 2 2 true 2); Loc SA (UConnect 3 3 true 3);
                      Loc SA DConn; Loc SA DConn; Loc SA DConn; Deliver SA; Deliver SA; Deliver SA] in
  let n2 := nreach cfg_ex (open_ex ++ [Deliver SB; Loc SA (USendData 5 true true 101); Loc SA DPort; Deliver SA]) in
  dead (nb n1) = Some PTooManyOpen /\ dead (nb n2) = Some PChunkSize.
Proof. vm_compute. split; reflexivity. Qed.

Print Assumptions C10_pairing.
Print Assumptions C10_paired_exclusive.
Print Assumptions C10_composed_invariant.
Print Assumptions C10_honest_errors_are_quantity_errors.
Print Assumptions C10_composed_wellformed.
Print Assumptions C10b_quantity_errors_reachable_in_model.
