(** C13 (deque) -- a mirror of an [ObservableVecDeque] equals the deque.
    Only statements, [exact] proofs and assumption printing live here.
    Model: [Robs/VecDeque.v] (transcription of /repo/remoc/src/robs/vec_deque.rs), proofs: [Robs/VecDequeProofs.v]. *)
From Remoc Require Import Lib.Base Robs.SeqCommon Robs.VecDeque Robs.VecDequeProofs.
From Remoc Require Gen.Api Gen.Variants.

(** For every initial content, every sequence [ops] of mutator calls that does not panic, every
    subscription point [k] and both subscription modes: the events the subscription delivers are the
    initial-value events for the state after [k] calls followed by the events of [ops[k..]];
    provided [max_size] is not exceeded,
    (a) the mirror task fed with them ends without error holding exactly the final contents, with
        [complete] set and [done] equal to the deque's done flag;
    (b) applying the same events by hand, starting from [take_initial()], gives the same, always. *)
Theorem C13_VecDeque_mirror_equals_collection : forall init ops k cf e,
  run_ops (start init) ops = Ok (cf, e) ->
  exists ck e1 e2,
    run_ops (start init) (firstn k ops) = Ok (ck, e1) /\
    run_ops ck (skipn k ops) = Ok (cf, e2) /\ e = e1 ++ e2 /\
    forall md mx,
      run_bounded mx ck (skipn k ops) ->
      mirror_task (sub_mirror md ck mx) (sub_stream md ck e2) =
        HOk {| mv := items cf; mcomplete := true; mdone := cdone cf; mmax := mx |} /\
      fold_events (hand_start md ck mx) (sub_stream md ck e2) =
        HOk {| mv := items cf; mcomplete := true; mdone := cdone cf; mmax := mx |}.
Proof. exact mirror_equals_collection. Qed.

(** One mutator call: a mirror (or a hand consumer) that equals the deque before the call equals it
    after processing the events of the call; with [brk] (the mirror task) it stops exactly at [Done]. *)
Theorem C13_VecDeque_step : forall brk c o c1 e1 cp mx tl,
  apply_op c o = Ok (c1, e1) ->
  brk = false \/ cdone c = false ->
  len (items c1) <= mx ->
  task_gen brk (mirror_of c cp mx) (e1 ++ tl) =
  if brk && cdone c1 then HOk (mirror_of c1 cp mx) else task_gen brk (mirror_of c1 cp mx) tl.
Proof. exact step. Qed.

(** The done flag the mirror reports is set exactly when [done] was called. *)
Theorem C13_VecDeque_done_iff_called : forall init ops cf e,
  run_ops (start init) ops = Ok (cf, e) -> (cdone cf = true <-> In MarkDone ops).
Proof. exact done_iff_called. Qed.

(** Regression example (former finding F11, repaired in /repo): deque [7; 8], [done()], then
    [subscribe_incremental().mirror()] -- the mirror holds [7; 8], complete and done. *)
Example C13_VecDeque_incremental_after_done :
  let ck := {| items := [7; 8]; cdone := true |} in
  run_ops (start [7; 8]) [MarkDone] = Ok (ck, [EDone]) /\
  mirror_task (sub_mirror Incremental ck 10) (sub_stream Incremental ck []) =
    HOk {| mv := [7; 8]; mcomplete := true; mdone := true; mmax := 10 |}.
Proof. vm_compute. auto. Qed.

(** Tie to the source: the modelled mutators are the public [&mut self] methods of [ObservableVecDeque]
    found in the source on this run (minus [set_error_handler]/[into_inner]); [RefMut]/[IterMut] have no
    inherent mutators (their writes go through [DerefMut]/[Drop], modelled by [GetMut]/[IterMut]);
    every constructor of [op] is listed; the modelled events are the variants of [VecDequeEvent]. *)
Theorem C13_VecDeque_api_covered :
  map Names.op_name modelled_ops = Names.minus Gen.Api.vec_deque_ObservableVecDeque_mutators Names.non_mutating /\
  Gen.Api.vec_deque_RefMut_mutators = [] /\ Gen.Api.vec_deque_IterMut_mutators = [].
Proof. exact api_covered. Qed.
Theorem C13_VecDeque_ops_all_listed : forall o, In (Names.op_name o) (map Names.op_name (modelled_ops ++ trait_ops)).
Proof. exact ops_all_listed. Qed.
Theorem C13_VecDeque_events_covered : map Names.event_name modelled_events = Gen.Variants.VecDequeEvent_variants.
Proof. exact events_covered. Qed.
Theorem C13_VecDeque_events_all_listed : forall e, In (Names.event_name e) (map Names.event_name modelled_events).
Proof. exact events_all_listed. Qed.

(** Non-vacuity: a run with no-ops, reference writes, retain, swap_remove_front/back, out-of-range removes and done; subscription in
    the middle, incremental; the mirror reaches the final contents. *)
Example C13_VecDeque_nonvacuous :
  let ops := [PushBack 4; PopFront; PopBack; GetMut 1 (Some 9); IterMut true [Some 5; None; Some 6]; Insert 2 1;
              PushFront 8; SwapRemoveFront 2; SwapRemoveBack 0; SwapRemoveBack 7; Remove 9; Retain [true; false; true];
              Resize 5 2; Truncate 9; Clear; Clear; PopFront; Extend [1; 2]; MarkDone; MarkDone] in
  exists ck e1 cf e2,
    run_ops (start [1; 2; 3]) (firstn 4 ops) = Ok (ck, e1) /\ run_ops ck (skipn 4 ops) = Ok (cf, e2) /\
    run_bounded 6 ck (skipn 4 ops) /\ items cf = [1; 2] /\ cdone cf = true /\
    mirror_task (sub_mirror Incremental ck 6) (sub_stream Incremental ck e2) =
      HOk {| mv := [1; 2]; mcomplete := true; mdone := true; mmax := 6 |}.
Proof.
  eexists _, _, _, _. split; [vm_compute; reflexivity|]. split; [vm_compute; reflexivity|].
  repeat split; vm_compute; congruence.
Qed.

Print Assumptions C13_VecDeque_mirror_equals_collection.
Print Assumptions C13_VecDeque_step.
Print Assumptions C13_VecDeque_done_iff_called.
Print Assumptions C13_VecDeque_api_covered.
Print Assumptions C13_VecDeque_ops_all_listed.
Print Assumptions C13_VecDeque_events_covered.
Print Assumptions C13_VecDeque_events_all_listed.
Print Assumptions C13_VecDeque_incremental_after_done.
