(** C02 -- Flow control safety: advertised receive buffer and chunk size never exceeded. *)
From Remoc Require Import Lib.Base Chmux.Parse Chmux.Recv Chmux.PortFlow Chmux.PortFlowProofs.

(** At every prefix of every schedule: the cost of everything the sending endpoint has put on the
    transport for the port minus the credit granted back to it never exceeds the receive buffer the
    peer advertised; consequently neither dispatcher ever ends the connection with a protocol error
    (credit overdraw, oversized chunk, credit overflow). *)
Theorem C02_wire_bound : forall c md mp acts,
  cfg_ok c -> let s := run acts (init c md mp) in
  sent_cost s <= granted s + limit (cfg s) /\ dead s = None.
Proof. intros c md mp acts Hc. exact (wire_bound md mp _ (Inv_run c md mp acts Hc)). Qed.

(** No frame on the transport carries more than the advertised chunk size (data bytes, or four
    bytes per port of a port batch). *)
Theorem C02_chunk_bound : forall c md mp acts,
  cfg_ok c -> let s := run acts (init c md mp) in
  Forall (fun f => frame_ok (chunk (cfg s)) f = true) (link s).
Proof. intros c md mp acts Hc. exact (chunk_bound md mp _ (Inv_run c md mp acts Hc)). Qed.

(** Conversely the receiving endpoint never grants back more credit than it has consumed. *)
Theorem C02_grant_bound : forall c md mp acts,
  cfg_ok c -> let s := run acts (init c md mp) in granted s <= costs (consumed s).
Proof. intros c md mp acts Hc. exact (grant_bound md mp _ (Inv_run c md mp acts Hc)). Qed.

Example C02_nonvacuous :
  let c := {| chunk := 4; limit := 6; cap_s := 1; cap_r := 1 |} in
  let s := run [USend [1;2;3;4;5;6;7]; TReq; TEmit; TMux; TEmit; TMux; TLink; TLink; RConsume; TCredMux; TCredLink]
               (init c 100 10) in
  cfg_ok c /\ sent_cost s = 6 /\ granted s = 4 /\ pool s = 4.
Proof. vm_compute. repeat split; intros; discriminate. Qed.

Print Assumptions C02_wire_bound.
Print Assumptions C02_chunk_bound.
Print Assumptions C02_grant_bound.
