(** C01 -- Port delivery: exactly-once, in-order, byte-exact, cancel-atomic messages.
    Only statements, [exact] proofs and assumption printing live here. *)
From Remoc Require Import Lib.Base Chmux.Parse Chmux.Recv Chmux.RecvProofs Chmux.PortFlow Chmux.PortFlowProofs.

(** For every configuration accepted by [Cfg::check], every receiver limit and every schedule
    (user calls incl. cancellation at every await, task interleaving, delivery of frames and of
    returned credits): what the sending operations have handed over parses to exactly the messages
    whose send returned [Ok] -- a cancelled or failed send contributes nothing and disturbs neither
    its predecessors nor its successors. *)
Theorem C01_sends_are_atomic : forall c md mp acts,
  cfg_ok c -> let s := run acts (init c md mp) in parse (emitted s) = completed s.
Proof. intros c md mp acts Hc. exact (emitted_parse md mp _ (Inv_run c md mp acts Hc)). Qed.

(** A consumer following the receive protocol obtains from ANY frame sequence exactly the data
    messages it contains, each once, in order, byte for byte, whole or streamed (whatever their size
    relative to [max_data_size]). *)
Theorem C01_receiver_refines_parser : forall md mp fs,
  let '(_, _, o) := feed_all CAny (rinit md mp) fs in
  data_of (delivered_msgs o) = data_of (parse fs).
Proof. exact recv_refines_parse. Qed.

(** At every moment of every schedule the data messages obtained by the receiver are a prefix of the
    completed sends: nothing is duplicated, reordered, altered, merged, or invented. *)
Theorem C01_delivery_prefix : forall c md mp acts,
  cfg_ok c -> let s := run acts (init c md mp) in
  prefix (data_of (delivered_msgs (delivered s))) (data_of (completed s)).
Proof. intros c md mp acts Hc. exact (delivery_prefix md mp _ (Inv_run c md mp acts Hc)). Qed.

(** Eventual delivery, stated at quiescence: once the queues between sender and receiver are empty
    (the receiver has consumed what was delivered), every completed send has been obtained.
    That the queues do drain while the receiver keeps receiving is C03 (progress, measures). *)
Theorem C01_delivery_complete : forall c md mp acts,
  cfg_ok c -> let s := run acts (init c md mp) in
  rxq s = [] -> link s = [] -> evq s = [] ->
  (op s = SIdle \/ exists f a, op s = SChunkIdle f a) ->
  data_of (delivered_msgs (delivered s)) = data_of (completed s).
Proof. intros c md mp acts Hc. exact (delivery_complete md mp _ (Inv_run c md mp acts Hc)). Qed.

(** Non-vacuity: a 7-byte message is cancelled after two chunks, then a one-byte message is sent;
    the receiver obtains exactly the second one. *)
Example C01_nonvacuous :
  let c := {| chunk := 4; limit := 6; cap_s := 1; cap_r := 1 |} in
  let s := run [USend [1;2;3;4;5;6;7]; TReq; TEmit; TMux; TEmit; TMux; TLink; TLink; RConsume; TCredMux; TCredLink;
                UCancel; USend [9]; TReq; TEmit; TMux; TLink; RConsume; RConsume; TCredMux; TCredLink] (init c 100 10) in
  emitted s = [FData true false [1;2;3;4]; FData false false [5;6]; FData true true [9]] /\
  completed s = [MData [9]] /\ delivered s = [DData [9]] /\ pool s = 5.
Proof. vm_compute. auto. Qed.

Print Assumptions C01_sends_are_atomic.
Print Assumptions C01_receiver_refines_parser.
Print Assumptions C01_delivery_prefix.
Print Assumptions C01_delivery_complete.
