(** C07 (composed part) -- Both dispatchers finish successfully when everything has been dropped on both
    endpoints.  Only statements, [exact] proofs and assumption printing live here.

    [nreach c acts] ([Chmux/Net.v]) is the state of two endpoint models joined by two FIFO links after
    ANY list of local actions of either side and deliveries.  [nquiet n] ([Chmux/NetTerm.v],
    [Chmux/NetQuiet.v]): on both sides clients and listener are dropped, no sender or receiver half is
    alive, every remaining request object is dropped or answered, and nothing is under way that
    would hand out new objects (no queued accept, no [PortOpened] in flight).  System actions
    ([sys_nact]): the helper tasks [NTx]/[NRx]/[NReq], the dispatcher steps
    [DPort]/[DConn]/[DListenerDropped]/[DGoodbye] of either side, and [Deliver] in either direction.
    [nfinished n]: both endpoints have [dead = None], Goodbye sent and Goodbye received, i.e. both
    [run] futures return [Ok].  [flow_error n]: an endpoint ended with a protocol error of the quantity
    class (see C10b: only data frames queued before the drop can cause one in this model).
    [Ok n]: [healthy n], the composed invariant, and [nquiet n].  [mu n] is the measure: weighted number of
    frames in flight, queued events, dropped halves/requests whose notifier has not run, and the
    two pending announcements (ListenerFinish, Goodbye) per side. *)
From Remoc Require Import Lib.Base Gen.Consts Chmux.Wire Chmux.Mux Chmux.Endpoint Chmux.EndpointLemmas Chmux.EndpointInv
  Chmux.Net Chmux.NetInv Chmux.NetRecvStep Chmux.NetProofs Chmux.NetQuiet Chmux.NetQuiet3 Chmux.NetTerm.

(** From every reachable state without protocol error in which no user object is left on either side
    there is a run of system actions after which both dispatchers have ended successfully (or a
    quantity error of the data already queued has ended the connection). *)
Theorem C07_both_terminate : forall c acts,
  let n := nreach c acts in
  healthy n -> nquiet n ->
  exists acts', forallb sys_nact acts' = true /\ (nfinished (nrun acts' n) \/ flow_error (nrun acts' n)).
Proof. exact both_terminate. Qed.

(** Such states are good states ... *)
Theorem C07_quiet_is_ok : forall c acts, healthy (nreach c acts) -> nquiet (nreach c acts) -> Ok (nreach c acts).
Proof. exact Ok_intro. Qed.

(** ... in a good state every system action is either not enabled (changes nothing), ends in a
    quantity error, or leads to a good state with a strictly smaller measure ... *)
Theorem C07_system_action_decreases : forall n a, Ok n -> sys_nact a = true ->
  nstep n a = n \/ flow_error (nstep n a) \/ (Ok (nstep n a) /\ mu (nstep n a) < mu n).
Proof. exact system_action_decreases. Qed.

(** ... and a good state in which no system action is enabled is one in which both dispatchers
    have ended successfully: nothing can be left behind (no table entry, no outstanding request, no
    frame in flight that will never be handled). *)
Theorem C07_stuck_is_finished : forall n, Ok n -> (forall a, sys_nact a = true -> nstep n a = n) -> nfinished n.
Proof. exact stuck_is_finished. Qed.

(** The all-clients-dropped marker is never lost and a sent Goodbye is in flight or received, in
    every reachable state (protocol errors or not). *)
Theorem C07_markers : forall c acts,
  let n := nreach c acts in
  (clients_alive (na n) = false -> 1 <= count is_acd (cq (na n)) + b2n (all_clients_dropped (mx (na n)))) /\
  (clients_alive (nb n) = false -> 1 <= count is_acd (cq (nb n)) + b2n (all_clients_dropped (mx (nb n)))) /\
  cnt m_gb (lab n) + b2n (goodbye_received (mx (nb n))) = b2n (goodbye_sent (mx (na n))) /\
  cnt m_gb (lba n) + b2n (goodbye_received (mx (na n))) = b2n (goodbye_sent (mx (nb n))).
Proof. exact markers_reach. Qed.

(** Non-vacuity: a port is opened (A's 5 with B's 9), data is sent and delivered, then every user object
    is dropped on both sides without any helper task or dispatcher step in between: the state is
    quiet; a run of system actions drains it and both dispatchers end successfully with empty
    tables, allocators and links. *)
Definition cfg_ex : ncfg := mk_ncfg 100 1000 4 8 100 1000 4 8.
Definition life_ex : list nact :=
  [Loc SA (UConnect 5 5 true 1); Loc SA DConn; Deliver SA; Loc SB (UListenerTake 5); Loc SB (UAccept 5 9); Loc SB DPort; Deliver SB;
   Loc SA (USendData 5 true true 3); Loc SA DPort; Deliver SA;
   Loc SA (UDropTx 5); Loc SA (UDropRx 5); Loc SA UDropClients; Loc SA UDropListener;
   Loc SB (UDropTx 9); Loc SB (UDropRx 9); Loc SB UDropClients; Loc SB UDropListener].
Definition drain_ex : list nact :=
  [Loc SA (NTx 5); Loc SA (NRx 5); Loc SA DPort; Loc SA DPort; Loc SA DConn; Loc SA DListenerDropped;
   Loc SB (NTx 9); Loc SB (NRx 9); Loc SB DPort; Loc SB DPort; Loc SB DConn; Loc SB DListenerDropped;
   Deliver SA; Deliver SA; Deliver SA; Deliver SA; Deliver SB; Deliver SB; Deliver SB; Deliver SB;
   Loc SA DGoodbye; Loc SB DGoodbye; Deliver SA; Deliver SB].
Example C07b_nonvacuous :
  let n := nreach cfg_ex life_ex in
  let n' := nrun drain_ex n in
  healthy n /\ nquiet n /\ 0 < mu n /\ forallb sys_nact drain_ex = true /\
  nfinished n' /\ mu n' = 0 /\
  ports (mx (na n')) = [] /\ ports (mx (nb n')) = [] /\ alloc (na n') = [] /\ alloc (nb n') = [] /\ lab n' = [] /\ lba n' = [] /\
  map fst (sent (na n')) = [OpenPort 5 true (Some 5); Data 9 true true; SendFinish 9; ReceiveFinish 9; ClientFinish; ListenerFinish; Goodbye] /\
  map fst (sent (nb n')) = [PortOpened 5 9; SendFinish 5; ReceiveFinish 5; ClientFinish; ListenerFinish; Goodbye].
Proof.
  split; [vm_compute; split; reflexivity|]. split; [apply nquietb_sound; vm_compute; reflexivity|].
  vm_compute. repeat split; reflexivity.
Qed.

Print Assumptions C07_both_terminate.
Print Assumptions C07_quiet_is_ok.
Print Assumptions C07_system_action_decreases.
Print Assumptions C07_stuck_is_finished.
Print Assumptions C07_markers.
