(** C07 / C10 (port-number allocator) -- numbers in use never exceed the limit, and a released number is never
    left unused while somebody waits for one: no lost wake-up, for every interleaving of allocations, releases,
    polls (spurious ones included) and cancelled [allocate()] futures.  Model: [Chmux/Alloc.v]
    ([chmux/port_allocator.rs]); tied to the real allocator by component 71 ([Run/RunAlloc.v], [vh alloc]). *)
From Remoc Require Import Lib.Base Chmux.Alloc Chmux.AllocProofs.

Theorem C07_alloc_bound : forall lim xs, used (run (init lim) xs) <= limit (run (init lim) xs) /\ limit (run (init lim) xs) = lim.
Proof. intros lim xs. split; [exact (used_le_limit lim xs)|exact (limit_run xs (init lim))]. Qed.

(** In every reachable state in which a number is free, every pending [allocate()] has been woken ... *)
Theorem C07_alloc_no_lost_wakeup : forall lim xs id st,
  let a := run (init lim) xs in
  used a < limit a -> flookup id (futs a) = Some st -> st = FNotified.
Proof. exact no_lost_wakeup. Qed.

(** ... and a woken one that is polled while a number is free takes it. *)
Theorem C07_alloc_woken_takes : forall a id, flookup id (futs a) = Some FNotified -> used a < limit a ->
  snd (step a (APoll id)) = [1] /\ used (fst (step a (APoll id))) = used a + 1 /\
  flookup id (futs (fst (step a (APoll id)))) = None.
Proof. exact woken_takes. Qed.

(** Non-vacuity: one number, two waiters; the release wakes both; the first one woken is cancelled before it
    runs, the other one still gets the number. *)
Example C07_alloc_nonvacuous :
  let a := run (init 1) [ATry; AStart 1; AStart 2; ADrop; ACancel 1] in
  used a = 0 /\ flookup 2 (futs a) = Some FNotified /\ snd (step a (APoll 2)) = [1] /\
  snd (step (run (init 1) [ATry; AStart 1; AStart 2]) ADrop) = [1; 1; 2].
Proof. vm_compute. auto. Qed.

Print Assumptions C07_alloc_bound.
Print Assumptions C07_alloc_no_lost_wakeup.
Print Assumptions C07_alloc_woken_takes.
