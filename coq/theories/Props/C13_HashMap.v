(** C13 (hash map) -- a mirror of an [ObservableHashMap] equals the map.
    Only statements, [exact] proofs and assumption printing live here.

    Model: [Robs/HashMap.v] ([apply_op] = every public mutator incl. the entry API, [RefMut] use,
    [retain] closures with [&mut V]; [sub_stream] = what [recv()] yields; [mirror_task] = the task
    spawned by [mirror()]; [replay] = a consumer applying the events by hand).

    Full statement (FALSE on the current code, see [C13_HashMap_retain_refuted]):
      forall init ops k md max, fits_from max init ops k = true ->
        mirror_ok init ops k md max /\ hand_ok init ops k md.
    Proved: the same statement for every input outside one decidable class,
      F4   a [retain] closure changes the value of an entry it keeps, after the subscription point
           ([silent_free_from init ops k = false]) -- no event is emitted.
    (F11, incremental subscription of a non-empty map made after [done()], was repaired in /repo by
    commit 290b96a; the model follows the repaired code and the class is no longer excluded.) *)
From Remoc Require Import Lib.Base Robs.KeyMap Robs.HashMap Robs.HashMapProofs.
From Remoc Require Gen.Api Gen.Variants.

(** For every initial content, operation sequence, subscription point, mode and [max_size] that is
    not exceeded: once the mirror task has processed what was emitted, it reports no error, holds
    exactly the observed contents (extensionally and as canonical lists), is done iff [done()] was
    called, and is complete. *)
Theorem C13_HashMap_mirror : forall init ops k md max,
  silent_free_from init ops k = true ->
  fits_from max init ops k = true ->
  mirror_ok init ops k md max.
Proof. exact mirror_ok_outside_known_class. Qed.

(** Consuming [take_initial()] and the [recv()] stream by hand gives the same contents and sees
    [Done] iff [done()] was called (no size bound). *)
Theorem C13_HashMap_hand : forall init ops k md,
  silent_free_from init ops k = true -> hand_ok init ops k md.
Proof. exact hand_ok_outside_known_class. Qed.

(** The syntactic form of the F4 class: operation lists in which no [retain] decision both keeps
    and writes are outside it, wherever the subscription is made. *)
Theorem C13_HashMap_no_retain_mutation : forall init ops k,
  no_retain_mutation ops = true -> silent_free_from init ops k = true.
Proof. exact no_retain_mutation_sound. Qed.
Theorem C13_HashMap_static : forall init ops k md max,
  no_retain_mutation ops = true ->
  fits_from max init ops k = true ->
  mirror_ok init ops k md max /\ hand_ok init ops k md.
Proof. exact no_retain_mutation_ok. Qed.

(** F4: the statement fails for [retain(|_, v| { *v = 11; true })] on [{1: 10}]. *)
Theorem C13_HashMap_retain_refuted : exists init ops k md max,
  silent_free_from init ops k = false /\ fits_from max init ops k = true /\
  ~ mirror_ok init ops k md max /\ ~ hand_ok init ops k md.
Proof. exists [(1, 10)], f4_ops, 0%nat, Snapshot, 100. exact retain_refuted. Qed.

(** The former F11 witness -- [{1: 10, 2: 20}], [done()], then [subscribe_incremental().mirror()] --
    is now mirrored completely (it is an instance of [C13_HashMap_mirror]; shown as a computation). *)
Example C13_HashMap_late_incremental_now_ok :
  late_incremental_at [(1, 10); (2, 20)] f11_ops 1 Incremental = true /\
  mirror_task (mirror_init Incremental (state_at [(1, 10); (2, 20)] f11_ops 1) 100)
              (stream_at [(1, 10); (2, 20)] f11_ops 1 Incremental)
  = ({| m_hm := [(1, 10); (2, 20)]; m_complete := true; m_done := true; m_max := 100 |}, None).
Proof. exact late_incremental_now_ok. Qed.

(** The modelled operations are exactly the public mutators found in the Rust source on this run
    (a new mutator or entry method breaks this proof). *)
Theorem C13_HashMap_api_covered :
  Gen.Api.hash_map_ObservableHashMap_mutators = map op_name all_ops ++ consuming_ops /\
  Gen.Api.hash_map_Entry_mutators = entry_methods /\
  Gen.Api.hash_map_OccupiedEntry_mutators = occupied_methods /\
  Gen.Api.hash_map_VacantEntry_mutators = vacant_methods /\
  Gen.Api.hash_map_RefMut_mutators = [] /\ Gen.Api.hash_map_IterMut_mutators = [] /\
  Gen.Api.hash_map_ValuesMut_mutators = [].
Proof. exact api_covered. Qed.
Theorem C13_HashMap_api_complete : forall o, In (op_name o) (map op_name all_ops).
Proof. exact op_names_complete. Qed.
Theorem C13_HashMap_events_covered :
  Gen.Variants.HashMapEvent_variants = map event_name all_events /\
  forall e, In (event_name e) (map event_name all_events).
Proof. exact events_covered. Qed.

(** Non-vacuity: a sequence through entry API, [RefMut] writes, a removing [retain] that writes
    into the entry it removes, [iter_mut], [done], subscribed in the middle, meets the hypotheses. *)
Example C13_HashMap_nonvacuous :
  let init := [(1, 10); (2, 20); (3, 30)] in
  let ops := [Insert 4 40; Entry 5 [Some 1] (EOrInsert 50 (AWrite 51));
              Retain {| d_keep := true; d_acc := ATouch |} [(2, {| d_keep := false; d_acc := AWrite 7 |})];
              Entry 1 [None] (EMatch [OInsert 12; OGetMut (AWrite 13)] ORemove VDrop);
              IterMut [(3, AWrite 33); (9, ATouch); (3, AWrite 0)]; GetMut 4 ATouch; Clear; Insert 6 60; MarkDone] in
  silent_free_from init ops 2 = true /\
  fits_from 5 init ops 2 = true /\ o_hm (final_state init ops) = [(6, 60)] /\
  stream_at init ops 2 Incremental =
    [ESet 1 10; ESet 2 20; ESet 3 30; ESet 4 40; ESet 5 51; EInitialComplete;
     ERemove 2; ESet 1 10; ESet 1 12; ESet 1 13; ERemove 1; ESet 3 33; ESet 4 40; EClear; ESet 6 60; EDone].
Proof. vm_compute. repeat split; reflexivity. Qed.

Print Assumptions C13_HashMap_mirror.
Print Assumptions C13_HashMap_hand.
Print Assumptions C13_HashMap_no_retain_mutation.
Print Assumptions C13_HashMap_static.
Print Assumptions C13_HashMap_retain_refuted.
Print Assumptions C13_HashMap_late_incremental_now_ok.
Print Assumptions C13_HashMap_api_covered.
Print Assumptions C13_HashMap_api_complete.
Print Assumptions C13_HashMap_events_covered.
