(** C09 -- Wire format of protocol version 3 is stable and version-negotiated.
    Only statements, [exact] proofs and assumption printing live here. *)
From Remoc Require Import Lib.Base Gen.Consts Chmux.Wire Chmux.Spec3 Chmux.WireProofs Chmux.Mux Chmux.MuxIds.

(** The constants read off the Rust source on this run are those of the version-3 table. *)
Theorem C09_codes_match :
  all_codes = Spec3.codes /\ MAGIC = Spec3.magic /\ PROTOCOL_VERSION = 3 /\
  PROTOCOL_VERSION_PORT_ID = Spec3.first_version_with_ids /\
  (MSG_OPEN_PORT_FLAG_WAIT, MSG_OPEN_PORT_FLAG_ID) = (1, 2) /\
  MSG_REJECTED_FLAG_NO_PORTS = 1 /\
  (MSG_DATA_FLAG_FIRST, MSG_DATA_FLAG_LAST) = (1, 2) /\
  (MSG_PORT_DATA_FLAG_FIRST, MSG_PORT_DATA_FLAG_LAST, MSG_PORT_DATA_FLAG_WAIT, MSG_PORT_DATA_FLAG_IDS) = (1, 2, 4, 8) /\
  MAX_MSG_LENGTH = 16 /\
  (XCFG_MIN_CHUNK_SIZE, XCFG_MIN_RECEIVE_BUFFER, XCFG_MIN_CONNECT_QUEUE) = (4, 4, 1).
Proof. exact codes_match. Qed.

(** Every well-formed message is emitted in the published layout (code byte, flag bits,
    little-endian fields in order). *)
Theorem C09_enc_layout3 : forall m, wf m = true -> enc m = Some (render (layout3 m)).
Proof. exact enc_layout3. Qed.

(** Every well-formed message, including the id-less variants of older peers
    ([OpenPort _ _ None], [PortData _ _ _ _ _ None]), is accepted and decoded to itself. *)
Theorem C09_dec_enc : forall m, wf m = true -> exists bs, enc m = Some bs /\ dec bs = DOk m.
Proof. exact dec_enc. Qed.

(** The encoder emits bytes. *)
Theorem C09_enc_bytes : forall m bs, wf m = true -> enc m = Some bs -> bytes_ok bs = true.
Proof. exact enc_bytes. Qed.

(** What the decoder accepts is well-formed, and its canonical re-encoding decodes to the same message. *)
Theorem C09_dec_wf : forall bs m, bytes_ok bs = true -> dec bs = DOk m -> wf m = true.
Proof. exact dec_wf. Qed.
Theorem C09_dec_canonical : forall bs m,
  bytes_ok bs = true -> dec bs = DOk m -> exists bs', enc m = Some bs' /\ dec bs' = DOk m.
Proof. exact dec_canonical. Qed.

(** The decoder is total (the loop fuel of the model is never exhausted): every byte string yields
    a message, UnexpectedEof or InvalidData. *)
Theorem C09_dec_total : forall bs, dec bs <> DFuel.
Proof. exact dec_no_fuel. Qed.

(** A configuration is exchanged with its timeout truncated to milliseconds; invalid
    configurations, unknown codes and a bad magic are rejected. *)
Theorem C09_hello_exchange : forall v c,
  u8 v = true -> wf_cfg c = true ->
  XCFG_MIN_CHUNK_SIZE <= x_chunk c -> XCFG_MIN_RECEIVE_BUFFER <= x_buffer c -> XCFG_MIN_CONNECT_QUEUE <= x_queue c ->
  exists bs, enc (Hello v c) = Some bs /\ dec bs = DOk (Hello v (exchanged c)).
Proof. exact hello_exchange. Qed.
Theorem C09_cfg_rejects : forall v c,
  u8 v = true -> wf_cfg c = true -> (x_chunk c < 4 \/ x_buffer c < 4 \/ x_queue c < 1) ->
  exists bs, enc (Hello v c) = Some bs /\ dec bs = DInvalid.
Proof. exact cfg_rejects. Qed.
Theorem C09_unknown_code : forall c r, ~ In c Spec3.codes -> dec (c :: r) = DInvalid.
Proof. exact dec_unknown_code. Qed.
Theorem C09_bad_magic : forall r,
  (length MAGIC <= length r)%nat -> firstn (length MAGIC) r <> MAGIC -> dec (MSG_HELLO :: r) = DInvalid.
Proof. exact bad_magic_rejected. Qed.

(** A configured connection timeout is never exchanged as "no timeout" (which would stop the peer's
    keep-alive pings), however short it is. *)
Theorem C09_timeout_presence : forall c,
  (x_timeout c = None <-> x_timeout (exchanged c) = None) /\
  (forall ns, x_timeout c = Some ns -> exists ms, 1 <= ms /\ x_timeout (exchanged c) = Some (ms * NS_PER_MS)).
Proof. exact timeout_presence_exchanged. Qed.

(** Length-prefixed framing on stream transports. *)
Theorem C09_deframe_frame : forall max payload rest,
  u32 (len payload) = true -> len payload <= max -> deframe max (frame payload ++ rest) = FOk payload rest.
Proof. exact deframe_frame. Qed.
Theorem C09_deframe_too_long : forall max payload rest,
  u32 (len payload) = true -> max < len payload -> deframe max (frame payload ++ rest) = FTooLong.
Proof. exact deframe_too_long. Qed.
Theorem C09_fixed_msg_length : forall m bs, fixed_size m = true -> enc m = Some bs -> len bs <= MAX_MSG_LENGTH.
Proof. exact fixed_msg_length. Qed.

(** Every message a peer may send (port batches limited to chunk_size / 4 ports, with or without ids), the
    hello message and every payload frame fit the frame length the endpoint accepts on a stream transport. *)
Theorem C09_frames_fit : forall chunk L m bs,
  max_frame_length chunk = Some L -> admissible chunk m = true -> enc m = Some bs -> u32 (len bs) = true ->
  len bs <= L /\ chunk <= L.
Proof. exact frames_fit. Qed.

(** The handshake is [Reset] then [Hello] announcing version 3 in the version-3 layout. *)
Theorem C09_handshake : forall c, exact_cfg c = true -> handshake c = map Some (Spec3.handshake3 c).
Proof. exact handshake_layout. Qed.

(** Version negotiation in the dispatcher: whatever local event it handles, in whatever state, an open request or
    port batch it emits carries ids exactly when the peer announced a version that knows them
    ([PROTOCOL_VERSION_PORT_ID <= remote version]); handling a received message emits nothing. *)
Theorem C09_ids_follow_peer_version : forall m e w pl,
  In (Emit w pl) (effs_of (handle_event m e)) -> id_capable w = true ->
  has_ids w = (PROTOCOL_VERSION_PORT_ID <=? remote_ver m).
Proof. exact event_ids. Qed.
Theorem C09_received_emits_nothing : forall m msg paylen w pl,
  ~ In (Emit w pl) (effs_of (handle_received m msg paylen)).
Proof. exact received_no_emit. Qed.

(** Non-vacuity: concrete messages meet the hypotheses. *)
Example C09_nonvacuous :
  wf (PortData 7 true false true [1; 4294967295] (Some [9; 0])) = true /\
  wf (Hello 3 {| x_timeout := Some 60000000000; x_chunk := 16384; x_buffer := 524288; x_queue := 128 |}) = true /\
  dec [8; 7; 0; 0; 0; 13; 1; 0; 0; 0; 9; 0; 0; 0] = DOk (PortData 7 true false true [1] (Some [9])).
Proof. vm_compute. auto. Qed.

Print Assumptions C09_codes_match.
Print Assumptions C09_enc_layout3.
Print Assumptions C09_dec_enc.
Print Assumptions C09_enc_bytes.
Print Assumptions C09_dec_wf.
Print Assumptions C09_dec_canonical.
Print Assumptions C09_dec_total.
Print Assumptions C09_hello_exchange.
Print Assumptions C09_cfg_rejects.
Print Assumptions C09_unknown_code.
Print Assumptions C09_bad_magic.
Print Assumptions C09_timeout_presence.
Print Assumptions C09_deframe_frame.
Print Assumptions C09_deframe_too_long.
Print Assumptions C09_fixed_msg_length.
Print Assumptions C09_handshake.
Print Assumptions C09_frames_fit.
Print Assumptions C09_ids_follow_peer_version.
Print Assumptions C09_received_emits_nothing.
