(** C10 (local part) -- Every local port-open request is resolved at most once, by the step that is its
    cause.  Only statements, [exact] proofs and assumption printing live here.
    [reach .. acts] is the state of one endpoint after ANY list of local API actions, helper-task
    steps, dispatcher steps and arbitrary received messages ([Chmux/Endpoint.v]); [connects e] holds
    the reply cell of every local connect request ([CWaiting] / [CResolved r]). *)
From Remoc Require Import Lib.Base Gen.Consts Chmux.Wire Chmux.Mux Chmux.Endpoint Chmux.EndpointLemmas Chmux.EndpointInv
  Chmux.EndpointEffects Chmux.EndpointProofs.

(** A dispatcher function answers ([Respond req r]) only a request that is still waiting ... *)
Theorem C10_at_most_once : forall ch bu cqs rb ver maxp acts a e' o req r,
  let e := reach ch bu cqs rb ver maxp acts in
  step_opt e a = Some e' -> disp_outcome e a = Some o -> In (Respond req r) (effs_of o) ->
  lookup req (connects e) = Some CWaiting.
Proof. intros ch bu cqs rb ver maxp acts a e' o req r e. exact (respond_only_waiting e a e' o req r (WF_reach _ _ _ _ _ _ _)). Qed.

(** ... and a resolved reply cell is never written again, by any action. *)
Theorem C10_resolved_is_final : forall ch bu cqs rb ver maxp acts a e' req r,
  let e := reach ch bu cqs rb ver maxp acts in
  step_opt e a = Some e' -> lookup req (connects e) = Some (CResolved r) ->
  lookup req (connects e') = Some (CResolved r).
Proof. intros ch bu cqs rb ver maxp acts a e' req r e. exact (resolved_stable e a e' req r (WF_reach _ _ _ _ _ _ _)). Qed.

(** While the dispatcher runs, a waiting request has exactly one carrier -- its queued
    [EConnectReq]/[ESendPorts] entry or its [Connecting] table entry -- and a resolved or unknown id
    has none. *)
Theorem C10_pending_unique : forall ch bu cqs rb ver maxp acts req,
  let e := reach ch bu cqs rb ver maxp acts in
  alive e = true ->
  occ req (q_reqs (cq e)) + occ req (q_reqs (chq e)) + occ req (port_reqs (ports (mx e))) =
  if is_waiting (lookup req (connects e)) then 1 else 0.
Proof. intros ch bu cqs rb ver maxp acts req e. exact (pending_unique e req (WF_reach _ _ _ _ _ _ _)). Qed.

(** reading of [port_reqs]: [Connecting req] entries of the table *)
Theorem C10_port_reqs_entries : forall pt p req,
  NoDup (map fst pt) ->
  (lookup p pt = Some (Connecting req) -> 1 <= occ req (port_reqs pt)) /\
  (1 <= occ req (port_reqs pt) -> exists p', In (p', Connecting req) pt).
Proof. intros pt p req Hn. split; [exact (port_reqs_connecting pt p req Hn)|exact (port_reqs_exists pt req)]. Qed.

(** Requests of the remote endpoint waiting in the two listener queues: at most [connect_queue + 1] each. *)
Theorem C10_listen_queue_bound : forall ch bu cqs rb ver maxp acts,
  let e := reach ch bu cqs rb ver maxp acts in
  lq_wait (mx e) <= cfg_connect_queue (mx e) + 1 /\ lq_nowait (mx e) <= cfg_connect_queue (mx e) + 1.
Proof. intros ch bu cqs rb ver maxp acts e. exact (proj2 (buffer_bounds e (WF_reach _ _ _ _ _ _ _))). Qed.

(** The answer recorded for a request is the cause of the step that recorded it:
    [RRejected np] -- the peer's [Rejected {no_ports = np}] for the request's [Connecting] port, or
    ([np = false]) the dispatcher found the remote listener dropped when it dequeued the request;
    [RAccepted p q] -- the peer's [PortOpened {p, q}] for the request's [Connecting] port [p], and
    right after the step [ports[p] = Connected {remote = q}];
    [RChMux] / [RListenerGone] -- the dispatcher ended in this step (error, or Goodbye sent and
    received), the latter iff the remote listener was known to be gone. *)
Theorem C10_truthful_local : forall ch bu cqs rb ver maxp acts a e' req r,
  let e := reach ch bu cqs rb ver maxp acts in
  step_opt e a = Some e' ->
  lookup req (connects e) = Some CWaiting -> lookup req (connects e') = Some (CResolved r) ->
  match r with
  | RRejected np =>
      (exists p n, a = Recv (Rejected p np) n /\ lookup p (ports (mx e)) = Some (Connecting req)) \/
      (np = false /\ a = DConn /\ remote_listener_dropped (mx e) = true /\
       exists p id w q, cq e = EConnectReq p id w req :: q)
  | RAccepted p q =>
      exists n, a = Recv (PortOpened p q) n /\ lookup p (ports (mx e)) = Some (Connecting req) /\
                exists c, lookup p (ports (mx e')) = Some (Connected c) /\ remote c = q
  | RChMux => alive e' = false /\ remote_listener_dropped (mx e') = false
  | RListenerGone => alive e' = false /\ remote_listener_dropped (mx e') = true
  end.
Proof. intros ch bu cqs rb ver maxp acts a e' req r e. exact (truthful e a e' req r (WF_reach _ _ _ _ _ _ _)). Qed.

(** Non-vacuity: request 1 (port 5) is accepted by the peer with its port 9, request 2 (port 6) is
    rejected for lack of ports, request 3 is found with the remote listener gone, request 4 is
    still waiting when a hostile frame kills the dispatcher. *)
Example C10_nonvacuous :
  let acts := [UConnect 5 5 true 1; UConnect 6 6 false 2; DConn; DConn;
               Recv (PortOpened 5 9) 0; Recv (Rejected 6 true) 0;
               Recv ListenerFinish 0; UConnect 7 7 true 3; DConn] in
  let e := reach 100 10 2 16 3 8 acts in
  let e0 := reach 100 10 2 16 3 8 [UConnect 5 5 true 4; DConn] in
  let e1 := step e0 (Recv (Data 99 true true) 1) in
  lookup 1 (connects e) = Some (CResolved (RAccepted 5 9)) /\
  lookup 2 (connects e) = Some (CResolved (RRejected true)) /\
  lookup 3 (connects e) = Some (CResolved (RRejected false)) /\
  alloc e = [5] /\ (exists c, lookup 5 (ports (mx e)) = Some (Connected c) /\ remote c = 9) /\
  lookup 4 (connects e0) = Some CWaiting /\ lookup 5 (ports (mx e0)) = Some (Connecting 4) /\
  dead e1 = Some PDataNotConnected /\ lookup 4 (connects e1) = Some (CResolved RChMux) /\
  map fst (sent e) = [OpenPort 5 true (Some 5); OpenPort 6 false (Some 6)].
Proof. vm_compute. repeat split; try reflexivity. eexists. split; reflexivity. Qed.

Print Assumptions C10_at_most_once.
Print Assumptions C10_resolved_is_final.
Print Assumptions C10_pending_unique.
Print Assumptions C10_port_reqs_entries.
Print Assumptions C10_listen_queue_bound.
Print Assumptions C10_truthful_local.
