(** C03, cross-port part -- a port whose receiver does not consume never stops other ports of the same
    connection; no operation makes steps forever.  Model: [Chmux/SharedQueue.v] (the endpoint's one bounded
    event queue with FIFO permits, the order of the waits in the sending operations and in the credit
    return).  Only statements, [exact] proofs and assumption printing live here. *)
From Remoc Require Import Lib.Base Chmux.SharedQueue Chmux.SharedQueueProofs.

(** The shared queue never holds more events than [shared_send_queue], permits are never over-committed. *)
Theorem C03_shared_queue_bounded : forall c ps acts,
  1 <= c -> NoDup (map fst ps) ->
  let s := run acts (init c ps) in len (queue s) <= cap s /\ in_use s <= cap s.
Proof. exact queue_bounded. Qed.

(** No livelock: every system action (poll of a pending future, permit hand-over, dispatcher taking an event)
    decreases a measure of the work that is possible without the environment. *)
Theorem C03_system_step_decreases : forall s a s',
  Inv s -> is_system a = true -> step_opt s a = Some s' -> M s' < M s.
Proof. exact system_step_decreases. Qed.

(** After ANY history of calls, cancellations, credit returns and system actions, every run of system actions
    alone -- no receiver of any port consuming anything -- has at most [M s] steps, and when it cannot be extended
    the queue is empty, nobody waits for or holds a permit, and every port is idle or waits for credits with
    none left: what a port can do with its own credits never depends on another port's receiver. *)
Theorem C03_ports_do_not_block_each_other : forall c ps history sys s',
  1 <= c -> NoDup (map fst ps) ->
  let s := run history (init c ps) in
  sys_run sys s = Some s' -> quiescent s' ->
  len sys <= M s /\ queue s' = [] /\ waiters s' = [] /\ granted s' = [] /\ Forall port_done (ports s').
Proof. exact ports_do_not_block_each_other. Qed.

(** Non-vacuity: one slot; port 1 is starved (no credits) with a pending two-frame operation, port 2 has three
    credits and a three-frame operation, the receiver of port 3 returns credits through the same queue.  The
    system alone hands over port 2's three frames and the credit return and then is quiescent, port 1 still
    waiting for credits. *)
Example C03b_nonvacuous :
  let s := run [UStart 1 2; UStart 2 3; SPoll 2; ERetStart 3 8; ERetStart 3 9] (init 1 [(1, 0); (2, 3); (3, 0)]) in
  let sys := [SGrant; SUse 2; SPop; SGrant; SUseRet; SPop; SGrant; SUseRet; SPoll 2; SPop; SGrant; SUse 2; SPoll 2; SPop; SGrant; SUse 2; SPop] in
  match sys_run sys s with
  | Some s' => handed s' = [WOp 2; WRet 3 8; WRet 3 9; WOp 2; WOp 2] /\
               map ph (ports s') = [PWaitCredit 2; PIdle; PIdle] /\
               forallb (fun a => match step_opt s' a with None => true | Some _ => false end)
                       [SPoll 1; SPoll 2; SPoll 3; SGrant; SUse 1; SUse 2; SUse 3; SUseRet; SPop] = true
  | None => False
  end.
Proof. vm_compute. repeat split; reflexivity. Qed.

Print Assumptions C03_shared_queue_bounded.
Print Assumptions C03_system_step_decreases.
Print Assumptions C03_ports_do_not_block_each_other.
Print Assumptions C03b_nonvacuous.
