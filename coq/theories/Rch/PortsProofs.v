(** Proofs about [Rch/Ports.v] (property C05). *)
From Remoc Require Import Lib.Base Gen.Halves Rch.Ports.

(** * Lists without repetition *)

Lemma nodup_app_l {A} (l1 l2 : list A) : NoDup (l1 ++ l2) -> NoDup l1.
Proof.
  induction l1 as [|x l1 IH]; cbn [app]; [constructor|].
  intros H. inversion H as [|? ? Hn ND]; subst. constructor; [|auto].
  intros Hc. apply Hn. apply in_or_app. now left.
Qed.

Lemma nodup_app_r {A} (l1 l2 : list A) : NoDup (l1 ++ l2) -> NoDup l2.
Proof. induction l1 as [|x l1 IH]; cbn [app]; [auto|]. intros H. inversion H; auto. Qed.

Lemma nodup_app_disj {A} (l1 l2 : list A) x : NoDup (l1 ++ l2) -> In x l1 -> In x l2 -> False.
Proof.
  induction l1 as [|y l1 IH]; cbn [app]; [intros _ []|].
  intros H [->|H1] H2; inversion H as [|? ? Hn ND]; subst; [|eauto].
  apply Hn. apply in_or_app. now right.
Qed.

Lemma nodup_app_mid {A} (l1 l2 l3 : list A) : NoDup ((l1 ++ l2) ++ l3) -> NoDup (l1 ++ l3).
Proof.
  induction l1 as [|x l1 IH]; cbn [app].
  - apply nodup_app_r.
  - intros H. inversion H as [|? ? Hn ND]; subst. constructor; [|auto].
    intros Hc. apply Hn. apply in_app_or in Hc. apply in_or_app. destruct Hc as [Hc|Hc]; [left|now right].
    apply in_or_app. now left.
Qed.

(** * Association lists *)

Lemma assoc_in {A} k (v : A) m : assoc k m = Some v -> In (k, v) m.
Proof.
  induction m as [|[k' v'] m IH]; cbn [assoc]; [discriminate|].
  destruct (k' =? k) eqn:E.
  - apply N.eqb_eq in E. intros [= ->]. subst. now left.
  - intros H. right. auto.
Qed.

Lemma in_assoc_nodup {A} k (v : A) m : NoDup (map fst m) -> In (k, v) m -> assoc k m = Some v.
Proof.
  induction m as [|[k' v'] m IH]; cbn [assoc map fst]; [intros _ []|].
  intros ND [H|H].
  - injection H as -> ->. now rewrite N.eqb_refl.
  - inversion ND as [|? ? Hn ND']; subst.
    destruct (k' =? k) eqn:E.
    + apply N.eqb_eq in E. subst. exfalso. apply Hn. apply in_map_iff. now exists (k, v).
    + auto.
Qed.

Lemma assoc_none_notin {A} k (m : list (N * A)) : assoc k m = None <-> ~ In k (map fst m).
Proof.
  induction m as [|[k' v'] m IH]; cbn [assoc map fst].
  - split; auto.
  - destruct (k' =? k) eqn:E.
    + apply N.eqb_eq in E. subst. split; [discriminate|]. intros H. exfalso. apply H. now left.
    + apply N.eqb_neq in E. rewrite IH. split.
      * intros H [H1|H1]; [now apply E|now apply H].
      * intros H H1. apply H. now right.
Qed.

Lemma assoc_remove_same {A} k (m : list (N * A)) : assoc k (remove k m) = None.
Proof.
  induction m as [|[k' v'] m IH]; cbn [remove assoc]; [reflexivity|].
  destruct (k' =? k) eqn:E; [exact IH|]. cbn [assoc]. now rewrite E.
Qed.

Lemma assoc_remove_other {A} k k' (m : list (N * A)) : k <> k' -> assoc k' (remove k m) = assoc k' m.
Proof.
  intros Hne. induction m as [|[k2 v2] m IH]; cbn [remove assoc]; [reflexivity|].
  destruct (k2 =? k) eqn:E.
  - apply N.eqb_eq in E. subst. rewrite IH.
    destruct (k =? k') eqn:E2; [apply N.eqb_eq in E2; contradiction|reflexivity].
  - cbn [assoc]. now rewrite IH.
Qed.

Lemma assoc_insert_same {A} k (v : A) m : assoc k (insert k v m) = Some v.
Proof. unfold insert. cbn [assoc]. now rewrite N.eqb_refl. Qed.

Lemma assoc_insert_other {A} k k' (v : A) m : k <> k' -> assoc k' (insert k v m) = assoc k' m.
Proof.
  intros Hne. unfold insert. cbn [assoc].
  destruct (k =? k') eqn:E; [apply N.eqb_eq in E; contradiction|]. now apply assoc_remove_other.
Qed.

Lemma remove_keys_incl {A} k (m : list (N * A)) x : In x (map fst (remove k m)) -> In x (map fst m) /\ x <> k.
Proof.
  induction m as [|[k' v'] m IH]; cbn [remove map fst]; [intros []|].
  destruct (k' =? k) eqn:E.
  - intros H. destruct (IH H). split; [now right|assumption].
  - apply N.eqb_neq in E. cbn [map fst]. intros [H|H].
    + subst. split; [now left|assumption].
    + destruct (IH H). split; [now right|assumption].
Qed.

Lemma remove_keys_other {A} k (m : list (N * A)) x : In x (map fst m) -> x <> k -> In x (map fst (remove k m)).
Proof.
  induction m as [|[k' v'] m IH]; cbn [remove map fst]; [intros []|].
  intros [H|H] Hne.
  - subst. destruct (x =? k) eqn:E; [apply N.eqb_eq in E; contradiction|]. now left.
  - destruct (k' =? k); [auto|]. right. auto.
Qed.

(** * Batches *)

Lemma concat_chunks {A} sizes (l : list A) : reassemble (chunks sizes l) = l.
Proof.
  unfold reassemble. revert l. induction sizes as [|s ss IH]; intros l; cbn [chunks concat].
  - now rewrite app_nil_r.
  - rewrite IH. apply firstn_skipn.
Qed.

(** * One forwarding hop *)

Lemma forward_hop_ports ins ps outs tab :
  forward_hop ins ps = Some (outs, tab) -> exists ps2, ps = map r_port outs ++ ps2.
Proof.
  revert ps outs tab. induction ins as [|r ins IH]; intros ps outs tab; cbn [forward_hop].
  - intros [= <- <-]. now exists ps.
  - destruct ps as [|p ps']; [discriminate|].
    destruct (forward_hop ins ps') as [[o t]|] eqn:E; [|discriminate].
    intros [= <- <-]. destruct (IH _ _ _ E) as [ps2 ->]. now exists ps2.
Qed.

Lemma forward_hop_tab_keys ins ps outs tab :
  forward_hop ins ps = Some (outs, tab) -> map fst tab = map r_port outs.
Proof.
  revert ps outs tab. induction ins as [|r ins IH]; intros ps outs tab; cbn [forward_hop].
  - now intros [= <- <-].
  - destruct ps as [|p ps']; [discriminate|].
    destruct (forward_hop ins ps') as [[o t]|] eqn:E; [|discriminate].
    intros [= <- <-]. cbn [map fst r_port]. f_equal. eauto.
Qed.

Lemma Forall2_impl_in {A B} (P Q : A -> B -> Prop) l1 l2 :
  (forall a b, In a l1 -> P a b -> Q a b) -> Forall2 P l1 l2 -> Forall2 Q l1 l2.
Proof.
  intros H F. induction F as [|a b l1 l2 HP F IH]; constructor.
  - apply H; [now left|exact HP].
  - apply IH. intros a' b' Hin. apply H. now right.
Qed.

Lemma Forall2_in_l {A B} (P : A -> B -> Prop) l1 l2 a :
  Forall2 P l1 l2 -> In a l1 -> exists b, In b l2 /\ P a b.
Proof.
  intros F. induction F as [|a' b l1 l2 HP F IH]; [intros []|].
  intros [<-|H]; [exists b; split; [now left|exact HP]|].
  destruct (IH H) as [b' [H1 H2]]. exists b'. split; [now right|exact H2].
Qed.

Lemma Forall2_in_r {A B} (P : A -> B -> Prop) l1 l2 b :
  Forall2 P l1 l2 -> In b l2 -> exists a, In a l1 /\ P a b.
Proof.
  intros F. induction F as [|a b' l1 l2 HP F IH]; [intros []|].
  intros [<-|H]; [exists a; split; [now left|exact HP]|].
  destruct (IH H) as [a' [H1 H2]]. exists a'. split; [now right|exact H2].
Qed.

Lemma Forall2_map_eq {A B C} (f : A -> C) (g : B -> C) l1 l2 :
  Forall2 (fun a b => f a = g b) l1 l2 -> map f l1 = map g l2.
Proof. intros F. induction F; cbn [map]; congruence. Qed.

(** Every outgoing request carries the id of the incoming request it stands for, and the table maps
    its port back to exactly that request. *)
Lemma forward_hop_spec ins ps outs tab :
  forward_hop ins ps = Some (outs, tab) -> NoDup ps ->
  Forall2 (fun o r => r_id o = r_id r /\ assoc (r_port o) tab = Some r) outs ins /\
  NoDup (map r_port outs).
Proof.
  revert ps outs tab. induction ins as [|r ins IH]; intros ps outs tab; cbn [forward_hop].
  - intros [= <- <-] _. split; constructor.
  - destruct ps as [|p ps']; [discriminate|].
    destruct (forward_hop ins ps') as [[o t]|] eqn:E; [|discriminate].
    intros [= <- <-] ND. inversion ND as [|? ? Hn ND']; subst.
    destruct (IH _ _ _ E ND') as [F NDo].
    destruct (forward_hop_ports _ _ _ _ E) as [ps2 Hps].
    assert (Hnp : ~ In p (map r_port o)).
    { intros Hin. apply Hn. rewrite Hps. apply in_or_app. now left. }
    split.
    + constructor.
      * cbn [r_id r_port assoc]. now rewrite N.eqb_refl.
      * eapply Forall2_impl_in; [|exact F]. cbn beta. intros a b Hin [H1 H2]. split; [exact H1|].
        cbn [assoc]. destruct (p =? r_port a) eqn:E2; [|exact H2].
        apply N.eqb_eq in E2. exfalso. apply Hnp. rewrite E2. now apply in_map.
    + cbn [map r_port]. constructor; assumption.
Qed.

Lemma Forall2_refl_all {A} (P : A -> A -> Prop) l : (forall a, P a a) -> Forall2 P l l.
Proof. intros H. induction l; constructor; auto. Qed.

Lemma Forall2_comp {A B C} (P : A -> B -> Prop) (Q : B -> C -> Prop) (R : A -> C -> Prop) l1 l2 l3 :
  (forall a b c, P a b -> Q b c -> R a c) -> Forall2 P l1 l2 -> Forall2 Q l2 l3 -> Forall2 R l1 l3.
Proof.
  intros H F. revert l3. induction F as [|a b l1 l2 HP F IH]; intros l3 G; inversion G; subst; constructor; eauto.
Qed.

(** * A chain of forwarders: induction on the number of hops *)

Lemma trace_back_app l1 l2 p :
  trace_back (l1 ++ l2) p = match trace_back l1 p with Some p' => trace_back l2 p' | None => None end.
Proof.
  revert p. induction l1 as [|tab l1 IH]; intros p; cbn [app trace_back]; [reflexivity|].
  destruct (assoc p tab); auto.
Qed.

Definition hop_ok (h : list N * list nat) : Prop := NoDup (fst h).

(** Whatever the number of forwarders, their port choices and the batch boundaries: the requests reach
    the far end in the same order with the same ids, and following the forwarders' tables back from the
    port of a delivered request leads to the port of the origin's request at the same position. *)
Lemma route_spec hops : forall rs fin tabs,
  route rs hops = Some (fin, tabs) -> Forall hop_ok hops ->
  Forall2 (fun f r => r_id f = r_id r /\ trace_back (rev tabs) (r_port f) = Some (r_port r)) fin rs.
Proof.
  induction hops as [|[ps sizes] hops IH]; intros rs fin tabs; cbn [route].
  - intros [= <- <-] _. apply Forall2_refl_all. intros a. split; reflexivity.
  - rewrite concat_chunks.
    destruct (forward_hop rs ps) as [[outs tab]|] eqn:E1; [|discriminate].
    destruct (route outs hops) as [[fin' tabs']|] eqn:E2; [|discriminate].
    intros [= <- <-] HF. inversion HF as [|? ? Hok HF']; subst.
    destruct (forward_hop_spec _ _ _ _ E1 Hok) as [F1 _].
    specialize (IH _ _ _ E2 HF').
    eapply Forall2_comp; [|exact IH|exact F1].
    cbn beta. intros f o r [H1 H2] [H3 H4]. split; [congruence|].
    cbn [rev]. rewrite trace_back_app, H2. cbn [trace_back]. now rewrite H4.
Qed.

(** * Serialization *)

Fixpoint entries (pl : list (option (N * cbid))) : list (N * cbid) :=
  match pl with
  | [] => []
  | Some e :: pl' => e :: entries pl'
  | None :: pl' => entries pl'
  end.

Lemma serialize_ports ls : forall ps t pl,
  serialize ls ps = Some (t, pl) -> exists ps2, ps = map fst t ++ ps2.
Proof.
  induction ls as [|l ls IH]; intros ps t pl; cbn [serialize].
  - intros [= <- <-]. now exists ps.
  - destruct (l_mode l).
    + destruct ps as [|p ps']; [discriminate|].
      destruct (serialize ls ps') as [[t' pl']|] eqn:E; [|discriminate].
      intros [= <- <-]. destruct (IH _ _ _ E) as [ps2 ->]. now exists ps2.
    + destruct ps as [|p ps']; [discriminate|].
      destruct (serialize ls ps') as [[t' pl']|] eqn:E; [|discriminate].
      intros [= <- <-]. destruct (IH _ _ _ E) as [ps2 ->]. now exists ps2.
    + destruct (serialize ls ps) as [[t' pl']|] eqn:E; [|discriminate].
      intros [= <- <-]. eauto.
Qed.

(** every table entry belongs to a leaf that travels with a request *)
Lemma serialize_table ls : forall ps t pl,
  serialize ls ps = Some (t, pl) ->
  forall p cb, In (p, cb) t -> exists l, In l ls /\ l_cb l = cb /\ (l_mode l = MReal \/ l_mode l = MIgnored).
Proof.
  induction ls as [|l ls IH]; intros ps t pl; cbn [serialize].
  - intros [= <- <-] p cb [].
  - destruct (l_mode l) eqn:M.
    + destruct ps as [|p0 ps']; [discriminate|].
      destruct (serialize ls ps') as [[t' pl']|] eqn:E; [|discriminate].
      intros [= <- <-] p cb [H|H].
      * injection H as <- <-. exists l. split; [now left|]. auto.
      * destruct (IH _ _ _ E _ _ H) as [l' [H1 H2]]. exists l'. split; [now right|exact H2].
    + destruct ps as [|p0 ps']; [discriminate|].
      destruct (serialize ls ps') as [[t' pl']|] eqn:E; [|discriminate].
      intros [= <- <-] p cb [H|H].
      * injection H as <- <-. exists l. split; [now left|]. auto.
      * destruct (IH _ _ _ E _ _ H) as [l' [H1 H2]]. exists l'. split; [now right|exact H2].
    + destruct (serialize ls ps) as [[t' pl']|] eqn:E; [|discriminate].
      intros [= <- <-] p cb H.
      destruct (IH _ _ _ E _ _ H) as [l' [H1 H2]]. exists l'. split; [now right|exact H2].
Qed.

Lemma serialize_labels_nodup ls : forall ps t pl,
  serialize ls ps = Some (t, pl) -> NoDup (map l_cb ls) -> NoDup (map snd t).
Proof.
  induction ls as [|l ls IH]; intros ps t pl; cbn [serialize].
  - intros [= <- <-] _. constructor.
  - cbn [map]. intros H ND. inversion ND as [|? ? Hn ND']; subst.
    assert (Hin : forall ps' t' pl', serialize ls ps' = Some (t', pl') -> ~ In (l_cb l) (map snd t')).
    { intros ps' t' pl' E Hc. apply in_map_iff in Hc. destruct Hc as [[p cb] [Hcb Hc]]. cbn [snd] in Hcb. subst.
      destruct (serialize_table _ _ _ _ E _ _ Hc) as [l' [H1 [H2 _]]].
      apply Hn. rewrite <- H2. now apply in_map. }
    destruct (l_mode l).
    + destruct ps as [|p0 ps']; [discriminate|].
      destruct (serialize ls ps') as [[t' pl']|] eqn:E; [|discriminate].
      injection H as <- <-. cbn [map snd]. constructor; eauto.
    + destruct ps as [|p0 ps']; [discriminate|].
      destruct (serialize ls ps') as [[t' pl']|] eqn:E; [|discriminate].
      injection H as <- <-. cbn [map snd]. constructor; eauto.
    + destruct (serialize ls ps) as [[t' pl']|] eqn:E; [|discriminate].
      injection H as <- <-. eauto.
Qed.

(** what the far end is told to expect: the entry of a real leaf (also in the table), or a fake id *)
Lemma serialize_entries ls : forall ps t pl,
  serialize ls ps = Some (t, pl) ->
  forall id cb, In (id, cb) (entries pl) ->
  (In (id, cb) t /\ exists l, In l ls /\ l_cb l = cb /\ l_mode l = MReal) \/ In id (fake_ids ls).
Proof.
  induction ls as [|l ls IH]; intros ps t pl; cbn [serialize fake_ids].
  - intros [= <- <-] id cb [].
  - destruct (l_mode l) eqn:M.
    + destruct ps as [|p0 ps']; [discriminate|].
      destruct (serialize ls ps') as [[t' pl']|] eqn:E; [|discriminate].
      intros [= <- <-] id cb. cbn [entries]. intros [H|H].
      * injection H as <- <-. left. split; [now left|]. exists l. split; [now left|auto].
      * destruct (IH _ _ _ E _ _ H) as [[H1 [l' [H2 H3]]]|H1]; [left|now right].
        split; [now right|]. exists l'. split; [now right|exact H3].
    + destruct ps as [|p0 ps']; [discriminate|].
      destruct (serialize ls ps') as [[t' pl']|] eqn:E; [|discriminate].
      intros [= <- <-] id cb. cbn [entries]. intros H.
      destruct (IH _ _ _ E _ _ H) as [[H1 [l' [H2 H3]]]|H1]; [left|now right].
      split; [now right|]. exists l'. split; [now right|exact H3].
    + destruct (serialize ls ps) as [[t' pl']|] eqn:E; [|discriminate].
      intros [= <- <-] id0 cb. cbn [entries]. intros [H|H].
      * injection H as <- <-. right. now left.
      * destruct (IH _ _ _ E _ _ H) as [[H1 [l' [H2 H3]]]|H1]; [left|right; now right].
        split; [exact H1|]. exists l'. split; [now right|exact H3].
Qed.

Lemma serialize_real ls : forall ps t pl,
  serialize ls ps = Some (t, pl) ->
  forall l, In l ls -> l_mode l = MReal -> exists p, In (p, l_cb l) t /\ In (p, l_cb l) (entries pl).
Proof.
  induction ls as [|l0 ls IH]; intros ps t pl; cbn [serialize].
  - intros _ l [].
  - intros H l [<-|Hin] M.
    + rewrite M in H. destruct ps as [|p0 ps']; [discriminate|].
      destruct (serialize ls ps') as [[t' pl']|] eqn:E; [|discriminate].
      injection H as <- <-. exists p0. split; now left.
    + destruct (l_mode l0).
      * destruct ps as [|p0 ps']; [discriminate|].
        destruct (serialize ls ps') as [[t' pl']|] eqn:E; [|discriminate].
        injection H as <- <-. destruct (IH _ _ _ E _ Hin M) as [p [H1 H2]]. exists p. split; now right.
      * destruct ps as [|p0 ps']; [discriminate|].
        destruct (serialize ls ps') as [[t' pl']|] eqn:E; [|discriminate].
        injection H as <- <-. destruct (IH _ _ _ E _ Hin M) as [p [H1 H2]]. exists p. split; [now right|exact H2].
      * destruct (serialize ls ps) as [[t' pl']|] eqn:E; [|discriminate].
        injection H as <- <-. destruct (IH _ _ _ E _ Hin M) as [p [H1 H2]]. exists p. split; [exact H1|now right].
Qed.

Lemma serialize_ignored ls : forall ps t pl,
  serialize ls ps = Some (t, pl) ->
  forall l, In l ls -> l_mode l = MIgnored -> exists p, In (p, l_cb l) t.
Proof.
  induction ls as [|l0 ls IH]; intros ps t pl; cbn [serialize].
  - intros _ l [].
  - intros H l [<-|Hin] M.
    + rewrite M in H. destruct ps as [|p0 ps']; [discriminate|].
      destruct (serialize ls ps') as [[t' pl']|] eqn:E; [|discriminate].
      injection H as <- <-. exists p0. now left.
    + destruct (l_mode l0).
      * destruct ps as [|p0 ps']; [discriminate|].
        destruct (serialize ls ps') as [[t' pl']|] eqn:E; [|discriminate].
        injection H as <- <-. destruct (IH _ _ _ E _ Hin M) as [p H1]. exists p. now right.
      * destruct ps as [|p0 ps']; [discriminate|].
        destruct (serialize ls ps') as [[t' pl']|] eqn:E; [|discriminate].
        injection H as <- <-. destruct (IH _ _ _ E _ Hin M) as [p H1]. exists p. now right.
      * destruct (serialize ls ps) as [[t' pl']|] eqn:E; [|discriminate].
        injection H as <- <-. eauto.
Qed.

Lemma serialize_fakes ls : forall ps t pl,
  serialize ls ps = Some (t, pl) -> forall b, In b (fake_ids ls) -> In b (map fst (entries pl)).
Proof.
  induction ls as [|l0 ls IH]; intros ps t pl; cbn [serialize fake_ids].
  - intros _ b [].
  - destruct (l_mode l0).
    + destruct ps as [|p0 ps']; [discriminate|].
      destruct (serialize ls ps') as [[t' pl']|] eqn:E; [|discriminate].
      intros [= <- <-] b H. cbn [entries map fst]. right. eauto.
    + destruct ps as [|p0 ps']; [discriminate|].
      destruct (serialize ls ps') as [[t' pl']|] eqn:E; [|discriminate].
      intros [= <- <-] b H. cbn [entries]. eauto.
    + destruct (serialize ls ps) as [[t' pl']|] eqn:E; [|discriminate].
      intros [= <- <-] b [H|H]; cbn [entries map fst]; [now left|right; eauto].
Qed.

(** the ids the far end is told to expect are the ports of the real leaves and the fake ids, in order:
    without repetition if ports and fake ids have none *)
Lemma serialize_entry_ids ls : forall ps t pl,
  serialize ls ps = Some (t, pl) -> NoDup (map fst t ++ fake_ids ls) -> NoDup (map fst (entries pl)).
Proof.
  induction ls as [|l0 ls IH]; intros ps t pl; cbn [serialize fake_ids].
  - intros [= <- <-] _. constructor.
  - destruct (l_mode l0).
    + destruct ps as [|p0 ps']; [discriminate|].
      destruct (serialize ls ps') as [[t' pl']|] eqn:E; [|discriminate].
      intros [= <- <-]. cbn [map fst app entries]. intros ND. inversion ND as [|? ? Hn ND']; subst.
      constructor; [|eauto]. intros Hc. apply Hn.
      apply in_map_iff in Hc. destruct Hc as [[id cb] [Hid Hc]]. cbn [fst] in Hid. subst.
      apply in_or_app.
      destruct (serialize_entries _ _ _ _ E _ _ Hc) as [[H1 _]|H1]; [left|now right].
      apply in_map_iff. now exists (p0, cb).
    + destruct ps as [|p0 ps']; [discriminate|].
      destruct (serialize ls ps') as [[t' pl']|] eqn:E; [|discriminate].
      intros [= <- <-]. cbn [map fst app entries]. intros ND. inversion ND; subst. eauto.
    + destruct (serialize ls ps) as [[t' pl']|] eqn:E; [|discriminate].
      intros [= <- <-]. cbn [entries map fst]. intros ND.
      assert (ND' : NoDup (map fst t' ++ fake_ids ls)).
      { apply NoDup_remove_1 in ND. exact ND. }
      constructor; [|eauto]. intros Hc.
      apply NoDup_remove_2 in ND. apply ND.
      apply in_map_iff in Hc. destruct Hc as [[id0 cb] [Hid Hc]]. cbn [fst] in Hid. subst.
      apply in_or_app.
      destruct (serialize_entries _ _ _ _ E _ _ Hc) as [[H1 _]|H1]; [left|now right].
      apply in_map_iff. now exists (id, cb).
Qed.

(** * Deserialization: the [expected] map *)

Lemma deser_spec pl : forall m qs m',
  deser m pl qs = Some m' -> NoDup (map fst (entries pl)) ->
  (forall id cb, In (id, cb) (entries pl) -> exists q, assoc id m' = Some (q, cb)) /\
  (forall id, ~ In id (map fst (entries pl)) -> assoc id m' = assoc id m).
Proof.
  induction pl as [|[[id0 cb0]|] pl IH]; intros m qs m'; cbn [deser entries map fst].
  - intros [= <-] _. split; [intros ? ? []|auto].
  - destruct qs as [|q qs']; [discriminate|]. intros H ND. inversion ND as [|? ? Hn ND']; subst.
    destruct (IH _ _ _ H ND') as [I1 I2]. split.
    + intros id cb [E|Hin].
      * injection E as <- <-. exists q. rewrite (I2 _ Hn). apply assoc_insert_same.
      * auto.
    + intros id Hni. rewrite I2 by (intros Hc; apply Hni; now right).
      apply assoc_insert_other. intros ->. apply Hni. now left.
  - intros H ND. eauto.
Qed.

(** the far end's local ports are distinct *)
Lemma deser_ports pl : forall m qs m',
  deser m pl qs = Some m' -> exists qs1 qs2, qs = qs1 ++ qs2 /\ length qs1 = length (entries pl).
Proof.
  induction pl as [|[[id0 cb0]|] pl IH]; intros m qs m'; cbn [deser entries].
  - intros _. exists [], qs. split; reflexivity.
  - destruct qs as [|q qs']; [discriminate|]. intros H.
    destruct (IH _ _ _ H) as [qs1 [qs2 [-> Hl]]]. exists (q :: qs1), qs2. cbn [app length]. split; congruence.
  - eauto.
Qed.

(** * Matching by id *)

Lemma match_reqs_spec rs : forall m acc rej mf,
  match_reqs m rs = (acc, rej, mf) -> NoDup (map r_id rs) ->
  (forall a, In a acc <-> In (a_req a) rs /\ assoc (r_id (a_req a)) m = Some (a_port a, a_cb a)) /\
  (forall r, In r rej <-> In r rs /\ assoc (r_id r) m = None) /\
  (forall id, In id (map r_id rs) -> assoc id mf = None) /\
  (forall id, ~ In id (map r_id rs) -> assoc id mf = assoc id m).
Proof.
  induction rs as [|r rs IH]; intros m acc rej mf; cbn [match_reqs map].
  - intros [= <- <- <-] _. split; [|split; [|split]].
    + intros a. split; [intros []|intros [[] _]].
    + intros r. split; [intros []|intros [[] _]].
    + intros id [].
    + reflexivity.
  - intros H ND. inversion ND as [|? ? Hn ND']; subst.
    assert (Hother : forall r', In r' rs -> r_id r' <> r_id r).
    { intros r' Hin E. apply Hn. rewrite <- E. now apply in_map. }
    destruct (assoc (r_id r) m) as [[q cb]|] eqn:EA.
    + destruct (match_reqs (remove (r_id r) m) rs) as [[acc' rej'] mf'] eqn:EM.
      injection H as <- <- <-.
      destruct (IH _ _ _ _ EM ND') as [I1 [I2 [I3 I4]]].
      split; [|split; [|split]].
      * intros a. split.
        -- intros [E|Hin].
           ++ subst a. cbn [a_req a_port a_cb]. split; [now left|exact EA].
           ++ apply I1 in Hin. destruct Hin as [H1 H2]. split; [now right|].
              rewrite assoc_remove_other in H2; [exact H2|]. intros E. symmetry in E. now apply (Hother _ H1).
        -- intros [[E|Hin] HA].
           ++ left. destruct a as [ar ap ac]. cbn [a_req a_port a_cb] in *. subst ar. rewrite EA in HA.
              now injection HA as -> ->.
           ++ right. apply I1. split; [exact Hin|]. rewrite assoc_remove_other; [exact HA|].
              intros E. symmetry in E. now apply (Hother _ Hin).
      * intros r0. split.
        -- intros Hin. apply I2 in Hin. destruct Hin as [H1 H2]. split; [now right|].
           rewrite assoc_remove_other in H2; [exact H2|]. intros E. symmetry in E. now apply (Hother _ H1).
        -- intros [[E|Hin] HA].
           ++ subst r0. rewrite EA in HA. discriminate.
           ++ apply I2. split; [exact Hin|]. rewrite assoc_remove_other; [exact HA|].
              intros E. symmetry in E. now apply (Hother _ Hin).
      * intros id [E|Hin].
        -- subst id. destruct (in_dec N.eq_dec (r_id r) (map r_id rs)) as [Hi|Hi]; [auto|].
           rewrite I4 by exact Hi. apply assoc_remove_same.
        -- auto.
      * intros id Hni. rewrite I4 by (intros Hc; apply Hni; now right).
        apply assoc_remove_other. intros E. apply Hni. now left.
    + destruct (match_reqs m rs) as [[acc' rej'] mf'] eqn:EM.
      injection H as <- <- <-.
      destruct (IH _ _ _ _ EM ND') as [I1 [I2 [I3 I4]]].
      split; [|split; [|split]].
      * intros a. split.
        -- intros Hin. apply I1 in Hin. destruct Hin. split; [now right|assumption].
        -- intros [[E|Hin] HA].
           ++ rewrite <- E, EA in HA. discriminate.
           ++ apply I1. now split.
      * intros r0. split.
        -- intros [E|Hin].
           ++ subst r0. split; [now left|exact EA].
           ++ apply I2 in Hin. destruct Hin. split; [now right|assumption].
        -- intros [[E|Hin] HA]; [now left|]. right. apply I2. now split.
      * intros id [E|Hin].
        -- subst id. destruct (in_dec N.eq_dec (r_id r) (map r_id rs)) as [Hi|Hi]; [auto|].
           rewrite I4 by exact Hi. exact EA.
        -- auto.
      * intros id Hni. apply I4. intros Hc. apply Hni. now right.
Qed.

Lemma match_reqs_ids_nodup rs : forall m acc rej mf,
  match_reqs m rs = (acc, rej, mf) -> NoDup (map r_id rs) ->
  NoDup (map (fun a => r_id (a_req a)) acc).
Proof.
  induction rs as [|r rs IH]; intros m acc rej mf; cbn [match_reqs map].
  - intros [= <- <- <-] _. constructor.
  - intros H ND. inversion ND as [|? ? Hn ND']; subst.
    destruct (assoc (r_id r) m) as [[q cb]|] eqn:EA.
    + destruct (match_reqs (remove (r_id r) m) rs) as [[acc' rej'] mf'] eqn:EM.
      injection H as <- <- <-. cbn [map a_req]. constructor; [|eauto].
      intros Hc. apply in_map_iff in Hc. destruct Hc as [a [E Hin]].
      destruct (match_reqs_spec _ _ _ _ _ EM ND') as [I1 _]. apply I1 in Hin. destruct Hin as [Hin _].
      apply Hn. rewrite <- E. now apply in_map.
    + destruct (match_reqs m rs) as [[acc' rej'] mf'] eqn:EM.
      injection H as <- <- <-. eauto.
Qed.

(** * The wiring theorem *)

Lemma nodup_snd_key {A B} (t : list (A * B)) k1 k2 v :
  NoDup (map snd t) -> In (k1, v) t -> In (k2, v) t -> k1 = k2.
Proof.
  induction t as [|[k v'] t IH]; cbn [map snd]; [intros _ []|].
  intros ND H1 H2. inversion ND as [|? ? Hn ND']; subst.
  destruct H1 as [H1|H1], H2 as [H2|H2].
  - congruence.
  - injection H1 as -> ->. exfalso. apply Hn. apply in_map_iff. now exists (k2, v).
  - injection H2 as -> ->. exfalso. apply Hn. apply in_map_iff. now exists (k1, v).
  - eauto.
Qed.

Lemma origin_reqs_ids t : map r_id (origin_reqs t) = map fst t.
Proof. unfold origin_reqs. rewrite map_map. reflexivity. Qed.

Lemma origin_reqs_in t r : In r (origin_reqs t) -> r_id r = r_port r /\ In (r_port r) (map fst t).
Proof.
  unfold origin_reqs. intros H. apply in_map_iff in H. destruct H as [[p cb] [<- H]]. cbn [r_id r_port fst].
  split; [reflexivity|]. apply in_map_iff. now exists (p, cb).
Qed.

Section Wiring.
  Variables (ls : list leaf) (ps : list N) (hops : list (list N * list nat)) (last_sizes : list nat) (qs : list N).
  Variable w : wired.
  Hypothesis Hlabels : NoDup (map l_cb ls).
  Hypothesis Hports : NoDup (ps ++ fake_ids ls).
  Hypothesis Hhops : Forall hop_ok hops.
  Hypothesis Hwire : wire ls ps hops last_sizes qs = WOk w.

  Let t := w_table w.
  Let pr := pairing (w_table w) (w_tabs w) (w_acc w).

  (* unpack [wire] *)
  Lemma wire_inv : exists pl fin m,
    serialize ls ps = Some (t, pl) /\ route (origin_reqs t) hops = Some (fin, w_tabs w) /\
    w_fin w = fin /\ deser [] pl qs = Some m /\ match_reqs m fin = (w_acc w, w_rej w, w_missing w).
  Proof.
    unfold wire in Hwire.
    destruct (serialize ls ps) as [[t0 pl]|] eqn:E1; [|discriminate].
    destruct (route (origin_reqs t0) hops) as [[fin tabs]|] eqn:E2; [|discriminate].
    rewrite concat_chunks in Hwire.
    destruct (deser [] pl qs) as [m|] eqn:E3; [|discriminate].
    destruct (match_reqs m fin) as [[acc rej] mf] eqn:E4.
    injection Hwire as <-. cbn [w_table w_tabs w_fin w_acc w_rej w_missing] in *.
    exists pl, fin, m. subst t. cbn [w_table]. auto.
  Qed.

  Lemma table_ports_nodup pl : serialize ls ps = Some (t, pl) -> NoDup (map fst t ++ fake_ids ls).
  Proof.
    intros E. destruct (serialize_ports _ _ _ _ E) as [ps2 Hps]. rewrite Hps in Hports.
    now apply nodup_app_mid in Hports.
  Qed.

  (** Every pair connects a delivered half with the origin callback of the SAME label ... *)
  Theorem pairing_label_preserving : forall a b, In (a, b) pr -> a = b.
  Proof.
    destruct wire_inv as [pl [fin [m [E1 [E2 [E3 [E4 E5]]]]]]].
    pose proof (table_ports_nodup _ E1) as NDall.
    assert (NDt : NoDup (map fst t)) by (now apply nodup_app_l in NDall).
    pose proof (route_spec _ _ _ _ E2 Hhops) as F.
    assert (NDfin : NoDup (map r_id fin)).
    { rewrite (Forall2_map_eq r_id r_id fin (origin_reqs t)).
      - now rewrite origin_reqs_ids.
      - eapply Forall2_impl_in; [|exact F]. cbn beta. now intros ? ? _ [? _]. }
    destruct (match_reqs_spec _ _ _ _ _ E5 NDfin) as [I1 _].
    pose proof (serialize_entry_ids _ _ _ _ E1 NDall) as NDe.
    destruct (deser_spec _ _ _ _ E4 NDe) as [D1 D2].
    intros a b Hin. unfold pr, pairing in Hin. apply in_flat_map in Hin. destruct Hin as [x [Hx Hp]].
    unfold pair_of in Hp.
    destruct (trace_back (rev (w_tabs w)) (r_port (a_req x))) as [p0|] eqn:ET; [|destruct Hp].
    destruct (assoc p0 (w_table w)) as [cb|] eqn:EA; [|destruct Hp].
    destruct Hp as [Hp|[]]. injection Hp as <- <-.
    apply I1 in Hx. destruct Hx as [Hfin Hm].
    destruct (Forall2_in_l _ _ _ _ F Hfin) as [r0 [Hr0 [Hid Htr]]].
    rewrite ET in Htr. injection Htr as ->.
    destruct (origin_reqs_in _ _ Hr0) as [Hidp _].
    (* the id of the accepted request is the origin port *)
    assert (Hkey : r_id (a_req x) = r_port r0) by congruence.
    rewrite Hkey in Hm.
    apply assoc_in in EA.
    (* where does the expected entry for this id come from? *)
    destruct (in_dec N.eq_dec (r_port r0) (map fst (entries pl))) as [Hi|Hi].
    - apply in_map_iff in Hi. destruct Hi as [[id cb'] [Hid' Hi]]. cbn [fst] in Hid'. subst id.
      destruct (D1 _ _ Hi) as [q Hq]. rewrite Hq in Hm. injection Hm as _ <-.
      destruct (serialize_entries _ _ _ _ E1 _ _ Hi) as [[H1 _]|H1].
      + pose proof (in_assoc_nodup _ _ _ NDt H1) as A1. pose proof (in_assoc_nodup _ _ _ NDt EA) as A2. congruence.
      + exfalso. apply (nodup_app_disj _ _ (r_port r0) NDall); [|exact H1].
        apply in_map_iff. now exists (r_port r0, cb).
    - rewrite (D2 _ Hi) in Hm. discriminate.
  Qed.

  (** ... the pairing is a partial injective function in both directions ... *)
  Theorem pairing_injective : NoDup (map fst pr) /\ NoDup (map snd pr).
  Proof.
    assert (Hsame : map snd pr = map fst pr).
    { pose proof pairing_label_preserving as H. revert H. generalize pr. intros l H.
      induction l as [|[a b] l IH]; [reflexivity|]. cbn [map fst snd]. f_equal.
      - symmetry. apply H. now left.
      - apply IH. intros ? ? Hin. apply H. now right. }
    rewrite Hsame. assert (ND : NoDup (map fst pr)); [|split; exact ND].
    destruct wire_inv as [pl [fin [m [E1 [E2 [E3 [E4 E5]]]]]]].
    pose proof (table_ports_nodup _ E1) as NDall.
    assert (NDt : NoDup (map fst t)) by (now apply nodup_app_l in NDall).
    pose proof (serialize_labels_nodup _ _ _ _ E1 Hlabels) as NDl.
    pose proof (route_spec _ _ _ _ E2 Hhops) as F.
    assert (NDfin : NoDup (map r_id fin)).
    { rewrite (Forall2_map_eq r_id r_id fin (origin_reqs t)).
      - now rewrite origin_reqs_ids.
      - eapply Forall2_impl_in; [|exact F]. cbn beta. now intros ? ? _ [? _]. }
    pose proof (match_reqs_ids_nodup _ _ _ _ _ E5 NDfin) as NDa.
    destruct (match_reqs_spec _ _ _ _ _ E5 NDfin) as [I1 _].
    (* each accepted entry contributes at most the label found in the table under its id *)
    assert (Hpo : forall x, In x (w_acc w) ->
              pair_of (w_table w) (w_tabs w) x =
              match assoc (r_id (a_req x)) (w_table w) with Some cb => [(cb, a_cb x)] | None => [] end).
    { intros x Hx. apply I1 in Hx. destruct Hx as [Hfin _].
      destruct (Forall2_in_l _ _ _ _ F Hfin) as [r0 [Hr0 [Hid Htr]]].
      destruct (origin_reqs_in _ _ Hr0) as [Hidp _].
      unfold pair_of. rewrite Htr. now replace (r_port r0) with (r_id (a_req x)) by congruence. }
    unfold pr, pairing. revert NDa Hpo. generalize (w_acc w). intros acc NDa Hpo.
    induction acc as [|x acc IH]; [constructor|].
    cbn [flat_map map] in *. rewrite map_app. inversion NDa as [|? ? Hn NDa']; subst.
    assert (IH' : NoDup (map fst (flat_map (pair_of (w_table w) (w_tabs w)) acc))).
    { apply IH; [exact NDa'|]. intros y Hy. apply Hpo. now right. }
    rewrite (Hpo x (or_introl eq_refl)).
    destruct (assoc (r_id (a_req x)) (w_table w)) as [cb|] eqn:EA; [|exact IH'].
    cbn [map fst app]. constructor; [|exact IH'].
    intros Hc. apply in_map_iff in Hc. destruct Hc as [[a b] [Ea Hc]]. cbn [fst] in Ea. subst a.
    apply in_flat_map in Hc. destruct Hc as [y [Hy Hc]].
    rewrite (Hpo y (or_intror Hy)) in Hc.
    destruct (assoc (r_id (a_req y)) (w_table w)) as [cb'|] eqn:EA'; [|destruct Hc].
    destruct Hc as [Hc|[]]. injection Hc as -> _.
    apply assoc_in in EA. apply assoc_in in EA'.
    pose proof (nodup_snd_key _ _ _ _ NDl EA EA') as Hk.
    apply Hn. rewrite Hk. apply in_map_iff. now exists y.
  Qed.

  (** ... every half that travelled normally is connected (to its own counterpart) ... *)
  Theorem pairing_complete : forall l, In l ls -> l_mode l = MReal -> In (l_cb l, l_cb l) pr.
  Proof.
    destruct wire_inv as [pl [fin [m [E1 [E2 [E3 [E4 E5]]]]]]].
    pose proof (table_ports_nodup _ E1) as NDall.
    assert (NDt : NoDup (map fst t)) by (now apply nodup_app_l in NDall).
    pose proof (route_spec _ _ _ _ E2 Hhops) as F.
    assert (NDfin : NoDup (map r_id fin)).
    { rewrite (Forall2_map_eq r_id r_id fin (origin_reqs t)).
      - now rewrite origin_reqs_ids.
      - eapply Forall2_impl_in; [|exact F]. cbn beta. now intros ? ? _ [? _]. }
    destruct (match_reqs_spec _ _ _ _ _ E5 NDfin) as [I1 _].
    pose proof (serialize_entry_ids _ _ _ _ E1 NDall) as NDe.
    destruct (deser_spec _ _ _ _ E4 NDe) as [D1 D2].
    intros l Hl M.
    destruct (serialize_real _ _ _ _ E1 _ Hl M) as [p [Ht He]].
    destruct (D1 _ _ He) as [q Hq].
    assert (Hr0 : In (mkReq p p) (origin_reqs t)).
    { unfold origin_reqs. apply in_map_iff. now exists (p, l_cb l). }
    destruct (Forall2_in_r _ _ _ _ F Hr0) as [f [Hf [Hid Htr]]]. cbn [r_id r_port] in *.
    unfold pr, pairing. apply in_flat_map. exists (mkAcc f q (l_cb l)). split.
    - apply I1. cbn [a_req a_port a_cb]. split; [exact Hf|]. now rewrite Hid.
    - unfold pair_of. cbn [a_req a_cb]. rewrite Htr. fold t. rewrite (in_assoc_nodup _ _ _ NDt Ht). now left.
  Qed.

  (** ... the request of a half the far end ignores is superfluous: it is dropped, i.e. rejected ... *)
  Theorem ignored_rejected : forall l, In l ls -> l_mode l = MIgnored ->
    exists p f, In (p, l_cb l) t /\ In f (w_rej w) /\ r_id f = p /\ trace_back (rev (w_tabs w)) (r_port f) = Some p.
  Proof.
    destruct wire_inv as [pl [fin [m [E1 [E2 [E3 [E4 E5]]]]]]].
    pose proof (table_ports_nodup _ E1) as NDall.
    assert (NDt : NoDup (map fst t)) by (now apply nodup_app_l in NDall).
    pose proof (route_spec _ _ _ _ E2 Hhops) as F.
    assert (NDfin : NoDup (map r_id fin)).
    { rewrite (Forall2_map_eq r_id r_id fin (origin_reqs t)).
      - now rewrite origin_reqs_ids.
      - eapply Forall2_impl_in; [|exact F]. cbn beta. now intros ? ? _ [? _]. }
    destruct (match_reqs_spec _ _ _ _ _ E5 NDfin) as [_ [I2 _]].
    pose proof (serialize_entry_ids _ _ _ _ E1 NDall) as NDe.
    destruct (deser_spec _ _ _ _ E4 NDe) as [D1 D2].
    intros l Hl M.
    destruct (serialize_ignored _ _ _ _ E1 _ Hl M) as [p Ht].
    assert (Hr0 : In (mkReq p p) (origin_reqs t)).
    { unfold origin_reqs. apply in_map_iff. now exists (p, l_cb l). }
    destruct (Forall2_in_r _ _ _ _ F Hr0) as [f [Hf [Hid Htr]]]. cbn [r_id r_port] in *.
    exists p, f. repeat split; auto.
    apply I2. split; [exact Hf|]. rewrite Hid.
    (* no expected entry under this port: such an entry would belong to a real leaf with the same label *)
    destruct (in_dec N.eq_dec p (map fst (entries pl))) as [Hi|Hi]; [|now rewrite (D2 _ Hi)].
    exfalso. apply in_map_iff in Hi. destruct Hi as [[id cb'] [Hid' Hi]]. cbn [fst] in Hid'. subst id.
    destruct (serialize_entries _ _ _ _ E1 _ _ Hi) as [[H1 [l' [Hl' [Hcb M']]]]|H1].
    - pose proof (in_assoc_nodup _ _ _ NDt H1) as A1. pose proof (in_assoc_nodup _ _ _ NDt Ht) as A2.
      assert (Hsame : l_cb l' = l_cb l) by congruence.
      (* distinct labels: l' = l *)
      clear - Hlabels Hl Hl' Hsame M M'.
      induction ls as [|x xs IH]; [destruct Hl|]. cbn [map] in Hlabels. inversion Hlabels as [|? ? Hn ND]; subst.
      destruct Hl as [->|Hl], Hl' as [->|Hl'].
      + congruence.
      + apply Hn. rewrite <- Hsame. now apply in_map.
      + apply Hn. rewrite Hsame. now apply in_map.
      + auto.
    - apply (nodup_app_disj _ _ p NDall); [|exact H1]. apply in_map_iff. now exists (p, l_cb l).
  Qed.

  (** ... and the ports reported missing are exactly the ids named without a request. *)
  Theorem missing_are_fakes : forall b, In b (fake_ids ls) <-> assoc b (w_missing w) <> None.
  Proof.
    destruct wire_inv as [pl [fin [m [E1 [E2 [E3 [E4 E5]]]]]]].
    pose proof (table_ports_nodup _ E1) as NDall.
    assert (NDt : NoDup (map fst t)) by (now apply nodup_app_l in NDall).
    pose proof (route_spec _ _ _ _ E2 Hhops) as F.
    assert (Hids : map r_id fin = map fst t).
    { rewrite (Forall2_map_eq r_id r_id fin (origin_reqs t)).
      - now rewrite origin_reqs_ids.
      - eapply Forall2_impl_in; [|exact F]. cbn beta. now intros ? ? _ [? _]. }
    assert (NDfin : NoDup (map r_id fin)) by now rewrite Hids.
    destruct (match_reqs_spec _ _ _ _ _ E5 NDfin) as [_ [_ [I3 I4]]].
    pose proof (serialize_entry_ids _ _ _ _ E1 NDall) as NDe.
    destruct (deser_spec _ _ _ _ E4 NDe) as [D1 D2].
    assert (Hdisj : forall b, In b (fake_ids ls) -> ~ In b (map fst t)).
    { intros b Hb Hin. exact (nodup_app_disj _ _ b NDall Hin Hb). }
    intros b. split.
    - intros Hb. rewrite I4 by (rewrite Hids; now apply Hdisj).
      pose proof (serialize_fakes _ _ _ _ E1 _ Hb) as Hi.
      apply in_map_iff in Hi. destruct Hi as [[id cb] [Hid Hi]]. cbn [fst] in Hid. subst id.
      destruct (D1 _ _ Hi) as [q ->]. discriminate.
    - intros Hne.
      destruct (in_dec N.eq_dec b (map r_id fin)) as [Hi|Hi]; [now rewrite (I3 _ Hi) in Hne|].
      rewrite (I4 _ Hi) in Hne.
      destruct (in_dec N.eq_dec b (map fst (entries pl))) as [He|He]; [|now rewrite (D2 _ He) in Hne].
      apply in_map_iff in He. destruct He as [[id cb] [Hid He]]. cbn [fst] in Hid. subst id.
      destruct (serialize_entries _ _ _ _ E1 _ _ He) as [[H1 _]|H1]; [|exact H1].
      exfalso. apply Hi. rewrite Hids. apply in_map_iff. now exists (b, cb).
  Qed.
End Wiring.

(** * Resolution of requests under all schedules *)

Lemma nth_error_update_same {A} (l : list A) i x y : nth_error l i = Some y -> nth_error (update l i x) i = Some x.
Proof.
  revert i. induction l as [|z l IH]; intros [|i]; cbn [nth_error update]; try discriminate; auto.
Qed.

Lemma nth_error_update_other {A} (l : list A) i j x : i <> j -> nth_error (update l i x) j = nth_error l j.
Proof.
  revert i j. induction l as [|z l IH]; intros [|i] [|j] H; cbn [nth_error update]; try reflexivity; try congruence.
  apply IH. congruence.
Qed.

Lemma update_length {A} (l : list A) i x : length (update l i x) = length l.
Proof. revert i. induction l as [|z l IH]; intros [|i]; cbn [update length]; auto. Qed.

Definition far_ok (h : nat) (dead : list nat) (d : bool) (f : fstat) : Prop :=
  match f with
  | FNone => d = true -> dead <> []
  | FConn => d = true /\ dead <> []
  | FErr => d = true /\ In h dead
  end.

(** Per-request invariant: [d] is the far end's decision for this request. *)
Definition rinv (h : nat) (dead : list nat) (d : bool) (r : rstate) : Prop :=
  match r_phase r with
  | Going k => (1 <= k <= h)%nat /\ r_far r = FNone
  | Held => r_far r = FNone
  | AccBack k => (1 <= k <= h)%nat /\ r_far r = FConn /\ d = true
  | RejBack k => (1 <= k <= h)%nat /\ far_ok h dead d (r_far r)
  | DoneOk => r_far r = FConn /\ d = true
  | DoneErr => far_ok h dead d (r_far r)
  end.

Definition inv (s : sys) : Prop :=
  (1 <= s_h s)%nat /\
  forall i r, nth_error (s_reqs s) i = Some r -> rinv (s_h s) (s_dead s) (nth i (s_decide s) false) r.

Lemma is_dead_in s k : is_dead s k = true -> In k (s_dead s).
Proof.
  unfold is_dead. intros H. apply existsb_exists in H. destruct H as [x [H1 H2]].
  apply Nat.eqb_eq in H2. now subst.
Qed.

Lemma far_ok_mono h dead k d f : far_ok h dead d f -> far_ok h (k :: dead) d f.
Proof.
  destruct f; cbn.
  - intros _ _. discriminate.
  - intros [? ?]. split; [auto|discriminate].
  - intros [? ?]. split; [auto|now right].
Qed.

Lemma rinv_mono h dead k d r : rinv h dead d r -> rinv h (k :: dead) d r.
Proof.
  unfold rinv. destruct (r_phase r); auto.
  - intros [? ?]. split; [auto|now apply far_ok_mono].
  - apply far_ok_mono.
Qed.

Lemma fail_up_inv h dead d k f :
  (1 <= k <= h)%nat -> far_ok h dead d f -> rinv h dead d (mkR (fail_up k) f).
Proof.
  intros Hk Hf. destruct k as [|[|k']]; cbn [fail_up]; unfold rinv; cbn [r_phase r_far]; auto.
  split; [lia|exact Hf].
Qed.

Lemma step_req_inv s i lost r r' :
  (1 <= s_h s)%nat -> rinv (s_h s) (s_dead s) (nth i (s_decide s) false) r ->
  step_req s i lost r = Some r' -> rinv (s_h s) (s_dead s) (nth i (s_decide s) false) r'.
Proof.
  intros Hh Hr. unfold step_req.
  destruct (phase_conn (s_h s) (r_phase r)) as [k|] eqn:EP; [|discriminate].
  destruct lost.
  - destruct (is_dead s k) eqn:ED; [|discriminate]. intros [= <-].
    pose proof (is_dead_in _ _ ED) as Hin.
    assert (Hne : s_dead s <> []) by (intros E; rewrite E in Hin; destruct Hin).
    unfold rinv in Hr. destruct (r_phase r) eqn:EPh; cbn [phase_conn] in EP; try discriminate; injection EP as <-.
    + destruct Hr as [Hk Hf]. apply fail_up_inv; [exact Hk|]. rewrite Hf. cbn. auto.
    + apply fail_up_inv; [lia|].
      destruct (nth i (s_decide s) false) eqn:EDc; [cbn; auto|]. rewrite Hr. cbn. discriminate.
    + destruct Hr as [Hk [Hf Hd]]. apply fail_up_inv; [exact Hk|]. rewrite Hf. cbn. auto.
    + destruct Hr as [Hk Hf]. apply fail_up_inv; assumption.
  - destruct (is_dead s k) eqn:ED; [discriminate|].
    unfold rinv in Hr. destruct (r_phase r) eqn:EPh; cbn [phase_conn] in EP; try discriminate; injection EP as <-.
    + destruct Hr as [Hk Hf]. destruct (Nat.ltb k0 (s_h s)) eqn:EL; intros [= <-]; unfold rinv; cbn [r_phase r_far].
      * apply Nat.ltb_lt in EL. split; [lia|exact Hf].
      * exact Hf.
    + destruct (nth i (s_decide s) false) eqn:EDc; intros [= <-]; unfold rinv; cbn [r_phase r_far].
      * split; [lia|auto].
      * split; [lia|]. rewrite Hr. cbn. discriminate.
    + destruct Hr as [Hk [Hf Hd]]. destruct k0 as [|[|k']]; intros [= <-]; unfold rinv; cbn [r_phase r_far]; auto.
      split; [lia|auto].
    + destruct Hr as [Hk Hf]. destruct k0 as [|[|k']]; intros [= <-]; unfold rinv; cbn [r_phase r_far]; auto.
      split; [lia|auto].
Qed.

Lemma step_inv s a s' : inv s -> step s a = Some s' -> inv s'.
Proof.
  intros [Hh Hi]. destruct a as [i|i|k]; cbn [step].
  - destruct (nth_error (s_reqs s) i) as [r|] eqn:E; [|discriminate].
    destruct (step_req s i false r) as [r'|] eqn:ES; [|discriminate]. intros [= <-].
    split; [exact Hh|]. cbn [s_h s_dead s_reqs s_decide]. intros j rj Hj.
    destruct (Nat.eq_dec i j) as [<-|Hne].
    + rewrite (nth_error_update_same _ _ _ _ E) in Hj. injection Hj as <-.
      eapply step_req_inv; eauto.
    + rewrite nth_error_update_other in Hj by exact Hne. auto.
  - destruct (nth_error (s_reqs s) i) as [r|] eqn:E; [|discriminate].
    destruct (step_req s i true r) as [r'|] eqn:ES; [|discriminate]. intros [= <-].
    split; [exact Hh|]. cbn [s_h s_dead s_reqs s_decide]. intros j rj Hj.
    destruct (Nat.eq_dec i j) as [<-|Hne].
    + rewrite (nth_error_update_same _ _ _ _ E) in Hj. injection Hj as <-.
      eapply step_req_inv; eauto.
    + rewrite nth_error_update_other in Hj by exact Hne. auto.
  - destruct (Nat.leb 1 k && Nat.leb k (s_h s) && negb (is_dead s k))%bool; [|discriminate]. intros [= <-].
    split; [exact Hh|]. cbn [s_h s_dead s_reqs s_decide]. intros j rj Hj. apply rinv_mono. auto.
Qed.

Lemma init_inv h decide : (1 <= h)%nat -> inv (init_sys h decide).
Proof.
  intros Hh. split; [exact Hh|]. cbn [init_sys s_h s_dead s_reqs s_decide]. intros i r Hi.
  apply nth_error_In in Hi. apply in_map_iff in Hi. destruct Hi as [b [<- _]].
  unfold rinv. cbn [r_phase r_far]. split; [lia|reflexivity].
Qed.

Lemma run_inv acts : forall s, inv s -> inv (run acts s).
Proof.
  induction acts as [|a acts IH]; intros s Hs; cbn [run]; [exact Hs|].
  destruct (step s a) as [s'|] eqn:E; [|auto]. apply IH. eapply step_inv; eauto.
Qed.

Lemma step_static s a s' : step s a = Some s' -> s_decide s' = s_decide s /\ s_h s' = s_h s.
Proof.
  destruct a as [j|j|k]; cbn [step].
  - destruct (nth_error (s_reqs s) j) as [r|]; [|discriminate]. destruct (step_req s j false r); [|discriminate].
    intros [= <-]. auto.
  - destruct (nth_error (s_reqs s) j) as [r|]; [|discriminate]. destruct (step_req s j true r); [|discriminate].
    intros [= <-]. auto.
  - destruct (Nat.leb 1 k && Nat.leb k (s_h s) && negb (is_dead s k))%bool; [|discriminate].
    intros [= <-]. auto.
Qed.

Lemma run_static acts : forall s, s_decide (run acts s) = s_decide s /\ s_h (run acts s) = s_h s.
Proof.
  induction acts as [|a acts IH]; intros s; cbn [run]; [auto|].
  destruct (step s a) as [s'|] eqn:E; [|auto].
  destruct (IH s') as [-> ->]. eapply step_static; eauto.
Qed.

Lemma rinv_facts h dead d r : rinv h dead d r ->
  (r_phase r = DoneOk -> r_far r = FConn /\ d = true) /\
  (d = false -> r_far r = FNone /\ r_phase r <> DoneOk) /\
  (r_far r = FErr -> d = true /\ In h dead) /\
  (r_phase r = DoneErr -> r_far r = FConn -> dead <> []).
Proof.
  unfold rinv, far_ok. destruct r as [p f]. cbn [r_phase r_far].
  destruct p, f; intuition (try congruence; try discriminate).
Qed.

(** ** Safety, for every schedule (including every placement of connection losses) *)

(** The origin's connect future resolves successfully only for a request the far end matched by id
    and accepted; a request the far end dropped (superfluous, or its value was lost) never connects
    and leaves no far-end port behind; a far-end callback fails only when its own connection was lost;
    and when the origin sees an error although the far end holds a connected port, some connection
    on the path has been lost -- so that port is broken and its user gets an error too. *)
Theorem resolution_safe h decide acts i r :
  (1 <= h)%nat ->
  nth_error (s_reqs (run acts (init_sys h decide))) i = Some r ->
  let s := run acts (init_sys h decide) in
  let d := nth i decide false in
  (r_phase r = DoneOk -> r_far r = FConn /\ d = true) /\
  (d = false -> r_far r = FNone /\ r_phase r <> DoneOk) /\
  (r_far r = FErr -> d = true /\ In h (s_dead s)) /\
  (r_phase r = DoneErr -> r_far r = FConn -> s_dead s <> []).
Proof.
  intros Hh Hr s d.
  assert (Hinv : inv s) by (apply run_inv, init_inv; exact Hh).
  assert (Hdec : s_decide s = decide /\ s_h s = h) by (unfold s; apply (run_static acts (init_sys h decide))).
  destruct Hdec as [Hd1 Hd2]. destruct Hinv as [_ Hi]. specialize (Hi i r Hr). rewrite Hd1, Hd2 in Hi.
  fold d in Hi. apply rinv_facts in Hi. exact Hi.
Qed.

(** ** Progress: nothing stays pending at quiescence

    This is where the chmux-level facts enter (trusted here, to be discharged by the dispatcher model
    of C10 and the fail-stop model of C06): a request in flight on a live connection can always make
    its next step ([AMove] is enabled: the dispatcher delivers it, the listener side answers it
    exactly once, the answer is delivered), and a request that depends on a lost connection can always
    fail ([ALost] is enabled).  Given that, every request that is not resolved has an enabled step. *)
Theorem progress s i r :
  inv s -> nth_error (s_reqs s) i = Some r -> is_done r = false ->
  enabled s (AMove i) = true \/ enabled s (ALost i) = true.
Proof.
  intros [Hh Hi] E Hd. specialize (Hi _ _ E). unfold enabled. cbn [step]. rewrite E.
  unfold step_req. unfold is_done in Hd. unfold rinv in Hi.
  destruct (r_phase r) as [k| |k|k| |] eqn:EP; try discriminate; cbn [phase_conn].
  - destruct (is_dead s k); [now right|left]. now destruct (Nat.ltb k (s_h s)).
  - destruct (is_dead s (s_h s)); [now right|left]. now destruct (nth i (s_decide s) false).
  - destruct (is_dead s k); [now right|left]. now destruct k as [|[|k']].
  - destruct (is_dead s k); [now right|left]. now destruct k as [|[|k']].
Qed.

Corollary quiescent_all_resolved s :
  inv s -> quiescent s -> forall i r, nth_error (s_reqs s) i = Some r -> is_done r = true.
Proof.
  intros Hinv Hq i r E. destruct (is_done r) eqn:Hd; [reflexivity|].
  destruct (Hq i) as [H1 H2]. destruct (progress _ _ _ Hinv E Hd); congruence.
Qed.

(** ** Termination: every step of a request strictly decreases a measure *)

Definition rank (h : nat) (p : phase) : nat :=
  match p with
  | Going k => 3 * h + 3 - k
  | Held => 2 * h + 2
  | AccBack k => h + 1 + k
  | RejBack k => k
  | DoneOk | DoneErr => 0
  end.

Definition measure (s : sys) : nat := list_sum (map (fun r => rank (s_h s) (r_phase r)) (s_reqs s)).

Lemma rank_fail_up h k : (1 <= k)%nat -> (rank h (fail_up k) < k)%nat.
Proof. intros H. destruct k as [|[|k']]; cbn [fail_up rank]; lia. Qed.

Lemma step_req_decreases s i lost r r' :
  rinv (s_h s) (s_dead s) (nth i (s_decide s) false) r ->
  step_req s i lost r = Some r' -> (rank (s_h s) (r_phase r') < rank (s_h s) (r_phase r))%nat.
Proof.
  intros Hr. unfold step_req.
  destruct (phase_conn (s_h s) (r_phase r)) as [k|] eqn:EP; [|discriminate].
  unfold rinv in Hr.
  destruct lost.
  - destruct (is_dead s k); [|discriminate]. intros [= <-]. cbn [r_phase].
    destruct (r_phase r) eqn:EPh; cbn [phase_conn] in EP; try discriminate; injection EP as <-.
    + destruct Hr as [Hk _]. pose proof (rank_fail_up (s_h s) k0 ltac:(lia)). cbn [rank]. lia.
    + destruct (s_h s) as [|[|h']] eqn:EH; cbn [fail_up rank]; lia.
    + destruct Hr as [Hk _]. pose proof (rank_fail_up (s_h s) k0 ltac:(lia)). cbn [rank]. lia.
    + destruct Hr as [Hk _]. pose proof (rank_fail_up (s_h s) k0 ltac:(lia)). cbn [rank]. lia.
  - destruct (is_dead s k); [discriminate|].
    destruct (r_phase r) eqn:EPh; cbn [phase_conn] in EP; try discriminate; injection EP as <-.
    + destruct Hr as [Hk _]. destruct (Nat.ltb k0 (s_h s)) eqn:EL; intros [= <-]; cbn [r_phase rank]; lia.
    + destruct (nth i (s_decide s) false); intros [= <-]; cbn [r_phase rank]; lia.
    + destruct Hr as [Hk _]. destruct k0 as [|[|k']]; intros [= <-]; cbn [r_phase rank]; lia.
    + destruct Hr as [Hk _]. destruct k0 as [|[|k']]; intros [= <-]; cbn [r_phase rank]; lia.
Qed.

Lemma list_sum_update {A} (f : A -> nat) l i x y :
  nth_error l i = Some y -> (list_sum (map f (update l i x)) + f y = list_sum (map f l) + f x)%nat.
Proof.
  revert i. induction l as [|z l IH]; intros [|i]; cbn [nth_error update map list_sum fold_right]; try discriminate.
  - intros [= ->]. lia.
  - intros H. specialize (IH _ H). unfold list_sum in IH. lia.
Qed.

Definition is_cut (a : action) : bool := match a with ACut _ => true | _ => false end.

Lemma step_decreases s a s' :
  inv s -> step s a = Some s' ->
  if is_cut a then measure s' = measure s else (measure s' < measure s)%nat.
Proof.
  intros [Hh Hi]. destruct a as [i|i|k]; cbn [step is_cut].
  - destruct (nth_error (s_reqs s) i) as [r|] eqn:E; [|discriminate].
    destruct (step_req s i false r) as [r'|] eqn:ES; [|discriminate]. intros [= <-].
    unfold measure. cbn [s_h s_reqs].
    pose proof (list_sum_update (fun r => rank (s_h s) (r_phase r)) _ _ r' _ E) as HS. cbn beta in HS.
    pose proof (step_req_decreases _ _ _ _ _ (Hi _ _ E) ES). lia.
  - destruct (nth_error (s_reqs s) i) as [r|] eqn:E; [|discriminate].
    destruct (step_req s i true r) as [r'|] eqn:ES; [|discriminate]. intros [= <-].
    unfold measure. cbn [s_h s_reqs].
    pose proof (list_sum_update (fun r => rank (s_h s) (r_phase r)) _ _ r' _ E) as HS. cbn beta in HS.
    pose proof (step_req_decreases _ _ _ _ _ (Hi _ _ E) ES). lia.
  - destruct (Nat.leb 1 k && Nat.leb k (s_h s) && negb (is_dead s k))%bool; [|discriminate]. now intros [= <-].
Qed.

(** number of request steps actually taken by a schedule *)
Fixpoint moves (acts : list action) (s : sys) : nat :=
  match acts with
  | [] => O
  | a :: acts' =>
      match step s a with
      | Some s' => (if is_cut a then O else 1%nat) + moves acts' s'
      | None => moves acts' s
      end
  end.

(** No schedule makes more than [measure] request steps: the resolution terminates (with the
    bounded number of possible connection losses, every schedule reaches quiescence). *)
Theorem resolution_terminates acts : forall s, inv s -> (moves acts s <= measure s)%nat.
Proof.
  induction acts as [|a acts IH]; intros s Hs; cbn [moves]; [lia|].
  destruct (step s a) as [s'|] eqn:E; [|auto].
  pose proof (step_decreases _ _ _ Hs E) as HD. pose proof (IH _ (step_inv _ _ _ Hs E)) as HI.
  destruct (is_cut a); lia.
Qed.

Lemma init_measure h decide : measure (init_sys h decide) = (length decide * (3 * h + 2))%nat.
Proof.
  unfold measure. cbn [init_sys s_h s_reqs]. rewrite map_map. cbn [r_phase rank].
  induction decide as [|b l IH]; cbn [map list_sum fold_right length]; [reflexivity|]. unfold list_sum in IH. rewrite IH. lia.
Qed.

(** ** The canonical schedule used by the executable model is a schedule *)

Lemma drive_one_run fuel : forall i s, exists acts, drive_one fuel i s = run acts s.
Proof.
  induction fuel as [|f IH]; intros i s; cbn [drive_one]; [now exists []|].
  destruct (step s (AMove i)) as [s1|] eqn:E1.
  - destruct (IH i s1) as [acts ->]. exists (AMove i :: acts). cbn [run]. now rewrite E1.
  - destruct (step s (ALost i)) as [s2|] eqn:E2.
    + destruct (IH i s2) as [acts ->]. exists (ALost i :: acts). cbn [run]. now rewrite E2.
    + now exists [].
Qed.

Lemma run_app a1 : forall a2 s, run (a1 ++ a2) s = run a2 (run a1 s).
Proof.
  induction a1 as [|a a1 IH]; intros a2 s; cbn [app run]; [reflexivity|].
  destruct (step s a); apply IH.
Qed.

Lemma drive_all_run fuel n : forall s, exists acts, drive_all fuel n s = run acts s.
Proof.
  induction n as [|n IH]; intros s; cbn [drive_all]; [now exists []|].
  destruct (IH s) as [a1 ->]. destruct (drive_one_run fuel n (run a1 s)) as [a2 ->].
  exists (a1 ++ a2). now rewrite run_app.
Qed.

Lemma rank_zero_done h dead d r : rinv h dead d r -> rank h (r_phase r) = O -> is_done r = true.
Proof.
  unfold rinv, is_done. destruct (r_phase r); cbn [rank]; try reflexivity; intros Hi Hz; exfalso; lia.
Qed.

(** ... and with enough fuel it resolves the request it drives. *)
Lemma drive_one_done fuel : forall i s r,
  inv s -> nth_error (s_reqs s) i = Some r -> (rank (s_h s) (r_phase r) <= fuel)%nat ->
  exists r', nth_error (s_reqs (drive_one fuel i s)) i = Some r' /\ is_done r' = true.
Proof.
  induction fuel as [|f IH]; intros i s r Hs E Hf.
  - cbn [drive_one]. exists r. split; [exact E|]. destruct Hs as [Hh Hi].
    eapply rank_zero_done; [exact (Hi _ _ E)|lia].
  - cbn [drive_one]. destruct (is_done r) eqn:Hd.
    + (* already resolved: no step enabled *)
      assert (HN : forall lost, step_req s i lost r = None).
      { intros lost. unfold step_req. unfold is_done in Hd. now destruct (r_phase r). }
      cbn [step]. rewrite E, !HN. eauto.
    + destruct (progress _ _ _ Hs E Hd) as [H|H]; unfold enabled in H.
      * destruct (step s (AMove i)) as [s1|] eqn:E1; [|discriminate].
        pose proof (step_inv _ _ _ Hs E1) as Hs1.
        cbn [step] in E1. rewrite E in E1. destruct (step_req s i false r) as [r1|] eqn:ES; [|discriminate].
        injection E1 as <-.
        eapply IH; [exact Hs1|cbn [s_reqs]; eapply nth_error_update_same; eauto|].
        cbn [s_h]. destruct Hs as [_ Hi]. pose proof (step_req_decreases _ _ _ _ _ (Hi _ _ E) ES). lia.
      * destruct (step s (AMove i)) as [s1|] eqn:E1.
        -- pose proof (step_inv _ _ _ Hs E1) as Hs1.
           cbn [step] in E1. rewrite E in E1. destruct (step_req s i false r) as [r1|] eqn:ES; [|discriminate].
           injection E1 as <-.
           eapply IH; [exact Hs1|cbn [s_reqs]; eapply nth_error_update_same; eauto|].
           cbn [s_h]. destruct Hs as [_ Hi]. pose proof (step_req_decreases _ _ _ _ _ (Hi _ _ E) ES). lia.
        -- destruct (step s (ALost i)) as [s2|] eqn:E2; [|discriminate].
           pose proof (step_inv _ _ _ Hs E2) as Hs2.
           cbn [step] in E2. rewrite E in E2. destruct (step_req s i true r) as [r2|] eqn:ES; [|discriminate].
           injection E2 as <-.
           eapply IH; [exact Hs2|cbn [s_reqs]; eapply nth_error_update_same; eauto|].
           cbn [s_h]. destruct Hs as [_ Hi]. pose proof (step_req_decreases _ _ _ _ _ (Hi _ _ E) ES). lia.
Qed.

(** * Interlock of [bin] / [lr] channels *)

Definition loc_eqb (a b : loc) : bool :=
  match a, b with
  | Local, Local | Remote, Remote | Sending CEmpty, Sending CEmpty | Sending CSent, Sending CSent
  | Sending CClosed, Sending CClosed => true
  | _, _ => false
  end.

(** A half that left directly has its location marked non-local: [Sending] while the confirmation is
    outstanding, [Sending]-confirmed or [Remote] afterwards. *)
Definition ok_side (d o : bool) (l : loc) : bool :=
  match d, o with
  | true, true => loc_eqb l (Sending CEmpty)
  | true, false => loc_eqb l (Sending CSent) || loc_eqb l Remote
  | false, true => false
  | false, false => true
  end.

Definition il_inv (st : il_state) : bool :=
  negb (is_bad st) && ok_side (is_direct_tx st) (is_open_tx st) (il_sender (is_il st))
  && ok_side (is_direct_rx st) (is_open_rx st) (il_receiver (is_il st)).

Lemma il_step_inv lr st a : il_inv st = true -> il_inv (il_step true lr st a) = true.
Proof.
  destruct st as [[ls lr_] dtx drx otx orx bad last].
  destruct a as [[|]|[|]|[|]];
  destruct ls as [|[| |]|], lr_ as [|[| |]|], dtx, drx, otx, orx, bad; cbn; try reflexivity; try discriminate;
  destruct lr; cbn; try reflexivity; try discriminate.
Qed.

Lemma il_run_inv lr acts : forall st, il_inv st = true -> il_inv (fold_left (il_step true lr) acts st) = true.
Proof.
  induction acts as [|a acts IH]; intros st H; cbn [fold_left]; [exact H|]. apply IH. now apply il_step_inv.
Qed.

(** With the repaired transitions ([fixed = true]): whatever the order of serializations,
    confirmations and cancellations, no serialization ever takes the direct path while the other half
    is away on a direct connection (in progress or complete). *)
Theorem interlock_fixed lr acts : is_bad (il_run true lr acts) = false.
Proof.
  pose proof (il_run_inv lr acts il_init eq_refl) as H. unfold il_run.
  unfold il_inv in H. apply andb_prop in H. destruct H as [H _]. apply andb_prop in H. destruct H as [H _].
  now apply negb_true_iff in H.
Qed.

(** ... instead the other half takes the forwarding path ([bin]) or fails to serialize ([lr]). *)
Theorem interlock_fixed_other lr acts s :
  let st := il_run true lr acts in
  g_direct st s = true -> g_direct st (other s) = false ->
  is_last (il_step true lr st (ISer (other s))) = if lr then SerError else Forwarding.
Proof.
  intros st. pose proof (il_run_inv lr acts il_init eq_refl) as H. fold (il_run true lr acts) in H. fold st in H.
  revert H. generalize st. clear st. intros st.
  destruct st as [[ls lr_] dtx drx otx orx bad last].
  destruct s; destruct ls as [|[| |]|], lr_ as [|[| |]|], dtx, drx, otx, orx, bad; cbn; try discriminate; destruct lr; cbn; try reflexivity; try discriminate.
Qed.

(** A cancelled direct transfer (its callback is dropped unrun) makes the location it marked local
    again at the next check -- in both variants of the transitions. *)
Theorem interlock_cancel_reverts fixed lr st s :
  g_open st s = true -> get_loc (is_il st) (marked fixed s) = Sending CEmpty ->
  let st' := il_step fixed lr st (ICancel s) in
  check_local (get_loc (is_il st') (marked fixed s)) = (Local, true) /\ g_direct st' s = false.
Proof.
  destruct st as [[ls lr_] dtx drx otx orx bad last]. destruct fixed, s; cbn; intros -> ->; cbn; auto.
Qed.

(** The code as it is ([fixed = false]) marks the wrong location: after the sender has left (and its
    transfer was confirmed), serializing the receiver takes the direct path again (finding F10). *)
Theorem interlock_refuted : forall lr,
  exists acts, is_bad (il_run false lr acts) = true /\ is_last (il_run false lr acts) = Direct.
Proof. intros lr. exists [ISer STx; IConfirm STx; ISer SRx]. destruct lr; vm_compute; auto. Qed.

(** Outside the known class (both halves of one channel get serialized) the code as it is keeps the
    property: if only one side is ever serialized nothing bad happens. *)
Definition only_side (s0 : side) (a : il_action) : bool :=
  match a with ISer s => side_eqb s s0 | _ => true end.

Lemma il_step_one_side lr s0 st a :
  only_side s0 a = true -> is_bad st = false -> g_direct st (other s0) = false -> g_open st (other s0) = false ->
  let st' := il_step false lr st a in
  is_bad st' = false /\ g_direct st' (other s0) = false /\ g_open st' (other s0) = false.
Proof.
  destruct st as [[ls lr_] dtx drx otx orx bad last].
  destruct s0, a as [[|]|[|]|[|]]; destruct ls as [|[| |]|], lr_ as [|[| |]|], dtx, drx, otx, orx, bad; cbn;
  intros H0 H1 H2 H3; try congruence; destruct lr; cbn; auto.
Qed.

Theorem interlock_one_side lr s0 acts :
  forallb (only_side s0) acts = true -> is_bad (il_run false lr acts) = false.
Proof.
  unfold il_run.
  assert (G : forall acts st, forallb (only_side s0) acts = true ->
            is_bad st = false -> g_direct st (other s0) = false -> g_open st (other s0) = false ->
            is_bad (fold_left (il_step false lr) acts st) = false).
  { induction acts0 as [|a acts0 IH]; intros st HF H1 H2 H3; cbn [fold_left]; [exact H1|].
    cbn [forallb] in HF. apply andb_prop in HF. destruct HF as [Ha HF].
    destruct (il_step_one_side lr s0 st a Ha H1 H2 H3) as [K1 [K2 K3]]. now apply IH. }
  intros HF. apply G; [exact HF|reflexivity|now destruct s0|now destruct s0].
Qed.

(** At quiescence -- no request can make a step any more -- every request is resolved, and:
    a request the far end matched by id and accepted is connected at both ends, unless a connection
    was lost, in which case the origin's connect future failed (and the far end's port, if it got one,
    sits on a broken path); a request the far end dropped failed at the origin and left nothing at the
    far end.  No end stays pending. *)
Theorem resolved_at_quiescence h decide acts :
  (1 <= h)%nat ->
  let s := run acts (init_sys h decide) in
  quiescent s ->
  forall i r, nth_error (s_reqs s) i = Some r ->
    if nth i decide false
    then (r_phase r = DoneOk /\ r_far r = FConn) \/ (r_phase r = DoneErr /\ s_dead s <> [])
    else r_phase r = DoneErr /\ r_far r = FNone.
Proof.
  intros Hh s Hq i r E.
  assert (Hinv : inv s) by (apply run_inv, init_inv; exact Hh).
  pose proof (quiescent_all_resolved _ Hinv Hq _ _ E) as Hd.
  destruct (run_static acts (init_sys h decide)) as [Hd1 Hd2]. fold s in Hd1, Hd2.
  cbn [init_sys s_decide s_h] in Hd1, Hd2.
  destruct Hinv as [_ Hi]. specialize (Hi _ _ E). rewrite Hd1, Hd2 in Hi.
  unfold rinv, far_ok in Hi. unfold is_done in Hd.
  destruct (nth i decide false) eqn:ED; destruct (r_phase r) eqn:EP; try discriminate.
  - left. tauto.
  - right. split; [reflexivity|]. destruct (r_far r); [auto|tauto|].
    destruct Hi as [_ Hin]. intros E0. rewrite E0 in Hin. destruct Hin.
  - destruct Hi; discriminate.
  - split; [reflexivity|]. destruct (r_far r); [reflexivity| |]; destruct Hi; discriminate.
Qed.

(** * Port exhaustion *)

Fixpoint travelling (ls : list leaf) : nat :=
  match ls with
  | [] => O
  | l :: ls' => match l_mode l with MFake _ => travelling ls' | _ => S (travelling ls') end
  end.

(** Serialization fails ("ports exhausted") exactly when the value carries more halves than the
    origin's allocator has ports left; then nothing is sent (the item comes back in the error). *)
Theorem serialize_exhausted ls : forall ps, serialize ls ps = None <-> (length ps < travelling ls)%nat.
Proof.
  induction ls as [|l ls IH]; intros ps; cbn [serialize travelling].
  - split; [discriminate|lia].
  - destruct (l_mode l).
    + destruct ps as [|p ps']; cbn [length]; [split; [lia|reflexivity]|].
      specialize (IH ps'). destruct (serialize ls ps') as [[t pl]|].
      * split; [discriminate|]. intros H. exfalso. assert (H1 : (length ps' < travelling ls)%nat) by lia.
        apply IH in H1. discriminate.
      * split; [|reflexivity]. intros _. assert (H1 : (length ps' < travelling ls)%nat) by now apply IH. lia.
    + destruct ps as [|p ps']; cbn [length]; [split; [lia|reflexivity]|].
      specialize (IH ps'). destruct (serialize ls ps') as [[t pl]|].
      * split; [discriminate|]. intros H. exfalso. assert (H1 : (length ps' < travelling ls)%nat) by lia.
        apply IH in H1. discriminate.
      * split; [|reflexivity]. intros _. assert (H1 : (length ps' < travelling ls)%nat) by now apply IH. lia.
    + specialize (IH ps). destruct (serialize ls ps) as [[t pl]|].
      * split; [discriminate|]. intros H. apply IH in H. discriminate.
      * split; [|reflexivity]. intros _. now apply IH.
Qed.

(** Deserialization fails exactly when the far end's allocator has fewer ports left than the value
    carries halves it knows; then the item is lost as a whole and none of its requests is accepted. *)
Theorem deser_exhausted pl : forall m qs, deser m pl qs = None <-> (length qs < length (entries pl))%nat.
Proof.
  induction pl as [|[[id cb]|] pl IH]; intros m qs; cbn [deser entries length].
  - split; [discriminate|lia].
  - destruct qs as [|q qs']; cbn [length]; [split; [lia|reflexivity]|].
    rewrite IH. lia.
  - apply IH.
Qed.

(** * End to end: wiring and resolution together *)

Lemma nth_map_error {A} (f : A -> bool) l i x : nth_error l i = Some x -> nth i (map f l) false = f x.
Proof.
  revert i. induction l as [|y l IH]; intros [|i]; cbn [nth_error map nth]; try discriminate.
  - now intros [= ->].
  - apply IH.
Qed.

Section EndToEnd.
  Variables (ls : list leaf) (ps : list N) (hops : list (list N * list nat)) (last_sizes : list nat) (qs : list N).
  Variable w : wired.
  Hypothesis Hlabels : NoDup (map l_cb ls).
  Hypothesis Hports : NoDup (ps ++ fake_ids ls).
  Hypothesis Hhops : Forall hop_ok hops.
  Hypothesis Hwire : wire ls ps hops last_sizes qs = WOk w.

  (** The request of the i-th travelling half is accepted iff the half travels normally. *)
  Lemma decisions_spec i p cb :
    nth_error (w_table w) i = Some (p, cb) ->
    (nth i (decisions w) false = true <-> exists l, In l ls /\ l_cb l = cb /\ l_mode l = MReal).
  Proof.
    intros Hi. unfold decisions. rewrite (nth_map_error _ _ _ _ Hi). cbn [fst].
    destruct (wire_inv _ _ _ _ _ _ Hwire) as [pl [fin [m [E1 [E2 [E3 [E4 E5]]]]]]].
    pose proof (table_ports_nodup _ _ _ Hports _ E1) as NDall.
    assert (NDt : NoDup (map fst (w_table w))) by (now apply nodup_app_l in NDall).
    pose proof (serialize_labels_nodup _ _ _ _ E1 Hlabels) as NDl.
    pose proof (route_spec _ _ _ _ E2 Hhops) as F.
    assert (Hids : map r_id fin = map fst (w_table w)).
    { rewrite (Forall2_map_eq r_id r_id fin (origin_reqs (w_table w))).
      - now rewrite origin_reqs_ids.
      - eapply Forall2_impl_in; [|exact F]. cbn beta. now intros ? ? _ [? _]. }
    assert (NDfin : NoDup (map r_id fin)) by now rewrite Hids.
    destruct (match_reqs_spec _ _ _ _ _ E5 NDfin) as [I1 _].
    pose proof (serialize_entry_ids _ _ _ _ E1 NDall) as NDe.
    destruct (deser_spec _ _ _ _ E4 NDe) as [D1 D2].
    pose proof (nth_error_In _ _ Hi) as Hin.
    split.
    - intros H. apply existsb_exists in H. destruct H as [a [Ha Hid]]. apply N.eqb_eq in Hid.
      apply I1 in Ha. destruct Ha as [_ Hm]. rewrite Hid in Hm.
      destruct (in_dec N.eq_dec p (map fst (entries pl))) as [He|He]; [|rewrite (D2 _ He) in Hm; discriminate].
      apply in_map_iff in He. destruct He as [[id cb'] [Hid' He]]. cbn [fst] in Hid'. subst id.
      destruct (serialize_entries _ _ _ _ E1 _ _ He) as [[H1 [l [Hl [Hcb M]]]]|H1].
      + exists l. repeat split; auto.
        pose proof (in_assoc_nodup _ _ _ NDt H1). pose proof (in_assoc_nodup _ _ _ NDt Hin). congruence.
      + exfalso. apply (nodup_app_disj _ _ p NDall); [|exact H1]. apply in_map_iff. now exists (p, cb).
    - intros [l [Hl [Hcb M]]]. subst cb.
      destruct (serialize_real _ _ _ _ E1 _ Hl M) as [p' [Ht He]].
      assert (p' = p) by (eapply nodup_snd_key; eauto). subst p'.
      destruct (D1 _ _ He) as [q Hq].
      assert (Hr0 : In (mkReq p p) (origin_reqs (w_table w))).
      { unfold origin_reqs. apply in_map_iff. now exists (p, l_cb l). }
      destruct (Forall2_in_r _ _ _ _ F Hr0) as [f [Hf [Hid Htr]]]. cbn [r_id r_port] in *.
      apply existsb_exists. exists (mkAcc f q (l_cb l)). split.
      + apply I1. cbn [a_req a_port a_cb]. split; [exact Hf|]. now rewrite Hid.
      + cbn [a_req]. now apply N.eqb_eq.
  Qed.

  (** End to end: the value is wired ([wire]) and its requests resolve under an arbitrary schedule with
      the far end's decisions computed by the matching; at quiescence, when no connection was lost,
      the callback of every normally travelling half got its connected port at both ends, and the
      callback of every half the far end does not know got an error, with nothing left at the far end. *)
  Theorem end_to_end acts :
    let s := run acts (init_sys (S (length hops)) (decisions w)) in
    quiescent s -> s_dead s = [] ->
    forall i p cb r, nth_error (w_table w) i = Some (p, cb) -> nth_error (s_reqs s) i = Some r ->
      ((exists l, In l ls /\ l_cb l = cb /\ l_mode l = MReal) -> r_phase r = DoneOk /\ r_far r = FConn) /\
      ((exists l, In l ls /\ l_cb l = cb /\ l_mode l = MIgnored) -> r_phase r = DoneErr /\ r_far r = FNone).
  Proof.
    intros s Hq Hd i p cb r Hi Hr.
    pose proof (resolved_at_quiescence (S (length hops)) (decisions w) acts ltac:(lia) Hq i r Hr) as H.
    fold s in H.
    pose proof (decisions_spec _ _ _ Hi) as DS.
    split.
    - intros Hreal. apply DS in Hreal. rewrite Hreal in H. destruct H as [H|[_ H]]; [exact H|]. now rewrite Hd in H.
    - intros [l [Hl [Hcb M]]].
      destruct (nth i (decisions w) false) eqn:ED; [|exact H].
      exfalso. destruct DS as [DS1 _]. destruct (DS1 eq_refl) as [l' [Hl' [Hcb' M']]].
      assert (l' = l).
      { clear - Hlabels Hl Hl' Hcb Hcb'. assert (Hsame : l_cb l' = l_cb l) by congruence. clear Hcb Hcb'.
        induction ls as [|x xs IH]; [destruct Hl|]. cbn [map] in Hlabels. inversion Hlabels as [|? ? Hn ND]; subst.
        destruct Hl as [->|Hl], Hl' as [->|Hl'].
        + reflexivity.
        + exfalso. apply Hn. rewrite <- Hsame. now apply in_map.
        + exfalso. apply Hn. rewrite Hsame. now apply in_map.
        + auto. }
      subst l'. congruence.
  Qed.
End EndToEnd.

(** * Facts read off the source (regenerated on every run) *)
Lemma source_shape :
  ser_id_is_port = true /\ ser_callbacks_in_order = true /\ forward_keeps_id = true /\
  forward_relays_answer = true /\ deser_keyed_by_remote_port = true /\ match_by_id = true /\
  missing_ports_reported = true /\ interlock_sites_understood = true /\
  bin_tx_marks_own = bin_rx_marks_own /\ lr_tx_marks_own = lr_rx_marks_own.
Proof. repeat split; reflexivity. Qed.
