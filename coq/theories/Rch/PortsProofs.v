(** Proofs about [Rch/Ports.v] (property C05). *)
From Remoc Require Import Lib.Base Rch.Ports.

(** * Lists without repetition *)

Lemma nodup_app_l {A} (l1 l2 : list A) : NoDup (l1 ++ l2) -> NoDup l1.
Proof.
  induction l1 as [|x l1 IH]; cbn [app]; [constructor|].
  intros H. inversion H as [|? ? Hn ND]; subst. constructor; [|auto].
  intros Hc. apply Hn. apply in_or_app. now left.
Qed.

Lemma nodup_app_r {A} (l1 l2 : list A) : NoDup (l1 ++ l2) -> NoDup l2.
Proof. induction l1 as [|x l1 IH]; cbn [app]; [auto|]. intros H. inversion H; auto. Qed.

Lemma nodup_app_disj {A} (l1 l2 : list A) x : NoDup (l1 ++ l2) -> In x l1 -> In x l2 -> False.
Proof.
  induction l1 as [|y l1 IH]; cbn [app]; [intros _ []|].
  intros H [->|H1] H2; inversion H as [|? ? Hn ND]; subst; [|eauto].
  apply Hn. apply in_or_app. now right.
Qed.

Lemma nodup_app_mid {A} (l1 l2 l3 : list A) : NoDup ((l1 ++ l2) ++ l3) -> NoDup (l1 ++ l3).
Proof.
  induction l1 as [|x l1 IH]; cbn [app].
  - apply nodup_app_r.
  - intros H. inversion H as [|? ? Hn ND]; subst. constructor; [|auto].
    intros Hc. apply Hn. apply in_app_or in Hc. apply in_or_app. destruct Hc as [Hc|Hc]; [left|now right].
    apply in_or_app. now left.
Qed.

(** * Association lists *)

Lemma assoc_in {A} k (v : A) m : assoc k m = Some v -> In (k, v) m.
Proof.
  induction m as [|[k' v'] m IH]; cbn [assoc]; [discriminate|].
  destruct (k' =? k) eqn:E.
  - apply N.eqb_eq in E. intros [= ->]. subst. now left.
  - intros H. right. auto.
Qed.

Lemma in_assoc_nodup {A} k (v : A) m : NoDup (map fst m) -> In (k, v) m -> assoc k m = Some v.
Proof.
  induction m as [|[k' v'] m IH]; cbn [assoc map fst]; [intros _ []|].
  intros ND [H|H].
  - injection H as -> ->. now rewrite N.eqb_refl.
  - inversion ND as [|? ? Hn ND']; subst.
    destruct (k' =? k) eqn:E.
    + apply N.eqb_eq in E. subst. exfalso. apply Hn. apply in_map_iff. now exists (k, v).
    + auto.
Qed.

Lemma assoc_none_notin {A} k (m : list (N * A)) : assoc k m = None <-> ~ In k (map fst m).
Proof.
  induction m as [|[k' v'] m IH]; cbn [assoc map fst].
  - split; auto.
  - destruct (k' =? k) eqn:E.
    + apply N.eqb_eq in E. subst. split; [discriminate|]. intros H. exfalso. apply H. now left.
    + apply N.eqb_neq in E. rewrite IH. split.
      * intros H [H1|H1]; [now apply E|now apply H].
      * intros H H1. apply H. now right.
Qed.

Lemma assoc_remove_same {A} k (m : list (N * A)) : assoc k (remove k m) = None.
Proof.
  induction m as [|[k' v'] m IH]; cbn [remove assoc]; [reflexivity|].
  destruct (k' =? k) eqn:E; [exact IH|]. cbn [assoc]. now rewrite E.
Qed.

Lemma assoc_remove_other {A} k k' (m : list (N * A)) : k <> k' -> assoc k' (remove k m) = assoc k' m.
Proof.
  intros Hne. induction m as [|[k2 v2] m IH]; cbn [remove assoc]; [reflexivity|].
  destruct (k2 =? k) eqn:E.
  - apply N.eqb_eq in E. subst. rewrite IH.
    destruct (k =? k') eqn:E2; [apply N.eqb_eq in E2; contradiction|reflexivity].
  - cbn [assoc]. now rewrite IH.
Qed.

Lemma assoc_insert_same {A} k (v : A) m : assoc k (insert k v m) = Some v.
Proof. unfold insert. cbn [assoc]. now rewrite N.eqb_refl. Qed.

Lemma assoc_insert_other {A} k k' (v : A) m : k <> k' -> assoc k' (insert k v m) = assoc k' m.
Proof.
  intros Hne. unfold insert. cbn [assoc].
  destruct (k =? k') eqn:E; [apply N.eqb_eq in E; contradiction|]. now apply assoc_remove_other.
Qed.

Lemma remove_keys_incl {A} k (m : list (N * A)) x : In x (map fst (remove k m)) -> In x (map fst m) /\ x <> k.
Proof.
  induction m as [|[k' v'] m IH]; cbn [remove map fst]; [intros []|].
  destruct (k' =? k) eqn:E.
  - intros H. destruct (IH H). split; [now right|assumption].
  - apply N.eqb_neq in E. cbn [map fst]. intros [H|H].
    + subst. split; [now left|assumption].
    + destruct (IH H). split; [now right|assumption].
Qed.

Lemma remove_keys_other {A} k (m : list (N * A)) x : In x (map fst m) -> x <> k -> In x (map fst (remove k m)).
Proof.
  induction m as [|[k' v'] m IH]; cbn [remove map fst]; [intros []|].
  intros [H|H] Hne.
  - subst. destruct (x =? k) eqn:E; [apply N.eqb_eq in E; contradiction|]. now left.
  - destruct (k' =? k); [auto|]. right. auto.
Qed.

(** * Batches *)

Lemma concat_chunks {A} sizes (l : list A) : reassemble (chunks sizes l) = l.
Proof.
  unfold reassemble. revert l. induction sizes as [|s ss IH]; intros l; cbn [chunks concat].
  - now rewrite app_nil_r.
  - rewrite IH. apply firstn_skipn.
Qed.

(** * One forwarding hop *)

Lemma forward_hop_ports ins ps outs tab :
  forward_hop ins ps = Some (outs, tab) -> exists ps2, ps = map r_port outs ++ ps2.
Proof.
  revert ps outs tab. induction ins as [|r ins IH]; intros ps outs tab; cbn [forward_hop].
  - intros [= <- <-]. now exists ps.
  - destruct ps as [|p ps']; [discriminate|].
    destruct (forward_hop ins ps') as [[o t]|] eqn:E; [|discriminate].
    intros [= <- <-]. destruct (IH _ _ _ E) as [ps2 ->]. now exists ps2.
Qed.

Lemma forward_hop_tab_keys ins ps outs tab :
  forward_hop ins ps = Some (outs, tab) -> map fst tab = map r_port outs.
Proof.
  revert ps outs tab. induction ins as [|r ins IH]; intros ps outs tab; cbn [forward_hop].
  - now intros [= <- <-].
  - destruct ps as [|p ps']; [discriminate|].
    destruct (forward_hop ins ps') as [[o t]|] eqn:E; [|discriminate].
    intros [= <- <-]. cbn [map fst r_port]. f_equal. eauto.
Qed.

Lemma Forall2_impl_in {A B} (P Q : A -> B -> Prop) l1 l2 :
  (forall a b, In a l1 -> P a b -> Q a b) -> Forall2 P l1 l2 -> Forall2 Q l1 l2.
Proof.
  intros H F. induction F as [|a b l1 l2 HP F IH]; constructor.
  - apply H; [now left|exact HP].
  - apply IH. intros a' b' Hin. apply H. now right.
Qed.

Lemma Forall2_in_l {A B} (P : A -> B -> Prop) l1 l2 a :
  Forall2 P l1 l2 -> In a l1 -> exists b, In b l2 /\ P a b.
Proof.
  intros F. induction F as [|a' b l1 l2 HP F IH]; [intros []|].
  intros [<-|H]; [exists b; split; [now left|exact HP]|].
  destruct (IH H) as [b' [H1 H2]]. exists b'. split; [now right|exact H2].
Qed.

Lemma Forall2_in_r {A B} (P : A -> B -> Prop) l1 l2 b :
  Forall2 P l1 l2 -> In b l2 -> exists a, In a l1 /\ P a b.
Proof.
  intros F. induction F as [|a b' l1 l2 HP F IH]; [intros []|].
  intros [<-|H]; [exists a; split; [now left|exact HP]|].
  destruct (IH H) as [a' [H1 H2]]. exists a'. split; [now right|exact H2].
Qed.

Lemma Forall2_map_eq {A B C} (f : A -> C) (g : B -> C) l1 l2 :
  Forall2 (fun a b => f a = g b) l1 l2 -> map f l1 = map g l2.
Proof. intros F. induction F; cbn [map]; congruence. Qed.

(** Every outgoing request carries the id of the incoming request it stands for, and the table maps
    its port back to exactly that request. *)
Lemma forward_hop_spec ins ps outs tab :
  forward_hop ins ps = Some (outs, tab) -> NoDup ps ->
  Forall2 (fun o r => r_id o = r_id r /\ assoc (r_port o) tab = Some r) outs ins /\
  NoDup (map r_port outs).
Proof.
  revert ps outs tab. induction ins as [|r ins IH]; intros ps outs tab; cbn [forward_hop].
  - intros [= <- <-] _. split; constructor.
  - destruct ps as [|p ps']; [discriminate|].
    destruct (forward_hop ins ps') as [[o t]|] eqn:E; [|discriminate].
    intros [= <- <-] ND. inversion ND as [|? ? Hn ND']; subst.
    destruct (IH _ _ _ E ND') as [F NDo].
    destruct (forward_hop_ports _ _ _ _ E) as [ps2 Hps].
    assert (Hnp : ~ In p (map r_port o)).
    { intros Hin. apply Hn. rewrite Hps. apply in_or_app. now left. }
    split.
    + constructor.
      * cbn [r_id r_port assoc]. now rewrite N.eqb_refl.
      * eapply Forall2_impl_in; [|exact F]. cbn beta. intros a b Hin [H1 H2]. split; [exact H1|].
        cbn [assoc]. destruct (p =? r_port a) eqn:E2; [|exact H2].
        apply N.eqb_eq in E2. exfalso. apply Hnp. rewrite E2. now apply in_map.
    + cbn [map r_port]. constructor; assumption.
Qed.

Lemma Forall2_refl_all {A} (P : A -> A -> Prop) l : (forall a, P a a) -> Forall2 P l l.
Proof. intros H. induction l; constructor; auto. Qed.

Lemma Forall2_comp {A B C} (P : A -> B -> Prop) (Q : B -> C -> Prop) (R : A -> C -> Prop) l1 l2 l3 :
  (forall a b c, P a b -> Q b c -> R a c) -> Forall2 P l1 l2 -> Forall2 Q l2 l3 -> Forall2 R l1 l3.
Proof.
  intros H F. revert l3. induction F as [|a b l1 l2 HP F IH]; intros l3 G; inversion G; subst; constructor; eauto.
Qed.

(** * A chain of forwarders: induction on the number of hops *)

Lemma trace_back_app l1 l2 p :
  trace_back (l1 ++ l2) p = match trace_back l1 p with Some p' => trace_back l2 p' | None => None end.
Proof.
  revert p. induction l1 as [|tab l1 IH]; intros p; cbn [app trace_back]; [reflexivity|].
  destruct (assoc p tab); auto.
Qed.

Definition hop_ok (h : list N * list nat) : Prop := NoDup (fst h).

(** Whatever the number of forwarders, their port choices and the batch boundaries: the requests reach
    the far end in the same order with the same ids, and following the forwarders' tables back from the
    port of a delivered request leads to the port of the origin's request at the same position. *)
Lemma route_spec hops : forall rs fin tabs,
  route rs hops = Some (fin, tabs) -> Forall hop_ok hops ->
  Forall2 (fun f r => r_id f = r_id r /\ trace_back (rev tabs) (r_port f) = Some (r_port r)) fin rs.
Proof.
  induction hops as [|[ps sizes] hops IH]; intros rs fin tabs; cbn [route].
  - intros [= <- <-] _. apply Forall2_refl_all. intros a. split; reflexivity.
  - rewrite concat_chunks.
    destruct (forward_hop rs ps) as [[outs tab]|] eqn:E1; [|discriminate].
    destruct (route outs hops) as [[fin' tabs']|] eqn:E2; [|discriminate].
    intros [= <- <-] HF. inversion HF as [|? ? Hok HF']; subst.
    destruct (forward_hop_spec _ _ _ _ E1 Hok) as [F1 _].
    specialize (IH _ _ _ E2 HF').
    eapply Forall2_comp; [|exact IH|exact F1].
    cbn beta. intros f o r [H1 H2] [H3 H4]. split; [congruence|].
    cbn [rev]. rewrite trace_back_app, H2. cbn [trace_back]. now rewrite H4.
Qed.

(** * Serialization *)

Fixpoint entries (pl : list (option (N * cbid))) : list (N * cbid) :=
  match pl with
  | [] => []
  | Some e :: pl' => e :: entries pl'
  | None :: pl' => entries pl'
  end.

Lemma serialize_ports ls : forall ps t pl,
  serialize ls ps = Some (t, pl) -> exists ps2, ps = map fst t ++ ps2.
Proof.
  induction ls as [|l ls IH]; intros ps t pl; cbn [serialize].
  - intros [= <- <-]. now exists ps.
  - destruct (l_mode l).
    + destruct ps as [|p ps']; [discriminate|].
      destruct (serialize ls ps') as [[t' pl']|] eqn:E; [|discriminate].
      intros [= <- <-]. destruct (IH _ _ _ E) as [ps2 ->]. now exists ps2.
    + destruct ps as [|p ps']; [discriminate|].
      destruct (serialize ls ps') as [[t' pl']|] eqn:E; [|discriminate].
      intros [= <- <-]. destruct (IH _ _ _ E) as [ps2 ->]. now exists ps2.
    + destruct (serialize ls ps) as [[t' pl']|] eqn:E; [|discriminate].
      intros [= <- <-]. eauto.
Qed.

(** every table entry belongs to a leaf that travels with a request *)
Lemma serialize_table ls : forall ps t pl,
  serialize ls ps = Some (t, pl) ->
  forall p cb, In (p, cb) t -> exists l, In l ls /\ l_cb l = cb /\ (l_mode l = MReal \/ l_mode l = MIgnored).
Proof.
  induction ls as [|l ls IH]; intros ps t pl; cbn [serialize].
  - intros [= <- <-] p cb [].
  - destruct (l_mode l) eqn:M.
    + destruct ps as [|p0 ps']; [discriminate|].
      destruct (serialize ls ps') as [[t' pl']|] eqn:E; [|discriminate].
      intros [= <- <-] p cb [H|H].
      * injection H as <- <-. exists l. split; [now left|]. auto.
      * destruct (IH _ _ _ E _ _ H) as [l' [H1 H2]]. exists l'. split; [now right|exact H2].
    + destruct ps as [|p0 ps']; [discriminate|].
      destruct (serialize ls ps') as [[t' pl']|] eqn:E; [|discriminate].
      intros [= <- <-] p cb [H|H].
      * injection H as <- <-. exists l. split; [now left|]. auto.
      * destruct (IH _ _ _ E _ _ H) as [l' [H1 H2]]. exists l'. split; [now right|exact H2].
    + destruct (serialize ls ps) as [[t' pl']|] eqn:E; [|discriminate].
      intros [= <- <-] p cb H.
      destruct (IH _ _ _ E _ _ H) as [l' [H1 H2]]. exists l'. split; [now right|exact H2].
Qed.

Lemma serialize_labels_nodup ls : forall ps t pl,
  serialize ls ps = Some (t, pl) -> NoDup (map l_cb ls) -> NoDup (map snd t).
Proof.
  induction ls as [|l ls IH]; intros ps t pl; cbn [serialize].
  - intros [= <- <-] _. constructor.
  - cbn [map]. intros H ND. inversion ND as [|? ? Hn ND']; subst.
    assert (Hin : forall ps' t' pl', serialize ls ps' = Some (t', pl') -> ~ In (l_cb l) (map snd t')).
    { intros ps' t' pl' E Hc. apply in_map_iff in Hc. destruct Hc as [[p cb] [Hcb Hc]]. cbn [snd] in Hcb. subst.
      destruct (serialize_table _ _ _ _ E _ _ Hc) as [l' [H1 [H2 _]]].
      apply Hn. rewrite <- H2. now apply in_map. }
    destruct (l_mode l).
    + destruct ps as [|p0 ps']; [discriminate|].
      destruct (serialize ls ps') as [[t' pl']|] eqn:E; [|discriminate].
      injection H as <- <-. cbn [map snd]. constructor; eauto.
    + destruct ps as [|p0 ps']; [discriminate|].
      destruct (serialize ls ps') as [[t' pl']|] eqn:E; [|discriminate].
      injection H as <- <-. cbn [map snd]. constructor; eauto.
    + destruct (serialize ls ps) as [[t' pl']|] eqn:E; [|discriminate].
      injection H as <- <-. eauto.
Qed.

(** what the far end is told to expect: the entry of a real leaf (also in the table), or a fake id *)
Lemma serialize_entries ls : forall ps t pl,
  serialize ls ps = Some (t, pl) ->
  forall id cb, In (id, cb) (entries pl) ->
  (In (id, cb) t /\ exists l, In l ls /\ l_cb l = cb /\ l_mode l = MReal) \/ In id (fake_ids ls).
Proof.
  induction ls as [|l ls IH]; intros ps t pl; cbn [serialize fake_ids].
  - intros [= <- <-] id cb [].
  - destruct (l_mode l) eqn:M.
    + destruct ps as [|p0 ps']; [discriminate|].
      destruct (serialize ls ps') as [[t' pl']|] eqn:E; [|discriminate].
      intros [= <- <-] id cb. cbn [entries]. intros [H|H].
      * injection H as <- <-. left. split; [now left|]. exists l. split; [now left|auto].
      * destruct (IH _ _ _ E _ _ H) as [[H1 [l' [H2 H3]]]|H1]; [left|now right].
        split; [now right|]. exists l'. split; [now right|exact H3].
    + destruct ps as [|p0 ps']; [discriminate|].
      destruct (serialize ls ps') as [[t' pl']|] eqn:E; [|discriminate].
      intros [= <- <-] id cb. cbn [entries]. intros H.
      destruct (IH _ _ _ E _ _ H) as [[H1 [l' [H2 H3]]]|H1]; [left|now right].
      split; [now right|]. exists l'. split; [now right|exact H3].
    + destruct (serialize ls ps) as [[t' pl']|] eqn:E; [|discriminate].
      intros [= <- <-] id0 cb. cbn [entries]. intros [H|H].
      * injection H as <- <-. right. now left.
      * destruct (IH _ _ _ E _ _ H) as [[H1 [l' [H2 H3]]]|H1]; [left|right; now right].
        split; [exact H1|]. exists l'. split; [now right|exact H3].
Qed.

Lemma serialize_real ls : forall ps t pl,
  serialize ls ps = Some (t, pl) ->
  forall l, In l ls -> l_mode l = MReal -> exists p, In (p, l_cb l) t /\ In (p, l_cb l) (entries pl).
Proof.
  induction ls as [|l0 ls IH]; intros ps t pl; cbn [serialize].
  - intros _ l [].
  - intros H l [<-|Hin] M.
    + rewrite M in H. destruct ps as [|p0 ps']; [discriminate|].
      destruct (serialize ls ps') as [[t' pl']|] eqn:E; [|discriminate].
      injection H as <- <-. exists p0. split; now left.
    + destruct (l_mode l0).
      * destruct ps as [|p0 ps']; [discriminate|].
        destruct (serialize ls ps') as [[t' pl']|] eqn:E; [|discriminate].
        injection H as <- <-. destruct (IH _ _ _ E _ Hin M) as [p [H1 H2]]. exists p. split; now right.
      * destruct ps as [|p0 ps']; [discriminate|].
        destruct (serialize ls ps') as [[t' pl']|] eqn:E; [|discriminate].
        injection H as <- <-. destruct (IH _ _ _ E _ Hin M) as [p [H1 H2]]. exists p. split; [now right|exact H2].
      * destruct (serialize ls ps) as [[t' pl']|] eqn:E; [|discriminate].
        injection H as <- <-. destruct (IH _ _ _ E _ Hin M) as [p [H1 H2]]. exists p. split; [exact H1|now right].
Qed.

Lemma serialize_ignored ls : forall ps t pl,
  serialize ls ps = Some (t, pl) ->
  forall l, In l ls -> l_mode l = MIgnored -> exists p, In (p, l_cb l) t.
Proof.
  induction ls as [|l0 ls IH]; intros ps t pl; cbn [serialize].
  - intros _ l [].
  - intros H l [<-|Hin] M.
    + rewrite M in H. destruct ps as [|p0 ps']; [discriminate|].
      destruct (serialize ls ps') as [[t' pl']|] eqn:E; [|discriminate].
      injection H as <- <-. exists p0. now left.
    + destruct (l_mode l0).
      * destruct ps as [|p0 ps']; [discriminate|].
        destruct (serialize ls ps') as [[t' pl']|] eqn:E; [|discriminate].
        injection H as <- <-. destruct (IH _ _ _ E _ Hin M) as [p H1]. exists p. now right.
      * destruct ps as [|p0 ps']; [discriminate|].
        destruct (serialize ls ps') as [[t' pl']|] eqn:E; [|discriminate].
        injection H as <- <-. destruct (IH _ _ _ E _ Hin M) as [p H1]. exists p. now right.
      * destruct (serialize ls ps) as [[t' pl']|] eqn:E; [|discriminate].
        injection H as <- <-. eauto.
Qed.

Lemma serialize_fakes ls : forall ps t pl,
  serialize ls ps = Some (t, pl) -> forall b, In b (fake_ids ls) -> In b (map fst (entries pl)).
Proof.
  induction ls as [|l0 ls IH]; intros ps t pl; cbn [serialize fake_ids].
  - intros _ b [].
  - destruct (l_mode l0).
    + destruct ps as [|p0 ps']; [discriminate|].
      destruct (serialize ls ps') as [[t' pl']|] eqn:E; [|discriminate].
      intros [= <- <-] b H. cbn [entries map fst]. right. eauto.
    + destruct ps as [|p0 ps']; [discriminate|].
      destruct (serialize ls ps') as [[t' pl']|] eqn:E; [|discriminate].
      intros [= <- <-] b H. cbn [entries]. eauto.
    + destruct (serialize ls ps) as [[t' pl']|] eqn:E; [|discriminate].
      intros [= <- <-] b [H|H]; cbn [entries map fst]; [now left|right; eauto].
Qed.

(** the ids the far end is told to expect are the ports of the real leaves and the fake ids, in order:
    without repetition if ports and fake ids have none *)
Lemma serialize_entry_ids ls : forall ps t pl,
  serialize ls ps = Some (t, pl) -> NoDup (map fst t ++ fake_ids ls) -> NoDup (map fst (entries pl)).
Proof.
  induction ls as [|l0 ls IH]; intros ps t pl; cbn [serialize fake_ids].
  - intros [= <- <-] _. constructor.
  - destruct (l_mode l0).
    + destruct ps as [|p0 ps']; [discriminate|].
      destruct (serialize ls ps') as [[t' pl']|] eqn:E; [|discriminate].
      intros [= <- <-]. cbn [map fst app entries]. intros ND. inversion ND as [|? ? Hn ND']; subst.
      constructor; [|eauto]. intros Hc. apply Hn.
      apply in_map_iff in Hc. destruct Hc as [[id cb] [Hid Hc]]. cbn [fst] in Hid. subst.
      apply in_or_app.
      destruct (serialize_entries _ _ _ _ E _ _ Hc) as [[H1 _]|H1]; [left|now right].
      apply in_map_iff. now exists (p0, cb).
    + destruct ps as [|p0 ps']; [discriminate|].
      destruct (serialize ls ps') as [[t' pl']|] eqn:E; [|discriminate].
      intros [= <- <-]. cbn [map fst app entries]. intros ND. inversion ND; subst. eauto.
    + destruct (serialize ls ps) as [[t' pl']|] eqn:E; [|discriminate].
      intros [= <- <-]. cbn [entries map fst]. intros ND.
      assert (ND' : NoDup (map fst t' ++ fake_ids ls)).
      { apply NoDup_remove_1 in ND. exact ND. }
      constructor; [|eauto]. intros Hc.
      apply NoDup_remove_2 in ND. apply ND.
      apply in_map_iff in Hc. destruct Hc as [[id0 cb] [Hid Hc]]. cbn [fst] in Hid. subst.
      apply in_or_app.
      destruct (serialize_entries _ _ _ _ E _ _ Hc) as [[H1 _]|H1]; [left|now right].
      apply in_map_iff. now exists (id, cb).
Qed.

(** * Deserialization: the [expected] map *)

Lemma deser_spec pl : forall m qs m',
  deser m pl qs = Some m' -> NoDup (map fst (entries pl)) ->
  (forall id cb, In (id, cb) (entries pl) -> exists q, assoc id m' = Some (q, cb)) /\
  (forall id, ~ In id (map fst (entries pl)) -> assoc id m' = assoc id m).
Proof.
  induction pl as [|[[id0 cb0]|] pl IH]; intros m qs m'; cbn [deser entries map fst].
  - intros [= <-] _. split; [intros ? ? []|auto].
  - destruct qs as [|q qs']; [discriminate|]. intros H ND. inversion ND as [|? ? Hn ND']; subst.
    destruct (IH _ _ _ H ND') as [I1 I2]. split.
    + intros id cb [E|Hin].
      * injection E as <- <-. exists q. rewrite (I2 _ Hn). apply assoc_insert_same.
      * auto.
    + intros id Hni. rewrite I2 by (intros Hc; apply Hni; now right).
      apply assoc_insert_other. intros ->. apply Hni. now left.
  - intros H ND. eauto.
Qed.

(** the far end's local ports are distinct *)
Lemma deser_ports pl : forall m qs m',
  deser m pl qs = Some m' -> exists qs1 qs2, qs = qs1 ++ qs2 /\ length qs1 = length (entries pl).
Proof.
  induction pl as [|[[id0 cb0]|] pl IH]; intros m qs m'; cbn [deser entries].
  - intros _. exists [], qs. split; reflexivity.
  - destruct qs as [|q qs']; [discriminate|]. intros H.
    destruct (IH _ _ _ H) as [qs1 [qs2 [-> Hl]]]. exists (q :: qs1), qs2. cbn [app length]. split; congruence.
  - eauto.
Qed.

(** * Matching by id *)

Lemma match_reqs_spec rs : forall m acc rej mf,
  match_reqs m rs = (acc, rej, mf) -> NoDup (map r_id rs) ->
  (forall a, In a acc <-> In (a_req a) rs /\ assoc (r_id (a_req a)) m = Some (a_port a, a_cb a)) /\
  (forall r, In r rej <-> In r rs /\ assoc (r_id r) m = None) /\
  (forall id, In id (map r_id rs) -> assoc id mf = None) /\
  (forall id, ~ In id (map r_id rs) -> assoc id mf = assoc id m).
Proof.
  induction rs as [|r rs IH]; intros m acc rej mf; cbn [match_reqs map].
  - intros [= <- <- <-] _. split; [|split; [|split]].
    + intros a. split; [intros []|intros [[] _]].
    + intros r. split; [intros []|intros [[] _]].
    + intros id [].
    + reflexivity.
  - intros H ND. inversion ND as [|? ? Hn ND']; subst.
    assert (Hother : forall r', In r' rs -> r_id r' <> r_id r).
    { intros r' Hin E. apply Hn. rewrite <- E. now apply in_map. }
    destruct (assoc (r_id r) m) as [[q cb]|] eqn:EA.
    + destruct (match_reqs (remove (r_id r) m) rs) as [[acc' rej'] mf'] eqn:EM.
      injection H as <- <- <-.
      destruct (IH _ _ _ _ EM ND') as [I1 [I2 [I3 I4]]].
      split; [|split; [|split]].
      * intros a. split.
        -- intros [E|Hin].
           ++ subst a. cbn [a_req a_port a_cb]. split; [now left|exact EA].
           ++ apply I1 in Hin. destruct Hin as [H1 H2]. split; [now right|].
              rewrite assoc_remove_other in H2; [exact H2|]. intros E. symmetry in E. now apply (Hother _ H1).
        -- intros [[E|Hin] HA].
           ++ left. destruct a as [ar ap ac]. cbn [a_req a_port a_cb] in *. subst ar. rewrite EA in HA.
              now injection HA as -> ->.
           ++ right. apply I1. split; [exact Hin|]. rewrite assoc_remove_other; [exact HA|].
              intros E. symmetry in E. now apply (Hother _ Hin).
      * intros r0. split.
        -- intros Hin. apply I2 in Hin. destruct Hin as [H1 H2]. split; [now right|].
           rewrite assoc_remove_other in H2; [exact H2|]. intros E. symmetry in E. now apply (Hother _ H1).
        -- intros [[E|Hin] HA].
           ++ subst r0. rewrite EA in HA. discriminate.
           ++ apply I2. split; [exact Hin|]. rewrite assoc_remove_other; [exact HA|].
              intros E. symmetry in E. now apply (Hother _ Hin).
      * intros id [E|Hin].
        -- subst id. destruct (in_dec N.eq_dec (r_id r) (map r_id rs)) as [Hi|Hi]; [auto|].
           rewrite I4 by exact Hi. apply assoc_remove_same.
        -- auto.
      * intros id Hni. rewrite I4 by (intros Hc; apply Hni; now right).
        apply assoc_remove_other. intros E. apply Hni. now left.
    + destruct (match_reqs m rs) as [[acc' rej'] mf'] eqn:EM.
      injection H as <- <- <-.
      destruct (IH _ _ _ _ EM ND') as [I1 [I2 [I3 I4]]].
      split; [|split; [|split]].
      * intros a. split.
        -- intros Hin. apply I1 in Hin. destruct Hin. split; [now right|assumption].
        -- intros [[E|Hin] HA].
           ++ rewrite <- E, EA in HA. discriminate.
           ++ apply I1. now split.
      * intros r0. split.
        -- intros [E|Hin].
           ++ subst r0. split; [now left|exact EA].
           ++ apply I2 in Hin. destruct Hin. split; [now right|assumption].
        -- intros [[E|Hin] HA]; [now left|]. right. apply I2. now split.
      * intros id [E|Hin].
        -- subst id. destruct (in_dec N.eq_dec (r_id r) (map r_id rs)) as [Hi|Hi]; [auto|].
           rewrite I4 by exact Hi. exact EA.
        -- auto.
      * intros id Hni. apply I4. intros Hc. apply Hni. now right.
Qed.

Lemma match_reqs_ids_nodup rs : forall m acc rej mf,
  match_reqs m rs = (acc, rej, mf) -> NoDup (map r_id rs) ->
  NoDup (map (fun a => r_id (a_req a)) acc).
Proof.
  induction rs as [|r rs IH]; intros m acc rej mf; cbn [match_reqs map].
  - intros [= <- <- <-] _. constructor.
  - intros H ND. inversion ND as [|? ? Hn ND']; subst.
    destruct (assoc (r_id r) m) as [[q cb]|] eqn:EA.
    + destruct (match_reqs (remove (r_id r) m) rs) as [[acc' rej'] mf'] eqn:EM.
      injection H as <- <- <-. cbn [map a_req]. constructor; [|eauto].
      intros Hc. apply in_map_iff in Hc. destruct Hc as [a [E Hin]].
      destruct (match_reqs_spec _ _ _ _ _ EM ND') as [I1 _]. apply I1 in Hin. destruct Hin as [Hin _].
      apply Hn. rewrite <- E. now apply in_map.
    + destruct (match_reqs m rs) as [[acc' rej'] mf'] eqn:EM.
      injection H as <- <- <-. eauto.
Qed.

(** * The wiring theorem *)

Lemma nodup_snd_key {A B} (t : list (A * B)) k1 k2 v :
  NoDup (map snd t) -> In (k1, v) t -> In (k2, v) t -> k1 = k2.
Proof.
  induction t as [|[k v'] t IH]; cbn [map snd]; [intros _ []|].
  intros ND H1 H2. inversion ND as [|? ? Hn ND']; subst.
  destruct H1 as [H1|H1], H2 as [H2|H2].
  - congruence.
  - injection H1 as -> ->. exfalso. apply Hn. apply in_map_iff. now exists (k2, v).
  - injection H2 as -> ->. exfalso. apply Hn. apply in_map_iff. now exists (k1, v).
  - eauto.
Qed.

Lemma origin_reqs_ids t : map r_id (origin_reqs t) = map fst t.
Proof. unfold origin_reqs. rewrite map_map. reflexivity. Qed.

Lemma origin_reqs_in t r : In r (origin_reqs t) -> r_id r = r_port r /\ In (r_port r) (map fst t).
Proof.
  unfold origin_reqs. intros H. apply in_map_iff in H. destruct H as [[p cb] [<- H]]. cbn [r_id r_port fst].
  split; [reflexivity|]. apply in_map_iff. now exists (p, cb).
Qed.

Section Wiring.
  Variables (ls : list leaf) (ps : list N) (hops : list (list N * list nat)) (last_sizes : list nat) (qs : list N).
  Variable w : wired.
  Hypothesis Hlabels : NoDup (map l_cb ls).
  Hypothesis Hports : NoDup (ps ++ fake_ids ls).
  Hypothesis Hhops : Forall hop_ok hops.
  Hypothesis Hwire : wire ls ps hops last_sizes qs = WOk w.

  Let t := w_table w.
  Let pr := pairing (w_table w) (w_tabs w) (w_acc w).

  (* unpack [wire] *)
  Lemma wire_inv : exists pl fin m,
    serialize ls ps = Some (t, pl) /\ route (origin_reqs t) hops = Some (fin, w_tabs w) /\
    w_fin w = fin /\ deser [] pl qs = Some m /\ match_reqs m fin = (w_acc w, w_rej w, w_missing w).
  Proof.
    unfold wire in Hwire.
    destruct (serialize ls ps) as [[t0 pl]|] eqn:E1; [|discriminate].
    destruct (route (origin_reqs t0) hops) as [[fin tabs]|] eqn:E2; [|discriminate].
    rewrite concat_chunks in Hwire.
    destruct (deser [] pl qs) as [m|] eqn:E3; [|discriminate].
    destruct (match_reqs m fin) as [[acc rej] mf] eqn:E4.
    injection Hwire as <-. cbn [w_table w_tabs w_fin w_acc w_rej w_missing] in *.
    exists pl, fin, m. subst t. cbn [w_table]. auto.
  Qed.

  Lemma table_ports_nodup pl : serialize ls ps = Some (t, pl) -> NoDup (map fst t ++ fake_ids ls).
  Proof.
    intros E. destruct (serialize_ports _ _ _ _ E) as [ps2 Hps]. rewrite Hps in Hports.
    now apply nodup_app_mid in Hports.
  Qed.

  (** Every pair connects a delivered half with the origin callback of the SAME label ... *)
  Theorem pairing_label_preserving : forall a b, In (a, b) pr -> a = b.
  Proof.
    destruct wire_inv as [pl [fin [m [E1 [E2 [E3 [E4 E5]]]]]]].
    pose proof (table_ports_nodup _ E1) as NDall.
    assert (NDt : NoDup (map fst t)) by (now apply nodup_app_l in NDall).
    pose proof (route_spec _ _ _ _ E2 Hhops) as F.
    assert (NDfin : NoDup (map r_id fin)).
    { rewrite (Forall2_map_eq r_id r_id fin (origin_reqs t)).
      - now rewrite origin_reqs_ids.
      - eapply Forall2_impl_in; [|exact F]. cbn beta. now intros ? ? _ [? _]. }
    destruct (match_reqs_spec _ _ _ _ _ E5 NDfin) as [I1 _].
    pose proof (serialize_entry_ids _ _ _ _ E1 NDall) as NDe.
    destruct (deser_spec _ _ _ _ E4 NDe) as [D1 D2].
    intros a b Hin. unfold pr, pairing in Hin. apply in_flat_map in Hin. destruct Hin as [x [Hx Hp]].
    unfold pair_of in Hp.
    destruct (trace_back (rev (w_tabs w)) (r_port (a_req x))) as [p0|] eqn:ET; [|destruct Hp].
    destruct (assoc p0 (w_table w)) as [cb|] eqn:EA; [|destruct Hp].
    destruct Hp as [Hp|[]]. injection Hp as <- <-.
    apply I1 in Hx. destruct Hx as [Hfin Hm].
    destruct (Forall2_in_l _ _ _ _ F Hfin) as [r0 [Hr0 [Hid Htr]]].
    rewrite ET in Htr. injection Htr as ->.
    destruct (origin_reqs_in _ _ Hr0) as [Hidp _].
    (* the id of the accepted request is the origin port *)
    assert (Hkey : r_id (a_req x) = r_port r0) by congruence.
    rewrite Hkey in Hm.
    apply assoc_in in EA.
    (* where does the expected entry for this id come from? *)
    destruct (in_dec N.eq_dec (r_port r0) (map fst (entries pl))) as [Hi|Hi].
    - apply in_map_iff in Hi. destruct Hi as [[id cb'] [Hid' Hi]]. cbn [fst] in Hid'. subst id.
      destruct (D1 _ _ Hi) as [q Hq]. rewrite Hq in Hm. injection Hm as _ <-.
      destruct (serialize_entries _ _ _ _ E1 _ _ Hi) as [[H1 _]|H1].
      + pose proof (in_assoc_nodup _ _ _ NDt H1) as A1. pose proof (in_assoc_nodup _ _ _ NDt EA) as A2. congruence.
      + exfalso. apply (nodup_app_disj _ _ (r_port r0) NDall); [|exact H1].
        apply in_map_iff. now exists (r_port r0, cb).
    - rewrite (D2 _ Hi) in Hm. discriminate.
  Qed.

  (** ... the pairing is a partial injective function in both directions ... *)
  Theorem pairing_injective : NoDup (map fst pr) /\ NoDup (map snd pr).
  Proof.
    assert (Hsame : map snd pr = map fst pr).
    { pose proof pairing_label_preserving as H. revert H. generalize pr. intros l H.
      induction l as [|[a b] l IH]; [reflexivity|]. cbn [map fst snd]. f_equal.
      - symmetry. apply H. now left.
      - apply IH. intros ? ? Hin. apply H. now right. }
    rewrite Hsame. assert (ND : NoDup (map fst pr)); [|split; exact ND].
    destruct wire_inv as [pl [fin [m [E1 [E2 [E3 [E4 E5]]]]]]].
    pose proof (table_ports_nodup _ E1) as NDall.
    assert (NDt : NoDup (map fst t)) by (now apply nodup_app_l in NDall).
    pose proof (serialize_labels_nodup _ _ _ _ E1 Hlabels) as NDl.
    pose proof (route_spec _ _ _ _ E2 Hhops) as F.
    assert (NDfin : NoDup (map r_id fin)).
    { rewrite (Forall2_map_eq r_id r_id fin (origin_reqs t)).
      - now rewrite origin_reqs_ids.
      - eapply Forall2_impl_in; [|exact F]. cbn beta. now intros ? ? _ [? _]. }
    pose proof (match_reqs_ids_nodup _ _ _ _ _ E5 NDfin) as NDa.
    destruct (match_reqs_spec _ _ _ _ _ E5 NDfin) as [I1 _].
    (* each accepted entry contributes at most the label found in the table under its id *)
    assert (Hpo : forall x, In x (w_acc w) ->
              pair_of (w_table w) (w_tabs w) x =
              match assoc (r_id (a_req x)) (w_table w) with Some cb => [(cb, a_cb x)] | None => [] end).
    { intros x Hx. apply I1 in Hx. destruct Hx as [Hfin _].
      destruct (Forall2_in_l _ _ _ _ F Hfin) as [r0 [Hr0 [Hid Htr]]].
      destruct (origin_reqs_in _ _ Hr0) as [Hidp _].
      unfold pair_of. rewrite Htr. now replace (r_port r0) with (r_id (a_req x)) by congruence. }
    unfold pr, pairing. revert NDa Hpo. generalize (w_acc w). intros acc NDa Hpo.
    induction acc as [|x acc IH]; [constructor|].
    cbn [flat_map map] in *. rewrite map_app. inversion NDa as [|? ? Hn NDa']; subst.
    assert (IH' : NoDup (map fst (flat_map (pair_of (w_table w) (w_tabs w)) acc))).
    { apply IH; [exact NDa'|]. intros y Hy. apply Hpo. now right. }
    rewrite (Hpo x (or_introl eq_refl)).
    destruct (assoc (r_id (a_req x)) (w_table w)) as [cb|] eqn:EA; [|exact IH'].
    cbn [map fst app]. constructor; [|exact IH'].
    intros Hc. apply in_map_iff in Hc. destruct Hc as [[a b] [Ea Hc]]. cbn [fst] in Ea. subst a.
    apply in_flat_map in Hc. destruct Hc as [y [Hy Hc]].
    rewrite (Hpo y (or_intror Hy)) in Hc.
    destruct (assoc (r_id (a_req y)) (w_table w)) as [cb'|] eqn:EA'; [|destruct Hc].
    destruct Hc as [Hc|[]]. injection Hc as -> _.
    apply assoc_in in EA. apply assoc_in in EA'.
    pose proof (nodup_snd_key _ _ _ _ NDl EA EA') as Hk.
    apply Hn. rewrite Hk. apply in_map_iff. now exists y.
  Qed.

  (** ... every half that travelled normally is connected (to its own counterpart) ... *)
  Theorem pairing_complete : forall l, In l ls -> l_mode l = MReal -> In (l_cb l, l_cb l) pr.
  Proof.
    destruct wire_inv as [pl [fin [m [E1 [E2 [E3 [E4 E5]]]]]]].
    pose proof (table_ports_nodup _ E1) as NDall.
    assert (NDt : NoDup (map fst t)) by (now apply nodup_app_l in NDall).
    pose proof (route_spec _ _ _ _ E2 Hhops) as F.
    assert (NDfin : NoDup (map r_id fin)).
    { rewrite (Forall2_map_eq r_id r_id fin (origin_reqs t)).
      - now rewrite origin_reqs_ids.
      - eapply Forall2_impl_in; [|exact F]. cbn beta. now intros ? ? _ [? _]. }
    destruct (match_reqs_spec _ _ _ _ _ E5 NDfin) as [I1 _].
    pose proof (serialize_entry_ids _ _ _ _ E1 NDall) as NDe.
    destruct (deser_spec _ _ _ _ E4 NDe) as [D1 D2].
    intros l Hl M.
    destruct (serialize_real _ _ _ _ E1 _ Hl M) as [p [Ht He]].
    destruct (D1 _ _ He) as [q Hq].
    assert (Hr0 : In (mkReq p p) (origin_reqs t)).
    { unfold origin_reqs. apply in_map_iff. now exists (p, l_cb l). }
    destruct (Forall2_in_r _ _ _ _ F Hr0) as [f [Hf [Hid Htr]]]. cbn [r_id r_port] in *.
    unfold pr, pairing. apply in_flat_map. exists (mkAcc f q (l_cb l)). split.
    - apply I1. cbn [a_req a_port a_cb]. split; [exact Hf|]. now rewrite Hid.
    - unfold pair_of. cbn [a_req a_cb]. rewrite Htr. fold t. rewrite (in_assoc_nodup _ _ _ NDt Ht). now left.
  Qed.

  (** ... the request of a half the far end ignores is superfluous: it is dropped, i.e. rejected ... *)
  Theorem ignored_rejected : forall l, In l ls -> l_mode l = MIgnored ->
    exists p f, In (p, l_cb l) t /\ In f (w_rej w) /\ r_id f = p /\ trace_back (rev (w_tabs w)) (r_port f) = Some p.
  Proof.
    destruct wire_inv as [pl [fin [m [E1 [E2 [E3 [E4 E5]]]]]]].
    pose proof (table_ports_nodup _ E1) as NDall.
    assert (NDt : NoDup (map fst t)) by (now apply nodup_app_l in NDall).
    pose proof (route_spec _ _ _ _ E2 Hhops) as F.
    assert (NDfin : NoDup (map r_id fin)).
    { rewrite (Forall2_map_eq r_id r_id fin (origin_reqs t)).
      - now rewrite origin_reqs_ids.
      - eapply Forall2_impl_in; [|exact F]. cbn beta. now intros ? ? _ [? _]. }
    destruct (match_reqs_spec _ _ _ _ _ E5 NDfin) as [_ [I2 _]].
    pose proof (serialize_entry_ids _ _ _ _ E1 NDall) as NDe.
    destruct (deser_spec _ _ _ _ E4 NDe) as [D1 D2].
    intros l Hl M.
    destruct (serialize_ignored _ _ _ _ E1 _ Hl M) as [p Ht].
    assert (Hr0 : In (mkReq p p) (origin_reqs t)).
    { unfold origin_reqs. apply in_map_iff. now exists (p, l_cb l). }
    destruct (Forall2_in_r _ _ _ _ F Hr0) as [f [Hf [Hid Htr]]]. cbn [r_id r_port] in *.
    exists p, f. repeat split; auto.
    apply I2. split; [exact Hf|]. rewrite Hid.
    (* no expected entry under this port: such an entry would belong to a real leaf with the same label *)
    destruct (in_dec N.eq_dec p (map fst (entries pl))) as [Hi|Hi]; [|now rewrite (D2 _ Hi)].
    exfalso. apply in_map_iff in Hi. destruct Hi as [[id cb'] [Hid' Hi]]. cbn [fst] in Hid'. subst id.
    destruct (serialize_entries _ _ _ _ E1 _ _ Hi) as [[H1 [l' [Hl' [Hcb M']]]]|H1].
    - pose proof (in_assoc_nodup _ _ _ NDt H1) as A1. pose proof (in_assoc_nodup _ _ _ NDt Ht) as A2.
      assert (Hsame : l_cb l' = l_cb l) by congruence.
      (* distinct labels: l' = l *)
      clear - Hlabels Hl Hl' Hsame M M'.
      induction ls as [|x xs IH]; [destruct Hl|]. cbn [map] in Hlabels. inversion Hlabels as [|? ? Hn ND]; subst.
      destruct Hl as [->|Hl], Hl' as [->|Hl'].
      + congruence.
      + apply Hn. rewrite <- Hsame. now apply in_map.
      + apply Hn. rewrite Hsame. now apply in_map.
      + auto.
    - apply (nodup_app_disj _ _ p NDall); [|exact H1]. apply in_map_iff. now exists (p, l_cb l).
  Qed.

  (** ... and the ports reported missing are exactly the ids named without a request. *)
  Theorem missing_are_fakes : forall b, In b (fake_ids ls) <-> assoc b (w_missing w) <> None.
  Proof.
    destruct wire_inv as [pl [fin [m [E1 [E2 [E3 [E4 E5]]]]]]].
    pose proof (table_ports_nodup _ E1) as NDall.
    assert (NDt : NoDup (map fst t)) by (now apply nodup_app_l in NDall).
    pose proof (route_spec _ _ _ _ E2 Hhops) as F.
    assert (Hids : map r_id fin = map fst t).
    { rewrite (Forall2_map_eq r_id r_id fin (origin_reqs t)).
      - now rewrite origin_reqs_ids.
      - eapply Forall2_impl_in; [|exact F]. cbn beta. now intros ? ? _ [? _]. }
    assert (NDfin : NoDup (map r_id fin)) by now rewrite Hids.
    destruct (match_reqs_spec _ _ _ _ _ E5 NDfin) as [_ [_ [I3 I4]]].
    pose proof (serialize_entry_ids _ _ _ _ E1 NDall) as NDe.
    destruct (deser_spec _ _ _ _ E4 NDe) as [D1 D2].
    assert (Hdisj : forall b, In b (fake_ids ls) -> ~ In b (map fst t)).
    { intros b Hb Hin. exact (nodup_app_disj _ _ b NDall Hin Hb). }
    intros b. split.
    - intros Hb. rewrite I4 by (rewrite Hids; now apply Hdisj).
      pose proof (serialize_fakes _ _ _ _ E1 _ Hb) as Hi.
      apply in_map_iff in Hi. destruct Hi as [[id cb] [Hid Hi]]. cbn [fst] in Hid. subst id.
      destruct (D1 _ _ Hi) as [q ->]. discriminate.
    - intros Hne.
      destruct (in_dec N.eq_dec b (map r_id fin)) as [Hi|Hi]; [now rewrite (I3 _ Hi) in Hne|].
      rewrite (I4 _ Hi) in Hne.
      destruct (in_dec N.eq_dec b (map fst (entries pl))) as [He|He]; [|now rewrite (D2 _ He) in Hne].
      apply in_map_iff in He. destruct He as [[id cb] [Hid He]]. cbn [fst] in Hid. subst id.
      destruct (serialize_entries _ _ _ _ E1 _ _ He) as [[H1 _]|H1]; [|exact H1].
      exfalso. apply Hi. rewrite Hids. apply in_map_iff. now exists (b, cb).
  Qed.
End Wiring.
