(** Typed item layer: transcription of [rch::base::Sender::send] ([remoc/src/rch/base/sender.rs]) and
    [rch::base::Receiver::recv] ([remoc/src/rch/base/receiver.rs]) on top of the chmux port model
    ([Chmux/Parse.v]: frames; [Chmux/Recv.v]: [handle_any] / [handle_chunk], the loop bodies of
    [recv_any] / [recv_chunk]).

    The codec is abstract: a value IS its encoding (exact round trip assumed), [decode] says whether a
    byte string is a complete, acceptable encoding, and [ports_of] which channel halves the decoded
    value carries.  A [Serialize] implementation may fail after a chosen number of bytes. *)
From Remoc Require Import Lib.Base Gen.Consts Chmux.Parse Chmux.Recv.

(** * Items and the sender *)

Record item := mk_item {
  ibytes : list N;          (** the encoding *)
  iports : list N;          (** channel halves: the port ids collected by [PortSerializer] *)
  ser_fail : option N       (** [Serialize] fails after this many bytes *)
}.

Record scfg := mk_scfg {
  s_md : N;                 (** [chmux::Sender::max_data_size]: the sending endpoint's own [Cfg::max_data_size] *)
  s_chunk : N;              (** [chmux::Sender::chunk_size]: chunk size advertised by the receiving endpoint *)
  s_max : N                 (** [max_item_size] of the base sender *)
}.

(** What a send attempt handed to the chmux sender.  [ADataCut]/[APortsCut]: an unfinished message
    (dropped [ChunkSender], cancelled [send]/[connect]); the argument is what had been handed over. *)
Inductive catt :=
| ADataOk (streamed : bool) (b : list N)
| ADataCut (b : list N)
| APortsOk (ps : list N)
| APortsCut (ps : list N).

Inductive sres := SOk | SErrSer | SErrMax | SCancelled.

Definition BD_LIMIT : Z := Z.of_N BIG_DATA_LIMIT.

(** bytes the serializer writes before it stops, and whether it fails *)
Definition ser_written (it : item) : N :=
  match ser_fail it with
  | Some j => N.min j (len (ibytes it))
  | None => len (ibytes it)
  end.
Definition ser_fails (it : item) : bool := match ser_fail it with Some _ => true | None => false end.

(** flow-control budget: [None] = never blocks; [Some c]: [c] credits are available and none will be
    returned while the send is pending, so a send that needs more stays pending and is dropped by its
    caller (this is also how a cancellation at an arbitrary point is expressed: any budget). *)
Definition has (budget : option N) (n : N) : bool :=
  match budget with None => true | Some c => n <=? c end.
Definition spend (budget : option N) (n : N) : option N :=
  match budget with None => None | Some c => Some (c - n) end.
Definition avail (budget : option N) (n : N) : N :=
  match budget with None => n | Some c => N.min c n end.

(** the port batch ([Sender::connect]): 4 credits per port *)
Definition send_ports (budget : option N) (ps : list N) : option N * list catt * sres :=
  match ps with
  | [] => (budget, [], SOk)
  | _ =>
      if has budget (4 * len ps) then (spend budget (4 * len ps), [APortsOk ps], SOk)
      else
        let k := avail budget (4 * len ps) / 4 in
        (spend budget (4 * k), [APortsCut (firstn (N.to_nat k) ps)], SCancelled)
  end.

Definition bd_dec (bd : Z) : Z := Z.max (bd - 1) (- BD_LIMIT).
Definition bd_inc (bd : Z) : Z := Z.min (bd + 1) BD_LIMIT.

Inductive buffered := BufOk | BufOverflow | BufErr.

(** [serialize_buffered]: the [LimitedBytesWriter] overflows iff more than [limit] bytes are written *)
Definition serialize_buffered (limit : N) (it : item) : buffered :=
  if limit <? ser_written it then BufOverflow
  else if ser_fails it then BufErr else BufOk.

(** [Sender::send].  Returns the heuristic counter, the remaining budget, what was handed to chmux,
    and the result reported to the caller. *)
Definition base_send (c : scfg) (bd : Z) (budget : option N) (it : item) : Z * option N * list catt * sres :=
  let b := ibytes it in
  let '(bd1, buffered_data) :=
    if (bd <=? 0)%Z then
      match serialize_buffered (s_md c) it with
      | BufOk => (bd_dec bd, Some (Some b))
      | BufOverflow => (bd_inc bd, Some None)
      | BufErr => (bd, None)
      end
    else (bd, Some None) in
  match buffered_data with
  | None => (bd1, budget, [], SErrSer)
  | Some (Some data) =>
      if s_max c <? len data then (bd1, budget, [], SErrMax)
      else
        let cost := N.max 1 (len data) in
        if has budget cost then
          let '(bu, ps, r) := send_ports (spend budget cost) (iports it) in
          (bd1, bu, ADataOk false data :: ps, r)
        else
          let k := avail budget cost in
          (bd1, spend budget k, [ADataCut (firstn (N.to_nat k) data)], SCancelled)
  | Some None =>
      (* streamed: the serializer thread writes through a [BufWriter] of [chunk_size] bytes into a
         queue; the send task forwards the chunks, checking the running total *)
      let w := ser_written it in
      let passing := if s_max c <? w then (s_max c / s_chunk c) * s_chunk c else w in
      if negb (has budget passing) then
        let k := avail budget passing in
        (bd1, spend budget k, [ADataCut (firstn (N.to_nat k) b)], SCancelled)
      else
        let bu := spend budget passing in
        let handed := firstn (N.to_nat passing) b in
        if s_max c <? w then (bd1, bu, [ADataCut handed], SErrMax)
        else if ser_fails it then (bd1, bu, [ADataCut handed], SErrSer)
        else if negb (has bu 1) then (bd1, bu, [ADataCut handed], SCancelled)     (* [finish] pending *)
        else
          let bd2 := if len b <=? s_md c then bd_dec bd1 else bd1 in
          let '(bu2, ps, r) := send_ports (spend bu 1) (iports it) in
          (bd2, bu2, ADataOk true b :: ps, r)
  end.

(** the canonical framing of an attempt: chunks of [ck] bytes; a streamed message ends with the
    empty frame of [ChunkSender::finish] *)
Fixpoint chunks_fuel (fuel : nat) (ck : N) (b : list N) : list (list N) :=
  match fuel with
  | O => []
  | S fuel' =>
      match b with
      | [] => []
      | _ => firstn (N.to_nat ck) b :: chunks_fuel fuel' ck (skipn (N.to_nat ck) b)
      end
  end.
Definition chunks (ck : N) (b : list N) : list (list N) := chunks_fuel (length b) (N.max 1 ck) b.

Fixpoint data_frames (first : bool) (fin : bool) (cs : list (list N)) : list frame :=
  match cs with
  | [] => []
  | [c] => [FData first fin c]
  | c :: r => FData first false c :: data_frames false fin r
  end.

Definition port_batches (ck : N) (ps : list N) : list (list N) := chunks (N.max 1 (ck / 4)) ps.

Fixpoint port_frames (first : bool) (fin : bool) (cs : list (list N)) : list frame :=
  match cs with
  | [] => []
  | [c] => [FPorts first fin c]
  | c :: r => FPorts first false c :: port_frames false fin r
  end.

Definition att_frames (ck : N) (a : catt) : list frame :=
  match a with
  | ADataOk false b => match b with [] => [FData true true []] | _ => data_frames true true (chunks ck b) end
  | ADataOk true b =>
      match b with
      | [] => [FData true true []]
      | _ => data_frames true false (chunks ck b) ++ [FData false true []]
      end
  | ADataCut b => data_frames true false (chunks ck b)
  | APortsOk ps => port_frames true true (port_batches ck ps)
  | APortsCut ps => port_frames true false (port_batches ck ps)
  end.

(** * The receiver *)

Inductive dres := DOk | DErr | DIncomplete.

Section Codec.
  (** [decode b]: [DOk] -- [b] starts with a complete acceptable encoding (the deserializer returns a
      value without asking for more); [DErr] -- deserialization fails; [DIncomplete] -- the
      deserializer needs more bytes (an error if the data has ended). *)
  Variable decode : list N -> dres.
  Variable ports_of : list N -> list N.

  Inductive bmode :=
  | BIdle                                  (** nothing in progress ([recved], [data], [item] empty) *)
  | BStream (total : N) (acc : list N)     (** [DataSource::Streamed]: chunks fed to the deserializer so far *)
  | BDrain (acc : list N)                  (** [DataSource::Streamed] whose deserializer has ended (it got [acc]):
                                               the feed loop skips to the end of the message *)
  | BPorts (b : list N) (expected : list N).  (** [item] is set, [port_deser.expected] non-empty *)

  Record bstate := mk_bstate {
    bm : bmode;
    br : rstate;               (** the chmux receiver *)
    b_max : N;                 (** [max_item_size] *)
    b_dflt_ports : N           (** [default_max_ports] *)
  }.

  Definition binit (md mp rmax : N) : bstate :=
    {| bm := BIdle; br := rinit md mp; b_max := rmax; b_dflt_ports := mp |}.

  Inductive bres :=
  | ROk (b : list N)         (** [Ok(Some(item))] *)
  | RErrSize                 (** [Err(MaxItemSizeExceeded)] *)
  | RErrDeser                (** [Err(Deserialize)] *)
  | RErrMissing              (** [Err(MissingPorts)] *)
  | RErrPorts                (** [Err(Receive(ExceedsMaxPortCount))] *)
  | REnd.                    (** [Ok(None)] *)

  Definition set_mode (s : bstate) (m : bmode) (r : rstate) : bstate :=
    {| bm := m; br := r; b_max := b_max s; b_dflt_ports := b_dflt_ports s |}.

  Definition set_max_ports (r : rstate) (n : N) : rstate :=
    {| rcving := rcving r; finished := finished r; restarted := restarted r; max_data := max_data r; max_ports := n |}.

  (** the deserialized item: deliver it, or wait for its ports *)
  Definition have_item (s : bstate) (r : rstate) (b : list N) : bstate * list bres :=
    match ports_of b with
    | [] => (set_mode s BIdle r, [ROk b])
    | ex => (set_mode s (BPorts b ex) (set_max_ports r (len ex + b_dflt_ports s)), [])
    end.

  (** the data of an item is complete *)
  Definition decode_done (s : bstate) (r : rstate) (b : list N) : bstate * list bres :=
    match decode b with
    | DOk => have_item s r b
    | _ => (set_mode s BIdle r, [RErrDeser])
    end.

  (** [Received::Data]: size check, then deserialization from the buffer *)
  Definition on_data (s : bstate) (r : rstate) (d : list N) : bstate * list bres :=
    if b_max s <? len d then (set_mode s BIdle r, [RErrSize])
    else decode_done s r d.

  (** feeding the chunks that [recv_chunk] hands out without touching the queue *)
  Fixpoint stream_q (s : bstate) (r : rstate) (total : N) (acc : list N) (q : list (list N)) (completed : bool)
    : bstate * list bres :=
    match q with
    | c :: q' =>
        let total' := total + len c in
        if b_max s <? total' then
          (* [FeedError::MaxItemSizeExceeded]: [data] is reset; the chmux receiver keeps its state *)
          (set_mode s BIdle (set_rcving r (RChunks q' completed)), [RErrSize])
        else stream_q s r total' (acc ++ c) q' completed
    | [] =>
        if completed then decode_done s (set_rcving r RNothing) acc
        else (set_mode s (BStream total acc) (set_rcving r (RChunks [] false)), [])
    end.

  (** what [recv_any] returned while no item is in progress *)
  Definition on_any (s : bstate) (r : rstate) (o : option rout) : bstate * list bres :=
    match o with
    | Some (OData d) => on_data s r d
    | Some OChunks =>
        match rcving r with
        | RChunks q completed => stream_q s r 0 [] q completed
        | _ => (set_mode s BIdle r, [])
        end
    | Some (OReq _) => (set_mode s BIdle r, [])            (* [continue 'restart] *)
    | Some OErrPorts => (set_mode s BIdle r, [RErrPorts])
    | Some OEnd => (set_mode s BIdle r, [REnd])
    | _ => (set_mode s BIdle r, [])
    end.

  Definition remove_ports (expected ps : list N) : list N :=
    filter (fun e => negb (existsb (N.eqb e) ps)) expected.

  (** [recv_chunk] reported [Cancelled]: [data] is reset and [recv_any] runs, which first looks at the
      restarted message *)
  Definition on_cancel (s : bstate) (r' : rstate) : bstate * list bres :=
    match restarted r' with
    | Some (b, last) =>
        let '(r2, o2) := handle_any (set_restarted r' None) (FData true last b) in
        match o2 with
        | None => (set_mode s BIdle r2, [])
        | _ => on_any s r2 o2
        end
    | None =>
        if finished r' then (set_mode s BIdle r', [REnd]) else (set_mode s BIdle r', [])
    end.

  (** what the receiver obtains by the time the given frame has been taken from the port queue *)
  Definition bfeed (s : bstate) (f : frame) : bstate * list bres :=
    if finished (br s) then (s, [])
    else
    match bm s with
    | BIdle =>
        let '(r', o) := handle_any (br s) f in
        match o with
        | None => (set_mode s BIdle r', [])
        | _ => on_any s r' o
        end
    | BPorts b expected =>
        let '(r', o) := handle_any (br s) f in
        match o with
        | None => (set_mode s (BPorts b expected) r', [])
        | Some (OReq ps) =>
            match remove_ports expected ps with
            | [] => (set_mode s BIdle r', [ROk b])
            | ex' => (set_mode s (BPorts b ex') (set_max_ports r' (len ex' + b_dflt_ports s)), [RErrMissing])
            end
        | Some OErrPorts => (set_mode s (BPorts b expected) r', [RErrPorts])
        | _ => on_any s r' o      (* the send was aborted; this is the next one: restart with it *)
        end
    | BStream total acc =>
        let '(r', o) := handle_chunk (br s) f in
        match o with
        | Some (OChunk c) =>
            match rcving r' with
            | RChunks _ completed => stream_q s r' total acc [c] completed
            | _ => (set_mode s BIdle r', [])
            end
        | Some OCancelled => on_cancel s r'
        | Some OEnd => (set_mode s BIdle r', [REnd])
        | _ => (set_mode s (BStream total acc) r', [])
        end
    | BDrain acc =>
        (* [tx.reserve()] failed: the chunks are taken and dropped until the message ends; only then
           does the deserializer's result count *)
        let '(r', o) := handle_chunk (br s) f in
        match o with
        | Some (OChunk _) =>
            match rcving r' with
            | RChunks _ true => decode_done s (set_rcving r' RNothing) acc
            | _ => (set_mode s (BDrain acc) r', [])
            end
        | Some OCancelled => on_cancel s r'
        | Some OEnd => (set_mode s BIdle r', [REnd])
        | _ => (set_mode s (BDrain acc) r', [])
        end
    end.

  Fixpoint bfeed_all (s : bstate) (fs : list frame) : bstate * list bres :=
    match fs with
    | [] => (s, [])
    | f :: fs' =>
        let '(s1, o1) := bfeed s f in
        let '(s2, o2) := bfeed_all s1 fs' in
        (s2, o1 ++ o2)
    end.

  (** The feed loop notices that the deserializer thread has ended (it returns as soon as it has read a
      complete value, or failed): [tx.reserve()] fails.  This happens when a [recv] future that was
      dropped while pending is polled again, or within one call when the thread is quick.  The loop then
      skips to the end of the message ([BDrain]); the result is taken only if the message is completed. *)
  Definition reenter (s : bstate) : bstate * list bres :=
    match bm s with
    | BStream total acc =>
        match decode acc with
        | DIncomplete => (s, [])
        | _ => (set_mode s (BDrain acc) (br s), [])
        end
    | _ => (s, [])
    end.

  (** ** schedules: frames taken from the port queue, interleaved with dropped-and-repeated [recv] calls *)
  Inductive ract := RFrame (f : frame) | RReenter.

  Definition bstep (s : bstate) (a : ract) : bstate * list bres :=
    match a with RFrame f => bfeed s f | RReenter => reenter s end.

  Fixpoint brun (s : bstate) (acts : list ract) : bstate * list bres :=
    match acts with
    | [] => (s, [])
    | a :: r =>
        let '(s1, o1) := bstep s a in
        let '(s2, o2) := brun s1 r in
        (s2, o1 ++ o2)
    end.

  Definition frames_of (acts : list ract) : list frame :=
    flat_map (fun a => match a with RFrame f => [f] | RReenter => [] end) acts.

  (** * Specification: what a sequence of send attempts means for the receiver *)

  (** what one [send] left on the port *)
  Inductive itrace :=
  | TNothing                                   (** failed before anything was handed over *)
  | TCut (p : list N)                          (** unfinished data message: these bytes were handed over *)
  | TDone (b : list N)                         (** data complete, and the port batch if the value has ports *)
  | TPortsCut (b : list N) (ps : list N).      (** data complete, port batch unfinished *)

  Definition trace_atts (t : itrace) : list catt :=
    match t with
    | TNothing => []
    | TCut p => [ADataCut p]
    | TDone b => match ports_of b with [] => [ADataOk false b] | ps => [ADataOk false b; APortsOk ps] end
    | TPortsCut b ps => [ADataOk false b; APortsCut ps]
    end.

  (** every way the chmux sender may cut an attempt into frames (credit grants decide) *)
  Definition framed1 (a : catt) (fs : list frame) : Prop :=
    match a with
    | ADataOk _ b => exists cs, cs <> [] /\ concat cs = b /\ fs = data_frames true true cs
    | ADataCut b => exists cs, concat cs = b /\ fs = data_frames true false cs
    | APortsOk ps => exists cs, cs <> [] /\ concat cs = ps /\ fs = port_frames true true cs
    | APortsCut ps => exists cs, concat cs = ps /\ fs = port_frames true false cs
    end.

  Inductive Framed : list catt -> list frame -> Prop :=
  | Framed_nil : Framed [] []
  | Framed_cons a r fa fr : framed1 a fa -> Framed r fr -> Framed (a :: r) (fa ++ fr).

  Definition deliver (b : list N) : list bres :=
    match decode b with DOk => [ROk b] | _ => [RErrDeser] end.

  (** the receiver's results for one send, by limits [md] ([max_data_size]) and [rmax] ([max_item_size]) *)
  Definition tspec (md rmax : N) (t : itrace) : list bres :=
    match t with
    | TNothing => []
    | TCut p => if (md <? len p) && (rmax <? len p) then [RErrSize] else []
    | TDone b => if rmax <? len b then [RErrSize] else deliver b
    | TPortsCut b _ =>
        if rmax <? len b then [RErrSize] else match decode b with DOk => [] | _ => [RErrDeser] end
    end.

  (** what a list of chmux attempts made by one [send] means *)
  Definition atts_trace (atts : list catt) : itrace :=
    match atts with
    | [ADataCut p] => TCut p
    | [ADataOk _ b] => TDone b
    | [ADataOk _ b; APortsOk _] => TDone b
    | [ADataOk _ b; APortsCut ps] => TPortsCut b ps
    | _ => TNothing
    end.

  (** a sequence of sends: each item with the flow-control budget available to it (any cancellation
      point is some budget) *)
  Fixpoint send_all (c : scfg) (bd : Z) (l : list (item * option N)) : list (item * list catt * sres) :=
    match l with
    | [] => []
    | (it, bu) :: r =>
        let '(bd', _, atts, res) := base_send c bd bu it in
        (it, atts, res) :: send_all c bd' r
    end.

  Definition is_ok (r : bres) : bool := match r with ROk _ => true | _ => false end.
  Definition oks (l : list bres) : list (list N) := flat_map (fun r => match r with ROk b => [b] | _ => [] end) l.

  (** the receiver can accept the value *)
  Definition acceptable (rmax : N) (b : list N) : bool :=
    (len b <=? rmax) && match decode b with DOk => true | _ => false end.
End Codec.
