(** Proofs about the broadcast model: invariant over all action lists, stream well-formedness,
    keep-up completeness, non-blocking/frame property of [Send], soundness of the big steps. *)
From Coq Require Import Sorted.
From Remoc Require Import Lib.Base Rch.Broadcast.

(** ** streams *)
Lemma end_state_app l1 : forall e b l2,
  end_state e b (l1 ++ l2) = end_state (fst (end_state e b l1)) (snd (end_state e b l1)) l2.
Proof. induction l1 as [|[i|] l1 IH]; intros e b l2; cbn [app end_state fst snd]; auto. Qed.

Lemma wf_app l1 : forall e b l2,
  wf_stream e b (l1 ++ l2) <->
  wf_stream e b l1 /\ wf_stream (fst (end_state e b l1)) (snd (end_state e b l1)) l2.
Proof.
  induction l1 as [|x l1 IH]; intros e b l2; cbn [app end_state fst snd].
  - split; [intros H; split; [constructor|exact H] | intros [_ H]; exact H].
  - split.
    + intros H.
      inversion H as [|e' l' Hl|e' j' l' Hj Hl|e' b' l' Hl]; subst; cbn [end_state];
        apply IH in Hl; destruct Hl as [Ha Hb]; (split; [|exact Hb]).
      * now apply wf_next.
      * now apply wf_gap.
      * now apply wf_lag.
    + intros [H1 H2].
      inversion H1 as [|e' l' Hl|e' j' l' Hj Hl|e' b' l' Hl]; subst; cbn [end_state] in H2.
      * apply wf_next. apply IH. now split.
      * apply wf_gap; [assumption|]. apply IH. now split.
      * apply wf_lag. apply IH. now split.
Qed.

Lemma wf_prefix e b l1 l2 : wf_stream e b (l1 ++ l2) -> wf_stream e b l1.
Proof. intros H. now apply wf_app in H. Qed.

Lemma wf_snoc_value e0 b0 l n :
  wf_stream e0 b0 l ->
  (if snd (end_state e0 b0 l) then fst (end_state e0 b0 l) <= n else fst (end_state e0 b0 l) = n) ->
  wf_stream e0 b0 (l ++ [Value n]).
Proof.
  intros Hw Hc. apply wf_app. split; [exact Hw|].
  destruct (end_state e0 b0 l) as [e b]. cbn [fst snd] in *. destruct b.
  - apply wf_gap; [exact Hc|constructor].
  - subst. apply wf_next. constructor.
Qed.

Lemma wf_snoc_lag e0 b0 l : wf_stream e0 b0 l -> wf_stream e0 b0 (l ++ [Lagged]).
Proof. intros Hw. apply wf_app. split; [exact Hw|]. apply wf_lag. constructor. Qed.

Lemma end_state_snoc_value e0 b0 l n : end_state e0 b0 (l ++ [Value n]) = (n + 1, false).
Proof. rewrite end_state_app. reflexivity. Qed.

Lemma end_state_snoc_lag e0 b0 l :
  end_state e0 b0 (l ++ [Lagged]) = (fst (end_state e0 b0 l) + 1, true).
Proof. rewrite end_state_app. reflexivity. Qed.

(** values of a well-formed stream: all at least [e], strictly increasing *)
Lemma wf_sorted e b l :
  wf_stream e b l -> Forall (fun i => e <= i) (values l) /\ StronglySorted N.lt (values l).
Proof.
  induction 1 as [e b|e l H [IH1 IH2]|e j l Hj H [IH1 IH2]|e b l H [IH1 IH2]].
  - split; constructor.
  - change (values (Value e :: l)) with (e :: values l). split.
    + constructor; [lia|]. eapply Forall_impl; [|exact IH1]. cbn beta. intros; lia.
    + constructor; [exact IH2|]. eapply Forall_impl; [|exact IH1]. cbn beta. intros; lia.
  - change (values (Value j :: l)) with (j :: values l). split.
    + constructor; [lia|]. eapply Forall_impl; [|exact IH1]. cbn beta. intros; lia.
    + constructor; [exact IH2|]. eapply Forall_impl; [|exact IH1]. cbn beta. intros; lia.
  - change (values (Lagged :: l)) with (values l). split; [|exact IH2].
    eapply Forall_impl; [|exact IH1]. cbn beta. intros; lia.
Qed.

Lemma wf_markers_then_value j post mid : forall e b,
  Forall (eq Lagged) mid -> wf_stream e b (mid ++ Value j :: post) ->
  match mid with [] => if b then e <= j else j = e | _ => e + len mid <= j end.
Proof.
  induction mid as [|x mid IH]; intros e b Hm Hw.
  - cbn [app] in Hw. inversion Hw; subst; auto.
  - inversion Hm as [|? ? Hx Hm']; subst. cbn [app] in Hw.
    inversion Hw as [| | |e' b' l' Hl]; subst.
    specialize (IH _ _ Hm' Hl). rewrite len_cons. destruct mid as [|y mid'].
    + rewrite len_nil. lia.
    + lia.
Qed.

(** Between two consecutive received values there is a marker iff indices are not consecutive. *)
Lemma wf_gap_iff e b pre i mid j post :
  wf_stream e b (pre ++ Value i :: mid ++ Value j :: post) -> Forall (eq Lagged) mid ->
  i < j /\ (mid = [] <-> j = i + 1).
Proof.
  intros Hw Hm. apply wf_app in Hw. destruct Hw as [_ Hw].
  assert (Hw' : wf_stream (i + 1) false (mid ++ Value j :: post)) by (inversion Hw; subst; assumption).
  pose proof (wf_markers_then_value _ _ _ _ _ Hm Hw') as H. destruct mid as [|x mid].
  - subst. split; [lia|]. split; auto.
  - rewrite len_cons in H. split; [lia|]. split; [discriminate|]. intros ->. lia.
Qed.

(** ** vals_from *)
Lemma vals_from_snoc k : forall a, vals_from a (S k) = vals_from a k ++ [Value (a + N.of_nat k)].
Proof.
  induction k as [|k IH]; intros a.
  - cbn [vals_from app]. replace (a + N.of_nat 0) with a by lia. reflexivity.
  - change (vals_from a (S (S k))) with (Value a :: vals_from (a + 1) (S k)). rewrite IH.
    replace (a + 1 + N.of_nat k) with (a + N.of_nat (S k)) by lia. reflexivity.
Qed.

Lemma vals_from_next a n : a <= n ->
  vals_from a (N.to_nat (n + 1 - a)) = vals_from a (N.to_nat (n - a)) ++ [Value n].
Proof.
  intros H. replace (N.to_nat (n + 1 - a)) with (S (N.to_nat (n - a))) by lia.
  rewrite vals_from_snoc. replace (a + N.of_nat (N.to_nat (n - a))) with n by lia. reflexivity.
Qed.

(** ** per-subscriber invariant *)
Definition all_since (n : N) (s : sub) : list item := vals_from (start s) (N.to_nat (n - start s)).

Definition not_parked (s : sub) : Prop := match status_of s with Parked _ => False | _ => True end.

Definition sinv (n : N) (s : sub) : Prop :=
  wf_stream (start s) false (stream s) /\
  (alive s = true -> pending_ok n s) /\
  (parked_ever s = false ->
     start s <= n /\ not_parked s /\ prefix (stream s) (all_since n s) /\
     (alive s = true -> stream s = all_since n s)).

Lemma sinv_new c n : sinv n (new_sub c n).
Proof.
  unfold sinv, pending_ok, all_since, not_parked, stream, new_sub. cbn. repeat split; try lia; auto.
  - constructor.
  - replace (N.to_nat (n - n)) with O by lia. apply prefix_refl.
  - replace (N.to_nat (n - n)) with O by lia. reflexivity.
Qed.

Lemma sinv_send n s : sinv n s -> sinv (n + 1) (sub_send n s).
Proof.
  destruct s as [q c h st co al sa pe].
  unfold sinv, pending_ok, all_since, not_parked, stream, sub_send, room, push, park, set_status.
  cbn [queue cap held status_of consumed alive start parked_ever].
  intros (Hw & Hp & Hk). destruct st as [|g|]; cbn [queue cap held status_of consumed alive start parked_ever] in *.
  - (* Ready *)
    destruct al; cbn [negb].
    + specialize (Hp eq_refl).
      destruct (len q + h <? c) eqn:Hroom; cbn [queue cap held status_of consumed alive start parked_ever].
      * (* pushed *)
        rewrite app_assoc. split; [|split].
        -- apply wf_snoc_value; [exact Hw|]. destruct (end_state sa false (co ++ q)) as [e b]; cbv beta iota in *.
           cbn [fst snd]. exact Hp.
        -- intros _. rewrite end_state_snoc_value. reflexivity.
        -- intros Hpe. destruct (Hk Hpe) as (Hs & _ & _ & Heq). specialize (Heq eq_refl).
           split; [lia|]. split; [exact I|]. rewrite vals_from_next by exact Hs. rewrite Heq.
           split; [apply prefix_refl|reflexivity].
      * (* parked *)
        split; [exact Hw|]. split; [|discriminate].
        intros _. destruct (end_state sa false (co ++ q)) as [e b]; cbv beta iota in *. destruct b; lia.
    + (* receiver gone *)
      cbn [queue cap held status_of consumed alive start parked_ever].
      split; [exact Hw|]. split; [discriminate|].
      intros Hpe. destruct (Hk Hpe) as (Hs & _ & Hpre & _).
      split; [lia|]. split; [exact I|]. split; [|discriminate].
      rewrite vals_from_next by exact Hs. now apply prefix_app_r.
  - (* Parked: untouched *)
    split; [exact Hw|]. split.
    + intros Ha. specialize (Hp Ha). destruct (end_state sa false (co ++ q)) as [e b]; cbv beta iota in *.
      destruct g; [lia|]. destruct Hp; split; [assumption|lia].
    + intros Hpe. destruct (Hk Hpe) as (_ & [] & _).
  - (* Gone *)
    split; [exact Hw|]. split.
    + intros Ha. specialize (Hp Ha). destruct (end_state sa false (co ++ q)); cbv beta iota in *; exact Hp.
    + intros Hpe. destruct (Hk Hpe) as (Hs & _ & Hpre & Heq).
      split; [lia|]. split; [exact I|]. rewrite vals_from_next by exact Hs. split.
      * now apply prefix_app_r.
      * intros Ha. exfalso. specialize (Hp Ha). destruct (end_state sa false (co ++ q)); cbv beta iota in *; exact Hp.
Qed.

Lemma sinv_readmit1 n s s' : sinv n s -> sub_readmit1 s = Some s' -> sinv n s'.
Proof.
  destruct s as [q c h st co al sa pe].
  unfold sinv, pending_ok, all_since, not_parked, stream, sub_readmit1, room, push, set_status.
  cbn [queue cap held status_of consumed alive start parked_ever].
  intros (Hw & Hp & Hk) Hf. destruct st as [|[|]|]; try discriminate.
  destruct al; cbn [negb] in Hf.
  - destruct (len q + h <? c); [|discriminate]. injection Hf as <-.
    cbn [queue cap held status_of consumed alive start parked_ever].
    specialize (Hp eq_refl). rewrite app_assoc. split; [now apply wf_snoc_lag|]. split.
    + intros _. rewrite end_state_snoc_lag. destruct (end_state sa false (co ++ q)) as [e b]; cbv beta iota in *.
      cbn [fst]. split; [reflexivity|lia].
    + intros Hpe. destruct (Hk Hpe) as (_ & [] & _).
  - injection Hf as <-. cbn [queue cap held status_of consumed alive start parked_ever].
    split; [exact Hw|]. split; [discriminate|]. intros Hpe. destruct (Hk Hpe) as (_ & [] & _).
Qed.

Lemma sinv_readmit2 n s s' : sinv n s -> sub_readmit2 s = Some s' -> sinv n s'.
Proof.
  destruct s as [q c h st co al sa pe].
  unfold sinv, pending_ok, all_since, not_parked, stream, sub_readmit2, room, set_held, set_status.
  cbn [queue cap held status_of consumed alive start parked_ever].
  intros (Hw & Hp & Hk) Hf. destruct st as [|[|]|]; try discriminate.
  destruct al; cbn [negb] in Hf.
  - destruct (len q + h <? c); [|discriminate]. injection Hf as <-.
    cbn [queue cap held status_of consumed alive start parked_ever].
    specialize (Hp eq_refl). split; [exact Hw|]. split.
    + intros _. destruct (end_state sa false (co ++ q)) as [e b]; cbv beta iota in *. destruct Hp as [-> Hp]. exact Hp.
    + intros Hpe. destruct (Hk Hpe) as (_ & [] & _).
  - injection Hf as <-. cbn [queue cap held status_of consumed alive start parked_ever].
    split; [exact Hw|]. split; [discriminate|]. intros Hpe. destruct (Hk Hpe) as (_ & [] & _).
Qed.

Lemma sinv_release n s s' : sinv n s -> sub_release s = Some s' -> sinv n s'.
Proof.
  destruct s as [q c h st co al sa pe].
  unfold sinv, pending_ok, all_since, not_parked, stream, sub_release, set_held.
  cbn [queue cap held status_of consumed alive start parked_ever].
  intros H Hf. destruct (0 <? h); [|discriminate]. injection Hf as <-.
  cbn [queue cap held status_of consumed alive start parked_ever]. exact H.
Qed.

Lemma sinv_consume n s s' : sinv n s -> sub_consume s = Some s' -> sinv n s'.
Proof.
  destruct s as [q c h st co al sa pe].
  unfold sinv, pending_ok, all_since, not_parked, stream, sub_consume.
  cbn [queue cap held status_of consumed alive start parked_ever].
  intros H Hf. destruct al; [|discriminate]. destruct q as [|x q]; [discriminate|]. injection Hf as <-.
  cbn [queue cap held status_of consumed alive start parked_ever].
  rewrite <- app_assoc. cbn [app]. exact H.
Qed.

Lemma sinv_drop n s s' : sinv n s -> sub_drop s = Some s' -> sinv n s'.
Proof.
  destruct s as [q c h st co al sa pe].
  unfold sinv, pending_ok, all_since, not_parked, stream, sub_drop.
  cbn [queue cap held status_of consumed alive start parked_ever].
  intros (Hw & Hp & Hk) Hf. destruct al; [|discriminate]. injection Hf as <-.
  cbn [queue cap held status_of consumed alive start parked_ever]. rewrite app_nil_r.
  split; [now apply wf_prefix in Hw|]. split; [discriminate|].
  intros Hpe. destruct (Hk Hpe) as (Hs & Hnp & Hpre & _).
  split; [exact Hs|]. split; [exact Hnp|]. split; [|discriminate].
  eapply prefix_trans; [|exact Hpre]. now exists q.
Qed.

(** ** state invariant *)
Definition Inv (st : state) : Prop := Forall (sinv (next st)) (subs st).

Lemma upd_Forall (P : sub -> Prop) f : (forall s s', P s -> f s = Some s' -> P s') ->
  forall l i l', Forall P l -> upd l i f = Some l' -> Forall P l'.
Proof.
  intros Hf. induction l as [|x r IH]; intros i l' HP Hu; [destruct i; discriminate|].
  inversion HP as [|? ? Hx Hr]; subst. destruct i as [|j]; cbn [upd] in Hu.
  - destruct (f x) as [y|] eqn:Hy; [|discriminate]. injection Hu as <-. constructor; eauto.
  - destruct (upd r j f) as [r'|] eqn:Hr'; [|discriminate]. injection Hu as <-. constructor; eauto.
Qed.

Lemma Inv_init : Inv init.
Proof. constructor. Qed.

Lemma Inv_step st a st' : Inv st -> step st a = Some st' -> Inv st'.
Proof.
  unfold Inv. intros H Hs. destruct a as [|c|i|i|i|i|i]; cbn [step] in Hs.
  - injection Hs as <-. unfold send_state. cbn [subs next]. apply Forall_map.
    eapply Forall_impl; [|exact H]. intros s. apply sinv_send.
  - destruct (c =? 0); [discriminate|]. injection Hs as <-. cbn [subs next].
    apply Forall_app. split; [exact H|]. constructor; [apply sinv_new|constructor].
  - unfold upd_state in Hs. destruct (upd (subs st) (N.to_nat i) sub_consume) as [l|] eqn:Hu; [|discriminate].
    injection Hs as <-. cbn [subs next]. eapply upd_Forall; [|exact H|exact Hu]. apply sinv_consume.
  - unfold upd_state in Hs. destruct (upd (subs st) (N.to_nat i) sub_readmit1) as [l|] eqn:Hu; [|discriminate].
    injection Hs as <-. cbn [subs next]. eapply upd_Forall; [|exact H|exact Hu]. apply sinv_readmit1.
  - unfold upd_state in Hs. destruct (upd (subs st) (N.to_nat i) sub_readmit2) as [l|] eqn:Hu; [|discriminate].
    injection Hs as <-. cbn [subs next]. eapply upd_Forall; [|exact H|exact Hu]. apply sinv_readmit2.
  - unfold upd_state in Hs. destruct (upd (subs st) (N.to_nat i) sub_release) as [l|] eqn:Hu; [|discriminate].
    injection Hs as <-. cbn [subs next]. eapply upd_Forall; [|exact H|exact Hu]. apply sinv_release.
  - unfold upd_state in Hs. destruct (upd (subs st) (N.to_nat i) sub_drop) as [l|] eqn:Hu; [|discriminate].
    injection Hs as <-. cbn [subs next]. eapply upd_Forall; [|exact H|exact Hu]. apply sinv_drop.
Qed.

Lemma Inv_run acts : forall st st', Inv st -> run acts st = Some st' -> Inv st'.
Proof.
  induction acts as [|a r IH]; intros st st' H Hr; cbn [run] in Hr.
  - now injection Hr as <-.
  - destruct (step st a) as [st1|] eqn:Hs; [|discriminate]. eapply IH; [|exact Hr]. eapply Inv_step; eauto.
Qed.

Lemma reach_sinv acts st a s :
  run acts init = Some st -> nth_error (subs st) a = Some s -> sinv (next st) s.
Proof.
  intros Hr Hn. pose proof (Inv_run _ _ _ Inv_init Hr) as H. unfold Inv in H.
  rewrite Forall_forall in H. apply H. eapply nth_error_In; eauto.
Qed.

(** ** the property theorems *)
Lemma stream_ok acts st a s :
  run acts init = Some st -> nth_error (subs st) a = Some s ->
  wf_stream (start s) false (stream s) /\ (alive s = true -> pending_ok (next st) s).
Proof. intros Hr Hn. destruct (reach_sinv _ _ _ _ Hr Hn) as (H1 & H2 & _). now split. Qed.

Lemma stream_ordered acts st a s :
  run acts init = Some st -> nth_error (subs st) a = Some s ->
  StronglySorted N.lt (values (stream s)) /\ Forall (fun i => start s <= i) (values (stream s)).
Proof.
  intros Hr Hn. destruct (reach_sinv _ _ _ _ Hr Hn) as (H1 & _ & _).
  destruct (wf_sorted _ _ _ H1) as [Hlo Hs]. now split.
Qed.

Lemma stream_gap_iff acts st a s pre i mid j post :
  run acts init = Some st -> nth_error (subs st) a = Some s ->
  stream s = pre ++ Value i :: mid ++ Value j :: post -> Forall (eq Lagged) mid ->
  i < j /\ (mid = [] <-> j = i + 1).
Proof.
  intros Hr Hn He Hm. destruct (reach_sinv _ _ _ _ Hr Hn) as (H1 & _ & _).
  rewrite He in H1. eapply wf_gap_iff; eauto.
Qed.

Lemma keepup acts st a s :
  run acts init = Some st -> nth_error (subs st) a = Some s -> parked_ever s = false ->
  prefix (stream s) (all_since (next st) s) /\ (alive s = true -> stream s = all_since (next st) s).
Proof.
  intros Hr Hn Hp. destruct (reach_sinv _ _ _ _ Hr Hn) as (_ & _ & H3).
  destruct (H3 Hp) as (_ & _ & Ha & Hb). now split.
Qed.

(** [Send]: total, and its effect on subscriber [a] is a function of [a]'s own state and the
    value's index *)
Lemma send_total_frame st :
  exists st', step st Send = Some st' /\ next st' = next st + 1 /\
  forall a, nth_error (subs st') a = option_map (sub_send (next st)) (nth_error (subs st) a).
Proof.
  exists (send_state st). split; [reflexivity|]. split; [reflexivity|].
  intros a. unfold send_state. cbn [subs]. apply nth_error_map.
Qed.

Lemma send_frame st1 st2 st1' st2' a :
  next st1 = next st2 -> nth_error (subs st1) a = nth_error (subs st2) a ->
  step st1 Send = Some st1' -> step st2 Send = Some st2' ->
  nth_error (subs st1') a = nth_error (subs st2') a.
Proof.
  intros Hn Ha H1 H2. cbn [step] in H1, H2. injection H1 as <-. injection H2 as <-.
  unfold send_state. cbn [subs]. rewrite !nth_error_map, Hn, Ha. reflexivity.
Qed.

(** a parked subscriber is not touched by [Send]: no value can overtake the marker *)
Lemma send_parked n s g : status_of s = Parked g -> sub_send n s = s.
Proof. intros H. unfold sub_send. now rewrite H. Qed.

(** ** big steps are sequences of small steps *)
Definition Reach (st st' : state) : Prop := exists acts, run acts st = Some st'.

Lemma run_app a1 : forall a2 st, run (a1 ++ a2) st = match run a1 st with Some st' => run a2 st' | None => None end.
Proof.
  induction a1 as [|a r IH]; intros a2 st; cbn [app run]; [reflexivity|].
  destruct (step st a); [apply IH|reflexivity].
Qed.

Lemma Reach_refl st : Reach st st.
Proof. now exists []. Qed.

Lemma Reach_trans st1 st2 st3 : Reach st1 st2 -> Reach st2 st3 -> Reach st1 st3.
Proof. intros [a1 H1] [a2 H2]. exists (a1 ++ a2). now rewrite run_app, H1. Qed.

Lemma Reach_try_step st a : Reach st (try_step st a).
Proof.
  unfold try_step. destruct (step st a) as [st'|] eqn:H; [|apply Reach_refl].
  exists [a]. cbn [run]. now rewrite H.
Qed.

Lemma Reach_try_steps acts : forall st, Reach st (try_steps acts st).
Proof.
  induction acts as [|a r IH]; intros st; cbn [try_steps]; [apply Reach_refl|].
  eapply Reach_trans; [apply Reach_try_step|apply IH].
Qed.

Lemma Reach_quiesce_sub st i : Reach st (quiesce_sub st i).
Proof.
  unfold quiesce_sub. eapply Reach_trans; [apply Reach_try_steps|].
  eapply Reach_trans; [apply Reach_try_steps|]. apply Reach_try_steps.
Qed.

Lemma Reach_quiesce st : Reach st (quiesce st).
Proof.
  unfold quiesce. generalize (map N.of_nat (seq 0 (length (subs st)))). intros l. revert st.
  induction l as [|i l IH]; intros st; cbn [fold_left]; [apply Reach_refl|].
  eapply Reach_trans; [apply Reach_quiesce_sub|apply IH].
Qed.

Lemma big_sound st o : Reach st (big st o).
Proof.
  destruct o; cbn [big]; try apply Reach_try_step; try apply Reach_try_steps. apply Reach_quiesce.
Qed.

Lemma bigs_sound ops : forall st, Reach st (fold_left big ops st).
Proof.
  induction ops as [|o r IH]; intros st; cbn [fold_left]; [apply Reach_refl|].
  eapply Reach_trans; [apply big_sound|apply IH].
Qed.
