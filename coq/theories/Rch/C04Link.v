(** C04: the canonical framing used by the executable interface is one of the framings the theorems
    quantify over; the toy codec of the executable interface is an honest codec; the witness for the
    former finding F15 as a positive example; mpsc / oneshot composed with the base layer. *)
From Remoc Require Import Lib.Base Chmux.Parse Chmux.Recv Rch.Base Rch.BaseProofs Rch.Mpsc Rch.MpscProofs Run.RunBase.

(** * [att_frames] is a framing *)
Lemma chunks_fuel_concat : forall fuel ck (b : list N),
  1 <= ck -> (length b <= fuel)%nat -> concat (chunks_fuel fuel ck b) = b.
Proof.
  induction fuel as [|fuel IH]; intros ck b Hck Hl; cbn [chunks_fuel].
  - destruct b; [reflexivity|cbn [length] in Hl; lia].
  - destruct b as [|x b]; [reflexivity|]. cbn [concat]. set (l := x :: b) in *.
    rewrite IH; auto.
    + apply firstn_skipn.
    + rewrite skipn_length. subst l. cbn [length] in *. lia.
Qed.

Lemma chunks_concat ck (b : list N) : concat (chunks ck b) = b.
Proof. unfold chunks. apply chunks_fuel_concat; lia. Qed.

Lemma chunks_nonempty ck (b : list N) : b <> [] -> chunks ck b <> [].
Proof. unfold chunks. destruct b; [congruence|]. cbn [length chunks_fuel]. discriminate. Qed.

Lemma data_frames_snoc cs : forall first, cs <> [] ->
  data_frames first true (cs ++ [[]]) = data_frames first false cs ++ [FData false true []].
Proof.
  induction cs as [|c cs IH]; intros first Hne; [congruence|].
  destruct cs as [|c2 cs].
  - reflexivity.
  - cbn [app].
    rewrite (data_frames_cons first true c (c2 :: cs ++ [[]])), (data_frames_cons first false c (c2 :: cs)).
    cbn [andb app]. f_equal. exact (IH false ltac:(discriminate)).
Qed.

Definition att_ok (a : catt) : Prop := match a with APortsOk [] => False | _ => True end.

Lemma att_frames_framed ck a : att_ok a -> framed1 a (att_frames ck a).
Proof.
  intros Hok. destruct a as [st b|b|ps|ps]; cbn [framed1 att_frames].
  - destruct st.
    + destruct b as [|x b].
      * exists [[]]. repeat split; auto. discriminate.
      * exists (chunks ck (x :: b) ++ [[]]). split; [destruct (chunks ck (x :: b)); discriminate|].
        split; [rewrite concat_app, chunks_concat; cbn [concat]; now rewrite !app_nil_r|].
        symmetry. apply data_frames_snoc. apply chunks_nonempty. discriminate.
    + destruct b as [|x b].
      * exists [[]]. repeat split; auto. discriminate.
      * exists (chunks ck (x :: b)). split; [apply chunks_nonempty; discriminate|]. split; [apply chunks_concat|reflexivity].
  - exists (chunks ck b). split; [apply chunks_concat|reflexivity].
  - unfold port_batches. exists (chunks (N.max 1 (ck / 4)) ps). split; [|split; [apply chunks_concat|reflexivity]].
    apply chunks_nonempty. destruct ps; [destruct Hok|discriminate].
  - unfold port_batches. exists (chunks (N.max 1 (ck / 4)) ps). split; [apply chunks_concat|reflexivity].
Qed.

Lemma att_frames_Framed ck atts : Forall att_ok atts -> Framed atts (flat_map (att_frames ck) atts).
Proof.
  induction 1 as [|a atts Ha Hs IH]; cbn [flat_map]; constructor; auto. now apply att_frames_framed.
Qed.

(** [base_send] never produces an empty complete port batch *)
Lemma base_send_att_ok c bd bu it :
  let '(_, _, atts, _) := base_send c bd bu it in Forall att_ok atts.
Proof.
  pose proof (base_send_shape c bd bu it) as Hs. destruct (base_send c bd bu it) as [[[bd' bu'] atts] res].
  destruct Hs as [[-> _]|[(k & -> & _)|(st & bu2 & -> & _)]]; repeat constructor.
  pose proof (send_ports_shape bu2 (iports it)) as Hp. destruct (send_ports bu2 (iports it)) as [[bu3 ps] r]. cbn [fst snd].
  destruct Hp as [(_ & -> & _)|[(Hne & -> & _)|(_ & k & -> & _)]]; repeat constructor.
  cbn [att_ok]. destruct (iports it); auto.
Qed.

(** * the toy codec of the executable interface is honest *)
Lemma toy_bytes_len tag np poison l : 3 <= l -> len (toy_bytes tag np poison l) = l.
Proof. intros H. unfold toy_bytes, len. rewrite app_length, repeat_length. cbn [length]. lia. Qed.

Lemma toy_prefix_incomplete tag np poison l q r :
  3 <= l -> q ++ r = toy_bytes tag np poison l -> r <> [] -> toy_decode q = DIncomplete.
Proof.
  intros Hl Hq Hr. assert (Hlen : len q < l).
  { rewrite <- (toy_bytes_len tag np poison l Hl), <- Hq, len_app. destruct r; [congruence|]. rewrite len_cons. lia. }
  unfold toy_bytes in Hq. destruct q as [|a [|b [|c q]]]; try reflexivity.
  cbn [app] in Hq. injection Hq as -> -> -> _. unfold toy_decode.
  apply N.ltb_lt in Hlen. now rewrite Hlen.
Qed.

Lemma toy_honest dflt tag np poison l :
  3 <= l -> np <= 1 -> poison <= 1 -> 1 <= dflt ->
  honest toy_decode toy_ports dflt
    {| ibytes := toy_bytes tag np poison l; iports := if np =? 0 then [] else [tag]; ser_fail := None |}.
Proof.
  intros Hl Hnp Hpo Hd. split; [|split]; cbn [ibytes iports].
  - intros q r. now apply toy_prefix_incomplete.
  - unfold toy_bytes, toy_ports. cbn [app]. destruct (np =? 0) eqn:E.
    + apply N.eqb_eq in E. subst np. assert (H : (2 <=? 2 * 0 + poison) = false) by (apply N.leb_gt; lia). now rewrite H.
    + apply N.eqb_neq in E. assert (np = 1) by lia. subst np.
      assert (H : (2 <=? 2 * 1 + poison) = true) by (apply N.leb_le; lia). now rewrite H.
  - destruct (np =? 0); [change (len (@nil N)) with 0; lia|]. rewrite len_cons. change (len (@nil N)) with 0. lia.
Qed.

(** * the former finding F15: a complete encoding in an unfinished message is not delivered

    A 12-byte value is streamed ([max_data_size] 8); its [Serialize] implementation fails after the
    last byte, so [send] reports [Serialize] and the message stays unfinished -- although the receiver's
    deserializer thread has read a complete value.  Before the repair of [rch/base/receiver.rs] the value
    was delivered as soon as the feed loop noticed that the thread had ended (a pending [recv] dropped and
    repeated).  Now the loop skips to the end of the message; the next value cancels the unfinished one. *)
Definition f15_item : item :=
  {| ibytes := toy_bytes 7 0 0 12; iports := []; ser_fail := Some 12 |}.
Definition f15_next : item :=
  {| ibytes := toy_bytes 8 0 0 5; iports := []; ser_fail := None |}.
Definition f15_cfg : scfg := {| s_md := 8; s_chunk := 4; s_max := 1000 |}.
Definition f15_sent := send_all f15_cfg 0%Z [(f15_item, None); (f15_next, None)].
(** the frames of the failed send, a repeated [recv], then the frames of the next send *)
Definition f15_acts : list ract :=
  map RFrame (flat_map (att_frames 4) (flat_map s_atts (firstn 1 f15_sent))) ++ [RReenter; RReenter] ++
  map RFrame (flat_map (att_frames 4) (flat_map s_atts (skipn 1 f15_sent))) ++ [RReenter].

Lemma f15_repaired :
  map s_res f15_sent = [SErrSer; SOk] /\
  (* the unfinished message carries the complete encoding *)
  map s_atts (firstn 1 f15_sent) = [[ADataCut (toy_bytes 7 0 0 12)]] /\ toy_decode (toy_bytes 7 0 0 12) = DOk /\
  (* nothing is delivered for it, the neighbour arrives *)
  snd (brun toy_decode toy_ports (binit 8 128 1000)
         (map RFrame (flat_map (att_frames 4) (flat_map s_atts (firstn 1 f15_sent))) ++ [RReenter; RReenter])) = [] /\
  snd (brun toy_decode toy_ports (binit 8 128 1000) f15_acts) = [ROk (toy_bytes 8 0 0 5)] /\
  sent_ok f15_sent = [toy_bytes 8 0 0 5].
Proof. vm_compute. repeat split; reflexivity. Qed.

(** the second witness: the credit runs out exactly before [finish] (12 credits for a 12-byte value) *)
Definition f15_sent2 := send_all f15_cfg 0%Z [({| ibytes := toy_bytes 7 0 0 12; iports := []; ser_fail := None |}, Some 12)].
Lemma f15_repaired2 :
  map s_res f15_sent2 = [SCancelled] /\
  map s_atts f15_sent2 = [[ADataCut (toy_bytes 7 0 0 12)]] /\
  snd (brun toy_decode toy_ports (binit 8 128 1000)
         (map RFrame (flat_map (att_frames 4) (flat_map s_atts f15_sent2)) ++ [RReenter; RReenter])) = [].
Proof. vm_compute. repeat split; reflexivity. Qed.

(** non-vacuity: three sends (buffered, streamed with a serialization failure after 10 bytes, streamed) *)
Definition ex_its : list (item * option N) :=
  [({| ibytes := toy_bytes 1 0 0 6; iports := []; ser_fail := None |}, None);
   ({| ibytes := toy_bytes 2 0 0 20; iports := []; ser_fail := Some 10 |}, None);
   ({| ibytes := toy_bytes 3 1 0 20; iports := [3]; ser_fail := None |}, None)].
Definition ex_cfg : scfg := {| s_md := 8; s_chunk := 4; s_max := 1000 |}.
Definition ex_sent := send_all ex_cfg 0%Z ex_its.
Definition ex_acts : list ract := map RFrame (flat_map (att_frames 4) (flat_map s_atts ex_sent)).

Lemma ex_run :
  map s_res ex_sent = [SOk; SErrSer; SOk] /\
  snd (brun toy_decode toy_ports (binit 8 128 1000) ex_acts) = [ROk (toy_bytes 1 0 0 6); ROk (toy_bytes 3 1 0 20)] /\
  sent_ok ex_sent = [toy_bytes 1 0 0 6; toy_bytes 3 1 0 20].
Proof. vm_compute. auto. Qed.

(** * mpsc on top of the base layer *)
Section Compose.
  Variable decode : list N -> dres.
  Variable ports_of : list N -> list N.

  Lemma entries_src_ok ls : src_ok (map entries_of ls).
  Proof.
    unfold src_ok. rewrite Forall_map. apply Forall_forall. intros l _. unfold entries_of.
    induction l as [|r l IH]; cbn [flat_map]; [constructor|]. apply Forall_app. split; auto.
    destruct r; repeat constructor.
  Qed.

  Lemma vals_entries l : vals (entries_of l) = oks l.
  Proof.
    unfold entries_of, oks. induction l as [|r l IH]; cbn [flat_map]; auto. rewrite vals_app, IH.
    destruct r; reflexivity.
  Qed.

  (** one remote sender: its sends, the part of the schedule of its port that has happened ([a1]) and
      the part that has not ([a2], e.g. because the connection ended) *)
  Record rsender := mk_rsender {
    rs_cfg : scfg; rs_bd : Z; rs_its : list (item * option N); rs_a1 : list ract; rs_a2 : list ract
  }.

  Definition rs_sent (x : rsender) := send_all (rs_cfg x) (rs_bd x) (rs_its x).

  Definition rs_ok (dflt : N) (x : rsender) : Prop :=
    Forall (honest decode ports_of dflt) (map fst (rs_its x)) /\
    Framed (flat_map s_atts (rs_sent x)) (frames_of (rs_a1 x ++ rs_a2 x)).

  Definition rs_src md rmax dflt (x : rsender) : list mentry :=
    entries_of (snd (brun decode ports_of (binit md dflt rmax) (rs_a1 x))).

  (** Several remote senders, every framing and schedule of each port, every schedule of the
      forwarding tasks and of the receiving user: the values received from sender [i] are a prefix of
      the values sender [i] sent successfully (and the receiver can accept), in order. *)
  Theorem mpsc_end_to_end md rmax dflt (xs : list rsender) c macts i :
    Forall (rs_ok dflt) xs ->
    let s := mrun macts (minit (map (rs_src md rmax dflt) xs) c) in
    prefix (vals (proj_o i (outs s)))
           (match nth_error xs i with
            | Some x => filter (acceptable decode rmax) (sent_ok (rs_sent x))
            | None => []
            end).
  Proof.
    intros Hok. cbn zeta.
    pose proof (mpsc_prefix (map (rs_src md rmax dflt) xs) c macts i) as Hp.
    assert (Hs : src_ok (map (rs_src md rmax dflt) xs)).
    { unfold rs_src. rewrite <- map_map with (g := entries_of). apply entries_src_ok. }
    specialize (Hp Hs). eapply prefix_trans; [exact Hp|].
    destruct (nth_error xs i) as [x|] eqn:En.
    - erewrite nth_indep with (d' := rs_src md rmax dflt x); [|rewrite map_length; apply nth_error_Some; congruence].
      rewrite map_nth. rewrite (nth_error_nth _ _ _ En).
      unfold rs_src. rewrite vals_entries.
      rewrite Forall_forall in Hok. destruct (Hok x (nth_error_In _ _ En)) as (Hh & Hfr).
      unfold rs_sent in *.
      rewrite <- (base_success decode ports_of md rmax dflt (rs_cfg x) (rs_its x) (rs_bd x) Hh).
      rewrite <- (base_end_to_end decode ports_of md rmax dflt (rs_cfg x) (rs_its x) (rs_bd x) (rs_a1 x ++ rs_a2 x) Hh Hfr).
      apply oks_prefix. apply brun_prefix.
    - rewrite nth_overflow; [exists []; reflexivity|]. rewrite map_length. now apply nth_error_None.
  Qed.

  (** oneshot = an mpsc channel with a local buffer of one whose only sender is consumed by its only
      [send]: at most one value is ever received, and it is the successfully sent one *)
  Theorem oneshot_end_to_end md rmax dflt (x : rsender) macts :
    rs_ok dflt x -> (length (rs_its x) <= 1)%nat ->
    let s := mrun macts (minit [rs_src md rmax dflt x] 1) in
    prefix (vals (proj_o 0 (outs s))) (filter (acceptable decode rmax) (sent_ok (rs_sent x))) /\
    (length (sent_ok (rs_sent x)) <= 1)%nat.
  Proof.
    intros Hok Hl. split.
    - apply (mpsc_end_to_end md rmax dflt [x] 1 macts 0). constructor; auto.
    - unfold rs_sent. destruct (rs_its x) as [|[it bu] [|y r]]; cbn [length] in Hl; try lia; cbn [send_all].
      + cbn. lia.
      + destruct (base_send (rs_cfg x) (rs_bd x) bu it) as [[[bd' bu'] atts] res]. cbn [send_all sent_ok flat_map].
        destruct (s_res (it, atts, res)); cbn; lia.
  Qed.
End Compose.
