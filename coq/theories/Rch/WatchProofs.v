(** Proofs about the watch model [Rch/Watch.v]:
    - [Safe]: an invariant of every action list, faults included: every value in a cell, in flight or
      shown to a receiver was sent; along every link indices only grow; what a receiver has been
      shown is non-decreasing and not ahead of its cell.
    - [Live]: an invariant of fault-free action lists from which "quiescent => every cell that still
      has a receiver holds the latest value" follows by induction over the distance from the root. *)
From Coq Require Import Sorted.
From Remoc Require Import Lib.Base Rch.Watch.
From RecordUpdate Require Import RecordUpdate.
Import RecordSetNotations.

Ltac prj :=
  cbn [cval cerr cver cclosed cpar lseen lchan lsend lrecv lfin ltaken clevel
       rcell rseen rlive robs rsidx ncell cells nrcv rcvs sender root sent
       set RecordSet.set store store_err recv_end set_cell set_rcv add_rcv add_cell do_send fst snd] in *.

Lemma upd_same {A} (f : nat -> A) i x : upd f i x i = x.
Proof. unfold upd. now rewrite Nat.eqb_refl. Qed.
Lemma upd_other {A} (f : nat -> A) i x j : j <> i -> upd f i x j = f j.
Proof. unfold upd. intros H. destruct (Nat.eqb_spec j i); congruence. Qed.

Lemma upd_at {A} (f : nat -> A) i x j : j = i -> upd f i x j = x.
Proof. intros ->. apply upd_same. Qed.

Ltac upd_cases :=
  repeat match goal with
  | |- context [upd ?f ?i ?x ?j] =>
      let H := fresh "Hu" in
      destruct (Nat.eq_dec j i) as [H|H];
      [rewrite (upd_at f i x j H) in *; try subst j | rewrite (upd_other f i x j H) in *]
  | H0 : context [upd ?f ?i ?x ?j] |- _ =>
      let H := fresh "Hu" in
      destruct (Nat.eq_dec j i) as [H|H];
      [rewrite (upd_at f i x j H) in *; try subst j | rewrite (upd_other f i x j H) in *]
  end.

(** * Definitions *)
Definition idx (c : cell) : N := fst (cval c).

Definition val_idxs (l : list msg) : list N :=
  flat_map (fun m => match m with MVal v => [fst v] | _ => [] end) l.

Definition val_ok (s : list N) (v : val) : Prop := nth_error s (N.to_nat (fst v)) = Some (snd v).
Definition msg_ok (s : list N) (m : msg) : Prop := match m with MVal v => val_ok s v | _ => True end.

Definition SafeCell (s : list N) (x : cell) : Prop :=
  val_ok s (cval x) /\ Forall (msg_ok s) (lchan x).

Definition SafeLink (x pc : cell) : Prop :=
  StronglySorted N.le (idx x :: val_idxs (lchan x)) /\
  Forall (fun i => i <= ltaken x) (idx x :: val_idxs (lchan x)) /\
  ltaken x <= idx pc.

Definition SafeRcv (s : list N) (x : rcv) (c : cell) : Prop :=
  Forall (val_ok s) (robs x) /\
  StronglySorted N.le (map fst (robs x)) /\
  Forall (fun v => fst v <= idx c) (robs x).

Record Safe (st : state) : Prop := {
  sf_cell : forall d, (d < ncell st)%nat -> SafeCell (sent st) (cells st d);
  sf_link : forall d c, (d < ncell st)%nat -> cpar (cells st d) = Some c ->
            (c < ncell st)%nat /\ clevel (cells st d) = (clevel (cells st c) + 1)%Z /\
            SafeLink (cells st d) (cells st c);
  sf_rcv : forall r, (r < nrcv st)%nat ->
           (rcell (rcvs st r) < ncell st)%nat /\ SafeRcv (sent st) (rcvs st r) (cells st (rcell (rcvs st r)));
  sf_sender : forall c, sender st = Some c -> (c < ncell st)%nat /\ cpar (cells st c) = None;
}.

(** * List facts *)
Lemma val_idxs_app l1 l2 : val_idxs (l1 ++ l2) = val_idxs l1 ++ val_idxs l2.
Proof. unfold val_idxs. now rewrite flat_map_app. Qed.

Lemma val_ok_app s l v : val_ok s v -> val_ok (s ++ l) v.
Proof. unfold val_ok. intros H. rewrite nth_error_app1; auto. apply nth_error_Some. congruence. Qed.

Lemma msg_ok_app s l m : msg_ok s m -> msg_ok (s ++ l) m.
Proof. destruct m; cbn; auto using val_ok_app. Qed.

Lemma val_ok_lt s v : val_ok s v -> fst v < len s.
Proof.
  unfold val_ok, len. intros H. assert (N.to_nat (fst v) < length s)%nat by (apply nth_error_Some; congruence). lia.
Qed.

Lemma val_ok_new s p : val_ok (s ++ [p]) (len s, p).
Proof.
  unfold val_ok, len. cbn [fst snd]. rewrite Nat2N.id, nth_error_app2 by lia. now rewrite Nat.sub_diag.
Qed.

Lemma SS_snoc (l : list N) x : StronglySorted N.le l -> Forall (fun i => i <= x) l -> StronglySorted N.le (l ++ [x]).
Proof.
  induction l as [|a l IH]; cbn [app]; intros Hs Hf.
  - constructor; constructor.
  - inversion Hs; subst. inversion Hf; subst. constructor; auto.
    apply Forall_app. split; auto.
Qed.

Lemma Forall_le_trans (l : list N) a b : Forall (fun i => i <= a) l -> a <= b -> Forall (fun i => i <= b) l.
Proof. intros H Hab. eapply Forall_impl; [|exact H]. cbn. intros; lia. Qed.

(** * Safe: compositional preservation lemmas *)
Lemma SafeLink_parent x pc pc' : SafeLink x pc -> idx pc <= idx pc' -> SafeLink x pc'.
Proof. intros (A & B & C) H. repeat split; auto. lia. Qed.

Lemma SafeRcv_cell s x c c' : SafeRcv s x c -> idx c <= idx c' -> SafeRcv s x c'.
Proof.
  intros (A & B & C) H. repeat split; auto. eapply Forall_impl; [|exact C]. cbn. intros; lia.
Qed.

Lemma SafeCell_app s l x : SafeCell s x -> SafeCell (s ++ l) x.
Proof.
  intros (A & B). split; auto using val_ok_app. eapply Forall_impl; [|exact B]. apply msg_ok_app.
Qed.

Lemma SafeRcv_app s l x c : SafeRcv s x c -> SafeRcv (s ++ l) x c.
Proof.
  intros (A & B & C). repeat split; auto. eapply Forall_impl; [|exact A]. intros; now apply val_ok_app.
Qed.

Lemma Safe_sent st l : Safe st -> Safe (st <| sent := sent st ++ l |>).
Proof.
  intros [H1 H2 H3 H4]. split; prj; intros.
  - apply SafeCell_app; auto.
  - auto.
  - destruct (H3 r) as (A & B); auto. split; auto using SafeRcv_app.
  - auto.
Qed.

(** replace the cell [d] by [x']; its parent pointer may change (TransferTx) *)
Lemma Safe_set_cell st d x' :
  Safe st -> (d < ncell st)%nat ->
  clevel x' = clevel (cells st d) -> idx (cells st d) <= idx x' ->
  SafeCell (sent st) x' ->
  (forall c, cpar x' = Some c -> (c < ncell st)%nat /\ clevel x' = (clevel (cells st c) + 1)%Z /\ SafeLink x' (cells st c)) ->
  (sender st = Some d -> cpar x' = None) ->
  Safe (set_cell st d x').
Proof.
  intros [H1 H2 H3 H4] Hd Hlv Hidx Hc Hl Hs. split; prj.
  - intros e He. upd_cases; auto.
  - intros e c He Hp. upd_cases.
    + destruct (Hl _ Hp) as (A & B & C). lia.
    + destruct (Hl _ Hp) as (A & B & C). auto.
    + destruct (H2 _ _ He Hp) as (A & B & C). split; [auto|split; [lia|eapply SafeLink_parent; eauto]].
    + auto.
  - intros r Hr. destruct (H3 r Hr) as (A & B). split; auto. upd_cases; auto. eapply SafeRcv_cell; eauto. now rewrite Hu.
  - intros c E. destruct (H4 c E) as (A & B). split; auto. upd_cases; auto.
Qed.

(** the usual case: the link stays where it is *)
Lemma Safe_set_cell_same st d x' :
  Safe st -> (d < ncell st)%nat ->
  clevel x' = clevel (cells st d) -> cpar x' = cpar (cells st d) -> idx (cells st d) <= idx x' ->
  SafeCell (sent st) x' ->
  (forall c, cpar (cells st d) = Some c -> SafeLink x' (cells st c)) ->
  Safe (set_cell st d x').
Proof.
  intros Hs Hd Hlv Hp Hidx Hc Hl. apply Safe_set_cell; auto.
  - intros c E. rewrite Hp in E. destruct (sf_link _ Hs _ _ Hd E) as (A & B & C). split; [auto|split; [congruence|auto]].
  - intros E. rewrite Hp. apply (sf_sender _ Hs _ E).
Qed.

Lemma Safe_set_rcv st r x' :
  Safe st -> (r < nrcv st)%nat -> (rcell x' < ncell st)%nat ->
  SafeRcv (sent st) x' (cells st (rcell x')) -> Safe (set_rcv st r x').
Proof.
  intros [H1 H2 H3 H4] Hr Hc Hx. split; prj; auto.
  intros q Hq. upd_cases; auto.
Qed.

Lemma Safe_add_rcv st x' :
  Safe st -> (rcell x' < ncell st)%nat ->
  SafeRcv (sent st) x' (cells st (rcell x')) -> Safe (add_rcv st x').
Proof.
  intros [H1 H2 H3 H4] Hc Hx. split; prj; auto.
  intros q Hq. upd_cases; auto. apply H3. lia.
Qed.

Lemma Safe_add_cell st x' :
  Safe st -> SafeCell (sent st) x' ->
  (forall c, cpar x' = Some c -> (c < ncell st)%nat /\ clevel x' = (clevel (cells st c) + 1)%Z /\ SafeLink x' (cells st c)) ->
  Safe (add_cell st x').
Proof.
  intros [H1 H2 H3 H4] Hc Hl. split; prj.
  - intros e He. upd_cases; auto. apply H1. lia.
  - intros e c He Hp. upd_cases.
    + destruct (Hl _ Hp). lia.
    + destruct (Hl _ Hp) as (A & B & C). auto.
    + destruct (H2 e (ncell st)) as (A & _); auto; lia.
    + destruct (H2 e c) as (A & B & C); auto. lia.
  - intros r Hr. destruct (H3 r Hr) as (A & B). split. lia. upd_cases; auto. lia.
  - intros c E. destruct (H4 c E) as (A & B). split. lia. upd_cases; auto. lia.
Qed.

Lemma Safe_sender st s' :
  Safe st -> (forall c, s' = Some c -> (c < ncell st)%nat /\ cpar (cells st c) = None) ->
  Safe (st <| sender := s' |>).
Proof. intros [H1 H2 H3 H4] H. split; prj; auto. Qed.

Lemma Safe_root st k : Safe st -> Safe (st <| root := k |>).
Proof. intros [H1 H2 H3 H4]. split; prj; auto. Qed.

(** * Safe is an invariant *)
Lemma Safe_init p : Safe (init p).
Proof.
  split; cbn [init ncell cells nrcv rcvs sender sent].
  - intros d _. split; [reflexivity|constructor].
  - intros d c _ H. discriminate.
  - intros r Hr. assert (r = 0)%nat by lia. subst. rewrite upd_same. cbn. split; [lia|].
    repeat split; cbn; constructor.
  - intros c E. injection E as <-. split; [lia|reflexivity].
Qed.

Lemma live_rcv_some st r x : live_rcv st r = Some x -> (r < nrcv st)%nat /\ x = rcvs st r /\ rlive x = true.
Proof.
  unfold live_rcv. destruct (Nat.ltb_spec r (nrcv st)); cbn [andb]; [|discriminate].
  destruct (rlive (rcvs st r)) eqn:E; [|discriminate]. intros H'. injection H' as <-. auto.
Qed.

Lemma linked_some st d x c : linked st d = Some (x, c) -> (d < ncell st)%nat /\ x = cells st d /\ cpar (cells st d) = Some c.
Proof.
  unfold linked. destruct (Nat.ltb_spec d (ncell st)); [|discriminate].
  destruct (cpar (cells st d)) eqn:E; [|discriminate]. intros H'. injection H' as <- <-. auto.
Qed.

Lemma SafeRcv_obs s x c :
  SafeRcv s x c -> val_ok s (cval c) -> SafeRcv s (x <| robs := robs x ++ [cval c] |>) c.
Proof.
  intros (A & B & C) Hv. unfold SafeRcv. prj. repeat split.
  - apply Forall_app. split; auto.
  - rewrite map_app. cbn [map]. apply SS_snoc; auto. rewrite Forall_map. exact C.
  - apply Forall_app. split; auto. constructor; auto. unfold idx. lia.
Qed.

Ltac cases :=
  repeat match goal with
  | H : match ?x with _ => _ end = Some _ |- _ =>
      let E := fresh "E" in destruct x eqn:E; try discriminate
  | H : (if ?x then _ else _) = Some _ |- _ =>
      let E := fresh "E" in destruct x eqn:E; try discriminate
  | H : Some _ = Some _ |- _ => injection H as <-
  end.

Ltac use_live :=
  match goal with E : live_rcv _ _ = Some _ |- _ => apply live_rcv_some in E; destruct E as (? & ? & ?); subst end.
Ltac use_linked :=
  match goal with E : linked _ _ = Some _ |- _ => apply linked_some in E; destruct E as (? & ? & ?); subst end.

Lemma Safe_do_send st c p :
  Safe st -> sender st = Some c -> Safe (do_send st c p).
Proof.
  intros Hs E. destruct (sf_sender _ Hs _ E) as (Hc & Hp).
  change (do_send st c p) with (set_cell (st <| sent := sent st ++ [p] |>) c (store (cells st c) (len (sent st), p))).
  pose proof (sf_cell _ Hs c Hc) as (Hv & Hm).
  apply Safe_set_cell_same; prj; auto using Safe_sent.
  - unfold idx. prj. apply val_ok_lt in Hv. lia.
  - split; prj. apply val_ok_new. eapply Forall_impl; [|exact Hm]. apply msg_ok_app.
  - intros c' E'. congruence.
Qed.

Lemma Safe_link_upd st d c x' :
  Safe st -> (d < ncell st)%nat -> cpar (cells st d) = Some c ->
  clevel x' = clevel (cells st d) -> cpar x' = cpar (cells st d) ->
  SafeCell (sent st) x' -> idx (cells st d) <= idx x' ->
  StronglySorted N.le (idx x' :: val_idxs (lchan x')) ->
  Forall (fun i => i <= ltaken x') (idx x' :: val_idxs (lchan x')) ->
  ltaken x' <= idx (cells st c) ->
  Safe (set_cell st d x').
Proof.
  intros Hs Hd Hp Hlv Hp' Hc Hi A B C. apply Safe_set_cell_same; auto.
  intros c' E. assert (c' = c) by congruence. subst c'. split; [|split]; auto.
Qed.

Lemma SS_single (a : N) : StronglySorted N.le [a].
Proof. constructor; constructor. Qed.

Lemma Safe_step st a st' : Safe st -> step st a = Some st' -> Safe st'.
Proof.
  intros Hs H. destruct a; cbn [step] in H; cases; auto using Safe_do_send;
    try (use_live; match goal with Hr : (_ < nrcv st)%nat |- _ => destruct (sf_rcv _ Hs _ Hr) as (A & B) end);
    try (use_linked;
         match goal with Hp : cpar (cells st _) = Some ?n |- _ => rename n into c end;
         match goal with Hd : (?d < ncell st)%nat, Hp : cpar (cells st ?d) = Some ?c' |- _ =>
           destruct (sf_link _ Hs _ _ Hd Hp) as (Hc & Hlv & (A & B & C));
           pose proof (sf_cell _ Hs _ Hd) as (Hv & Hm); pose proof (sf_cell _ Hs _ Hc) as (Hvc & _) end).
  - (* DropSender *)
    destruct (sf_sender _ Hs _ E) as (Hc & Hp).
    apply Safe_sender; [|discriminate].
    apply Safe_set_cell_same; auto.
    + unfold idx; prj; lia.
    + apply (sf_cell _ Hs _ Hc).
    + intros c E'. apply (sf_link _ Hs _ _ Hc E').
  - (* Subscribe *)
    destruct (sf_sender _ Hs _ E) as (Hc & Hp).
    apply Safe_add_rcv; prj; auto. split; [|split]; prj; constructor.
  - (* CloneRx *)
    apply Safe_add_rcv; prj; auto. split; [|split]; prj; constructor.
  - (* DropRx *)
    apply Safe_set_rcv; prj; auto.
  - (* Observe *)
    apply Safe_set_rcv; prj; auto.
    destruct (cerr (cells st (rcell (rcvs st r)))).
    + exact B.
    + apply (SafeRcv_obs _ _ _ B). apply (sf_cell _ Hs _ A).
  - (* Borrow *)
    apply Safe_set_rcv; prj; auto.
    destruct (cerr (cells st (rcell (rcvs st r)))).
    + exact B.
    + apply (SafeRcv_obs _ _ _ B). apply (sf_cell _ Hs _ A).
  - (* Changed *)
    apply Safe_set_rcv; prj; auto.
  - (* TransferRx *)
    pose proof (sf_cell _ Hs _ A) as (Hv & Hm).
    apply Safe_add_rcv; prj.
    + apply Safe_add_cell; auto.
      * split; prj; auto.
      * prj. intros c Ec. injection Ec as <-. split; [auto|split; [lia|]].
        split; [|split]; unfold idx; prj; cbn [val_idxs flat_map]; try lia.
        apply SS_single. constructor; [lia|constructor].
    + lia.
    + rewrite !upd_same. split; [|split]; prj; constructor.
  - (* TransferTx *)
    destruct (sf_sender _ Hs _ E) as (Hc & Hp).
    pose proof (sf_cell _ Hs _ Hc) as (Hv & Hm).
    match goal with |- Safe ?s => change s with
      (set_cell (add_cell st (mkC (cval (cells st n)) false 0 false None 0 [] false false false 0 (clevel (cells st n) - 1)%Z)
                 <| sender := Some (ncell st) |> <| root := ncell st |>) n
         (cells st n <| cpar := Some (ncell st) |> <| lseen := 0 |> <| lchan := [] |> <| lsend := true |>
            <| lrecv := true |> <| lfin := false |> <| ltaken := fst (cval (cells st n)) |>)) end.
    apply Safe_set_cell; prj.
    + apply Safe_root. apply Safe_sender.
      * apply Safe_add_cell; auto. split; prj; auto. prj. discriminate.
      * prj. intros c Ec. injection Ec as <-. split; [lia|]. now rewrite upd_same.
    + lia.
    + rewrite upd_other by lia. reflexivity.
    + rewrite upd_other by lia. unfold idx. prj. lia.
    + split; prj; auto.
    + intros c Ec. injection Ec as <-. rewrite upd_same. prj. split; [lia|split; [lia|]].
      split; [|split]; unfold idx; prj; cbn [val_idxs flat_map]; try lia.
      apply SS_single. constructor; [lia|constructor].
    + intros Ec. injection Ec as Ec. lia.
  - (* FwdTake *)
    eapply Safe_link_upd; eauto; unfold idx in *; prj; try lia.
    + split; prj; auto. destruct (lrecv (cells st d)); auto. apply Forall_app. split; auto. constructor; auto.
      unfold msg_of. destruct (cerr (cells st c)); cbn; auto.
    + destruct (lrecv (cells st d)); auto.
      rewrite val_idxs_app. unfold msg_of. destruct (cerr (cells st c)); cbn [val_idxs flat_map app]; rewrite ?app_nil_r; auto.
      apply (SS_snoc (fst (cval (cells st d)) :: val_idxs (lchan (cells st d)))); auto.
      eapply Forall_le_trans; eauto.
    + destruct (lrecv (cells st d)); [|eapply Forall_le_trans; eauto].
      rewrite val_idxs_app. unfold msg_of. destruct (cerr (cells st c)); cbn [val_idxs flat_map app]; rewrite ?app_nil_r.
      * eapply Forall_le_trans; eauto.
      * apply (Forall_app _ (fst (cval (cells st d)) :: val_idxs (lchan (cells st d)))). split.
        eapply Forall_le_trans; eauto. constructor; [lia|constructor].
  - (* FwdEnd *)
    eapply Safe_link_upd; eauto; unfold idx in *; prj; try lia.
    + split; prj; auto. destruct (lrecv (cells st d)); auto. apply Forall_app. split; auto. constructor; cbn; auto.
    + destruct (lrecv (cells st d)); [rewrite val_idxs_app; cbn [val_idxs flat_map app]; rewrite ?app_nil_r|]; auto.
    + destruct (lrecv (cells st d)); [rewrite val_idxs_app; cbn [val_idxs flat_map app]; rewrite ?app_nil_r|]; auto.
  - (* FwdStop *)
    eapply Safe_link_upd; eauto; unfold idx in *; prj; try lia. split; auto.
  - (* FwdDeliver MVal, receivers *)
    rewrite E2 in *. cbn [val_idxs flat_map app] in *.
    inversion A; subst. inversion B; subst. inversion Hm; subst.
    match goal with HF : Forall (N.le _) (_ :: _) |- _ => inversion HF; subst end.
    eapply Safe_link_upd; eauto; unfold idx in *; prj; try lia. split; prj; auto.
  - (* FwdDeliver MVal, no receiver *)
    inversion B; subst.
    eapply Safe_link_upd; eauto; unfold idx in *; prj; cbn [val_idxs flat_map]; try lia.
    split; prj; auto. apply SS_single. constructor; auto.
  - (* FwdDeliver MErr, receivers *)
    rewrite E2 in *. cbn [val_idxs flat_map app] in *. inversion Hm; subst.
    eapply Safe_link_upd; eauto; unfold idx in *; prj; try lia. split; prj; auto.
  - (* FwdDeliver MErr, no receiver *)
    inversion B; subst.
    eapply Safe_link_upd; eauto; unfold idx in *; prj; cbn [val_idxs flat_map]; try lia.
    split; prj; auto. apply SS_single. constructor; auto.
  - (* FwdDeliver MEof *)
    inversion B; subst.
    eapply Safe_link_upd; eauto; unfold idx in *; prj; cbn [val_idxs flat_map]; try lia.
    split; prj; auto. apply SS_single. constructor; auto.
  - (* RecvStop *)
    inversion B; subst.
    eapply Safe_link_upd; eauto; unfold idx in *; prj; cbn [val_idxs flat_map]; try lia.
    split; prj; auto. apply SS_single. constructor; auto.
  - (* Fault *)
    inversion B; subst.
    eapply Safe_link_upd; eauto; unfold idx in *; destruct (lrecv (cells st d)); prj; cbn [val_idxs flat_map]; try lia;
      try (split; prj; auto); try apply SS_single; try (constructor; auto).
Qed.

Lemma Safe_run acts : forall st st', Safe st -> run acts st = Some st' -> Safe st'.
Proof.
  induction acts as [|a acts IH]; cbn [run]; intros st st' Hs H.
  - now injection H as <-.
  - destruct (step st a) eqn:E; [|discriminate]. eauto using Safe_step.
Qed.

(** * The safety theorems *)
Theorem only_sent acts p st r v :
  run acts (init p) = Some st -> (r < nrcv st)%nat -> In v (robs (rcvs st r)) ->
  nth_error (sent st) (N.to_nat (fst v)) = Some (snd v).
Proof.
  intros H Hr Hin. pose proof (Safe_run _ _ _ (Safe_init p) H) as Hs.
  destruct (sf_rcv _ Hs _ Hr) as (_ & (A & _)). rewrite Forall_forall in A. exact (A _ Hin).
Qed.

Theorem monotone acts p st r :
  run acts (init p) = Some st -> (r < nrcv st)%nat ->
  StronglySorted N.le (map fst (robs (rcvs st r))) /\
  Forall (fun v => fst v <= fst (cval (cells st (rcell (rcvs st r))))) (robs (rcvs st r)).
Proof.
  intros H Hr. pose proof (Safe_run _ _ _ (Safe_init p) H) as Hs.
  destruct (sf_rcv _ Hs _ Hr) as (_ & (_ & B & C)). split; auto.
Qed.

(** * Live: the invariant of fault-free runs *)
Definition is_eof (m : msg) : bool := match m with MEof => true | _ => false end.
Definition is_err (m : msg) : bool := match m with MErr => true | _ => false end.
Definition no_eof (l : list msg) : bool := forallb (fun m => negb (is_eof m)) l.
Definition no_err (l : list msg) : bool := forallb (fun m => negb (is_err m)) l.

(** the link of cell [x] fed from [pc]; [pr]: the parent is the root *)
Record LiveLink (pr : Prop) (x pc : cell) : Prop := {
  ll_closed : cclosed x = negb (lrecv x);
  ll_seen : lseen x <= cver pc;
  ll_taken : lseen x = cver pc -> ltaken x = idx pc;
  ll_last : lrecv x = true -> last (val_idxs (lchan x)) (idx x) = ltaken x;
  ll_eofin : lrecv x = true -> lsend x = false -> In MEof (lchan x);
  ll_wf : no_eof (removelast (lchan x)) = true;
  ll_eof : In MEof (lchan x) ->
           lsend x = false /\ cclosed pc = true /\ lseen x = cver pc /\ (pr \/ lfin pc = true);
  ll_fin : lfin x = true ->
           lrecv x = false /\ lsend x = false /\ cclosed pc = true /\ lseen x = cver pc /\
           idx x = ltaken x /\ (pr \/ lfin pc = true);
  ll_nochan : lrecv x = false -> lchan x = [];
  ll_noerr : cerr x = false /\ no_err (lchan x) = true;
}.

Record Live (st : state) : Prop := {
  lv_root : (root st < ncell st)%nat /\ cpar (cells st (root st)) = None;
  lv_uniq : forall d, (d < ncell st)%nat -> cpar (cells st d) = None -> d = root st;
  lv_sender : match sender st with
              | Some c => c = root st /\ cclosed (cells st c) = false
              | None => cclosed (cells st (root st)) = true
              end;
  lv_top : idx (cells st (root st)) + 1 = len (sent st) /\ cerr (cells st (root st)) = false;
  lv_level : forall d, (d < ncell st)%nat -> (clevel (cells st (root st)) <= clevel (cells st d))%Z;
  lv_link : forall d c, (d < ncell st)%nat -> cpar (cells st d) = Some c ->
            LiveLink (c = root st) (cells st d) (cells st c);
  lv_norx : forall d c, (d < ncell st)%nat -> cpar (cells st d) = Some c ->
            lrecv (cells st d) = false -> lfin (cells st d) = false -> has_rx st d = false;
}.

(** ** receiver counts *)
Lemma rx_at_spec st d :
  rx_at st d = true <-> exists r, (r < nrcv st)%nat /\ rlive (rcvs st r) = true /\ rcell (rcvs st r) = d.
Proof.
  unfold rx_at. rewrite existsb_exists. split.
  - intros (r & Hin & H). apply in_seq in Hin. apply andb_true_iff in H as (A & B).
    apply Nat.eqb_eq in B. exists r. repeat split; auto. lia.
  - intros (r & Hr & A & B). exists r. split. apply in_seq. lia. rewrite A, B, Nat.eqb_refl. reflexivity.
Qed.

Lemma fwd_at_spec st d :
  fwd_at st d = true <-> exists e, (e < ncell st)%nat /\ lsend (cells st e) = true /\ cpar (cells st e) = Some d.
Proof.
  unfold fwd_at, par_is. rewrite existsb_exists. split.
  - intros (e & Hin & H). apply in_seq in Hin. apply andb_true_iff in H as (A & B).
    destruct (cpar (cells st e)) eqn:E; [|discriminate]. apply Nat.eqb_eq in B. subst.
    exists e. repeat split; auto. lia.
  - intros (e & He & A & B). exists e. split. apply in_seq. lia. rewrite A, B, Nat.eqb_refl. reflexivity.
Qed.

Lemma has_rx_spec st d :
  has_rx st d = true <->
  (exists r, (r < nrcv st)%nat /\ rlive (rcvs st r) = true /\ rcell (rcvs st r) = d) \/
  (exists e, (e < ncell st)%nat /\ lsend (cells st e) = true /\ cpar (cells st e) = Some d).
Proof. unfold has_rx. rewrite orb_true_iff, rx_at_spec, fwd_at_spec. reflexivity. Qed.

(** [has_rx] can only have been true before *)
Lemma has_rx_false st st' d :
  has_rx st d = false -> (has_rx st' d = true -> has_rx st d = true) -> has_rx st' d = false.
Proof. intros H1 H2. destruct (has_rx st' d); auto. rewrite H2 in H1; auto. Qed.

(** ** list facts *)
Lemma last_cons_default {A} (a : A) l d : last (a :: l) d = last l a.
Proof. revert a. induction l as [|b l IH]; intros a; [reflexivity|]. cbn [last] in *. destruct l; auto. Qed.

Lemma no_eof_in l : no_eof l = true <-> ~ In MEof l.
Proof.
  unfold no_eof. rewrite forallb_forall. split.
  - intros H Hin. specialize (H _ Hin). discriminate.
  - intros H m Hin. destruct m; auto; contradiction.
Qed.

Lemma no_eof_tail m l : no_eof (removelast (m :: l)) = true -> no_eof (removelast l) = true.
Proof. destruct l; auto. cbn [removelast]. cbn [no_eof forallb]. intros H. apply andb_true_iff in H. apply H. Qed.

Lemma eof_head_only l : no_eof (removelast (MEof :: l)) = true -> l = [].
Proof. destruct l; auto. cbn [removelast no_eof forallb is_eof negb andb]. discriminate. Qed.

Lemma val_idxs_snoc_val l v : val_idxs (l ++ [MVal v]) = val_idxs l ++ [fst v].
Proof. now rewrite val_idxs_app. Qed.
Lemma val_idxs_snoc_eof l : val_idxs (l ++ [MEof]) = val_idxs l.
Proof. rewrite val_idxs_app. cbn. now rewrite app_nil_r. Qed.

Lemma no_err_app l m : no_err l = true -> is_err m = false -> no_err (l ++ [m]) = true.
Proof. unfold no_err. rewrite forallb_app. intros -> E. cbn. now rewrite E. Qed.

(** ** the parent of a link changes *)
Lemma child_same (pr pr' : Prop) y x x' :
  cver x' = cver x -> cval x' = cval x -> cclosed x' = cclosed x -> lfin x' = lfin x ->
  (cclosed x = true -> pr -> pr') ->
  LiveLink pr y x -> LiveLink pr' y x'.
Proof.
  intros E1 E2 E3 E4 Hp [A B C D E F G H I J]. unfold idx in *.
  split; unfold idx; rewrite ?E1, ?E2, ?E3, ?E4; auto.
  - intros Hin. destruct (G Hin) as (G1 & G2 & G3 & G4). repeat split; auto. destruct G4; auto.
  - intros Hf. destruct (H Hf) as (H1 & H2 & H3 & H4 & H5 & H6). repeat split; auto. destruct H6; auto.
Qed.

Lemma child_store (pr pr' : Prop) y x x' :
  cclosed x = false -> cclosed x' = false -> cver x' = cver x + 1 ->
  LiveLink pr y x -> LiveLink pr' y x'.
Proof.
  intros E1 E2 E3 [A B C D E F G H I J].
  split; auto; rewrite ?E2, ?E3.
  - lia.
  - intros Hs. lia.
  - intros Hin. destruct (G Hin) as (_ & G2 & _). congruence.
  - intros Hf. destruct (H Hf) as (_ & _ & H3 & _). congruence.
Qed.

Lemma child_close (pr : Prop) y x x' :
  cver x' = cver x -> cval x' = cval x -> cclosed x' = true -> (lfin x = true -> lfin x' = true) ->
  LiveLink pr y x -> LiveLink pr y x'.
Proof.
  intros E1 E2 E3 E4 [A B C D E F G H I J]. unfold idx in *.
  split; unfold idx; rewrite ?E1, ?E2, ?E3; auto.
  - intros Hin. destruct (G Hin) as (G1 & G2 & G3 & G4). repeat split; auto. destruct G4; auto.
  - intros Hf. destruct (H Hf) as (H1 & H2 & H3 & H4 & H5 & H6). repeat split; auto. destruct H6; auto.
Qed.

Lemma child_open (pr pr' : Prop) y x x' :
  cver x' = cver x -> cval x' = cval x -> cclosed x = false -> cclosed x' = false ->
  LiveLink pr y x -> LiveLink pr' y x'.
Proof.
  intros E1 E2 E3 E4 [A B C D E F G H I J]. unfold idx in *.
  split; unfold idx; rewrite ?E1, ?E2, ?E4; auto.
  - intros Hin. destruct (G Hin) as (_ & G2 & _). congruence.
  - intros Hf. destruct (H Hf) as (_ & _ & H3 & _). congruence.
Qed.

(** ** compositional preservation lemmas for [Live] *)
Lemma self_parent st d c : Safe st -> (d < ncell st)%nat -> cpar (cells st d) = Some c -> c <> d.
Proof. intros Hs Hd Hp ->. destruct (sf_link _ Hs _ _ Hd Hp) as (_ & H & _). lia. Qed.

(** cell [d] is replaced by [x'] (same link, [send_impl] not restarted); [s'] is the new send log,
    [sd'] the new sender *)
Lemma Live_set_cell_gen st d x' s' sd' :
  Live st -> Safe st -> (d < ncell st)%nat ->
  cpar x' = cpar (cells st d) -> clevel x' = clevel (cells st d) ->
  (lsend x' = true -> lsend (cells st d) = true) ->
  (forall c, cpar (cells st d) = Some c -> LiveLink (c = root st) x' (cells st c)) ->
  (forall pr y, LiveLink pr y (cells st d) -> LiveLink pr y x') ->
  (forall c, cpar (cells st d) = Some c -> lrecv x' = false -> lfin x' = false -> has_rx st d = false) ->
  (d <> root st -> s' = sent st /\ sd' = sender st) ->
  (d = root st -> idx x' + 1 = len s' /\ cerr x' = false /\ (sd' = sender st \/ sd' = None) /\
                  cclosed x' = match sd' with Some _ => false | None => true end) ->
  Live (set_cell st d x' <| sent := s' |> <| sender := sd' |>).
Proof.
  intros [R U S T Lv L X] Hs Hd Hp Hl Hsd Hlk Hch Hnx Hs' Hrt.
  split; prj.
  - destruct R as (R1 & R2). split; auto. upd_cases; auto. congruence.
  - intros e He Hpe. upd_cases; auto. apply U; auto. congruence.
  - destruct (Nat.eq_dec d (root st)) as [Er|Nr].
    + destruct (Hrt Er) as (_ & _ & Hsd' & Hcl). subst d.
      destruct sd' as [k|].
      * destruct Hsd' as [E|E]; [|discriminate]. rewrite <- E in S. destruct S as (-> & _).
        rewrite upd_same. auto.
      * rewrite upd_same. auto.
    + destruct (Hs' Nr) as (_ & ->). destruct (sender st) as [k|].
      * destruct S as (-> & S2). split; auto. rewrite upd_other by auto. auto.
      * rewrite upd_other by auto. auto.
  - upd_cases.
    + destruct (Hrt (eq_sym Hu)) as (A & B & _). auto.
    + destruct (Hs' (not_eq_sym Hu)) as (-> & _). exact T.
  - intros e He. pose proof (Lv e He) as L1. pose proof (Lv d Hd) as L2.
    destruct (Nat.eq_dec e d) as [->|Ne]; destruct (Nat.eq_dec (root st) d) as [Er|Nr];
      rewrite ?upd_same, ?(upd_at _ _ _ _ Er), ?upd_other by assumption; rewrite ?Hl; try rewrite Er in *; lia.
  - intros e c He Hpe. upd_cases.
    + rewrite Hp in Hpe. exfalso. eapply self_parent; eauto.
    + rewrite Hp in Hpe. auto.
    + apply Hch. auto.
    + auto.
  - intros e c He Hpe Hr Hf.
    assert (Hmono : forall k, has_rx (set_cell st d x' <| sent := s' |> <| sender := sd' |>) k = true -> has_rx st k = true).
    { intros k. rewrite !has_rx_spec. prj. intros [(r & A & B & C)|(e' & A & B & C)].
      - left. exists r. auto.
      - right. exists e'. destruct (Nat.eq_dec e' d) as [->|Ne]; [rewrite upd_same in *|rewrite upd_other in * by auto]; auto.
        split; auto. split; auto. congruence. }
    upd_cases.
    + rewrite Hp in Hpe. apply has_rx_false with (st := st); auto. eapply Hnx; eauto.
    + apply has_rx_false with (st := st); auto. eapply X; eauto.
Qed.

Lemma state_eta_set st d x' : set_cell st d x' <| sent := sent st |> <| sender := sender st |> = set_cell st d x'.
Proof. destruct st. reflexivity. Qed.

(** a cell with a link is replaced *)
Lemma Live_set_cell st d c x' :
  Live st -> Safe st -> (d < ncell st)%nat -> cpar (cells st d) = Some c ->
  cpar x' = cpar (cells st d) -> clevel x' = clevel (cells st d) ->
  (lsend x' = true -> lsend (cells st d) = true) ->
  LiveLink (c = root st) x' (cells st c) ->
  (forall pr y, LiveLink pr y (cells st d) -> LiveLink pr y x') ->
  (lrecv x' = false -> lfin x' = false -> has_rx st d = false) ->
  Live (set_cell st d x').
Proof.
  intros Hl Hs Hd Hc Hp Hlv Hsd Hlk Hch Hnx. rewrite <- state_eta_set.
  assert (d <> root st). { intros ->. destruct (lv_root _ Hl). congruence. }
  apply Live_set_cell_gen; auto.
  - intros k Hk. assert (k = c) by congruence. subst. auto.
  - tauto.
Qed.

Lemma Live_set_rcv st r x' :
  Live st -> (r < nrcv st)%nat ->
  (rlive x' = true -> rlive (rcvs st r) = true /\ rcell x' = rcell (rcvs st r)) ->
  Live (set_rcv st r x').
Proof.
  intros [R U S T Lv L X] Hr Hx. split; prj; auto.
  intros e c He Hpe Hre Hf. apply has_rx_false with (st := st); [eapply X; eauto|].
  rewrite !has_rx_spec. prj. intros [(q & A & B & C)|(e' & A & B & C)].
  - left. upd_cases.
    + destruct (Hx B) as (B1 & B2). exists r. repeat split; auto. congruence.
    + exists q. auto.
  - right. exists e'. auto.
Qed.

Lemma Live_add_rcv st x' :
  Live st ->
  (forall c, cpar (cells st (rcell x')) = Some c -> lrecv (cells st (rcell x')) = false ->
             lfin (cells st (rcell x')) = false -> rlive x' = false) ->
  Live (add_rcv st x').
Proof.
  intros [R U S T Lv L X] Hx. split; prj; auto.
  intros e c He Hpe Hre Hf. apply has_rx_false with (st := st); [eapply X; eauto|].
  rewrite !has_rx_spec. prj. intros [(q & A & B & C)|(e' & A & B & C)].
  - left. upd_cases.
    + subst e. rewrite (Hx _ Hpe Hre Hf) in B. discriminate.
    + exists q. repeat split; auto. lia.
  - right. exists e'. auto.
Qed.

(** a new cell fed from [c] *)
Lemma Live_add_cell st x' c :
  Live st -> Safe st -> (c < ncell st)%nat -> cpar x' = Some c ->
  clevel x' = (clevel (cells st c) + 1)%Z -> lrecv x' = true ->
  LiveLink (c = root st) x' (cells st c) ->
  has_rx st c = true ->
  Live (add_cell st x').
Proof.
  intros [R U S T Lv L X] Hs Hc Hp Hl Hr Hlk Hrx.
  assert (Hpar : forall e k, (e < ncell st)%nat -> cpar (cells st e) = Some k -> (k < ncell st)%nat).
  { intros e k He Hk. apply (sf_link _ Hs _ _ He Hk). }
  destruct R as (R1 & R2). split; prj.
  - split. lia. rewrite upd_other by lia. auto.
  - intros e He Hpe. upd_cases. congruence. apply U; auto. lia.
  - destruct (sender st) as [k|]; [destruct S as (-> & S2); split; auto|]; rewrite upd_other by lia; auto.
  - rewrite upd_other by lia. auto.
  - intros e He. rewrite (upd_other _ _ _ (root st)) by lia. upd_cases.
    + rewrite Hl. specialize (Lv c Hc). lia.
    + apply Lv. lia.
  - intros e k He Hpe. upd_cases.
    + assert (ncell st = c) by congruence. lia.
    + assert (k = c) by congruence. subst k. auto.
    + assert (ncell st < ncell st)%nat by (eapply Hpar; [|eauto]; lia). lia.
    + apply L; auto. lia.
  - intros e k He Hpe Hre Hf. upd_cases. congruence.
    assert (He' : (e < ncell st)%nat) by lia.
    apply has_rx_false with (st := st); [eapply X; eauto|].
    intros Hnew. destruct (Nat.eq_dec e c) as [->|Hne]; auto.
    revert Hnew. rewrite !has_rx_spec. prj. intros [(q & A & B & C)|(e' & A & B & C)].
    + left. exists q. auto.
    + right. upd_cases. congruence. exists e'. repeat split; auto. lia.
Qed.

(** ** Live is an invariant of fault-free steps *)
Lemma Live_cerr st d : Live st -> (d < ncell st)%nat -> cerr (cells st d) = false.
Proof.
  intros Hl Hd. destruct (cpar (cells st d)) as [c|] eqn:E.
  - apply (ll_noerr _ _ _ (lv_link _ Hl _ _ Hd E)).
  - rewrite (lv_uniq _ Hl _ Hd E). apply (lv_top _ Hl).
Qed.

Lemma Live_init p : Live (init p).
Proof.
  split; cbn [init ncell cells nrcv rcvs sender sent root].
  - split; [lia|reflexivity].
  - intros d Hd _. lia.
  - split; reflexivity.
  - split; reflexivity.
  - intros d _. cbn. lia.
  - intros d c _ H. discriminate.
  - intros d c _ H. discriminate.
Qed.

Lemma state_eta_sent st d x' s' :
  set_cell st d x' <| sent := s' |> <| sender := sender st |> = set_cell st d x' <| sent := s' |>.
Proof. destruct st. reflexivity. Qed.

Lemma Live_do_send st c p : Live st -> Safe st -> sender st = Some c -> Live (do_send st c p).
Proof.
  intros Hl Hs E. pose proof (lv_sender _ Hl) as S. rewrite E in S. destruct S as (-> & Hcl).
  destruct (lv_root _ Hl) as (R1 & R2). destruct (lv_top _ Hl) as (T1 & T2).
  unfold do_send. rewrite <- state_eta_sent. apply Live_set_cell_gen; auto.
  - intros k Hk. congruence.
  - intros pr y. apply child_store; prj; auto.
  - intros k Hk. congruence.
  - tauto.
  - intros _. unfold idx. prj. rewrite len_app. change (len [p]) with 1. rewrite E. auto.
Qed.

Lemma state_eta_sender st d x' sd' :
  set_cell st d x' <| sent := sent st |> <| sender := sd' |> = set_cell st d x' <| sender := sd' |>.
Proof. destruct st. reflexivity. Qed.

Lemma has_rx_link_alive st d c :
  Live st -> (d < ncell st)%nat -> cpar (cells st d) = Some c -> has_rx st d = true ->
  lrecv (cells st d) = true \/ lfin (cells st d) = true.
Proof.
  intros Hl Hd Hp Hrx. destruct (lrecv (cells st d)) eqn:E1; auto. destruct (lfin (cells st d)) eqn:E2; auto.
  rewrite (lv_norx _ Hl _ _ Hd Hp E1 E2) in Hrx. discriminate.
Qed.

Lemma Live_step st a st' : Live st -> Safe st -> is_fault a = false -> step st a = Some st' -> Live st'.
Proof.
  intros Hl Hs Hnf H. destruct a; cbn [step is_fault] in *; try discriminate; cases; auto using Live_do_send;
    try (use_live; match goal with Hr : (_ < nrcv st)%nat |- _ => destruct (sf_rcv _ Hs _ Hr) as (A & B) end);
    try (use_linked;
         match goal with Hp : cpar (cells st _) = Some ?n |- _ => rename n into c end;
         match goal with Hd : (?d < ncell st)%nat, Hp : cpar (cells st ?d) = Some ?c' |- _ =>
           destruct (sf_link _ Hs _ _ Hd Hp) as (Hc & Hlv & _);
           pose proof (lv_link _ Hl _ _ Hd Hp) as LL end).
  - (* DropSender *)
    pose proof (lv_sender _ Hl) as S. rewrite E in S. destruct S as (-> & Hcl).
    destruct (lv_root _ Hl) as (R1 & R2). destruct (lv_top _ Hl) as (T1 & T2).
    rewrite <- state_eta_sender. apply Live_set_cell_gen; auto.
    + intros k Hk. congruence.
    + intros pr y. apply child_close; prj; auto.
    + intros k Hk. congruence.
    + tauto.
  - (* Subscribe *)
    pose proof (lv_sender _ Hl) as S. rewrite E in S. destruct S as (-> & Hcl).
    destruct (lv_root _ Hl) as (R1 & R2).
    apply Live_add_rcv; auto. prj. intros k Hk. congruence.
  - (* CloneRx *)
    apply Live_add_rcv; auto. prj. intros k Hk E1 E2.
    assert (Hrx : has_rx st (rcell (rcvs st r)) = true).
    { apply has_rx_spec. left. exists r. auto. }
    rewrite (lv_norx _ Hl _ _ A Hk E1 E2) in Hrx. discriminate.
  - (* DropRx *)
    apply Live_set_rcv; auto.
  - (* Observe *)
    apply Live_set_rcv; auto.
  - (* Borrow *)
    apply Live_set_rcv; auto.
  - (* Changed *)
    apply Live_set_rcv; auto.
  - (* TransferRx *)
    assert (Hrx : has_rx st (rcell (rcvs st r)) = true).
    { apply has_rx_spec. left. exists r. auto. }
    apply Live_add_rcv.
    + eapply Live_add_cell with (c := rcell (rcvs st r)); eauto.
      split; unfold idx; prj; cbn [val_idxs flat_map removelast no_eof no_err forallb last In]; auto; try lia; try tauto; try discriminate.
      split; auto. apply Live_cerr; auto.
    + prj. rewrite upd_same. prj. discriminate.
  - (* TransferTx *)
    pose proof (lv_sender _ Hl) as S. rewrite E in S. destruct S as (-> & Hcl).
    destruct Hl as [(R1 & R2) U _ (T1 & T2) Lv L X].
    assert (Hpar : forall e k, (e < ncell st)%nat -> cpar (cells st e) = Some k -> (k < ncell st)%nat).
    { intros e k He Hk. apply (sf_link _ Hs _ _ He Hk). }
    set (N := mkC _ _ _ _ _ _ _ _ _ _ _ _). set (old' := _ <| ltaken := _ |>).
    assert (Hroot : root st <> ncell st) by lia.
    split; prj.
    + split; [lia|]. rewrite upd_other by auto. rewrite upd_same. reflexivity.
    + intros e He Hpe. destruct (Nat.eq_dec e (root st)) as [->|Ne].
      * rewrite upd_same in Hpe. discriminate.
      * rewrite upd_other in Hpe by auto. destruct (Nat.eq_dec e (ncell st)) as [->|Ne2]; auto.
        rewrite upd_other in Hpe by auto. exfalso. apply Ne. apply U; auto. lia.
    + split; auto. rewrite upd_other by auto. rewrite upd_same. reflexivity.
    + rewrite upd_other by auto. rewrite upd_same. split; auto.
    + intros e He. rewrite (upd_other _ (root st) _ (ncell st)) by auto. rewrite upd_same.
      destruct (Nat.eq_dec e (root st)) as [->|Ne].
      * rewrite upd_same. subst N old'. prj. lia.
      * rewrite upd_other by auto. destruct (Nat.eq_dec e (ncell st)) as [->|Ne2].
        -- rewrite upd_same. lia.
        -- rewrite upd_other by auto. assert (e < ncell st)%nat by lia. specialize (Lv e H). subst N. prj. lia.
    + intros e c He Hpe. destruct (Nat.eq_dec e (root st)) as [->|Ne].
      * rewrite upd_same in *. assert (c = ncell st) by (subst old'; prj; congruence). subst c.
        rewrite upd_other by auto. rewrite upd_same.
        subst old' N. split; unfold idx; prj; cbn [val_idxs flat_map removelast no_eof no_err forallb last In]; auto; try lia; try tauto; try discriminate.
      * rewrite (upd_other _ (root st) _ e) in * by auto. destruct (Nat.eq_dec e (ncell st)) as [->|Ne2].
        -- rewrite upd_same in Hpe. discriminate.
        -- rewrite upd_other in * by auto. assert (He' : (e < ncell st)%nat) by lia.
           pose proof (Hpar _ _ He' Hpe) as Hc. pose proof (L _ _ He' Hpe) as LL.
           destruct (Nat.eq_dec c (root st)) as [->|Nc].
           ++ rewrite upd_same. eapply child_open; [| | | |exact LL]; subst old'; prj; auto.
           ++ rewrite upd_other by auto. rewrite upd_other by lia.
              eapply child_same; [| | | | |exact LL]; auto. intros _ Hx. contradiction.
    + intros e c He Hpe Hr Hf. destruct (Nat.eq_dec e (root st)) as [->|Ne].
      * rewrite upd_same in Hr. discriminate.
      * rewrite (upd_other _ (root st) _ e) in * by auto. destruct (Nat.eq_dec e (ncell st)) as [->|Ne2].
        -- rewrite upd_same in Hpe. discriminate.
        -- rewrite upd_other in * by auto. assert (He' : (e < ncell st)%nat) by lia.
           apply has_rx_false with (st := st); [eapply X; eauto|].
           rewrite !has_rx_spec. prj. intros [(q & A & B & C)|(e' & A & B & C)].
           ++ left. exists q. auto.
           ++ right. destruct (Nat.eq_dec e' (root st)) as [->|Ne'].
              ** rewrite upd_same in C. subst old'. prj. congruence.
              ** rewrite (upd_other _ (root st) _ e') in * by auto. destruct (Nat.eq_dec e' (ncell st)) as [->|Ne2'].
                 --- rewrite upd_same in B. discriminate.
                 --- rewrite upd_other in * by auto. exists e'. repeat split; auto. lia.
  - (* FwdTake *)
    apply andb_true_iff in E1 as (Hsend & Hne). apply negb_true_iff, N.eqb_neq in Hne.
    pose proof (Live_cerr _ _ Hl Hc) as Hce.
    destruct LL as [A B C D E F G I J K].
    assert (Hnoeof : ~ In MEof (lchan (cells st d))). { intros Hin. destruct (G Hin). congruence. }
    eapply Live_set_cell; eauto; prj; auto.
    + unfold msg_of. rewrite Hce. split; prj; auto.
      * lia.
      * intros Hr. rewrite Hr, val_idxs_snoc_val, last_last. reflexivity.
      * intros _ Hf. congruence.
      * destruct (lrecv (cells st d)); auto. rewrite removelast_last. now apply no_eof_in.
      * intros Hin. exfalso. apply Hnoeof. destruct (lrecv (cells st d)); auto.
        apply in_app_or in Hin as [Hin|[Hin|[]]]; auto. discriminate.
      * intros Hf. destruct (I Hf) as (_ & Hx & _). congruence.
      * intros Hr. rewrite Hr. auto.
      * destruct K as (K1 & K2). split; auto. destruct (lrecv (cells st d)); auto. now apply no_err_app.
    + intros pr y. apply child_same; prj; auto.
    + intros Hr Hf. eapply lv_norx; eauto.
  - (* FwdEnd *)
    apply andb_true_iff in E1 as (E1 & Hcl). apply andb_true_iff in E1 as (Hsend & Heq). apply N.eqb_eq in Heq.
    destruct LL as [A B C D E F G I J K].
    assert (Hnoeof : ~ In MEof (lchan (cells st d))). { intros Hin. destruct (G Hin). congruence. }
    assert (Hpar : c = root st \/ lfin (cells st c) = true).
    { destruct (cpar (cells st c)) as [k|] eqn:Ek.
      - right. pose proof (ll_closed _ _ _ (lv_link _ Hl _ _ Hc Ek)) as Hk. rewrite Hcl in Hk.
        assert (Hrx : has_rx st c = true). { apply has_rx_spec. right. exists d. auto. }
        destruct (has_rx_link_alive _ _ _ Hl Hc Ek Hrx) as [Hx|Hx]; auto.
        rewrite Hx in Hk. discriminate.
      - left. apply (lv_uniq _ Hl _ Hc Ek). }
    eapply Live_set_cell; eauto; prj; auto; try discriminate.
    + split; prj; auto.
      * intros Hr. rewrite Hr, val_idxs_snoc_eof. auto.
      * intros Hr _. rewrite Hr. apply in_or_app. right. left. reflexivity.
      * destruct (lrecv (cells st d)); auto. rewrite removelast_last. now apply no_eof_in.
      * intros Hf. destruct (I Hf) as (_ & Hx & _). congruence.
      * intros Hr. rewrite Hr. auto.
      * destruct K as (K1 & K2). split; auto. destruct (lrecv (cells st d)); auto. now apply no_err_app.
    + intros pr y. apply child_same; prj; auto.
    + intros Hr Hf. eapply lv_norx; eauto.
  - (* FwdStop *)
    apply andb_true_iff in E1 as (Hsend & Hr). apply negb_true_iff in Hr.
    destruct LL as [A B C D E F G I J K].
    eapply Live_set_cell; eauto; prj; auto; try discriminate.
    + split; prj; auto; try congruence.
      * intros Hin. rewrite (J Hr) in Hin. destruct Hin.
      * intros Hf. destruct (I Hf) as (_ & Hx & _). congruence.
    + intros pr y. apply child_same; prj; auto.
    + intros _ Hf. eapply lv_norx; eauto.
  - (* FwdDeliver MVal rx *)
    match goal with Hx : lrecv (cells st d) = true |- _ => rename Hx into Hrv end.
    destruct LL as [A B C D E F G I J K]. rewrite E2 in *.
    eapply Live_set_cell; eauto; prj; auto; try congruence.
    + split; prj; auto; try congruence.
      * intros _. specialize (D Hrv). cbn [val_idxs flat_map app] in D. rewrite last_cons_default in D. exact D.
      * intros Hr Hsd. destruct (E Hr Hsd) as [Hx|Hx]; [discriminate|auto].
      * eapply no_eof_tail; eauto.
      * intros Hin. apply G. now right.
      * intros Hf. destruct (I Hf). congruence.
      * destruct K as (K1 & K2). split; auto.
    + intros pr y. apply child_store; prj; auto. rewrite A, Hrv. reflexivity. rewrite A, Hrv. reflexivity.
  - (* FwdDeliver MVal, no receiver *)
    match goal with Hx : lrecv (cells st d) = true |- _ => rename Hx into Hrv end.
    destruct LL as [A B C D E F G I J K].
    eapply Live_set_cell; eauto; prj; auto; try congruence.
    + split; prj; auto; try discriminate.
      * intros [].
      * intros Hf. destruct (I Hf). congruence.
      * destruct K as (K1 & K2). split; auto.
    + intros pr y. apply child_close; prj; auto.
  - (* FwdDeliver MErr *)
    match goal with Hx : lrecv (cells st d) = true |- _ => rename Hx into Hrv end.
    destruct LL as [A B C D E F G I J K]. rewrite E2 in K. destruct K as (_ & K2). discriminate.
  - (* FwdDeliver MErr *)
    match goal with Hx : lrecv (cells st d) = true |- _ => rename Hx into Hrv end.
    destruct LL as [A B C D E F G I J K]. rewrite E2 in K. destruct K as (_ & K2). discriminate.
  - (* FwdDeliver MEof *)
    match goal with Hx : lrecv (cells st d) = true |- _ => rename Hx into Hrv end.
    destruct LL as [A B C D E F G I J K]. rewrite E2 in *.
    assert (l = []) by (now apply eof_head_only). subst l.
    destruct (G (or_introl eq_refl)) as (G1 & G2 & G3 & G4).
    specialize (D Hrv). cbn [val_idxs flat_map app last] in D.
    eapply Live_set_cell; eauto; prj; auto; try congruence.
    + split; prj; auto; try discriminate.
      intros _. unfold idx in *. prj. repeat split; auto.
    + intros pr y. apply child_close; prj; auto.
  - (* RecvStop *)
    apply andb_true_iff in E1 as (E0 & E3). apply negb_true_iff in E3.
    destruct LL as [A B C D E F G I J K].
    eapply Live_set_cell; eauto; prj; auto; try congruence.
    + split; prj; auto; try discriminate.
      * intros [].
      * intros Hf. destruct (I Hf). congruence.
      * destruct K as (K1 & K2). split; auto.
    + intros pr y. apply child_close; prj; auto.
Qed.

Lemma Live_run acts : forall st st',
  Live st -> Safe st -> no_fault acts = true -> run acts st = Some st' -> Live st' /\ Safe st'.
Proof.
  induction acts as [|a acts IH]; cbn [run no_fault forallb]; intros st st' Hl Hs Hnf H.
  - injection H as <-. auto.
  - apply andb_true_iff in Hnf as (Ha & Hnf). apply negb_true_iff in Ha.
    destruct (step st a) eqn:E; [|discriminate].
    apply (IH s); eauto using Safe_step, Live_step.
Qed.

(** * Quiescence *)
Lemma quiescent_link st d c :
  quiescent st = true -> (d < ncell st)%nat -> cpar (cells st d) = Some c ->
  let x := cells st d in let pc := cells st c in
  (lsend x = true -> lseen x = cver pc /\ cclosed pc = false /\ lrecv x = true) /\
  (lrecv x = true -> lchan x = [] /\ has_rx st d = true).
Proof.
  unfold quiescent. rewrite forallb_forall. intros Hq Hd Hp. specialize (Hq d).
  assert (Hin : In d (seq 0 (ncell st))) by (apply in_seq; lia). apply Hq in Hin. clear Hq.
  apply negb_true_iff in Hin. unfold fwd_enabled in Hin. rewrite Hp in Hin.
  repeat (apply orb_false_iff in Hin; destruct Hin as (Hin & ?)).
  cbn zeta. split.
  - intros Hs. rewrite Hs in *. cbn [andb] in *.
    destruct (N.eqb_spec (lseen (cells st d)) (cver (cells st c))); [|discriminate]. cbn [andb] in *.
    apply negb_false_iff in H1. auto.
  - intros Hr. rewrite Hr in *. cbn [andb] in *. apply negb_false_iff in H. split; auto.
    destruct (lchan (cells st d)); auto. discriminate.
Qed.

Definition good (st : state) (d : nat) : Prop :=
  d = root st \/ has_rx st d = true \/ lfin (cells st d) = true.

Lemma synced_level st :
  Live st -> Safe st -> quiescent st = true ->
  forall n d, (d < ncell st)%nat -> (clevel (cells st d) - clevel (cells st (root st)) <= Z.of_nat n)%Z ->
  good st d -> idx (cells st d) + 1 = len (sent st).
Proof.
  intros Hl Hs Hq. induction n as [|n IH]; intros d Hd Hlev Hg.
  - (* level 0: only the root *)
    destruct (cpar (cells st d)) as [c|] eqn:Ep.
    + destruct (sf_link _ Hs _ _ Hd Ep) as (Hc & Hlv & _). pose proof (lv_level _ Hl _ Hc). lia.
    + rewrite (lv_uniq _ Hl _ Hd Ep). apply (lv_top _ Hl).
  - destruct (cpar (cells st d)) as [c|] eqn:Ep.
    2: { rewrite (lv_uniq _ Hl _ Hd Ep). apply (lv_top _ Hl). }
    destruct (sf_link _ Hs _ _ Hd Ep) as (Hc & Hlv & _).
    pose proof (lv_link _ Hl _ _ Hd Ep) as LL.
    destruct (quiescent_link _ _ _ Hq Hd Ep) as (Q1 & Q2). cbn zeta in *.
    assert (Hup : good st c -> idx (cells st c) + 1 = len (sent st)).
    { apply IH; auto. lia. }
    assert (Hfin : lfin (cells st d) = true -> idx (cells st d) + 1 = len (sent st)).
    { intros Hf. destruct (ll_fin _ _ _ LL Hf) as (_ & _ & _ & F4 & F5 & F6).
      rewrite F5, (ll_taken _ _ _ LL F4). apply Hup. destruct F6 as [->|F6]; [left; auto|right; right; auto]. }
    destruct Hg as [->|[Hrx|Hf]]; auto.
    + destruct (lv_root _ Hl). congruence.
    + destruct (has_rx_link_alive _ _ _ Hl Hd Ep Hrx) as [Hr|Hf]; auto.
      destruct (Q2 Hr) as (Hch & _).
      destruct (lsend (cells st d)) eqn:Hsd.
      * destruct (Q1 eq_refl) as (Hseen & _ & _).
        pose proof (ll_last _ _ _ LL Hr) as Hlast. rewrite Hch in Hlast. cbn in Hlast.
        rewrite Hlast, (ll_taken _ _ _ LL Hseen). apply Hup.
        right. left. apply has_rx_spec. right. exists d. auto.
      * pose proof (ll_eofin _ _ _ LL Hr Hsd) as Hin. rewrite Hch in Hin. destruct Hin.
Qed.

Lemma nth_last (l : list N) x d : nth_error l (length l - 1) = Some x -> last l d = x.
Proof.
  destruct l as [|a l] using rev_ind; [discriminate|].
  rewrite app_length, last_last. cbn [length]. rewrite nth_error_app2 by lia.
  replace (length l + 1 - 1 - length l)%nat with 0%nat by lia. cbn. congruence.
Qed.

(** in a quiescent state reached without faults every cell that still has a receiver (a handle or
    a forwarding task), or whose feed ended regularly, holds the value stored last *)
Lemma synced st d :
  Live st -> Safe st -> quiescent st = true -> (d < ncell st)%nat -> good st d ->
  cval (cells st d) = latest st /\ cerr (cells st d) = false.
Proof.
  intros Hl Hs Hq Hd Hg. split; [|apply Live_cerr; auto].
  pose proof (lv_level _ Hl _ Hd) as Hlev.
  assert (Hi : idx (cells st d) + 1 = len (sent st)).
  { apply (synced_level _ Hl Hs Hq (Z.to_nat (clevel (cells st d) - clevel (cells st (root st)))) d); auto. lia. }
  destruct (sf_cell _ Hs _ Hd) as (Hv & _). unfold val_ok in Hv. unfold idx, latest, len in *.
  destruct (cval (cells st d)) as (i, p). cbn [fst snd] in *. f_equal; [lia|].
  symmetry. apply nth_last. rewrite <- Hv. f_equal. lia.
Qed.

Theorem latest_at_quiescence acts p st r :
  run acts (init p) = Some st -> no_fault acts = true -> quiescent st = true ->
  (r < nrcv st)%nat -> rlive (rcvs st r) = true ->
  cval (cells st (rcell (rcvs st r))) = latest st /\ cerr (cells st (rcell (rcvs st r))) = false.
Proof.
  intros H Hnf Hq Hr Hlive.
  destruct (Live_run _ _ _ (Live_init p) (Safe_init p) Hnf H) as (Hl & Hs).
  destruct (sf_rcv _ Hs _ Hr) as (Hc & _).
  apply synced; auto. right. left. apply has_rx_spec. left. exists r. auto.
Qed.

(** * Progress: a state that is not quiescent has an enabled forwarding step *)
Lemma forallb_false {A} (f : A -> bool) l : forallb f l = false -> exists x, In x l /\ f x = false.
Proof.
  induction l as [|a l IH]; cbn [forallb]; [discriminate|].
  destruct (f a) eqn:E; cbn [andb]; intros H.
  - destruct (IH H) as (x & Hin & Hx). exists x. split; auto. now right.
  - exists a. split; auto. now left.
Qed.

Lemma linked_intro st d c : (d < ncell st)%nat -> cpar (cells st d) = Some c -> linked st d = Some (cells st d, c).
Proof. intros Hd Hp. unfold linked. destruct (Nat.ltb_spec d (ncell st)); [|lia]. now rewrite Hp. Qed.

Lemma fwd_enabled_step st d :
  (d < ncell st)%nat -> fwd_enabled st d = true ->
  exists a st', is_fwd a = true /\ step st a = Some st'.
Proof.
  intros Hd H. unfold fwd_enabled in H. destruct (cpar (cells st d)) as [c|] eqn:Ep; [|discriminate].
  pose proof (linked_intro _ _ _ Hd Ep) as Hlk.
  repeat (apply orb_true_iff in H; destruct H as [H|H]).
  - exists (FwdTake d). cbn [step is_fwd]. rewrite Hlk, H. eauto.
  - exists (FwdEnd d). cbn [step is_fwd]. rewrite Hlk, H. eauto.
  - exists (FwdStop d). cbn [step is_fwd]. rewrite Hlk, H. eauto.
  - exists (FwdDeliver d). cbn [step is_fwd]. rewrite Hlk. apply andb_true_iff in H as (H1 & H2). rewrite H1.
    destruct (lchan (cells st d)) as [|m l]; [discriminate|].
    destruct m; [destruct (has_rx st d)|destruct (has_rx st d)|]; eauto.
  - exists (RecvStop d). cbn [step is_fwd]. rewrite Hlk, H. eauto.
Qed.

Lemma not_quiescent_step st :
  quiescent st = false -> exists a st', is_fwd a = true /\ step st a = Some st'.
Proof.
  unfold quiescent. intros H. apply forallb_false in H as (d & Hin & Hd).
  apply in_seq in Hin. apply negb_false_iff in Hd. apply (fwd_enabled_step st d); auto. lia.
Qed.

(** if a cell that still has a receiver is behind, some forwarding task can take a step *)
Theorem progress acts p st r :
  run acts (init p) = Some st -> no_fault acts = true ->
  (r < nrcv st)%nat -> rlive (rcvs st r) = true ->
  cval (cells st (rcell (rcvs st r))) <> latest st ->
  exists a st', is_fwd a = true /\ step st a = Some st'.
Proof.
  intros H Hnf Hr Hlive Hne. apply not_quiescent_step.
  destruct (quiescent st) eqn:Hq; auto.
  destruct (latest_at_quiescence _ _ _ _ H Hnf Hq Hr Hlive). contradiction.
Qed.

(** * Big steps are small steps *)
Lemma try_step_sound st a : exists acts, run acts st = Some (try_step st a) /\ (is_fault a = false -> no_fault acts = true).
Proof.
  unfold try_step. destruct (step st a) eqn:E.
  - exists [a]. cbn [run no_fault forallb]. rewrite E. split; auto. intros ->. reflexivity.
  - exists (@nil action). split; auto.
Qed.

Lemma run_app a1 : forall a2 st st1, run a1 st = Some st1 -> run (a1 ++ a2) st = run a2 st1.
Proof.
  induction a1 as [|a a1 IH]; cbn [run app]; intros a2 st st1 H.
  - now injection H as <-.
  - destruct (step st a); [eauto|discriminate].
Qed.

Lemma no_fault_app a1 a2 : no_fault a1 = true -> no_fault a2 = true -> no_fault (a1 ++ a2) = true.
Proof. unfold no_fault. rewrite forallb_app. intros -> ->. reflexivity. Qed.

Lemma try_steps_sound l : forall st, no_fault l = true ->
  exists acts, run acts st = Some (try_steps l st) /\ no_fault acts = true.
Proof.
  induction l as [|a l IH]; cbn [try_steps]; intros st Hnf.
  - exists (@nil action). auto.
  - cbn [no_fault forallb] in Hnf. apply andb_true_iff in Hnf as (Ha & Hnf). apply negb_true_iff in Ha.
    destruct (try_step_sound st a) as (a1 & H1 & N1). destruct (IH (try_step st a) Hnf) as (a2 & H2 & N2).
    exists (a1 ++ a2). split. rewrite (run_app _ _ _ _ H1). auto. apply no_fault_app; auto.
Qed.

Lemma pass_no_fault n : no_fault (pass_acts n) = true.
Proof.
  unfold pass_acts, no_fault. apply forallb_forall. intros a Hin. apply in_flat_map in Hin as (d & _ & Hin).
  cbn in Hin. repeat (destruct Hin as [<-|Hin]; [reflexivity|]). destruct Hin.
Qed.

Lemma quiesce_sound fuel : forall st,
  exists acts, run acts st = Some (quiesce fuel st) /\ no_fault acts = true.
Proof.
  induction fuel as [|f IH]; cbn [quiesce]; intros st.
  - exists (@nil action). auto.
  - destruct (quiescent st). exists (@nil action); auto.
    destruct (try_steps_sound (pass_acts (ncell st)) st (pass_no_fault _)) as (a1 & H1 & N1).
    destruct (IH (try_steps (pass_acts (ncell st)) st)) as (a2 & H2 & N2).
    exists (a1 ++ a2). split. rewrite (run_app _ _ _ _ H1). auto. apply no_fault_app; auto.
Qed.

(** * The value sent immediately before the sender is dropped *)
Lemma sent_frozen acts : forall st st', sender st = None -> run acts st = Some st' -> sender st' = None /\ sent st' = sent st.
Proof.
  induction acts as [|a acts IH]; cbn [run]; intros st st' Hn H.
  - injection H as <-. auto.
  - destruct (step st a) as [s|] eqn:E; [|discriminate].
    assert (sender s = None /\ sent s = sent st) as (A & B).
    { destruct a; cbn [step] in E; rewrite ?Hn in E; try discriminate; cases; prj; auto. }
    destruct (IH _ _ A H) as (C & D). split; congruence.
Qed.

Theorem latest_after_drop acts1 acts2 p q st1 st r :
  run acts1 (init p) = Some st1 -> send_ok st1 = true ->
  run (Send q :: DropSender :: acts2) st1 = Some st ->
  no_fault (acts1 ++ acts2) = true -> quiescent st = true ->
  (r < nrcv st)%nat -> rlive (rcvs st r) = true ->
  snd (cval (cells st (rcell (rcvs st r)))) = q /\ cerr (cells st (rcell (rcvs st r))) = false.
Proof.
  intros H1 Hok H2 Hnf Hq Hr Hlive.
  assert (Hrun : run (acts1 ++ Send q :: DropSender :: acts2) (init p) = Some st).
  { rewrite (run_app _ _ _ _ H1). exact H2. }
  assert (Hnf' : no_fault (acts1 ++ Send q :: DropSender :: acts2) = true).
  { unfold no_fault in *. rewrite forallb_app in *. apply andb_true_iff in Hnf as (-> & Hb). cbn. exact Hb. }
  destruct (latest_at_quiescence _ _ _ _ Hrun Hnf' Hq Hr Hlive) as (Hv & He). split; auto.
  rewrite Hv. unfold latest. cbn [snd].
  cbn [run step] in H2. unfold send_ok in Hok. destruct (sender st1) as [c|] eqn:Es; [|discriminate].
  rewrite Hok in H2. cbn [step] in H2. unfold do_send in H2 at 1. prj. rewrite Es in H2.
  match type of H2 with run _ ?s = _ => destruct (sent_frozen acts2 s st eq_refl H2) as (_ & ->) end.
  prj. apply last_last.
Qed.

(** * No lost wake-up at a receiver

    [rsidx] records the index of the value that was current when the receiver last marked a version
    seen.  Whenever the cell holds a value with another index, the versions differ as well, so a
    poll of [changed()] answers [Ok] (rule T1) -- for all action lists, faults included. *)
Definition SeenOK (x : rcv) (c : cell) : Prop :=
  rseen x <= cver c /\ (rseen x = cver c -> rsidx x = idx c).

Definition Seen' (n : nat) (rc : nat -> rcv) (ce : nat -> cell) : Prop :=
  forall r, (r < n)%nat -> SeenOK (rc r) (ce (rcell (rc r))).
Definition Seen (st : state) : Prop := Seen' (nrcv st) (rcvs st) (cells st).

Lemma SeenOK_same x c c' : cver c' = cver c -> cval c' = cval c -> SeenOK x c -> SeenOK x c'.
Proof. unfold SeenOK, idx. intros -> ->. auto. Qed.
Lemma SeenOK_bump x c c' : cver c' = cver c + 1 -> SeenOK x c -> SeenOK x c'.
Proof. unfold SeenOK. intros -> (A & B). split; [lia|]. intros. lia. Qed.

Lemma Seen_set_cell n rc ce d x' :
  Seen' n rc ce ->
  (cver x' = cver (ce d) /\ cval x' = cval (ce d)) \/ cver x' = cver (ce d) + 1 ->
  Seen' n rc (upd ce d x').
Proof.
  intros H Hx r Hr. specialize (H r Hr). upd_cases; auto. rewrite Hu in H.
  destruct Hx as [(A & B)|A]; eauto using SeenOK_same, SeenOK_bump.
Qed.

Lemma Seen_add_cell n rc ce k x' :
  Seen' n rc ce -> (forall r, (r < n)%nat -> rcell (rc r) <> k) -> Seen' n rc (upd ce k x').
Proof. intros H Hk r Hr. rewrite upd_other by auto. auto. Qed.

Lemma Seen_set_rcv n rc ce r x' :
  Seen' n rc ce -> SeenOK x' (ce (rcell x')) -> Seen' n (upd rc r x') ce.
Proof. intros H Hx q Hq. upd_cases; auto. Qed.

Lemma Seen_add_rcv n rc ce x' :
  Seen' n rc ce -> SeenOK x' (ce (rcell x')) -> Seen' (S n) (upd rc n x') ce.
Proof. intros H Hx q Hq. upd_cases; auto. apply H. lia. Qed.

Lemma Seen_step st a st' : Safe st -> Seen st -> step st a = Some st' -> Seen st'.
Proof.
  unfold Seen. intros Hs Hn H.
  assert (Hrc : forall r, (r < nrcv st)%nat -> rcell (rcvs st r) <> ncell st).
  { intros r Hr. destruct (sf_rcv _ Hs _ Hr). lia. }
  destruct a; cbn [step] in H; cases; auto; try use_live; try use_linked; unfold do_send; prj;
    try (apply Seen_set_cell; auto; prj; auto; fail).
  - (* Subscribe *) apply Seen_add_rcv; auto. split; prj; auto. lia.
  - (* CloneRx *) apply Seen_add_rcv; auto. (match goal with Hr : (r < nrcv st)%nat |- _ => exact (Hn _ Hr) end).
  - (* DropRx *) apply Seen_set_rcv; auto. (match goal with Hr : (r < nrcv st)%nat |- _ => exact (Hn _ Hr) end).
  - (* Observe *) apply Seen_set_rcv; auto. split; prj; auto. lia.
  - (* Borrow *) apply Seen_set_rcv; auto. (match goal with Hr : (r < nrcv st)%nat |- _ => exact (Hn _ Hr) end).
  - (* Changed *) apply Seen_set_rcv; auto. split; prj; auto. lia.
  - (* TransferRx *)
    apply Seen_add_rcv; prj.
    + apply Seen_add_cell; auto.
    + rewrite upd_same. split; unfold idx; prj; auto. lia.
  - (* TransferTx *)
    apply Seen_set_cell; prj.
    + apply Seen_add_cell; auto.
    + left. rewrite upd_other; auto. destruct (sf_sender _ Hs _ E). lia.
  - (* Fault *)
    apply Seen_set_cell; auto. destruct (lrecv (cells st d)); prj; auto.
Qed.

Lemma Seen_init p : Seen (init p).
Proof.
  intros r Hr. cbn [init nrcv rcvs cells] in *. assert (r = 0)%nat by lia. subst. rewrite upd_same.
  split; cbn; auto. lia.
Qed.

Lemma Seen_run acts : forall st st', Safe st -> Seen st -> run acts st = Some st' -> Seen st'.
Proof.
  induction acts as [|a acts IH]; cbn [run]; intros st st' Hs Hn H.
  - now injection H as <-.
  - destruct (step st a) eqn:E; [|discriminate]. apply (IH s); eauto using Safe_step, Seen_step.
Qed.

Theorem no_lost_wakeup acts p st r :
  run acts (init p) = Some st -> (r < nrcv st)%nat ->
  rsidx (rcvs st r) <> fst (cval (cells st (rcell (rcvs st r)))) ->
  changed_res st r = ChOk.
Proof.
  intros H Hr Hne. pose proof (Seen_run _ _ _ (Safe_init p) (Seen_init p) H r Hr) as (A & B).
  unfold changed_res. destruct (N.eqb_spec (rseen (rcvs st r)) (cver (cells st (rcell (rcvs st r))))); auto.
  exfalso. apply Hne. apply B. auto.
Qed.
