(** Link to the chmux port model: under EVERY schedule of [Chmux/PortFlow.v] what the chmux sender has
    handed over is a framing ([Rch/Base.v], [Framed]) of the attempts its user made -- complete
    messages for the operations that returned Ok, unfinished ones for those that were cancelled or are
    still in progress -- and what the receiving side has taken from the port queue is a prefix of it.
    This is what the schedules of [Props/C04.v] (a framing, cut anywhere) quantify over.

    The user of the port is an [rch::base::Sender]: it uses [send], [send_chunks] + [ChunkSender] and
    [connect], never [try_send], and the port stays open ([UDropTx] is the end of the channel). *)
From Remoc Require Import Lib.Base Gen.Consts Chmux.Parse Chmux.Recv Chmux.RecvProofs Chmux.PortFlow Chmux.PortFlowProofs
  Rch.Base Rch.BaseProofs.
From RecordUpdate Require Import RecordUpdate.

Definition completes (atts : list catt) : list msg :=
  flat_map (fun a => match a with ADataOk _ b => [MData b] | APortsOk ps => [MPorts ps] | _ => [] end) atts.

Lemma completes_app a b : completes (a ++ b) = completes a ++ completes b.
Proof. unfold completes. apply flat_map_app. Qed.

Lemma data_frames_snoc_gen cks : forall first l c, cks <> [] ->
  data_frames first false cks ++ [FData false l c] = data_frames first l (cks ++ [c]).
Proof.
  induction cks as [|x cks IH]; intros first l c Hne; [congruence|].
  destruct cks as [|y cks].
  - reflexivity.
  - change ((x :: y :: cks) ++ [c]) with (x :: ((y :: cks) ++ [c])).
    rewrite (data_frames_cons first false x (y :: cks)), (data_frames_cons first l x ((y :: cks) ++ [c])).
    cbn [andb app]. rewrite andb_false_r. f_equal. apply IH. discriminate.
Qed.

Lemma port_frames_snoc_gen cks : forall first l c, cks <> [] ->
  port_frames first false cks ++ [FPorts false l c] = port_frames first l (cks ++ [c]).
Proof.
  induction cks as [|x cks IH]; intros first l c Hne; [congruence|].
  destruct cks as [|y cks].
  - reflexivity.
  - change ((x :: y :: cks) ++ [c]) with (x :: ((y :: cks) ++ [c])).
    rewrite (port_frames_cons first false x (y :: cks)), (port_frames_cons first l x ((y :: cks) ++ [c])).
    cbn [andb app]. rewrite andb_false_r. f_equal. apply IH. discriminate.
Qed.

(** the frames of the operation in progress: an unfinished framing of what it has handed over *)
Definition part_data (first : bool) (cu : list N) (fs : list frame) : Prop :=
  if first then fs = [] /\ cu = []
  else exists cks, concat cks = cu /\ cks <> [] /\ fs = data_frames true false cks.
Definition part_ports (first : bool) (cu : list N) (fs : list frame) : Prop :=
  if first then fs = [] /\ cu = []
  else exists cks, concat cks = cu /\ cks <> [] /\ fs = port_frames true false cks.

Definition partial (o : sop) (cu : list N) (fs : list frame) : Prop :=
  match o with
  | SIdle => fs = []
  | SData cs _ _ first _ fin => part_data first cu fs /\ (cs = false -> fin = true)
  | SChunkIdle first _ => part_data first cu fs
  | SPorts _ first _ => part_ports first cu fs
  end.

Definition fr_inv (s : st) : Prop :=
  exists atts done cur_fs,
    emitted s = done ++ cur_fs /\ Framed atts done /\ completes atts = completed s /\
    partial (op s) (cur s) cur_fs.

Lemma Framed_snoc atts done a fa : Framed atts done -> framed1 a fa -> Framed (atts ++ [a]) (done ++ fa).
Proof.
  intros H Ha. apply Framed_app; auto. rewrite <- (app_nil_r fa). constructor; auto. constructor.
Qed.

(** one more data frame of the message in progress *)
Lemma part_data_emit first cu fs l c :
  part_data first cu fs ->
  exists cks, concat cks = cu ++ c /\ cks <> [] /\ fs ++ [FData first l c] = data_frames true l cks.
Proof.
  unfold part_data. destruct first.
  - intros [-> ->]. exists [c]. cbn [concat app]. rewrite app_nil_r. repeat split; auto. discriminate.
  - intros (cks & Hc & Hne & ->). exists (cks ++ [c]). rewrite concat_app, Hc. cbn [concat]. rewrite app_nil_r.
    repeat split; auto. + destruct cks; discriminate. + now apply data_frames_snoc_gen.
Qed.

Lemma part_ports_emit first cu fs l c :
  part_ports first cu fs ->
  exists cks, concat cks = cu ++ c /\ cks <> [] /\ fs ++ [FPorts first l c] = port_frames true l cks.
Proof.
  unfold part_ports. destruct first.
  - intros [-> ->]. exists [c]. cbn [concat app]. rewrite app_nil_r. repeat split; auto. discriminate.
  - intros (cks & Hc & Hne & ->). exists (cks ++ [c]). rewrite concat_app, Hc. cbn [concat]. rewrite app_nil_r.
    repeat split; auto. + destruct cks; discriminate. + now apply port_frames_snoc_gen.
Qed.

(** the operations an [rch::base::Sender] performs on its port *)
Definition base_act (a : act) : Prop :=
  match a with UTrySend _ _ | UDropTx => False | _ => True end.

Lemma fr_inv_init c md mp : fr_inv (init c md mp).
Proof. exists [], [], []. unfold init; prj. repeat split; auto. constructor. Qed.

(** an operation that ends without completing leaves an unfinished message *)
Lemma cut_inv o cu atts done cur_fs comp :
  Framed atts done -> completes atts = comp -> partial o cu cur_fs ->
  exists atts', Framed atts' (done ++ cur_fs) /\ completes atts' = comp.
Proof.
  intros Hfr Hco Hpa.
  assert (Hd : forall first, part_data first cu cur_fs -> exists atts', Framed atts' (done ++ cur_fs) /\ completes atts' = comp).
  { intros [|] Hp; unfold part_data in Hp.
    - destruct Hp as [-> _]. exists atts. now rewrite app_nil_r.
    - destruct Hp as (cks & Hc & Hne & ->). exists (atts ++ [ADataCut cu]). split.
      + apply Framed_snoc; auto. exists cks. auto.
      + rewrite completes_app, Hco. cbn [completes flat_map]. now rewrite app_nil_r. }
  destruct o as [|cs rest empty first a fin|first a|rest first a]; cbn [partial] in Hpa; eauto.
  - subst cur_fs. exists atts. now rewrite app_nil_r.
  - destruct Hpa as [Hpa _]. eauto.
  - destruct first; unfold part_ports in Hpa.
    + destruct Hpa as [-> _]. exists atts. now rewrite app_nil_r.
    + destruct Hpa as (cks & Hc & Hne & ->). exists (atts ++ [APortsCut cu]). split.
      * apply Framed_snoc; auto. exists cks. auto.
      * rewrite completes_app, Hco. cbn [completes flat_map]. now rewrite app_nil_r.
Qed.

Lemma data_complete atts done comp cks b :
  Framed atts done -> completes atts = comp -> cks <> [] -> concat cks = b ->
  Framed (atts ++ [ADataOk false b]) (done ++ data_frames true true cks) /\
  completes (atts ++ [ADataOk false b]) = comp ++ [MData b].
Proof.
  intros Hfr Hco Hne Hc. split.
  - apply Framed_snoc; auto. exists cks. auto.
  - rewrite completes_app, Hco. reflexivity.
Qed.

Lemma ports_complete atts done comp cks b :
  Framed atts done -> completes atts = comp -> cks <> [] -> concat cks = b ->
  Framed (atts ++ [APortsOk b]) (done ++ port_frames true true cks) /\
  completes (atts ++ [APortsOk b]) = comp ++ [MPorts b].
Proof.
  intros Hfr Hco Hne Hc. split.
  - apply Framed_snoc; auto. exists cks. auto.
  - rewrite completes_app, Hco. reflexivity.
Qed.

Ltac keep atts done cur_fs :=
  exists atts, done, cur_fs; prj; rw; repeat split; auto.

(** the state after [finish_op s ret None] *)
Ltac ended Hfr Hco Hpa Hem done cur_fs :=
  let atts' := fresh "atts'" in let H1 := fresh in let H2 := fresh in
  destruct (cut_inv _ _ _ _ _ _ Hfr Hco Hpa) as (atts' & H1 & H2);
  exists atts', (done ++ cur_fs), []; prj; rw; rewrite app_nil_r; repeat split; [exact Hem|exact H1|exact H2].

Lemma fr_inv_step s a s' : base_act a -> fr_inv s -> step_opt s a = Some s' -> fr_inv s'.
Proof.
  intros Hb (atts & done & cur_fs & Hem & Hfr & Hco & Hpa) H.
  destruct a; unfold step_opt in H; try (destruct Hb; fail).
  - (* USend *) cases. cbn [partial] in Hpa. subst cur_fs.
    exists atts, done, []. prj. repeat split; auto.
  - (* UChunkStart *) cases. cbn [partial] in Hpa. subst cur_fs.
    exists atts, done, []. prj. repeat split; auto.
  - (* UChunk *) cases. cbn [partial] in Hpa.
    exists atts, done, cur_fs. prj. repeat split; auto. discriminate.
  - (* UConnect *) cases.
    + exists atts, done, cur_fs. prj. rw. repeat split; auto.
    + cbn [partial] in Hpa. subst cur_fs. exists atts, done, []. prj. repeat split; auto.
  - (* UCancel: what was handed over stays as an unfinished message *)
    cases; ended Hfr Hco Hpa Hem done cur_fs.
  - (* TReq *) cases; try (ended Hfr Hco Hpa Hem done cur_fs); cbn [partial] in Hpa; keep atts done cur_fs; apply Hpa.
  - (* TEmit *)
    destruct (slot_free s); [|discriminate].
    destruct (op s) as [|cs rest empty first a fin|first a|rest first a] eqn:Eop; try discriminate; cbn [partial] in Hpa.
    + (* a data frame *)
      destruct Hpa as [Hpa Hcs].
      destruct (a =? 0); [discriminate|].
      assert (Hemit : forall l c, exists cks, concat cks = cur s ++ c /\ cks <> [] /\
                        emitted s ++ [FData first l c] = done ++ data_frames true l cks).
      { intros l c. destruct (part_data_emit first (cur s) cur_fs l c Hpa) as (cks & Hc & Hne & Hfs).
        exists cks. repeat split; auto. now rewrite Hem, <- app_assoc, Hfs. }
      assert (Hfinish : forall l c s1, l = true -> emitted s1 = emitted s ++ [FData first l c] ->
                completed s1 = completed s ++ [MData (cur s ++ c)] -> op s1 = SIdle -> fr_inv s1).
      { intros l c s1 -> He Hcm Ho. destruct (Hemit true c) as (cks & Hc & Hne & Hfs).
        destruct (data_complete atts done (completed s) cks (cur s ++ c) Hfr Hco Hne Hc) as [F1 F2].
        exists (atts ++ [ADataOk false (cur s ++ c)]), (done ++ data_frames true true cks), [].
        rewrite app_nil_r, He, Hfs, Hcm, Ho. repeat split; auto. }
      assert (Hgoon : forall c s1 o1, emitted s1 = emitted s ++ [FData first false c] ->
                completed s1 = completed s -> cur s1 = cur s ++ c -> op s1 = o1 ->
                (forall fs, part_data false (cur s ++ c) fs -> partial o1 (cur s ++ c) fs) -> fr_inv s1).
      { intros c s1 o1 He Hcm Hcu Ho Hp. destruct (Hemit false c) as (cks & Hc & Hne & Hfs).
        exists atts, done, (data_frames true false cks). rewrite He, Hfs, Hcm, Hcu, Ho. repeat split; auto.
        apply Hp. exists cks. auto. }
      destruct empty.
      * destruct cs; [destruct fin|]; injection H as <-.
        -- apply (Hfinish true []); prj; rewrite ?app_nil_r; auto.
        -- apply (Hgoon [] _ (SChunkIdle false (a - 1))); prj; rewrite ?app_nil_r; auto.
        -- rewrite (Hcs eq_refl). apply (Hfinish true []); prj; rewrite ?app_nil_r; auto.
      * set (m := N.to_nat (N.min (N.min (len rest) (chunk (cfg s))) a)) in *.
        destruct (skipn m rest) as [|y r'] eqn:Esk.
        -- destruct cs; [destruct fin|]; cbn [andb] in H; injection H as <-.
           ++ apply (Hfinish true (firstn m rest)); prj; auto.
           ++ apply (Hgoon (firstn m rest) _ (SChunkIdle false (a - len (firstn m rest)))); prj; auto.
           ++ rewrite (Hcs eq_refl). cbn [andb]. apply (Hfinish true (firstn m rest)); prj; auto.
        -- cbn [andb] in H. injection H as <-.
           apply (Hgoon (firstn m rest) _ (SData cs (y :: r') false false (a - len (firstn m rest)) fin)); prj; auto.
           intros fs Hfs. cbn [partial]. auto.
    + (* a port batch *)
      destruct (a <? 4); [discriminate|].
      set (k := N.to_nat (N.min (len rest) (N.min (chunk (cfg s)) a / 4))) in *.
      assert (Hemit : forall l c, exists cks, concat cks = cur s ++ c /\ cks <> [] /\
                        emitted s ++ [FPorts first l c] = done ++ port_frames true l cks).
      { intros l c. destruct (part_ports_emit first (cur s) cur_fs l c Hpa) as (cks & Hc & Hne & Hfs).
        exists cks. repeat split; auto. now rewrite Hem, <- app_assoc, Hfs. }
      destruct (skipn k rest) as [|y r'] eqn:Esk; injection H as <-.
      * destruct (Hemit true (firstn k rest)) as (cks & Hc & Hne & Hfs).
        destruct (ports_complete atts done (completed s) cks (cur s ++ firstn k rest) Hfr Hco Hne Hc) as [F1 F2].
        exists (atts ++ [APortsOk (cur s ++ firstn k rest)]), (done ++ port_frames true true cks), []. prj.
        rewrite app_nil_r, Hfs. repeat split; auto.
      * destruct (Hemit false (firstn k rest)) as (cks & Hc & Hne & Hfs).
        exists atts, done, (port_frames true false cks). prj. rewrite Hfs. repeat split; auto.
        exists cks. auto.
  - (* TMux *) cases. keep atts done cur_fs.
  - (* TLink *) cases; keep atts done cur_fs.
  - (* RConsume *) cases; keep atts done cur_fs.
  - (* RFlush *) cases; keep atts done cur_fs.
  - (* TCredMux *) cases; keep atts done cur_fs.
  - (* TCredLink *) cases; keep atts done cur_fs.
  - (* TClose *) cases; keep atts done cur_fs.
Qed.

Lemma fr_inv_run c md mp acts : Forall base_act acts -> fr_inv (run acts (init c md mp)).
Proof.
  unfold run. assert (H0 : fr_inv (init c md mp)) by apply fr_inv_init.
  revert H0. generalize (init c md mp) as s. induction acts as [|a acts IH]; intros s H0 Hb; cbn [fold_left]; auto.
  inversion Hb as [|? ? Ha Hr]; subst. apply IH; auto. unfold step.
  destruct (step_opt s a) as [s'|] eqn:E; auto. eapply fr_inv_step; eauto.
Qed.

(** Under every schedule of the port (user calls of a base sender incl. cancellation at every await,
    credit grants, queue slots, deliveries, credit returns, closure): the frames handed over are a
    framing of an attempt list whose complete members are exactly the operations that returned Ok, and
    the receiving side has consumed a prefix of them. *)
Theorem emitted_framed c md mp acts :
  cfg_ok c -> Forall base_act acts ->
  let s := run acts (init c md mp) in
  exists atts, Framed atts (emitted s) /\ completes atts = completed s /\
               exists rest, emitted s = consumed s ++ rest.
Proof.
  intros Hc Hb s. destruct (fr_inv_run c md mp acts Hb) as (atts & done & cur_fs & Hem & Hfr & Hco & Hpa).
  fold s in Hem, Hco, Hpa.
  destruct (cut_inv _ _ _ _ _ _ Hfr Hco Hpa) as (atts' & H1 & H2).
  exists atts'. rewrite Hem. repeat split; auto.
  destruct (Inv_run c md mp acts Hc) as [_ (Hfifo & _)]. fold s in Hfifo.
  exists (rxq s ++ link s ++ evq s). now rewrite <- Hem, <- Hfifo.
Qed.
