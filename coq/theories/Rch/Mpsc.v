(** [rch::mpsc] with remote senders ([remoc/src/rch/mpsc/{mod,sender,receiver}.rs]).

    Every remote sender has its own chmux port: at the sending endpoint [send_impl] takes the queued
    values one by one and hands each to a [base::Sender]; at the receiving endpoint one [recv_impl]
    task per remote sender owns the [base::Receiver] of that port and pushes whatever it yields --
    a value, or a receive error wrapped as [RemoteReceive] -- into ONE bounded local queue
    ([tokio::sync::mpsc::channel(BUFFER)], a clone of its sender per task).  [Receiver::recv] pops that
    queue: values and non-final errors are returned, a final error is held back in [final_err] until
    every task has ended and the queue is empty.

    The state below is the receiving endpoint.  [srcs]: per remote sender what its base receiver will
    still yield (the result list of [Rch/Base.v]'s receiver on that port).  All scheduling -- which
    task forwards next, when a port or the connection ends, when the user receives -- is an action. *)
From Remoc Require Import Lib.Base.

Inductive mentry :=
| MVal (b : list N)       (** [Ok(value)] *)
| MErr (e : N)            (** [Err(RemoteReceive(err))], [err] not final (size, deserialize, ports) *)
| MFinal.                 (** a final error: [RemoteReceive(Receive(ChMux))], [RemoteConnect], [RemoteListen] *)

Record mstate := mk_mstate {
  srcs : list (list mentry);      (** per sender: still to come from its base receiver (never [MFinal]) *)
  alive : list bool;              (** per sender: its forwarding task is running *)
  queue : list (nat * mentry);    (** the local queue *)
  cap : N;                        (** BUFFER *)
  final_err : option nat;         (** held back final error (of which sender) *)
  outs : list (option nat * mentry) (** what [recv] calls returned; [(None, MFinal)] stands for [Ok(None)] *)
}.

Definition minit (ss : list (list mentry)) (c : N) : mstate :=
  {| srcs := ss; alive := map (fun _ => true) ss; queue := []; cap := c; final_err := None; outs := [] |}.

Fixpoint set_nth {A} (n : nat) (x : A) (l : list A) : list A :=
  match l, n with
  | [], _ => []
  | _ :: r, O => x :: r
  | y :: r, S n' => y :: set_nth n' x r
  end.

Inductive mact :=
| MFwd (i : nat)      (** task [i]: [remote_rx.recv()] yielded its next result and [tx.send] found room *)
| MStop (i : nat)     (** task [i] ends: [Ok(None)] from the port, local close/drop, connection gone *)
| MFail (i : nat)     (** task [i]: final receive error, pushed into the queue, task ends *)
| MRecv.              (** the user calls [recv] and it completes (a pending call changes nothing) *)

(** [recv]: pops until something is returned; final errors are stashed *)
Fixpoint recv_loop (q : list (nat * mentry)) (fe : option nat)
  : option (list (nat * mentry) * option nat * (option nat * mentry)) :=
  match q with
  | (i, MFinal) :: q' => recv_loop q' (match fe with None => Some i | Some _ => fe end)
  | (i, e) :: q' => Some (q', fe, (Some i, e))
  | [] => None
  end.

(** queue drained of final errors: what [final_err] is afterwards *)
Fixpoint drain_finals (q : list (nat * mentry)) (fe : option nat) : option nat :=
  match q with
  | (i, _) :: q' => drain_finals q' (match fe with None => Some i | Some _ => fe end)
  | [] => fe
  end.

Definition mstep (s : mstate) (a : mact) : mstate :=
  match a with
  | MFwd i =>
      match nth i (alive s) false, nth i (srcs s) [] with
      | true, e :: rest =>
          if len (queue s) <? cap s then
            {| srcs := set_nth i rest (srcs s); alive := alive s; queue := queue s ++ [(i, e)]; cap := cap s;
               final_err := final_err s; outs := outs s |}
          else s
      | _, _ => s
      end
  | MStop i =>
      {| srcs := srcs s; alive := set_nth i false (alive s); queue := queue s; cap := cap s;
         final_err := final_err s; outs := outs s |}
  | MFail i =>
      if nth i (alive s) false && (len (queue s) <? cap s) then
        {| srcs := srcs s; alive := set_nth i false (alive s); queue := queue s ++ [(i, MFinal)]; cap := cap s;
           final_err := final_err s; outs := outs s |}
      else s
  | MRecv =>
      match recv_loop (queue s) (final_err s) with
      | Some (q', fe, o) =>
          {| srcs := srcs s; alive := alive s; queue := q'; cap := cap s; final_err := fe; outs := outs s ++ [o] |}
      | None =>
          (* only held back errors (or nothing) in the queue *)
          if existsb (fun b => b) (alive s) then
            (* pending; the final errors seen so far stay stashed *)
            {| srcs := srcs s; alive := alive s; queue := []; cap := cap s;
               final_err := drain_finals (queue s) (final_err s); outs := outs s |}
          else
            match drain_finals (queue s) (final_err s) with
            | Some i =>
                {| srcs := srcs s; alive := alive s; queue := []; cap := cap s; final_err := None;
                   outs := outs s ++ [(Some i, MFinal)] |}
            | None =>
                {| srcs := srcs s; alive := alive s; queue := []; cap := cap s; final_err := None;
                   outs := outs s ++ [(None, MFinal)] |}
            end
      end
  end.

Definition mrun (acts : list mact) (s : mstate) : mstate := fold_left mstep acts s.

(** projections to one sender *)
Definition is_final (e : mentry) : bool := match e with MFinal => true | _ => false end.

Definition proj_q (i : nat) (q : list (nat * mentry)) : list mentry :=
  map snd (filter (fun x => Nat.eqb (fst x) i && negb (is_final (snd x))) q).

Definition proj_o (i : nat) (o : list (option nat * mentry)) : list mentry :=
  map snd (filter (fun x => match fst x with Some j => Nat.eqb j i | None => false end && negb (is_final (snd x))) o).

Definition vals (l : list mentry) : list (list N) :=
  flat_map (fun e => match e with MVal b => [b] | _ => [] end) l.

(** the receiver reported the end of the channel ([Ok(None)] or the held back final error) *)
Definition ended (o : option nat * mentry) : bool := is_final (snd o).
