(** Model of [remoc::rch::io]: an [AsyncWrite] sender and an [AsyncRead] receiver over a binary
    ([rch::bin] / chmux) channel, with the size of the stream fixed at creation ([sized]) or announced
    over a separate oneshot channel at shutdown ([channel]).

    Transcribed from remoc/src/rch/io/{mod,sender,receiver}.rs, rch/bin/{sender,receiver}.rs and the
    parts of chmux/{sender,receiver}.rs they use ([Sender::send], [Receiver::recv], [DataBuf]).

    What the model keeps:
    - sender: [bytes_written], [size_mode], the cached [chunk_size], whether the [bin::Sender] is in
      its slot, and the [sending] future (at most ONE accepted chunk is buffered in it: [poll_write]
      creates the future but does not poll it; the next write/flush/shutdown polls it);
    - transport: the event stream seen by [chmux::Receiver::recv] -- a complete message
      ([EChunk], a list of segments because [chmux::Sender::send] may split a message when it gets
      only part of the credits), the end of the stream ([EEnd]: the [chmux::Sender] was dropped) or an
      error ([EErr]) -- split into the part still in flight and the part that has arrived; plus the
      oneshot cell carrying the size of an unsized stream;
    - receiver: [bytes_read], [current_buf], [size_info], [eof_verified], whether the
      [bin::Receiver] is in its slot, and the state of the pending future.
    A future that completed with an error stays in its field ([ready!(fut.poll(cx))?] returns before
    the field is cleared); polling it again is the Rust panic "`async fn` resumed after completion".
    The model makes that an explicit [Panic] result ([FDone], [RRecvDone], [RVerDone]).

    All nondeterminism is in the [action]: what the user calls with which buffer, whether the
    transport can take the buffered chunk now ([e_ready]: flow-control credits) and how it splits
    it ([e_split]), when an event / the size announcement arrives, when the connection is cut.

    Not modelled (assumptions): the channel is already connected (the half has been moved to the
    other endpoint and the port is open; wiring is C05's subject), the receiver is not dropped or
    closed before the sender, [chunk_size] does not change. *)
From Remoc Require Import Lib.Base.
From RecordUpdate Require Import RecordUpdate.
Import RecordSetNotations.

(** [std::io::ErrorKind] values that occur. *)
Inductive ekind :=
  | KWriteZero | KBrokenPipe | KUnexpectedEof | KConnRefused | KConnReset | KConnAborted | KInvalidData.

(** Result of one poll-to-quiescence of an operation. *)
Inductive result :=
  | Done (n : N) (bytes : list N)  (* write: [n] bytes accepted; read: [n] bytes copied; flush/shutdown/drop: 0 *)
  | Eof                            (* read: [Ok(())] with nothing copied because [eof_verified] *)
  | Fail (k : ekind)
  | Pending
  | Panic
  | Gone                           (* the half does not exist any more *)
  | OutOfFuel.                     (* never produced, see [IoChanProofs.poll_read_total] *)

(** * Sender *)

(** [SizeMode]: [Unknown] holds the oneshot sender for the size. *)
Inductive size_mode := Known (n : N) | Unknown.

(** A [ReusableBoxFuture] field: absent, running with its captured data, or completed with an
    error and left in place. *)
Inductive fut (A : Type) := FNone | FRun (a : A) | FDone.
Arguments FNone {A}. Arguments FRun {A} a. Arguments FDone {A}.

Record sender := mkS {
  s_written : N;            (* bytes_written *)
  s_mode : size_mode;       (* size_mode *)
  s_chunk : option N;       (* chunk_size cached by poll_chunk_size *)
  s_bin : bool;             (* bin_sender slot is Some *)
  s_sending : fut (list N)  (* sending: send_data(bin_sender, data) *)
}.
#[export] Instance eta_sender : Settable _ := settable! mkS <s_written; s_mode; s_chunk; s_bin; s_sending>.

Inductive event := EChunk (segs : list (list N)) | EEnd | EErr (k : ekind).

(** Environment of a sender poll. *)
Record env := mkE { e_ready : bool; e_split : list N }.

(** Splits a message into segments of the given sizes (the rest is the last segment). *)
Fixpoint cut_at (sizes : list N) (data : list N) : list (list N) :=
  match sizes with
  | [] => [data]
  | k :: r => firstn (N.to_nat k) data :: cut_at r (skipn (N.to_nat k) data)
  end.

Inductive pres := POk | PPending | PErr (k : ekind) | PPanic.

(** What a sender poll does to the world. *)
Record tx_out := mkO {
  o_res : result;
  o_tx : sender;
  o_evs : list event;      (* events handed to the transport *)
  o_acc : list N;          (* bytes accepted from the caller's buffer *)
  o_sent : list N;         (* bytes whose send completed *)
  o_size : option N        (* size announced on the oneshot *)
}.

(** [Sender::poll_complete].  The [connecting] future never stays pending under the assumption that
    the channel is connected, so it is folded into [chunk_size_of]. *)
Definition poll_complete_tx (down : bool) (e : env) (s : sender) : pres * sender * list event * list N :=
  match s_sending s with
  | FNone => (POk, s, [], [])
  | FDone => (PPanic, s, [], [])
  | FRun d =>
      if down then (PErr KConnReset, s <| s_sending := FDone |>, [], [])
      else if e_ready e then (POk, s <| s_bin := true |> <| s_sending := FNone |>, [EChunk (cut_at (e_split e) d)], d)
      else (PPending, s, [], [])
  end.

Definition pres_result (p : pres) : result :=
  match p with POk => Done 0 [] | PPending => Pending | PErr k => Fail k | PPanic => Panic end.

(** [poll_write]: complete the pending send; make sure the chunk size is known; take the
    bin sender; empty buffer -> [Ok(0)]; size reached -> [WriteZero]; otherwise clamp to the
    remaining size and to the chunk size, count the bytes and create (not poll) the send future. *)
Definition poll_write (cs : N) (down : bool) (e : env) (s : sender) (buf : list N) : tx_out :=
  let '(p, s1, evs, sent) := poll_complete_tx down e s in
  match p with
  | POk =>
      (* poll_chunk_size *)
      match (match s_chunk s1 with
             | Some c => Some (c, s1)
             | None => if s_bin s1 then Some (cs, s1 <| s_chunk := Some cs |>) else None
             end) with
      | None => mkO (Fail KBrokenPipe) s1 evs [] sent None
      | Some (chunk_size, s2) =>
          if negb (s_bin s2) then mkO (Fail KBrokenPipe) s2 evs [] sent None
          else match buf with
          | [] => mkO (Done 0 []) s2 evs [] sent None
          | _ :: _ =>
              match (match s_mode s2 with
                     | Known expected =>
                         if expected <=? s_written s2 then None
                         else Some (N.min (len buf) (expected - s_written s2))
                     | Unknown => Some (len buf)
                     end) with
              | None => mkO (Fail KWriteZero) s2 evs [] sent None
              | Some max_write =>
                  let write_len := N.min max_write chunk_size in
                  let data := firstn (N.to_nat write_len) buf in
                  mkO (Done write_len [])
                      (s2 <| s_written := s_written s2 + write_len |> <| s_bin := false |> <| s_sending := FRun data |>)
                      evs data sent None
              end
          end
      end
  | _ => mkO (pres_result p) s1 evs [] sent None
  end.

Definition poll_flush (down : bool) (e : env) (s : sender) : tx_out :=
  let '(p, s1, evs, sent) := poll_complete_tx down e s in
  mkO (pres_result p) s1 evs [] sent None.

(** [poll_shutdown]: complete the pending send, drop the bin sender (ends the data stream), then
    replace the size mode by [Known(bytes_written)] and verify (sized) or announce (unsized). *)
Definition poll_shutdown (down : bool) (e : env) (s : sender) : tx_out :=
  let '(p, s1, evs, sent) := poll_complete_tx down e s in
  match p with
  | POk =>
      let evs' := if s_bin s1 then evs ++ [EEnd] else evs in
      let s2 := s1 <| s_bin := false |> <| s_mode := Known (s_written s1) |> in
      match s_mode s1 with
      | Known expected =>
          mkO (if s_written s1 =? expected then Done 0 [] else Fail KUnexpectedEof) s2 evs' [] sent None
      | Unknown => mkO (Done 0 []) s2 evs' [] sent (Some (s_written s1))
      end
  | _ => mkO (pres_result p) s1 evs [] sent None
  end.

(** The [bin::Sender] (hence the [chmux::Sender]) still exists: in its slot or inside the send future. *)
Definition liveb (s : sender) : bool :=
  s_bin s || match s_sending s with FRun _ => true | _ => false end.

(** * Receiver *)

Inductive size_info := Determined (n : N) | Undetermined.
Inductive rstate := RIdle | RReceiving | RVerifying | RRecvDone | RVerDone.

Record receiver := mkR {
  r_bin : bool;                       (* bin_receiver slot is Some *)
  r_size : option size_info;          (* size_info *)
  r_read : N;                         (* bytes_read *)
  r_cur : option (list (list N));     (* current_buf : Option<DataBuf> *)
  r_state : rstate;
  r_eof : bool                        (* eof_verified *)
}.
#[export] Instance eta_receiver : Settable _ := settable! mkR <r_bin; r_size; r_read; r_cur; r_state; r_eof>.

(** The oneshot for the size: nothing yet, a value, or the sender side is gone. *)
Inductive cell := CEmpty | CSent (n : N) | CDropped.

(** [DataBuf]: [remaining], [chunk], [advance] ([None] = "cannot advance beyond end of data"). *)
Definition remaining (segs : list (list N)) : N := len (concat segs).
Definition chunk (segs : list (list N)) : list N := match segs with [] => [] | b :: _ => b end.
Fixpoint advance (cnt : N) (segs : list (list N)) : option (list (list N)) :=
  if cnt =? 0 then Some segs else
  match segs with
  | [] => None
  | b :: r => if cnt <? len b then Some (skipn (N.to_nat cnt) b :: r) else advance (cnt - len b) r
  end.

Inductive iter_res :=
  | IRet (r : receiver) (q : list event) (res : result)
  | ICont (r : receiver) (q : list event).

(** The else-branch of the loop body: take the bin receiver and start receiving, or, if it is gone
    (end of stream seen), [start_eof_verification]. *)
Definition take_or_verify (r : receiver) (q : list event) : iter_res :=
  if r_bin r then ICont (r <| r_bin := false |> <| r_state := RReceiving |>) q
  else match r_size r with
       | Some (Determined expected) =>
           if r_read r =? expected then ICont (r <| r_eof := true |>) q
           else IRet r q (Fail KUnexpectedEof)
       | Some Undetermined => ICont (r <| r_size := None |> <| r_state := RVerifying |>) q
       | None => ICont (r <| r_eof := true |>) q
       end.

(** The loop body after [poll_complete]. *)
Definition read_body (want : N) (r : receiver) (q : list event) : iter_res :=
  if r_eof r then IRet r q Eof else
  let remaining_allowed :=
    match r_size r with Some (Determined expected) => Some (expected - r_read r) | _ => None end in
  match remaining_allowed with
  | Some 0 => IRet (r <| r_eof := true |>) q Eof
  | _ =>
      match r_cur r with
      | Some segs =>
          if 0 <? remaining segs then
            let to_copy := N.min (len (chunk segs)) want in
            let to_copy := match remaining_allowed with Some rem => N.min to_copy rem | None => to_copy end in
            match advance to_copy segs with
            | Some segs' =>
                IRet (r <| r_read := r_read r + to_copy |> <| r_cur := Some segs' |>) q
                     (Done to_copy (firstn (N.to_nat to_copy) (chunk segs)))
            | None => IRet r q Panic
            end
          else take_or_verify (r <| r_cur := None |>) q
      | None => take_or_verify r q
      end
  end.

(** [Receiver::poll_complete], second half: the size verification future. *)
Definition complete_verify (want : N) (sz : cell) (r : receiver) (q : list event) : iter_res :=
  match r_state r with
  | RVerDone => IRet r q Panic
  | RVerifying =>
      match sz with
      | CEmpty => IRet r q Pending
      | CDropped => IRet (r <| r_state := RVerDone |>) q (Fail KUnexpectedEof)
      | CSent expected =>
          let r1 := r <| r_state := RIdle |> <| r_size := Some (Determined expected) |> in
          if r_read r =? expected then read_body want (r1 <| r_eof := true |>) q
          else IRet r1 q (Fail KUnexpectedEof)
      end
  | _ => read_body want r q
  end.

(** One iteration of the loop in [poll_read]: [poll_complete] (first half: the receive future; an
    [EChunk] puts the bin receiver back, [EEnd] does not), then the body. *)
Definition read_iter (want : N) (sz : cell) (r : receiver) (q : list event) : iter_res :=
  match r_state r with
  | RRecvDone => IRet r q Panic
  | RReceiving =>
      match q with
      | [] => IRet r q Pending
      | EChunk segs :: q' =>
          complete_verify want sz (r <| r_bin := true |> <| r_cur := Some segs |> <| r_state := RIdle |>) q'
      | EEnd :: q' => complete_verify want sz (r <| r_cur := None |> <| r_state := RIdle |>) q'
      | EErr k :: q' => IRet (r <| r_state := RRecvDone |>) q' (Fail k)
      end
  | _ => complete_verify want sz r q
  end.

Fixpoint poll_read_fuel (fuel : nat) (want : N) (sz : cell) (r : receiver) (q : list event)
  : receiver * list event * result :=
  match fuel with
  | O => (r, q, OutOfFuel)
  | S f =>
      match read_iter want sz r q with
      | IRet r' q' res => (r', q', res)
      | ICont r' q' => poll_read_fuel f want sz r' q'
      end
  end.

Definition poll_read (want : N) (sz : cell) (r : receiver) (q : list event) :=
  poll_read_fuel (4 * length q + 4)%nat want sz r q.

(** * The whole channel *)

Record sys := mkY {
  y_cs : N;                 (* chunk size of the chmux port (set by the receiving endpoint) *)
  y_mode0 : size_mode;      (* how the channel was created *)
  y_tx : option sender;     (* None: dropped *)
  y_net : list event;       (* in flight *)
  y_rxq : list event;       (* arrived in the receiver's port queue *)
  y_size : cell;            (* the size oneshot, sender side *)
  y_arrived : bool;         (* ... its state has reached the receiving endpoint *)
  y_down : bool;            (* connection cut *)
  y_rx : receiver;
  (* ghost history *)
  g_acc : list N;           (* bytes accepted by writes *)
  g_sent : list N;          (* bytes whose send completed *)
  g_read : list N           (* bytes returned by reads *)
}.

Definition init_sender (m : size_mode) : sender := mkS 0 m None true FNone.
Definition init_receiver (m : size_mode) : receiver :=
  mkR true (Some (match m with Known n => Determined n | Unknown => Undetermined end)) 0 None RIdle false.
Definition init (cs : N) (m : size_mode) : sys :=
  mkY cs m (Some (init_sender m)) [] [] CEmpty false false (init_receiver m) [] [] [].

(** What the receiver's [size_rx.await] sees. *)
Definition view (y : sys) : cell :=
  if y_arrived y then y_size y else if y_down y then CDropped else CEmpty.

Inductive action :=
  | AWrite (buf : list N) (e : env)
  | AFlush (e : env)
  | AShutdown (e : env)
  | ADropTx
  | ARead (want : N)
  | ADeliver          (* the oldest event in flight arrives *)
  | ADeliverSize      (* the state of the size oneshot arrives *)
  | ACut.             (* the connection fails: everything in flight is lost *)

Definition apply_tx (y : sys) (o : tx_out) : sys * result :=
  (mkY (y_cs y) (y_mode0 y) (Some (o_tx o))
       (if y_down y then y_net y else y_net y ++ o_evs o) (y_rxq y)
       (match o_size o with Some n => CSent n | None => y_size y end) (y_arrived y) (y_down y) (y_rx y)
       (g_acc y ++ o_acc o) (g_sent y ++ o_sent o) (g_read y),
   o_res o).

Definition result_bytes (res : result) : list N := match res with Done _ bs => bs | _ => [] end.

Definition step (y : sys) (a : action) : sys * result :=
  match a with
  | AWrite buf e =>
      match y_tx y with
      | None => (y, Gone)
      | Some s => apply_tx y (poll_write (y_cs y) (y_down y) e s buf)
      end
  | AFlush e =>
      match y_tx y with None => (y, Gone) | Some s => apply_tx y (poll_flush (y_down y) e s) end
  | AShutdown e =>
      match y_tx y with None => (y, Gone) | Some s => apply_tx y (poll_shutdown (y_down y) e s) end
  | ADropTx =>
      match y_tx y with
      | None => (y, Gone)
      | Some s =>
          (mkY (y_cs y) (y_mode0 y) None
               (if y_down y then y_net y else if liveb s then y_net y ++ [EEnd] else y_net y) (y_rxq y)
               (match s_mode s with Unknown => CDropped | Known _ => y_size y end) (y_arrived y) (y_down y)
               (y_rx y) (g_acc y) (g_sent y) (g_read y),
           Done 0 [])
      end
  | ARead want =>
      let '(r, q, res) := poll_read want (view y) (y_rx y) (y_rxq y) in
      (mkY (y_cs y) (y_mode0 y) (y_tx y) (y_net y) q (y_size y) (y_arrived y) (y_down y) r
           (g_acc y) (g_sent y) (g_read y ++ result_bytes res), res)
  | ADeliver =>
      if y_down y then (y, Done 0 []) else
      match y_net y with
      | [] => (y, Done 0 [])
      | ev :: n =>
          (mkY (y_cs y) (y_mode0 y) (y_tx y) n (y_rxq y ++ [ev]) (y_size y) (y_arrived y) (y_down y) (y_rx y)
               (g_acc y) (g_sent y) (g_read y), Done 0 [])
      end
  | ADeliverSize =>
      if y_down y then (y, Done 0 []) else
      match y_size y with
      | CEmpty => (y, Done 0 [])
      | _ => (mkY (y_cs y) (y_mode0 y) (y_tx y) (y_net y) (y_rxq y) (y_size y) true (y_down y) (y_rx y)
                  (g_acc y) (g_sent y) (g_read y), Done 0 [])
      end
  | ACut =>
      if y_down y then (y, Done 0 []) else
      (mkY (y_cs y) (y_mode0 y) (y_tx y) [] (y_rxq y ++ [EErr KConnReset]) (y_size y) (y_arrived y) true (y_rx y)
           (g_acc y) (g_sent y) (g_read y), Done 0 [])
  end.

Fixpoint run_acts (acts : list action) (y : sys) : sys * list result :=
  match acts with
  | [] => (y, [])
  | a :: r => let '(y1, o) := step y a in let '(y2, os) := run_acts r y1 in (y2, o :: os)
  end.

(** Observable history of a run. *)
Fixpoint bytes_read_of (outs : list result) : list N :=
  match outs with [] => [] | o :: r => result_bytes o ++ bytes_read_of r end.

(** The bytes a write accepted: the first [n] of its buffer. *)
Definition accepted_by (a : action) (o : result) : list N :=
  match a, o with
  | AWrite buf _, Done n _ => firstn (N.to_nat n) buf
  | _, _ => []
  end.

Fixpoint bytes_accepted_of (acts : list action) (outs : list result) : list N :=
  match acts, outs with
  | a :: ar, o :: outr => accepted_by a o ++ bytes_accepted_of ar outr
  | _, _ => []
  end.

(** A shutdown that returned [Ok]. *)
Definition shutdown_ok (acts : list action) (outs : list result) : Prop :=
  exists e, In (AShutdown e, Done 0 []) (combine acts outs).

(** The size announced on the oneshot, if any. *)
Definition announced (y : sys) : option N := match y_size y with CSent e => Some e | _ => None end.

(** Bytes handed to the transport so far, wherever they are now (ghost). *)
Definition bytes_transmitted (y : sys) : list N := g_sent y.
