(** * Channel halves embedded in values: ports, forwarding, interlock (property C05)

    Transcription of
    - [rch/base/sender.rs] [PortSerializer] ([connect]: [try_allocate] a local port, push
      [(port, callback)] in visiting order; [Sender::send]: after the data, one [PortReq::new(port)] per
      collected entry -- id = port number -- through [chmux::Sender::connect], callbacks zipped with the
      returned connect futures in the same order),
    - [chmux/sender.rs] [connect] (the requests leave in batches of at most
      [min(chunk_size, credits)/4] ports flagged first/last) and [chmux/receiver.rs] (the receiver
      concatenates the batches of one message),
    - [chmux/forward.rs] (for every received request allocate an outgoing port and send
      [PortReq::new(port).with_id(req.id())]; when the outgoing connect is accepted, accept the incoming
      request, otherwise reject it),
    - [rch/base/receiver.rs] [PortDeserializer] ([accept]: [try_allocate] a local port and
      [expected.insert(remote_port, (local_port, callback))]; after deserialization every received request
      is looked up BY ID with [expected.remove(&request.id())]: found => callback spawned, which accepts
      the request; not found => the request is dropped, i.e. rejected; entries left over =>
      [MissingPorts]),
    - [rch/interlock.rs] and its use in [rch/{bin,lr}/{sender,receiver}.rs].

    What is abstracted: a value is the ordered list of halves its serializer visits (nesting in
    vectors, options, tuples, enums, maps only determines this order, and the deserializer visits the
    transported form in the same order: codec round trip, trusted); a half is identified by a label
    [cbid] (channel number and side) which stands for the callback closure registered for it.  Port
    numbers are chosen by [rand::random()] among the unused ones: the model takes the list of numbers
    the allocator will hand out as an argument, and the theorems quantify over every such list without
    repetition. *)
From Remoc Require Import Lib.Base.

(** ** Labels, halves, requests *)

Inductive side := STx | SRx.

Definition side_eqb (a b : side) : bool :=
  match a, b with STx, STx | SRx, SRx => true | _, _ => false end.

(** The label of a serialized half: channel number and which half.  On the origin it names the
    callback (and thereby the local counterpart it will attach the new port to); on the far end it
    names the delivered half. *)
Record cbid := mkCb { cb_chan : N; cb_side : side }.

Definition cbid_eqb (a b : cbid) : bool :=
  (cb_chan a =? cb_chan b) && side_eqb (cb_side a) (cb_side b).

(** How a half travels.  [MReal]: both ends use the same type (normal case).  [MIgnored]: the
    deserializing type does not contain this half (older version of the struct): its port request is
    superfluous.  [MFake id]: the value names port [id] but no request for it arrives (request lost /
    newer version of the struct on the deserializing side). *)
Inductive mode := MReal | MIgnored | MFake (id : N).

Record leaf := mkLeaf { l_cb : cbid; l_mode : mode }.

(** A port-open request as it travels in a [PortData] message: sender-side port number and id. *)
Record req := mkReq { r_port : N; r_id : N }.

(** ** Association lists standing for [HashMap<u32, _>] *)

Fixpoint assoc {A} (k : N) (m : list (N * A)) : option A :=
  match m with
  | [] => None
  | (k', v) :: m' => if k' =? k then Some v else assoc k m'
  end.

Fixpoint remove {A} (k : N) (m : list (N * A)) : list (N * A) :=
  match m with
  | [] => []
  | (k', v) :: m' => if k' =? k then remove k m' else (k', v) :: remove k m'
  end.

(** [HashMap::insert]: a later entry for the same key replaces the earlier one. *)
Definition insert {A} (k : N) (v : A) (m : list (N * A)) : list (N * A) := (k, v) :: remove k m.

(** ** Serialization on the origin *)

(** [serialize ls ps]: [ps] are the port numbers the origin's allocator can still hand out (in the
    order it will choose them).  Result: the table port -> callback label in visiting order (the
    [requests] vector of [PortSerializer]) and, per leaf, what the transported form tells the far end
    to expect ([Some (id, label)]: a half that will call [PortDeserializer::accept(id, ..)]).
    [None]: [try_allocate] failed, "ports exhausted" -- the whole item fails to serialize. *)
Fixpoint serialize (ls : list leaf) (ps : list N) : option (list (N * cbid) * list (option (N * cbid))) :=
  match ls with
  | [] => Some ([], [])
  | l :: ls' =>
      match l_mode l with
      | MFake b =>
          match serialize ls' ps with
          | Some (t, pl) => Some (t, Some (b, l_cb l) :: pl)
          | None => None
          end
      | MReal =>
          match ps with
          | [] => None
          | p :: ps' =>
              match serialize ls' ps' with
              | Some (t, pl) => Some ((p, l_cb l) :: t, Some (p, l_cb l) :: pl)
              | None => None
              end
          end
      | MIgnored =>
          match ps with
          | [] => None
          | p :: ps' =>
              match serialize ls' ps' with
              | Some (t, pl) => Some ((p, l_cb l) :: t, None :: pl)
              | None => None
              end
          end
      end
  end.

(** [PortReq::new(port)]: the id is the port number. *)
Definition origin_reqs (t : list (N * cbid)) : list req := map (fun e => mkReq (fst e) (fst e)) t.

(** ** Batches *)

(** [Sender::connect] sends the requests of one message in consecutive batches whose sizes depend on
    chunk size and credits; the receiver appends them.  Any split is covered. *)
Fixpoint chunks {A} (sizes : list nat) (l : list A) : list (list A) :=
  match sizes with
  | [] => [l]
  | s :: ss => firstn s l :: chunks ss (skipn s l)
  end.

Definition reassemble {A} (bs : list (list A)) : list A := concat bs.

(** ** One forwarding hop ([chmux/forward.rs]) *)

(** [forward_hop ins ps]: for every incoming request, in order, allocate an outgoing port (from
    [ps]) and emit [PortReq::new(port).with_id(req.id())]; remember which incoming request the outgoing
    port serves.  [None]: the allocator cannot serve (the forwarder waits: [allocate().await]). *)
Fixpoint forward_hop (ins : list req) (ps : list N) : option (list req * list (N * req)) :=
  match ins with
  | [] => Some ([], [])
  | r :: ins' =>
      match ps with
      | [] => None
      | p :: ps' =>
          match forward_hop ins' ps' with
          | Some (outs, tab) => Some (mkReq p (r_id r) :: outs, (p, r) :: tab)
          | None => None
          end
      end
  end.

(** [route rs hops]: [length hops] forwarders in a row, each with its own list of available port
    numbers; between two hops the message is split into batches and reassembled.  Result: the requests
    as they reach the far end and the forwarders' tables (first forwarder first). *)
Fixpoint route (rs : list req) (hops : list (list N * list nat)) : option (list req * list (list (N * req))) :=
  match hops with
  | [] => Some (rs, [])
  | (ps, sizes) :: hops' =>
      match forward_hop (reassemble (chunks sizes rs)) ps with
      | None => None
      | Some (outs, tab) =>
          match route outs hops' with
          | None => None
          | Some (fin, tabs) => Some (fin, tab :: tabs)
          end
      end
  end.

(** ** Deserialization and matching on the far end *)

Definition emap := list (N * (N * cbid)).

(** [deser m pl qs]: the deserializer visits the transported halves in order; each calls
    [accept(id, callback)], which allocates a local port ([qs]: what the far end's allocator can hand
    out) and inserts into [expected].  [None]: "ports exhausted" -- the item fails to deserialize. *)
Fixpoint deser (m : emap) (pl : list (option (N * cbid))) (qs : list N) : option emap :=
  match pl with
  | [] => Some m
  | None :: pl' => deser m pl' qs
  | Some (id, cb) :: pl' =>
      match qs with
      | [] => None
      | q :: qs' => deser (insert id (q, cb) m) pl' qs'
      end
  end.

Record accepted := mkAcc { a_req : req; a_port : N; a_cb : cbid }.

(** The loop over the received requests: [expected.remove(&request.id())]. *)
Fixpoint match_reqs (m : emap) (rs : list req) : list accepted * list req * emap :=
  match rs with
  | [] => ([], [], m)
  | r :: rs' =>
      match assoc (r_id r) m with
      | Some (q, cb) =>
          let '(acc, rej, mf) := match_reqs (remove (r_id r) m) rs' in
          (mkAcc r q cb :: acc, rej, mf)
      | None =>
          let '(acc, rej, mf) := match_reqs m rs' in
          (acc, r :: rej, mf)
      end
  end.

(** ** Which delivered half is connected to which origin callback *)

(** An accepted request names a port of the last connection.  Each forwarder accepted the incoming
    request it had recorded for that outgoing port: follow the tables back to the origin's port. *)
Fixpoint trace_back (tabs_rev : list (list (N * req))) (p : N) : option N :=
  match tabs_rev with
  | [] => Some p
  | tab :: rest =>
      match assoc p tab with
      | Some r => trace_back rest (r_port r)
      | None => None
      end
  end.

(** [pairing t tabs acc]: pairs (label of the origin callback whose connect future is resolved by this
    acceptance, label of the delivered half whose callback accepted). *)
Definition pair_of (t : list (N * cbid)) (tabs : list (list (N * req))) (a : accepted) : list (cbid * cbid) :=
  match trace_back (rev tabs) (r_port (a_req a)) with
  | Some p0 => match assoc p0 t with Some cb => [(cb, a_cb a)] | None => [] end
  | None => []
  end.

Definition pairing (t : list (N * cbid)) (tabs : list (list (N * req))) (acc : list accepted) : list (cbid * cbid) :=
  flat_map (pair_of t tabs) acc.

(** The ids the far end was told to expect without a request ever being sent for them. *)
Fixpoint fake_ids (ls : list leaf) : list N :=
  match ls with
  | [] => []
  | l :: ls' => match l_mode l with MFake b => b :: fake_ids ls' | _ => fake_ids ls' end
  end.

(** Everything at once: the outcome of sending one value over [1 + length hops] connections. *)
Record wired := mkWired {
  w_table : list (N * cbid);        (* origin: port -> callback *)
  w_fin : list req;                 (* requests as received by the far end *)
  w_tabs : list (list (N * req));   (* forwarders' tables *)
  w_acc : list accepted;
  w_rej : list req;
  w_missing : emap;
}.

Inductive wire_result :=
| WSerExhausted                     (* origin: ports exhausted while serializing *)
| WFwdWait                          (* a forwarder cannot allocate: waits *)
| WDeserExhausted (t : list (N * cbid)) (fin : list req)   (* far end: ports exhausted while deserializing *)
| WOk (w : wired).

Definition wire (ls : list leaf) (ps : list N) (hops : list (list N * list nat)) (last_sizes : list nat)
    (qs : list N) : wire_result :=
  match serialize ls ps with
  | None => WSerExhausted
  | Some (t, pl) =>
      match route (origin_reqs t) hops with
      | None => WFwdWait
      | Some (fin, tabs) =>
          let fin' := reassemble (chunks last_sizes fin) in
          match deser [] pl qs with
          | None => WDeserExhausted t fin'
          | Some m =>
              let '(acc, rej, mf) := match_reqs m fin' in
              WOk (mkWired t fin' tabs acc rej mf)
          end
      end
  end.

(** The far end's decision per origin request, in the order of the origin table: accepted iff some
    delivered request carrying its id was matched. *)
Definition decisions (w : wired) : list bool :=
  map (fun e => existsb (fun a => r_id (a_req a) =? fst e) (w_acc w)) (w_table w).

(** ** Resolution of one request along the chain, under all schedules

    Connections are numbered 1 .. h (1 = at the origin).  A request that was sent travels towards the
    far end through h - 1 forwarders; the answer travels back.  All nondeterminism is in the action
    list: which request moves next, when a connection is lost.  The chmux-level facts used -- every
    request sent on a live connection is eventually delivered and answered exactly once, and on a lost
    connection every outstanding request fails (response channel dropped => [ConnectError::ChMux];
    [accept_from] => [ListenerError]) -- appear as the enabledness of [AMove] / [ALost]: they are the
    hypotheses taken from C10 (dispatcher) and C06 (fail-stop), see [PortsProofs.progress]. *)

Inductive phase :=
| Going (k : nat)     (* the request is in flight on connection k *)
| Held                (* queued at the far end's base receiver (on connection h) *)
| AccBack (k : nat)   (* accepted; [PortOpened] in flight on connection k towards the origin *)
| RejBack (k : nat)   (* rejected; [Rejected] in flight on connection k towards the origin *)
| DoneOk              (* the origin's connect future resolved with a connected port pair *)
| DoneErr.            (* the origin's connect future resolved with an error *)

Inductive fstat :=
| FNone               (* the far end has not (yet) decided, or dropped the request *)
| FConn               (* the far-end callback accepted and holds a connected port pair *)
| FErr.               (* the far-end callback's accept failed *)

Record rstate := mkR { r_phase : phase; r_far : fstat }.

Record sys := mkSys {
  s_h : nat;                  (* number of connections *)
  s_dead : list nat;          (* connections that were lost *)
  s_reqs : list rstate;       (* one per request *)
  s_decide : list bool;       (* the far end's decision per request: accept (matched by id) or drop *)
}.

Definition is_dead (s : sys) (k : nat) : bool := existsb (Nat.eqb k) (s_dead s).

Inductive action :=
| AMove (i : nat)     (* the next step of request i on a live connection *)
| ALost (i : nat)     (* request i is in flight / held on a lost connection: its sender-side node learns of it *)
| ACut (k : nat).     (* connection k is lost *)

(** connection a phase currently depends on *)
Definition phase_conn (h : nat) (p : phase) : option nat :=
  match p with
  | Going k | AccBack k | RejBack k => Some k
  | Held => Some h
  | DoneOk | DoneErr => None
  end.

(** failure seen by the node on the origin side of connection k: it rejects upstream *)
Definition fail_up (k : nat) : phase :=
  match k with
  | O | S O => DoneErr
  | S k' => RejBack k'
  end.

Definition step_req (s : sys) (i : nat) (lost : bool) (r : rstate) : option rstate :=
  match phase_conn (s_h s) (r_phase r) with
  | None => None
  | Some k =>
      if lost then
        if is_dead s k then
          (* a far-end callback whose request sits on the lost connection gets [ListenerError] *)
          let far := match r_phase r with
                     | Held => if nth i (s_decide s) false then FErr else r_far r
                     | _ => r_far r
                     end in
          Some (mkR (fail_up k) far)
        else None
      else if is_dead s k then None
      else
        match r_phase r with
        | Going k =>
            if Nat.ltb k (s_h s) then Some (mkR (Going (S k)) (r_far r))   (* forwarded, same id *)
            else Some (mkR Held (r_far r))
        | Held =>
            if nth i (s_decide s) false then Some (mkR (AccBack (s_h s)) FConn)
            else Some (mkR (RejBack (s_h s)) (r_far r))
        | AccBack k =>
            match k with
            | O | S O => Some (mkR DoneOk (r_far r))
            | S k' => Some (mkR (AccBack k') (r_far r))       (* the forwarder accepts upstream *)
            end
        | RejBack k =>
            match k with
            | O | S O => Some (mkR DoneErr (r_far r))
            | S k' => Some (mkR (RejBack k') (r_far r))       (* the forwarder rejects upstream *)
            end
        | DoneOk | DoneErr => None
        end
  end.

Fixpoint update {A} (l : list A) (i : nat) (x : A) : list A :=
  match l, i with
  | [], _ => []
  | _ :: l', O => x :: l'
  | y :: l', S i' => y :: update l' i' x
  end.

(** [step s a = None]: the action is not enabled. *)
Definition step (s : sys) (a : action) : option sys :=
  match a with
  | AMove i =>
      match nth_error (s_reqs s) i with
      | Some r =>
          match step_req s i false r with
          | Some r' => Some (mkSys (s_h s) (s_dead s) (update (s_reqs s) i r') (s_decide s))
          | None => None
          end
      | None => None
      end
  | ALost i =>
      match nth_error (s_reqs s) i with
      | Some r =>
          match step_req s i true r with
          | Some r' => Some (mkSys (s_h s) (s_dead s) (update (s_reqs s) i r') (s_decide s))
          | None => None
          end
      | None => None
      end
  | ACut k =>
      if (Nat.leb 1 k && Nat.leb k (s_h s) && negb (is_dead s k))%bool
      then Some (mkSys (s_h s) (k :: s_dead s) (s_reqs s) (s_decide s))
      else None
  end.

(** Disabled actions are skipped, so every action list is a schedule. *)
Fixpoint run (acts : list action) (s : sys) : sys :=
  match acts with
  | [] => s
  | a :: acts' => match step s a with Some s' => run acts' s' | None => run acts' s end
  end.

Definition init_sys (h : nat) (decide : list bool) : sys :=
  mkSys h [] (map (fun _ => mkR (Going 1) FNone) decide) decide.

Definition enabled (s : sys) (a : action) : bool :=
  match step s a with Some _ => true | None => false end.

Definition is_done (r : rstate) : bool :=
  match r_phase r with DoneOk | DoneErr => true | _ => false end.

(** quiescent: no request can move any more *)
Definition quiescent (s : sys) : Prop :=
  forall i, enabled s (AMove i) = false /\ enabled s (ALost i) = false.

(** A canonical schedule: move every request until it is done ([fuel] rounds). *)
Fixpoint drive_one (fuel : nat) (i : nat) (s : sys) : sys :=
  match fuel with
  | O => s
  | S f =>
      match step s (AMove i) with
      | Some s' => drive_one f i s'
      | None =>
          match step s (ALost i) with
          | Some s' => drive_one f i s'
          | None => s
          end
      end
  end.

Fixpoint drive_all (fuel : nat) (n : nat) (s : sys) : sys :=
  match n with
  | O => s
  | S n' => drive_one fuel n' (drive_all fuel n' s)
  end.

(** move every request [k] steps (used to bring the requests in flight onto connection k + 1) *)
Fixpoint advance (k : nat) (n : nat) (s : sys) : sys :=
  match n with
  | O => s
  | S n' =>
      let s' := advance k n' s in
      (fix go (j : nat) (s : sys) : sys :=
         match j with
         | O => s
         | S j' => match step s (AMove n') with Some s2 => go j' s2 | None => s end
         end) k s'
  end.

(** ** Interlock of [bin] and [lr] channels ([rch/interlock.rs])

    [Location::Sending] holds the receiving end of a oneshot channel whose sending end sits in the
    connect callback of the transfer that marked the location: the callback sends [()] when it runs
    (the item was sent), and is dropped unrun when the transfer is cancelled (serialization or sending
    of the item failed). *)

Inductive confirm := CEmpty | CSent | CClosed.
Inductive loc := Local | Sending (c : confirm) | Remote.

(** [Location::check_local] (it updates the location) *)
Definition check_local (l : loc) : loc * bool :=
  match l with
  | Local => (Local, true)
  | Sending CSent => (Remote, false)
  | Sending CEmpty => (Sending CEmpty, false)
  | Sending CClosed => (Local, true)
  | Remote => (Remote, false)
  end.

Record interlock := mkIl { il_sender : loc; il_receiver : loc }.

Inductive ser_path := Direct | Forwarding | SerError.

(** The model parameter [fixed]: [false] = the code as it is -- [Sender::serialize] checks AND marks
    [interlock.receiver], [Receiver::serialize] checks and marks [interlock.sender] (finding F10);
    [true] = the repaired code, which marks the half that is being sent. *)
Definition ser_half (fixed : bool) (lr : bool) (s : side) (il : interlock) : interlock * ser_path :=
  match s with
  | STx =>
      let '(r', ok) := check_local (il_receiver il) in
      if ok then
        (if fixed then mkIl (Sending CEmpty) r' else mkIl (il_sender il) (Sending CEmpty), Direct)
      else (mkIl (il_sender il) r', if lr then SerError else Forwarding)
  | SRx =>
      let '(s', ok) := check_local (il_sender il) in
      if ok then
        (if fixed then mkIl s' (Sending CEmpty) else mkIl (Sending CEmpty) (il_receiver il), Direct)
      else (mkIl s' (il_receiver il), if lr then SerError else Forwarding)
  end.

(** Which location field the transfer of half [s] marked (and therefore owns the confirmation of). *)
Definition marked (fixed : bool) (s : side) : side :=
  if fixed then s else match s with STx => SRx | SRx => STx end.

Definition get_loc (il : interlock) (s : side) : loc :=
  match s with STx => il_sender il | SRx => il_receiver il end.
Definition set_loc (il : interlock) (s : side) (l : loc) : interlock :=
  match s with STx => mkIl l (il_receiver il) | SRx => mkIl (il_sender il) l end.

Definition confirm_loc (l : loc) (c : confirm) : loc :=
  match l with Sending CEmpty => Sending c | _ => l end.

(** The life of one channel's interlock: serializations of either half, and for each direct transfer
    its confirmation (callback ran) or cancellation (callback dropped). *)
Inductive il_action :=
| ISer (s : side)        (* half [s] is serialized *)
| IConfirm (s : side)    (* the direct transfer of half [s] went through: its callback ran *)
| ICancel (s : side).    (* the direct transfer of half [s] was cancelled: its callback was dropped *)

(** Ghost state: [g_direct s] = half [s] left through a direct connection that is in progress or
    complete (not cancelled); [g_open s] = its confirmation is still outstanding; [g_bad] = some
    serialization chose the direct path although the other half had left directly. *)
Record il_state := mkIs {
  is_il : interlock;
  is_direct_tx : bool; is_direct_rx : bool;
  is_open_tx : bool; is_open_rx : bool;
  is_bad : bool;
  is_last : ser_path;
}.

Definition g_direct (st : il_state) (s : side) : bool :=
  match s with STx => is_direct_tx st | SRx => is_direct_rx st end.
Definition g_open (st : il_state) (s : side) : bool :=
  match s with STx => is_open_tx st | SRx => is_open_rx st end.
Definition other (s : side) : side := match s with STx => SRx | SRx => STx end.

Definition il_init : il_state := mkIs (mkIl Local Local) false false false false false Forwarding.

Definition set_direct (st : il_state) (s : side) (d o : bool) : il_state :=
  match s with
  | STx => mkIs (is_il st) d (is_direct_rx st) o (is_open_rx st) (is_bad st) (is_last st)
  | SRx => mkIs (is_il st) (is_direct_tx st) d (is_open_tx st) o (is_bad st) (is_last st)
  end.

Definition il_step (fixed lr : bool) (st : il_state) (a : il_action) : il_state :=
  match a with
  | ISer s =>
      (* a half that left directly and was not cancelled is not there to be serialized again *)
      if g_direct st s then st
      else
        let '(il', p) := ser_half fixed lr s (is_il st) in
        match p with
        | Direct =>
            let st1 := set_direct st s true true in
            mkIs il' (is_direct_tx st1) (is_direct_rx st1) (is_open_tx st1) (is_open_rx st1)
                 (is_bad st || g_direct st (other s)) Direct
        | _ => mkIs il' (is_direct_tx st) (is_direct_rx st) (is_open_tx st) (is_open_rx st) (is_bad st) p
        end
  | IConfirm s =>
      if g_open st s then
        let f := marked fixed s in
        let st1 := set_direct st s true false in
        mkIs (set_loc (is_il st) f (confirm_loc (get_loc (is_il st) f) CSent))
             (is_direct_tx st1) (is_direct_rx st1) (is_open_tx st1) (is_open_rx st1) (is_bad st) (is_last st)
      else st
  | ICancel s =>
      if g_open st s then
        let f := marked fixed s in
        let st1 := set_direct st s false false in
        mkIs (set_loc (is_il st) f (confirm_loc (get_loc (is_il st) f) CClosed))
             (is_direct_tx st1) (is_direct_rx st1) (is_open_tx st1) (is_open_rx st1) (is_bad st) (is_last st)
      else st
  end.

Definition il_run (fixed lr : bool) (acts : list il_action) : il_state :=
  fold_left (il_step fixed lr) acts il_init.
