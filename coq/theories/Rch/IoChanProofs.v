(** Proofs about the I/O channel model [IoChan]: the loop fuel of [poll_read] is never exhausted;
    an invariant relating accepted, transmitted, in-flight and read bytes holds along every action
    list; the theorems of [Props/C18.v] follow. *)
From Remoc Require Import Lib.Base Rch.IoChan.
From RecordUpdate Require Import RecordUpdate.
Import RecordSetNotations.

(** * Small facts *)

Lemma concat_cut_at sizes data : concat (cut_at sizes data) = data.
Proof.
  revert data. induction sizes as [|k r IH]; intros data; cbn [cut_at concat].
  - now rewrite app_nil_r.
  - rewrite IH. apply firstn_skipn.
Qed.

Lemma len_firstn_le {A} (k : N) (l : list A) : k <= len l -> len (firstn (N.to_nat k) l) = k.
Proof. unfold len. intros H. rewrite firstn_length. lia. Qed.

Lemma len_0_nil {A} (l : list A) : len l = 0 -> l = [].
Proof. destruct l; [auto|]. rewrite len_cons. lia. Qed.

Lemma prefix_len {A} (a b : list A) : prefix a b -> len a <= len b.
Proof. intros [r ->]. rewrite len_app. lia. Qed.

Lemma prefix_len_eq {A} (a b : list A) : prefix a b -> len b <= len a -> a = b.
Proof.
  intros [r ->] H. rewrite len_app in H. assert (len r = 0) as Hr by lia.
  apply len_0_nil in Hr. subst r. now rewrite app_nil_r.
Qed.

Lemma prefix_app_l {A} (a b c : list A) : prefix (a ++ b) c -> prefix a c.
Proof. intros [r ->]. exists (b ++ r). now rewrite app_assoc. Qed.

Definition evbytes (q : list event) : list N :=
  flat_map (fun ev => match ev with EChunk segs => concat segs | _ => [] end) q.

Lemma evbytes_app q1 q2 : evbytes (q1 ++ q2) = evbytes q1 ++ evbytes q2.
Proof. unfold evbytes. apply flat_map_app. Qed.

Definition cur_bytes (r : receiver) : list N :=
  match r_cur r with Some segs => concat segs | None => [] end.

(** [advance] by at most the first segment never fails and removes exactly those bytes. *)
Lemma advance_chunk k segs :
  k <= len (chunk segs) ->
  exists segs', advance k segs = Some segs' /\ concat segs = firstn (N.to_nat k) (chunk segs) ++ concat segs'.
Proof.
  intros Hk. destruct segs as [|b r]; cbn [chunk] in Hk.
  - rewrite len_nil in Hk. assert (k = 0) as -> by lia. exists []. cbn. auto.
  - cbn [advance chunk]. destruct (k =? 0) eqn:E0.
    + apply N.eqb_eq in E0. subst k. exists (b :: r). cbn. auto.
    + destruct (k <? len b) eqn:E1.
      * eexists. split; [reflexivity|]. cbn [concat]. rewrite app_assoc. now rewrite firstn_skipn.
      * apply N.ltb_ge in E1. assert (k = len b) as -> by lia.
        replace (len b - len b) with 0 by lia. destruct r as [|b' r']; cbn [advance].
        -- exists []. split; [reflexivity|]. unfold len. rewrite Nat2N.id, firstn_all. reflexivity.
        -- replace (0 =? 0) with true by reflexivity. eexists. split; [reflexivity|].
           unfold len. rewrite Nat2N.id, firstn_all. reflexivity.
Qed.

(** * The receiver: one [poll_read] *)

(** The total the receiver compares with: fixed at creation, or the announced size once it is visible. *)
Definition expected (m : size_mode) (sz : cell) : option N :=
  match m with
  | Known n => Some n
  | Unknown => match sz with CSent e => Some e | _ => None end
  end.

Definition rinv (m : size_mode) (sz : cell) (r : receiver) : Prop :=
  match m with
  | Known n => r_size r = Some (Determined n) /\ r_state r <> RVerifying
  | Unknown => (forall e, r_size r = Some (Determined e) -> sz = CSent e) /\
               (r_size r = None -> r_state r = RVerifying \/ r_state r = RVerDone)
  end /\
  (r_state r = RReceiving -> r_cur r = None) /\
  (r_eof r = true -> expected m sz = Some (r_read r)).

Definition post (m : size_mode) (sz : cell) (rd0 : N) (b0 : list N) (eof0 : bool) (i : iter_res) : Prop :=
  match i with
  | IRet r' q' res =>
      rinv m sz r' /\ b0 = result_bytes res ++ cur_bytes r' ++ evbytes q' /\
      r_read r' = rd0 + len (result_bytes res) /\ (res = Eof -> r_eof r' = true) /\
      (eof0 = true -> r_eof r' = true) /\ res <> OutOfFuel
  | ICont r' q' =>
      rinv m sz r' /\ b0 = cur_bytes r' ++ evbytes q' /\ r_read r' = rd0 /\ (eof0 = true -> r_eof r' = true)
  end.

Definition bound (m : size_mode) (sz : cell) (r : receiver) : Prop :=
  forall e, expected m sz = Some e -> r_read r <= e.

#[local] Arguments len : simpl never.
#[local] Arguments evbytes : simpl never.
#[local] Arguments expected : simpl never.
#[local] Arguments firstn : simpl never.
#[local] Arguments skipn : simpl never.
Ltac prj := try unfold set in *; cbn in *.

Ltac fin := repeat (first [assumption | split]); prj; rewrite ?len_nil, ?app_nil_r, ?N.add_0_r; auto; try congruence; try lia.
Ltac mcase m := destruct m; unfold expected in *; prj; intuition (try congruence).

Lemma take_or_verify_post m sz r q :
  rinv m sz r -> r_state r = RIdle -> r_cur r = None ->
  post m sz (r_read r) (evbytes q) (r_eof r) (take_or_verify r q).
Proof.
  destruct r as [bin size rd cur st eof]. unfold take_or_verify, post, rinv, cur_bytes. prj.
  intros (Hm & Hrc & Heof) -> ->. destruct bin; prj.
  - fin. mcase m.
  - destruct size as [[e|]|]; prj.
    + destruct (rd =? e) eqn:E; prj.
      * apply N.eqb_eq in E. subst e. fin. intros _. mcase m.
        rewrite (H rd eq_refl). reflexivity.
      * fin.
    + fin. mcase m.
    + mcase m.
Qed.

Lemma read_body_post m sz want r q :
  rinv m sz r -> bound m sz r -> r_state r = RIdle ->
  post m sz (r_read r) (cur_bytes r ++ evbytes q) (r_eof r) (read_body want r q).
Proof.
  intros Hinv Hb Hst. unfold read_body.
  destruct (r_eof r) eqn:Eeof.
  { unfold post. fin. }
  assert (Hexp : forall e, r_size r = Some (Determined e) -> expected m sz = Some e).
  { intros e He. destruct Hinv as (Hm & _). destruct m as [n|]; unfold expected.
    - destruct Hm as [Hm _]. congruence.
    - destruct Hm as [Hm _]. now rewrite (Hm e He). }
  assert (Hgo : post m sz (r_read r) (cur_bytes r ++ evbytes q) false
                  match r_cur r with
                  | Some segs =>
                      if 0 <? remaining segs then
                        let to_copy := N.min (len (chunk segs)) want in
                        let to_copy := match match r_size r with Some (Determined expected) => Some (expected - r_read r) | _ => None end
                                       with Some rem => N.min to_copy rem | None => to_copy end in
                        match advance to_copy segs with
                        | Some segs' =>
                            IRet (r <| r_read := r_read r + to_copy |> <| r_cur := Some segs' |>) q
                                 (Done to_copy (firstn (N.to_nat to_copy) (chunk segs)))
                        | None => IRet r q Panic
                        end
                      else take_or_verify (r <| r_cur := None |>) q
                  | None => take_or_verify r q
                  end).
  { destruct (r_cur r) as [segs|] eqn:Ecur.
    - destruct (0 <? remaining segs) eqn:Erem.
      + cbv zeta.
        set (k := match match r_size r with Some (Determined expected) => Some (expected - r_read r) | _ => None end
                  with Some rem => N.min (N.min (len (chunk segs)) want) rem | None => N.min (len (chunk segs)) want end).
        assert (Hk : k <= len (chunk segs)).
        { subst k. destruct (r_size r) as [[e|]|]; lia. }
        destruct (advance_chunk k segs Hk) as (segs' & -> & Hcat).
        destruct r as [bin size rd cur st eof]. unfold post, rinv, cur_bytes in *. prj. subst.
        destruct Hinv as (Hm & Hrc & Heof). fin.
        * rewrite Hcat. now rewrite <- app_assoc.
        * rewrite len_firstn_le; auto.
      + apply N.ltb_ge in Erem. unfold remaining in Erem.
        assert (concat segs = []) as Hnil by (apply len_0_nil; lia).
        unfold cur_bytes at 1. rewrite Ecur, Hnil. cbn [app].
        pose proof (take_or_verify_post m sz (r <| r_cur := None |>) q) as H.
        destruct r as [bin size rd cur st eof]. prj. subst. apply H; auto.
        unfold rinv in *. prj. intuition.
    - unfold cur_bytes at 1. rewrite Ecur. cbn [app].
      pose proof (take_or_verify_post m sz r q Hinv Hst Ecur) as H. now rewrite Eeof in H. }
  destruct (r_size r) as [[e|]|] eqn:Esz; auto.
  destruct (e - r_read r) eqn:Ez; auto.
  assert (r_read r = e) as Hre.
  { specialize (Hb e (Hexp e eq_refl)). lia. }
  destruct r as [bin size rd cur st eof]. unfold post, rinv, cur_bytes in *. prj. subst.
  destruct Hinv as (Hm & Hrc & Heof). fin.
Qed.

Lemma post_eof_mono m sz rd b i e0 : post m sz rd b true i -> post m sz rd b e0 i.
Proof. destruct i; unfold post; intuition. Qed.

Lemma evbytes_cons ev q :
  evbytes (ev :: q) = match ev with EChunk segs => concat segs | _ => [] end ++ evbytes q.
Proof. reflexivity. Qed.

Lemma complete_verify_post m sz want r q :
  rinv m sz r -> bound m sz r -> r_state r <> RReceiving -> r_state r <> RRecvDone ->
  post m sz (r_read r) (cur_bytes r ++ evbytes q) (r_eof r) (complete_verify want sz r q).
Proof.
  intros Hinv Hb Hs1 Hs2. unfold complete_verify.
  destruct (r_state r) eqn:Est; try congruence.
  - apply read_body_post; auto.
  - (* RVerifying *)
    destruct sz as [|e|].
    + unfold post. fin.
    + destruct (r_read r =? e) eqn:E.
      * apply N.eqb_eq in E.
        destruct r as [bin size rd cur st eof]. unfold post, read_body, rinv, cur_bytes in *. prj. subst.
        fin; mcase m.
      * destruct r as [bin size rd cur st eof]. unfold post, rinv, cur_bytes in *. prj. subst.
        fin; mcase m.
    + destruct r as [bin size rd cur st eof]. unfold post, rinv, cur_bytes in *. prj. subst.
      fin; mcase m.
  - unfold post. fin.
Qed.

Lemma read_iter_post m sz want r q :
  rinv m sz r -> bound m sz r ->
  post m sz (r_read r) (cur_bytes r ++ evbytes q) (r_eof r) (read_iter want sz r q).
Proof.
  intros Hinv Hb. unfold read_iter.
  destruct (r_state r) eqn:Est; try (apply complete_verify_post; auto; congruence).
  - (* RReceiving *)
    assert (r_cur r = None) as Hcur by (apply Hinv; auto).
    assert (r_size r <> None) as Hsz.
    { destruct Hinv as (Hm & _). destruct m; [intuition congruence|].
      intros Hn. destruct Hm as [_ Hm]. destruct (Hm Hn); congruence. }
    destruct q as [|[segs| |k] q'].
    + unfold post. fin.
    + pose proof (complete_verify_post m sz want
                    (r <| r_bin := true |> <| r_cur := Some segs |> <| r_state := RIdle |>) q') as H.
      rewrite evbytes_cons.
      destruct r as [bin size rd cur st eof]. unfold cur_bytes in *. prj. subst. apply H; try congruence.
      * unfold rinv in *. prj. mcase m.
      * unfold bound in *. prj. auto.
    + pose proof (complete_verify_post m sz want (r <| r_cur := None |> <| r_state := RIdle |>) q') as H.
      rewrite evbytes_cons.
      destruct r as [bin size rd cur st eof]. unfold cur_bytes in *. prj. subst. apply H; try congruence.
      * unfold rinv in *. prj. mcase m.
      * unfold bound in *. prj. auto.
    + rewrite evbytes_cons.
      destruct r as [bin size rd cur st eof]. unfold post, rinv, cur_bytes in *. prj. subst.
      fin; mcase m.
  - unfold post. fin.
Qed.

Lemma poll_read_fuel_post m sz want fuel : forall r q r' q' res,
  rinv m sz r -> bound m sz r -> poll_read_fuel fuel want sz r q = (r', q', res) ->
  rinv m sz r' /\ cur_bytes r ++ evbytes q = result_bytes res ++ cur_bytes r' ++ evbytes q' /\
  r_read r' = r_read r + len (result_bytes res) /\ (res = Eof -> r_eof r' = true) /\
  (r_eof r = true -> r_eof r' = true).
Proof.
  induction fuel as [|f IH]; intros r q r' q' res Hinv Hb; cbn [poll_read_fuel].
  - intros [= <- <- <-]. fin.
  - pose proof (read_iter_post m sz want r q Hinv Hb) as Hp.
    destruct (read_iter want sz r q) as [r1 q1 res1|r1 q1]; unfold post in Hp.
    + intros [= <- <- <-]. intuition.
    + destruct Hp as (Hinv1 & Hb1 & Hrd & Heof). intros Hrun.
      apply IH in Hrun; auto.
      * rewrite Hb1, <- Hrd. intuition.
      * unfold bound in *. now rewrite Hrd.
Qed.

(** * The loop of [poll_read] terminates within its fuel *)

Definition weight (r : receiver) : nat :=
  if r_eof r then 0%nat else
  match r_state r with
  | RReceiving => 2%nat
  | RVerifying => 1%nat
  | RIdle => if r_bin r then 3%nat else 2%nat
  | _ => 0%nat
  end.

Definition cont_ok (r : receiver) (q : list event) (i : iter_res) : Prop :=
  match i with
  | ICont r' q' => q' = q /\ r_eof r = false /\ (weight r' < (if r_bin r then 3 else 2))%nat
  | IRet _ _ res => res <> OutOfFuel
  end.

Lemma take_or_verify_measure r q : r_eof r = false -> cont_ok r q (take_or_verify r q).
Proof.
  destruct r as [bin size rd cur st eof]. unfold take_or_verify, cont_ok, weight. prj. intros ->.
  destruct bin; prj; [auto|].
  destruct size as [[e|]|]; prj; auto. destruct (rd =? e); prj; auto. congruence.
Qed.

Lemma read_body_measure want r q : cont_ok r q (read_body want r q).
Proof.
  unfold read_body. destruct (r_eof r) eqn:Eeof; [cbn; congruence|].
  assert (Hgo : cont_ok r q
                  match r_cur r with
                  | Some segs =>
                      if 0 <? remaining segs then
                        let to_copy := N.min (len (chunk segs)) want in
                        let to_copy := match match r_size r with Some (Determined expected) => Some (expected - r_read r) | _ => None end
                                       with Some rem => N.min to_copy rem | None => to_copy end in
                        match advance to_copy segs with
                        | Some segs' =>
                            IRet (r <| r_read := r_read r + to_copy |> <| r_cur := Some segs' |>) q
                                 (Done to_copy (firstn (N.to_nat to_copy) (chunk segs)))
                        | None => IRet r q Panic
                        end
                      else take_or_verify (r <| r_cur := None |>) q
                  | None => take_or_verify r q
                  end).
  { destruct (r_cur r) as [segs|] eqn:Ecur.
    - destruct (0 <? remaining segs).
      + cbv zeta. destruct (advance _ segs); cbn; congruence.
      + pose proof (take_or_verify_measure (r <| r_cur := None |>) q) as H.
        destruct r as [bin size rd cur st eof]. prj. apply H. auto.
    - apply take_or_verify_measure; auto. }
  destruct (r_size r) as [[e|]|]; auto.
  destruct (e - r_read r); auto. cbn. congruence.
Qed.

Lemma complete_verify_measure want sz r q : cont_ok r q (complete_verify want sz r q).
Proof.
  unfold complete_verify. destruct (r_state r) eqn:Est; try apply read_body_measure.
  - destruct sz as [|e|]; try (cbn; congruence).
    destruct (r_read r =? e); [|cbn; congruence].
    unfold read_body. prj. congruence.
  - cbn. congruence.
Qed.

Lemma read_iter_measure want sz r q :
  match read_iter want sz r q with
  | ICont r' q' => (4 * length q' + weight r' < 4 * length q + weight r)%nat
  | IRet _ _ res => res <> OutOfFuel
  end.
Proof.
  unfold read_iter. destruct (r_state r) eqn:Est.
  - pose proof (complete_verify_measure want sz r q) as H.
    destruct (complete_verify want sz r q) as [|r' q']; [exact H|].
    destruct H as (-> & He & Hw). unfold weight at 2. rewrite He, Est. lia.
  - destruct q as [|[segs| |k] q1]; try congruence.
    + pose proof (complete_verify_measure want sz (r <| r_bin := true |> <| r_cur := Some segs |> <| r_state := RIdle |>) q1) as H.
      destruct (complete_verify want sz _ q1) as [|r' q']; [exact H|].
      destruct H as (-> & He & Hw). cbn [length]. destruct r; prj. lia.
    + pose proof (complete_verify_measure want sz (r <| r_cur := None |> <| r_state := RIdle |>) q1) as H.
      destruct (complete_verify want sz _ q1) as [|r' q']; [exact H|].
      destruct H as (-> & He & Hw). cbn [length]. destruct r as [[] ? ? ? ? ?]; prj; lia.
  - pose proof (complete_verify_measure want sz r q) as H.
    destruct (complete_verify want sz r q) as [|r' q'] eqn:E; [exact H|].
    unfold complete_verify in E. rewrite Est in E.
    destruct sz as [|e|]; try congruence. destruct (r_read r =? e); try congruence.
    unfold read_body in E. prj. congruence.
  - congruence.
  - pose proof (complete_verify_measure want sz r q) as H.
    destruct (complete_verify want sz r q) as [|r' q'] eqn:E; [exact H|].
    unfold complete_verify in E. rewrite Est in E. congruence.
Qed.

Lemma poll_read_fuel_enough want sz fuel : forall r q,
  (4 * length q + weight r < fuel)%nat ->
  snd (poll_read_fuel fuel want sz r q) <> OutOfFuel.
Proof.
  induction fuel as [|f IH]; intros r q Hf; [lia|]. cbn [poll_read_fuel].
  pose proof (read_iter_measure want sz r q) as Hm.
  destruct (read_iter want sz r q) as [r1 q1 res|r1 q1]; [exact Hm|].
  apply IH. lia.
Qed.

Lemma weight_le r : (weight r <= 3)%nat.
Proof. unfold weight. destruct (r_eof r), (r_state r), (r_bin r); lia. Qed.

(** [poll_read] never runs out of fuel. *)
Lemma poll_read_total want sz r q : snd (poll_read want sz r q) <> OutOfFuel.
Proof. unfold poll_read. apply poll_read_fuel_enough. pose proof (weight_le r). lia. Qed.

(** * The sender: one poll *)

(** What holds of a live sender, relative to the history: [acc] accepted bytes, [sent] bytes whose
    send completed, [m0] the mode at creation, [size] the size oneshot. *)
Definition txinv (m0 : size_mode) (acc sent : list N) (size : cell) (s : sender) : Prop :=
  s_written s = len acc /\
  (liveb s = true -> s_mode s = m0) /\
  (s_mode s = Unknown -> m0 = Unknown /\ size = CEmpty) /\
  match s_sending s with
  | FRun d => acc = sent ++ d
  | FNone => acc = sent
  | FDone => prefix sent acc
  end /\
  (forall n, m0 = Known n -> len acc <= n) /\
  match size with CSent e => e = len acc /\ m0 = Unknown /\ liveb s = false | _ => True end.

Definition new_size (size : cell) (o : tx_out) : cell :=
  match o_size o with Some n => CSent n | None => size end.

Definition tx_post (m0 : size_mode) (acc sent : list N) (size : cell) (down : bool) (o : tx_out) : Prop :=
  txinv m0 (acc ++ o_acc o) (sent ++ o_sent o) (new_size size o) (o_tx o) /\
  evbytes (o_evs o) = o_sent o /\
  (down = true -> o_sent o = []) /\
  (o_size o <> None -> size = CEmpty /\ m0 = Unknown).

Lemma evbytes_chunk sizes d : evbytes [EChunk (cut_at sizes d)] = d.
Proof. unfold evbytes. cbn [flat_map]. now rewrite concat_cut_at, app_nil_r. Qed.

Lemma poll_complete_tx_post m0 acc sent size down e s :
  txinv m0 acc sent size s ->
  match poll_complete_tx down e s with
  | (p, s1, evs, snt) =>
      evbytes evs = snt /\ (down = true -> snt = [] /\ evs = []) /\
      txinv m0 acc (sent ++ snt) size s1 /\
      (p = POk -> s_sending s1 = FNone) /\ (p <> POk -> snt = [] /\ evs = [])
  end.
Proof.
  destruct s as [w md ch bin sd]. unfold txinv, liveb, poll_complete_tx. prj.
  intros (Hw & Hl & Hu & Hs & Hc & Hz).
  destruct sd as [|d|]; prj.
  - rewrite app_nil_r. fin.
  - destruct down; prj.
    + rewrite app_nil_r. fin.
      * rewrite orb_true_r in Hl. auto.
      * subst acc. now exists d.
      * destruct size; auto. rewrite orb_true_r in Hz. intuition congruence.
    + destruct (e_ready e); prj.
      * rewrite evbytes_chunk. fin.
        -- rewrite orb_true_r in Hl. auto.
        -- destruct size; auto. rewrite orb_true_r in Hz. intuition congruence.
      * rewrite app_nil_r. fin.
  - rewrite app_nil_r. fin.
Qed.

Lemma txinv_chunk m0 acc sent size s c :
  txinv m0 acc sent size s -> txinv m0 acc sent size (s <| s_chunk := c |>).
Proof. destruct s. unfold txinv, liveb. prj. auto. Qed.

Lemma poll_write_post m0 acc sent size cs down e s buf :
  txinv m0 acc sent size s ->
  let o := poll_write cs down e s buf in
  tx_post m0 acc sent size down o /\ o_size o = None /\
  o_acc o = match o_res o with Done n _ => firstn (N.to_nat n) buf | _ => [] end.
Proof.
  intros Hinv. pose proof (poll_complete_tx_post m0 acc sent size down e s Hinv) as Hc.
  unfold poll_write. destruct (poll_complete_tx down e s) as [[[p s1] evs] snt].
  destruct Hc as (Hev & Hdown & Hinv1 & Hok & Hnok).
  assert (Hd' : down = true -> snt = []) by (intros; apply Hdown; auto).
  assert (Hbase : forall s' r, txinv m0 acc (sent ++ snt) size s' ->
            tx_post m0 acc sent size down (mkO r s' evs [] snt None)).
  { intros s' r H. unfold tx_post, new_size. prj. rewrite app_nil_r. fin. }
  destruct p; try (cbn zeta; split; [apply Hbase; auto|split; reflexivity]).
  specialize (Hok eq_refl).
  assert (Hgo : forall c s2, txinv m0 acc (sent ++ snt) size s2 -> s_sending s2 = FNone ->
    let o := if negb (s_bin s2) then mkO (Fail KBrokenPipe) s2 evs [] snt None
          else match buf with
          | [] => mkO (Done 0 []) s2 evs [] snt None
          | _ :: _ =>
              match (match s_mode s2 with
                     | Known expected =>
                         if expected <=? s_written s2 then None
                         else Some (N.min (len buf) (expected - s_written s2))
                     | Unknown => Some (len buf)
                     end) with
              | None => mkO (Fail KWriteZero) s2 evs [] snt None
              | Some max_write =>
                  let write_len := N.min max_write c in
                  let data := firstn (N.to_nat write_len) buf in
                  mkO (Done write_len [])
                      (s2 <| s_written := s_written s2 + write_len |> <| s_bin := false |> <| s_sending := FRun data |>)
                      evs data snt None
              end
          end in
    tx_post m0 acc sent size down o /\ o_size o = None /\
    o_acc o = match o_res o with Done n _ => firstn (N.to_nat n) buf | _ => [] end).
  { intros c s2 H2 Hs2. destruct (s_bin s2) eqn:Ebin; cbn [negb].
    2:{ cbn zeta. split; [apply Hbase; auto|split; reflexivity]. }
    destruct buf as [|b0 buf'].
    { cbn zeta. split; [apply Hbase; auto|split; reflexivity]. }
    set (buf := b0 :: buf') in *.
    destruct s2 as [w md ch bin sd]. prj. subst bin sd.
    unfold txinv, liveb in H2. prj. destruct H2 as (Hw & Hl & Hu & Hs & Hcap & Hz).
    specialize (Hl eq_refl). subst md.
    destruct m0 as [n|].
    - destruct (n <=? w) eqn:Ele; prj.
      { split; [|split; reflexivity]. apply Hbase. unfold txinv, liveb. prj. fin. }
      apply N.leb_gt in Ele.
      set (wl := N.min (N.min (len buf) (n - w)) c).
      assert (Hwl : wl <= len buf) by lia.
      split; [|split; reflexivity]. unfold tx_post, new_size, txinv, liveb. prj.
      rewrite len_app, len_firstn_le by auto. fin.
      + intros n0 [= <-]. lia.
      + destruct size; auto. destruct Hz as (_ & ? & _). congruence.
    - prj. set (wl := N.min (len buf) c).
      assert (Hwl : wl <= len buf) by lia.
      split; [|split; reflexivity]. unfold tx_post, new_size, txinv, liveb. prj.
      rewrite len_app, len_firstn_le by auto. fin.
      destruct size; auto. destruct Hz as (_ & _ & ?). congruence. }
  destruct (s_chunk s1) as [c|] eqn:Ech.
  - apply Hgo; auto.
  - destruct (s_bin s1) eqn:Eb1.
    + pose proof (Hgo cs (s1 <| s_chunk := Some cs |>)) as H.
      apply H.
      * now apply txinv_chunk.
      * destruct s1; prj; auto.
    + cbn zeta. split; [apply Hbase; auto|split; reflexivity].
Qed.

Lemma poll_flush_post m0 acc sent size down e s :
  txinv m0 acc sent size s ->
  let o := poll_flush down e s in
  tx_post m0 acc sent size down o /\ o_size o = None /\ o_acc o = [].
Proof.
  intros Hinv. pose proof (poll_complete_tx_post m0 acc sent size down e s Hinv) as Hc.
  unfold poll_flush. destruct (poll_complete_tx down e s) as [[[p s1] evs] snt].
  destruct Hc as (Hev & Hdown & Hinv1 & Hok & Hnok).
  assert (Hd' : down = true -> snt = []) by (intros; apply Hdown; auto).
  cbn zeta. unfold tx_post, new_size. prj. rewrite app_nil_r. fin.
Qed.

Lemma evbytes_end evs : evbytes (evs ++ [EEnd]) = evbytes evs.
Proof. rewrite evbytes_app. cbn. now rewrite app_nil_r. Qed.

Lemma poll_shutdown_post m0 acc sent size down e s :
  txinv m0 acc sent size s ->
  let o := poll_shutdown down e s in
  tx_post m0 acc sent size down o /\ o_acc o = [].
Proof.
  intros Hinv. pose proof (poll_complete_tx_post m0 acc sent size down e s Hinv) as Hc.
  unfold poll_shutdown. destruct (poll_complete_tx down e s) as [[[p s1] evs] snt].
  destruct Hc as (Hev & Hdown & Hinv1 & Hok & Hnok).
  assert (Hd' : down = true -> snt = []) by (intros; apply Hdown; auto).
  assert (Hbase : forall r, tx_post m0 acc sent size down (mkO r s1 evs [] snt None)).
  { intros r. unfold tx_post, new_size. prj. rewrite app_nil_r. fin. }
  destruct p; try (cbn zeta; split; [apply Hbase|reflexivity]).
  specialize (Hok eq_refl).
  assert (Hevs : evbytes (if s_bin s1 then evs ++ [EEnd] else evs) = snt).
  { destruct (s_bin s1); [rewrite evbytes_end|]; auto. }
  destruct s1 as [w md ch bin sd]. prj. subst sd.
  unfold txinv, liveb in Hinv1. prj. destruct Hinv1 as (Hw & Hl & Hu & Hs & Hcap & Hz).
  destruct md as [n|]; cbn zeta; (split; [|reflexivity]); unfold tx_post, new_size, txinv, liveb; prj;
    rewrite app_nil_r.
  - fin.
    destruct size; auto. intuition.
  - destruct (Hu eq_refl) as [-> ->]. fin.
Qed.

(** * The invariant of the whole channel *)

Definition flowinv (y : sys) : Prop :=
  if y_down y
  then prefix (g_read y ++ cur_bytes (y_rx y) ++ evbytes (y_rxq y)) (g_sent y)
  else g_sent y = g_read y ++ cur_bytes (y_rx y) ++ evbytes (y_rxq y) ++ evbytes (y_net y).

(** After the sender has been dropped. *)
Definition deadinv (m0 : size_mode) (acc sent : list N) (size : cell) : Prop :=
  prefix sent acc /\ (forall n, m0 = Known n -> len acc <= n) /\
  match size with CSent e => e = len acc /\ m0 = Unknown | _ => True end.

Record Inv (y : sys) : Prop := mkInv {
  inv_tx : match y_tx y with
           | Some s => txinv (y_mode0 y) (g_acc y) (g_sent y) (y_size y) s
           | None => deadinv (y_mode0 y) (g_acc y) (g_sent y) (y_size y)
           end;
  inv_arr : y_size y = CEmpty -> y_arrived y = false;
  inv_flow : flowinv y;
  inv_read : r_read (y_rx y) = len (g_read y);
  inv_rx : rinv (y_mode0 y) (view y) (y_rx y)
}.

Lemma txinv_dead m0 acc sent size s : txinv m0 acc sent size s -> deadinv m0 acc sent size.
Proof.
  unfold txinv, deadinv. intros (Hw & Hl & Hu & Hs & Hc & Hz). split; [|split]; auto.
  - destruct (s_sending s); subst; auto using prefix_refl. now exists a.
  - destruct size; intuition.
Qed.

Lemma inv_dead y : Inv y -> deadinv (y_mode0 y) (g_acc y) (g_sent y) (y_size y).
Proof. intros [H _ _ _ _]. destruct (y_tx y); eauto using txinv_dead. Qed.

Lemma inv_read_sent y : Inv y -> prefix (g_read y) (g_sent y).
Proof.
  intros [_ _ H _ _]. unfold flowinv in H. destruct (y_down y).
  - eapply prefix_app_l; eauto.
  - rewrite H. eexists; eauto.
Qed.

Lemma inv_read_acc y : Inv y -> prefix (g_read y) (g_acc y).
Proof. intros H. eapply prefix_trans; [apply inv_read_sent; auto|apply inv_dead; auto]. Qed.

Lemma view_sent y e : Inv y -> view y = CSent e -> y_size y = CSent e.
Proof. unfold view. intros _. destruct (y_arrived y); auto. destruct (y_down y); congruence. Qed.

Lemma inv_expected y e : Inv y -> expected (y_mode0 y) (view y) = Some e -> len (g_acc y) <= e.
Proof.
  intros H He. pose proof (inv_dead y H) as (_ & Hc & Hz). unfold expected in He.
  destruct (y_mode0 y) as [n|] eqn:Em.
  - injection He as <-. auto.
  - destruct (view y) as [|e'|] eqn:Ev; try congruence. injection He as <-.
    apply view_sent in Ev; auto. rewrite Ev in Hz. lia.
Qed.

Lemma inv_bound y : Inv y -> bound (y_mode0 y) (view y) (y_rx y).
Proof.
  intros H e He. rewrite (inv_read y H).
  pose proof (prefix_len _ _ (inv_read_acc y H)). pose proof (inv_expected y e H He). lia.
Qed.

Lemma rinv_view_change m sz r : rinv m CEmpty r -> rinv m sz r.
Proof.
  unfold rinv. intros (Hm & Hc & He). split; [|split]; auto.
  - destruct m; auto. destruct Hm as [H1 H2]. split; auto. intros e H. specialize (H1 e H). congruence.
  - intros H. specialize (He H). destruct m; unfold expected in *; congruence.
Qed.

Lemma init_inv cs m : Inv (init cs m).
Proof.
  split; cbn; auto.
  - unfold txinv, liveb, init_sender. cbn. fin.
  - unfold rinv, expected, init_receiver. cbn. destruct m; fin.
Qed.

Ltac yprj := cbn [y_cs y_mode0 y_tx y_net y_rxq y_size y_arrived y_down y_rx g_acc g_sent g_read
                                       fst snd] in *.

Lemma apply_tx_inv y s o :
  Inv y -> y_tx y = Some s ->
  tx_post (y_mode0 y) (g_acc y) (g_sent y) (y_size y) (y_down y) o ->
  Inv (fst (apply_tx y o)).
Proof.
  intros [Htx Harr Hflow Hread Hrx] Hs (Hinv' & Hev & Hdown & Hsz).
  assert (Hview : view (fst (apply_tx y o)) = view y).
  { unfold apply_tx, view. destruct y. yprj. destruct y_arrived; auto.
    destruct (o_size o) eqn:E; auto. destruct Hsz as [Hsz _]; [congruence|].
    specialize (Harr Hsz). congruence. }
  split.
  - unfold apply_tx. destruct y. yprj. exact Hinv'.
  - unfold apply_tx. destruct y. yprj. destruct (o_size o); [congruence|auto].
  - unfold flowinv, apply_tx in *. destruct y. yprj. destruct y_down.
    + rewrite (Hdown eq_refl), app_nil_r. auto.
    + rewrite Hflow, evbytes_app, Hev. now rewrite <- !app_assoc.
  - unfold apply_tx. destruct y. yprj. auto.
  - rewrite Hview. unfold apply_tx. destruct y. yprj. auto.
Qed.

Lemma poll_read_post y want r q res :
  Inv y -> poll_read want (view y) (y_rx y) (y_rxq y) = (r, q, res) ->
  rinv (y_mode0 y) (view y) r /\
  cur_bytes (y_rx y) ++ evbytes (y_rxq y) = result_bytes res ++ cur_bytes r ++ evbytes q /\
  r_read r = r_read (y_rx y) + len (result_bytes res) /\ (res = Eof -> r_eof r = true) /\
  (r_eof (y_rx y) = true -> r_eof r = true).
Proof.
  intros H. unfold poll_read. apply poll_read_fuel_post; [apply H|apply inv_bound; auto].
Qed.

Lemma step_inv y a : Inv y -> Inv (fst (step y a)).
Proof.
  intros H. destruct a as [buf e|e|e| |want| | |]; cbn [step].
  - destruct (y_tx y) as [s|] eqn:Es; [|exact H].
    eapply apply_tx_inv; eauto. apply poll_write_post. pose proof (inv_tx y H) as Ht. now rewrite Es in Ht.
  - destruct (y_tx y) as [s|] eqn:Es; [|exact H].
    eapply apply_tx_inv; eauto. apply poll_flush_post. pose proof (inv_tx y H) as Ht. now rewrite Es in Ht.
  - destruct (y_tx y) as [s|] eqn:Es; [|exact H].
    eapply apply_tx_inv; eauto. apply poll_shutdown_post. pose proof (inv_tx y H) as Ht. now rewrite Es in Ht.
  - (* drop *)
    destruct (y_tx y) as [s|] eqn:Es; [|exact H].
    destruct H as [Htx Harr Hflow Hread Hrx]. rewrite Es in Htx.
    pose proof (txinv_dead _ _ _ _ _ Htx) as (Hp & Hc & Hz).
    destruct Htx as (_ & _ & Hu & _).
    assert (Hview : view (fst (mkY (y_cs y) (y_mode0 y) None
               (if y_down y then y_net y else if liveb s then y_net y ++ [EEnd] else y_net y) (y_rxq y)
               (match s_mode s with Unknown => CDropped | Known _ => y_size y end) (y_arrived y) (y_down y)
               (y_rx y) (g_acc y) (g_sent y) (g_read y), Done 0 [])) = view y).
    { unfold view. yprj. destruct (y_arrived y) eqn:Ea; auto. destruct (s_mode s); auto.
      destruct (Hu eq_refl) as [_ Hs]. specialize (Harr Hs). congruence. }
    split; yprj.
    + unfold deadinv. split; [|split]; auto. destruct (s_mode s); auto.
    + destruct (s_mode s); [auto|congruence].
    + unfold flowinv in *. yprj. destruct (y_down y); auto.
      destruct (liveb s); auto. now rewrite evbytes_end.
    + auto.
    + rewrite Hview. auto.
  - (* read *)
    destruct (poll_read want (view y) (y_rx y) (y_rxq y)) as [[r q] res] eqn:Ep.
    pose proof (poll_read_post y want r q res H Ep) as (Hr & Hcons & Hrd & _ & _).
    destruct H as [Htx Harr Hflow Hread Hrx].
    split; yprj; [exact Htx|exact Harr| | |exact Hr].
    + unfold flowinv in *. yprj. destruct (y_down y).
      * replace ((g_read y ++ result_bytes res) ++ cur_bytes r ++ evbytes q)
          with (g_read y ++ cur_bytes (y_rx y) ++ evbytes (y_rxq y)); auto.
        rewrite Hcons. now rewrite <- !app_assoc.
      * rewrite Hflow.
        replace (cur_bytes (y_rx y) ++ evbytes (y_rxq y) ++ evbytes (y_net y))
          with ((cur_bytes (y_rx y) ++ evbytes (y_rxq y)) ++ evbytes (y_net y)) by now rewrite <- app_assoc.
        rewrite Hcons. now rewrite <- !app_assoc.
    + rewrite Hrd, Hread, len_app. reflexivity.
  - (* deliver *)
    destruct (y_down y) eqn:Ed; [exact H|]. destruct (y_net y) as [|ev n] eqn:En; [exact H|].
    destruct H as [Htx Harr Hflow Hread Hrx].
    split; yprj; [exact Htx|exact Harr| |exact Hread|].
    + unfold flowinv in *. yprj. rewrite Ed, En in *. rewrite Hflow, evbytes_app.
      rewrite (evbytes_cons ev n), (evbytes_cons ev []). unfold evbytes at 4. cbn [flat_map].
      rewrite app_nil_r. now rewrite <- !app_assoc.
    + unfold view in *. yprj. rewrite Ed in *. auto.
  - (* deliver size *)
    destruct (y_down y) eqn:Ed; [exact H|].
    assert (Hgo : y_size y <> CEmpty ->
      Inv (mkY (y_cs y) (y_mode0 y) (y_tx y) (y_net y) (y_rxq y) (y_size y) true false (y_rx y)
               (g_acc y) (g_sent y) (g_read y))).
    { intros Hne. destruct H as [Htx Harr Hflow Hread Hrx].
      split; yprj; [exact Htx|congruence| |exact Hread|].
      { unfold flowinv in *. yprj. now rewrite Ed in Hflow. }
      unfold view in *. yprj. rewrite Ed in *. destruct (y_arrived y); auto.
      now apply rinv_view_change. }
    destruct (y_size y) eqn:Esz; [exact H| |]; cbn [fst]; apply Hgo; congruence.
  - (* cut *)
    destruct (y_down y) eqn:Ed; [exact H|].
    destruct H as [Htx Harr Hflow Hread Hrx].
    split; yprj; [exact Htx|exact Harr| |exact Hread|].
    + unfold flowinv in *. yprj. rewrite Ed in *. rewrite Hflow, evbytes_app. cbn [evbytes flat_map].
      rewrite !app_nil_r. exists (evbytes (y_net y)). now rewrite <- !app_assoc.
    + unfold view in *. yprj. rewrite Ed in *. destruct (y_arrived y); auto.
      now apply rinv_view_change.
Qed.

(** * Runs *)

Ltac break_goal :=
  repeat match goal with
         | |- context [match ?x with _ => _ end] =>
             lazymatch x with
             | context [match _ with _ => _ end] => fail
             | _ => destruct x eqn:?; prj
             end
         end.

Definition plain (r : result) : Prop := result_bytes r = [] /\ r <> Eof /\ r <> OutOfFuel.

Lemma pres_plain p : plain (pres_result p).
Proof. destruct p; repeat split; cbn; congruence. Qed.

Lemma poll_write_plain cs down e s buf : plain (o_res (poll_write cs down e s buf)).
Proof.
  unfold poll_write. destruct (poll_complete_tx down e s) as [[[p s1] evs] snt].
  destruct p; try apply pres_plain.
  break_goal; repeat split; cbn; congruence.
Qed.

Lemma poll_flush_plain down e s : plain (o_res (poll_flush down e s)).
Proof.
  unfold poll_flush. destruct (poll_complete_tx down e s) as [[[p s1] evs] snt]. apply pres_plain.
Qed.

Lemma poll_shutdown_plain down e s :
  plain (o_res (poll_shutdown down e s)) /\
  (o_size (poll_shutdown down e s) <> None -> o_res (poll_shutdown down e s) = Done 0 []).
Proof.
  unfold poll_shutdown. destruct (poll_complete_tx down e s) as [[[p s1] evs] snt].
  destruct p; try (split; [apply pres_plain|cbn; congruence]).
  break_goal; repeat split; cbn; congruence.
Qed.

(** One step: the ghost history is the observable history; EOF is sticky; the size is announced
    only by a successful shutdown. *)
Lemma step_obs y a y' o :
  Inv y -> step y a = (y', o) ->
  g_read y' = g_read y ++ result_bytes o /\
  g_acc y' = g_acc y ++ accepted_by a o /\
  (o = Eof -> r_eof (y_rx y') = true) /\
  (r_eof (y_rx y) = true -> r_eof (y_rx y') = true) /\
  (forall k, y_size y' = CSent k -> y_size y = CSent k \/ exists e, a = AShutdown e /\ o = Done 0 []) /\
  o <> OutOfFuel.
Proof.
  intros H. destruct a as [buf e|e|e| |want| | |]; cbn [step].
  - destruct (y_tx y) as [s|] eqn:Es.
    2:{ intros [= <- <-]. cbn. rewrite !app_nil_r. fin. }
    pose proof (inv_tx y H) as Ht. rewrite Es in Ht.
    pose proof (poll_write_post _ _ _ _ (y_cs y) (y_down y) e s buf Ht) as (_ & Hsz & Hacc).
    pose proof (poll_write_plain (y_cs y) (y_down y) e s buf) as (Hb & Hne & Hnf).
    unfold apply_tx. intros [= <- <-]. yprj. rewrite Hb, Hsz, app_nil_r. fin.
  - destruct (y_tx y) as [s|] eqn:Es.
    2:{ intros [= <- <-]. cbn. rewrite !app_nil_r. fin. }
    pose proof (inv_tx y H) as Ht. rewrite Es in Ht.
    pose proof (poll_flush_post _ _ _ _ (y_down y) e s Ht) as (_ & Hsz & Hacc).
    pose proof (poll_flush_plain (y_down y) e s) as (Hb & Hne & Hnf).
    unfold apply_tx. intros [= <- <-]. yprj. rewrite Hb, Hsz, Hacc, !app_nil_r. fin.
  - destruct (y_tx y) as [s|] eqn:Es.
    2:{ intros [= <- <-]. cbn. rewrite !app_nil_r. fin. }
    pose proof (inv_tx y H) as Ht. rewrite Es in Ht.
    pose proof (poll_shutdown_post _ _ _ _ (y_down y) e s Ht) as (_ & Hacc).
    pose proof (poll_shutdown_plain (y_down y) e s) as ((Hb & Hne & Hnf) & Hsz).
    unfold apply_tx. intros [= <- <-]. yprj. rewrite Hb, Hacc, !app_nil_r. fin.
    intros k Hk. destruct (o_size (poll_shutdown (y_down y) e s)) eqn:Eo; auto.
    right. exists e. split; auto. apply Hsz. congruence.
  - destruct (y_tx y) as [s|] eqn:Es; intros [= <- <-]; yprj; cbn; rewrite !app_nil_r; fin.
    intros k Hk. destruct (s_mode s); auto. congruence.
  - destruct (poll_read want (view y) (y_rx y) (y_rxq y)) as [[r q] res] eqn:Ep.
    pose proof (poll_read_post y want r q res H Ep) as (_ & _ & _ & He1 & He2).
    pose proof (poll_read_total want (view y) (y_rx y) (y_rxq y)) as Hf. rewrite Ep in Hf.
    intros [= <- <-]. yprj. cbn [accepted_by]. rewrite app_nil_r. fin.
  - destruct (y_down y); [|destruct (y_net y)]; intros [= <- <-]; yprj; cbn; rewrite !app_nil_r; fin.
  - destruct (y_down y); [|destruct (y_size y) eqn:Esz]; intros [= <- <-]; yprj; cbn; rewrite !app_nil_r; fin.
  - destruct (y_down y); intros [= <- <-]; yprj; cbn; rewrite !app_nil_r; fin.
Qed.

Lemma run_obs acts : forall y y' outs,
  Inv y -> run_acts acts y = (y', outs) ->
  Inv y' /\
  g_read y' = g_read y ++ bytes_read_of outs /\
  g_acc y' = g_acc y ++ bytes_accepted_of acts outs /\
  (r_eof (y_rx y) = true \/ In Eof outs -> r_eof (y_rx y') = true) /\
  (forall k, y_size y' = CSent k -> y_size y = CSent k \/ shutdown_ok acts outs) /\
  ~ In OutOfFuel outs /\ length outs = length acts.
Proof.
  induction acts as [|a acts IH]; intros y y' outs H; cbn [run_acts].
  - intros [= <- <-]. cbn. rewrite !app_nil_r. fin. intros [?|[]]; auto.
  - destruct (step y a) as [y1 o] eqn:Es. destruct (run_acts acts y1) as [y2 os] eqn:Er.
    intros [= <- <-].
    pose proof (step_obs y a y1 o H Es) as (Hr & Ha & He1 & He2 & Hs & Hf).
    assert (H1 : Inv y1) by (pose proof (step_inv y a H) as Hi; now rewrite Es in Hi).
    destruct (IH y1 y2 os H1 Er) as (H2 & Hr2 & Ha2 & He & Hs2 & Hf2 & Hl).
    split; [exact H2|]. cbn [bytes_read_of bytes_accepted_of]. rewrite Hr2, Ha2, Hr, Ha, <- !app_assoc.
    split; [reflexivity|]. split; [reflexivity|]. split; [|split; [|split]].
    + intros [Hy|[Ho|Hi]]; apply He; auto.
    + intros k Hk. destruct (Hs2 k Hk) as [Hk1|(e & Hin)].
      * destruct (Hs k Hk1) as [?|(e & -> & ->)]; auto. right. exists e. cbn. auto.
      * right. exists e. cbn. auto.
    + intros [Ho|Hi]; auto.
    + cbn. lia.
Qed.

Lemma run_mode0 acts : forall y0 y outs, run_acts acts y0 = (y, outs) -> y_mode0 y = y_mode0 y0.
Proof.
  induction acts as [|a acts IH]; intros y0 y outs; cbn [run_acts].
  - now intros [= <- _].
  - destruct (step y0 a) as [y1 o] eqn:Es. destruct (run_acts acts y1) as [y2 os] eqn:Er.
    intros [= <- _]. rewrite (IH _ _ _ Er). clear -Es.
    destruct a; cbn [step] in Es; unfold apply_tx in Es;
      repeat match type of Es with
             | context [match ?x with _ => _ end] => destruct x
             end; injection Es as <- _; reflexivity.
Qed.

Lemma eof_complete y :
  Inv y -> r_eof (y_rx y) = true ->
  g_read y = g_acc y /\ expected (y_mode0 y) (view y) = Some (len (g_read y)).
Proof.
  intros H He. pose proof (inv_rx y H) as (_ & _ & Hx). specialize (Hx He).
  rewrite (inv_read y H) in Hx. split; auto.
  apply prefix_len_eq; [apply inv_read_acc; auto|]. apply inv_expected; auto.
Qed.

(** * The theorems of C18 *)

Theorem bytes_prefix cs m acts y outs :
  run_acts acts (init cs m) = (y, outs) ->
  prefix (bytes_read_of outs) (bytes_accepted_of acts outs) /\
  (In Eof outs -> bytes_read_of outs = bytes_accepted_of acts outs).
Proof.
  intros Hrun. destruct (run_obs acts _ _ _ (init_inv cs m) Hrun) as (H & Hr & Ha & He & _).
  cbn in Hr, Ha. rewrite <- Hr, <- Ha. split; [apply inv_read_acc; auto|].
  intros Hin. apply eof_complete; auto.
Qed.

Theorem eof_only_complete cs m acts y outs :
  run_acts acts (init cs m) = (y, outs) -> In Eof outs ->
  match m with
  | Known n => len (bytes_read_of outs) = n
  | Unknown => announced y = Some (len (bytes_read_of outs)) /\ shutdown_ok acts outs
  end /\ len (bytes_accepted_of acts outs) = len (bytes_read_of outs).
Proof.
  intros Hrun Hin. destruct (run_obs acts _ _ _ (init_inv cs m) Hrun) as (H & Hr & Ha & He & Hs & _).
  cbn in Hr, Ha. rewrite <- Hr, <- Ha.
  destruct (eof_complete y H (He (or_intror Hin))) as (Heq & Hx).
  assert (Hm : y_mode0 y = m) by (now rewrite (run_mode0 _ _ _ _ Hrun)).
  split; [|now rewrite Heq].
  rewrite Hm in Hx. unfold expected in Hx. destruct m as [n|].
  - now injection Hx.
  - destruct (view y) as [|e|] eqn:Ev; try congruence. injection Hx as ->.
    apply view_sent in Ev; auto. unfold announced. rewrite Ev. split; auto.
    destruct (Hs _ Ev) as [Hc|?]; auto. discriminate Hc.
Qed.

Theorem short_never_eof cs m acts y outs :
  run_acts acts (init cs m) = (y, outs) -> In Eof outs ->
  match m with
  | Known n => len (bytes_accepted_of acts outs) = n
  | Unknown => shutdown_ok acts outs
  end.
Proof.
  intros Hrun Hin. destruct (eof_only_complete cs m acts y outs Hrun Hin) as [H1 H2].
  destruct m; [congruence|apply H1].
Qed.

(** Sized channels: no write is accepted beyond the fixed size, and nothing but accepted bytes is
    ever handed to the transport. *)
Theorem refuse_global cs n acts y outs :
  run_acts acts (init cs (Known n)) = (y, outs) ->
  len (bytes_accepted_of acts outs) <= n /\
  prefix (bytes_transmitted y) (bytes_accepted_of acts outs) /\
  len (bytes_transmitted y) <= n.
Proof.
  intros Hrun. destruct (run_obs acts _ _ _ (init_inv cs (Known n)) Hrun) as (H & _ & Ha & _).
  cbn in Ha. rewrite <- Ha. pose proof (inv_dead y H) as (Hp & Hc & _).
  rewrite (run_mode0 _ _ _ _ Hrun) in Hc. cbn in Hc. specialize (Hc n eq_refl).
  unfold bytes_transmitted. pose proof (prefix_len _ _ Hp). repeat split; auto. lia.
Qed.

(** A live sender whose fixed size is reached refuses a non-empty write with [WriteZero]; nothing is
    accepted and nothing new is sent except the chunk that was already buffered. *)
Theorem refuse_step y s n b buf e :
  y_tx y = Some s -> s_mode s = Known n -> n <= s_written s -> s_bin s = true -> s_sending s = FNone ->
  let '(y', res) := step y (AWrite (b :: buf) e) in
  res = Fail KWriteZero /\ g_acc y' = g_acc y /\ g_sent y' = g_sent y /\ y_net y' = y_net y.
Proof.
  intros Hs Hm Hle Hb Hsd. cbn [step]. rewrite Hs. unfold apply_tx, poll_write, poll_complete_tx.
  rewrite Hsd. destruct s as [w md ch bin sd]. prj. subst.
  assert (n <=? w = true) as E by now apply N.leb_le.
  destruct ch as [c|]; prj; rewrite E; prj; rewrite !app_nil_r; destruct (y_down y); auto.
Qed.

(** Shutting a sized channel down short of (or beyond) its size is an error on the sender side. *)
Theorem short_shutdown y s n e :
  y_tx y = Some s -> s_mode s = Known n -> s_written s <> n ->
  (s_sending s = FNone \/ (exists d, s_sending s = FRun d) /\ y_down y = false /\ e_ready e = true) ->
  snd (step y (AShutdown e)) = Fail KUnexpectedEof.
Proof.
  intros Hs Hm Hne Hsd. cbn [step]. rewrite Hs. unfold apply_tx, poll_shutdown, poll_complete_tx.
  destruct s as [w md ch bin sd]. prj. subst.
  assert (w =? n = false) as E by now apply N.eqb_neq.
  destruct Hsd as [->|((d & ->) & -> & ->)]; prj; now rewrite E.
Qed.

(** Fuel beyond what a poll needs does not change its result. *)
Lemma poll_read_fuel_mono want sz f : forall r q r' q' res f',
  poll_read_fuel f want sz r q = (r', q', res) -> res <> OutOfFuel -> (f <= f')%nat ->
  poll_read_fuel f' want sz r q = (r', q', res).
Proof.
  induction f as [|f IH]; intros r q r' q' res f'; cbn [poll_read_fuel].
  - intros [= _ _ <-]. congruence.
  - intros Hrun Hne Hle. destruct f' as [|f']; [lia|]. cbn [poll_read_fuel].
    destruct (read_iter want sz r q) as [r1 q1 res1|r1 q1]; auto. apply IH; auto. lia.
Qed.

Lemma poll_read_by_fuel want sz f r q r' q' res :
  poll_read_fuel f want sz r q = (r', q', res) -> res <> OutOfFuel -> (f <= 4 * length q + 4)%nat ->
  poll_read want sz r q = (r', q', res).
Proof. intros. unfold poll_read. eapply poll_read_fuel_mono; eauto. Qed.

(** The receiver has consumed all data and the next thing it sees is the end of the stream. *)
Definition at_end (r : receiver) : Prop :=
  r_cur r = None /\ r_eof r = false /\
  ((r_state r = RReceiving /\ r_bin r = false) \/ (r_state r = RIdle /\ r_bin r = true)).

(** Sized channel, stream ends before the fixed size: [UnexpectedEof]. *)
Theorem short_end_sized n want sz r q :
  at_end r -> r_size r = Some (Determined n) -> r_read r < n ->
  snd (poll_read want sz r (EEnd :: q)) = Fail KUnexpectedEof.
Proof.
  intros (Hc & He & Hst) Hsz Hlt. destruct r as [bin size rd cur st eof]. cbn [r_cur r_eof r_state r_bin r_size r_read] in *. subst.
  assert (rd =? n = false) as E by (apply N.eqb_neq; lia).
  assert (exists p, n - rd = N.pos p) as [p Hp] by (destruct (n - rd) eqn:E1; [lia|eauto]).
  destruct Hst as [[-> ->]|[-> ->]].
  - erewrite poll_read_by_fuel with (f := 2%nat); [reflexivity| |congruence|cbn [length]; lia].
    repeat (progress (cbn; rewrite ?Hp, ?E)). reflexivity.
  - erewrite poll_read_by_fuel with (f := 3%nat); [reflexivity| |congruence|cbn [length]; lia].
    repeat (progress (cbn; rewrite ?Hp, ?E)). reflexivity.
Qed.

(** Unsized channel at the end of the data stream: the result is decided by the size oneshot --
    still empty: pending; sender gone without shutdown: [UnexpectedEof]; a size: EOF exactly if it
    equals the number of bytes read. *)
Theorem short_end_unsized want sz r q :
  at_end r -> r_size r = Some Undetermined ->
  snd (poll_read want sz r (EEnd :: q)) =
  match sz with
  | CEmpty => Pending
  | CDropped => Fail KUnexpectedEof
  | CSent e => if r_read r =? e then Eof else Fail KUnexpectedEof
  end.
Proof.
  intros (Hc & He & Hst) Hsz. destruct r as [bin size rd cur st eof]. cbn [r_cur r_eof r_state r_bin r_size r_read] in *. subst.
  destruct Hst as [[-> ->]|[-> ->]]; destruct sz as [|e|]; try destruct (rd =? e) eqn:E;
    (erewrite poll_read_by_fuel with (f := 4%nat);
     [reflexivity|repeat (progress (cbn; rewrite ?E)); reflexivity|congruence|cbn [length]; lia]).
Qed.

(** The event stream breaks ([EErr]: connection cut, port error) before the stream is complete:
    that error is reported. *)
Theorem short_err k want sz r q :
  at_end r -> (r_size r = Some Undetermined \/ exists n, r_size r = Some (Determined n) /\ r_read r < n) ->
  snd (poll_read want sz r (EErr k :: q)) = Fail k.
Proof.
  intros (Hc & He & Hst) Hsz. destruct r as [bin size rd cur st eof]. cbn [r_cur r_eof r_state r_bin r_size r_read] in *. subst.
  destruct Hst as [[-> ->]|[-> ->]].
  - erewrite poll_read_by_fuel with (f := 1%nat); [reflexivity| |congruence|cbn [length]; lia].
    reflexivity.
  - erewrite poll_read_by_fuel with (f := 2%nat); [reflexivity| |congruence|cbn [length]; lia].
    destruct Hsz as [->|(n & -> & Hlt)]; cbn; [reflexivity|].
    assert (exists p, n - rd = N.pos p) as [p Hp] by (destruct (n - rd) eqn:E1; [lia|eauto]).
    repeat (progress (cbn; rewrite ?Hp)). reflexivity.
Qed.

(** A receiver whose receive or size future completed with an error panics when polled again
    (the completed future is still in place), it never reports EOF or data. *)
Theorem poisoned_panics want sz r q :
  r_state r = RRecvDone \/ r_state r = RVerDone -> snd (poll_read want sz r q) = Panic.
Proof.
  intros Hst. unfold poll_read.
  replace (4 * length q + 4)%nat with (S (4 * length q + 3)) by lia. cbn [poll_read_fuel].
  unfold read_iter, complete_verify. destruct Hst as [->| ->]; reflexivity.
Qed.

(** Dropping an unsized sender that has not shut down, once that is known at the receiving endpoint,
    is what the receiver's size future sees as [CDropped] (so [short_end_unsized] gives
    [UnexpectedEof]); a cut connection looks the same unless the size had arrived before. *)
Theorem drop_unsized_view y s :
  y_tx y = Some s -> s_mode s = Unknown -> y_down y = false ->
  view (fst (step (fst (step y ADropTx)) ADeliverSize)) = CDropped.
Proof.
  intros Hs Hm Hd. cbn [step]. rewrite Hs, Hm. cbn [fst y_down y_size]. rewrite Hd. reflexivity.
Qed.

Theorem cut_view y :
  y_down y = false -> y_arrived y = false -> view (fst (step y ACut)) = CDropped.
Proof. intros Hd Ha. cbn [step]. rewrite Hd. unfold view. cbn. now rewrite Ha. Qed.
