(** [rch::mpsc] with remote senders: per-sender conservation under every schedule. *)
From Remoc Require Import Lib.Base Rch.Mpsc.

Ltac mprj := cbn [srcs alive queue cap final_err outs] in *.

Lemma nth_set_nth_eq {A} (l : list A) : forall i x d, (i < length l)%nat -> nth i (set_nth i x l) d = x.
Proof. induction l as [|y l IH]; intros [|i] x d H; cbn [set_nth nth length] in *; try lia; auto; try (apply IH; lia). Qed.

Lemma nth_set_nth_neq {A} (l : list A) : forall i j x d, i <> j -> nth j (set_nth i x l) d = nth j l d.
Proof.
  induction l as [|y l IH]; intros [|i] [|j] x d H; cbn [set_nth nth]; auto; try congruence; try (apply IH; congruence).
Qed.

Lemma proj_q_app i a b : proj_q i (a ++ b) = proj_q i a ++ proj_q i b.
Proof. unfold proj_q. now rewrite filter_app, map_app. Qed.
Lemma proj_o_app i a b : proj_o i (a ++ b) = proj_o i a ++ proj_o i b.
Proof. unfold proj_o. now rewrite filter_app, map_app. Qed.

(** [recv] takes exactly the first entry that is not a final error *)
Lemma recv_loop_some q : forall fe q' fe' o,
  recv_loop q fe = Some (q', fe', o) ->
  exists i e, o = (Some i, e) /\ is_final e = false /\
              forall j, proj_q j q = (if Nat.eqb i j then [e] else []) ++ proj_q j q'.
Proof.
  induction q as [|[i e] q IH]; intros fe q' fe' o H; cbn [recv_loop] in H; [discriminate|].
  destruct e as [b|n|].
  - injection H as <- <- <-. exists i, (MVal b). repeat split; auto. intros j. unfold proj_q at 1. cbn [filter fst snd is_final negb].
    destruct (Nat.eqb i j) eqn:E; cbn [andb map app]; reflexivity.
  - injection H as <- <- <-. exists i, (MErr n). repeat split; auto. intros j. unfold proj_q at 1. cbn [filter fst snd is_final negb].
    destruct (Nat.eqb i j) eqn:E; cbn [andb map app]; reflexivity.
  - destruct (IH _ _ _ _ H) as (i' & e' & -> & Hf & Hp). exists i', e'. repeat split; auto.
    intros j. rewrite <- Hp. unfold proj_q. cbn [filter fst snd is_final negb]. now rewrite andb_false_r.
Qed.

Lemma recv_loop_none q : forall fe, recv_loop q fe = None -> forall j, proj_q j q = [].
Proof.
  induction q as [|[i e] q IH]; intros fe H j; [reflexivity|]. cbn [recv_loop] in H.
  destruct e; try discriminate. unfold proj_q. cbn [filter fst snd is_final negb]. rewrite andb_false_r.
  apply (IH _ H j).
Qed.

(** the sources never contain final errors (those are raised by [MFail]) *)
Definition src_ok (ss : list (list mentry)) : Prop := Forall (Forall (fun e => is_final e = false)) ss.

Definition conserved (s0 s : mstate) : Prop :=
  length (srcs s) = length (srcs s0) /\ src_ok (srcs s) /\
  forall i, proj_o i (outs s) ++ proj_q i (queue s) ++ nth i (srcs s) [] = nth i (srcs s0) [].

Lemma src_ok_set ss i rest e : src_ok ss -> nth i ss [] = e :: rest -> src_ok (set_nth i rest ss).
Proof.
  unfold src_ok. revert i. induction ss as [|x ss IH]; intros [|i] H Hn; cbn [set_nth nth] in *; auto.
  - inversion H as [|? ? Hx Hs]; subst. constructor; auto. now inversion Hx.
  - inversion H; subst. constructor; auto.
Qed.

Lemma src_ok_nth ss i e rest : src_ok ss -> nth i ss [] = e :: rest -> is_final e = false.
Proof.
  unfold src_ok. revert i. induction ss as [|x ss IH]; intros [|i] H Hn; cbn [nth] in *; try discriminate.
  - inversion H as [|? ? Hx Hs]; subst. now inversion Hx.
  - inversion H; subst. eauto.
Qed.

Lemma nth_cons_length {A} (l : list (list A)) i x r : nth i l [] = x :: r -> (i < length l)%nat.
Proof.
  intros H. destruct (Nat.lt_ge_cases i (length l)) as [Hl|Hl]; auto. rewrite nth_overflow in H by lia. discriminate.
Qed.

Lemma conserved_step s0 s a : conserved s0 s -> conserved s0 (mstep s a).
Proof.
  intros (Hlen & Hok & Hc). destruct a as [i|i|i|]; unfold mstep.
  - destruct (nth i (alive s) false); [|split; auto].
    destruct (nth i (srcs s) []) as [|e rest] eqn:En; [split; auto|].
    destruct (len (queue s) <? cap s); [|split; auto].
    pose proof (nth_cons_length _ _ _ _ En) as Hi.
    pose proof (src_ok_nth _ _ _ _ Hok En) as Hfe.
    split; [|split]; mprj.
    + rewrite <- Hlen. clear -Hi. revert i Hi. induction (srcs s) as [|x l IH]; intros [|i] Hi; cbn [set_nth length] in *; auto; try lia.
      f_equal. apply IH. lia.
    + eapply src_ok_set; eauto.
    + intros j. rewrite proj_q_app. destruct (Nat.eq_dec i j) as [<-|Hne].
      * rewrite nth_set_nth_eq by exact Hi. rewrite <- (Hc i), En.
        unfold proj_q at 2. cbn [filter fst snd]. rewrite Nat.eqb_refl, Hfe. cbn [andb negb map].
        rewrite <- !app_assoc. reflexivity.
      * rewrite nth_set_nth_neq by exact Hne. rewrite <- (Hc j).
        unfold proj_q at 2. cbn [filter fst snd]. apply Nat.eqb_neq in Hne. rewrite Hne. cbn [andb map].
        now rewrite app_nil_r.
  - split; [|split]; mprj; auto.
  - destruct (nth i (alive s) false && (len (queue s) <? cap s)); [|split; auto].
    split; [|split]; mprj; auto. intros j. rewrite proj_q_app.
    unfold proj_q at 2. cbn [filter fst snd is_final negb]. rewrite andb_false_r. cbn [map]. rewrite app_nil_r. apply Hc.
  - destruct (recv_loop (queue s) (final_err s)) as [[[q' fe] o]|] eqn:Er.
    + destruct (recv_loop_some _ _ _ _ _ Er) as (i & e & -> & Hfe & Hp).
      split; [|split]; mprj; auto. intros j. rewrite proj_o_app, <- (Hc j), (Hp j).
      unfold proj_o at 2. cbn [filter fst snd]. rewrite Hfe. cbn [negb].
      destruct (Nat.eqb i j); cbn [andb map app]; rewrite <- ?app_assoc; cbn [app]; rewrite ?app_nil_r; reflexivity.
    + pose proof (recv_loop_none _ _ Er) as Hn.
      assert (Hq : forall j, proj_o j (outs s) ++ proj_q j [] ++ nth j (srcs s) [] = nth j (srcs s0) []).
      { intros j. rewrite <- (Hc j), (Hn j). reflexivity. }
      assert (Hfin : forall x j, proj_o j (outs s ++ [(x, MFinal)]) = proj_o j (outs s)).
      { intros x j. rewrite proj_o_app. unfold proj_o at 2. cbn [filter fst snd is_final negb]. rewrite andb_false_r. cbn [map]. apply app_nil_r. }
      destruct (existsb (fun b => b) (alive s)); [split; [|split]; mprj; auto|].
      destruct (drain_finals (queue s) (final_err s)); (split; [|split]); mprj; auto; intros j; rewrite Hfin; apply Hq.
Qed.

Lemma conserved_run acts : forall s0 s, conserved s0 s -> conserved s0 (mrun acts s).
Proof. induction acts as [|a acts IH]; intros s0 s H; cbn [mrun fold_left]; auto. apply IH. now apply conserved_step. Qed.

Lemma conserved_init ss c : src_ok ss -> conserved (minit ss c) (minit ss c).
Proof. intros H. split; [reflexivity|]. split; [exact H|]. intros i. reflexivity. Qed.

Lemma vals_app a b : vals (a ++ b) = vals a ++ vals b.
Proof. unfold vals. apply flat_map_app. Qed.

(** Under every schedule, what the receiver has obtained from sender [i] -- values and non-final
    errors, in order -- followed by what is still queued and still to come is exactly what that
    sender's base receiver yields: nothing is dropped, duplicated or reordered, and a non-final error
    does not cost a neighbouring value. *)
Theorem mpsc_conservation ss c acts i :
  src_ok ss ->
  let s := mrun acts (minit ss c) in
  proj_o i (outs s) ++ proj_q i (queue s) ++ nth i (srcs s) [] = nth i ss [].
Proof. intros H. apply (conserved_run acts _ _ (conserved_init ss c H)). Qed.

Theorem mpsc_prefix ss c acts i :
  src_ok ss ->
  prefix (vals (proj_o i (outs (mrun acts (minit ss c))))) (vals (nth i ss [])).
Proof.
  intros H. pose proof (mpsc_conservation ss c acts i H) as E. cbn zeta in E.
  rewrite <- E, vals_app. eexists. reflexivity.
Qed.

(** ** the end of the channel is reported only when nothing can follow *)
Definition all_ended (l : list (option nat * mentry)) : Prop := Forall (fun y => ended y = true) l.

Definition tail_ended (l : list (option nat * mentry)) : Prop :=
  forall o1 x o2, l = o1 ++ x :: o2 -> ended x = true -> all_ended o2.

Definition closed_inv (s : mstate) : Prop :=
  tail_ended (outs s) /\
  (existsb ended (outs s) = true -> queue s = [] /\ existsb (fun b => b) (alive s) = false).

Lemma tail_ended_snoc l y :
  tail_ended l -> (existsb ended l = true -> ended y = true) -> tail_ended (l ++ [y]).
Proof.
  intros Ht Hy o1 x o2 E Hx.
  destruct o2 as [|z o2] using rev_ind.
  - constructor.
  - clear IHo2. rewrite app_comm_cons, app_assoc in E. apply app_inj_tail in E. destruct E as [E ->].
    specialize (Ht _ _ _ E Hx). unfold all_ended. apply Forall_app. split; auto. constructor; auto.
    apply Hy. rewrite E, existsb_app. cbn [existsb]. rewrite Hx. now rewrite orb_true_r.
Qed.

Lemma existsb_set_false l i : existsb (fun b : bool => b) l = false -> existsb (fun b : bool => b) (set_nth i false l) = false.
Proof.
  revert i. induction l as [|x l IH]; intros [|i] H; cbn [set_nth existsb] in *; auto.
  - apply orb_false_iff in H. now destruct H as [_ ->].
  - apply orb_false_iff in H. destruct H as [-> H]. now rewrite IH.
Qed.

Lemma nth_false_of_none l i : existsb (fun b : bool => b) l = false -> nth i l false = false.
Proof.
  revert i. induction l as [|x l IH]; intros [|i] H; cbn [nth existsb] in *; auto.
  - apply orb_false_iff in H. now destruct H.
  - apply orb_false_iff in H. destruct H. auto.
Qed.

Lemma closed_step s a : closed_inv s -> closed_inv (mstep s a).
Proof.
  intros [Ht Hc]. destruct a as [i|i|i|]; unfold mstep.
  - destruct (nth i (alive s) false) eqn:Ea; [|split; auto].
    destruct (nth i (srcs s) []); [split; auto|]. destruct (len (queue s) <? cap s); [|split; auto].
    split; mprj; auto. intros He. destruct (Hc He) as [_ Hal]. rewrite (nth_false_of_none _ i Hal) in Ea. discriminate.
  - split; mprj; auto. intros He. destruct (Hc He) as [Hq Hal]. split; auto. now apply existsb_set_false.
  - destruct (nth i (alive s) false) eqn:Ea; cbn [andb]; [|split; auto].
    destruct (len (queue s) <? cap s); [|split; auto].
    split; mprj; auto. intros He. destruct (Hc He) as [_ Hal]. rewrite (nth_false_of_none _ i Hal) in Ea. discriminate.
  - destruct (recv_loop (queue s) (final_err s)) as [[[q' fe] o]|] eqn:Er.
    + destruct (recv_loop_some _ _ _ _ _ Er) as (i & e & -> & Hfe & Hp). split; mprj.
      * apply tail_ended_snoc; auto. intros He. destruct (Hc He) as [Hq _]. rewrite Hq in Er. discriminate.
      * rewrite existsb_app. cbn [existsb]. unfold ended at 2. cbn [snd]. rewrite Hfe, !orb_false_r. intros He.
        destruct (Hc He) as [Hq _]. rewrite Hq in Er. discriminate.
    + destruct (existsb (fun b => b) (alive s)) eqn:Eal.
      * split; mprj; auto. intros He. destruct (Hc He) as [_ Hal]. congruence.
      * destruct (drain_finals (queue s) (final_err s)); (split; mprj; [apply tail_ended_snoc; auto|intros _; auto]).
Qed.

Lemma closed_run acts : forall s, closed_inv s -> closed_inv (mrun acts s).
Proof. induction acts as [|a acts IH]; intros s H; cbn [mrun fold_left]; auto. apply IH. now apply closed_step. Qed.

(** Once [recv] has reported the end of the channel ([Ok(None)] or the held back final error) every
    later call reports the end again: no value arrives after it, and it is reported only when every
    forwarding task has ended and the queue is empty. *)
Theorem mpsc_end_is_final ss c acts :
  let s := mrun acts (minit ss c) in
  tail_ended (outs s) /\
  (existsb ended (outs s) = true -> queue s = [] /\ existsb (fun b => b) (alive s) = false).
Proof.
  apply closed_run. split; mprj.
  - intros o1 x o2 E. destruct o1; discriminate.
  - discriminate.
Qed.
