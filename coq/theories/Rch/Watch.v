(** Model of [remoc::rch::watch] (mod.rs, sender.rs, receiver.rs).

    Transcribed structure
    ---------------------
    A remoc watch channel is a tree of Tokio watch cells connected by forwarding tasks.

    [cell] = one [tokio::sync::watch] channel: the value, Tokio's version counter, the closed flag
    (every [tokio::sync::watch::Sender] of the cell dropped).  Every [Receiver] handle (and every
    forwarding task, which owns a clone of the Tokio receiver) has its own "seen" version.

    TRUSTED Tokio rules (tokio 1.49 [sync/watch.rs], [maybe_changed]; definitions here, not axioms):
      T1  [changed()] first compares the receiver's version with the cell's version and reports
          [Ok] for an unseen version; only when nothing is unseen it reports closure.  In the model:
          [FwdEnd] (the forwarding task sees [Err] from [changed()]) is enabled only when
          [lseen = cver]; [changed_res] answers [ChOk] before [ChClosed].
      T2  [Sender::send] fails, leaving value and version untouched, iff there is no receiver;
          [send_modify]/[send_replace] always store.  [Sender::closed()] completes iff there is no
          receiver.  ([has_rx])
      T3  [subscribe()] and [channel()] give a receiver that has seen the current version;
          [Receiver::clone] copies the seen version; [borrow_and_update] marks the current version
          seen; [borrow] does not.

    [channel(init)]: one cell (the root), the [Sender] handle on it, one receiver.

    [Receiver::serialize] (receiver.rs): [let mut rx = self.rx.clone(); let data =
    rx.borrow_and_update().clone()] -- the snapshot [data] travels inside the serialized receiver and
    the clone [rx], marked as having seen exactly that version, goes to the forwarding task
    [send_impl].  [Receiver::deserialize] creates a fresh cell [watch::channel(data)] and the task
    [recv_impl] that owns its Tokio sender.  In the model [TransferRx r]: a new cell whose link
    (fields [cpar], [lseen], [lchan], [lsend], [lrecv]) points to the cell of [r].

    [Sender::serialize] (sender.rs): snapshot [tx.borrow().clone()]; the remote side gets a fresh
    cell with the remoc [Sender] on it and a [send_impl] reading it; the old cell's Tokio sender
    moves into a [recv_impl] (after the local [Sender] is dropped at the end of the transfer).  In
    the model [TransferTx]: a new root cell; the old root becomes its child.

    [send_impl] (mod.rs), one iteration of its biased [select!]:
      - back channel closed ([raw_rx.recv()] gives [None]/error): stop                 [FwdStop]
      - [changed()] = Ok: [value = rx.borrow_and_update().clone(); remote_tx.send(value)]  [FwdTake]
        (errors that are not item specific are reported and ignored; the values of this model
        always serialize)
      - [changed()] = Err (T1: nothing unseen, cell closed): stop, dropping [remote_tx]  [FwdEnd]
    [recv_impl] (mod.rs):
      - [tx.closed()] (T2: no receiver on the fed cell): stop                          [RecvStop]
      - [remote_rx.recv()] = Some(value): [tx.send(value)]; if that fails (T2) stop     [FwdDeliver]
      - [remote_rx.recv()] = None: stop (drops the Tokio sender: the fed cell closes)   [FwdDeliver] of [MEof]
      - receive error: [tx.send(Err(..))] and stop if final                            [Fault]
    The remote channel between the two tasks ([rch::base] over a chmux port) is a FIFO ([lchan];
    in-order exactly-once delivery is C01/C04) ended by [MEof] when the sending half is dropped.
    An [Err] value stored in a cell is forwarded like a value ([MErr]).

    All nondeterminism -- what the application does when (send, send_modify, drop, subscribe, clone,
    observe, transfer of a receiver or of the sender), when each forwarding task takes each of its
    steps, when a connection fails -- is the [action] argument of [step].

    Values are pairs (send index, payload); the index is a ghost tag: 0 for the initial value,
    k for the k-th update that was stored.  [sent] lists the stored payloads in order.
    Ghost fields ([lfin], [ltaken], [clevel], [robs], [rsidx], [sent]) are never read by a guard. *)
From Remoc Require Import Lib.Base.
From RecordUpdate Require Import RecordUpdate.
Import RecordSetNotations.

Definition val := (N * N)%type.

Inductive msg := MVal (v : val) | MErr | MEof.

Record cell := mkC {
  cval : val;            (* last [Ok] value stored *)
  cerr : bool;           (* the cell currently holds [Err(RecvError)] instead *)
  cver : N;              (* Tokio version counter *)
  cclosed : bool;        (* the cell's Tokio sender is gone *)
  cpar : option nat;     (* [Some c]: fed by a link from cell [c]; [None]: root *)
  lseen : N;             (* version of the parent seen by [send_impl]'s receiver clone *)
  lchan : list msg;      (* remote channel, oldest first *)
  lsend : bool;          (* [send_impl] is running (and holds a Tokio receiver of the parent) *)
  lrecv : bool;          (* [recv_impl] is running (and holds the Tokio sender of this cell) *)
  lfin : bool;           (* ghost: [recv_impl] ended because the remote channel ended *)
  ltaken : N;            (* ghost: index of the value [send_impl] took last (or the snapshot) *)
  clevel : Z;            (* ghost: distance from the first root; parent = level - 1 *)
}.
#[export] Instance eta_cell : Settable _ :=
  settable! mkC <cval; cerr; cver; cclosed; cpar; lseen; lchan; lsend; lrecv; lfin; ltaken; clevel>.

Record rcv := mkR {
  rcell : nat;           (* the cell this handle reads *)
  rseen : N;             (* version marked seen *)
  rlive : bool;          (* handle not dropped *)
  robs : list val;       (* ghost: every [Ok] value this handle has been shown, in order *)
  rsidx : N;             (* ghost: index of the value that was current when [rseen] was set *)
}.
#[export] Instance eta_rcv : Settable _ := settable! mkR <rcell; rseen; rlive; robs; rsidx>.

Record state := mkS {
  ncell : nat;
  cells : nat -> cell;
  nrcv : nat;
  rcvs : nat -> rcv;
  sender : option nat;   (* cell of the remoc [Sender] handle; [None] once dropped *)
  root : nat;            (* the cell without a link (where the [Sender] is or was) *)
  sent : list N;         (* ghost: payloads stored so far, position = send index *)
}.
#[export] Instance eta_state : Settable _ := settable! mkS <ncell; cells; nrcv; rcvs; sender; root; sent>.

Definition upd {A} (f : nat -> A) (i : nat) (x : A) : nat -> A :=
  fun j => if Nat.eqb j i then x else f j.

Definition init_cell (p : N) : cell := mkC (0, p) false 0 false None 0 [] false false false 0 0%Z.
Definition dead_rcv : rcv := mkR 0 0 false [] 0.

(** [channel(p)] *)
Definition init (p : N) : state :=
  mkS 1 (fun _ => init_cell p) 1 (upd (fun _ => dead_rcv) 0 (mkR 0 0 true [] 0)) (Some 0%nat) 0 [p].

Inductive action :=
| Send (p : N)            (* [Sender::send] *)
| SendModify (p : N)      (* [Sender::send_modify] / [send_replace] *)
| DropSender
| Subscribe               (* [Sender::subscribe] *)
| CloneRx (r : nat)
| DropRx (r : nat)
| Observe (r : nat)       (* [borrow_and_update] *)
| Borrow (r : nat)        (* [borrow] *)
| Changed (r : nat)       (* one poll of [changed()] *)
| TransferRx (r : nat)    (* serialize the receiver to another endpoint, deserialize it there *)
| TransferTx              (* move the sender to another endpoint *)
| FwdTake (d : nat)
| FwdEnd (d : nat)
| FwdStop (d : nat)
| FwdDeliver (d : nat)
| RecvStop (d : nat)
| Fault (d : nat).        (* the connection under the link of cell [d] fails *)

Definition par_is (c : cell) (d : nat) : bool :=
  match cpar c with Some p => Nat.eqb p d | None => false end.

(** T2: receiver count of cell [d] is not zero -- a live handle, or a running [send_impl] reading [d] *)
Definition rx_at (st : state) (d : nat) : bool :=
  existsb (fun r => rlive (rcvs st r) && Nat.eqb (rcell (rcvs st r)) d) (seq 0 (nrcv st)).
Definition fwd_at (st : state) (d : nat) : bool :=
  existsb (fun e => lsend (cells st e) && par_is (cells st e) d) (seq 0 (ncell st)).
Definition has_rx (st : state) (d : nat) : bool := rx_at st d || fwd_at st d.

Definition set_cell (st : state) (d : nat) (c : cell) : state := st <| cells := upd (cells st) d c |>.
Definition set_rcv (st : state) (r : nat) (x : rcv) : state := st <| rcvs := upd (rcvs st) r x |>.
Definition add_rcv (st : state) (x : rcv) : state :=
  st <| rcvs := upd (rcvs st) (nrcv st) x |> <| nrcv := S (nrcv st) |>.
Definition add_cell (st : state) (c : cell) : state :=
  st <| cells := upd (cells st) (ncell st) c |> <| ncell := S (ncell st) |>.

(** a new value stored in a cell *)
Definition store (c : cell) (v : val) : cell := c <| cval := v |> <| cerr := false |> <| cver := cver c + 1 |>.
Definition store_err (c : cell) : cell := c <| cerr := true |> <| cver := cver c + 1 |>.
(** [recv_impl] ends: the Tokio sender and the remote receiver are dropped *)
Definition recv_end (c : cell) : cell := c <| lrecv := false |> <| cclosed := true |> <| lchan := [] |>.

Definition do_send (st : state) (c : nat) (p : N) : state :=
  set_cell st c (store (cells st c) (len (sent st), p)) <| sent := sent st ++ [p] |>.

(** a live receiver handle *)
Definition live_rcv (st : state) (r : nat) : option rcv :=
  if (r <? nrcv st)%nat && rlive (rcvs st r) then Some (rcvs st r) else None.

(** a cell with a link *)
Definition linked (st : state) (d : nat) : option (cell * nat) :=
  if (d <? ncell st)%nat then
    match cpar (cells st d) with Some c => Some (cells st d, c) | None => None end
  else None.

Definition msg_of (c : cell) : msg := if cerr c then MErr else MVal (cval c).

(** [None] = the action is not enabled *)
Definition step (st : state) (a : action) : option state :=
  match a with
  | Send p =>
      match sender st with
      | Some c => if has_rx st c then Some (do_send st c p) else Some st      (* T2: Err, nothing stored *)
      | None => None
      end
  | SendModify p =>
      match sender st with Some c => Some (do_send st c p) | None => None end
  | DropSender =>
      match sender st with
      | Some c => Some (set_cell st c (cells st c <| cclosed := true |>) <| sender := None |>)
      | None => None
      end
  | Subscribe =>
      match sender st with
      | Some c => Some (add_rcv st (mkR c (cver (cells st c)) true [] (fst (cval (cells st c)))))
      | None => None
      end
  | CloneRx r =>
      match live_rcv st r with
      | Some x => Some (add_rcv st (x <| robs := [] |>))
      | None => None
      end
  | DropRx r =>
      match live_rcv st r with
      | Some x => Some (set_rcv st r (x <| rlive := false |>))
      | None => None
      end
  | Observe r =>
      match live_rcv st r with
      | Some x =>
          let c := cells st (rcell x) in
          Some (set_rcv st r (x <| rseen := cver c |> <| rsidx := fst (cval c) |>
                                <| robs := if cerr c then robs x else robs x ++ [cval c] |>))
      | None => None
      end
  | Borrow r =>
      match live_rcv st r with
      | Some x =>
          let c := cells st (rcell x) in
          Some (set_rcv st r (x <| robs := if cerr c then robs x else robs x ++ [cval c] |>))
      | None => None
      end
  | Changed r =>
      match live_rcv st r with
      | Some x =>
          let c := cells st (rcell x) in
          if rseen x =? cver c then Some st                                   (* Pending or Err(Closed) *)
          else Some (set_rcv st r (x <| rseen := cver c |> <| rsidx := fst (cval c) |>))
      | None => None
      end
  | TransferRx r =>
      match live_rcv st r with
      | Some x =>
          let c := cells st (rcell x) in
          let e := mkC (cval c) (cerr c) 0 false (Some (rcell x)) (cver c) [] true true false
                       (fst (cval c)) (clevel c + 1)%Z in
          Some (add_rcv (add_cell st e) (mkR (ncell st) 0 true [] (fst (cval c))))
      | None => None
      end
  | TransferTx =>
      match sender st with
      | Some c =>
          match cpar (cells st c) with
          | None =>
              let old := cells st c in
              let n := mkC (cval old) false 0 false None 0 [] false false false 0 (clevel old - 1)%Z in
              let old' := old <| cpar := Some (ncell st) |> <| lseen := 0 |> <| lchan := [] |>
                              <| lsend := true |> <| lrecv := true |> <| lfin := false |>
                              <| ltaken := fst (cval old) |> in
              Some (set_cell (add_cell st n) c old' <| sender := Some (ncell st) |> <| root := ncell st |>)
          | Some _ => None
          end
      | None => None
      end
  | FwdTake d =>
      match linked st d with
      | Some (x, c) =>
          let pc := cells st c in
          if lsend x && negb (lseen x =? cver pc) then
            Some (set_cell st d (x <| lseen := cver pc |> <| ltaken := fst (cval pc) |>
                                   <| lchan := if lrecv x then lchan x ++ [msg_of pc] else lchan x |>))
          else None
      | None => None
      end
  | FwdEnd d =>
      match linked st d with
      | Some (x, c) =>
          let pc := cells st c in
          if lsend x && (lseen x =? cver pc) && cclosed pc then                (* T1 *)
            Some (set_cell st d (x <| lsend := false |>
                                   <| lchan := if lrecv x then lchan x ++ [MEof] else lchan x |>))
          else None
      | None => None
      end
  | FwdStop d =>
      match linked st d with
      | Some (x, _) =>
          if lsend x && negb (lrecv x) then Some (set_cell st d (x <| lsend := false |>)) else None
      | None => None
      end
  | FwdDeliver d =>
      match linked st d with
      | Some (x, _) =>
          if lrecv x then
            match lchan x with
            | MVal v :: rest =>
                if has_rx st d then Some (set_cell st d (store x v <| lchan := rest |>))
                else Some (set_cell st d (recv_end x))
            | MErr :: rest =>
                if has_rx st d then Some (set_cell st d (store_err x <| lchan := rest |>))
                else Some (set_cell st d (recv_end x))
            | MEof :: _ => Some (set_cell st d (recv_end x <| lfin := true |>))
            | [] => None
            end
          else None
      | None => None
      end
  | RecvStop d =>
      match linked st d with
      | Some (x, _) =>
          if lrecv x && negb (has_rx st d) then Some (set_cell st d (recv_end x)) else None
      | None => None
      end
  | Fault d =>
      match linked st d with
      | Some (x, _) =>
          if lrecv x || lsend x then
            Some (set_cell st d (recv_end (if lrecv x then store_err x else x) <| lsend := false |>))
          else None
      | None => None
      end
  end.

Fixpoint run (acts : list action) (st : state) : option state :=
  match acts with
  | [] => Some st
  | a :: r => match step st a with Some st' => run r st' | None => None end
  end.

Definition is_fault (a : action) : bool := match a with Fault _ => true | _ => false end.
Definition no_fault (acts : list action) : bool := forallb (fun a => negb (is_fault a)) acts.

(** the steps of the forwarding tasks *)
Definition is_fwd (a : action) : bool :=
  match a with FwdTake _ | FwdEnd _ | FwdStop _ | FwdDeliver _ | RecvStop _ => true | _ => false end.

(** result of [Sender::send] in [st] *)
Definition send_ok (st : state) : bool :=
  match sender st with Some c => has_rx st c | None => false end.

(** result of one poll of [changed()] (T1) *)
Inductive chres := ChOk | ChClosed | ChPending.
Definition changed_res (st : state) (r : nat) : chres :=
  let x := rcvs st r in
  let c := cells st (rcell x) in
  if negb (rseen x =? cver c) then ChOk else if cclosed c then ChClosed else ChPending.

(** * Quiescence: no forwarding task can take a step *)
Definition fwd_enabled (st : state) (d : nat) : bool :=
  match cpar (cells st d) with
  | None => false
  | Some c =>
      let x := cells st d in
      let pc := cells st c in
      (lsend x && negb (lseen x =? cver pc))                  (* FwdTake *)
      || (lsend x && (lseen x =? cver pc) && cclosed pc)      (* FwdEnd *)
      || (lsend x && negb (lrecv x))                          (* FwdStop *)
      || (lrecv x && match lchan x with [] => false | _ => true end)   (* FwdDeliver *)
      || (lrecv x && negb (has_rx st d))                      (* RecvStop *)
  end.

Definition quiescent (st : state) : bool :=
  forallb (fun d => negb (fwd_enabled st d)) (seq 0 (ncell st)).

(** latest value stored: (index, payload) *)
Definition latest (st : state) : val := (len (sent st) - 1, last (sent st) 0).

(** * Big steps for the correspondence check

    One pass over the cells runs, for every link, whichever forwarding steps are enabled; the passes
    are repeated while something changes (fuel = number of passes).  Every big step is a list of
    small steps ([WatchProofs.quiesce_sound]). *)
Definition try_step (st : state) (a : action) : state :=
  match step st a with Some st' => st' | None => st end.

Fixpoint try_steps (acts : list action) (st : state) : state :=
  match acts with [] => st | a :: r => try_steps r (try_step st a) end.

Definition pass_acts (n : nat) : list action :=
  flat_map (fun d => [FwdTake d; FwdEnd d; FwdDeliver d; RecvStop d; FwdStop d]) (seq 0 n).

Fixpoint quiesce (fuel : nat) (st : state) : state :=
  match fuel with
  | O => st
  | S f => if quiescent st then st else quiesce f (try_steps (pass_acts (ncell st)) st)
  end.
