(** Model of [remoc::rch::broadcast] (sender.rs, receiver.rs, mod.rs).

    Transcribed structure
    ---------------------
    [SenderInner] holds [subs] (subscribers that are tried on the next [send]), an unbounded
    [ready] queue on which re-admission tasks hand subscribers back, and the counter [not_ready].
    Every subscriber is one [rch::mpsc] channel of [BroadcastMsg<T>] = [Value v | Lagged] with the
    capacity given to [subscribe(send_buffer)] (a Tokio bounded mpsc: FIFO + permit semaphore).

    [Sender::send(value)] (synchronous, never awaits):
      1. drains the ready queue into [subs];
      2. for every subscriber in [subs]: [try_send(Value(value))]
           Ok      -> stays in [subs];
           Full    -> removed from [subs], [not_ready += 1], and a task is spawned that runs
                        (R1)  sub.send(Lagged).await        -- waits for a free slot, pushes the marker
                        (R2)  let _permit = sub.reserve().await   -- waits for a free slot and holds it
                              ready_tx.send(sub)            -- subscriber is handed back
                        (R3)  drop(_permit)                 -- end of the task body: slot released
                      errors of (R1)/(R2) (receiver dropped) are ignored, the subscriber is handed
                      back all the same and is removed by the next [send];
           Closed  -> removed (receiver was dropped).
      3. returns [Err(Closed)] iff no subscriber is left in [subs] and [not_ready = 0].
    Since step 1 precedes step 2 in the same critical section, "in [subs]" and "in the ready queue"
    are indistinguishable to every later [send]; both are the status [Ready] here.

    (R2) and (R3) are separate actions: on a multi-threaded runtime a [send] can run between the
    hand-back and the release of the permit; it then finds the last slot still taken, gets [Full]
    and parks the subscriber again (a second marker follows).  [held] counts such permits.

    [Receiver::recv/try_recv] map [Value v] to [Ok v] and [Lagged] to [Err(Lagged)]; dropping the
    receiver closes the mpsc channel and discards what is queued.

    All nondeterminism (when the application sends, subscribes, consumes, drops; when each stage of
    each re-admission task runs) is the [action] argument of [step]. *)
From Remoc Require Import Lib.Base.

Inductive item := Value (i : N) | Lagged.

(** stage of the re-admission task a parked subscriber is waiting in *)
Inductive stage :=
| SendLagged      (* (R1) [sub.send(Lagged).await] not completed: the marker is still owed *)
| Reserve.        (* (R2) marker queued (or receiver gone); [sub.reserve().await] not completed *)

Inductive status :=
| Ready                 (* in [subs] or in the ready queue *)
| Parked (g : stage)    (* owned by its re-admission task; counted in [not_ready] *)
| Gone.                 (* [try_send] returned [Closed]: removed from the sender for good *)

Record sub := mk_sub {
  queue : list item;       (* Tokio mpsc buffer, oldest first *)
  cap : N;                 (* [send_buffer] *)
  held : N;                (* permits taken by (R2) and not yet released by (R3) *)
  status_of : status;
  consumed : list item;    (* what the application has received so far, in order *)
  alive : bool;            (* receiver not dropped *)
  (* ghost fields, not read by [step] *)
  start : N;               (* index of the first value sent after [subscribe] *)
  parked_ever : bool;      (* some [send] found the queue full *)
}.

Record state := mk_state {
  subs : list sub;         (* position = subscriber id; subscribers are never removed from this list *)
  next : N;                (* index of the next value to be sent *)
}.

Definition init : state := {| subs := []; next := 0 |}.

Inductive action :=
| Send
| Subscribe (c : N)
| Consume (s : N)
| Readmit1 (s : N)     (* (R1) *)
| Readmit2 (s : N)     (* (R2) + hand-back *)
| Release (s : N)      (* (R3) *)
| Drop (s : N).

(** everything the subscriber has been handed or will be handed without further sends *)
Definition stream (s : sub) : list item := consumed s ++ queue s.

(** a free slot: queued messages and outstanding permits both occupy slots *)
Definition room (s : sub) : bool := len (queue s) + held s <? cap s.

Definition push (x : item) (s : sub) : sub :=
  mk_sub (queue s ++ [x]) (cap s) (held s) (status_of s) (consumed s) (alive s) (start s) (parked_ever s).
Definition set_status (t : status) (s : sub) : sub :=
  mk_sub (queue s) (cap s) (held s) t (consumed s) (alive s) (start s) (parked_ever s).
Definition park (s : sub) : sub :=
  mk_sub (queue s) (cap s) (held s) (Parked SendLagged) (consumed s) (alive s) (start s) true.
Definition set_held (h : N) (s : sub) : sub :=
  mk_sub (queue s) (cap s) h (status_of s) (consumed s) (alive s) (start s) (parked_ever s).

Definition new_sub (c n : N) : sub :=
  mk_sub [] c 0 Ready [] true n false.

(** effect of [send] of value number [n] on one subscriber *)
Definition sub_send (n : N) (s : sub) : sub :=
  match status_of s with
  | Ready =>
      if negb (alive s) then set_status Gone s          (* Closed *)
      else if room s then push (Value n) s               (* Ok *)
      else park s                                        (* Full *)
  | Parked _ => s                                        (* not in [subs] *)
  | Gone => s
  end.

(** (R1) *)
Definition sub_readmit1 (s : sub) : option sub :=
  match status_of s with
  | Parked SendLagged =>
      if negb (alive s) then Some (set_status (Parked Reserve) s)        (* send fails, ignored *)
      else if room s then Some (set_status (Parked Reserve) (push Lagged s))
      else None
  | _ => None
  end.

(** (R2) and hand-back *)
Definition sub_readmit2 (s : sub) : option sub :=
  match status_of s with
  | Parked Reserve =>
      if negb (alive s) then Some (set_status Ready s)                    (* reserve fails, ignored *)
      else if room s then Some (set_status Ready (set_held (held s + 1) s))
      else None
  | _ => None
  end.

(** (R3) *)
Definition sub_release (s : sub) : option sub :=
  if 0 <? held s then Some (set_held (held s - 1) s) else None.

Definition sub_consume (s : sub) : option sub :=
  if alive s then
    match queue s with
    | x :: q => Some (mk_sub q (cap s) (held s) (status_of s) (consumed s ++ [x]) true (start s) (parked_ever s))
    | [] => None
    end
  else None.

Definition sub_drop (s : sub) : option sub :=
  if alive s then Some (mk_sub [] (cap s) (held s) (status_of s) (consumed s) false (start s) (parked_ever s))
  else None.

(** apply a partial update to subscriber number [i] *)
Fixpoint upd (l : list sub) (i : nat) (f : sub -> option sub) : option (list sub) :=
  match l, i with
  | [], _ => None
  | x :: r, O => match f x with Some y => Some (y :: r) | None => None end
  | x :: r, S j => match upd r j f with Some r' => Some (x :: r') | None => None end
  end.

Definition upd_state (st : state) (i : N) (f : sub -> option sub) : option state :=
  match upd (subs st) (N.to_nat i) f with
  | Some l => Some (mk_state l (next st))
  | None => None
  end.

Definition send_state (st : state) : state :=
  mk_state (map (sub_send (next st)) (subs st)) (next st + 1).

(** [None] = the action is not enabled.  [Subscribe 0] is not enabled: [mpsc::channel] asserts
    [local_buffer > 0] (documented precondition of [subscribe]). *)
Definition step (st : state) (a : action) : option state :=
  match a with
  | Send => Some (send_state st)
  | Subscribe c => if c =? 0 then None else Some (mk_state (subs st ++ [new_sub c (next st)]) (next st))
  | Consume i => upd_state st i sub_consume
  | Readmit1 i => upd_state st i sub_readmit1
  | Readmit2 i => upd_state st i sub_readmit2
  | Release i => upd_state st i sub_release
  | Drop i => upd_state st i sub_drop
  end.

Fixpoint run (acts : list action) (st : state) : option state :=
  match acts with
  | [] => Some st
  | a :: r => match step st a with Some st' => run r st' | None => None end
  end.

(** result of the [send] that produced [st]: [Ok] iff a subscriber is left *)
Definition is_gone (s : sub) : bool := match status_of s with Gone => true | _ => false end.
Definition receiver_count (st : state) : N := len (filter (fun s => negb (is_gone s)) (subs st)).
Definition send_ok (st : state) : bool := negb (receiver_count st =? 0).

(** * The property as a predicate on one subscriber's stream

    [wf_stream e lagged l]: [e] is the lowest index the next value may carry, [lagged] says that a
    marker has been received since the last value.  Without a marker the next value is exactly [e]
    (no gap, no duplicate, no reordering); every marker stands for at least one skipped value, so
    after [m >= 1] markers the next value is at least [e + m]. *)
Inductive wf_stream : N -> bool -> list item -> Prop :=
| wf_nil e b : wf_stream e b []
| wf_next e l : wf_stream (e + 1) false l -> wf_stream e false (Value e :: l)
| wf_gap e j l : e <= j -> wf_stream (j + 1) false l -> wf_stream e true (Value j :: l)
| wf_lag e b l : wf_stream (e + 1) true l -> wf_stream e b (Lagged :: l).

(** where reading a stream ends: (first index not yet accounted for by a value or a marker,
    marker received since the last value) *)
Fixpoint end_state (e : N) (b : bool) (l : list item) : N * bool :=
  match l with
  | [] => (e, b)
  | Value i :: r => end_state (i + 1) false r
  | Lagged :: r => end_state (e + 1) true r
  end.

(** what is pending for a live subscriber, in terms of [end_state] of its stream and the number
    [n] of values sent so far *)
Definition pending_ok (n : N) (s : sub) : Prop :=
  let '(e, b) := end_state (start s) false (stream s) in
  match status_of s with
  | Ready => if b then e <= n else e = n          (* nothing missed, or the marker for it is in the stream *)
  | Parked SendLagged => e < n                      (* values e..n-1 were skipped; marker owed by (R1) *)
  | Parked Reserve => b = true /\ e <= n            (* marker is the last thing in the stream *)
  | Gone => False
  end.

(** the values with indices a, a+1, ..., a+k-1 *)
Fixpoint vals_from (a : N) (k : nat) : list item :=
  match k with O => [] | S k' => Value a :: vals_from (a + 1) k' end.

Definition values (l : list item) : list N :=
  flat_map (fun x => match x with Value i => [i] | Lagged => [] end) l.

(** * Big steps

    The correspondence check drives the implementation in big steps; each big step of the model is
    a sequence of small steps ([try_step] skips an action that is not enabled), so every state the
    big-step runner visits is reachable by [run] ([BroadcastProofs.big_sound]).

    "quiesce": every re-admission task runs as far as it can.  Subscribers are independent, so one
    pass (R3)*; (R1); (R2); (R3)* per subscriber in list order suffices. *)
Definition try_step (st : state) (a : action) : state :=
  match step st a with Some st' => st' | None => st end.

Fixpoint try_steps (acts : list action) (st : state) : state :=
  match acts with [] => st | a :: r => try_steps r (try_step st a) end.

Definition held_of (st : state) (i : N) : N :=
  match nth_error (subs st) (N.to_nat i) with Some s => held s | None => 0 end.

Definition quiesce_sub (st : state) (i : N) : state :=
  let st0 := try_steps (repeat (Release i) (N.to_nat (held_of st i))) st in
  let st1 := try_steps [Readmit1 i; Readmit2 i] st0 in
  try_steps (repeat (Release i) (N.to_nat (held_of st1 i))) st1.

Definition quiesce (st : state) : state :=
  fold_left quiesce_sub (map N.of_nat (seq 0 (length (subs st)))) st.

Inductive bigop :=
| BSend
| BSubscribe (c : N)
| BConsume (s k : N)     (* up to k items *)
| BDrop (s : N)
| BQuiesce.

Definition big (st : state) (o : bigop) : state :=
  match o with
  | BSend => try_step st Send
  | BSubscribe c => try_step st (Subscribe c)
  | BConsume s k => try_steps (repeat (Consume s) (N.to_nat k)) st
  | BDrop s => try_step st (Drop s)
  | BQuiesce => quiesce st
  end.
